/-!
# Model of `aas_core_codegen.yielding` (flow.py, linear.py) and of the state machine that
`aas_core_codegen/cpp/yielding.py` emits for the linearized subroutines (C26).

* `Node` — structured control flow (`flow.py`): command, if-true / if-false with optional
  `or_else`, for with optional `init`, while, yield.  `IfTrue`/`IfFalse` are one constructor
  pair with a polarity flag (`pos = true` ⇔ `IfTrue`); "no `or_else`" (`ifThen`) and
  "`or_else` given, possibly the empty list" (`ifElse`) are different constructors, as in Python
  (`None` vs `[]`).
* `Flow.run` — the structured semantics.  The oracle is the list of condition outcomes consumed
  in order; the run ends when the flow ends (`ended`) or a condition finds the oracle empty
  (`exhausted`).  Written with an explicit continuation (the nodes still to be executed), so
  every step either consumes an outcome or shrinks the continuation: no fuel.
* `Stmt`, `linNode/linSeq` … `toSubroutines` — `linear.py`, pass by pass, label allocation
  literally as in Python (in-place mutation becomes functions returning the new list).
* `runFlat` — goto machine over one labelled statement list (the intermediate stages).
* `runSub` — the resumable state machine over subroutines exactly as `cpp/yielding.py` emits it:
  `while (true) switch (state) { case L: {…} … default: throw }` **with C++ fall-through** from
  one `case` into the next and from the last one into `default:` (→ `std::logic_error`,
  site `invalidState`), the "invalidate and return" only after a *Command* that ends the last
  subroutine, `yield` = `state := label of the next subroutine; return` (the caller resumes).

Codes of commands/conditions are opaque to all of this code (`Code := Nat`).
-/
namespace AasVerif.Yielding

abbrev Code := Nat

inductive Event where
  | cmd (c : Code)
  | cond (c : Code) (b : Bool)
  | yield
  deriving DecidableEq, Repr

/-- Places where the emitted machine / the emitter can raise. -/
inductive Site where
  /-- C++ `default:` branch of the emitted switch: `throw std::logic_error("Invalid state")`. -/
  | invalidState
  /-- `If` statement without `on_true` and `on_false`: `AssertionError` in `cpp/yielding.py`. -/
  | noTarget
  /-- The (model-only) step budget of the goto machines ran out: the machine spins. -/
  | outOfFuel
  deriving DecidableEq, Repr

inductive Status where
  | ended
  | exhausted
  | crash (s : Site)
  deriving DecidableEq, Repr

structure Result where
  events : List Event
  status : Status
  deriving DecidableEq, Repr

def Result.cons (ev : Option Event) (r : Result) : Result :=
  ⟨ev.toList ++ r.events, r.status⟩

/-! ## Structured flow -/

inductive Node where
  | command (c : Code)
  | ifThen (pos : Bool) (c : Code) (body : List Node)
  | ifElse (pos : Bool) (c : Code) (body : List Node) (orElse : List Node)
  | forLoop (init : Option Code) (c : Code) (iter : Code) (body : List Node)
  | whileLoop (c : Code) (body : List Node)
  | yield
  deriving Repr

mutual
def Node.size : Node → Nat
  | .command _ => 1
  | .yield => 1
  | .ifThen _ _ b => 1 + sizeSeq b
  | .ifElse _ _ b e => 1 + sizeSeq b + sizeSeq e
  | .forLoop init _ _ b => (if init.isSome then 4 else 3) + sizeSeq b
  | .whileLoop _ b => 1 + sizeSeq b
def sizeSeq : List Node → Nat
  | [] => 0
  | n :: ns => n.size + sizeSeq ns
end

theorem sizeSeq_append (a b : List Node) : sizeSeq (a ++ b) = sizeSeq a + sizeSeq b := by
  induction a with
  | nil => simp [sizeSeq]
  | cons n ns ih => simp [sizeSeq, ih, Nat.add_assoc]

/- The `@require(len(body) >= 1)` of `IfTrue.__init__` / `IfFalse.__init__`: flows violating it
cannot be constructed. -/
mutual
def Node.wf : Node → Bool
  | .command _ => true
  | .yield => true
  | .ifThen _ _ b => !b.isEmpty && wfSeq b
  | .ifElse _ _ b e => !b.isEmpty && wfSeq b && wfSeq e
  | .forLoop _ _ _ b => wfSeq b
  | .whileLoop _ b => wfSeq b
def wfSeq : List Node → Bool
  | [] => true
  | n :: ns => n.wf && wfSeq ns
end

/-- Structured semantics; `todo` is the continuation (nodes still to run). -/
def Flow.run : List Node → List Bool → Result
  | [], _ => ⟨[], .ended⟩
  | .command c :: k, orc => (Flow.run k orc).cons (some (.cmd c))
  | .yield :: k, orc => (Flow.run k orc).cons (some .yield)
  | .ifThen _ _ _ :: _, [] => ⟨[], .exhausted⟩
  | .ifThen pos c body :: k, b :: orc =>
      (Flow.run (if b = pos then body ++ k else k) orc).cons (some (.cond c b))
  | .ifElse _ _ _ _ :: _, [] => ⟨[], .exhausted⟩
  | .ifElse pos c body els :: k, b :: orc =>
      (Flow.run (if b = pos then body ++ k else els ++ k) orc).cons (some (.cond c b))
  | .forLoop (some i) c it body :: k, orc =>
      (Flow.run (.forLoop none c it body :: k) orc).cons (some (.cmd i))
  | .forLoop none _ _ _ :: _, [] => ⟨[], .exhausted⟩
  | .forLoop none c it body :: k, b :: orc =>
      (Flow.run (if b then body ++ .command it :: .forLoop none c it body :: k else k) orc).cons
        (some (.cond c b))
  | .whileLoop _ _ :: _, [] => ⟨[], .exhausted⟩
  | .whileLoop c body :: k, b :: orc =>
      (Flow.run (if b then body ++ .whileLoop c body :: k else k) orc).cons (some (.cond c b))
termination_by todo orc => (orc.length, sizeSeq todo)
decreasing_by
  all_goals simp_wf
  all_goals first
    | (apply Prod.Lex.right; simp [sizeSeq, Node.size]; done)
    | (apply Prod.Lex.right; simp [sizeSeq, Node.size]; omega)
    | (apply Prod.Lex.left; simp; done)

/-! ## Linear code -/

inductive Op where
  | command (c : Code)
  | ifJ (c : Code) (onTrue onFalse : Option Nat)
  | jump (target : Nat)
  | yield
  | noop
  deriving DecidableEq, Repr

structure Stmt where
  label : Option Nat
  op : Op
  deriving DecidableEq, Repr

def Stmt.isNoop (s : Stmt) : Bool := s.op = .noop
def Stmt.isYield (s : Stmt) : Bool := s.op = .yield
def Stmt.isCommand (s : Stmt) : Bool := match s.op with | .command _ => true | _ => false

/-- `If(condition, label)` whose single target (the "other" branch) is `t`:
`IfTrue` sets `on_false`, `IfFalse` sets `on_true`. -/
def ifStmt (pos : Bool) (c : Code) (l t : Nat) : Stmt :=
  ⟨some l, if pos then .ifJ c none (some t) else .ifJ c (some t) none⟩

/- `_linearize_node` / `_linearize_sequence`: statements and the next free label. -/
mutual
def linNode : Node → Nat → List Stmt × Nat
  | .command c, l => ([⟨some l, .command c⟩], l + 1)
  | .yield, l => ([⟨some l, .yield⟩], l + 1)
  | .ifElse pos c body els, l =>
      let b := linSeq body (l + 1)
      let e := linSeq els (b.2 + 1)
      ([ifStmt pos c l (b.2 + 1)] ++ b.1 ++ [⟨some b.2, .jump e.2⟩] ++ e.1 ++ [⟨some e.2, .noop⟩],
        e.2 + 1)
  | .ifThen pos c body, l =>
      let b := linSeq body (l + 1)
      ([ifStmt pos c l b.2] ++ (if b.1.isEmpty then [⟨some b.2, .noop⟩] else []) ++ b.1
          ++ [⟨some b.2, .noop⟩],
        b.2 + 1)
  | .forLoop init c it body, l =>
      let pre : List Stmt := match init with | some i => [⟨some l, .command i⟩] | none => []
      let l0 := match init with | some _ => l + 1 | none => l
      let b := linSeq body (l0 + 1)
      (pre ++ [⟨some l0, .ifJ c none (some (b.2 + 2))⟩] ++ b.1
          ++ [⟨some b.2, .command it⟩, ⟨some (b.2 + 1), .jump l0⟩, ⟨some (b.2 + 2), .noop⟩],
        b.2 + 3)
  | .whileLoop c body, l =>
      let b := linSeq body (l + 1)
      ([⟨some l, .ifJ c none (some (b.2 + 1))⟩] ++ b.1
          ++ [⟨some b.2, .jump l⟩, ⟨some (b.2 + 1), .noop⟩],
        b.2 + 2)
def linSeq : List Node → Nat → List Stmt × Nat
  | [], l => ([], l)
  | n :: ns, l =>
      let a := linNode n l
      let r := linSeq ns a.2
      (a.1 ++ r.1, r.2)
end

/-- `_linearize_control_flow` -/
def linearize (flow : List Node) : List Stmt := (linSeq flow 0).1

def Op.targets : Op → List Nat
  | .jump t => [t]
  | .ifJ _ a b => a.toList ++ b.toList
  | _ => []

/-- `_collect_targets` (as a list; only membership is used) -/
def targets (ss : List Stmt) : List Nat := ss.flatMap (fun s => s.op.targets)

/-- `_remove_redundant_labels_in_place` -/
def dropLabels (ss : List Stmt) : List Stmt :=
  let ts := targets ss
  ss.map fun s => match s.label with
    | some l => if l ∈ ts then s else { s with label := none }
    | none => s

/-- Python `dict` built by successive assignments: the last assignment of a key wins. -/
def lookupLast (m : List (Nat × Nat)) (k : Nat) : Option Nat :=
  match m with
  | [] => none
  | (a, b) :: rest =>
    match lookupLast rest k with
    | some v => some v
    | none => if a = k then some b else none

def rewireT (m : List (Nat × Nat)) (t : Nat) : Nat := (lookupLast m t).getD t

def Op.rewire (m : List (Nat × Nat)) : Op → Op
  | .jump t => .jump (rewireT m t)
  | .ifJ c a b => .ifJ c (a.map (rewireT m)) (b.map (rewireT m))
  | op => op

def keepStmt (s : Stmt) : Bool := !s.isNoop || s.label.isSome

/-- The main loop of `_remove_noops_in_place` over the pre-filtered statements.
`block` holds the labels of the pending no-op block (`noop_block`; every no-op that reaches the
loop is labelled, the Python asserts this — an unlabelled one cannot occur after the filter).
Returns the statements that survive the second filter and `old_to_new_target` in assignment order. -/
def sweep : List Stmt → List Nat → List Stmt × List (Nat × Nat)
  | [], [] => ([], [])
  | [], b0 :: rest => ([⟨some b0, .noop⟩], rest.map (fun l => (l, b0)))
  | s :: ss, block =>
    if s.isNoop then
      sweep ss (block ++ s.label.toList)
    else
      match block with
      | [] =>
        let r := sweep ss []
        (s :: r.1, r.2)
      | b0 :: _ =>
        let l := s.label.getD b0
        let r := sweep ss []
        (⟨some l, s.op⟩ :: r.1, block.map (fun x => (x, l)) ++ r.2)

/-- `_remove_noops_in_place` -/
def removeNoops (ss : List Stmt) : List Stmt :=
  let r := sweep (ss.filter keepStmt) []
  r.1.map fun s => { s with op := s.op.rewire r.2 }

/-- `_compress_in_place` -/
def compress (ss : List Stmt) : List Stmt := removeNoops (dropLabels ss)

def maxLabel0 : List Stmt → Nat
  | [] => 0
  | s :: ss => max (s.label.getD 0) (maxLabel0 ss)

/-- second loop of `_fix_labels_in_place`: a fresh label after each yield -/
def labelAfterYield : List Stmt → Bool → Nat → List Stmt
  | [], _, _ => []
  | s :: ss, prevYield, l =>
    if prevYield && s.label.isNone then
      ⟨some l, s.op⟩ :: labelAfterYield ss s.isYield (l + 1)
    else
      s :: labelAfterYield ss s.isYield l

/-- `old_to_new_label` in assignment order -/
def renumberMap : List Stmt → Nat → List (Nat × Nat)
  | [], _ => []
  | s :: ss, n =>
    match s.label with
    | some l => (l, n) :: renumberMap ss (n + 1)
    | none => renumberMap ss n

/-- `_fix_labels_in_place` -/
def fixLabels (ss : List Stmt) : List Stmt :=
  match ss with
  | [] => []
  | s0 :: rest =>
    let fresh := maxLabel0 ss + 1
    let first : Stmt := match s0.label with | none => ⟨some fresh, s0.op⟩ | some _ => s0
    let fresh1 := match s0.label with | none => fresh + 1 | some _ => fresh
    let ss1 := first :: labelAfterYield rest s0.isYield fresh1
    let m := renumberMap ss1 0
    ss1.map fun s =>
      { label := s.label.map (fun l => (lookupLast m l).getD l), op := s.op.rewire m }

/-- `_split_in_subroutines`; `block` is the current block (in order). -/
def splitAux : List Stmt → List Stmt → List (List Stmt)
  | [], block => if block.isEmpty then [] else [block]
  | s :: ss, block =>
    if s.label.isSome then
      (if block.isEmpty then [] else [block]) ++ splitAux ss [s]
    else
      splitAux ss (block ++ [s])

def split (ss : List Stmt) : List (List Stmt) := splitAux ss []

/-- `linearize_to_subroutines` (without its `@ensure`, which is theorem `labels_consecutive`) -/
def toSubroutines (flow : List Node) : List (List Stmt) :=
  if flow.isEmpty then [] else split (fixLabels (compress (linearize flow)))

def subLabel (sub : List Stmt) : Option Nat := sub.head?.bind (·.label)

/-- The `@ensure` of `linearize_to_subroutines`. -/
def consecutiveB : List (List Stmt) → Bool
  | a :: b :: rest =>
    (match subLabel a, subLabel b with
      | some x, some y => x + 1 == y
      | _, _ => false) && consecutiveB (b :: rest)
  | _ => true

/-! ## Machines -/

inductive Step (σ : Type) where
  | halt (ev : Option Event) (st : Status)
  | next (ev : Option Event) (s : σ) (orc : List Bool)

/-- Run a deterministic machine for at most `fuel` steps. -/
def runM {σ : Type} (step : σ → List Bool → Step σ) : Nat → σ → List Bool → Result
  | 0, _, _ => ⟨[], .crash .outOfFuel⟩
  | f + 1, s, orc =>
    match step s orc with
    | .halt ev st => ⟨ev.toList, st⟩
    | .next ev s' orc' => (runM step f s' orc').cons ev

def findLabel : List Stmt → Nat → Option Nat
  | [], _ => none
  | s :: ss, l => if s.label = some l then some 0 else (findLabel ss l).map (· + 1)

/-- What one statement does, independent of how positions are represented:
`fall` = go on with the next statement. -/
inductive Act where
  | fall (ev : Option Event) (orc : List Bool)
  | goto (ev : Option Event) (l : Nat) (orc : List Bool)
  | yield
  | stop (st : Status)

def act (op : Op) (orc : List Bool) : Act :=
  match op with
  | .command c => .fall (some (.cmd c)) orc
  | .noop => .fall none orc
  | .yield => .yield
  | .jump t => .goto none t orc
  | .ifJ c onT onF =>
    if onT.isNone && onF.isNone then .stop (.crash .noTarget) else
    match orc with
    | [] => .stop .exhausted
    | b :: orc' =>
      match (if b then onT else onF) with
      | some t => .goto (some (.cond c b)) t orc'
      | none => .fall (some (.cond c b)) orc'

/-- goto machine over one statement list; falling off the end = `ended`;
a jump to a label that no statement carries = `invalidState`. -/
def flatStep (C : List Stmt) (pc : Nat) (orc : List Bool) : Step Nat :=
  match C[pc]? with
  | none => .halt none .ended
  | some s =>
    match act s.op orc with
    | .fall ev orc' => .next ev (pc + 1) orc'
    | .yield => .next (some .yield) (pc + 1) orc
    | .stop st => .halt none st
    | .goto ev l orc' =>
      match findLabel C l with
      | some p => .next ev p orc'
      | none => .halt ev (.crash .invalidState)

def findSub : List (List Stmt) → Nat → Option Nat
  | [], _ => none
  | sub :: rest, l => if subLabel sub = some l then some 0 else (findSub rest l).map (· + 1)

/-- `switch (state)`: jump to the `case` of label `l`, or to `default:` (throw). -/
def dispatch (subs : List (List Stmt)) (ev : Option Event) (l : Nat) (orc : List Bool) :
    Step (Nat × Nat) :=
  match findSub subs l with
  | some i => .next ev (i, 0) orc
  | none => .halt ev (.crash .invalidState)

/-- One step of the emitted C++ at "statement `j` of `case` block `i`". -/
def subStep (subs : List (List Stmt)) (p : Nat × Nat) (orc : List Bool) : Step (Nat × Nat) :=
  match subs[p.1]? with
  | none => .halt none (.crash .invalidState)        -- fell through the last `case` into `default:`
  | some sub =>
    match sub[p.2]? with
    | none => .next none (p.1 + 1, 0) orc             -- C++ fall-through into the next `case`
    | some s =>
      match act s.op orc with
      | .fall ev orc' =>
        if s.isCommand && p.2 + 1 == sub.length && p.1 + 1 == subs.length then
          .halt ev .ended                              -- "invalidate the state … return;"
        else .next ev (p.1, p.2 + 1) orc'
      | .stop st => .halt none st
      | .goto ev l orc' => dispatch subs ev l orc'     -- `state_ = l; continue;`
      | .yield =>
        -- `state_ = <label of next subroutine | own label + 1>; return;` and the caller resumes
        match subs[p.1 + 1]? with
        | some nxt =>
          (match subLabel nxt with
            | some l => dispatch subs (some .yield) l orc
            | none => .halt (some .yield) (.crash .invalidState))
        | none =>
          (match subLabel sub with
            | some l => dispatch subs (some .yield) (l + 1) orc
            | none => .halt (some .yield) (.crash .invalidState))

def totalLen (subs : List (List Stmt)) : Nat := (subs.map List.length).sum

/-- Step budget (`n` = number of statements).  Between two condition evaluations a program
produced by the pipeline executes no statement twice (every cycle passes an `If`); the
linearization is at most twice as long as the final code, and the state machine spends one extra
step per `case` fall-through — `Props.C26.runSub_correct` proves that this budget suffices. -/
def defaultFuel (n : Nat) (orc : List Bool) : Nat := (orc.length + 1) * (4 * n + 4) + 2

def runFlatFuel (fuel : Nat) (C : List Stmt) (orc : List Bool) : Result :=
  runM (flatStep C) fuel 0 orc

def runFlat (C : List Stmt) (orc : List Bool) : Result :=
  runFlatFuel (defaultFuel C.length orc) C orc

/-- The state machine starts with `state_ = 0` (set by `Start()` in `_generate_iteration.py`), i.e.
with `switch (0)`.  The empty list of subroutines is emitted as `// Intentionally empty.`:
returns at once. -/
def runSubFuel (fuel : Nat) (subs : List (List Stmt)) (orc : List Bool) : Result :=
  match subs with
  | [] => ⟨[], .ended⟩
  | _ =>
    match findSub subs 0 with
    | some i => runM (subStep subs) fuel (i, 0) orc
    | none => ⟨[], .crash .invalidState⟩

def runSub (subs : List (List Stmt)) (orc : List Bool) : Result :=
  runSubFuel (defaultFuel (totalLen subs) orc) subs orc

/-! ## Wire format (shared by the driver and the Python printer in `harness/props/c26.py`) -/

namespace Wire

def optNat : Option Nat → String
  | some n => toString n
  | none => "-"

def op : Op → String
  | .command c => s!"c{c}"
  | .ifJ c a b => s!"i{c}?{optNat a}:{optNat b}"
  | .jump t => s!"j{t}"
  | .yield => "y"
  | .noop => "n"

def stmt (s : Stmt) : String := s!"{optNat s.label}={op s.op}"

def stmts (ss : List Stmt) : String :=
  if ss.isEmpty then "[]" else ";".intercalate (ss.map stmt)

def subs (ss : List (List Stmt)) : String :=
  if ss.isEmpty then "[]" else "|".intercalate (ss.map stmts)

def event : Event → String
  | .cmd c => s!"c{c}"
  | .cond c b => s!"?{c}{if b then "T" else "F"}"
  | .yield => "y"

def status : Status → String
  | .ended => "E"
  | .exhausted => "X"
  | .crash .invalidState => "!invalidState"
  | .crash .noTarget => "!noTarget"
  | .crash .outOfFuel => "!outOfFuel"

def result (r : Result) : String :=
  ",".intercalate (r.events.map event) ++ "/" ++ status r.status

def oracle (s : String) : Option (List Bool) :=
  if s == "-" then some [] else
  s.toList.foldr (fun c acc => match acc with
    | none => none
    | some l => if c == 'T' then some (true :: l) else if c == 'F' then some (false :: l) else none)
    (some [])

/-- Flow wire form: `seq := "(" [node {"," node}] ")"`,
`node := c<N> | y | t(<N>,seq) | f(<N>,seq) | T(<N>,seq,seq) | F(<N>,seq,seq)
      | r(<N>|-,<N>,<N>,seq) | w(<N>,seq)`; tokens: `(` `)` `,` and atoms. -/
inductive Tok where
  | lp | rp | comma | atom (s : String)
  deriving DecidableEq, Repr

def tokenize (s : String) : List Tok :=
  let flush (cur : List Char) (acc : List Tok) : List Tok :=
    if cur.isEmpty then acc else Tok.atom (String.ofList cur.reverse) :: acc
  let r := s.toList.foldl (fun (st : List Char × List Tok) ch =>
    if ch == '(' then ([], Tok.lp :: flush st.1 st.2)
    else if ch == ')' then ([], Tok.rp :: flush st.1 st.2)
    else if ch == ',' then ([], Tok.comma :: flush st.1 st.2)
    else (ch :: st.1, st.2)) ([], [])
  (flush r.1 r.2).reverse

def codeOf (pre : Char) (s : String) : Option Nat :=
  match s.toList with
  | c :: rest => if c == pre && !rest.isEmpty then (String.ofList rest).toNat? else none
  | [] => none

mutual
/-- parses one node; fuel bounds the recursion depth × length -/
def pNode : Nat → List Tok → Option (Node × List Tok)
  | 0, _ => none
  | f + 1, .atom a :: .lp :: rest =>
    if a == "t" || a == "f" then
      match rest with
      | .atom n :: .comma :: rest => do
        let c ← n.toNat?
        let (b, rest) ← pSeq f rest
        match rest with
        | .rp :: rest => some (.ifThen (a == "t") c b, rest)
        | _ => none
      | _ => none
    else if a == "T" || a == "F" then
      match rest with
      | .atom n :: .comma :: rest => do
        let c ← n.toNat?
        let (b, rest) ← pSeq f rest
        match rest with
        | .comma :: rest =>
          let (e, rest) ← pSeq f rest
          match rest with
          | .rp :: rest => some (.ifElse (a == "T") c b e, rest)
          | _ => none
        | _ => none
      | _ => none
    else if a == "w" then
      match rest with
      | .atom n :: .comma :: rest => do
        let c ← n.toNat?
        let (b, rest) ← pSeq f rest
        match rest with
        | .rp :: rest => some (.whileLoop c b, rest)
        | _ => none
      | _ => none
    else if a == "r" then
      match rest with
      | .atom i :: .comma :: .atom n :: .comma :: .atom it :: .comma :: rest => do
        let init ← if i == "-" then some none else i.toNat?.map some
        let c ← n.toNat?
        let it ← it.toNat?
        let (b, rest) ← pSeq f rest
        match rest with
        | .rp :: rest => some (.forLoop init c it b, rest)
        | _ => none
      | _ => none
    else none
  | _ + 1, .atom a :: rest =>
    if a == "y" then some (.yield, rest)
    else (codeOf 'c' a).map (fun c => (.command c, rest))
  | _ + 1, _ => none
def pSeq : Nat → List Tok → Option (List Node × List Tok)
  | 0, _ => none
  | _ + 1, .lp :: .rp :: rest => some ([], rest)
  | f + 1, .lp :: rest => pItems f rest
  | _ + 1, _ => none
def pItems : Nat → List Tok → Option (List Node × List Tok)
  | 0, _ => none
  | f + 1, toks => do
    let (n, rest) ← pNode f toks
    match rest with
    | .rp :: rest => some ([n], rest)
    | .comma :: rest =>
      let (ns, rest) ← pItems f rest
      some (n :: ns, rest)
    | _ => none
end

def flow (s : String) : Option (List Node) :=
  let toks := tokenize s
  match pSeq (toks.length + 1) toks with
  | some (ns, []) => some ns
  | _ => none

end Wire

end AasVerif.Yielding
