import AasVerif.Model.Yielding
/-!
Decidable static checks ("translation validation") used as hypotheses of the `_partial`
theorems of C26 and evaluated by the driver on every correspondence input.

* `simCheck C C' phi` — `C'` simulates `C` along the position map `phi` (`phi[i]` = position in
  `C'` that corresponds to position `i` of `C`): every statement of `C` is either a no-op that
  is skipped (`phi[i+1] = phi[i]`) or has a counterpart of the same kind at `phi[i]` whose jump
  targets resolve to the `phi`-image of what the original targets resolve to.
* `subsCheck subs` — the shape `cpp/yielding.py` relies on: no empty subroutine, exactly the
  first statement of each subroutine is labelled, labels are `0,1,…,k-1`, a `yield` is always
  the last statement of its subroutine.
-/
namespace AasVerif.Yielding

def phiAt (phi : List Nat) (i : Nat) : Nat := phi.getD i 0

def tCheck (C C' : List Stmt) (phi : List Nat) (t t' : Nat) : Bool :=
  (findLabel C t).map (phiAt phi) == findLabel C' t'

def oCheck (C C' : List Stmt) (phi : List Nat) : Option Nat → Option Nat → Bool
  | none, none => true
  | some t, some t' => tCheck C C' phi t t'
  | _, _ => false

def opCheck (C C' : List Stmt) (phi : List Nat) : Op → Op → Bool
  | .command c, .command c' => c == c'
  | .yield, .yield => true
  | .noop, .noop => true
  | .jump t, .jump t' => tCheck C C' phi t t'
  | .ifJ c a b, .ifJ c' a' b' => c == c' && oCheck C C' phi a a' && oCheck C C' phi b b'
  | _, _ => false

def okAt (C C' : List Stmt) (phi : List Nat) (i : Nat) : Bool :=
  match C[i]? with
  | none => false
  | some s =>
    (s.isNoop && phiAt phi (i + 1) == phiAt phi i) ||
    (match C'[phiAt phi i]? with
      | none => false
      | some s' => phiAt phi (i + 1) == phiAt phi i + 1 && opCheck C C' phi s.op s'.op)

def simCheck (C C' : List Stmt) (phi : List Nat) : Bool :=
  phiAt phi 0 == 0 && phiAt phi C.length == C'.length &&
    (List.range C.length).all (okAt C C' phi)

/-- kinds/codes agree (targets ignored): used to align `C` with `C'` greedily -/
def sameKind : Op → Op → Bool
  | .command c, .command c' => c == c'
  | .yield, .yield => true
  | .noop, .noop => true
  | .jump _, .jump _ => true
  | .ifJ c _ _, .ifJ c' _ _ => c == c'
  | _, _ => false

/-- greedy alignment: `phi` for "some no-ops of `C` were deleted"; of a trailing block of no-ops
the *last* one is aligned with the surviving one (which one is irrelevant for the simulation,
labels are compared through `findLabel`). -/
def phiAlign : List Stmt → List Stmt → Nat → List Nat
  | [], _, j => [j]
  | _ :: cs, [], j => j :: phiAlign cs [] j
  | c :: cs, c' :: cs', j =>
    if sameKind c.op c'.op && !(c.isNoop && !cs.isEmpty) then j :: phiAlign cs cs' (j + 1)
    else j :: phiAlign cs (c' :: cs') j

def labs (C : List Stmt) : List Nat := C.filterMap (·.label)

/-- a `yield` may only be the last statement of a subroutine -/
def yieldLast : List Stmt → Bool
  | [] => true
  | [_] => true
  | s :: t :: rest => !s.isYield && yieldLast (t :: rest)

def subOk (sub : List Stmt) : Bool :=
  match sub with
  | [] => false
  | s :: rest => s.label.isSome && rest.all (fun x => x.label.isNone) && yieldLast sub

def subsCheck (subs : List (List Stmt)) : Bool :=
  subs.all subOk && labs subs.flatten == List.range subs.length

/-- everything the `_partial` pipeline theorem assumes about one flow -/
def pipelineCheck (flow : List Node) : Bool :=
  let C0 := linearize flow
  let C3 := fixLabels (compress C0)
  simCheck C0 C3 (phiAlign C0 C3 0) && subsCheck (split C3) && (split C3).flatten == C3

end AasVerif.Yielding
