import AasVerif.Model.TargetEmit
/-!
Meaning of the target expressions of `Model/TargetEmit.lean` on the common value domain of
`Expr.eval` (`Val`), parameterised by the semantics `Sem` of one target language.

* Outcomes are *coarse*: a value, `raised` (some exception was thrown — which one is not
  compared across languages), or `off`: the evaluation left the domain on which the semantics
  of the language is modelled here (an operator applied to operands for which the language's
  behaviour is not expressible in this value domain — reference equality of two equal strings
  in Java, `undefined` in TypeScript, undefined behaviour in C++ — or deliberately excluded
  because it is known to differ from Python: see the `*_differs` theorems of `Props/C09.lean`).
  Nothing is claimed about an evaluation that is `off`.
* Operand evaluation is strict and side-effect free, so the order of evaluation is not
  observable at this granularity; short-circuit operators evaluate the next operand only when the
  previous ones did not decide.
* The primitives of a language (`Sem`) return `none` outside the modelled domain.

`tsSem` is TypeScript (ECMAScript semantics of the emitted operators on the representation the
generated SDK uses: `string` = UTF-16, `number`, `boolean`, `null`, `Array`, `Set`, `Uint8Array`,
class instances by reference), `javaSem` and `cppSem` Java and C++.
-/
namespace AasVerif.TargetEmit
open AasVerif AasVerif.Expr

inductive TOut where
  | val (v : Val)
  | raised
  | off
  deriving Inhabited

/-- forget which exception -/
def coarse : Out → TOut
  | .val v => .val v
  | _ => .raised

def ofOpt : Option Out → TOut
  | some o => coarse o
  | none => .off

def TOut.bind (a : TOut) (f : Val → TOut) : TOut :=
  match a with
  | .val v => f v
  | .raised => .raised
  | .off => .off

def TOut.bind2 (a b : TOut) (f : Val → Val → TOut) : TOut :=
  match a, b with
  | .off, _ => .off
  | _, .off => .off
  | .val x, .val y => f x y
  | _, _ => .raised

inductive TArgs where
  | ok (vs : List Val)
  | raised
  | off

def TArgs.bind (a : TArgs) (f : List Val → TOut) : TOut :=
  match a with
  | .ok vs => f vs
  | .raised => .raised
  | .off => .off

def TArgs.cons (a : TOut) (r : TArgs) : TArgs :=
  match a, r with
  | .off, _ => .off
  | _, .off => .off
  | .val v, .ok vs => .ok (v :: vs)
  | _, _ => .raised

inductive TIterRes where
  | items (vs : List Val)
  | range (start : Int) (n : Nat)
  | raised
  | off

/-- The semantics of one target language for the constructs the transpilers emit. -/
structure Sem where
  /-- truth value of a condition (`!x`, operand of `&&` / `||`, result of a lambda) -/
  truthy : FloatOps → Val → Option Bool
  /-- value of a `&&` / `||` chain decided by its last operand (JavaScript: the operand;
  Java, C++: a `boolean`) -/
  lastOperand : FloatOps → Val → Option Val
  /-- comparison operator; the flags say whether the operand *expression* has a reference type -/
  cmp : FloatOps → Cmp → Bool → Bool → Val → Val → Option Out
  arith : FloatOps → Bool → Val → Val → Option Out
  len : LenKind → Val → Option Out
  /-- container, member -/
  contains : FloatOps → ContainsKind → Val → Val → Option Out
  index : IndexKind → Val → Val → Option Out
  /-- `c.size()` -/
  size : Val → Option Int
  unwrap : UnwrapKind → Val → Option Out
  /-- is the value null / absent -/
  isNull : NullTest → Val → Option Bool
  iter : Val → Option (List Val)
  fmt : Lang → Conv → Env → Val → Option Out

/-- value of a name -/
def nameVal (ρ : Env) (x : Text) : Out :=
  match lookup x ρ.vars with
  | some v => .val v
  | none => .otherError

/-- member access on a value (the same in every language: a property of an instance, a literal of
an enumeration; on null an exception) -/
def memberVal (v : Val) (n : Text) : Out :=
  match v with
  | .none => .noneDeref
  | .inst _ _ fields =>
    match lookup n fields with
    | some v => .val v
    | none => .otherError
  | .enumCls en lits => if lits.contains n then .val (.enumLit en n) else .otherError
  | _ => .otherError

/-- call of a method on a receiver with evaluated arguments -/
def methodVals (ρ : Env) (recv : Val) (m : Text) (vs : List Val) : Out :=
  match recv with
  | .none => .noneDeref
  | recv =>
    match ρ.meths recv m with
    | none => .otherError
    | some f => f vs

/-- call of a global function with evaluated arguments -/
def callFunVals (ρ : Env) (n : Text) (vs : List Val) : Out :=
  match lookup n ρ.vars with
  | some _ => .typeError
  | none =>
    match ρ.funs n with
    | some f => f vs
    | none =>
      if n = [108, 101, 110] then
        match vs with
        | [v] => lenVal v
        | _ => .typeError
      else .otherError

/-- does the expression have a reference type in Java (getters return boxed values, literals and
the results of operators are primitives) -/
def TExpr.boxed : TExpr → Bool
  | .lit _ | .len _ _ | .binop _ _ _ | .sizeMinus _ _ | .compare _ _ _ | .not _ | .boolop _ _
  | .isNull _ _ _ | .contains _ _ _ | .quant _ _ _ _ _ => false
  | .paren e => e.boxed
  | _ => true

def quantLoopT (tr : Val → Option Bool) (isAny : Bool) (f : Val → TOut) : List Val → TOut
  | [] => .val (.bool (!isAny))
  | x :: xs =>
    match f x with
    | .val v =>
      match tr v with
      | none => .off
      | some b => if b == isAny then .val (.bool isAny) else quantLoopT tr isAny f xs
    | .raised => .raised
    | .off => .off

def rangeLoopT (tr : Val → Option Bool) (isAny : Bool) (f : Val → TOut) (start : Int) : Nat → TOut
  | 0 => .val (.bool (!isAny))
  | n + 1 =>
    match f (.int start) with
    | .val v =>
      match tr v with
      | none => .off
      | some b => if b == isAny then .val (.bool isAny) else rangeLoopT tr isAny f (start + 1) n
    | .raised => .raised
    | .off => .off

/-- value of a `&&` / `||` chain decided by its last operand -/
def lastOp (sem : Sem) (f : FloatOps) (v : Val) : TOut :=
  match sem.lastOperand f v with
  | some w => .val w
  | none => .off

/-- `c.size() - n` -/
def sizeMinusVal (sem : Sem) (n : Nat) (cv : Val) : TOut :=
  match sem.size cv with
  | some k => .val (.int (k - n))
  | none => .off

def joinStr (t r : Val) : TOut :=
  match t, r with
  | .str t, .str r => .val (.str (t ++ r))
  | _, _ => .raised

mutual
  def evalT (sem : Sem) (ρ : Env) : TExpr → TOut
    | .that => coarse (nameVal ρ selfName)
    | .var x | .constRef x | .enumRef x | .funRef x => coarse (nameVal ρ x)
    | .lit c => .val (constVal c)
    | .attr e _ n => (evalT sem ρ e).bind fun v => coarse (memberVal v n)
    | .enumLit en l => .val (.enumLit en l)
    | .unwrap k e => (evalT sem ρ e).bind fun v => ofOpt (sem.unwrap k v)
    | .index k c i =>
      match k with
      | .cppBack => (evalT sem ρ c).bind fun cv => ofOpt (sem.index .cppBack cv (.int (-1)))
      | k => (evalT sem ρ c).bind2 (evalT sem ρ i) fun cv iv => ofOpt (sem.index k cv iv)
    | .sizeMinus c n => (evalT sem ρ c).bind (sizeMinusVal sem n)
    | .len k e => (evalT sem ρ e).bind fun v => ofOpt (sem.len k v)
    | .contains k c m =>
      (evalT sem ρ c).bind2 (evalT sem ρ m) fun cv mv => ofOpt (sem.contains ρ.fops k cv mv)
    | .isNull k isNone e =>
      (evalT sem ρ e).bind fun v =>
        match sem.isNull k v with
        | some b => .val (.bool (b == isNone))
        | none => .off
    | .stream e => evalT sem ρ e
    | .callMethod e m args =>
      (evalT sem ρ e).bind fun recv =>
        (evalArgsT sem ρ args).bind fun vs => coarse (methodVals ρ recv m vs)
    | .callFun f args => (evalArgsT sem ρ args).bind fun vs => coarse (callFunVals ρ f vs)
    | .compare l op r =>
      (evalT sem ρ l).bind2 (evalT sem ρ r) fun a b => ofOpt (sem.cmp ρ.fops op l.boxed r.boxed a b)
    | .not e =>
      (evalT sem ρ e).bind fun v =>
        match sem.truthy ρ.fops v with
        | some b => .val (.bool (!b))
        | none => .off
    | .boolop isAnd vals => evalBoolT sem ρ isAnd vals
    | .binop isAdd l r =>
      (evalT sem ρ l).bind2 (evalT sem ρ r) fun a b => ofOpt (sem.arith ρ.fops isAdd a b)
    | .interp l ps => evalPartsT sem ρ l ps
    | .quant _ isAny cond x src =>
      match evalIterT sem ρ src with
      | .items vs => quantLoopT (sem.truthy ρ.fops) isAny (fun item => evalT sem (ρ.bind x item) cond) vs
      | .range s n => rangeLoopT (sem.truthy ρ.fops) isAny (fun i => evalT sem (ρ.bind x i) cond) s n
      | .raised => .raised
      | .off => .off
    | .paren e => evalT sem ρ e
  def evalIterT (sem : Sem) (ρ : Env) : TIter → TIterRes
    | .each e =>
      match evalT sem ρ e with
      | .val v =>
        match sem.iter v with
        | some l => .items l
        | none => .off
      | .raised => .raised
      | .off => .off
    | .range a b =>
      match evalT sem ρ a, evalT sem ρ b with
      | .off, _ => .off
      | _, .off => .off
      | .val (.int s), .val (.int e) => .range s (e - s).toNat
      | .val _, .val _ => .off
      | _, _ => .raised
  def evalBoolT (sem : Sem) (ρ : Env) (isAnd : Bool) : List TExpr → TOut
    | [] => .raised
    | [e] => (evalT sem ρ e).bind (lastOp sem ρ.fops)
    | e :: es =>
      (evalT sem ρ e).bind fun v =>
        match sem.truthy ρ.fops v with
        | none => .off
        | some b => if b == isAnd then evalBoolT sem ρ isAnd es else .val v
  def evalArgsT (sem : Sem) (ρ : Env) : List TExpr → TArgs
    | [] => .ok []
    | e :: es => TArgs.cons (evalT sem ρ e) (evalArgsT sem ρ es)
  def evalPartsT (sem : Sem) (ρ : Env) (l : Lang) : List TPart → TOut
    | [] => .val (.str [])
    | .lit s :: ps => (evalPartsT sem ρ l ps).bind fun r => joinStr (.str s) r
    | .fv conv e :: ps =>
      (evalT sem ρ e).bind fun v =>
        (ofOpt (sem.fmt l conv ρ v)).bind fun t =>
          (evalPartsT sem ρ l ps).bind fun r => joinStr t r
end

/-! ## TypeScript (ECMAScript) -/

/-- a scalar value of the Basic Multilingual Plane (one UTF-16 code unit, no surrogate) -/
def isBmpScalar (c : Nat) : Bool := c < 0xD800 || (0xE000 ≤ c && c < 0x10000)

def bmp (s : Text) : Bool := s.all isBmpScalar

/-- integers a `number` holds exactly (the ±2⁵³ caveat) -/
def safeInt (i : Int) : Bool := i.natAbs ≤ 2 ^ 53

/-- UTF-16 code units of a text -/
def utf16 : Text → List Nat
  | [] => []
  | c :: cs =>
    if c < 0x10000 then c :: utf16 cs
    else (0xD800 + (c - 0x10000) / 0x400) :: (0xDC00 + (c - 0x10000) % 0x400) :: utf16 cs

/-- ECMAScript `ToBoolean` on the representation of a value in the generated SDK (objects — arrays,
sets, byte arrays, instances — are always true); `NaN` and the representation of enumeration
literals are not modelled -/
def jsTruthy : Val → Option Bool
  | .none => some false
  | .bool b => some b
  | .int i => some (i != 0)
  | .str s => some (!s.isEmpty)
  | .list _ | .set _ | .bytes _ | .inst _ _ _ => some true
  | _ => none

/-- `String.prototype.length` / `Array.prototype.length` / `Set.prototype.size` -/
def jsLen : LenKind → Val → Option Out
  | .tsLength, .str s => some (.val (.int (utf16 s).length))
  | .tsLength, .list l => some (.val (.int l.length))
  | .tsLength, .bytes b => some (.val (.int b.length))
  | .tsSize, .set l => some (.val (.int l.length))
  | _, _ => none

/-- `<` on strings compares UTF-16 code units -/
def jsStrLt (a b : Text) : Bool := ltNats (utf16 a) (utf16 b)

/-- `==` / `!=` / `<` … of ECMAScript on operands of the same simple kind (no coercion is modelled) -/
def jsCmp (op : Cmp) : Val → Val → Option Out
  | .str a, .str b => some (.ofBool (cmpOrd op (jsStrLt a b) (utf16 a == utf16 b)))
  | .int a, .int b => if safeInt a && safeInt b then some (.ofBool (cmpOrd op (a < b) (a == b))) else none
  | .bool a, .bool b =>
    let x : Int := if a then 1 else 0
    let y : Int := if b then 1 else 0
    some (.ofBool (cmpOrd op (x < y) (x == y)))
  | .none, .none => (match op with | .eq => some (.ofBool true) | .ne => some (.ofBool false) | _ => none)
  | .enumLit e a, .enumLit e' b =>
    if e == e' then
      (match op with | .eq => some (.ofBool (a == b)) | .ne => some (.ofBool (!(a == b))) | _ => none)
    else none
  | .inst i _ _, .inst j _ _ =>
    (match op with | .eq => some (.ofBool (i == j)) | .ne => some (.ofBool (!(i == j))) | _ => none)
  | _, _ => none

/-- `null == x` for a non-null primitive, array, set or instance is false -/
def jsCmpNull (op : Cmp) (x : Val) : Option Out :=
  match x with
  | .none => none
  | .enumCls _ _ => none
  | _ => (match op with | .eq => some (.ofBool false) | .ne => some (.ofBool true) | _ => none)

/-- SameValueZero on simple values of the same kind (`Array.prototype.includes`, `Set.prototype.has`) -/
def sameValueZero : Val → Val → Option Bool
  | .str a, .str b => some (utf16 a == utf16 b)
  | .int a, .int b => if safeInt a && safeInt b then some (a == b) else none
  | .bool a, .bool b => some (a == b)
  | .enumLit e a, .enumLit e' b => if e == e' then some (a == b) else none
  | .inst i _ _, .inst j _ _ => some (i == j)
  | _, _ => none

/-- values `includes` / `has` compare by value: BMP strings, numbers, booleans, enumeration literals;
instances by reference -/
def simpleVal : Val → Bool
  | .str s => bmp s
  | .int _ | .bool _ | .enumLit _ _ | .inst _ _ _ => true
  | _ => false

def anySVZ (m : Val) : List Val → Option Bool
  | [] => some false
  | x :: xs =>
    match sameValueZero x m, anySVZ m xs with
    | some b, some r => some (b || r)
    | _, _ => none

def jsAtList (l : List Val) (k : Int) : Option Out :=
  if 0 ≤ k then (l[k.toNat]?).map Out.val else none

/-- `AasCommon.at(array, index)` inside the array; outside it yields `undefined` (no exception),
which is not a value of this domain -/
def jsAt : Val → Val → Option Out
  | .list l, .int i => jsAtList l (if i < 0 then i + l.length else i)
  | _, _ => none

/-- `String(x)` of a template literal for strings and safe integers (`true`/`null` print
differently from Python, see `Props/C09.lean`) -/
def jsFmt : Val → Option Out
  | .str s => some (.val (.str s))
  | .int i => if safeInt i then some (.val (.str (intText i))) else none
  | _ => none

/-- TypeScript, on the domain where it is modelled *and* where strings are BMP-only (so that
UTF-16 code units are code points). -/
def tsSem : Sem where
  truthy _ v := match v with
    | .none | .bool _ | .int _ | .str _ => jsTruthy v
    | _ => none
  lastOperand _ v := some v
  cmp _ op _ _ a b := match a, b with
    | .str x, .str y => if bmp x && bmp y then jsCmp op a b else none
    | .none, .none => jsCmp op a b
    | .none, x => jsCmpNull op x
    | x, .none => jsCmpNull op x
    | a, b => jsCmp op a b
  arith _ add a b := match a, b with
    | .int x, .int y =>
      if safeInt x && safeInt y && safeInt (if add then x + y else x - y)
      then some (.val (.int (if add then x + y else x - y))) else none
    | .str x, .str y => if add then some (.val (.str (x ++ y))) else none
    | _, _ => none
  len k v := match v with
    | .str s => if bmp s then jsLen k v else none
    | _ => jsLen k v
  contains _ k c m := match k, c with
    | .tsIncludes, .list items =>
      if simpleVal m && items.all simpleVal then (anySVZ m items).map Out.ofBool else none
    | .tsHas, .set items =>
      if simpleVal m && items.all simpleVal then (anySVZ m items).map Out.ofBool else none
    | .tsIncludes, .str s =>
      (match m with
       | .str a => if bmp a && bmp s then some (.ofBool (isInfix a s)) else none
       | _ => none)
    | _, _ => none
  index k c i := match k with
    | .tsAt => jsAt c i
    | _ => none
  size _ := none
  unwrap _ _ := none
  isNull k v := match k with
    | .tsStrict => (match v with | .none => some true | _ => some false)
    | _ => none
  iter v := match v with
    | .list l => some l
    | .set l => some l
    | .str s => some (s.map (fun c => .str [c]))
    | .bytes b => some (b.map (fun c => .int (Int.ofNat c)))
    | _ => none
  fmt l _ _ v := match l with
    | .ts => jsFmt v
    | _ => none

end AasVerif.TargetEmit
