import AasVerif.Model.Text
/-!
# Base64 as the generated Python SDK uses it

* `encode`  = `base64.b64encode(bs).decode('ascii')` (RFC 4648 with padding), bytes are `Nat < 256`.
* `decode`  = `base64.b64decode(text.encode('ascii'))` with `validate=False`, i.e. CPython's
  `binascii.a2b_base64(strict_mode=False)`: characters outside the alphabet are skipped, a
  pad character `=` is only meaningful once two or more data characters of the current quad
  have been seen, decoding STOPS at the pad that completes the quad (the rest of the input is
  ignored), and a dangling quad is an error (`binascii.Error`, two different messages).
  The loop is written with the state of the C loop (`quad_pos`, `leftchar`, `pads`) as
  arguments; the output is consed on return.
* Both Python-level failure modes are explicit: a code point ≥ 128 makes `str.encode('ascii')`
  raise `UnicodeEncodeError` (`DecErr.nonAscii`), a malformed quad makes `a2b_base64` raise
  `binascii.Error` (`DecErr.padding` / `DecErr.oneChar`).
-/
namespace AasVerif.Base64

/-- alphabet index (0..63) → ASCII code -/
def encChar (v : Nat) : Nat :=
  if v < 26 then 65 + v
  else if v < 52 then 97 + (v - 26)
  else if v < 62 then 48 + (v - 52)
  else if v = 62 then 43
  else 47

/-- ASCII code → alphabet index; `none` for everything else (`table_a2b_base64[c] >= 64`) -/
def decChar (c : Nat) : Option Nat :=
  if 65 ≤ c ∧ c ≤ 90 then some (c - 65)
  else if 97 ≤ c ∧ c ≤ 122 then some (c - 97 + 26)
  else if 48 ≤ c ∧ c ≤ 57 then some (c - 48 + 52)
  else if c = 43 then some 62
  else if c = 47 then some 63
  else none

def pad : Nat := 61

def encode : List Nat → List Nat
  | [] => []
  | [a] => [encChar (a / 4), encChar ((a % 4) * 16), pad, pad]
  | [a, b] => [encChar (a / 4), encChar ((a % 4) * 16 + b / 16), encChar ((b % 16) * 4), pad]
  | a :: b :: c :: rest =>
    encChar (a / 4) :: encChar ((a % 4) * 16 + b / 16) :: encChar ((b % 16) * 4 + c / 64)
      :: encChar (c % 64) :: encode rest

inductive DecErr
  | nonAscii   -- UnicodeEncodeError from str.encode('ascii')
  | oneChar    -- binascii.Error: number of data characters cannot be 1 more than a multiple of 4
  | padding    -- binascii.Error: Incorrect padding
  deriving DecidableEq, Repr

def consOk (b : Nat) : Except DecErr (List Nat) → Except DecErr (List Nat)
  | .ok l => .ok (b :: l)
  | .error e => .error e

/-- the loop of `binascii.a2b_base64` (non-strict) from the state `(quad_pos, leftchar, pads)` -/
def loop : (qp left pads : Nat) → List Nat → Except DecErr (List Nat)
  | qp, _, _, [] =>
    if qp = 0 then .ok [] else if qp = 1 then .error .oneChar else .error .padding
  | qp, left, pads, c :: cs =>
    if c = pad then
      if 2 ≤ qp then
        if 4 ≤ qp + (pads + 1) then .ok [] else loop qp left (pads + 1) cs
      else loop qp left pads cs
    else
      match decChar c with
      | none => loop qp left pads cs
      | some v =>
        if qp = 0 then loop 1 v 0 cs
        else if qp = 1 then consOk ((left * 4 + v / 16) % 256) (loop 2 (v % 16) 0 cs)
        else if qp = 2 then consOk ((left * 16 + v / 4) % 256) (loop 3 (v % 4) 0 cs)
        else consOk ((left * 64 + v) % 256) (loop 0 0 0 cs)

/-- `base64.b64decode(text.encode('ascii'))` -/
def decode (text : List Nat) : Except DecErr (List Nat) :=
  if text.all (fun c => c < 128) then loop 0 0 0 text else .error .nonAscii

end AasVerif.Base64
