import AasVerif.Gen.Smoke
/-!
Model of `smoke.main.execute` as decision logic over the outcomes of its stages.
The stage list is the regenerated skeleton (`Gen.Smoke.stages`): each stage that fails
writes a report and returns 1; only after all of them succeeded the function returns 0.
-/
namespace AasVerif.Smoke

/-- Walks the stages in order; the first failing one decides. Returns the exit status and
the stage that reported. -/
def run (ok : String → Bool) : List String → Nat × Option String
  | [] => (0, none)
  | s :: rest => if ok s then run ok rest else (1, some s)

def execute (ok : String → Bool) : Nat × Option String := run ok Gen.Smoke.stages

/-- `_smoke_transpile_to_csharp` succeeds iff none of its error-returning calls yields errors,
provided each call's errors are returned or extended into the returned list. -/
def transpileOk (callOk : String → Bool) : Bool :=
  Gen.Smoke.transpile.all (fun p => callOk p.1 || p.2 == "dropped")

end AasVerif.Smoke
