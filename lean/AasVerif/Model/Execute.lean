/-!
# C02 — common shape of `<target>/main.py:execute` as decision logic over abstract step outcomes

Every target's `execute` has the shape

```
value, errors = <lib>.verify_for_types(...)      -- "checks": calls returning an error result
if errors is not None: report; return 1
... more checks ...
for rel_path, generator_func in rel_paths_generators:   -- "steps"
    code, errors = generator_func()
    if errors is not None: report; return 1
    assert code is not None
    try: mkdir except Exception: report; return 1
    try: write_text except Exception: report; return 1
stdout.write("Code generated to: ..."); return 0
```

`Skeleton` is what `gen_Generators` (harness/props/c02.py) extracts from the source with `ast`
(`Gen/Generators.lean`): the ordered checks with the way their error result is handled, the
ordered generator steps (fallible = the lambda returns the `(code, errors)` of the call itself;
infallible = the lambda wraps a plain string as `(code, None)`), how the loop handles
`errors`, and whether every `mkdir` / `write_text` is inside a `try` whose handler reports and
returns non-zero.  `execute` is a total function of the skeleton and of the outcomes of all steps;
every way the Python can raise from this plumbing (an `assert` on a value that is `None` because the
error was not looked at, an unguarded `OSError`) is an explicit `Res.crash`.
-/
namespace AasVerif.Execute

/-- How the error part of a `(value, errors)` result is treated by `execute`. -/
inductive Handling where
  | reported   -- `if errors is not None: <report to stderr>; return <non-zero>` directly follows the call
  | asserted   -- not looked at, the value is `assert`ed to be not `None` (AssertionError on an error result)
  | ignored    -- neither: the error result is dropped
  deriving DecidableEq, Repr

structure Check where
  call : String
  handling : Handling
  deriving DecidableEq, Repr

structure Step where
  path : String
  call : String
  fallible : Bool
  deriving DecidableEq, Repr

structure Skeleton where
  target : String
  checks : List Check
  loop : Handling
  steps : List Step
  /-- number of `mkdir` / `write_text|write_bytes` calls in the body of the loop -/
  mkdirs : Nat
  mkdirGuarded : Bool
  writes : Nat
  writeGuarded : Bool
  /-- `stdout.write("Code generated to: …")` directly precedes the final `return 0` -/
  doneLine : Bool
  deriving Repr

/-- Outcome of one generator step (what the stubbed step does in the correspondence run). -/
inductive StepOut where
  | ok          -- `(code, None)`, directory created, file written
  | err         -- `(None, [errors…])`
  | mkdirFail   -- `(code, None)`, `mkdir` raises `OSError`
  | writeFail   -- `(code, None)`, `write_text` raises `OSError`
  deriving DecidableEq, Repr

inductive Kind where
  | check | generate | mkdir | write
  deriving DecidableEq, Repr

inductive Res where
  | exit0                         -- everything written, done line, status 0
  | exit1 (k : Kind) (i : Nat)    -- report about check/step `i` on stderr, status 1
  | crash (site : String)         -- uncaught exception
  deriving DecidableEq, Repr

/-- An infallible step (`lambda: (f(...), None)`) cannot hand an error list to the loop. -/
def eff (s : Step) (o : StepOut) : StepOut :=
  if !s.fallible && o == .err then .ok else o

/-- The checks in order, `i` is the index of the head; `none` = all passed (or were dropped). -/
def runChecks : List Check → (Nat → Bool) → Nat → Option Res
  | [], _, _ => none
  | c :: cs, failed, i =>
    if failed i then
      match c.handling with
      | .reported => some (.exit1 .check i)
      | .asserted => some (.crash "AssertionError")
      | .ignored => runChecks cs failed (i + 1)
    else runChecks cs failed (i + 1)

def runSteps (sk : Skeleton) : List Step → (Nat → StepOut) → Nat → Res
  | [], _, _ => .exit0
  | s :: ss, out, i =>
    match eff s (out i) with
    | .ok => runSteps sk ss out (i + 1)
    | .err =>
      match sk.loop with
      | .reported => .exit1 .generate i
      | .asserted => .crash "AssertionError"
      | .ignored => .crash "AssertionError"   -- `assert code is not None` follows
    | .mkdirFail => if sk.mkdirGuarded then .exit1 .mkdir i else .crash "OSError"
    | .writeFail => if sk.writeGuarded then .exit1 .write i else .crash "OSError"

def execute (sk : Skeleton) (failed : Nat → Bool) (out : Nat → StepOut) : Res :=
  match runChecks sk.checks failed 0 with
  | some r => r
  | none => runSteps sk sk.steps out 0

/-- The skeleton treats every error result properly. -/
def wellHandled (sk : Skeleton) : Bool :=
  sk.checks.all (fun c => c.handling == .reported) && sk.loop == .reported &&
  sk.mkdirGuarded && sk.writeGuarded

def isCrash : Res → Bool
  | .crash _ => true
  | _ => false

end AasVerif.Execute
