import AasVerif.Model.Expr.Eval
/-!
Generic model of the generated Python `verification.py`
(`aas_core_codegen/python/lib/_generate_verification.py`).

The input is what the generator reads from the intermediate symbol table: for every
concrete class its (stacked) invariants and (stacked) properties in order, for every
constrained primitive its (stacked) invariants.  `verify` walks an instance the way the
generated `_Transformer` does:

* `transform_<Cls>(that)`: for each invariant `if not (<expr>): yield Error(<description>)`,
  then per property, in order, the snippet of `_generate_verify_property_snippet`:
  nothing for primitives and enumerations, `verify_<CP>(that.p)` for a constrained
  primitive, `self.transform(that.p)` for a class, a loop with `enumerate` for lists; the
  errors of the nested call get `PropertySegment` (and `IndexSegment`) prepended;
  optional properties are skipped when `None`.
* The result is a generator: `VRes` keeps the errors yielded so far and the exception (if
  any) that ended the iteration.
-/
namespace AasVerif.SdkV
open AasVerif AasVerif.Expr

/-- Shape of a property type beneath `Optional`, as the snippet generator dispatches on it. -/
inductive PTy where
  | prim
  | enum
  | cprim (name : Text)
  | cls
  | listOf (item : PTy)
  deriving Repr, Inhabited

structure Inv where
  description : Text
  body : Expr

structure PropDef where
  name : Text
  optional : Bool
  ty : PTy

/-- A concrete class with its stacked invariants and properties. -/
structure Cls where
  name : Text
  invs : List Inv
  props : List PropDef

structure CPrim where
  name : Text
  invs : List Inv

structure MM where
  classes : List Cls
  cprims : List CPrim

inductive Seg where
  | prop (name : Text)
  | idx (i : Nat)
  deriving DecidableEq, Repr

abbrev Path := List Seg

/-- What iterating `verify(instance)` gives: the errors yielded, then possibly an exception. -/
structure VRes where
  errors : List (Text × Path)
  raised : Option Out

def VRes.nil : VRes := ⟨[], none⟩
def VRes.raise (o : Out) : VRes := ⟨[], some o⟩

/-- `a` then (if `a` did not raise) `b`. -/
def VRes.seq (a b : VRes) : VRes :=
  match a.raised with
  | some o => ⟨a.errors, some o⟩
  | none => ⟨a.errors ++ b.errors, b.raised⟩

def VRes.seqAll : List VRes → VRes
  | [] => .nil
  | r :: rs => r.seq (seqAll rs)

/-- `error.path._prepend(seg)` on every error that passes through. -/
def VRes.prepend (segs : Path) (r : VRes) : VRes :=
  ⟨r.errors.map (fun (d, p) => (d, segs ++ p)), r.raised⟩

def MM.findCls (m : MM) (n : Text) : Option Cls := m.classes.find? (fun c => c.name == n)
def MM.findCPrim (m : MM) (n : Text) : Option CPrim := m.cprims.find? (fun c => c.name == n)

def selfName : Text := [115, 101, 108, 102]

/-- The `if not (<expr>): yield Error(<description>)` blocks of one type, in order. -/
def verifyInvs (ρ : Env) (self : Val) : List Inv → VRes
  | [] => .nil
  | inv :: rest =>
    match eval (ρ.bind selfName self) inv.body with
    | .val v =>
      if v.truthy ρ.fops then verifyInvs ρ self rest
      else VRes.seq ⟨[(inv.description, [])], none⟩ (verifyInvs ρ self rest)
    | err => .raise err

/-- `verify_<CP>(value)`. -/
def verifyCPrim (m : MM) (ρ : Env) (name : Text) (v : Val) : VRes :=
  match m.findCPrim name with
  | some cp => verifyInvs ρ v cp.invs
  | none => .raise .otherError

mutual
  /-- `_TRANSFORMER.transform(that)`: dispatch on the run-time class. -/
  def verifyInst (m : MM) (ρ : Env) : Val → VRes
    | .inst oid cn fields =>
      match m.findCls cn with
      | none => .raise .otherError
      | some c =>
        VRes.seq (verifyInvs ρ (.inst oid cn fields) c.invs)
          (VRes.seqAll (c.props.map (fun p => verifyField m ρ p fields)))
    | .none => .raise .noneDeref
    | _ => .raise .otherError
  /-- The snippet of one property: find `that.<p>` (the first field of that name) and verify
  it according to the shape of its type; an optional property is skipped when `None`. -/
  def verifyField (m : MM) (ρ : Env) (p : PropDef) : List (Text × Val) → VRes
    | [] => .raise .otherError
    | (k, v) :: rest =>
      if k = p.name then
        match p.ty with
        | .prim => .nil
        | .enum => .nil
        | .cprim n =>
          match v with
          | .none => if p.optional then .nil else VRes.prepend [.prop p.name] (verifyCPrim m ρ n .none)
          | v => VRes.prepend [.prop p.name] (verifyCPrim m ρ n v)
        | .cls =>
          match v with
          | .none => if p.optional then .nil else .raise .noneDeref
          | v => VRes.prepend [.prop p.name] (verifyInst m ρ v)
        | .listOf item =>
          match item with
          | .prim => .nil
          | .enum => .nil
          | .listOf _ => .raise .otherError
          | item =>
            match v with
            | .none => if p.optional then .nil else .raise .typeError
            | .list items => verifyItems m ρ p.name item 0 items
            | _ => .raise .typeError
      else verifyField m ρ p rest
  /-- `for i, item in enumerate(that.<p>)`. -/
  def verifyItems (m : MM) (ρ : Env) (pn : Text) (item : PTy) (i : Nat) : List Val → VRes
    | [] => .nil
    | v :: vs =>
      VRes.seq
        (match item with
          | .cprim n => VRes.prepend [.prop pn, .idx i] (verifyCPrim m ρ n v)
          | .cls => VRes.prepend [.prop pn, .idx i] (verifyInst m ρ v)
          | _ => .nil)
        (verifyItems m ρ pn item (i + 1) vs)
end

/-- `verification.verify(instance)`. -/
def verify (m : MM) (ρ : Env) (that : Val) : VRes := verifyInst m ρ that

end AasVerif.SdkV
