import AasVerif.Model.Text
/-!
Shared regex tree (`aas_core_codegen/parse/retree/_types.py`).

* `Chr` = `Char(character, explicitly_encoded)`; the character is its code point.
* `FormattedValue`s are opaque here: `Value.fv id`.
* `Quant` keeps `min`/`max` as in the source; the `@require`s of `Quantifier`/`Term`
  (`min ≤ max`, no quantifier on `^`/`$`) are *not* baked into the types — models that
  construct these nodes must treat a violated precondition as a crash site.
-/
namespace AasVerif.Retree

structure Chr where
  code : Nat
  enc : Bool
  deriving DecidableEq, Repr, Inhabited

structure Rng where
  start : Chr
  stop : Option Chr
  deriving DecidableEq, Repr, Inhabited

structure Quant where
  nonGreedy : Bool
  min : Nat
  max : Option Nat
  deriving DecidableEq, Repr, Inhabited

inductive SymKind where
  | start | stop | dot
  deriving DecidableEq, Repr, Inhabited

mutual
  inductive Value where
    | group (u : Union)
    | char (c : Chr)
    | set (complementing : Bool) (ranges : List Rng)
    | fv (id : Nat)
    | sym (k : SymKind)
  inductive Term where
    | mk (v : Value) (q : Option Quant)
  inductive Concat where
    | mk (terms : List Term)
  inductive Union where
    | mk (uniates : List Concat)
end

/-- `Regex(union)` -/
abbrev Regex := Union

def Term.value : Term → Value | .mk v _ => v
def Term.quant : Term → Option Quant | .mk _ q => q
def Concat.terms : Concat → List Term | .mk ts => ts
def Union.uniates : Union → List Concat | .mk us => us

end AasVerif.Retree
