import AasVerif.Model.Retree.Types
/-!
Model of `aas_core_codegen/parse/retree/_parse.py` (`parse` and everything below it).

## The cursor

Python's `Cursor` walks over `values : Sequence[Union[str, FormattedValue]]` with a
major index (which value) and a minor index (which character of a string value).  Its
`@require`/`@invariant`s demand: no two consecutive strings, and no empty string except in
the last position (`wfParts`; otherwise `ViolationError` — crash site `cursorPrecondition`).
Under that precondition every cursor operation is a function of the *flattened* token
sequence (`flatten`: one token per character, one token per formatted value) after the
cursor:

* `done()`                         ⇔ the remaining tokens are `[]`
* `peek_literal(l)`/`try_literal`  ⇔ the remaining tokens start with the characters of `l`
  (a literal never spans a formatted value because a string value is followed by a
  formatted value or by the end)
* `try_substring(n)`               ⇔ the next `n` tokens are characters
* `try_formatted_value()`          ⇔ the next token is `fv`
* `try_positive_integer_without_sign()` ⇔ the maximal run of ASCII digit characters

so the model parses `flatten values` and a cursor is *the list of remaining tokens*.  An
`Error` keeps a reference to the live cursor; the model records `rem`, the number of
remaining tokens when the error was created, and `parse` converts it to the offset from the
start.  (`Cursor.copy()`, fixed to keep its position, is the same list.)

## Crash sites

Every statement of the Python that can raise is an explicit `Res.crash`:
the `raise AssertionError` branches of `_parse_char_literal`, its
`assert character is not None`, the two `@require`s of `_parse_range_char`, the
`@require`s of `Quantifier` and `Term`, the loop-invariant `assert` of
`_parse_concatenation`, the `cursor_by_range[...]` lookup, the `Cursor` precondition, and
the fuel of the recursion (`Site.fuel`, proved unreachable for the fuel `parse` supplies).
`int()` runs on ASCII digits only and `:08x` formats an `int` (both after the `fix:`
commits), so they cannot raise.

`_parse_concatenation` starts with `if cursor.done(): return Error(...)`; both callers
check `done()` immediately before, the model inlines the call after that check.
-/
namespace AasVerif.Retree

inductive Part where
  | str (t : Text)
  | fv (id : Nat)
  deriving DecidableEq, Repr, Inhabited

inductive Tok where
  | ch (c : Nat)
  | fv (id : Nat)
  deriving DecidableEq, Repr, Inhabited

def flatten : List Part → List Tok
  | [] => []
  | .str t :: ps => t.map .ch ++ flatten ps
  | .fv i :: ps => .fv i :: flatten ps

/-- The `@require` of `Cursor.__init__` (no consecutive strings) and the part of its
invariants that can fail (`done()` although values follow: an empty string that is not last). -/
def wfParts : List Part → Bool
  | [] => true
  | [.str _] => true
  | .str _ :: .str _ :: _ => false
  | .str t :: .fv i :: ps => !t.isEmpty && wfParts (.fv i :: ps)
  | .fv _ :: ps => wfParts ps

inductive Site where
  | cursorPrecondition
  | fuel
  | charLiteralSpecial      -- `raise AssertionError` for ^ $ * + ? { in `_parse_char_literal`
  | charLiteralNoChar       -- `assert character is not None` in `_parse_char_literal`
  | rangeCharDone           -- `@require(not cursor.done())` of `_parse_range_char`
  | rangeCharDash           -- `@require(not cursor.peek_literal("-"))` of `_parse_range_char`
  | quantifierMinMax        -- `@require(minimum <= maximum)` of `Quantifier`
  | termSymbolQuantifier    -- `@require` of `Term`: no quantifier on `^`/`$`
  | loopInvariant           -- `assert old_cursor_position < cursor_position`
  | overlapKeyError         -- `cursor_by_range[this_range]`
  deriving DecidableEq, Repr, Inhabited

inductive ErrKind where
  | expectedHex | badHex | astralRange | classEscape | unexpectedEscaping
  | fvInSet | closingBracket | unexpectedDash | doubleDash | rangeEnd | invalidRange
  | emptySet | overlap | complementAstral
  | groupDirective | groupClosing | quantWithoutTerm | quantNoBounds | quantTooLarge | quantMinMax
  | quantClosing | symbolQuantifier | expectedTerm | unconsumed
  deriving DecidableEq, Repr, Inhabited

/-- Outcome of a parsing function: value, positioned error, or a raise. -/
inductive Res (α : Type) where
  | ok (a : α)
  | err (k : ErrKind) (rem : Nat)
  | crash (s : Site)
  deriving Repr, DecidableEq

/-! ### Numbers -/

def isDigit (c : Nat) : Bool := 48 ≤ c && c ≤ 57

/-- The run of ASCII digits at the cursor (`pointed_value[i] in "0123456789"`). -/
def takeDigits : List Tok → List Nat × List Tok
  | .ch c :: r =>
    if isDigit c then ((c :: (takeDigits r).1), (takeDigits r).2) else ([], .ch c :: r)
  | ts => ([], ts)

/-- `int("".join(accumulator))` on ASCII digits. -/
def digitsVal (ds : List Nat) : Nat := ds.foldl (fun a d => a * 10 + (d - 48)) 0

/-- `Cursor.try_positive_integer_without_sign` -/
def parseNat (ts : List Tok) : Option Nat × List Tok :=
  if (takeDigits ts).1 = [] then (none, ts) else (some (digitsVal (takeDigits ts).1), (takeDigits ts).2)

def hexVal1 (c : Nat) : Option Nat :=
  if 48 ≤ c ∧ c ≤ 57 then some (c - 48)
  else if 97 ≤ c ∧ c ≤ 102 then some (c - 87)
  else if 65 ≤ c ∧ c ≤ 70 then some (c - 55)
  else none

/-- `re.fullmatch("[a-fA-F0-9]{n}", s)` and `int(s, 16)` -/
def hexVal : List Nat → Option Nat
  | [] => some 0
  | cs => cs.foldl (fun acc c => match acc, hexVal1 c with
      | some a, some d => some (a * 16 + d)
      | _, _ => none) (some 0)

/-- `Cursor.try_substring(n)`: the next `n` tokens if they are all characters. -/
def takeChars : Nat → List Tok → Option (List Nat × List Tok)
  | 0, ts => some ([], ts)
  | n + 1, .ch c :: r =>
    match takeChars n r with
    | some (cs, r') => some (c :: cs, r')
    | none => none
  | _ + 1, _ => none

/-! ### Escapes -/

def lookup (k : Nat) : List (Nat × Nat) → Option Nat
  | [] => none
  | (a, b) :: r => if a = k then some b else lookup k r

/-- `\t \n \r \f \v \. \# \^ \$ \( \) \[ \] \{ \} \\ \* \+ \?` of `_parse_char_literal`:
(character after the backslash, denoted character). -/
def litEscapes : List (Nat × Nat) :=
  [(116, 9), (110, 10), (114, 13), (102, 12), (118, 11), (46, 46), (35, 35), (94, 94), (36, 36),
   (40, 40), (41, 41), (91, 91), (93, 93), (123, 123), (125, 125), (92, 92), (42, 42), (43, 43), (63, 63)]

/-- `\s \S \w \W \d \D` are refused in a literal. -/
def litClasses : List Nat := [115, 83, 119, 87, 100, 68]

/-- `\t \n \r \f \v \\ \[ \] \^ \-` of `_parse_range_char`. -/
def rangeEscapes : List (Nat × Nat) :=
  [(116, 9), (110, 10), (114, 13), (102, 12), (118, 11), (92, 92), (91, 91), (93, 93), (94, 94), (45, 45)]

/-- `\s \S \d \D` are refused in a range (`\w` is just an unexpected escaping there). -/
def rangeClasses : List Nat := [115, 83, 100, 68]

/-- `\x`/`\u`/`\U` followed by `n` hexadecimal digits; `r` are the tokens after the letter. -/
def parseHex (n : Nat) (astral : Bool) (r : List Tok) : Res (Chr × List Tok) :=
  match takeChars n r with
  | none => .err .expectedHex r.length
  | some (cs, r') =>
    match hexVal cs with
    | none => .err .badHex r'.length
    | some code =>
      if astral && (code < 0x10000 || code > 0x10FFFF) then .err .astralRange r'.length
      else .ok (⟨code, true⟩, r')

/-- The escape branches shared by `_parse_char_literal` and `_parse_range_char`;
`r` are the tokens after the backslash. -/
def parseEscape (simple : List (Nat × Nat)) (classes : List Nat) (r : List Tok) : Res (Chr × List Tok) :=
  match r with
  | .ch e :: r' =>
    if e = 120 then parseHex 2 false r'
    else if e = 117 then parseHex 4 false r'
    else if e = 85 then parseHex 8 true r'
    else match lookup e simple with
      | some v => .ok (⟨v, false⟩, r')
      | none => if e ∈ classes then .err .classEscape r'.length else .err .unexpectedEscaping r.length
  | _ => .err .unexpectedEscaping r.length

/-! ### Character sets -/

/-- `_parse_range_char` -/
def parseRangeChar (ts : List Tok) : Res (Chr × List Tok) :=
  match ts with
  | [] => .crash .rangeCharDone
  | .ch c :: r =>
    if c = 45 then .crash .rangeCharDash
    else if c = 92 then parseEscape rangeEscapes rangeClasses r
    else .ok (⟨c, false⟩, r)
  | .fv _ :: _ => .err .fvInSet ts.length

/-- The optional `-end` of a range; `ts1` are the tokens after the start character. -/
def parseRangeEnd (ts1 : List Tok) : Res (Option Chr × List Tok) :=
  match ts1 with
  | .ch 45 :: .ch 93 :: _ => .ok (none, ts1)
  | .ch 45 :: .ch 45 :: r => .err .doubleDash r.length
  | .ch 45 :: [] => .err .rangeEnd 0
  | .ch 45 :: r =>
    (match parseRangeChar r with
     | .ok (e, r') => .ok (some e, r')
     | .err k n => .err k n
     | .crash s => .crash s)
  | _ => .ok (none, ts1)

/-- `end is not None and ord(start.character) > ord(end.character)` -/
def rangeReversed (start : Chr) : Option Chr → Bool
  | some e => decide (start.code > e.code)
  | none => false

/-- `elif not at_first_member and cursor.try_literal("]")`: the loop of
`_parse_ranges_and_closing` stops at a `]` unless it is the first member of the set
(`[]a]`, `[^]a]`: Python's `re` reads a `]` in that position as a literal). -/
def closesSet (first : Bool) : List Tok → Bool
  | .ch 93 :: _ => !first
  | _ => false

/-- The `while True` loop of `_parse_ranges_and_closing`: the ranges with the number of tokens
that remained at their start (`cursor_by_range`), and the tokens after the closing `]`.
`first` is `at_first_member`: nothing has been read into the set yet. -/
def parseRangesLoop : Bool → Nat → List Tok → Res (List (Rng × Nat) × List Tok)
  | _, 0, _ => .crash .fuel
  | first, g + 1, ts =>
    match ts with
    | [] => .err .closingBracket 0
    | .ch 45 :: .ch 93 :: r => .ok ([(⟨⟨45, false⟩, none⟩, ts.length)], r)
    | .ch 45 :: _ => .err .unexpectedDash ts.length
    | _ =>
      if closesSet first ts then .ok ([], ts.tail)
      else
      match parseRangeChar ts with
      | .err k n => .err k n
      | .crash s => .crash s
      | .ok (start, ts1) =>
        match parseRangeEnd ts1 with
        | .err k n => .err k n
        | .crash s => .crash s
        | .ok (e, ts2) =>
          if rangeReversed start e then .err .invalidRange ts2.length
          else
            match parseRangesLoop false g ts2 with
            | .ok (rs, r) => .ok ((⟨start, e⟩, ts.length) :: rs, r)
            | .err k n => .err k n
            | .crash s => .crash s

/-- Stable insertion of an element that was written *before* the elements of the list
(`sorted(..., key=...)`: among equal starts the earlier range stays first). -/
def insertByStart (x : Rng × Nat) : List (Rng × Nat) → List (Rng × Nat)
  | [] => [x]
  | y :: ys => if x.1.start.code ≤ y.1.start.code then x :: y :: ys else y :: insertByStart x ys

def sortByStart : List (Rng × Nat) → List (Rng × Nat)
  | [] => []
  | x :: xs => insertByStart x (sortByStart xs)

def Rng.last (r : Rng) : Nat := match r.stop with | some e => e.code | none => r.start.code

/-- First adjacent pair (in sorted order) that overlaps: the tag of `this_range`. -/
def firstOverlap : List (Rng × Nat) → Option Nat
  | x :: y :: r => if x.1.last ≥ y.1.start.code then some x.2 else firstOverlap (y :: r)
  | _ => none

def indexed : Nat → List Rng → List (Rng × Nat)
  | _, [] => []
  | i, r :: rs => (r, i) :: indexed (i + 1) rs

/-- Index (in the order of writing) of the first range, in the order of the starts, that
reaches into its successor. -/
def overlapIdx (rs : List Rng) : Option Nat := firstOverlap (sortByStart (indexed 0 rs))

/-- The leading dash of a character set (a character of its own), with its position. -/
def prefixDash (ts : List Tok) : List (Rng × Nat) :=
  match ts with
  | .ch 45 :: _ => [(⟨⟨45, false⟩, none⟩, ts.length)]
  | _ => []

def afterPrefixDash : List Tok → List Tok
  | .ch 45 :: r => r
  | ts => ts

/-- The overlap check at the end of `_parse_ranges_and_closing`. -/
def checkOverlap (all : List (Rng × Nat)) (r : List Tok) : Res (List Rng × List Tok) :=
  match overlapIdx (all.map (·.1)) with
  | none => .ok (all.map (·.1), r)
  | some i =>
    match (all.map (·.2))[i]? with
    | some n => .err .overlap n
    | none => .crash .overlapKeyError

/-- `_parse_ranges_and_closing`; `ts` are the tokens after `[` or `[^`. -/
def parseRanges (ts : List Tok) : Res (List Rng × List Tok) :=
  match parseRangesLoop (prefixDash ts).isEmpty ((afterPrefixDash ts).length + 1) (afterPrefixDash ts) with
  | .err k n => .err k n
  | .crash s => .crash s
  | .ok (items, r) =>
    if prefixDash ts ++ items = [] then .err .emptySet r.length
    else checkOverlap (prefixDash ts ++ items) r

def astralInRange (r : Rng) : Bool :=
  r.start.code ≥ 0x10000 || (match r.stop with | some e => decide (e.code ≥ 0x10000) | none => false)

/-! ### Quantifiers -/

/-- `Cursor.try_spaces_or_tabs` -/
def skipWs : List Tok → List Tok
  | .ch c :: r => if c = 32 ∨ c = 9 then skipWs r else .ch c :: r
  | ts => ts

/-- `Quantifier(...)` with its `@require`. -/
def mkQuant (ng : Bool) (mn : Nat) (mx : Option Nat) (r : List Tok) : Res (Option Quant × List Tok) :=
  if (match mx with | some m => decide (mn > m) | none => false) then .crash .quantifierMinMax
  else .ok (some ⟨ng, mn, mx⟩, r)

/-- `cursor.try_literal(",")` -/
def dropComma : List Tok → List Tok
  | .ch 44 :: r => r
  | r => r

def hasComma : List Tok → Bool
  | .ch 44 :: _ => true
  | _ => false

/-- The bounds between the braces of `{m,n}`: `minimum`, `found_comma`, `maximum` and the
tokens after them (spaces and tabs are skipped around each piece). -/
def quantBounds (r : List Tok) : Option Nat × Bool × Option Nat × List Tok :=
  let r0 := skipWs r
  let mn := (parseNat r0).1
  let r1 := skipWs (parseNat r0).2
  let comma : Bool := hasComma r1
  let r2 := skipWs (dropComma r1)
  let mx := (parseNat r2).1
  let r3 := skipWs (parseNat r2).2
  (mn, comma, mx, r3)

/-- The closing `}?` or `}` of a quantifier. -/
def closeQuant (mn0 : Nat) (mx' : Option Nat) (r3 : List Tok) : Res (Option Quant × List Tok) :=
  match r3 with
  | .ch 125 :: .ch 63 :: r4 => mkQuant true mn0 mx' r4
  | .ch 125 :: r4 => mkQuant false mn0 mx' r4
  | _ => .err .quantClosing r3.length

/-- `_TOO_LARGE_REPETITION_COUNT` (`_sre.MAXREPEAT`): Python's `re` refuses the counts from
`2**32 - 1` on with an `OverflowError` -/
def tooLargeCount : Nat := 4294967295

/-- `count is not None and count >= _TOO_LARGE_REPETITION_COUNT` -/
def countTooLarge : Option Nat → Bool
  | some n => decide (n ≥ tooLargeCount)
  | none => false

/-- The quantifier part of the loop body of `_parse_concatenation`. -/
def parseQuant (ts : List Tok) : Res (Option Quant × List Tok) :=
  match ts with
  | .ch 42 :: .ch 63 :: r => mkQuant true 0 none r
  | .ch 43 :: .ch 63 :: r => mkQuant true 1 none r
  | .ch 63 :: .ch 63 :: r => mkQuant true 0 (some 1) r
  | .ch 42 :: r => mkQuant false 0 none r
  | .ch 43 :: r => mkQuant false 1 none r
  | .ch 63 :: r => mkQuant false 0 (some 1) r
  | .ch 123 :: r =>
    match quantBounds r with
    | (mn, comma, mx, r3) =>
      if mn = none ∧ mx = none then .err .quantNoBounds r3.length
      else if countTooLarge mn || countTooLarge mx then .err .quantTooLarge r3.length
      else
        let mx' := if comma then mx else mn
        let mn0 := mn.getD 0
        if (match mx' with | some m => decide (mn0 > m) | none => false) then .err .quantMinMax r3.length
        else closeQuant mn0 mx' r3
  | _ => .ok (none, ts)

/-! ### Terms, concatenations, unions -/

/-- `_parse_char_literal` -/
def parseCharLiteral (ts : List Tok) : Res (Option Chr × List Tok) :=
  match ts with
  | [] => .ok (none, ts)
  | .ch c :: r =>
    if c = 92 then
      match parseEscape litEscapes litClasses r with
      | .ok (x, r') => .ok (some x, r')
      | .err k n => .err k n
      | .crash s => .crash s
    else if c = 94 ∨ c = 36 ∨ c = 42 ∨ c = 43 ∨ c = 63 ∨ c = 123 then .crash .charLiteralSpecial
    else if c = 41 ∨ c = 124 then .ok (none, ts)
    else .ok (some ⟨c, false⟩, r)
  | .fv _ :: _ => .crash .charLiteralNoChar

def isAnchor : Value → Bool
  | .sym .start => true
  | .sym .stop => true
  | _ => false

/-- The `@require` of `Term`: no quantifier for `^` and `$`. -/
def termRequireViolated (v : Value) (q : Option Quant) : Bool := isAnchor v && q.isSome

mutual
  /-- The value part of the loop body of `_parse_concatenation` (`none`: the loop breaks). -/
  def parseValue : Nat → List Tok → Res (Option Value × List Tok)
    | 0, _ => .crash .fuel
    | f + 1, ts =>
      match ts with
      | .ch 94 :: r => .ok (some (.sym .start), r)
      | .ch 36 :: r => .ok (some (.sym .stop), r)
      | .ch 46 :: r => .ok (some (.sym .dot), r)
      | .ch 40 :: .ch 63 :: r => .err .groupDirective r.length
      | .ch 40 :: r =>
        (match parseUnion f r with
         | .err k n => .err k n
         | .crash s => .crash s
         | .ok (u, r1) =>
           match r1 with
           | .ch 41 :: r2 => .ok (some (.group u), r2)
           | _ => .err .groupClosing r1.length)
      | .ch 91 :: .ch 94 :: r =>
        (match parseRanges r with
         | .err k n => .err k n
         | .crash s => .crash s
         | .ok (rs, r1) =>
           if rs.any astralInRange then .err .complementAstral r1.length
           else .ok (some (.set true rs), r1))
      | .ch 91 :: r =>
        (match parseRanges r with
         | .err k n => .err k n
         | .crash s => .crash s
         | .ok (rs, r1) => .ok (some (.set false rs), r1))
      | .fv i :: r => .ok (some (.fv i), r)
      | .ch 42 :: r => .err .quantWithoutTerm r.length
      | .ch 43 :: r => .err .quantWithoutTerm r.length
      | .ch 63 :: r => .err .quantWithoutTerm r.length
      | .ch 123 :: r => .err .quantWithoutTerm r.length
      | _ =>
        (match parseCharLiteral ts with
         | .ok (some c, r) => .ok (some (.char c), r)
         | .ok (none, r) => .ok (none, r)
         | .err k n => .err k n
         | .crash s => .crash s)

  /-- The `while True` loop of `_parse_concatenation`. -/
  def parseTerms : Nat → List Tok → Res (List Term × List Tok)
    | 0, _ => .crash .fuel
    | f + 1, ts =>
      match ts with
      | [] => .ok ([], ts)
      | .ch 124 :: _ => .ok ([], ts)
      | _ =>
        match parseValue f ts with
        | .err k n => .err k n
        | .crash s => .crash s
        | .ok (none, r) => .ok ([], r)
        | .ok (some v, ts1) =>
          match parseQuant ts1 with
          | .err k n => .err k n
          | .crash s => .crash s
          | .ok (q, ts2) =>
            if q.isSome && isAnchor v then .err .symbolQuantifier ts2.length
            else if termRequireViolated v q then .crash .termSymbolQuantifier
            else if ¬ (ts2.length < ts.length) then .crash .loopInvariant
            else match parseTerms f ts2 with
              | .ok (terms, r) => .ok (.mk v q :: terms, r)
              | .err k n => .err k n
              | .crash s => .crash s

  /-- The `while cursor.try_literal("|")` loop of `_parse_union`. -/
  def parseAlts : Nat → List Tok → Res (List Concat × List Tok)
    | 0, _ => .crash .fuel
    | f + 1, ts =>
      match ts with
      | .ch 124 :: [] => .ok ([.mk []], [])
      | .ch 124 :: r =>
        (match parseTerms f r with
         | .err k n => .err k n
         | .crash s => .crash s
         | .ok (c, r1) =>
           match parseAlts f r1 with
           | .ok (cs, r2) => .ok (.mk c :: cs, r2)
           | .err k n => .err k n
           | .crash s => .crash s)
      | _ => .ok ([], ts)

  /-- `_parse_union` -/
  def parseUnion : Nat → List Tok → Res (Union × List Tok)
    | 0, _ => .crash .fuel
    | f + 1, ts =>
      match ts with
      | [] => .ok (.mk [], [])
      | _ =>
        match parseTerms f ts with
        | .err k n => .err k n
        | .crash s => .crash s
        | .ok (c, r1) =>
          match parseAlts f r1 with
          | .ok (cs, r2) => .ok (.mk (.mk c :: cs), r2)
          | .err k n => .err k n
          | .crash s => .crash s
end

/-- Fuel that `parse` supplies: enough for every input (`Lemmas/RetreeParse`). -/
def fuelFor (ts : List Tok) : Nat := 3 * ts.length + 4

/-- `_parse_regex` on the flattened tokens. -/
def parseToks (ts : List Tok) : Res Regex :=
  match parseUnion (fuelFor ts) ts with
  | .err k n => .err k n
  | .crash s => .crash s
  | .ok (u, r) => if r = [] then .ok u else .err .unconsumed r.length

/-- A positioned error: `pos` is the offset of `error.cursor` in the flattened values
(characters and formatted values before it). -/
structure Err where
  kind : ErrKind
  pos : Nat
  deriving DecidableEq, Repr

inductive Out where
  | ok (r : Regex)
  | err (e : Err)
  | crash (s : Site)

/-- `retree.parse(values)` -/
def parse (vs : List Part) : Out :=
  if wfParts vs then
    match parseToks (flatten vs) with
    | .ok r => .ok r
    | .err k n => .err ⟨k, (flatten vs).length - n⟩
    | .crash s => .crash s
  else .crash .cursorPrecondition

end AasVerif.Retree
