import AasVerif.Model.Retree.Types
/-!
Denotational meaning of a regex tree, shared by C16, C17, C18 (and the schema properties).

`M x pre s post` reads: node `x` matches exactly the substring `s` of the input
`pre ++ s ++ post` (so anchors can look at their context).  Greedy and non-greedy
quantifiers denote the same language.  Conventions follow Python's `re` without flags:
`.` is any code point except `\n`; `^` needs `pre = []`; `$` needs `post = []` or `post = [\n]`.
Formatted values are opaque and match nothing.  The text alphabet is left open: for
code-point strings the units are code points, for UTF-16 they are code units.
-/
namespace AasVerif.Retree

def Rng.contains (r : Rng) (c : Nat) : Bool :=
  match r.stop with
  | none => c == r.start.code
  | some e => r.start.code ≤ c && c ≤ e.code

def setAccepts (complementing : Bool) (ranges : List Rng) (c : Nat) : Bool :=
  (ranges.any (·.contains c)) != complementing

/-- The bound of a quantifier after one more repetition was consumed. -/
def decMax : Option Nat → Option Nat
  | none => none
  | some m => some (m - 1)

mutual
  inductive MValue : Value → Text → Text → Text → Prop where
    | char (c : Chr) (pre post : Text) : MValue (.char c) pre [c.code] post
    | set (compl : Bool) (rs : List Rng) (c : Nat) (pre post : Text) :
        setAccepts compl rs c = true → MValue (.set compl rs) pre [c] post
    | dot (c : Nat) (pre post : Text) : c ≠ 10 → MValue (.sym .dot) pre [c] post
    | start (post : Text) : MValue (.sym .start) [] [] post
    | stopEnd (pre : Text) : MValue (.sym .stop) pre [] []
    | stopNl (pre : Text) : MValue (.sym .stop) pre [] [10]
    | group (u : Union) (pre s post : Text) : MUnion u pre s post → MValue (.group u) pre s post
  /-- `MRep v min max pre s post`: between `min` and `max` consecutive matches of `v`. -/
  inductive MRep : Value → Nat → Option Nat → Text → Text → Text → Prop where
    | done (v : Value) (max : Option Nat) (pre post : Text) : MRep v 0 max pre [] post
    | more (v : Value) (min : Nat) (max : Option Nat) (pre s₁ s₂ post : Text) :
        max ≠ some 0 →
        MValue v pre s₁ (s₂ ++ post) →
        MRep v (min - 1) (decMax max) (pre ++ s₁) s₂ post →
        MRep v min max pre (s₁ ++ s₂) post
  inductive MTerm : Term → Text → Text → Text → Prop where
    | plain (v : Value) (pre s post : Text) : MValue v pre s post → MTerm (.mk v none) pre s post
    | quant (v : Value) (q : Quant) (pre s post : Text) :
        MRep v q.min q.max pre s post → MTerm (.mk v (some q)) pre s post
  inductive MTerms : List Term → Text → Text → Text → Prop where
    | nil (pre post : Text) : MTerms [] pre [] post
    | cons (t : Term) (ts : List Term) (pre s₁ s₂ post : Text) :
        MTerm t pre s₁ (s₂ ++ post) →
        MTerms ts (pre ++ s₁) s₂ post →
        MTerms (t :: ts) pre (s₁ ++ s₂) post
  inductive MUnion : Union → Text → Text → Text → Prop where
    | mk (us : List Concat) (ts : List Term) (pre s post : Text) :
        Concat.mk ts ∈ us → MTerms ts pre s post → MUnion (.mk us) pre s post
end

/-- `re.fullmatch`-style acceptance of the whole text. -/
def FullMatch (r : Regex) (s : Text) : Prop := MUnion r [] s []

/-- `re.match`-style acceptance (a prefix of the text matches), as used by the generated
verification functions (`re.match` with patterns anchored by `^…$`). -/
def PrefixMatch (r : Regex) (s : Text) : Prop := ∃ s₁ s₂, s = s₁ ++ s₂ ∧ MUnion r [] s₁ s₂

end AasVerif.Retree
