import AasVerif.Model.Retree.Parse
/-!
Model of `aas_core_codegen/parse/retree/_render.py`: `Renderer` and `render`.

The two escape tables are parameters (`Gen.Retree.escLiteral`, `Gen.Retree.escRange` are the
ones of the current source).  `render` = `Renderer.transform` (a list of string pieces and
formatted values; here already one token per character) followed by the compression of
consecutive strings.
-/
namespace AasVerif.Retree

/-- `Mapping[str, str]` with one-character keys: (key, escaped text). -/
abbrev EscTable := List (Nat × Text)

def escLookup (k : Nat) : EscTable → Option Text
  | [] => none
  | (a, b) :: r => if a = k then some b else escLookup k r

def hexDigitLower (n : Nat) : Nat := if n < 10 then 48 + n else 87 + n

/-- `f"{code:02x}"` for `code < 256` -/
def hex2 (n : Nat) : Text := [hexDigitLower (n / 16 % 16), hexDigitLower (n % 16)]
def hex4 (n : Nat) : Text := hex2 (n / 256) ++ hex2 (n % 256)
def hex8 (n : Nat) : Text := hex4 (n / 65536) ++ hex4 (n % 65536)

/-- `chr(code).encode("unicode_escape").decode("ascii")` for `code ≥ 255`
(below 255 the caller formats `\xHH` itself). -/
def unicodeEscape (code : Nat) : Text :=
  if code < 256 then [92, 120] ++ hex2 code
  else if code < 65536 then [92, 117] ++ hex4 code
  else [92, 85] ++ hex8 code

/-- `Renderer.char_to_str_and_escape_or_encode_if_necessary` -/
def renderChr (tbl : EscTable) (c : Chr) : Text :=
  if c.enc then
    if c.code < 255 then [92, 120] ++ hex2 c.code else unicodeEscape c.code
  else
    match escLookup c.code tbl with
    | some t => t
    | none => [c.code]

/-- `str(n)` -/
def decDigitsAux : Nat → Nat → List Nat → List Nat
  | 0, _, acc => acc
  | f + 1, n, acc => if n < 10 then (48 + n) :: acc else decDigitsAux f (n / 10) ((48 + n % 10) :: acc)

def decDigits (n : Nat) : Text := decDigitsAux (n + 1) n []

/-- `Renderer.transform_quantifier` -/
def renderQuant (q : Quant) : Text :=
  (match q.max with
   | some m =>
     if q.min = m then [123] ++ decDigits q.min ++ [125]
     else if q.min = 0 then
       if m = 1 then [63] else [123, 48, 44] ++ decDigits m ++ [125]
     else [123] ++ decDigits q.min ++ [44] ++ decDigits m ++ [125]
   | none =>
     if q.min = 0 then [42]
     else if q.min = 1 then [43]
     else [123] ++ decDigits q.min ++ [44, 125])
  ++ (if q.nonGreedy then [63] else [])

def isRawDash (r : Rng) : Bool := r.stop.isNone && r.start.code == 45 && !r.start.enc

/-- One range of `transform_char_set`; `first`: `i == 0`, `last`: `i == len - 1`,
`fresh`: nothing was output after the `[` yet (`not already_output_something`). -/
def renderRng (tbl : EscTable) (first last fresh : Bool) (r : Rng) : Text :=
  if (first || last) && isRawDash r then [45]
  else
    (if first && r.start.code == 94 && !r.start.enc && fresh then [92, 94] else renderChr tbl r.start)
    ++ (match r.stop with
        | some e => [45] ++ renderChr tbl e
        | none => [])

def renderRngs (tbl : EscTable) (fresh : Bool) : Bool → List Rng → Text
  | _, [] => []
  | first, [r] => renderRng tbl first true fresh r
  | first, r :: r' :: rs => renderRng tbl first false fresh r ++ renderRngs tbl fresh false (r' :: rs)

/-- `Renderer.transform_char_set` -/
def renderSet (tbl : EscTable) (compl : Bool) (rs : List Rng) : Text :=
  [91] ++ (if compl then [94] else []) ++ renderRngs tbl (!compl) true rs ++ [93]

def chs (t : Text) : List Tok := t.map .ch

mutual
  def renderValue (lit rng : EscTable) : Value → List Tok
    | .group u => .ch 40 :: (renderUnion lit rng u ++ [.ch 41])
    | .char c => chs (renderChr lit c)
    | .set compl rs => chs (renderSet rng compl rs)
    | .fv i => [.fv i]
    | .sym .start => [.ch 94]
    | .sym .stop => [.ch 36]
    | .sym .dot => [.ch 46]
  def renderTerm (lit rng : EscTable) : Term → List Tok
    | .mk v q => renderValue lit rng v ++ (match q with | some q => chs (renderQuant q) | none => [])
  def renderTerms (lit rng : EscTable) : List Term → List Tok
    | [] => []
    | t :: ts => renderTerm lit rng t ++ renderTerms lit rng ts
  def renderConcat (lit rng : EscTable) : Concat → List Tok
    | .mk ts => renderTerms lit rng ts
  /-- the uniates after the first one, each preceded by `|` -/
  def renderAlts (lit rng : EscTable) : List Concat → List Tok
    | [] => []
    | c :: cs => .ch 124 :: (renderConcat lit rng c ++ renderAlts lit rng cs)
  def renderUnion (lit rng : EscTable) : Union → List Tok
    | .mk [] => []
    | .mk (c :: cs) => renderConcat lit rng c ++ renderAlts lit rng cs
end

/-- The compression loop of `render`: consecutive characters become one string. -/
def compress : List Tok → List Part
  | [] => []
  | .fv i :: r => .fv i :: compress r
  | .ch c :: r =>
    match compress r with
    | .str t :: ps => .str (c :: t) :: ps
    | ps => .str [c] :: ps

/-- `retree.render(regex)` -/
def render (lit rng : EscTable) (r : Regex) : List Part := compress (renderUnion lit rng r)

end AasVerif.Retree
