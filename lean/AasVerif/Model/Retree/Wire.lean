import AasVerif.Model.Retree.Types
/-!
Wire format of regex trees for the line protocol: a comma-separated prefix token
stream without spaces (`harness/retree_wire.py` is the Python twin).

    union  := u <n> concat*n
    concat := c <n> term*n
    term   := t value quant
    quant  := n | q <nonGreedy 0/1> <min> (x | <max>)
    value  := g union | h <code> <enc 0/1> | s <compl 0/1> <n> range*n | f <id> | y <0 start|1 end|2 dot>
    range  := r <code> <enc> (n | e <code> <enc>)
-/
namespace AasVerif.Retree.Wire

def b (x : Bool) : String := if x then "1" else "0"

def encChr (c : Chr) : List String := [toString c.code, b c.enc]

def encRng (r : Rng) : List String :=
  "r" :: encChr r.start ++ (match r.stop with | none => ["n"] | some e => "e" :: encChr e)

def encQuant : Option Quant → List String
  | none => ["n"]
  | some q => ["q", b q.nonGreedy, toString q.min, (match q.max with | none => "x" | some m => toString m)]

mutual
  def encValue : Value → List String
    | .group u => "g" :: encUnion u
    | .char c => "h" :: encChr c
    | .set compl rs => "s" :: b compl :: toString rs.length :: rs.flatMap encRng
    | .fv i => ["f", toString i]
    | .sym .start => ["y", "0"]
    | .sym .stop => ["y", "1"]
    | .sym .dot => ["y", "2"]
  def encTerm : Term → List String
    | .mk v q => "t" :: encValue v ++ encQuant q
  def encTerms : List Term → List String
    | [] => []
    | t :: ts => encTerm t ++ encTerms ts
  def encConcat : Concat → List String
    | .mk ts => "c" :: toString ts.length :: encTerms ts
  def encConcats : List Concat → List String
    | [] => []
    | c :: cs => encConcat c ++ encConcats cs
  def encUnion : Union → List String
    | .mk us => "u" :: toString us.length :: encConcats us
end

def enc (r : Regex) : String := ",".intercalate (encUnion r)

abbrev P (α : Type) := List String → Option (α × List String)

def pBool : P Bool
  | "0" :: r => some (false, r)
  | "1" :: r => some (true, r)
  | _ => none

def pNat : P Nat
  | s :: r => s.toNat?.map (·, r)
  | _ => none

def pChr : P Chr := fun ts => do
  let (c, ts) ← pNat ts
  let (e, ts) ← pBool ts
  some (⟨c, e⟩, ts)

def pRng : P Rng
  | "r" :: ts => do
    let (s, ts) ← pChr ts
    match ts with
    | "n" :: ts => some (⟨s, none⟩, ts)
    | "e" :: ts => do
      let (e, ts) ← pChr ts
      some (⟨s, some e⟩, ts)
    | _ => none
  | _ => none

def pQuant : P (Option Quant)
  | "n" :: ts => some (none, ts)
  | "q" :: ts => do
    let (ng, ts) ← pBool ts
    let (mn, ts) ← pNat ts
    match ts with
    | "x" :: ts => some (some ⟨ng, mn, none⟩, ts)
    | _ => do
      let (mx, ts) ← pNat ts
      some (some ⟨ng, mn, some mx⟩, ts)
  | _ => none

def pMany {α} (p : P α) : Nat → P (List α)
  | 0, ts => some ([], ts)
  | n + 1, ts => do
    let (x, ts) ← p ts
    let (xs, ts) ← pMany p n ts
    some (x :: xs, ts)

mutual
  partial def pValue : P Value
    | "g" :: ts => do let (u, ts) ← pUnion ts; some (.group u, ts)
    | "h" :: ts => do let (c, ts) ← pChr ts; some (.char c, ts)
    | "s" :: ts => do
      let (compl, ts) ← pBool ts
      let (n, ts) ← pNat ts
      let (rs, ts) ← pMany pRng n ts
      some (.set compl rs, ts)
    | "f" :: ts => do let (i, ts) ← pNat ts; some (.fv i, ts)
    | "y" :: "0" :: ts => some (.sym .start, ts)
    | "y" :: "1" :: ts => some (.sym .stop, ts)
    | "y" :: "2" :: ts => some (.sym .dot, ts)
    | _ => none
  partial def pTerm : P Term
    | "t" :: ts => do
      let (v, ts) ← pValue ts
      let (q, ts) ← pQuant ts
      some (.mk v q, ts)
    | _ => none
  partial def pConcat : P Concat
    | "c" :: ts => do
      let (n, ts) ← pNat ts
      let (xs, ts) ← pMany pTerm n ts
      some (.mk xs, ts)
    | _ => none
  partial def pUnion : P Union
    | "u" :: ts => do
      let (n, ts) ← pNat ts
      let (xs, ts) ← pMany pConcat n ts
      some (.mk xs, ts)
    | _ => none
end

def dec (s : String) : Option Regex :=
  match pUnion (s.splitOn ",") with
  | some (r, []) => some r
  | _ => none

end AasVerif.Retree.Wire
