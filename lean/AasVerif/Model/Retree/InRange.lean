import AasVerif.Model.Retree.Parse
/-!
`inRange…`: a decidable characterisation of (a superset of) the trees `Retree.parse` can
return.  `parse_outputs_inRange` proves every parser output satisfies it;
`render_parse_inRange` proves `parse (render r) = ok r` for every such tree.

What is excluded, and why the parser cannot produce it:
* an unencoded `|` as a character literal (the loop breaks on `|`; there is no `\|` escape);
* explicitly encoded characters ≥ 0x110000 (`\U` is limited to 0x10FFFF);
* quantifiers with `min > max` or with a count of `2**32 - 1` or more, quantifiers on `^`/`$`;
* empty character sets, ranges with `start > end`, overlapping ranges, complemented sets
  with a bound above 0x10000;
* a group around the union without uniates (the union `UnionExpr([])` is only produced for
  the empty input), and the top-level union `[Concatenation([])]` (also rendered as the
  empty input).
-/
namespace AasVerif.Retree

def inRangeChrLit (c : Chr) : Bool := if c.enc then decide (c.code < 0x110000) else c.code != 124

def inRangeChrSet (c : Chr) : Bool := if c.enc then decide (c.code < 0x110000) else true

def inRangeRng (r : Rng) : Bool :=
  inRangeChrSet r.start &&
  (match r.stop with
   | some e => inRangeChrSet e && decide (r.start.code ≤ e.code)
   | none => true)

def inRangeSet (compl : Bool) (rs : List Rng) : Bool :=
  !rs.isEmpty && rs.all inRangeRng && (overlapIdx rs).isNone && (!compl || !rs.any astralInRange)

/-- `min ≤ max`, and both counts below `_TOO_LARGE_REPETITION_COUNT` (Python's `re` refuses the
rendering of a larger count with an `OverflowError`) -/
def inRangeQuant (q : Quant) : Bool :=
  decide (q.min < tooLargeCount) &&
  (match q.max with
   | some m => decide (q.min ≤ m) && decide (m < tooLargeCount)
   | none => true)

mutual
  def inRangeValue : Value → Bool
    | .group u => inRangeUnion u && !u.uniates.isEmpty
    | .char c => inRangeChrLit c
    | .set compl rs => inRangeSet compl rs
    | .fv _ => true
    | .sym _ => true
  def inRangeTerm : Term → Bool
    | .mk v q => inRangeValue v &&
        (match q with
         | some q => inRangeQuant q && !isAnchor v
         | none => true)
  def inRangeTerms : List Term → Bool
    | [] => true
    | t :: ts => inRangeTerm t && inRangeTerms ts
  def inRangeConcats : List Concat → Bool
    | [] => true
    | .mk ts :: cs => inRangeTerms ts && inRangeConcats cs
  def inRangeUnion : Union → Bool
    | .mk us => inRangeConcats us
end

/-- The trees `parse` can return (top level). -/
def inRangeTop (r : Regex) : Bool :=
  inRangeUnion r && (match r with | .mk [.mk []] => false | _ => true)

end AasVerif.Retree
