import AasVerif.Model.Text
/-!
`aas_core_codegen/common.py:indent_but_first_line` — the helper through which the generators push
already rendered code (with its string literals and comments) when they nest it in a template:

```
lines = text.split("\n")
if lines[-1] == "":
    lines.pop()
indented_lines = []
for i, line in enumerate(lines):
    if i == 0: indented_lines.append(line)
    else:
        if len(line) > 0: indented_lines.append(indention + line)
        else: indented_lines.append(line)
return "\n".join(indented_lines)
```

The two separators are parameters (`Gen/Descr.lean` reads them from the source).
-/
namespace AasVerif.Indent

/-- `text.split(chr(sep))` -/
def splitChar (sep : Nat) : Text → List Text
  | [] => [[]]
  | c :: r =>
    if c = sep then [] :: splitChar sep r
    else match splitChar sep r with
      | [] => [[c]]
      | l :: ls => (c :: l) :: ls

/-- `chr(sep).join(lines)` -/
def joinChar (sep : Nat) : List Text → Text
  | [] => []
  | [l] => l
  | l :: ls => l ++ sep :: joinChar sep ls

/-- `if lines[-1] == "": lines.pop()` -/
def popEmpty (lines : List Text) : List Text :=
  if lines.getLast? = some [] then lines.dropLast else lines

/-- the loop: the first line as it is, the other non-empty lines behind the indention -/
def indentLines (ind : Text) : List Text → List Text
  | [] => []
  | l :: ls => l :: ls.map fun x => if x.length > 0 then ind ++ x else x

/-- the lines of the code in `text` -/
def codeLines (splitSep : Nat) (t : Text) : List Text := popEmpty (splitChar splitSep t)

def indentButFirst (splitSep joinSep : Nat) (ind t : Text) : Text :=
  joinChar joinSep (indentLines ind (codeLines splitSep t))

end AasVerif.Indent
