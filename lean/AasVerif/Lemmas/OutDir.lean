import AasVerif.Model.OutDir
/-! Helper lemmas on the output-directory model (C22). -/
namespace AasVerif.OutDir

theorem read_remove_same (fs : Fs) (p : Text) : read (remove fs p) p = none := by
  induction fs with
  | nil => rfl
  | cons e rest ih =>
    obtain ⟨q, c⟩ := e
    cases h : (q == p) with
    | true => simp only [remove, h, if_true]; exact ih
    | false => simp [remove, read, h, ih]

theorem read_remove_other (fs : Fs) (p q : Text) (h : (p == q) = false) :
    read (remove fs p) q = read fs q := by
  induction fs with
  | nil => rfl
  | cons e rest ih =>
    obtain ⟨r, c⟩ := e
    cases hrp : (r == p) with
    | true =>
      have hrq : (r == q) = false := by
        have : r = p := by simpa using hrp
        subst this; exact h
      simp [remove, read, hrp, hrq, ih]
    | false =>
      cases hrq : (r == q) with
      | true => simp [remove, read, hrp, hrq]
      | false => simp [remove, read, hrp, hrq, ih]

theorem read_writeFile_same (fs : Fs) (p c : Text) : read (writeFile fs p c) p = some c := by
  simp [writeFile, read]

theorem read_writeFile_other (fs : Fs) (p c q : Text) (h : (p == q) = false) :
    read (writeFile fs p c) q = read fs q := by
  simp only [writeFile, read, h]
  exact read_remove_other fs p q h

/-- A write makes two histories agree at its path and keeps agreement elsewhere. -/
theorem writeFile_agree (fs fs' : Fs) (p c q : Text)
    (h : (p == q) = true ∨ read fs q = read fs' q) :
    read (writeFile fs p c) q = read (writeFile fs' p c) q := by
  by_cases hpq : (p == q) = true
  · have : p = q := by simpa using hpq
    subst this
    rw [read_writeFile_same, read_writeFile_same]
  · have hpq' : (p == q) = false := by simpa using hpq
    rw [read_writeFile_other _ _ _ _ hpq', read_writeFile_other _ _ _ _ hpq']
    rcases h with h | h
    · exact absurd h hpq
    · exact h

theorem writeAll_agree (files : List (Text × Text)) (fs fs' : Fs) (q : Text)
    (h : q ∈ files.map Prod.fst ∨ read fs q = read fs' q) :
    read (writeAll fs files) q = read (writeAll fs' files) q := by
  induction files generalizing fs fs' with
  | nil =>
    rcases h with h | h
    · simp at h
    · exact h
  | cons e rest ih =>
    obtain ⟨p, c⟩ := e
    simp only [writeAll]
    apply ih
    by_cases hq : q ∈ rest.map Prod.fst
    · exact Or.inl hq
    · right
      apply writeFile_agree
      rcases h with h | h
      · simp only [List.map_cons, List.mem_cons] at h
        rcases h with h | h
        · left; simp [h]
        · exact absurd h hq
      · exact Or.inr h

theorem writeAll_foreign (files : List (Text × Text)) (fs : Fs) (q : Text)
    (h : q ∉ files.map Prod.fst) : read (writeAll fs files) q = read fs q := by
  induction files generalizing fs with
  | nil => rfl
  | cons e rest ih =>
    obtain ⟨p, c⟩ := e
    simp only [List.map_cons, List.mem_cons, not_or] at h
    simp only [writeAll]
    rw [ih _ h.2]
    apply read_writeFile_other
    have : ¬ p = q := fun e => h.1 e.symm
    simpa using this

/-- Skipping the write when the file holds exactly the new bytes can not be observed. -/
theorem writeUnless_exact (fs : Fs) (p c q : Text) :
    read (writeUnless (fun old new => old == new) fs p c) q = read (writeFile fs p c) q := by
  unfold writeUnless
  cases hr : read fs p with
  | none => rfl
  | some old =>
    by_cases hoc : (old == c) = true
    · have : old = c := by simpa using hoc
      subst this
      simp only [beq_self_eq_true, if_true]
      by_cases hpq : (p == q) = true
      · have : p = q := by simpa using hpq
        subst this
        rw [hr, read_writeFile_same]
      · have hpq' : (p == q) = false := by simpa using hpq
        rw [read_writeFile_other _ _ _ _ hpq']
    · simp only [hoc]
      rfl

end AasVerif.OutDir
