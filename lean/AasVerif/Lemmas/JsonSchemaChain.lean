import AasVerif.Lemmas.JsonSchemaInhExact
import AasVerif.Lemmas.JsonSchemaTightenAll
import AasVerif.Model.JsonSchemaHier
/-!
The induction over the inheritance chain as the generator emits it (`allOf` + `$ref` to the
inheritable definition of every direct parent): validity against the inheritable definition of a
class is validity of the class's own members and of the members of EVERY ancestor, at any distance —
stated with the complete inferred constraints of each class (`MembersOK`), not with the tightening
steps the schema happens to contain.

* `⇐` (C11, valid data is accepted): the steps a class emits demand no more than its complete
  constraints (`tightenAll_weaker`);
* `⇒` (C12, every inferred constraint is enforced): what every constraining parent imposes (induction
  hypothesis) together with the emitted steps implies the complete constraints (`tightenAll_sound`).
-/
namespace AasVerif.JsonSchema
open AasVerif AasVerif.Retree

/-! ## reading the decidable hypotheses -/

theorem findCls_some {types : List OurType} {mt : Text} {a : Cls} (h : findCls types mt = some a) :
    OurType.cls a ∈ types ∧ a.mt = mt := by
  induction types with
  | nil => simp [findCls] at h
  | cons t ts ih =>
    cases t with
    | cls c =>
      simp only [findCls] at h
      split at h
      · rename_i heq
        cases h
        exact ⟨List.mem_cons_self, heq⟩
      · obtain ⟨h1, h2⟩ := ih h
        exact ⟨List.mem_cons_of_mem _ h1, h2⟩
    | enum m vs =>
      simp only [findCls] at h
      obtain ⟨h1, h2⟩ := ih h
      exact ⟨List.mem_cons_of_mem _ h1, h2⟩
    | cprim =>
      simp only [findCls] at h
      obtain ⟨h1, h2⟩ := ih h
      exact ⟨List.mem_cons_of_mem _ h1, h2⟩

theorem nodupB_nodup : ∀ (l : List Text), nodupB l = true → l.Nodup := by
  intro l
  induction l with
  | nil => intro _; exact List.nodup_nil
  | cons x r ih =>
    intro h
    simp only [nodupB, Bool.and_eq_true, Bool.not_eq_true'] at h
    refine List.nodup_cons.mpr ⟨?_, ih h.2⟩
    intro hx
    have : r.contains x = true := by simpa using hx
    rw [this] at h
    cases h.1

theorem namesOK_spec {c : Cls} (h : namesOK c = true) :
    (c.props.map (·.name)).Nodup ∧ ∀ p ∈ c.props, p.name ≠ modelTypeKey := by
  simp only [namesOK, Bool.and_eq_true, List.all_eq_true, decide_eq_true_eq] at h
  exact ⟨nodupB_nodup _ h.1, h.2⟩

theorem localOK_spec {types : List OurType} {c : Cls} (h : localOK types c = true) :
    namesOK c = true ∧ (∀ i ∈ c.inh, inhLinkOK types c i = true) ∧
      ∀ p ∈ c.props, propLinksOK types c p = true := by
  simp only [localOK, Bool.and_eq_true, List.all_eq_true] at h
  exact ⟨h.1.1, h.1.2, h.2⟩

theorem refName_eq_inhKey {i : Inh} {a : Cls} (hm : a.mt = i.mt) (hk : i.concrete = !a.abstract) :
    i.refName = inhKey a := by
  unfold Inh.refName inhKey
  rw [hk, hm]
  cases a.abstract <;> simp

theorem inhLinkOK_spec {types : List OurType} {c : Cls} {i : Inh} (h : inhLinkOK types c i = true) :
    ∃ a, findCls types i.mt = some a ∧ i.concrete = (!a.abstract) ∧ i.withModelType = a.withModelType ∧
      a.cdesc ≠ [] ∧ (a.withModelType = true → c.withModelType = true) := by
  unfold inhLinkOK at h
  cases hf : findCls types i.mt with
  | none => simp [hf] at h
  | some a =>
    simp only [hf, Bool.and_eq_true, decide_eq_true_eq, Bool.not_eq_true', Bool.or_eq_true] at h
    obtain ⟨⟨⟨h1, h2⟩, h3⟩, h4⟩ := h
    refine ⟨a, rfl, h1, h2, ?_, ?_⟩
    · intro h0; rw [h0] at h3; cases h3
    · intro hw
      rcases h4 with h4 | h4
      · rw [hw] at h4; cases h4
      · exact h4

theorem exists_zip_of_mem_right {α β : Type} : ∀ (l2 : List β) (l1 : List α), l2.length ≤ l1.length →
    ∀ b ∈ l2, ∃ a, (a, b) ∈ l1.zip l2 := by
  intro l2
  induction l2 with
  | nil => intro _ _ b hb; cases hb
  | cons y ys ih =>
    intro l1 hlen b hb
    cases l1 with
    | nil => simp at hlen
    | cons x xs =>
      simp only [List.length_cons, Nat.add_le_add_iff_right] at hlen
      rcases List.mem_cons.mp hb with rfl | hb'
      · exact ⟨x, by simp⟩
      · obtain ⟨a, ha⟩ := ih xs hlen b hb'
        exact ⟨a, by simp only [List.zip_cons_cons, List.mem_cons]; exact Or.inr ha⟩

theorem propLinksOK_spec {types : List OurType} {c : Cls} {p : Prp} (h : propLinksOK types c p = true)
    (hown : p.own = false) {cs : Cons} (hcs : p.ty.cons = some cs) {pc : Cons} (hpc : some pc ∈ p.parents) :
    ∃ i ∈ c.inh, ∃ a, findCls types i.mt = some a ∧
      ∃ q ∈ a.props, q.name = p.name ∧ q.ty.shape = p.ty.shape ∧ q.ty.cons = some pc := by
  simp only [propLinksOK, hown, hcs, Option.isNone_some, Bool.false_or, Bool.and_eq_true, decide_eq_true_eq,
    List.all_eq_true] at h
  obtain ⟨hlen, hall⟩ := h
  obtain ⟨i, hi⟩ := exists_zip_of_mem_right p.parents c.inh (by omega) _ hpc
  have := hall (i, some pc) hi
  simp only at this
  cases hf : findCls types i.mt with
  | none => simp [hf] at this
  | some a =>
    simp only [hf, parentEntryOK, List.any_eq_true, decide_eq_true_eq] at this
    obtain ⟨q, hq, hq'⟩ := this
    exact ⟨i, (List.of_mem_zip hi).1, a, hf, q, hq, hq'⟩

theorem grounded_succ {types : List OurType} {n : Nat} {c : Cls} (h : grounded types (n + 1) c = true) :
    localOK types c = true ∧ ∀ i ∈ c.inh, ∃ a, findCls types i.mt = some a ∧ grounded types n a = true := by
  simp only [grounded, Bool.and_eq_true, List.all_eq_true] at h
  refine ⟨h.1, ?_⟩
  intro i hi
  have := h.2 i hi
  cases hf : findCls types i.mt with
  | none => simp [hf] at this
  | some a => simp only [hf] at this; exact ⟨a, rfl, this⟩

theorem mem_ancestors_succ {types : List OurType} {n : Nat} {c b : Cls} :
    b ∈ ancestors types (n + 1) c ↔
      ∃ i ∈ c.inh, ∃ a, findCls types i.mt = some a ∧ (b = a ∨ b ∈ ancestors types n a) := by
  simp only [ancestors, List.mem_flatMap]
  constructor
  · rintro ⟨i, hi, hb⟩
    cases hf : findCls types i.mt with
    | none => simp [hf] at hb
    | some a =>
      simp only [hf, List.mem_cons] at hb
      exact ⟨i, hi, a, hf, hb⟩
  · rintro ⟨i, hi, a, hf, hb⟩
    refine ⟨i, hi, ?_⟩
    simp only [hf, List.mem_cons]
    exact hb

/-- everything one `inheritances` entry of a grounded class gives -/
theorem grounded_link {types : List OurType} {n : Nat} {c : Cls} (h : grounded types (n + 1) c = true)
    {i : Inh} (hi : i ∈ c.inh) :
    ∃ a, findCls types i.mt = some a ∧ OurType.cls a ∈ types ∧ a.cdesc ≠ [] ∧ i.refName = inhKey a ∧
      i.withModelType = a.withModelType ∧ (a.withModelType = true → c.withModelType = true) ∧
      grounded types n a = true := by
  obtain ⟨hloc, hpars⟩ := grounded_succ h
  obtain ⟨a, hf, hg⟩ := hpars i hi
  obtain ⟨a', hf', hk, hw, hd, hinh⟩ := inhLinkOK_spec ((localOK_spec hloc).2.1 i hi)
  rw [hf] at hf'
  cases hf'
  obtain ⟨hmem, hmt⟩ := findCls_some hf
  exact ⟨a, hf, hmem, hd, refName_eq_inhKey hmt hk, hw, hinh, hg⟩

/-! ## the semantic side: members of a class against its COMPLETE inferred constraints -/

variable (defs : Defs)

/-- what class `a` (the document's class or one of its ancestors) demands of the value of its
property `p`: the whole annotation where `a` declares the property; the complete (merged: own class ∧
all ancestors) constraint of the top node where `a` inherits it — the items of an inherited list are
the declaring class's business (exclusion 1 of C12's statement) -/
def MemberOK (p : Prp) (v : Json) : Prop :=
  if p.own then Sat defs p.ty v else ∀ cs, p.ty.cons = some cs → TransSpec p.ty.shape cs v

/-- the members of an object as class `a` sees them: own required members present, every present
member value fine -/
def MembersOK (a : Cls) (kvs : List (Text × Json)) : Prop :=
  (∀ p ∈ a.props, p.own = true → p.optional = false → hasKey p.name kvs = true) ∧
  (∀ p ∈ a.props, ∀ v, lookup p.name kvs = some v → MemberOK defs p v)

/-- the inheritable definition of the top-most carrier of the model type demands `modelType` to be
present and one of the model types -/
def MTopOK (a : Cls) (kvs : List (Text × Json)) : Prop :=
  a.topMT = true → ∃ v, lookup modelTypeKey kvs = some v ∧ Valid defs (refTo (ascii "ModelType")) v

theorem memberOK_top {p : Prp} {v : Json} (h : MemberOK defs p v) :
    ∀ cs, p.ty.cons = some cs → TransSpec p.ty.shape cs v := by
  unfold MemberOK at h
  by_cases hown : p.own = true
  · rw [if_pos hown] at h
    exact sat_top defs p.ty v h
  · rw [if_neg hown] at h
    exact h

theorem defineProps_tighten_ok {c : Cls} {props : List (Text × Schema)} (hp : defineProperties c = .ok props)
    {p : Prp} (hpm : p ∈ c.props) (hown : p.own = false) {cs : Cons} (hcs : p.ty.cons = some cs) :
    ∃ t, tightenAll cs p.parents = .ok t := by
  obtain ⟨o, ho⟩ := defineProps_ok_all c.props [] props hp p hpm
  unfold defineProp at ho
  simp only [hown, Bool.false_eq_true, if_false, hcs] at ho
  cases ht : tightenAll cs p.parents with
  | error e => simp [ht] at ho
  | ok t => exact ⟨t, rfl⟩

/-- **C12 step**: the `properties` of a class definition together with what the parents' definitions
enforce yield the complete constraints of the class -/
theorem members_of_props (types : List OurType) {c : Cls} {props : List (Text × Schema)}
    (hp : defineProperties c = .ok props) (hloc : localOK types c = true) {kvs : List (Text × Json)}
    (hreq : ∀ p ∈ c.props, p.own = true → p.optional = false → hasKey p.name kvs = true)
    (hpo : ∀ p ∈ c.props, ∀ v, lookup p.name kvs = some v → PropOK defs p v)
    (hpar : ∀ i ∈ c.inh, ∀ a, findCls types i.mt = some a → MembersOK defs a kvs) :
    MembersOK defs c kvs := by
  refine ⟨hreq, ?_⟩
  intro p hpm v hl
  have hprop := hpo p hpm v hl
  unfold PropOK at hprop
  unfold MemberOK
  by_cases hown : p.own = true
  · rw [if_pos hown] at hprop ⊢
    exact hprop
  · rw [if_neg hown] at hprop ⊢
    have hown' : p.own = false := by simpa using hown
    intro cs hcs
    obtain ⟨t, ht⟩ := defineProps_tighten_ok hp hpm hown' hcs
    refine tightenAll_sound ht p.ty.shape v ?_ (hprop cs t hcs ht)
    intro pc hpc
    obtain ⟨i, hi, a, hf, q, hq, hqn, hqs, hqc⟩ :=
      propLinksOK_spec ((localOK_spec hloc).2.2 p hpm) hown' hcs hpc
    have hm := (hpar i hi a hf).2 q hq v (by rw [hqn]; exact hl)
    rw [← hqs]
    exact memberOK_top defs hm pc hqc

/-- **C11 step**: members meeting the complete constraints meet what `properties` demands -/
theorem props_of_members {c : Cls} {kvs : List (Text × Json)} (h : MembersOK defs c kvs) :
    ∀ p ∈ c.props, ∀ v, lookup p.name kvs = some v → PropOK defs p v := by
  intro p hpm v hl
  have hm := h.2 p hpm v hl
  unfold MemberOK at hm
  unfold PropOK
  by_cases hown : p.own = true
  · rw [if_pos hown] at hm ⊢
    exact hm
  · rw [if_neg hown] at hm ⊢
    intro cs t hcs ht
    exact tightenAll_weaker ht p.ty.shape v (hm cs hcs)

/-! ## the chain -/

/-- the inheritable definitions of the classes with concrete descendants are in `defs` under their names -/
def DefsFor (types : List OurType) : Prop :=
  ∀ a, OurType.cls a ∈ types → a.cdesc ≠ [] →
    ∃ s, inheritableDefinition a = .ok (inhKey a, s) ∧ lookup (inhKey a) defs = some s

/-- the document is an object whose members are fine for `a` and for every ancestor of `a` -/
def ChainOK (types : List OurType) (n : Nat) (a : Cls) (j : Json) : Prop :=
  ∃ kvs, j = .obj kvs ∧ ∀ b ∈ a :: ancestors types n a, MembersOK defs b kvs ∧ MTopOK defs b kvs

theorem inheritable_props_ok {c : Cls} {k : Text} {s : Schema} (h : inheritableDefinition c = .ok (k, s)) :
    ∃ props, defineProperties c = .ok props := by
  obtain ⟨props, _, _, _, hp, _⟩ := inheritable_shape h
  exact ⟨props, hp⟩

/-- **Induction over the ancestor paths.**  For a class with concrete descendants in a consistent,
well-founded hierarchy: a JSON value validates against the class's inheritable definition iff it is an
object whose members meet the complete inferred constraints of the class and of each of its ancestors,
at any distance (and `modelType` is present and a model type where the top-most carrier demands it). -/
theorem chain_iff {types : List OurType} (hD : DefsFor defs types) :
    ∀ (n : Nat) (a : Cls), OurType.cls a ∈ types → a.cdesc ≠ [] → grounded types n a = true →
    ∀ j, Valid defs (refTo (inhKey a)) j ↔ ChainOK defs types n a j := by
  intro n
  induction n with
  | zero => intro a _ _ hg; simp [grounded] at hg
  | succ n ih =>
    intro a ha hdesc hg j
    obtain ⟨hloc, _⟩ := grounded_succ hg
    obtain ⟨hnd, hnm⟩ := namesOK_spec (localOK_spec hloc).1
    obtain ⟨s, hs, hlk⟩ := hD a ha hdesc
    obtain ⟨props, hprops⟩ := inheritable_props_ok hs
    have hvs : Valid defs (refTo (inhKey a)) j ↔ Valid defs s j := by
      rw [valid_ref_iff, hlk]
      constructor
      · rintro ⟨s', hs', hv⟩; cases hs'; exact hv
      · intro hv; exact ⟨s, rfl, hv⟩
    rw [hvs, inheritable_iff defs hs hnd hnm j]
    constructor
    · rintro ⟨hpv, hbody⟩
      have hch : ∀ i ∈ a.inh, ∀ a', findCls types i.mt = some a' → ChainOK defs types n a' j := by
        intro i hi a' hf
        obtain ⟨a'', hf', hmem, hd', hrn, _, _, hg'⟩ := grounded_link hg hi
        rw [hf] at hf'
        cases hf'
        exact (ih a' hmem hd' hg' j).mp (hrn ▸ hpv i hi)
      have hobj : ∃ kvs, j = .obj kvs := by
        cases hi : a.inh with
        | nil => exact hbody.1 hi
        | cons i is =>
          have him : i ∈ a.inh := by rw [hi]; exact List.mem_cons_self
          obtain ⟨a', hf, _⟩ := grounded_link hg him
          obtain ⟨kvs, hj, _⟩ := hch i him a' hf
          exact ⟨kvs, hj⟩
      obtain ⟨kvs, rfl⟩ := hobj
      obtain ⟨hreq, hmt, hmtk, hpo⟩ := hbody.2 kvs rfl
      refine ⟨kvs, rfl, ?_⟩
      intro b hb
      rcases List.mem_cons.mp hb with rfl | hb
      · constructor
        · refine members_of_props defs types hprops hloc hreq hpo ?_
          intro i hi a' hf
          obtain ⟨kvs', hj, hall⟩ := hch i hi a' hf
          cases hj
          exact (hall a' List.mem_cons_self).1
        · intro htop
          have hk := hmtk htop
          unfold hasKey at hk
          cases hl : lookup modelTypeKey kvs with
          | none => simp [hl] at hk
          | some v => exact ⟨v, rfl, hmt _ (by rw [if_pos htop]) v hl⟩
      · obtain ⟨i, hi, a', hf, hba⟩ := mem_ancestors_succ.mp hb
        obtain ⟨kvs', hj, hall⟩ := hch i hi a' hf
        cases hj
        rcases hba with rfl | hba
        · exact hall _ List.mem_cons_self
        · exact hall _ (List.mem_cons_of_mem _ hba)
    · rintro ⟨kvs, rfl, hall⟩
      obtain ⟨hmem, hmtop⟩ := hall a List.mem_cons_self
      constructor
      · intro i hi
        obtain ⟨a', hf, hmem', hd', hrn, _, _, hg'⟩ := grounded_link hg hi
        rw [hrn]
        refine (ih a' hmem' hd' hg' _).mpr ⟨kvs, rfl, ?_⟩
        intro b hb
        apply hall
        refine List.mem_cons_of_mem _ (mem_ancestors_succ.mpr ⟨i, hi, a', hf, ?_⟩)
        rcases List.mem_cons.mp hb with rfl | hb
        · exact Or.inl rfl
        · exact Or.inr hb
      · refine ⟨fun _ => ⟨kvs, rfl⟩, ?_⟩
        intro kvs' hj
        cases hj
        refine ⟨hmem.1, ?_, ?_, props_of_members defs hmem⟩
        · intro x hx v hl
          by_cases htop : a.topMT = true
          · rw [if_pos htop] at hx
            cases hx
            obtain ⟨v', hl', hv'⟩ := hmtop htop
            rw [hl] at hl'
            cases hl'
            exact hv'
          · rw [if_neg htop] at hx
            cases hx
        · intro htop
          obtain ⟨v', hl', _⟩ := hmtop htop
          unfold hasKey
          rw [hl']
          rfl

end AasVerif.JsonSchema
