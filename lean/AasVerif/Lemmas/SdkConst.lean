import AasVerif.Model.SdkConst
/-! Helper lemmas for `Props/C30.lean` (core Lean only). -/
namespace AasVerif.SdkConst

/-! ### `hasDup` -/

theorem hasDup_cons_false {α : Type} [BEq α] [LawfulBEq α] {x : α} {xs : List α}
    (h : hasDup (x :: xs) = false) : x ∉ xs ∧ hasDup xs = false := by
  simp [hasDup] at h
  exact ⟨h.1, h.2⟩

/-- in a list without repeated `f`-images, equal images mean equal elements -/
theorem eq_of_hasDup_map_false {α β : Type} [BEq β] [LawfulBEq β] (f : α → β) :
    ∀ (l : List α), hasDup (l.map f) = false → ∀ a ∈ l, ∀ b ∈ l, f a = f b → a = b := by
  intro l
  induction l with
  | nil => intro _ a ha; cases ha
  | cons x xs ih =>
    intro h a ha b hb hab
    have h' := hasDup_cons_false (x := f x) (xs := xs.map f) (by simpa using h)
    have hx : ∀ c ∈ xs, f c ≠ f x := by
      intro c hc hcx
      exact h'.1 (by rw [← hcx]; exact List.mem_map_of_mem hc)
    rcases List.mem_cons.mp ha with rfl | ha'
    · rcases List.mem_cons.mp hb with rfl | hb'
      · rfl
      · exact absurd hab.symm (hx b hb')
    · rcases List.mem_cons.mp hb with rfl | hb'
      · exact absurd hab (hx a ha')
      · exact ih h'.2 a ha' b hb' hab

/-! ### `badIndices`, the resolver loop -/

theorem badIndices_eq_nil {α : Type} (bad : α → Bool) (mk : Nat → Err) :
    ∀ (xs : List α) (start : Nat), badIndices bad xs mk start = [] ↔ ∀ x ∈ xs, bad x = false := by
  intro xs
  induction xs with
  | nil => intro start; simp [badIndices]
  | cons x rest ih =>
    intro start
    simp only [badIndices, List.append_eq_nil_iff, ih, List.mem_cons, forall_eq_or_imp]
    cases hb : bad x <;> simp

theorem resolveLoop_errs_nil (step : Name → Bool × List Err) :
    ∀ ss : List Name, (resolveLoop step ss).2 = [] ↔ ∀ s ∈ ss, (step s).2 = [] := by
  intro ss
  induction ss with
  | nil => simp [resolveLoop]
  | cons s rest ih =>
    simp only [resolveLoop, List.append_eq_nil_iff, ih, List.mem_cons, forall_eq_or_imp]

theorem resolveLoop_subs (step : Name → Bool × List Err) :
    ∀ ss : List Name, (∀ s ∈ ss, (step s).1 = true) → (resolveLoop step ss).1 = ss := by
  intro ss
  induction ss with
  | nil => intro _; simp [resolveLoop]
  | cons s rest ih =>
    intro h
    have h1 : (step s).1 = true := h s (List.mem_cons_self ..)
    have h2 := ih (fun s' hs' => h s' (List.mem_cons_of_mem _ hs'))
    simp only [resolveLoop, h1, h2, if_true]

theorem finish_ok {r : List Name × List Err} {res : List Name} :
    finish r = .ok res ↔ r.2 = [] ∧ res = r.1 := by
  unfold finish
  cases h : r.2 with
  | nil => simp [eq_comm]
  | cons e es => simp

/-! ### one iteration -/

theorem stepPrim_errs_nil (table : List IConst) (c : Name) (t : Prim) (lits : List Val) (s : Name) :
    (stepPrim table c t lits s).2 = [] ↔
      ∃ n lits' ss', lookup table s = some (.primSet n t lits' ss') ∧ ∀ l ∈ lits', memKey l lits = true := by
  unfold stepPrim
  cases hl : lookup table s with
  | none => simp
  | some d =>
    cases d with
    | prim n a v => simp
    | enumSet n e l ss' => simp
    | primSet n t' lits' ss' =>
      by_cases ht : t' = t
      · subst ht
        simp [badIndices_eq_nil]
        constructor
        · intro h; exact ⟨n, lits', ⟨rfl, rfl⟩, h⟩
        · rintro ⟨_, _, ⟨rfl, rfl⟩, h⟩; exact h
      · simp [ht]

theorem stepPrim_appended (table : List IConst) (c : Name) (t : Prim) (lits : List Val) (s : Name)
    (h : (stepPrim table c t lits s).2 = []) : (stepPrim table c t lits s).1 = true := by
  obtain ⟨n, lits', ss', hl, _⟩ := (stepPrim_errs_nil table c t lits s).mp h
  simp [stepPrim, hl]

theorem stepEnum_errs_nil (table : List IConst) (c : Name) (e : Name) (lits : List Name) (s : Name) :
    (stepEnum table c e lits s).2 = [] ↔
      ∃ n lits' ss', lookup table s = some (.enumSet n e lits' ss') ∧ ∀ l ∈ lits', l ∈ lits := by
  unfold stepEnum
  cases hl : lookup table s with
  | none => simp
  | some d =>
    cases d with
    | prim n a v => simp
    | primSet n t l ss' => simp
    | enumSet n e' lits' ss' =>
      by_cases he : e' = e
      · subst he
        simp [badIndices_eq_nil]
        constructor
        · intro h; exact ⟨n, lits', ⟨rfl, rfl⟩, h⟩
        · rintro ⟨_, _, ⟨rfl, rfl⟩, h⟩; exact h
      · simp [he]

theorem stepEnum_appended (table : List IConst) (c : Name) (e : Name) (lits : List Name) (s : Name)
    (h : (stepEnum table c e lits s).2 = []) : (stepEnum table c e lits s).1 = true := by
  obtain ⟨n, lits', ss', hl, _⟩ := (stepEnum_errs_nil table c e lits s).mp h
  simp [stepEnum, hl]

/-! ### Python set displays -/

theorem memKey_iff (v : Val) (vs : List Val) : memKey v vs = true ↔ ∃ w ∈ vs, w.key = v.key := by
  simp [memKey]

theorem memKey_pySet (v : Val) : ∀ vs : List Val, memKey v (pySet vs) = true ↔ memKey v vs = true := by
  intro vs
  induction vs with
  | nil => simp [pySet]
  | cons x rest ih =>
    rw [memKey_iff] at ih ⊢
    rw [memKey_iff] at ih ⊢
    constructor
    · rintro ⟨w, hw, hk⟩
      simp only [pySet, List.mem_cons, List.mem_filter] at hw
      rcases hw with rfl | ⟨hw, _⟩
      · exact ⟨w, List.mem_cons_self .., hk⟩
      · obtain ⟨w', hw', hk'⟩ := ih.mp ⟨w, hw, hk⟩
        exact ⟨w', List.mem_cons_of_mem _ hw', hk'⟩
    · rintro ⟨w, hw, hk⟩
      rcases List.mem_cons.mp hw with rfl | hw'
      · exact ⟨w, by simp [pySet], hk⟩
      · by_cases hx : x.key = v.key
        · exact ⟨x, by simp [pySet], hx⟩
        · obtain ⟨w', hw', hk'⟩ := ih.mpr ⟨w, hw', hk⟩
          refine ⟨w', ?_, hk'⟩
          simp only [pySet, List.mem_cons, List.mem_filter]
          right
          refine ⟨hw', ?_⟩
          simp only [bne_iff_ne, ne_eq]
          rw [hk']
          exact fun h => hx h.symm

theorem allSome_map_some {α : Type} : ∀ l : List α, allSome (l.map some) = some l := by
  intro l
  induction l with
  | nil => rfl
  | cons x rest ih => simp [allSome, ih]

theorem allSome_map_of_forall {α β : Type} (f : α → Option β) (g : α → β) :
    ∀ l : List α, (∀ a ∈ l, f a = some (g a)) → allSome (l.map f) = some (l.map g) := by
  intro l
  induction l with
  | nil => intro _; rfl
  | cons x rest ih =>
    intro h
    have hx := h x (List.mem_cons_self ..)
    have hr := ih (fun a ha => h a (List.mem_cons_of_mem _ ha))
    simp [allSome, hx, hr]

/-! ### enumerations -/

theorem enumMembersOf_eq (lits : List (Name × Text)) (h : hasDup (lits.map (·.2)) = false) :
    enumMembersOf lits = lits := by
  induction lits with
  | nil => rfl
  | cons l rest ih =>
    have h' := hasDup_cons_false (x := l.2) (xs := rest.map (·.2)) (by simpa using h)
    simp only [enumMembersOf, ih h'.2]
    congr 1
    apply List.filter_eq_self.mpr
    intro m hm
    simp only [bne_iff_ne, ne_eq]
    intro hml
    exact h'.1 (by rw [← hml]; exact List.mem_map_of_mem (f := (·.2)) hm)

theorem canonical_self (e : EnumDecl) (h : hasDup e.values = false) (l : Name × Text) (hl : l ∈ e.literals) :
    canonical e l = l.1 := by
  unfold canonical
  cases hf : e.literals.find? (fun l' => l'.2 == l.2) with
  | none => rfl
  | some l' =>
    have hm := List.mem_of_find?_eq_some hf
    have hv : l'.2 = l.2 := by simpa using List.find?_some hf
    have := eq_of_hasDup_map_false (fun l : Name × Text => l.2) e.literals h l' hm l hl hv
    simp [this]

theorem enumFromStr_value (e : EnumDecl) (h : hasDup e.values = false) (l : Name × Text) (hl : l ∈ e.literals) :
    enumFromStr e l.2 = some l.1 := by
  unfold enumFromStr
  cases hf : (fromStrMap e).reverse.find? (fun kv => kv.1 == l.2) with
  | none =>
    have := List.find?_eq_none.mp hf (l.2, canonical e l)
      (by simp only [List.mem_reverse, fromStrMap]; exact List.mem_map_of_mem (f := fun l => (l.2, canonical e l)) hl)
    simp at this
  | some kv =>
    have hm := List.mem_of_find?_eq_some hf
    have hk : kv.1 = l.2 := by simpa using List.find?_some hf
    simp only [List.mem_reverse, fromStrMap, List.mem_map] at hm
    obtain ⟨l', hl', rfl⟩ := hm
    have hll : l' = l := eq_of_hasDup_map_false (fun l : Name × Text => l.2) e.literals h l' hl' l hl hk
    subst hll
    simp [canonical_self e h l' hl']

theorem enumFromStr_other (e : EnumDecl) (t : Text) (ht : t ∉ e.values) : enumFromStr e t = none := by
  unfold enumFromStr
  have : (fromStrMap e).reverse.find? (fun kv => kv.1 == t) = none := by
    apply List.find?_eq_none.mpr
    intro kv hkv
    simp only [List.mem_reverse, fromStrMap, List.mem_map] at hkv
    obtain ⟨l, hl, rfl⟩ := hkv
    simp only [beq_iff_eq]
    intro hlt
    exact ht (by rw [← hlt]; exact List.mem_map_of_mem (f := (·.2)) hl)
  simp [this]

end AasVerif.SdkConst
