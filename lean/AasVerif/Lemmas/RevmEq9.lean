import AasVerif.Lemmas.RevmEq8
import AasVerif.Lemmas.RevmRun
/-!
Every character-set instruction of a program compiled from an accepted pattern has sorted,
non-overlapping ranges (so the binary search of the C++ `CharacterInRanges` is exact).
-/
set_option linter.unusedSimpArgs false
namespace AasVerif.Revm
open AasVerif.Retree

def SetsSorted (p : Program) : Prop :=
  ∀ i ∈ p, ∀ rs, (i = .set rs ∨ i = .notSet rs) → RangesSorted rs

theorem SetsSorted.nil : SetsSorted [] := by intro i hi; simp at hi

theorem SetsSorted.append {a b : Program} (ha : SetsSorted a) (hb : SetsSorted b) : SetsSorted (a ++ b) := by
  intro i hi rs h
  simp at hi
  rcases hi with h' | h'
  · exact ha i h' rs h
  · exact hb i h' rs h

theorem SetsSorted.cons {i : Instr} {b : Program} (hi : ∀ rs, (i = .set rs ∨ i = .notSet rs) → RangesSorted rs)
    (hb : SetsSorted b) : SetsSorted (i :: b) := by
  intro j hj rs h
  simp at hj
  rcases hj with h' | h'
  · subst h'; exact hi rs h
  · exact hb j h' rs h

theorem SetsSorted.single (i : Instr) (h : ∀ rs, i ≠ .set rs ∧ i ≠ .notSet rs) : SetsSorted [i] :=
  SetsSorted.cons (fun rs hh => by
    rcases hh with e | e
    · exact absurd e (h rs).1
    · exact absurd e (h rs).2) SetsSorted.nil

theorem setsSorted_repAt {f : Nat → Program} {sz} (hf : ∀ b, SetsSorted (f b)) :
    ∀ k base, SetsSorted (repAt f sz k base)
  | 0, _ => by simpa [repAt] using SetsSorted.nil
  | k + 1, base => by
    simp only [repAt]
    exact (hf base).append (setsSorted_repAt hf k _)

theorem setsSorted_optAt {f : Nat → Program} {sz fin} (hf : ∀ b, SetsSorted (f b)) :
    ∀ k base, SetsSorted (optAt f sz fin k base)
  | 0, _ => by simpa [optAt] using SetsSorted.nil
  | k + 1, base => by
    simp only [optAt]
    exact SetsSorted.cons (by intro rs h; rcases h with h | h <;> cases h)
      ((hf _).append (setsSorted_optAt hf k _))

theorem setsSorted_quantAt {f : Nat → Program} {sz} (hf : ∀ b, SetsSorted (f b)) (q : Quant) (base : Nat) :
    SetsSorted (quantAt f sz q base) := by
  unfold quantAt
  split
  · exact hf base
  · split
    · exact (setsSorted_repAt hf _ _).append (setsSorted_optAt hf _ _)
    · split
      · exact SetsSorted.cons (by intro rs h; rcases h with h | h <;> cases h)
          ((hf _).append (SetsSorted.single _ (by intro rs; constructor <;> intro h <;> cases h)))
      · exact (setsSorted_repAt hf _ _).append
          ((hf _).append (SetsSorted.single _ (by intro rs; constructor <;> intro h <;> cases h)))

theorem setOk_sorted (rs : List Rng) (h : setOk rs = true) : RangesSorted (sortRanges (rs.map pureRange)) := by
  unfold setOk at h
  simp only [Bool.and_eq_true] at h
  apply rangesOk_sorted _ h.2
  intro r hr
  have : r ∈ rs.map pureRange := by
    unfold sortRanges at hr
    exact (List.mem_mergeSort).mp hr
  simp only [List.mem_map] at this
  obtain ⟨x, hx, hxr⟩ := this
  subst hxr
  have := (List.all_eq_true.mp h.1) x hx
  unfold pureRange
  cases hs : x.stop with
  | none => simp
  | some e => simp [hs] at this; simpa using this

mutual
  theorem setsV : (v : Value) → okV v = true → ∀ base, SetsSorted (compV v base)
    | .group u, h, base => by
      have := setsU u (by simpa [okV] using h) base
      simpa [compV] using this
    | .char c, _, _ => by
      simpa [compV] using SetsSorted.single (.char c.code) (by intro rs; constructor <;> intro h <;> cases h)
    | .set compl rs, h, _ => by
      have hs := setOk_sorted rs (by simpa [okV] using h)
      simp only [compV]
      apply SetsSorted.cons _ SetsSorted.nil
      intro rs' hh
      cases compl <;> simp at hh <;> (subst hh; exact hs)
    | .fv _, h, _ => by simp [okV] at h
    | .sym .start, h, _ => by simp [okV] at h
    | .sym .stop, _, _ => by
      simpa [compV] using SetsSorted.single .atEnd (by intro rs; constructor <;> intro h <;> cases h)
    | .sym .dot, _, _ => by
      simpa [compV] using SetsSorted.single .any (by intro rs; constructor <;> intro h <;> cases h)
  theorem setsT : (t : Term) → okT t = true → ∀ base, SetsSorted (compT t base)
    | .mk v none, h, base => by
      have := setsV v (by simpa [okT] using h) base
      simpa [compT] using this
    | .mk v (some q), h, base => by
      have hv : okV v = true := by
        cases v with
        | sym k => cases k <;> simp_all [okT, okV]
        | _ => exact (by simpa [okT] using h : okV _ = true ∧ quantOk q = true).1
      simp only [compT]
      exact setsSorted_quantAt (setsV v hv) q base
  theorem setsTs : (ts : List Term) → okTs ts = true → ∀ base, SetsSorted (compTs ts base)
    | [], _, _ => by simpa [compTs] using SetsSorted.nil
    | t :: ts, h, base => by
      have h' : okT t = true ∧ okTs ts = true := by simpa [okTs] using h
      simp only [compTs]
      exact (setsT t h'.1 base).append (setsTs ts h'.2 _)
  theorem setsC : (c : Concat) → okC c = true → ∀ base, SetsSorted (compC c base)
    | .mk ts, h, base => by
      have := setsTs ts (by simpa [okC] using h) base
      simpa [compC] using this
  theorem setsCs : (cs : List Concat) → okCs cs = true → ∀ fin base, SetsSorted (compCs fin cs base)
    | [], _, _, _ => by simpa [compCs] using SetsSorted.nil
    | [c], h, _, base => by
      have h' : okC c = true := by simpa [okCs] using h
      simpa [compCs] using setsC c h' base
    | c :: c' :: cs, h, fin, base => by
      have h' : okC c = true ∧ okCs (c' :: cs) = true := by simpa [okCs] using h
      simp only [compCs]
      exact SetsSorted.cons (by intro rs hh; rcases hh with hh | hh <;> cases hh)
        ((setsC c h'.1 _).append (SetsSorted.cons (by intro rs hh; rcases hh with hh | hh <;> cases hh)
          (setsCs (c' :: cs) h'.2 _ _)))
  theorem setsU : (u : Union) → okU u = true → ∀ base, SetsSorted (compU u base)
    | .mk us, h, base => by
      have h' : okCs us = true := by simp [okU] at h; exact h.2
      simpa [compU] using setsCs us h' _ base
end

theorem setsSorted_compileTop (r : Regex) (h : Accepted r) : SetsSorted (compileTop r) := by
  obtain ⟨t, ts, l, hr, _, _, _, hok⟩ := accepted_shape r h
  subst hr
  simp only [compileTop]
  exact (setsTs _ (okTs_body t ts hok) 0).append
    (SetsSorted.single .matched (by intro rs; constructor <;> intro h <;> cases h))

end AasVerif.Revm
