import AasVerif.Model.XsdPattern
import AasVerif.Model.Retree.InRange
/-!
Reading back what the XSD renderer writes: `XsdRe.feed` on the rendering of a tree arrives at
the state that holds the normalised tree (`normUnion`: encoded flags cleared, quantifiers greedy,
`.` as `[^\n\r]`).  The reader consumes one character per step, so the proof composes along
`++` (`feed_append`).
-/
namespace AasVerif.XsdPattern
open AasVerif AasVerif.Retree AasVerif.XsdPattern.XsdRe

/-! ### Normal form of a tree as the reader returns it -/

def normChr (c : Chr) : Chr := ⟨c.code, false⟩
def normRng (r : Rng) : Rng := ⟨normChr r.start, r.stop.map normChr⟩
def normQuant (q : Quant) : Quant := ⟨false, q.min, q.max⟩

mutual
  def normValue : Value → Value
    | .group u => .group (normUnion u)
    | .char c => .char (normChr c)
    | .set compl rs => .set compl (rs.map normRng)
    | .fv i => .fv i
    | .sym .dot => dotSet
    | .sym k => .sym k
  def normTerms : List Term → List Term
    | [] => []
    | .mk v q :: ts => .mk (normValue v) (q.map normQuant) :: normTerms ts
  def normConcats : List Concat → List Concat
    | [] => []
    | .mk ts :: cs => .mk (normTerms ts) :: normConcats cs
  def normUnion : Union → Union
    | .mk us => .mk (normConcats us)
end

/-! ### feed -/

theorem feed_append (st : St) (a b : Text) :
    feed st (a ++ b) = (match feed st a with | .ok st' => feed st' b | .error e => .error e) := by
  induction a generalizing st with
  | nil => rfl
  | cons c a ih =>
    simp only [List.cons_append, feed]
    cases step st c with
    | ok st' => exact ih st'
    | error e => rfl

theorem feed_cons_ok {st st' : St} {c : Nat} (t : Text) (h : step st c = .ok st') :
    feed st (c :: t) = feed st' t := by
  simp only [feed, h]

/-- a state between two atoms -/
abbrev N (p : Option Value) (cur : Frame) (stk : List Frame) : St := ⟨.normal, p, cur, stk⟩

/-! ### Tables -/

def entryOk (p : Nat × Text) : Bool :=
  match p.2 with
  | [92, e] => (match unesc e with | .ok v => v == p.1 | .error _ => false)
  | _ => false

/-- every entry is `\e` with `e` a single-character escape of the key; the metacharacters have entries -/
def shapeOk (metas : List Nat) (tbl : EscTable) : Bool :=
  tbl.all entryOk && metas.all (fun m => (escLookup m tbl).isSome)

theorem escLookup_entry (tbl : EscTable) (h : tbl.all entryOk = true) (k : Nat) (t : Text)
    (hl : escLookup k tbl = some t) : ∃ e, t = [92, e] ∧ unesc e = .ok k := by
  induction tbl with
  | nil => simp [escLookup] at hl
  | cons p tbl ih =>
    obtain ⟨a, b⟩ := p
    simp only [List.all_cons, Bool.and_eq_true] at h
    simp only [escLookup] at hl
    split at hl
    · next hak =>
      injection hl with hl
      subst hl; subst hak
      have h1 := h.1
      rcases b with _ | ⟨b0, _ | ⟨e, _ | ⟨b2, b3⟩⟩⟩
      · simp [entryOk] at h1
      · simp [entryOk] at h1
      · simp only [entryOk] at h1
        split at h1
        · next hb =>
          injection hb with hb0 hb1
          injection hb1 with hb1 _
          subst hb0; subst hb1
          split at h1
          · next v hv =>
            refine ⟨_, rfl, ?_⟩
            have : v = a := by simpa using h1
            rw [hv, this]
          · cases h1
        · cases h1
      · simp [entryOk] at h1
    · exact ih h.2 hl

theorem escLookup_none_of_metas (metas : List Nat) (tbl : EscTable)
    (h : metas.all (fun m => (escLookup m tbl).isSome) = true) (c : Nat) (hl : escLookup c tbl = none) :
    c ∉ metas := by
  intro hc
  have := List.all_eq_true.mp h c hc
  rw [hl] at this
  cases this

def metaLit : List Nat := [46, 92, 63, 42, 43, 123, 125, 40, 41, 124, 91, 93]
def metaRng : List Nat := [92, 91, 93, 45]

/-! ### Characters outside a class -/

theorem step_raw (p : Option Value) (cur : Frame) (stk : List Frame) (c : Nat) (h : c ∉ metaLit) :
    step (N p cur stk) c = .ok (N (some (.char ⟨c, false⟩)) (flush p cur) stk) := by
  simp only [metaLit, List.mem_cons, List.not_mem_nil, or_false, not_or] at h
  obtain ⟨h1, h2, h3, h4, h5, h6, h7, h8, h9, h10, h11, h12⟩ := h
  simp [step, atom, h1, h2, h3, h4, h5, h6, h7, h8, h9, h10, h11, h12]

theorem feed_escaped (p : Option Value) (cur : Frame) (stk : List Frame) (e x : Nat) (rest : Text)
    (h : unesc e = .ok x) :
    feed (N p cur stk) (92 :: e :: rest) = feed (N (some (.char ⟨x, false⟩)) (flush p cur) stk) rest := by
  have h1 : step (N p cur stk) 92 = .ok ⟨.esc, none, flush p cur, stk⟩ := by simp [step]
  rw [feed_cons_ok _ h1]
  have h2 : step ⟨.esc, none, flush p cur, stk⟩ e = .ok (N (some (.char ⟨x, false⟩)) (flush p cur) stk) := by
    simp [step, h, atom, flush]
  rw [feed_cons_ok _ h2]

theorem unesc_caret : unesc 94 = .ok 94 := rfl

theorem feed_chr (lit : EscTable) (hok : shapeOk metaLit lit = true) (c : Chr)
    (p : Option Value) (cur : Frame) (stk : List Frame) (rest : Text) :
    feed (N p cur stk) (xsdChr lit c ++ rest) = feed (N (some (.char (normChr c))) (flush p cur) stk) rest := by
  simp only [shapeOk, Bool.and_eq_true] at hok
  unfold xsdChr normChr
  split
  · next h =>
    simp only [Bool.and_eq_true, beq_iff_eq] at h
    rw [h.2]
    exact feed_escaped p cur stk 94 94 rest unesc_caret
  · split
    · next t hl =>
      obtain ⟨e, rfl, he⟩ := escLookup_entry lit hok.1 _ _ hl
      exact feed_escaped p cur stk e c.code rest he
    · next hl =>
      have hm := escLookup_none_of_metas metaLit lit hok.2 _ hl
      simp only [List.cons_append, List.nil_append]
      rw [feed_cons_ok _ (step_raw p cur stk c.code hm)]

/-! ### Decimal numbers -/

def digitsFrom (a : Nat) (ds : Text) : Nat := ds.foldl (fun a d => a * 10 + (d - 48)) a

theorem decDigitsAux_acc (f n : Nat) (acc : List Nat) :
    decDigitsAux f n acc = decDigitsAux f n [] ++ acc := by
  induction f generalizing n acc with
  | zero => simp [decDigitsAux]
  | succ f ih =>
    unfold decDigitsAux
    split
    · simp
    · rw [ih (n / 10) ((48 + n % 10) :: acc), ih (n / 10) [48 + n % 10]]
      simp

theorem decDigitsAux_spec (f : Nat) : ∀ n, n < f →
    (decDigitsAux f n []).all XsdRe.isDigit = true ∧ decDigitsAux f n [] ≠ [] ∧
      digitsFrom 0 (decDigitsAux f n []) = n := by
  induction f with
  | zero => intro n h; omega
  | succ f ih =>
    intro n hn
    unfold decDigitsAux
    split
    · next h10 =>
      refine ⟨?_, by simp, ?_⟩
      · simp only [List.all_cons, List.all_nil, Bool.and_true, XsdRe.isDigit, Bool.and_eq_true, decide_eq_true_eq]
        omega
      · simp only [digitsFrom, List.foldl_cons, List.foldl_nil]; omega
    · next h10 =>
      rw [decDigitsAux_acc]
      obtain ⟨h1, h2, h3⟩ := ih (n / 10) (by omega)
      refine ⟨?_, by simp [h2], ?_⟩
      · simp only [List.all_append, h1, List.all_cons, List.all_nil, Bool.and_true, Bool.true_and, XsdRe.isDigit,
          Bool.and_eq_true, decide_eq_true_eq]
        omega
      · unfold digitsFrom at h3 ⊢
        rw [List.foldl_append, h3]
        simp only [List.foldl_cons, List.foldl_nil]
        omega

theorem decDigits_spec (n : Nat) :
    (decDigits n).all XsdRe.isDigit = true ∧ decDigits n ≠ [] ∧ digitsFrom 0 (decDigits n) = n :=
  decDigitsAux_spec (n + 1) n (by omega)

/-! ### Quantifiers -/

def accDigits (acc : Option Nat) (ds : Text) : Option Nat := ds.foldl pushDigit acc

theorem accDigits_some (a : Nat) (ds : Text) : accDigits (some a) ds = some (digitsFrom a ds) := by
  induction ds generalizing a with
  | nil => rfl
  | cons d ds ih =>
    simp only [accDigits, List.foldl_cons, pushDigit, Option.getD_some, digitsFrom] at ih ⊢
    exact ih _

theorem accDigits_none (ds : Text) (h : ds ≠ []) : accDigits none ds = some (digitsFrom 0 ds) := by
  cases ds with
  | nil => exact absurd rfl h
  | cons d ds =>
    have := accDigits_some (0 * 10 + (d - 48)) ds
    simp only [accDigits, List.foldl_cons, pushDigit, Option.getD_none, digitsFrom] at this ⊢
    exact this

theorem feed_qmin_digits (p : Option Value) (cur : Frame) (stk : List Frame) (ds rest : Text)
    (hd : ds.all XsdRe.isDigit = true) (acc : Option Nat) :
    feed ⟨.qmin acc, p, cur, stk⟩ (ds ++ rest) = feed ⟨.qmin (accDigits acc ds), p, cur, stk⟩ rest := by
  induction ds generalizing acc with
  | nil => rfl
  | cons d ds ih =>
    simp only [List.all_cons, Bool.and_eq_true] at hd
    have h1 : step ⟨.qmin acc, p, cur, stk⟩ d = .ok ⟨.qmin (pushDigit acc d), p, cur, stk⟩ := by
      simp [step, hd.1]
    rw [List.cons_append, feed_cons_ok _ h1, ih hd.2]
    rfl

theorem feed_qmax_digits (p : Option Value) (cur : Frame) (stk : List Frame) (mn : Nat) (ds rest : Text)
    (hd : ds.all XsdRe.isDigit = true) (acc : Option Nat) :
    feed ⟨.qmax mn acc, p, cur, stk⟩ (ds ++ rest) = feed ⟨.qmax mn (accDigits acc ds), p, cur, stk⟩ rest := by
  induction ds generalizing acc with
  | nil => rfl
  | cons d ds ih =>
    simp only [List.all_cons, Bool.and_eq_true] at hd
    have h1 : step ⟨.qmax mn acc, p, cur, stk⟩ d = .ok ⟨.qmax mn (pushDigit acc d), p, cur, stk⟩ := by
      simp [step, hd.1]
    rw [List.cons_append, feed_cons_ok _ h1, ih hd.2]
    rfl

/-- the state after the pending atom `v` got the quantifier `q` -/
abbrev Q (v : Value) (q : Quant) (cur : Frame) (stk : List Frame) : St :=
  N none ⟨cur.alts, cur.pieces ++ [.mk v (some q)]⟩ stk

/-- `{n` … -/
theorem feed_brace_num (v : Value) (cur : Frame) (stk : List Frame) (n : Nat) (rest : Text) :
    feed (N (some v) cur stk) (123 :: (decDigits n ++ rest)) = feed ⟨.qmin (some n), some v, cur, stk⟩ rest := by
  obtain ⟨hd, hne, hv⟩ := decDigits_spec n
  have h1 : step (N (some v) cur stk) 123 = .ok ⟨.qmin none, some v, cur, stk⟩ := by simp [step]
  rw [feed_cons_ok _ h1, feed_qmin_digits _ _ _ _ _ hd, accDigits_none _ hne, hv]

theorem feed_quant (v : Value) (q : Quant) (hq : inRangeQuant q = true) (cur : Frame) (stk : List Frame) (rest : Text) :
    feed (N (some v) cur stk) (xsdQuant q ++ rest) = feed (Q v (normQuant q) cur stk) rest := by
  obtain ⟨ng, mn, mx⟩ := q
  simp only [xsdQuant, renderQuant, normQuant, Bool.false_eq_true, if_false, List.append_nil]
  cases mx with
  | some m =>
    simp only [inRangeQuant, Bool.and_eq_true, decide_eq_true_eq] at hq
    replace hq : mn ≤ m := hq.2.1
    simp only
    split
    · next hmm =>
      subst hmm
      simp only [List.append_assoc, List.cons_append, List.nil_append]
      rw [feed_brace_num]
      have h2 : step ⟨.qmin (some mn), some v, cur, stk⟩ 125 = .ok (Q v ⟨false, mn, some mn⟩ cur stk) := by
        simp [step, XsdRe.isDigit, applyQuant]
      rw [feed_cons_ok _ h2]
    · split
      · next hne h0 =>
        subst h0
        split
        · next h1 =>
          subst h1
          have h2 : step (N (some v) cur stk) 63 = .ok (Q v ⟨false, 0, some 1⟩ cur stk) := by
            simp [step, applyQuant]
          simp only [List.cons_append, List.nil_append]
          rw [feed_cons_ok _ h2]
        · obtain ⟨hd, hne', hv⟩ := decDigits_spec m
          have h1 : step (N (some v) cur stk) 123 = .ok ⟨.qmin none, some v, cur, stk⟩ := by simp [step]
          have h2 : step ⟨.qmin none, some v, cur, stk⟩ 48 = .ok ⟨.qmin (some 0), some v, cur, stk⟩ := by
            simp [step, XsdRe.isDigit, pushDigit]
          have h3 : step ⟨.qmin (some 0), some v, cur, stk⟩ 44 = .ok ⟨.qmax 0 none, some v, cur, stk⟩ := by
            simp [step, XsdRe.isDigit]
          have h4 : step ⟨.qmax 0 (some m), some v, cur, stk⟩ 125 = .ok (Q v ⟨false, 0, some m⟩ cur stk) := by
            simp [step, XsdRe.isDigit, applyQuant]
          simp only [List.append_assoc, List.cons_append, List.nil_append]
          rw [feed_cons_ok _ h1, feed_cons_ok _ h2, feed_cons_ok _ h3, feed_qmax_digits _ _ _ _ _ _ hd,
            accDigits_none _ hne', hv, feed_cons_ok _ h4]
      · next hne h0 =>
        obtain ⟨hd, hne', hv⟩ := decDigits_spec m
        have h3 : step ⟨.qmin (some mn), some v, cur, stk⟩ 44 = .ok ⟨.qmax mn none, some v, cur, stk⟩ := by
          simp [step, XsdRe.isDigit]
        have h4 : step ⟨.qmax mn (some m), some v, cur, stk⟩ 125 = .ok (Q v ⟨false, mn, some m⟩ cur stk) := by
          simp [step, XsdRe.isDigit, applyQuant, hq]
        simp only [List.append_assoc, List.cons_append, List.nil_append]
        rw [feed_brace_num, feed_cons_ok _ h3, feed_qmax_digits _ _ _ _ _ _ hd, accDigits_none _ hne', hv,
          feed_cons_ok _ h4]
  | none =>
    simp only
    split
    · next h0 =>
      subst h0
      have h2 : step (N (some v) cur stk) 42 = .ok (Q v ⟨false, 0, none⟩ cur stk) := by simp [step, applyQuant]
      simp only [List.cons_append, List.nil_append]
      rw [feed_cons_ok _ h2]
    · split
      · next h0 h1 =>
        subst h1
        have h2 : step (N (some v) cur stk) 43 = .ok (Q v ⟨false, 1, none⟩ cur stk) := by simp [step, applyQuant]
        simp only [List.cons_append, List.nil_append]
        rw [feed_cons_ok _ h2]
      · have h3 : step ⟨.qmin (some mn), some v, cur, stk⟩ 44 = .ok ⟨.qmax mn none, some v, cur, stk⟩ := by
          simp [step, XsdRe.isDigit]
        have h4 : step ⟨.qmax mn none, some v, cur, stk⟩ 125 = .ok (Q v ⟨false, mn, none⟩ cur stk) := by
          simp [step, XsdRe.isDigit, applyQuant]
        simp only [List.append_assoc, List.cons_append, List.nil_append]
        rw [feed_brace_num, feed_cons_ok _ h3, feed_cons_ok _ h4]

end AasVerif.XsdPattern
