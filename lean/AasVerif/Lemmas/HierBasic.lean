import AasVerif.Model.Hier
/-!
Generic lemmas for the hierarchy model: the de-duplicating loop `addAll`, the
association-list state (`get`, `foldUpd`) and induction along a topological order.
-/
namespace AasVerif.Hier

/-! ## `pushNew` / `addAll` -/

section AddAll
variable {α : Type} [DecidableEq α]

theorem mem_pushNew {acc : List α} {x y : α} : y ∈ pushNew acc x ↔ y ∈ acc ∨ y = x := by
  unfold pushNew
  split
  · next h => constructor
              · intro hy; exact Or.inl hy
              · rintro (hy | rfl); exact hy; exact h
  · simp

theorem nodup_pushNew {acc : List α} {x : α} (h : acc.Nodup) : (pushNew acc x).Nodup := by
  unfold pushNew
  split
  · exact h
  · next hx =>
    rw [List.nodup_append]
    refine ⟨h, by simp, ?_⟩
    intro a ha b hb
    simp at hb
    subst hb
    intro hab
    subst hab
    exact hx ha

theorem mem_addAll {xs acc : List α} {y : α} : y ∈ addAll acc xs ↔ y ∈ acc ∨ y ∈ xs := by
  unfold addAll
  induction xs generalizing acc with
  | nil => simp
  | cons x xs ih =>
    simp only [List.foldl_cons, List.mem_cons]
    rw [ih, mem_pushNew]
    constructor
    · rintro ((h | h) | h)
      · exact Or.inl h
      · exact Or.inr (Or.inl h)
      · exact Or.inr (Or.inr h)
    · rintro (h | h | h)
      · exact Or.inl (Or.inl h)
      · exact Or.inl (Or.inr h)
      · exact Or.inr h

theorem nodup_addAll {xs acc : List α} (h : acc.Nodup) : (addAll acc xs).Nodup := by
  unfold addAll
  induction xs generalizing acc with
  | nil => simpa using h
  | cons x xs ih => simp only [List.foldl_cons]; exact ih (nodup_pushNew h)

theorem addAll_nil (acc : List α) : addAll acc [] = acc := rfl

theorem addAll_cons (acc : List α) (x : α) (xs : List α) : addAll acc (x :: xs) = addAll (pushNew acc x) xs := rfl

theorem addAll_append (acc xs ys : List α) : addAll acc (xs ++ ys) = addAll (addAll acc xs) ys := by
  unfold addAll
  rw [List.foldl_append]

/-- `addAll` only appends: the accumulator stays a prefix. -/
theorem addAll_prefix (acc xs : List α) : ∃ t, addAll acc xs = acc ++ t := by
  induction xs generalizing acc with
  | nil => exact ⟨[], by simp [addAll_nil]⟩
  | cons x xs ih =>
    rw [addAll_cons]
    obtain ⟨t, ht⟩ := ih (pushNew acc x)
    unfold pushNew at ht ⊢
    split at ht
    · next h => simp only [h, if_true]; exact ⟨t, ht⟩
    · next h => simp only [h, if_false]; exact ⟨x :: t, by rw [ht]; simp⟩

/-- elements already present are skipped -/
theorem addAll_of_subset {acc xs : List α} (h : ∀ x ∈ xs, x ∈ acc) : addAll acc xs = acc := by
  induction xs generalizing acc with
  | nil => rfl
  | cons x xs ih =>
    rw [addAll_cons]
    have hx : x ∈ acc := h x (by simp)
    have : pushNew acc x = acc := by unfold pushNew; simp [hx]
    rw [this]
    exact ih (fun y hy => h y (by simp [hy]))

/-- a block of fresh, pairwise different elements is appended as it is -/
theorem addAll_fresh {acc xs : List α} (hx : xs.Nodup) (hd : ∀ x ∈ xs, x ∉ acc) : addAll acc xs = acc ++ xs := by
  induction xs generalizing acc with
  | nil => simp [addAll_nil]
  | cons x xs ih =>
    rw [addAll_cons]
    have hx' := List.nodup_cons.mp hx
    have : pushNew acc x = acc ++ [x] := by
      unfold pushNew
      simp [hd x (by simp)]
    rw [this, ih hx'.2]
    · simp
    · intro y hy hmem
      simp only [List.mem_append, List.mem_singleton] at hmem
      rcases hmem with h | h
      · exact hd y (by simp [hy]) h
      · subst h; exact hx'.1 hy

end AddAll

/-! ## association-list state -/

section State
variable {κ β : Type}

@[simp] theorem get_nil (d : Name → β) (k : Name) : get d [] k = d k := rfl

@[simp] theorem get_cons (d : Name → β) (k' : Name) (v : β) (m : List (Name × β)) (k : Name) :
    get d ((k', v) :: m) k = if k = k' then v else get d m k := rfl

/-- `foldUpd` continued from a state -/
def foldUpdFrom (key : κ → Name) (d : Name → β) (F : (Name → β) → κ → β) (m0 : List (Name × β)) (xs : List κ) :
    List (Name × β) :=
  xs.foldl (fun m x => (key x, F (get d m) x) :: m) m0

theorem foldUpd_eq_from (key : κ → Name) (d : Name → β) (F : (Name → β) → κ → β) (xs : List κ) :
    foldUpd key d F xs = foldUpdFrom key d F [] xs := rfl

theorem foldUpdFrom_append (key : κ → Name) (d : Name → β) (F : (Name → β) → κ → β) (m0 : List (Name × β))
    (xs ys : List κ) :
    foldUpdFrom key d F m0 (xs ++ ys) = foldUpdFrom key d F (foldUpdFrom key d F m0 xs) ys := by
  unfold foldUpdFrom
  rw [List.foldl_append]

theorem foldUpdFrom_cons (key : κ → Name) (d : Name → β) (F : (Name → β) → κ → β) (m0 : List (Name × β))
    (x : κ) (xs : List κ) :
    foldUpdFrom key d F m0 (x :: xs) = foldUpdFrom key d F ((key x, F (get d m0) x) :: m0) xs := rfl

/-- entries of classes the pass does not visit (any more) keep their value -/
theorem get_foldUpdFrom_of_not_mem (key : κ → Name) (d : Name → β) (F : (Name → β) → κ → β)
    (xs : List κ) (m0 : List (Name × β)) (n : Name) (h : n ∉ xs.map key) :
    get d (foldUpdFrom key d F m0 xs) n = get d m0 n := by
  induction xs generalizing m0 with
  | nil => rfl
  | cons x xs ih =>
    rw [foldUpdFrom_cons, ih]
    · simp only [List.map_cons, List.mem_cons, not_or] at h
      simp [h.1]
    · simp only [List.map_cons, List.mem_cons, not_or] at h
      exact h.2

/-- The value of a class after the pass is what the pass computed when it visited the class,
and — if everything the computation reads was final by then — it satisfies the recursion equation
over the final state. -/
theorem foldUpd_spec (key : κ → Name) (d : Name → β) (F : (Name → β) → κ → β) (deps : κ → List Name)
    (xs : List κ) (hnd : (xs.map key).Nodup)
    (hloc : ∀ x st st', (∀ p ∈ deps x, st p = st' p) → F st x = F st' x)
    (htopo : ∀ l1 x l2, xs = l1 ++ x :: l2 → ∀ p ∈ deps x, p ∉ (x :: l2).map key) :
    ∀ x ∈ xs, get d (foldUpd key d F xs) (key x) = F (get d (foldUpd key d F xs)) x := by
  intro x hx
  obtain ⟨l1, l2, hsplit⟩ := List.append_of_mem hx
  have hnd' : ((l1.map key) ++ key x :: l2.map key).Nodup := by simpa [hsplit] using hnd
  have hx2 : key x ∉ l2.map key := by
    have := (List.nodup_append.mp hnd').2.1
    exact (List.nodup_cons.mp this).1
  rw [foldUpd_eq_from]
  have e1 : foldUpdFrom key d F [] xs
      = foldUpdFrom key d F ((key x, F (get d (foldUpdFrom key d F [] l1)) x) :: foldUpdFrom key d F [] l1) l2 := by
    rw [hsplit, foldUpdFrom_append, foldUpdFrom_cons]
  have e2 : get d (foldUpdFrom key d F [] xs) (key x) = F (get d (foldUpdFrom key d F [] l1)) x := by
    rw [e1, get_foldUpdFrom_of_not_mem _ _ _ _ _ _ hx2]
    simp
  rw [e2]
  apply hloc
  intro p hp
  have hp' := htopo l1 x l2 hsplit p hp
  have : foldUpdFrom key d F [] xs = foldUpdFrom key d F (foldUpdFrom key d F [] l1) (x :: l2) := by
    rw [hsplit, foldUpdFrom_append]
  rw [this, get_foldUpdFrom_of_not_mem _ _ _ _ _ _ hp']

theorem get_foldUpd_of_not_mem (key : κ → Name) (d : Name → β) (F : (Name → β) → κ → β)
    (xs : List κ) (n : Name) (h : n ∉ xs.map key) :
    get d (foldUpd key d F xs) n = d n := by
  rw [foldUpd_eq_from, get_foldUpdFrom_of_not_mem _ _ _ _ _ _ h]
  rfl

end State

/-! ## topological orders -/

/-- every parent of a class stands strictly before the class (`first_not_in_topological_order … is None`) -/
def TopoSorted (par : Name → List Name) (order : List Name) : Prop :=
  ∀ l1 c l2, order = l1 ++ c :: l2 → ∀ p ∈ par c, p ∈ l1

theorem TopoSorted.not_after {par : Name → List Name} {order : List Name} (h : TopoSorted par order)
    (hnd : order.Nodup) {l1 l2 : List Name} {c : Name} (hs : order = l1 ++ c :: l2) {p : Name} (hp : p ∈ par c) :
    p ∉ (c :: l2) := by
  have h1 := h l1 c l2 hs p hp
  rw [hs, List.nodup_append] at hnd
  intro h2
  exact hnd.2.2 p h1 p h2 rfl

theorem TopoSorted.concat {par : Name → List Name} {l : List Name} {c : Name} (h : TopoSorted par l)
    (hc : ∀ p ∈ par c, p ∈ l) : TopoSorted par (l ++ [c]) := by
  intro l1 x l2 hs p hp
  rcases List.eq_nil_or_concat l2 with rfl | ⟨l2', y, rfl⟩
  · have := List.append_inj' (by simpa using hs : l ++ [c] = l1 ++ [x]) rfl
    obtain ⟨e1, e2⟩ := this
    simp at e2
    subst e1 e2
    exact hc p hp
  · have hs' : l ++ [c] = (l1 ++ x :: l2') ++ [y] := by simpa using hs
    have := List.append_inj' hs' rfl
    exact h l1 x l2' this.1 p hp

theorem TopoSorted.nil (par : Name → List Name) : TopoSorted par [] := by
  intro l1 c l2 hs
  simp at hs

/-- Induction along a topological order: to prove `P c` the parents may be assumed. -/
theorem topo_induction {P : Name → Prop} {par : Name → List Name} {order : List Name}
    (hts : TopoSorted par order)
    (step : ∀ c ∈ order, (∀ p ∈ par c, P p) → P c) : ∀ c ∈ order, P c := by
  have key : ∀ n, ∀ l rest, l.length = n → order = l ++ rest → ∀ c ∈ l, P c := by
    intro n
    induction n with
    | zero =>
      intro l rest hl _ c hc
      have : l = [] := List.length_eq_zero_iff.mp hl
      subst this
      simp at hc
    | succ n ih =>
      intro l rest hl hs c hc
      rcases List.eq_nil_or_concat l with rfl | ⟨l', y, rfl⟩
      · simp at hl
      · have hl' : l'.length = n := by simpa using hl
        have hs' : order = l' ++ y :: rest := by simpa using hs
        have hprev := ih l' (y :: rest) hl' hs'
        simp only [List.concat_eq_append, List.mem_append, List.mem_singleton] at hc
        rcases hc with hc | rfl
        · exact hprev c hc
        · apply step c (by rw [hs']; simp)
          intro p hp
          exact hprev p (hts l' c rest hs' p hp)
  exact key order.length order [] rfl (by simp)

end AasVerif.Hier
