import AasVerif.Lemmas.RevmRunBase
import AasVerif.Lemmas.RevmRunSearch
/-!
Main theorems about the fixed C++ `Match` loop (`clr = false`): `runCpp_terminates`, `runCpp_refines`.
See `RevmRunBase` for the method.
-/
namespace AasVerif.Revm

namespace Run

/-- One iteration of `while (!clist->Empty())`: pop `pc`; either it is a `match` and the loop returns
`true`, or its successors are spawned and the loop continues. -/
theorem runList_iter (p : Program) (c : Option Nat) (fuel : Nat) (cl nl : ThreadList) (pc : Nat)
    (rest : List Nat) (hp : WfProg p) (hi : cl.items = pc :: rest) (hpc : pc < p.length) :
    (p[pc]? = some .matched ∧ runList false p c (fuel + 1) cl nl = some (.returned (.ret true))) ∨
    (p[pc]? ≠ some .matched ∧ ∃ cl' nl', Ext p.length ⟨cl.has, rest⟩ (esucc p c pc) cl' ∧
        Ext p.length nl (csucc cppInRanges p c pc) nl' ∧
        runList false p c (fuel + 1) cl nl = runList false p c fuel cl' nl') := by
  obtain ⟨i, hi'⟩ : ∃ i, p[pc]? = some i := ⟨p[pc], List.getElem?_eq_getElem hpc⟩
  by_cases hm : i = .matched
  · subst hm; left; refine ⟨hi', ?_⟩
    simp [runList, hi, stepThread, hi']
  · right
    refine ⟨by rw [hi']; simpa using hm, ?_⟩
    obtain ⟨cl', h1, e1⟩ := spawnAll_spec p.length ⟨cl.has, rest⟩ _ (esucc_lt hp c pc)
    obtain ⟨nl', h2, e2⟩ := spawnAll_spec p.length nl _ (csucc_lt hp cppInRanges c pc)
    refine ⟨cl', nl', e1, e2, ?_⟩
    have := stepThread_cont p c ⟨cl.has, rest⟩ nl pc i cl' nl' hi'
      (hp.2.1 i (List.mem_of_getElem? hi')) hm h1 h2
    simp [runList, hi, popped, this]

theorem ok_pop {n : Nat} {cl : ThreadList} {pc : Nat} {rest : List Nat} (h : Ok n cl)
    (hi : cl.items = pc :: rest) : Ok n ⟨cl.has, rest⟩ ∧ mu n ⟨cl.has, rest⟩ + 1 = mu n cl := by
  have hmu : mu n ⟨cl.has, rest⟩ + 1 = mu n cl := by simp [mu, hi]; omega
  refine ⟨⟨fun y hy => h.items y (by simp [hi, hy]), ?_⟩, hmu⟩
  have := h.mu; omega

/-! ## Termination -/

theorem runList_some (p : Program) (c : Option Nat) (hp : WfProg p) :
    ∀ fuel cl nl, Ok p.length cl → mu p.length cl < fuel →
      ∃ r, runList false p c fuel cl nl = some r := by
  intro fuel
  induction fuel with
  | zero => intro cl nl _ h; omega
  | succ fuel ih =>
    intro cl nl hok hmu
    cases hi : cl.items with
    | nil => exact ⟨.next nl, by simp [runList, hi]⟩
    | cons pc rest =>
      have hpc : pc < p.length := (hok.items pc (by simp [hi])).2
      rcases runList_iter p c fuel cl nl pc rest hp hi hpc with ⟨_, h⟩ | ⟨_, cl', nl', e1, _, h⟩
      · exact ⟨_, h⟩
      · rw [h]
        obtain ⟨hok', hmu'⟩ := ok_pop hok hi
        exact ih cl' nl' (e1.ok hok') (by rw [e1.mu]; omega)

/-! ## Liveness -/

/-- a `match` instruction is reachable from `(pc, rem)` -/
def Live (p : Program) (pc : Nat) (rem : Text) : Prop :=
  ∃ pc' rest, Steps p (pc, rem) (pc', rest) ∧ p[pc']? = some .matched

theorem Live.of_step {p : Program} {pc x : Nat} {rem rest : Text} (h : Step p (pc, rem) (x, rest))
    (hl : Live p x rest) : Live p pc rem := by
  obtain ⟨pc', r, hs, hm⟩ := hl
  exact ⟨pc', r, Steps.head _ _ _ h hs, hm⟩

/-- some thread of `clist` is live on the remaining text -/
def CLive (p : Program) (rem : Text) (t : ThreadList) : Prop :=
  ∃ pc, t.has pc = true ∧ Live p pc rem

/-- some thread of `nlist` is live on the text after the current character -/
def NLive (p : Program) (rem : Text) (t : ThreadList) : Prop :=
  ∃ pc d s, rem = d :: s ∧ t.has pc = true ∧ Live p pc s

/-- all successors of `y` are in the lists, and `y` is not a `match` -/
def Closed (p : Program) (rem : Text) (H N : Nat → Bool) (y : Nat) : Prop :=
  p[y]? ≠ some .matched ∧
  ∀ x rest, Step p (y, rem) (x, rest) → (rest = rem ∧ H x = true) ∨ (∃ d, rem = d :: rest ∧ N x = true)

/-- worklist invariant: every thread in `has_` is still to be processed or closed -/
def WInv (p : Program) (rem : Text) (cl nl : ThreadList) : Prop :=
  ∀ y, cl.has y = true → y ∈ cl.items ∨ Closed p rem cl.has nl.has y

theorem closed_escape (p : Program) (rem : Text) (H N : Nat → Bool)
    (hcl : ∀ y, H y = true → Closed p rem H N y) :
    ∀ a b, Steps p a b → ∀ y, a = (y, rem) → H y = true → p[b.1]? = some .matched →
      ∃ x d s, rem = d :: s ∧ N x = true ∧ Live p x s := by
  intro a b hs
  induction hs with
  | refl a =>
    intro y ha hy hm
    subst ha
    exact absurd hm (hcl y hy).1
  | head a b c hstep hsteps ih =>
    intro y ha hy hm
    subst ha
    obtain ⟨x, rest⟩ := b
    rcases (hcl y hy).2 x rest hstep with ⟨rfl, hx⟩ | ⟨d, rfl, hx⟩
    · exact ih x rfl hx hm
    · exact ⟨x, d, rest, rfl, hx, c.1, c.2, hsteps, hm⟩

/-- soundness of one iteration: liveness is propagated backwards -/
theorem live_back {p : Program} {rem : Text} {cl nl cl' nl' : ThreadList} {pc : Nat} {rest : List Nat}
    (e1 : Ext p.length ⟨cl.has, rest⟩ (esucc p rem.head? pc) cl')
    (e2 : Ext p.length nl (csucc inRanges p rem.head? pc) nl')
    (hpc : cl.has pc = true) (h : CLive p rem cl' ∨ NLive p rem nl') :
    CLive p rem cl ∨ NLive p rem nl := by
  rcases h with ⟨x, hx, hl⟩ | ⟨x, d, s, rfl, hx, hl⟩
  · rcases (e1.has x).1 hx with h | h
    · exact .inl ⟨x, h, hl⟩
    · exact .inl ⟨pc, hpc, Live.of_step ((step_iff p rem pc x rem).2 (.inl ⟨rfl, h⟩)) hl⟩
  · rcases (e2.has x).1 hx with h | h
    · exact .inr ⟨x, d, s, rfl, h, hl⟩
    · exact .inl ⟨pc, hpc, Live.of_step ((step_iff p (d :: s) pc x s).2 (.inr ⟨d, rfl, h⟩)) hl⟩

/-- completeness of one iteration: the worklist invariant is preserved -/
theorem winv_step {p : Program} {rem : Text} {cl nl cl' nl' : ThreadList} {pc : Nat} {rest : List Nat}
    (hi : cl.items = pc :: rest) (hm : p[pc]? ≠ some .matched)
    (e1 : Ext p.length ⟨cl.has, rest⟩ (esucc p rem.head? pc) cl')
    (e2 : Ext p.length nl (csucc inRanges p rem.head? pc) nl')
    (h : WInv p rem cl nl) : WInv p rem cl' nl' := by
  intro y hy
  rcases e1.new y hy with hy' | hy'
  · have hy'' : cl.has y = true := hy'
    have hclosed : Closed p rem cl.has nl.has y → Closed p rem cl'.has nl'.has y := by
      rintro ⟨h1, h2⟩
      refine ⟨h1, fun x r hst => ?_⟩
      rcases h2 x r hst with ⟨hr, hx⟩ | ⟨d, hr, hx⟩
      · exact .inl ⟨hr, e1.mono hx⟩
      · exact .inr ⟨d, hr, e2.mono hx⟩
    rcases h y hy'' with hmem | hc
    · rw [hi] at hmem
      rcases List.mem_cons.1 hmem with rfl | hmem
      · right
        refine ⟨hm, fun x r hst => ?_⟩
        rcases (step_iff p rem y x r).1 hst with ⟨hr, hx⟩ | ⟨d, hr, hx⟩
        · exact .inl ⟨hr, (e1.has x).2 (.inr hx)⟩
        · refine .inr ⟨d, hr, (e2.has x).2 (.inr ?_)⟩
          rw [hr]; exact hx
      · exact .inl (e1.sub y hmem)
    · exact .inr (hclosed hc)
  · exact .inl hy'

/-! ## Specification of the inner loop -/

theorem runList_spec (p : Program) (rem : Text) (hp : WfProg p) :
    ∀ fuel cl nl r, Ok p.length cl → Ok p.length nl →
      runList false p rem.head? fuel cl nl = some r →
      match r with
      | .returned o => o = .ret true ∧ (SearchOk p → CLive p rem cl ∨ NLive p rem nl)
      | .next nl' => Ok p.length nl' ∧ (Fresh nl → Fresh nl') ∧
          (SearchOk p → (NLive p rem nl' → CLive p rem cl ∨ NLive p rem nl) ∧
            (WInv p rem cl nl → CLive p rem cl → NLive p rem nl')) := by
  intro fuel
  induction fuel with
  | zero => intro cl nl r _ _ h; simp [runList] at h
  | succ fuel ih =>
    intro cl nl r hok hnl hr
    cases hi : cl.items with
    | nil =>
      simp [runList, hi] at hr
      subst hr
      refine ⟨hnl, id, fun _ => ⟨.inr, fun hw ⟨y, hy, hl⟩ => ?_⟩⟩
      obtain ⟨pc', rest, hst, hm⟩ := hl
      have hcl : ∀ y, cl.has y = true → Closed p rem cl.has nl.has y := by
        intro y hy
        rcases hw y hy with h | h
        · simp [hi] at h
        · exact h
      obtain ⟨x, d, s, h1, h2, h3⟩ := closed_escape p rem cl.has nl.has hcl _ _ hst y rfl hy hm
      exact ⟨x, d, s, h1, h2, h3⟩
    | cons pc rest =>
      obtain ⟨hhas, hpc⟩ := hok.items pc (by simp [hi])
      rcases runList_iter p rem.head? fuel cl nl pc rest hp hi hpc with
        ⟨hm, h⟩ | ⟨hm, cl', nl', e1, e2, h⟩
      · rw [h] at hr
        cases hr
        exact ⟨rfl, fun _ => .inl ⟨pc, hhas, pc, rem, Steps.refl _, hm⟩⟩
      · rw [h] at hr
        have hok' := e1.ok (ok_pop hok hi).1
        have hnl' := e2.ok hnl
        have := ih cl' nl' r hok' hnl' hr
        cases r with
        | returned o =>
          refine ⟨this.1, fun hs => ?_⟩
          rw [csucc_searchOk hs] at e2
          exact live_back e1 e2 hhas (this.2 hs)
        | next nl'' =>
          obtain ⟨h1, h2, h3⟩ := this
          refine ⟨h1, fun hf => h2 (e2.fresh hf), fun hs => ?_⟩
          rw [csucc_searchOk hs] at e2
          obtain ⟨h4, h5⟩ := h3 hs
          refine ⟨fun hl => live_back e1 e2 hhas (h4 hl), fun hw hl => ?_⟩
          refine h5 (winv_step hi hm e1 e2 hw) ?_
          obtain ⟨y, hy, hl⟩ := hl
          exact ⟨y, e1.mono hy, hl⟩

/-! ## The loop over the text -/

theorem not_nlive_empty (p : Program) (rem : Text) : ¬ NLive p rem ThreadList.empty := by
  rintro ⟨pc, d, s, _, h, _⟩
  simp [ThreadList.empty] at h

theorem winv_of_fresh (p : Program) (rem : Text) {cl : ThreadList} (nl : ThreadList) (h : Fresh cl) :
    WInv p rem cl nl := fun y hy => .inl (h y hy)

theorem runText_terminates (p : Program) (hp : WfProg p) :
    ∀ s cl, Ok p.length cl →
      ∃ o, runText false p (p.length + 1) s cl = some o ∧ ∀ site, o ≠ .crash site := by
  intro s
  induction s with
  | nil =>
    intro cl hok
    obtain ⟨r, h⟩ := runList_some p none hp (p.length + 1) cl ThreadList.empty hok
      (by have := hok.mu; omega)
    have hspec := runList_spec p [] hp _ cl ThreadList.empty r hok (ok_empty _) h
    cases r with
    | returned o =>
      obtain ⟨rfl, _⟩ := hspec
      exact ⟨.ret true, by simp [runText, h], by simp⟩
    | next nl' => exact ⟨.ret false, by simp [runText, h], by simp⟩
  | cons ch s ih =>
    intro cl hok
    obtain ⟨r, h⟩ := runList_some p (some ch) hp (p.length + 1) cl ThreadList.empty hok
      (by have := hok.mu; omega)
    have hspec := runList_spec p (ch :: s) hp _ cl ThreadList.empty r hok (ok_empty _) h
    cases r with
    | returned o =>
      obtain ⟨rfl, _⟩ := hspec
      exact ⟨.ret true, by simp [runText, h], by simp⟩
    | next nl' =>
      obtain ⟨o, h1, h2⟩ := ih nl' hspec.1
      exact ⟨o, by simp [runText, h, h1], h2⟩

theorem runText_spec (p : Program) (hp : WfProg p) (hs : SearchOk p) (fuel : Nat) :
    ∀ rem cl b, Ok p.length cl → Fresh cl → runText false p fuel rem cl = some (.ret b) →
      (b = true ↔ CLive p rem cl) := by
  intro rem
  induction rem with
  | nil =>
    intro cl b hok hf hr
    cases h : runList false p none fuel cl ThreadList.empty with
    | none => simp [runText, h] at hr
    | some r =>
      have hspec := runList_spec p [] hp _ cl ThreadList.empty r hok (ok_empty _) h
      cases r with
      | returned o =>
        obtain ⟨rfl, h1⟩ := hspec
        simp [runText, h] at hr
        subst hr
        rcases h1 hs with h2 | h2
        · simp [h2]
        · exact absurd h2 (not_nlive_empty _ _)
      | next nl' =>
        simp [runText, h] at hr
        subst hr
        obtain ⟨_, _, h3⟩ := hspec
        constructor
        · intro h; cases h
        · intro hl
          obtain ⟨_, _, _, h4, _⟩ := (h3 hs).2 (winv_of_fresh p _ _ hf) hl
          cases h4
  | cons ch s ih =>
    intro cl b hok hf hr
    cases h : runList false p (some ch) fuel cl ThreadList.empty with
    | none => simp [runText, h] at hr
    | some r =>
      have hspec := runList_spec p (ch :: s) hp _ cl ThreadList.empty r hok (ok_empty _) h
      cases r with
      | returned o =>
        obtain ⟨rfl, h1⟩ := hspec
        simp [runText, h] at hr
        subst hr
        rcases h1 hs with h2 | h2
        · simp [h2]
        · exact absurd h2 (not_nlive_empty _ _)
      | next nl' =>
        simp [runText, h] at hr
        obtain ⟨h1, h2, h3⟩ := hspec
        obtain ⟨h4, h5⟩ := h3 hs
        rw [ih nl' b h1 (h2 fresh_empty) hr]
        constructor
        · rintro ⟨pc, hpc, hl⟩
          rcases h4 ⟨pc, ch, s, rfl, hpc, hl⟩ with h6 | h6
          · exact h6
          · exact absurd h6 (not_nlive_empty _ _)
        · intro hl
          obtain ⟨pc, d, s', heq, hpc, hl'⟩ := h5 (winv_of_fresh p _ _ hf) hl
          cases heq
          exact ⟨pc, hpc, hl'⟩

/-! ## `Match` -/

theorem init_spawn {n : Nat} (hn : 0 < n) :
    ∃ cl, ThreadList.empty.spawn n 0 = some cl ∧ Ok n cl ∧ Fresh cl ∧ ∀ y, cl.has y = true ↔ y = 0 := by
  refine ⟨⟨setBit (fun _ => false) 0 true, [0]⟩, ?_, ⟨?_, ?_⟩, ?_, ?_⟩
  · have : ¬ 0 ≥ n := by omega
    simp [ThreadList.spawn, ThreadList.empty, this]
  · intro y hy
    simp at hy; subst hy
    exact ⟨by simp [setBit], hn⟩
  · have := free_setBit (fun _ => false) 0 n hn rfl
    rw [free_false] at this
    simp only [mu, List.length_cons, List.length_nil]; omega
  · intro y hy
    by_cases h : y = 0 <;> simp_all [setBit]
  · intro y
    by_cases h : y = 0 <;> simp [setBit, h]

end Run

open Run

/-- With the fix, fuel `p.length + 1` per inner loop suffices and no crash / UB site is reached. -/
theorem runCpp_terminates (p : Program) (s : Text) (hp : WfProg p) :
    ∃ o, runCpp false (p.length + 1) p s = some o ∧ ∀ site, o ≠ .crash site := by
  unfold runCpp
  by_cases he : p.isEmpty = true
  · exact ⟨.ret false, by simp [he], by simp⟩
  · have hn : 0 < p.length := by
      cases p with
      | nil => simp at he
      | cons => simp
    obtain ⟨cl, h1, hok, _, _⟩ := init_spawn hn
    obtain ⟨o, h2, h3⟩ := runText_terminates p hp s cl hok
    exact ⟨o, by simp [he, hp.1, h1, h2], h3⟩

/-- With the fix, the result of `Match` is the documented thread semantics. -/
theorem runCpp_refines (p : Program) (s : Text) (hp : WfProg p) (hs : SearchOk p) (b : Bool) :
    runCpp false (p.length + 1) p s = some (.ret b) → (b = true ↔ accepts p s) := by
  unfold runCpp
  by_cases he : p.isEmpty = true
  · intro h
    simp [he] at h
    subst h
    constructor
    · intro h; cases h
    · rintro ⟨pc, _, _, hm⟩
      cases p with
      | nil => simp at hm
      | cons => simp at he
  · have hn : 0 < p.length := by
      cases p with
      | nil => simp at he
      | cons => simp
    obtain ⟨cl, h1, hok, hf, hhas⟩ := init_spawn hn
    intro h
    simp [he, hp.1, h1] at h
    rw [runText_spec p hp hs _ s cl b hok hf h]
    constructor
    · rintro ⟨pc, hpc, hl⟩
      rw [(hhas pc).1 hpc] at hl
      exact hl
    · intro hl
      exact ⟨0, (hhas 0).2 rfl, hl⟩

/-! ## `SearchOk` from sortedness (what the C++ constructors check) -/

theorem searchOk_of_sorted (p : Program)
    (h : ∀ i ∈ p, ∀ rs, (i = .set rs ∨ i = .notSet rs) → RangesSorted rs) : SearchOk p :=
  fun i hi rs hrs c => cppInRanges_eq rs c (h i hi rs hrs)

theorem rangesSorted_of_cppSorted : ∀ (rs : List Range), (∀ r ∈ rs, r.first ≤ r.last) →
    cppRangesOk.sorted rs = true → RangesSorted rs
  | [], _, _ => rfl
  | [a], hw, _ => by simp [RangesSorted, rangesSortedB, hw]
  | a :: b :: rest, hw, h => by
    simp only [cppRangesOk.sorted, Bool.and_eq_true, Bool.not_eq_true', decide_eq_false_iff_not] at h
    have ih := rangesSorted_of_cppSorted (b :: rest) (fun r hr => hw r (List.mem_cons_of_mem _ hr)) h.2
    simp only [RangesSorted, rangesSortedB, Bool.and_eq_true, decide_eq_true_eq]
    exact ⟨⟨hw a (by simp), by have := h.1; omega⟩, ih⟩

theorem rangesSorted_of_cppRangesOk (rs : List Range) (h : cppRangesOk rs = true) : RangesSorted rs := by
  simp only [cppRangesOk, Bool.and_eq_true, List.all_eq_true, decide_eq_true_eq] at h
  exact rangesSorted_of_cppSorted rs h.1.2 h.2

/-- The range lists of a program whose C++ constant can be constructed are searched correctly. -/
theorem searchOk_of_constructible (p : Program) (h : cppConstructible p = true) : SearchOk p := by
  apply searchOk_of_sorted
  intro i hi rs hrs
  have := List.all_eq_true.1 h i hi
  rcases hrs with rfl | rfl <;> exact rangesSorted_of_cppRangesOk rs this

end AasVerif.Revm

#print axioms AasVerif.Revm.runCpp_terminates
#print axioms AasVerif.Revm.runCpp_refines
#print axioms AasVerif.Revm.searchOk_of_constructible
