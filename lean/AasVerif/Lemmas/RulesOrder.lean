import AasVerif.Model.RulesOrder
/-!
# C06 — the place of `__init__` among the members of a class does not matter for stage 6
-/
namespace AasVerif.Rules
open AasVerif

theorem flatMap_congr_mem {α β : Type} (f g : α → List β) (l : List α) (h : ∀ x ∈ l, f x = g x) :
    l.flatMap f = l.flatMap g := by
  induction l with
  | nil => rfl
  | cons a t ih =>
    simp only [List.flatMap_cons]
    rw [h a (List.mem_cons_self ..), ih (fun x hx => h x (List.mem_cons_of_mem _ hx))]

theorem report_congr {α : Type} (r : RuleId) (p q : α → Bool) (l : List α) (h : ∀ x ∈ l, p x = q x) :
    report r p l = report r q l := by
  unfold report
  exact flatMap_congr_mem _ _ l (fun x hx => by rw [h x hx])

/-- The functions of a class body, whatever the place of `__init__`: the methods, and `__init__` iff there is a constructor. -/
theorem mem_sourceMethods (c : Cls) (k : Nat) (n : Text) :
    n ∈ c.sourceMethods k ↔ n ∈ c.methods ∨ (n = initName ∧ c.ctor.isSome) := by
  unfold Cls.sourceMethods
  cases hc : c.ctor with
  | none => simp
  | some args =>
    simp only [List.mem_append, List.mem_cons, Option.isSome_some, and_true]
    have hsplit : n ∈ c.methods ↔ n ∈ c.methods.take k ∨ n ∈ c.methods.drop k := by
      conv => lhs; rw [← List.take_append_drop k c.methods]
      exact List.mem_append
    rw [hsplit]
    constructor
    · rintro (h | h | h)
      · exact .inl (.inl h)
      · exact .inr h
      · exact .inl (.inr h)
    · rintro ((h | h) | h)
      · exact .inl h
      · exact .inr (.inr h)
      · exact .inr (.inl h)

/-- The keys of the dictionary after one ancestor: the keys before and the names of its functions. -/
theorem mem_observe_keys (owner : Text) (ns : List Text) (seen : List (Text × Text)) (n : Text) :
    n ∈ (observe owner seen ns).map (·.1) ↔ n ∈ seen.map (·.1) ∨ n ∈ ns := by
  induction ns generalizing seen with
  | nil => simp [observe]
  | cons a t ih =>
    simp only [observe]
    rw [ih]
    by_cases h : seen.any (fun e => e.1 == a) = true
    · have ha : a ∈ seen.map (·.1) := by
        simp only [List.any_eq_true, beq_iff_eq] at h
        obtain ⟨e, he, hea⟩ := h
        exact List.mem_map.mpr ⟨e, he, hea⟩
      simp only [h, if_true, List.mem_cons]
      constructor
      · rintro (h1 | h2)
        · exact .inl h1
        · exact .inr (.inr h2)
      · rintro (h1 | rfl | h3)
        · exact .inl h1
        · exact .inl ha
        · exact .inr h3
    · simp only [h, List.mem_cons]
      simp only [Bool.false_eq_true, if_false, List.map_append, List.map_cons, List.map_nil, List.mem_append, List.mem_cons,
        List.not_mem_nil, or_false]
      constructor
      · rintro ((h1 | rfl) | h3)
        · exact .inl h1
        · exact .inr (.inl rfl)
        · exact .inr (.inr h3)
      · rintro (h1 | rfl | h3)
        · exact .inl (.inl h1)
        · exact .inl (.inr rfl)
        · exact .inr h3

/-- The keys of `observed_methods` after all ancestors. -/
theorem mem_observedMethods_keys (initAt : Text → Nat) (ancs : List Cls) (seen : List (Text × Text)) (n : Text) :
    n ∈ (observedMethods initAt seen ancs).map (·.1) ↔
      n ∈ seen.map (·.1) ∨ ∃ a ∈ ancs, n ∈ a.sourceMethods (initAt a.name) := by
  induction ancs generalizing seen with
  | nil => simp [observedMethods]
  | cons a t ih =>
    simp only [observedMethods]
    rw [ih, mem_observe_keys]
    simp only [List.mem_cons, exists_eq_or_imp]
    constructor
    · rintro ((h | h) | h)
      · exact .inl h
      · exact .inr (.inl h)
      · exact .inr (.inr h)
    · rintro (h | h | h)
      · exact .inl (.inl h)
      · exact .inl (.inr h)
      · exact .inr h

/-- **Order independence of the dictionary**: a name other than `__init__` is observed iff an ancestor declares a method of that name —
wherever `__init__` stands among the functions of the ancestors. -/
theorem observed_iff_declared (initAt : Text → Nat) (ancs : List Cls) (n : Text) (hn : n ≠ initName) :
    n ∈ (observedMethods initAt [] ancs).map (·.1) ↔ n ∈ ancs.flatMap (·.methods) := by
  rw [mem_observedMethods_keys]
  simp only [List.map_nil, List.not_mem_nil, false_or, List.mem_flatMap, mem_sourceMethods]
  constructor
  · rintro ⟨a, ha, h | ⟨h, _⟩⟩
    · exact ⟨a, ha, h⟩
    · exact absurd h hn
  · rintro ⟨a, ha, h⟩
    exact ⟨a, ha, .inl h⟩

theorem ownMethodErrors_append (obsM obsP a b : List Text) :
    ownMethodErrors obsM obsP (a ++ b) = ownMethodErrors obsM obsP a ++ ownMethodErrors obsM obsP b := by
  induction a with
  | nil => rfl
  | cons x t ih => simp only [List.cons_append, ownMethodErrors, ih, List.append_assoc]

/-- `__init__` is skipped wherever it stands: the loop over the functions in source order is the loop over the methods. -/
theorem ownMethodErrors_source (obsM obsP : List Text) (c : Cls) (k : Nat) :
    ownMethodErrors obsM obsP (c.sourceMethods k) = ownMethodErrors obsM obsP c.methods := by
  unfold Cls.sourceMethods
  cases c.ctor with
  | none => rfl
  | some args =>
    simp only
    rw [ownMethodErrors_append]
    simp only [ownMethodErrors, if_true, List.nil_append]
    rw [← ownMethodErrors_append, List.take_append_drop]

theorem ownMethodErrors_eq_report (obsM obsP : List Text) (bad : Text → Bool) (l : List Text)
    (h : ∀ n ∈ l, n ≠ initName ∧ (decide (n ∈ obsM) || decide (n ∈ obsP)) = bad n) :
    ownMethodErrors obsM obsP l = report .redeclaredMethod bad l := by
  induction l with
  | nil => rfl
  | cons a t ih =>
    have ha := h a (List.mem_cons_self ..)
    simp only [ownMethodErrors, report, List.flatMap_cons]
    rw [if_neg ha.1, ha.2]
    congr 1
    exact ih (fun n hn => h n (List.mem_cons_of_mem _ hn))

theorem mem_inheritedMemberNames (cs : List Cls) (c : Cls) (n : Text) :
    n ∈ inheritedMemberNames cs c ↔
      n ∈ (ancestorClasses cs c).flatMap (·.propNames) ∨ n ∈ (ancestorClasses cs c).flatMap (·.methods) := by
  unfold inheritedMemberNames
  simp only [List.mem_flatMap, List.mem_append]
  constructor
  · rintro ⟨a, ha, h | h⟩
    · exact .inl ⟨a, ha, h⟩
    · exact .inr ⟨a, ha, h⟩
  · rintro (⟨a, ha, h⟩ | ⟨a, ha, h⟩)
    · exact ⟨a, ha, .inl h⟩
    · exact ⟨a, ha, .inr h⟩

/-- Stage 6 over the members in source order reports exactly the errors of `stage6`, wherever `__init__` stands in
every class (no property or method is itself named `__init__`: the abstraction keeps the constructor apart). -/
theorem stage6Source_eq (initAt : Text → Nat) (m : MM)
    (h : ∀ c ∈ m.classes, initName ∉ c.propNames ∧ initName ∉ c.methods) :
    stage6Source initAt m = stage6 m := by
  unfold stage6Source stage6
  apply flatMap_congr_mem
  intro c hc
  have hP : ∀ n ∈ c.propNames,
      (decide (n ∈ (ancestorClasses m.classes c).flatMap (·.propNames))
        || decide (n ∈ (observedMethods initAt [] (ancestorClasses m.classes c)).map (·.1)))
      = decide (n ∈ inheritedMemberNames m.classes c) := by
    intro n hn
    have hne : n ≠ initName := fun e => (h c hc).1 (e ▸ hn)
    rw [← Bool.decide_or]
    apply decide_eq_decide.mpr
    rw [mem_inheritedMemberNames, observed_iff_declared initAt _ n hne]
  have hM : ∀ n ∈ c.methods, n ≠ initName ∧
      (decide (n ∈ (observedMethods initAt [] (ancestorClasses m.classes c)).map (·.1))
        || decide (n ∈ (ancestorClasses m.classes c).flatMap (·.propNames)))
      = decide (n ∈ inheritedMemberNames m.classes c) := by
    intro n hn
    have hne : n ≠ initName := fun e => (h c hc).2 (e ▸ hn)
    refine ⟨hne, ?_⟩
    rw [← Bool.decide_or]
    apply decide_eq_decide.mpr
    rw [mem_inheritedMemberNames, observed_iff_declared initAt _ n hne]
    exact Or.comm
  simp only
  rw [report_congr .redeclaredProperty _ _ c.propNames hP, ownMethodErrors_source,
    ownMethodErrors_eq_report _ _ _ c.methods hM]

end AasVerif.Rules
