import AasVerif.Model.Collide
/-!
Helper lemmas for C21: the dictionary loop `dups` finds nothing exactly on duplicate-free lists,
and `resolve` / `collisionsOf` distribute over the scope list.
-/
deriving instance DecidableEq for Except

namespace AasVerif.Collide
open AasVerif AasVerif.Naming

theorem dupsAux_nil_iff (seen ns : List Text) :
    dupsAux seen ns = [] ↔ ns.Nodup ∧ ∀ n ∈ ns, n ∉ seen := by
  induction ns generalizing seen with
  | nil => simp [dupsAux]
  | cons n ns ih =>
    unfold dupsAux
    by_cases h : n ∈ seen
    · simp [h]
    · simp only [h, if_false, ih, List.nodup_cons, List.mem_cons]
      constructor
      · rintro ⟨hnd, hns⟩
        refine ⟨⟨?_, hnd⟩, ?_⟩
        · intro hmem
          exact hns n hmem (Or.inl rfl)
        · intro m hm
          rcases hm with rfl | hm
          · exact h
          · intro hms
            exact hns m hm (Or.inr hms)
      · rintro ⟨⟨hn, hnd⟩, hall⟩
        refine ⟨hnd, ?_⟩
        intro m hm hor
        rcases hor with rfl | hms
        · exact hn hm
        · exact hall m (Or.inr hm) hms

theorem dups_nil_iff (ns : List Text) : dups ns = [] ↔ ns.Nodup := by
  unfold dups
  rw [dupsAux_nil_iff]
  simp

theorem resolve_ok_forward {ss : List Scope} {l : List (Scope × List Text)} (h : resolve ss = .ok l) :
    ∀ s ∈ ss, ∃ ns, scopeNames s = .ok ns ∧ (s, ns) ∈ l := by
  induction ss generalizing l with
  | nil => intro s hs; cases hs
  | cons s0 ss ih =>
    unfold resolve at h
    split at h
    · cases h
    · next ns hns =>
      split at h
      · cases h
      · next r hr =>
        cases h
        intro s hs
        rcases List.mem_cons.mp hs with rfl | hs
        · exact ⟨ns, hns, List.mem_cons_self⟩
        · obtain ⟨ns', h1, h2⟩ := ih hr s hs
          exact ⟨ns', h1, List.mem_cons_of_mem _ h2⟩

theorem resolve_ok_backward {ss : List Scope} {l : List (Scope × List Text)} (h : resolve ss = .ok l) :
    ∀ p ∈ l, p.1 ∈ ss ∧ scopeNames p.1 = .ok p.2 := by
  induction ss generalizing l with
  | nil =>
    unfold resolve at h
    cases h
    intro p hp
    cases hp
  | cons s0 ss ih =>
    unfold resolve at h
    split at h
    · cases h
    · next ns hns =>
      split at h
      · cases h
      · next r hr =>
        cases h
        intro p hp
        rcases List.mem_cons.mp hp with rfl | hp
        · exact ⟨List.mem_cons_self, hns⟩
        · obtain ⟨h1, h2⟩ := ih hr p hp
          exact ⟨List.mem_cons_of_mem _ h1, h2⟩

theorem collisionsOf_nil_iff (l : List (Scope × List Text)) :
    collisionsOf l = [] ↔ ∀ p ∈ l, p.1.reported = true → p.2.Nodup := by
  unfold collisionsOf
  rw [List.flatMap_eq_nil_iff]
  constructor
  · intro h p hp hrep
    have := h p hp
    simp only [hrep, if_true, List.map_eq_nil_iff] at this
    exact (dups_nil_iff _).mp this
  · intro h p hp
    by_cases hrep : p.1.reported = true
    · simp only [hrep, if_true, List.map_eq_nil_iff]
      exact (dups_nil_iff _).mpr (h p hp hrep)
    · simp [hrep]

/-- A resolved scope list always has the shape `ok`/`crash`; `verify` is `ok` iff everything resolves
and no reported scope has a duplicate. -/
theorem verify_ok_iff (t : String) (mm : MM) :
    verify t mm = .ok () ↔
      ∃ l, resolve (checkedScopes t mm) = .ok l ∧ ∀ p ∈ l, p.1.reported = true → p.2.Nodup := by
  unfold verify
  constructor
  · intro h
    split at h
    · cases h
    · next l hl =>
      refine ⟨l, hl, ?_⟩
      split at h
      · next hnil => exact (collisionsOf_nil_iff l).mp hnil
      · cases h
  · rintro ⟨l, hl, hall⟩
    rw [hl]
    simp only
    rw [if_pos ((collisionsOf_nil_iff l).mpr hall)]

end AasVerif.Collide
