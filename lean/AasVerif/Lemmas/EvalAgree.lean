import AasVerif.Model.Expr.Conforms
/-!
Coincidence: the value of a well-typed expression depends only on the variables that the
typing environment knows (every name the inferrer accepted was found in `Γ`).
-/
namespace AasVerif.Expr

variable {κ : Type} [DecidableEq κ]

/-- `ρ'` is `ρ` except for variables that `Γ` does not know -/
structure AgreeOn (Γ : TEnv) (ρ ρ' : Env) : Prop where
  funs : ρ'.funs = ρ.funs
  meths : ρ'.meths = ρ.meths
  fops : ρ'.fops = ρ.fops
  fmtOther : ρ'.fmtOther = ρ.fmtOther
  vars : ∀ y, (Γ.find y).isSome = true → lookup y ρ'.vars = lookup y ρ.vars

theorem AgreeOn.refl (Γ : TEnv) (ρ : Env) : AgreeOn Γ ρ ρ := ⟨rfl, rfl, rfl, rfl, fun _ _ => rfl⟩

theorem lookup_bind (ρ : Env) (x y : Text) (v : Val) :
    lookup y (ρ.bind x v).vars = if x = y then some v else lookup y ρ.vars := by
  simp [Env.bind, lookup]

theorem find_bind (Γ : TEnv) (x y : Text) (τ : Ty) :
    (Γ.bind x τ).find y = if x = y then some τ else Γ.find y := by
  simp [TEnv.bind, TEnv.find, assoc]

theorem AgreeOn.bind {Γ : TEnv} {ρ ρ' : Env} (h : AgreeOn Γ ρ ρ') (x : Text) (τ : Ty) (v : Val) :
    AgreeOn (Γ.bind x τ) (ρ.bind x v) (ρ'.bind x v) :=
  { funs := h.funs, meths := h.meths, fops := h.fops, fmtOther := h.fmtOther
    vars := by
      intro y hy
      rw [lookup_bind, lookup_bind]
      by_cases hxy : x = y
      · simp [hxy]
      · simp only [hxy, if_false]
        rw [find_bind] at hy
        simp only [hxy, if_false] at hy
        exact h.vars y hy }

theorem fmtVal_agree {ρ ρ' : Env} (h1 : ρ'.fops = ρ.fops) (h2 : ρ'.fmtOther = ρ.fmtOther) (v : Val) :
    fmtVal ρ' v = fmtVal ρ v := by
  unfold fmtVal
  rw [h1, h2]

theorem memberRes_ok {Γ : TEnv} {F : Facts κ} {k : κ} {n : Text} {ri : Res Ty} {τ : Ty}
    (h : memberRes Γ F k n ri = .ok τ) : ∃ ti, ri = .ok ti := by
  cases ri with
  | ok ti => exact ⟨ti, rfl⟩
  | err es => simp [memberRes] at h
  | crash s => simp [memberRes] at h

theorem arithRes_ok' {rl rr : Res Ty} {τ : Ty} (h : arithRes rl rr = .ok τ) :
    (∃ lt, rl = .ok lt) ∧ (∃ rt, rr = .ok rt) := by
  cases rl with
  | err es => simp [arithRes] at h
  | crash s => simp [arithRes] at h
  | ok lt =>
    cases rr with
    | err es => simp [arithRes] at h
    | crash s => simp [arithRes] at h
    | ok rt => exact ⟨⟨lt, rfl⟩, ⟨rt, rfl⟩⟩

theorem condRes_ok {r : Res Ty} {τ : Ty} (h : condRes r = .ok τ) : r = .ok (.prim .bool) ∧ τ = .bool := by
  unfold condRes at h
  split at h <;> simp_all [Ty.bool]

variable {key : Expr → κ}

mutual
theorem eval_agree : ∀ (e : Expr) (Γ : TEnv) (F : Facts κ) (ρ ρ' : Env) (τ : Ty),
    infer key Γ F e = .ok τ → AgreeOn Γ ρ ρ' → eval ρ' e = eval ρ e
  | .member i n, Γ, F, ρ, ρ', τ, h, ag => by
    simp only [infer] at h
    obtain ⟨ti, hi⟩ := memberRes_ok h
    simp only [eval, eval_agree i Γ F ρ ρ' ti hi ag]
  | .index c i, Γ, F, ρ, ρ', τ, h, ag => by
    simp only [infer] at h
    cases hc : infer key Γ F c with
    | err es => simp [hc] at h
    | crash s => simp [hc] at h
    | ok tc =>
      cases hi : infer key Γ F i with
      | err es => simp [hc, hi] at h
      | crash s => simp [hc, hi] at h
      | ok ti => simp only [eval, eval_agree c Γ F ρ ρ' tc hc ag, eval_agree i Γ F ρ ρ' ti hi ag]
  | .cmp l op r, Γ, F, ρ, ρ', τ, h, ag => by
    simp only [infer] at h
    cases hc : infer key Γ F l with
    | err es => simp [hc] at h
    | crash s => simp [hc] at h
    | ok tc =>
      cases hi : infer key Γ F r with
      | err es => simp [hc, hi] at h
      | crash s => simp [hc, hi] at h
      | ok ti => simp only [eval, eval_agree l Γ F ρ ρ' tc hc ag, eval_agree r Γ F ρ ρ' ti hi ag, ag.fops]
  | .isIn m c, Γ, F, ρ, ρ', τ, h, ag => by
    simp only [infer] at h
    cases hc : infer key Γ F m with
    | err es => cases hi : infer key Γ F c <;> simp [hc, hi] at h
    | crash s => simp [hc] at h
    | ok tc =>
      cases hi : infer key Γ F c with
      | err es => simp [hc, hi] at h
      | crash s => simp [hc, hi] at h
      | ok ti => simp only [eval, eval_agree m Γ F ρ ρ' tc hc ag, eval_agree c Γ F ρ ρ' ti hi ag, ag.fops]
  | .impl a c, Γ, F, ρ, ρ', τ, h, ag => by
    simp only [infer] at h
    cases hc : infer key Γ F a with
    | err es => simp [hc] at h
    | crash s => simp [hc] at h
    | ok tc =>
      cases hi : infer key Γ (implFacts key F a) c with
      | err es => simp [hc, hi] at h
      | crash s => simp [hc, hi] at h
      | ok ti => simp only [eval, eval_agree a Γ F ρ ρ' tc hc ag, eval_agree c Γ _ ρ ρ' ti hi ag, ag.fops]
  | .methodCall i n args, Γ, F, ρ, ρ', τ, h, ag => by
    simp only [infer] at h
    cases ha : inferArgs key Γ F args with
    | crash s => simp [ha] at h
    | err ea =>
      simp only [ha] at h
      cases hm : memberRes Γ F (key (.member i n)) n (infer key Γ F i) with
      | crash s => simp [hm] at h
      | err es => simp [hm] at h
      | ok mt => cases mt <;> simp [hm] at h
    | ok ts =>
      simp only [ha] at h
      cases hm : memberRes Γ F (key (.member i n)) n (infer key Γ F i) with
      | crash s => simp [hm] at h
      | err es => simp [hm] at h
      | ok mt =>
        obtain ⟨ti, hi⟩ := memberRes_ok hm
        simp only [eval, eval_agree i Γ F ρ ρ' ti hi ag, evalArgs_agree args Γ F ρ ρ' ha ag, ag.meths]
  | .name x, Γ, F, ρ, ρ', τ, h, ag => by
    simp only [infer, inferName] at h
    cases hf : Γ.find x with
    | none => simp [hf] at h
    | some τ0 => simp only [eval, ag.vars x (by simp [hf])]
  | .funCall n args, Γ, F, ρ, ρ', τ, h, ag => by
    simp only [infer] at h
    cases hn : inferName key Γ F n with
    | crash s => simp [hn] at h
    | err e0 => cases ha : inferArgs key Γ F args <;> simp [hn, ha] at h
    | ok tf =>
      cases ha : inferArgs key Γ F args with
      | crash s => simp [hn, ha] at h
      | err ea => cases tf <;> simp [hn, ha, errsOf] at h
      | ok ts =>
        unfold inferName at hn
        cases hf : Γ.find n with
        | none => simp [hf] at hn
        | some τ0 =>
          simp only [eval, ag.vars n (by simp [hf]), evalArgs_agree args Γ F ρ ρ' ha ag, ag.funs]
  | .const c, _, _, _, _, _, _, _ => by simp only [eval]
  | .isNone e, Γ, F, ρ, ρ', τ, h, ag => by
    simp only [infer] at h
    cases hc : infer key Γ F e with
    | err es => simp [hc] at h
    | crash s => simp [hc] at h
    | ok tc => simp only [eval, eval_agree e Γ F ρ ρ' tc hc ag]
  | .isNotNone e, Γ, F, ρ, ρ', τ, h, ag => by
    simp only [infer] at h
    cases hc : infer key Γ F e with
    | err es => simp [hc] at h
    | crash s => simp [hc] at h
    | ok tc => simp only [eval, eval_agree e Γ F ρ ρ' tc hc ag]
  | .not e, Γ, F, ρ, ρ', τ, h, ag => by
    simp only [infer] at h
    cases hc : infer key Γ F e with
    | err es => simp [hc] at h
    | crash s => simp [hc] at h
    | ok tc => simp only [eval, eval_agree e Γ F ρ ρ' tc hc ag, ag.fops]
  | .and es, Γ, F, ρ, ρ', τ, h, ag => by
    simp only [infer] at h
    cases ha : inferAnd key Γ F es with
    | err xs => simp [ha] at h
    | crash s => simp [ha] at h
    | ok u => simp only [eval, evalAnd_agree es Γ F ρ ρ' ha ag]
  | .or es, Γ, F, ρ, ρ', τ, h, ag => by
    simp only [infer] at h
    cases ha : inferOr key Γ F es with
    | err xs => simp [ha] at h
    | crash s => simp [ha] at h
    | ok u => simp only [eval, evalOr_agree es Γ F ρ ρ' ha ag]
  | .add l r, Γ, F, ρ, ρ', τ, h, ag => by
    simp only [infer] at h
    obtain ⟨⟨tl, hl⟩, ⟨tr, hr⟩⟩ := arithRes_ok' h
    simp only [eval, eval_agree l Γ F ρ ρ' tl hl ag, eval_agree r Γ F ρ ρ' tr hr ag, ag.fops]
  | .sub l r, Γ, F, ρ, ρ', τ, h, ag => by
    simp only [infer] at h
    obtain ⟨⟨tl, hl⟩, ⟨tr, hr⟩⟩ := arithRes_ok' h
    simp only [eval, eval_agree l Γ F ρ ρ' tl hl ag, eval_agree r Γ F ρ ρ' tr hr ag, ag.fops]
  | .joinedStr ps, Γ, F, ρ, ρ', τ, h, ag => by
    simp only [infer] at h
    cases ha : inferParts key Γ F ps with
    | err xs => simp [ha] at h
    | crash s => simp [ha] at h
    | ok u => simp only [eval, evalParts_agree ps Γ F ρ ρ' ha ag]
  | .any g c, Γ, F, ρ, ρ', τ, h, ag => by
    simp only [infer] at h
    cases hg : inferGen key Γ F g with
    | err xs => simp [hg] at h
    | crash s => simp [hg] at h
    | ok xτ =>
      obtain ⟨x, τx⟩ := xτ
      simp only [hg] at h
      obtain ⟨hc, _⟩ := condRes_ok h
      have hx := evalGen_agree g Γ F ρ ρ' x τx hg ag
      simp only [eval, hx.1, ag.fops]
      have : ∀ item, eval (ρ'.bind x item) c = eval (ρ.bind x item) c :=
        fun item => eval_agree c (Γ.bind x τx) F (ρ.bind x item) (ρ'.bind x item) _ hc (ag.bind x τx item)
      cases hgr : evalGen ρ g with
      | items y items => have := hx.2 y (Or.inl ⟨items, hgr⟩); subst this; simp only [this]
      | range y s n => have := hx.2 y (Or.inr ⟨s, n, hgr⟩); subst this; simp only [this]
      | err o => rfl
  | .all g c, Γ, F, ρ, ρ', τ, h, ag => by
    simp only [infer] at h
    cases hg : inferGen key Γ F g with
    | err xs => simp [hg] at h
    | crash s => simp [hg] at h
    | ok xτ =>
      obtain ⟨x, τx⟩ := xτ
      simp only [hg] at h
      obtain ⟨hc, _⟩ := condRes_ok h
      have hx := evalGen_agree g Γ F ρ ρ' x τx hg ag
      simp only [eval, hx.1, ag.fops]
      have : ∀ item, eval (ρ'.bind x item) c = eval (ρ.bind x item) c :=
        fun item => eval_agree c (Γ.bind x τx) F (ρ.bind x item) (ρ'.bind x item) _ hc (ag.bind x τx item)
      cases hgr : evalGen ρ g with
      | items y items => have := hx.2 y (Or.inl ⟨items, hgr⟩); subst this; simp only [this]
      | range y s n => have := hx.2 y (Or.inr ⟨s, n, hgr⟩); subst this; simp only [this]
      | err o => rfl
/-- the generator evaluates the same, and its loop variable is the one the inferrer bound -/
theorem evalGen_agree : ∀ (g : Gen) (Γ : TEnv) (F : Facts κ) (ρ ρ' : Env) (x : Text) (τx : Ty),
    inferGen key Γ F g = .ok (x, τx) → AgreeOn Γ ρ ρ' →
      evalGen ρ' g = evalGen ρ g ∧
      ∀ y, ((∃ items, evalGen ρ g = .items y items) ∨ (∃ s n, evalGen ρ g = .range y s n)) → y = x
  | .forEach y it, Γ, F, ρ, ρ', x, τx, h, ag => by
    simp only [inferGen] at h
    split at h
    · simp at h
    · cases hi : infer key Γ F it with
      | err es => simp [hi] at h
      | crash s => simp [hi] at h
      | ok ti =>
        have hxy : y = x := by cases ti <;> simp_all
        refine ⟨by simp only [evalGen, eval_agree it Γ F ρ ρ' ti hi ag], ?_⟩
        intro z hz
        simp only [evalGen] at hz
        rcases hz with ⟨items, hz⟩ | ⟨s, n, hz⟩
        · cases he : eval ρ it with
          | val iv =>
            simp only [he] at hz
            cases hit : iterItems iv with
            | none => simp [hit] at hz
            | some l => simp [hit] at hz; exact hz.1 ▸ hxy
          | _ => simp [he] at hz
        · cases he : eval ρ it with
          | val iv =>
            simp only [he] at hz
            cases hit : iterItems iv <;> simp [hit] at hz
          | _ => simp [he] at hz
  | .forRange y a b, Γ, F, ρ, ρ', x, τx, h, ag => by
    simp only [inferGen] at h
    split at h
    · simp at h
    · cases ha : infer key Γ F a with
      | err es => simp [ha] at h
      | crash s => simp [ha] at h
      | ok ta =>
        cases hb : infer key Γ F b with
        | err es => simp [ha, hb] at h
        | crash s => simp [ha, hb] at h
        | ok tb =>
          have hxy : y = x := by
            simp only [ha, hb] at h
            repeat' split at h
            all_goals first | (simp at h; done) | (simp at h; exact h.1)
          refine ⟨by simp only [evalGen, eval_agree a Γ F ρ ρ' ta ha ag, eval_agree b Γ F ρ ρ' tb hb ag], ?_⟩
          intro z hz
          simp only [evalGen] at hz
          rcases hz with ⟨items, hz⟩ | ⟨s, n, hz⟩
          · repeat' split at hz
            all_goals (simp at hz)
          · repeat' split at hz
            all_goals first | (simp at hz; done) | (simp at hz; exact hz.1 ▸ hxy)
theorem evalAnd_agree : ∀ (es : List Expr) (Γ : TEnv) (F : Facts κ) (ρ ρ' : Env) {u : Unit},
    inferAnd key Γ F es = .ok u → AgreeOn Γ ρ ρ' → evalAnd ρ' es = evalAnd ρ es
  | [], _, _, _, _, _, _, _ => by simp only [evalAnd]
  | e :: es, Γ, F, ρ, ρ', u, h, ag => by
    simp only [inferAnd] at h
    cases he : infer key Γ F e with
    | err xs => simp [he] at h
    | crash s => simp [he] at h
    | ok te =>
      simp only [he] at h
      cases hes : inferAnd key Γ (andFact key F e) es with
      | err xs => simp [hes] at h
      | crash s => simp [hes] at h
      | ok u' =>
        have h1 := eval_agree e Γ F ρ ρ' te he ag
        have h2 := evalAnd_agree es Γ _ ρ ρ' hes ag
        cases es with
        | nil => simp only [evalAnd, h1]
        | cons e2 es2 => simp only [evalAnd, h1, h2, ag.fops]
theorem evalOr_agree : ∀ (es : List Expr) (Γ : TEnv) (F : Facts κ) (ρ ρ' : Env) {u : Unit},
    inferOr key Γ F es = .ok u → AgreeOn Γ ρ ρ' → evalOr ρ' es = evalOr ρ es
  | [], _, _, _, _, _, _, _ => by simp only [evalOr]
  | e :: es, Γ, F, ρ, ρ', u, h, ag => by
    simp only [inferOr] at h
    cases he : infer key Γ F e with
    | err xs => simp [he] at h
    | crash s => simp [he] at h
    | ok te =>
      simp only [he] at h
      cases hes : inferOr key Γ (orFact key F e) es with
      | err xs => simp [hes] at h
      | crash s => simp [hes] at h
      | ok u' =>
        have h1 := eval_agree e Γ F ρ ρ' te he ag
        have h2 := evalOr_agree es Γ _ ρ ρ' hes ag
        cases es with
        | nil => simp only [evalOr, h1]
        | cons e2 es2 => simp only [evalOr, h1, h2, ag.fops]
theorem evalArgs_agree : ∀ (es : List Expr) (Γ : TEnv) (F : Facts κ) (ρ ρ' : Env) {ts : List Ty},
    inferArgs key Γ F es = .ok ts → AgreeOn Γ ρ ρ' → evalArgs ρ' es = evalArgs ρ es
  | [], _, _, _, _, _, _, _ => by simp only [evalArgs]
  | e :: es, Γ, F, ρ, ρ', ts, h, ag => by
    simp only [inferArgs] at h
    cases he : infer key Γ F e with
    | err xs =>
      simp only [he] at h
      cases hes : inferArgs key Γ F es <;> simp [hes] at h
    | crash s => simp [he] at h
    | ok te =>
      simp only [he] at h
      cases hes : inferArgs key Γ F es with
      | err xs => simp [hes] at h
      | crash s => simp [hes] at h
      | ok ts' =>
        simp only [evalArgs, eval_agree e Γ F ρ ρ' te he ag, evalArgs_agree es Γ F ρ ρ' hes ag]
theorem evalParts_agree : ∀ (ps : List JPart) (Γ : TEnv) (F : Facts κ) (ρ ρ' : Env) {u : Unit},
    inferParts key Γ F ps = .ok u → AgreeOn Γ ρ ρ' → evalParts ρ' ps = evalParts ρ ps
  | [], _, _, _, _, _, _, _ => by simp only [evalParts]
  | .lit s :: ps, Γ, F, ρ, ρ', u, h, ag => by
    simp only [inferParts] at h
    simp only [evalParts, evalParts_agree ps Γ F ρ ρ' h ag]
  | .fv e :: ps, Γ, F, ρ, ρ', u, h, ag => by
    simp only [inferParts] at h
    cases he : infer key Γ F e with
    | err xs =>
      simp only [he] at h
      cases hes : inferParts key Γ F ps <;> simp [hes] at h
    | crash s => simp [he] at h
    | ok te =>
      simp only [he] at h
      have hps : ∃ u', inferParts key Γ F ps = .ok u' := by
        split at h
        · cases hes : inferParts key Γ F ps <;> simp [hes] at h
        · exact ⟨_, h⟩
      obtain ⟨u', hps⟩ := hps
      simp only [evalParts, eval_agree e Γ F ρ ρ' te he ag, evalParts_agree ps Γ F ρ ρ' hps ag,
        fmtVal_agree ag.fops ag.fmtOther]
end

end AasVerif.Expr
