import AasVerif.Model.Execute
/-!
Helper lemmas for `Props/C02.lean`: inductions over the check list and the step list of
`Execute.runChecks` / `Execute.runSteps` with the running index generalised.
-/
namespace AasVerif.Lemmas.Execute
open AasVerif.Execute

theorem runChecks_ne_exit0 (failed : Nat → Bool) :
    ∀ (cs : List Check) (i : Nat), runChecks cs failed i ≠ some .exit0 := by
  intro cs
  induction cs with
  | nil => intro i; simp [runChecks]
  | cons c cs ih =>
    intro i
    unfold runChecks
    by_cases hf : failed i = true
    · cases hh : c.handling <;> simp [hf, ih]
    · simp [hf, ih]

theorem runChecks_not_crash (cs : List Check) (failed : Nat → Bool) (i : Nat)
    (h : cs.all (fun c => c.handling == .reported) = true) (site : String) :
    runChecks cs failed i ≠ some (.crash site) := by
  induction cs generalizing i with
  | nil => simp [runChecks]
  | cons c cs ih =>
    simp only [List.all_cons, Bool.and_eq_true, beq_iff_eq] at h
    unfold runChecks
    by_cases hf : failed i = true
    · simp [hf, h.1]
    · simp [hf]; exact ih (i + 1) h.2

theorem runSteps_not_crash (sk : Skeleton) (ss : List Step) (out : Nat → StepOut) (i : Nat)
    (hl : sk.loop = .reported) (hm : sk.mkdirGuarded = true) (hw : sk.writeGuarded = true)
    (site : String) : runSteps sk ss out i ≠ .crash site := by
  induction ss generalizing i with
  | nil => simp [runSteps]
  | cons s ss ih =>
    unfold runSteps
    cases eff s (out i) with
    | ok => exact ih (i + 1)
    | err => simp [hl]
    | mkdirFail => simp [hm]
    | writeFail => simp [hw]

theorem wellHandled_parts (sk : Skeleton) (h : wellHandled sk = true) :
    sk.checks.all (fun c => c.handling == .reported) = true ∧ sk.loop = .reported ∧
    sk.mkdirGuarded = true ∧ sk.writeGuarded = true := by
  simp only [wellHandled, Bool.and_eq_true, beq_iff_eq] at h
  exact ⟨h.1.1.1, h.1.1.2, h.1.2, h.2⟩

theorem runChecks_none (cs : List Check) (failed : Nat → Bool) (i : Nat)
    (h : cs.all (fun c => c.handling == .reported) = true) (hr : runChecks cs failed i = none) :
    ∀ j, j < cs.length → failed (i + j) = false := by
  induction cs generalizing i with
  | nil => intro j hj; simp at hj
  | cons c cs ih =>
    simp only [List.all_cons, Bool.and_eq_true, beq_iff_eq] at h
    unfold runChecks at hr
    by_cases hf : failed i = true
    · simp [hf, h.1] at hr
    · simp [hf] at hr
      intro j hj
      cases j with
      | zero => simpa using hf
      | succ j =>
        have := ih (i + 1) h.2 hr j (by simpa using hj)
        simpa [Nat.add_assoc, Nat.add_comm 1 j] using this

theorem runSteps_exit0 (sk : Skeleton) (ss : List Step) (out : Nat → StepOut) (i : Nat)
    (hl : sk.loop = .reported) (hm : sk.mkdirGuarded = true) (hw : sk.writeGuarded = true)
    (hr : runSteps sk ss out i = .exit0) :
    ∀ j, (hj : j < ss.length) → eff ss[j] (out (i + j)) = .ok := by
  induction ss generalizing i with
  | nil => intro j hj; simp at hj
  | cons s ss ih =>
    unfold runSteps at hr
    cases he : eff s (out i) with
    | ok =>
      simp only [he] at hr
      intro j hj
      cases j with
      | zero => simpa using he
      | succ j =>
        have := ih (i + 1) hr j (by simpa using hj)
        simpa [Nat.add_assoc, Nat.add_comm 1 j] using this
    | err => simp [he, hl] at hr
    | mkdirFail => simp [he, hm] at hr
    | writeFail => simp [he, hw] at hr

theorem runChecks_all_ok (cs : List Check) (failed : Nat → Bool) (i : Nat)
    (h : ∀ j, j < cs.length → failed (i + j) = false) : runChecks cs failed i = none := by
  induction cs generalizing i with
  | nil => simp [runChecks]
  | cons c cs ih =>
    unfold runChecks
    have h0 : failed i = false := by simpa using h 0 (by simp)
    simp only [h0]
    apply ih
    intro j hj
    have := h (j + 1) (by simpa using hj)
    simpa [Nat.add_assoc, Nat.add_comm 1 j] using this

theorem runSteps_all_ok (sk : Skeleton) (ss : List Step) (out : Nat → StepOut) (i : Nat)
    (h : ∀ j, (hj : j < ss.length) → eff ss[j] (out (i + j)) = .ok) :
    runSteps sk ss out i = .exit0 := by
  induction ss generalizing i with
  | nil => simp [runSteps]
  | cons s ss ih =>
    unfold runSteps
    have h0 : eff s (out i) = .ok := by
      have := h 0 (by simp)
      simp only [List.getElem_cons_zero, Nat.add_zero] at this
      exact this
    simp only [h0]
    apply ih
    intro j hj
    have := h (j + 1) (by simpa using hj)
    simpa [Nat.add_assoc, Nat.add_comm 1 j] using this

theorem runChecks_exit1 (cs : List Check) (failed : Nat → Bool) (i : Nat) (k : Kind) (n : Nat)
    (hr : runChecks cs failed i = some (.exit1 k n)) :
    k = .check ∧ i ≤ n ∧ n < i + cs.length ∧ failed n = true := by
  induction cs generalizing i with
  | nil => simp [runChecks] at hr
  | cons c cs ih =>
    unfold runChecks at hr
    by_cases hf : failed i = true
    · cases hh : c.handling with
      | reported =>
        simp [hf, hh] at hr
        obtain ⟨rfl, rfl⟩ := hr
        exact ⟨rfl, Nat.le_refl _, by simp, hf⟩
      | asserted => simp [hf, hh] at hr
      | ignored =>
        simp [hf, hh] at hr
        obtain ⟨a, b, c', d⟩ := ih (i + 1) hr
        exact ⟨a, by omega, by simp; omega, d⟩
    · simp [hf] at hr
      obtain ⟨a, b, c', d⟩ := ih (i + 1) hr
      exact ⟨a, by omega, by simp; omega, d⟩

theorem runSteps_exit1 (sk : Skeleton) (ss : List Step) (out : Nat → StepOut) (i : Nat) (k : Kind)
    (n : Nat) (hr : runSteps sk ss out i = .exit1 k n) :
    i ≤ n ∧ ∃ (hn : n - i < ss.length),
      (k = .generate ∧ eff ss[n - i] (out n) = .err) ∨
      (k = .mkdir ∧ eff ss[n - i] (out n) = .mkdirFail) ∨
      (k = .write ∧ eff ss[n - i] (out n) = .writeFail) := by
  induction ss generalizing i with
  | nil => simp [runSteps] at hr
  | cons s ss ih =>
    unfold runSteps at hr
    cases he : eff s (out i) with
    | ok =>
      simp only [he] at hr
      obtain ⟨hle, hn, hcase⟩ := ih (i + 1) hr
      refine ⟨by omega, by simp; omega, ?_⟩
      have hidx : n - i = (n - (i + 1)) + 1 := by omega
      simpa [hidx] using hcase
    | err =>
      simp only [he] at hr
      cases hl : sk.loop <;> simp [hl] at hr
      obtain ⟨rfl, rfl⟩ := hr
      exact ⟨Nat.le_refl _, by simp, Or.inl ⟨rfl, by simpa using he⟩⟩
    | mkdirFail =>
      simp only [he] at hr
      cases hm : sk.mkdirGuarded <;> simp [hm] at hr
      obtain ⟨rfl, rfl⟩ := hr
      exact ⟨Nat.le_refl _, by simp, Or.inr (Or.inl ⟨rfl, by simpa using he⟩)⟩
    | writeFail =>
      simp only [he] at hr
      cases hw : sk.writeGuarded <;> simp [hw] at hr
      obtain ⟨rfl, rfl⟩ := hr
      exact ⟨Nat.le_refl _, by simp, Or.inr (Or.inr ⟨rfl, by simpa using he⟩)⟩

end AasVerif.Lemmas.Execute
