import AasVerif.Lemmas.JsonSchemaTighten
/-!
The loop of `_define_properties` over ALL direct parents (`tightenLoop` / `tightenAll`): the steps
the class emits for an inherited property are the steps common to every constraining parent
(`_common_tightening_steps`).

* `tightenAll_weaker`: the emitted steps demand no more than the complete constraints of the class
  (valid data is not rejected by them — C11);
* `tightenAll_sound`: what EVERY constraining parent imposes on the top node together with the emitted
  steps implies the complete constraints of the class (C12, several parents constraining one
  property).
-/
namespace AasVerif.JsonSchema
open AasVerif AasVerif.Retree

/-- `steps` demands no more than `full`: its length window is absent or the one of `full`, its
patterns are among those of `full` -/
def SubCons (steps full : Cons) : Prop :=
  (steps.len = none ∨ steps.len = full.len) ∧
  ∀ l, steps.pats = some l → ∃ fl, full.pats = some fl ∧ ∀ q ∈ l, q ∈ fl

theorem subCons_refl (c : Cons) : SubCons c c :=
  ⟨Or.inr rfl, fun l h => ⟨l, h, fun _ hq => hq⟩⟩

theorem commonSteps_len (steps t : Cons) :
    (commonSteps steps t).len = if t.len.isSome then steps.len else none := rfl

theorem commonSteps_pats_some {steps t : Cons} {l : List Text} (h : (commonSteps steps t).pats = some l) :
    ∃ tp op, steps.pats = some tp ∧ t.pats = some op ∧ l = tp.filter (op.contains ·) ∧ l ≠ [] := by
  simp only [commonSteps] at h
  cases hsp : steps.pats with
  | none => simp [hsp] at h
  | some tp =>
    cases htp : t.pats with
    | none => simp [hsp, htp] at h
    | some op =>
      simp only [hsp, htp] at h
      split at h
      · cases h
      · rename_i hne
        simp only [Option.some.injEq] at h
        refine ⟨tp, op, rfl, rfl, h.symm, ?_⟩
        intro h0
        rw [h, h0] at hne
        exact hne rfl

theorem commonSteps_pats_mem {steps t : Cons} {tp op : List Text} (hs : steps.pats = some tp)
    (ht : t.pats = some op) {q : Text} (hq1 : q ∈ tp) (hq2 : q ∈ op) :
    ∃ l, (commonSteps steps t).pats = some l ∧ q ∈ l := by
  have hin : q ∈ tp.filter (op.contains ·) := List.mem_filter.mpr ⟨hq1, by simpa using hq2⟩
  have hne : (tp.filter (op.contains ·)).isEmpty = false := by
    cases hf : tp.filter (op.contains ·) with
    | nil => rw [hf] at hin; cases hin
    | cons a as => rfl
  refine ⟨tp.filter (op.contains ·), ?_, hin⟩
  simp only [commonSteps, hs, ht, hne, Bool.false_eq_true, if_false]

theorem subCons_commonSteps {steps full : Cons} (t : Cons) (h : SubCons steps full) :
    SubCons (commonSteps steps t) full := by
  obtain ⟨hl, hp⟩ := h
  constructor
  · rw [commonSteps_len]
    split
    · exact hl
    · exact Or.inl rfl
  · intro l hl'
    obtain ⟨tp, op, hsp, _, rfl, _⟩ := commonSteps_pats_some hl'
    obtain ⟨fl, hfl, hsub⟩ := hp tp hsp
    exact ⟨fl, hfl, fun q hq => hsub q (List.mem_filter.mp hq).1⟩

theorem tightenLoop_sub (full : Cons) : ∀ (ps : List (Option Cons)) (steps T : Cons),
    tightenLoop full steps ps = .ok T → SubCons steps full → SubCons T full := by
  intro ps
  induction ps with
  | nil => intro steps T h hs; simp only [tightenLoop, Except.ok.injEq] at h; subst h; exact hs
  | cons p ps ih =>
    intro steps T h hs
    cases p with
    | none => simp only [tightenLoop] at h; exact ih _ _ h hs
    | some pc =>
      simp only [tightenLoop] at h
      cases ht : tightening full (some pc) with
      | error e => simp [ht] at h
      | ok t =>
        simp only [ht] at h
        exact ih _ _ h (subCons_commonSteps t hs)

theorem lenIn_none (f : Int → Int) (n : Nat) : LenIn none f n := by
  intro lc h; cases h

theorem subCons_len {steps full : Cons} (h : SubCons steps full) (f : Int → Int) (n : Nat)
    (hf : LenIn full.len f n) : LenIn steps.len f n := by
  rcases h.1 with h' | h'
  · rw [h']; exact lenIn_none f n
  · rw [h']; exact hf

theorem subCons_pats {steps full : Cons} (h : SubCons steps full) (s : Text)
    (hf : PatsOK full.pats s) : PatsOK steps.pats s := by
  intro l hl q hq
  obtain ⟨fl, hfl, hsub⟩ := h.2 l hl
  exact hf fl hfl q (hsub q hq)

/-- a value meeting `full` meets whatever demands no more -/
theorem subCons_spec {steps full : Cons} (h : SubCons steps full) (sh : Shape) (j : Json)
    (hf : TransSpec sh full j) : TransSpec sh steps j := by
  cases sh with
  | prim p =>
    cases p <;> simp only [TransSpec] at * <;> try trivial
    · intro s hs; exact ⟨subCons_len h id s.length (hf s hs).1, subCons_pats h s (hf s hs).2⟩
    · intro s hs; exact subCons_len h base64Len s.length (hf s hs)
  | list => simp only [TransSpec] at *; intro xs hxs; exact subCons_len h id xs.length (hf xs hxs)
  | other => trivial

/-- **the emitted steps never demand more than the class's complete constraints** -/
theorem tightenAll_weaker {full T : Cons} {parents : List (Option Cons)}
    (h : tightenAll full parents = .ok T) (sh : Shape) (j : Json) (hf : TransSpec sh full j) :
    TransSpec sh T j :=
  subCons_spec (tightenLoop_sub full parents full T h (subCons_refl full)) sh j hf

/-! ### soundness over several parents -/

/-- a step on the length that a parent drops is implied by that parent -/
theorem tightenLen_none_sound {full pc : Cons} (h : tightenLen full pc = .ok none)
    (f : Int → Int) (n : Nat) (hp : LenIn pc.len f n) : LenIn full.len f n :=
  tightenLen_sound h f n hp (lenIn_none f n)

theorem tightenLoop_len (full : Cons) (f : Int → Int) (n : Nat) :
    ∀ (ps : List (Option Cons)) (steps T : Cons),
    tightenLoop full steps ps = .ok T → SubCons steps full →
    (∀ pc, some pc ∈ ps → LenIn pc.len f n) → LenIn T.len f n → LenIn steps.len f n := by
  intro ps
  induction ps with
  | nil => intro steps T h _ _ hT; simp only [tightenLoop, Except.ok.injEq] at h; subst h; exact hT
  | cons p ps ih =>
    intro steps T h hs hps hT
    cases p with
    | none =>
      simp only [tightenLoop] at h
      exact ih _ _ h hs (fun pc hpc => hps pc (List.mem_cons_of_mem _ hpc)) hT
    | some pc =>
      simp only [tightenLoop] at h
      cases ht : tightening full (some pc) with
      | error e => simp [ht] at h
      | ok t =>
        simp only [ht] at h
        have hih := ih _ _ h (subCons_commonSteps t hs)
          (fun pc' hpc => hps pc' (List.mem_cons_of_mem _ hpc)) hT
        rw [commonSteps_len] at hih
        -- what the step from this parent looks like
        simp only [tightening] at ht
        cases hl : tightenLen full pc with
        | error e => simp [hl] at ht
        | ok l =>
          simp only [hl] at ht
          cases hp : tightenPats full pc with
          | error e => simp [hp] at ht
          | ok pp =>
            simp only [hp, Except.ok.injEq] at ht
            subst ht
            cases l with
            | some lc => simpa using hih
            | none =>
              have hfull := tightenLen_none_sound hl f n (hps pc List.mem_cons_self)
              exact subCons_len hs f n hfull

/-- a pattern of the class that is not among the steps from a parent is one of that parent's -/
theorem tightenPats_dropped {full pc : Cons} {pp : Option (List Text)} (h : tightenPats full pc = .ok pp)
    {fl : List Text} (hfl : full.pats = some fl) {q : Text} (hq : q ∈ fl)
    (hnot : ∀ l, pp = some l → q ∉ l) : ∃ ops, pc.pats = some ops ∧ q ∈ ops := by
  unfold tightenPats at h
  cases hop : pc.pats with
  | none =>
    simp only [hop, Except.ok.injEq] at h
    exact absurd hq (hnot fl (by rw [← h, hfl]))
  | some ops =>
    refine ⟨ops, rfl, ?_⟩
    simp only [hop, hfl] at h
    by_cases hall : (ops.all (fl.contains ·)) = true
    · rw [if_pos hall] at h
      simp only [Except.ok.injEq] at h
      by_cases hc : q ∈ ops
      · exact hc
      · exfalso
        have hin : q ∈ fl.filter (fun p => !ops.contains p) :=
          List.mem_filter.mpr ⟨hq, by simpa using hc⟩
        have hne : (fl.filter (fun p => !ops.contains p)).isEmpty = false := by
          cases hf : fl.filter (fun p => !ops.contains p) with
          | nil => rw [hf] at hin; cases hin
          | cons a as => rfl
        rw [hne] at h
        simp only [Bool.false_eq_true, if_false] at h
        exact hnot _ h.symm hin
    · rw [if_neg hall] at h; cases h

theorem tightenLoop_pats (full : Cons) (s : Text) :
    ∀ (ps : List (Option Cons)) (steps T : Cons),
    tightenLoop full steps ps = .ok T → SubCons steps full →
    (∀ pc, some pc ∈ ps → PatsOK pc.pats s) → PatsOK T.pats s → PatsOK steps.pats s := by
  intro ps
  induction ps with
  | nil => intro steps T h _ _ hT; simp only [tightenLoop, Except.ok.injEq] at h; subst h; exact hT
  | cons p ps ih =>
    intro steps T h hs hps hT
    cases p with
    | none =>
      simp only [tightenLoop] at h
      exact ih _ _ h hs (fun pc hpc => hps pc (List.mem_cons_of_mem _ hpc)) hT
    | some pc =>
      simp only [tightenLoop] at h
      cases ht : tightening full (some pc) with
      | error e => simp [ht] at h
      | ok t =>
        simp only [ht] at h
        have hih := ih _ _ h (subCons_commonSteps t hs)
          (fun pc' hpc => hps pc' (List.mem_cons_of_mem _ hpc)) hT
        simp only [tightening] at ht
        cases hl : tightenLen full pc with
        | error e => simp [hl] at ht
        | ok l =>
          simp only [hl] at ht
          cases hp : tightenPats full pc with
          | error e => simp [hp] at ht
          | ok pp =>
            simp only [hp, Except.ok.injEq] at ht
            subst ht
            intro tp htp q hq
            obtain ⟨fl, hfl, hsub⟩ := hs.2 tp htp
            by_cases hin : ∃ l, pp = some l ∧ q ∈ l
            · obtain ⟨lq, hl', hql⟩ := hin
              obtain ⟨l', hl'', hq'⟩ := commonSteps_pats_mem (steps := steps) (t := ⟨l, pp⟩) htp hl' hq hql
              exact hih l' hl'' q hq'
            · obtain ⟨ops, hops, hqo⟩ := tightenPats_dropped hp hfl (hsub q hq)
                (fun l hl' hql => hin ⟨l, hl', hql⟩)
              exact hps pc List.mem_cons_self ops hops q hqo

/-- **tightening steps over several parents are sound**: what every constraining direct parent
imposes on the top node of the annotation, together with the steps the class itself emits
(`tightenAll`: the steps common to all parents), implies the class's complete constraints. -/
theorem tightenAll_sound {full T : Cons} {parents : List (Option Cons)}
    (h : tightenAll full parents = .ok T) (sh : Shape) (j : Json)
    (hpar : ∀ pc, some pc ∈ parents → TransSpec sh pc j) (hT : TransSpec sh T j) :
    TransSpec sh full j := by
  have hs := subCons_refl full
  cases sh with
  | prim p =>
    cases p <;> simp only [TransSpec] at * <;> try trivial
    · intro s hj
      exact ⟨tightenLoop_len full id s.length parents full T h hs (fun pc hpc => (hpar pc hpc s hj).1) (hT s hj).1,
        tightenLoop_pats full s parents full T h hs (fun pc hpc => (hpar pc hpc s hj).2) (hT s hj).2⟩
    · intro s hj
      exact tightenLoop_len full base64Len s.length parents full T h hs (fun pc hpc => hpar pc hpc s hj) (hT s hj)
  | list =>
    simp only [TransSpec] at *
    intro xs hj
    exact tightenLoop_len full id xs.length parents full T h hs (fun pc hpc => hpar pc hpc xs hj) (hT xs hj)
  | other => trivial

end AasVerif.JsonSchema
