import AasVerif.Lemmas.HierSpec
/-!
Stacking of invariants / properties: the stacked list of a class is the concatenation of the
own lists along a duplicate-free, parents-first linearisation of its ancestors, then its own.
-/
namespace AasVerif.Hier

/-- Ancestors of a class linearised the way the stacking passes walk them: parents in the declared
order, every parent preceded by its own linearisation, first occurrences only. (Specification device;
the ontology sorts the parents by topological index instead, so the two lists may differ in order.) -/
def linL (par : Name → List Name) (order : List Name) : List (Name × List Name) :=
  foldUpd id (fun _ => []) (fun st c => addAll [] ((par c).flatMap (fun p => st p ++ [p]))) order

def linAnc (par : Name → List Name) (order : List Name) : Name → List Name :=
  get (fun _ => []) (linL par order)

/-- items carry their owner: `own n` only holds pairs `(n, _)`, without repetition -/
structure Tagged (own : Name → List Item) : Prop where
  tag : ∀ n x, x ∈ own n → x.1 = n
  nodup : ∀ n, (own n).Nodup

theorem nodup_map_pair (n : Name) {l : List Name} (h : l.Nodup) : (l.map (fun x => ((n, x) : Item))).Nodup := by
  induction l with
  | nil => simp
  | cons x xs ih =>
    have hx := List.nodup_cons.mp h
    simp only [List.map_cons, List.nodup_cons, List.mem_map, Prod.mk.injEq, true_and, exists_eq_right]
    exact ⟨hx.1, ih hx.2⟩

theorem ownItems_tagged (cs : List ParsedClass) (f : ParsedClass → List Name)
    (h : ∀ c ∈ cs, (f c).Nodup) : Tagged (ownItems cs f) := by
  constructor
  · intro n x hx
    unfold ownItems at hx
    obtain ⟨y, _, rfl⟩ := List.mem_map.mp hx
    rfl
  · intro n
    unfold ownItems ownOf
    split
    · next c hf =>
      have := h c (find?_some_iff hf).1
      exact nodup_map_pair n this
    · simp

theorem addAll_flatMap_tagged {own : Name → List Item} (ht : Tagged own) (L acc : List Name) :
    addAll (acc.flatMap own) (L.flatMap own) = (addAll acc L).flatMap own := by
  induction L generalizing acc with
  | nil => simp [addAll_nil]
  | cons x L ih =>
    rw [List.flatMap_cons, addAll_append, addAll_cons]
    by_cases hx : x ∈ acc
    · have h1 : addAll (acc.flatMap own) (own x) = acc.flatMap own := by
        apply addAll_of_subset
        intro y hy
        exact List.mem_flatMap.mpr ⟨x, hx, hy⟩
      have h2 : pushNew acc x = acc := by unfold pushNew; simp [hx]
      rw [h1, h2]
      exact ih acc
    · have h1 : addAll (acc.flatMap own) (own x) = acc.flatMap own ++ own x := by
        apply addAll_fresh (ht.nodup x)
        intro y hy hmem
        obtain ⟨a, ha, hya⟩ := List.mem_flatMap.mp hmem
        have e1 := ht.tag x y hy
        have e2 := ht.tag a y hya
        rw [e1] at e2
        subst e2
        exact hx ha
      have h2 : pushNew acc x = acc ++ [x] := by unfold pushNew; simp [hx]
      rw [h1, h2]
      have : acc.flatMap own ++ own x = (acc ++ [x]).flatMap own := by simp
      rw [this]
      exact ih (acc ++ [x])

theorem TopoSorted.addAll {par : Name → List Name} :
    ∀ (s acc : List Name), TopoSorted par acc →
      (∀ l1 x l2, s = l1 ++ x :: l2 → ∀ p ∈ par x, p ∈ acc ∨ p ∈ l1) → TopoSorted par (addAll acc s) := by
  intro s
  induction s with
  | nil => intro acc h _; simpa [addAll_nil] using h
  | cons x s ih =>
    intro acc hacc hs
    rw [addAll_cons]
    apply ih
    · unfold pushNew
      split
      · exact hacc
      · apply hacc.concat
        intro p hp
        rcases hs [] x s rfl p hp with h | h
        · exact h
        · simp at h
    · intro l1 y l2 hsplit p hp
      rcases hs (x :: l1) y l2 (by simp [hsplit]) p hp with h | h
      · exact Or.inl (mem_pushNew.mpr (Or.inl h))
      · rcases List.mem_cons.mp h with rfl | h'
        · exact Or.inl (mem_pushNew.mpr (Or.inr rfl))
        · exact Or.inr h'

theorem TopoSorted.addAll_segments {par : Name → List Name} :
    ∀ (segs : List (List Name)) (acc : List Name), TopoSorted par acc → (∀ s ∈ segs, TopoSorted par s) →
      TopoSorted par (Hier.addAll acc segs.flatten) := by
  intro segs
  induction segs with
  | nil => intro acc h _; simpa [addAll_nil] using h
  | cons s segs ih =>
    intro acc hacc hs
    rw [List.flatten_cons, addAll_append]
    apply ih
    · apply TopoSorted.addAll s acc hacc
      intro l1 x l2 hsplit p hp
      exact Or.inr (hs s (by simp) l1 x l2 hsplit p hp)
    · intro t ht
      exact hs t (by simp [ht])

section
variable {par : Name → List Name} {order : List Name}

theorem linAnc_eq (hnd : order.Nodup) (hts : TopoSorted par order) {c : Name} (hc : c ∈ order) :
    linAnc par order c = addAll [] ((par c).flatMap (fun p => linAnc par order p ++ [p])) := by
  unfold linAnc linL
  have := foldUpd_spec (κ := Name) id (fun _ => ([] : List Name))
    (fun st c => addAll [] ((par c).flatMap (fun p => st p ++ [p]))) par order
    (by simpa using hnd)
    (by
      intro x st st' h
      show addAll [] _ = addAll [] _
      rw [flatMap_congr' (fun p hp => by rw [h p hp])])
    (by
      intro l1 x l2 hs p hp
      simpa using hts.not_after hnd hs hp)
    c hc
  simpa using this

theorem nodup_linAnc (hnd : order.Nodup) (hts : TopoSorted par order) (c : Name) :
    (linAnc par order c).Nodup := by
  by_cases hc : c ∈ order
  · rw [linAnc_eq hnd hts hc]
    exact nodup_addAll List.nodup_nil
  · unfold linAnc linL
    rw [get_foldUpd_of_not_mem _ _ _ _ _ (by simpa using hc)]
    exact List.nodup_nil

theorem mem_linAnc (hnd : order.Nodup) (hts : TopoSorted par order) {c a : Name} (hc : c ∈ order) :
    a ∈ linAnc par order c ↔ ∃ p ∈ par c, a ∈ linAnc par order p ∨ a = p := by
  rw [linAnc_eq hnd hts hc, mem_addAll]
  simp only [List.not_mem_nil, false_or, List.mem_flatMap, List.mem_append, List.mem_singleton]

theorem mem_linAnc_iff_transGen (hnd : order.Nodup) (hts : TopoSorted par order) (hcov : Covers par order)
    {c a : Name} (hc : c ∈ order) :
    a ∈ linAnc par order c ↔ Relation.TransGen (ParentRel par) a c := by
  constructor
  · have := topo_induction (P := fun c => ∀ a, a ∈ linAnc par order c → Relation.TransGen (ParentRel par) a c)
      hts (by
        intro c hc ih a ha
        obtain ⟨p, hp, h⟩ := (mem_linAnc hnd hts hc).mp ha
        rcases h with h | rfl
        · exact Relation.TransGen.tail (ih p hp a h) hp
        · exact Relation.TransGen.single hp)
    exact this c hc a
  · intro h
    induction h with
    | single h => exact (mem_linAnc hnd hts (hcov _ _ h).1).mpr ⟨_, h, Or.inr rfl⟩
    | tail _ hbc ih => exact (mem_linAnc hnd hts (hcov _ _ hbc).1).mpr ⟨_, hbc, Or.inl (ih (hcov _ _ hbc).2)⟩

/-- parents first: inside the linearisation every class is preceded by its own parents -/
theorem linAnc_sorted (hnd : order.Nodup) (hts : TopoSorted par order) :
    ∀ c ∈ order, TopoSorted par (linAnc par order c) := by
  refine topo_induction (P := fun c => TopoSorted par (linAnc par order c)) hts ?_
  intro c hc ih
  rw [linAnc_eq hnd hts hc, List.flatMap_def]
  apply TopoSorted.addAll_segments _ [] (TopoSorted.nil _)
  intro s hs
  obtain ⟨p, hp, rfl⟩ := List.mem_map.mp hs
  apply (ih p hp).concat
  intro q hq
  have hpo : p ∈ order := by
    obtain ⟨l1, l2, hsplit⟩ := List.append_of_mem hc
    exact hsplit ▸ List.mem_append_left _ (hts l1 c l2 hsplit p hp)
  exact (mem_linAnc hnd hts hpo).mpr ⟨q, hq, Or.inr rfl⟩

theorem stackAll_eq (own : Name → List Item) (hnd : order.Nodup) (hts : TopoSorted par order) {c : Name}
    (hc : c ∈ order) :
    stackAll par own order c = addAll [] ((par c).flatMap (stackAll par own order)) ++ own c := by
  unfold stackAll stackL
  have := foldUpd_spec (κ := Name) id own
    (fun st c => addAll [] ((par c).flatMap st) ++ own c) par order
    (by simpa using hnd)
    (by
      intro x st st' h
      show addAll [] _ ++ _ = addAll [] _ ++ _
      rw [flatMap_congr' (fun p hp => h p hp)])
    (by
      intro l1 x l2 hs p hp
      simpa using hts.not_after hnd hs hp)
    c hc
  simpa using this

theorem stackAll_of_not_mem (own : Name → List Item) {c : Name} (hc : c ∉ order) :
    stackAll par own order c = own c := by
  unfold stackAll stackL
  rw [get_foldUpd_of_not_mem _ _ _ _ _ (by simpa using hc)]

/-- **Stacking**: inherited entries along the parents-first linearisation of the ancestors, then the own ones. -/
theorem stackAll_spec {own : Name → List Item} (ht : Tagged own) (hnd : order.Nodup) (hts : TopoSorted par order) :
    ∀ c ∈ order, stackAll par own order c = (linAnc par order c).flatMap own ++ own c := by
  refine topo_induction (P := fun c => stackAll par own order c = (linAnc par order c).flatMap own ++ own c) hts ?_
  intro c hc ih
  rw [stackAll_eq own hnd hts hc, linAnc_eq hnd hts hc]
  congr 1
  have e : (par c).flatMap (stackAll par own order)
      = ((par c).flatMap (fun p => linAnc par order p ++ [p])).flatMap own := by
    rw [List.flatMap_assoc]
    apply flatMap_congr'
    intro p hp
    rw [ih p hp]
    simp
  rw [e]
  have := addAll_flatMap_tagged ht ((par c).flatMap (fun p => linAnc par order p ++ [p])) []
  simpa using this

theorem nodup_flatMap_tagged {own : Name → List Item} (ht : Tagged own) {L : List Name} (hL : L.Nodup) :
    (L.flatMap own).Nodup := by
  induction L with
  | nil => simp
  | cons x L ih =>
    have hx := List.nodup_cons.mp hL
    rw [List.flatMap_cons, List.nodup_append]
    refine ⟨ht.nodup x, ih hx.2, ?_⟩
    intro a ha b hb hab
    subst hab
    obtain ⟨y, hy, hay⟩ := List.mem_flatMap.mp hb
    have e1 := ht.tag x a ha
    have e2 := ht.tag y a hay
    rw [e1] at e2
    subst e2
    exact hx.1 hy

end

end AasVerif.Hier
