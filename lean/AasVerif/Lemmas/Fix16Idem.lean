import AasVerif.Lemmas.Fix16Total
/-!
The rewriting is idempotent: everything it creates holds BMP code units only and is left alone by a
second pass.  This is what justifies the model not re-visiting the nodes created in phase 1 of
`visit_concatenation` (the Python visitor does re-visit them).
-/
namespace AasVerif.Fix16
open AasVerif.Retree

/-- A term that a further pass leaves as it is (and on which phase 1 does not crash). -/
def StableT (t : Term) : Prop := fixTerm t = .ok [t] ∧ expand1 t = .ok [t]

theorem stable_terms {ts : List Term} (h : ∀ t ∈ ts, StableT t) :
    fixTerms ts = .ok ts ∧ expandCrash ts = none := by
  induction ts with
  | nil => exact ⟨by simp only [fixTerms], rfl⟩
  | cons t ts ih =>
    obtain ⟨h1, h2⟩ := h t (by simp)
    obtain ⟨i1, i2⟩ := ih (fun t' ht' => h t' (by simp [ht']))
    constructor
    · simp only [fixTerms, h1, i1, List.singleton_append]
    · simp only [expandCrash, h2, i2]

theorem stable_concat {ts : List Term} (h : ∀ t ∈ ts, StableT t) :
    fixConcat (.mk ts) = .ok (.mk ts) := by
  obtain ⟨h1, h2⟩ := stable_terms h
  simp only [fixConcat, h1, h2]

theorem stable_concats {cs : List Concat} (h : ∀ c ∈ cs, fixConcat c = .ok c) :
    fixConcats cs = .ok cs := by
  induction cs with
  | nil => simp only [fixConcats]
  | cons c cs ih =>
    simp only [fixConcats, h c (by simp), ih (fun c' hc' => h c' (by simp [hc']))]

theorem stable_ch {h : Nat} (hh : h < 65536) : StableT (ch h) := by
  constructor <;> simp only [ch, fixTerm, expand1, fixChar] <;> gen_consts <;> rw [if_pos hh]

theorem stable_st {a b : Nat} (ha : a < 65536) (hb : b < 65536) : StableT (st a b) := by
  have hw : wRanges [⟨⟨a, true⟩, some ⟨b, true⟩⟩] = [] := by
    apply wRanges_nil_of_bmp
    simp only [List.all_cons, List.all_nil, Bool.and_true]
    rw [isBmpRange_iff]
    exact ⟨ha, fun e he => by cases he; exact hb⟩
  constructor <;> simp only [st, fixTerm, expand1, fixSet, hw, List.isEmpty_nil, if_true]

theorem stable_group {u : Union} {q : Option Quant} (h : fixUnion u = .ok u) :
    StableT (.mk (.group u) q) := by
  constructor
  · simp only [fixTerm, h]
  · simp only [expand1]

theorem stable_charChar {h l : Nat} (hh : h < 65536) (hl : l < 65536) :
    fixConcat (charChar h l) = .ok (charChar h l) := by
  apply stable_concat
  intro t ht
  simp only [List.mem_cons, List.not_mem_nil, or_false] at ht
  rcases ht with rfl | rfl
  · exact stable_ch hh
  · exact stable_ch hl

theorem stable_charSet {h a b : Nat} (hh : h < 65536) (ha : a < 65536) (hb : b < 65536) :
    fixConcat (charSet h a b) = .ok (charSet h a b) := by
  apply stable_concat
  intro t ht
  simp only [List.mem_cons, List.not_mem_nil, or_false] at ht
  rcases ht with rfl | rfl
  · exact stable_ch hh
  · exact stable_st ha hb

theorem stable_setSet {a b c d : Nat} (ha : a < 65536) (hb : b < 65536) (hc : c < 65536)
    (hd : d < 65536) : fixConcat (setSet a b c d) = .ok (setSet a b c d) := by
  apply stable_concat
  intro t ht
  simp only [List.mem_cons, List.not_mem_nil, or_false] at ht
  rcases ht with rfl | rfl
  · exact stable_st ha hb
  · exact stable_st hc hd

theorem stable_splitPieces {hs ls he le : Nat} (h1 : hs < 65535) (h2 : ls < 65536)
    (h3 : he < 65536) (h4 : le < 65536) :
    ∀ c ∈ splitPieces hs ls he le, fixConcat c = .ok c := by
  intro c hc
  unfold splitPieces at hc
  split at hc
  · simp only [List.mem_singleton] at hc; subst hc; exact stable_charSet (by omega) h2 h4
  · split at hc
    · split at hc <;> simp only [List.cons_append, List.nil_append, List.mem_cons,
        List.not_mem_nil, or_false] at hc <;> rcases hc with rfl | rfl | rfl
      · exact stable_charSet (by omega) h2 (by omega)
      · exact stable_charSet (by omega) (by omega) (by omega)
      · exact stable_charSet h3 (by omega) h4
      · exact stable_charSet (by omega) h2 (by omega)
      · exact stable_setSet (by omega) (by omega) (by omega) (by omega)
      · exact stable_charSet h3 (by omega) h4
    · simp only [List.cons_append, List.nil_append, List.mem_cons, List.not_mem_nil,
        or_false] at hc
      rcases hc with rfl | rfl
      · exact stable_charSet (by omega) h2 (by omega)
      · exact stable_charSet h3 (by omega) h4

theorem stable_rangePieces {r : Rng} {pcs : List Concat} (h : rangePieces r = .ok pcs) :
    ∀ c ∈ pcs, fixConcat c = .ok c := by
  unfold rangePieces at h
  split at h
  · cases h
  · next hs ls hcs =>
    obtain ⟨ha1, ha2, hsp⟩ := convert_ok_iff.mp hcs
    have hs1 := surrogates_fst r.start.code
    have hs2 := surrogates_snd r.start.code
    rw [← hsp] at hs1 hs2
    simp only at hs1 hs2
    split at h
    · cases h
      intro c hc; simp only [List.mem_singleton] at hc; subst hc
      exact stable_charChar (by omega) (by omega)
    · split at h
      · cases h
        intro c hc; simp only [List.mem_singleton] at hc; subst hc
        exact stable_charChar (by omega) (by omega)
      · split at h
        · cases h
        · split at h
          · cases h
          · next he le hce =>
            obtain ⟨hb1, hb2, hep⟩ := convert_ok_iff.mp hce
            have he1 := surrogates_fst ‹Chr›.code
            have he2 := surrogates_snd ‹Chr›.code
            rw [← hep] at he1 he2
            simp only at he1 he2
            cases h
            exact stable_splitPieces (by omega) (by omega) (by omega) (by omega)

theorem stable_allPieces {rs : List Rng} {ps : List Concat} (h : allPieces rs = .ok ps) :
    ∀ c ∈ ps, fixConcat c = .ok c := by
  induction rs generalizing ps with
  | nil => unfold allPieces at h; cases h; simp
  | cons r rs ih =>
    unfold allPieces at h
    split at h
    · cases h
    · next pcs hr =>
      split at h
      · cases h
      · next qs hq =>
        cases h
        intro c hc
        rcases List.mem_append.mp hc with hc | hc
        · exact stable_rangePieces hr c hc
        · exact ih hq c hc

theorem woRanges_bmp (rs : List Rng) : (woRanges rs).all isBmpRange = true := by
  induction rs with
  | nil => rfl
  | cons r rs ih =>
    unfold woRanges
    split
    · next hb => simp only [List.all_cons, hb, ih, Bool.and_self]
    · split
      · next hstr =>
        obtain ⟨h1, _⟩ := isStraddling_iff.mp hstr
        simp only [List.all_cons, ih, Bool.and_true]
        rw [isBmpRange_iff]
        exact ⟨h1, fun e he => by cases he; simp⟩
      · exact ih

theorem stable_bmpUniate (rs : List Rng) : ∀ c ∈ bmpUniate rs, fixConcat c = .ok c := by
  intro c hc
  unfold bmpUniate at hc
  split at hc
  · simp at hc
  · simp only [List.mem_singleton] at hc
    subst hc
    apply stable_concat
    intro t ht
    simp only [List.mem_singleton] at ht
    subst ht
    have hw := wRanges_nil_of_bmp (woRanges_bmp rs)
    constructor <;> simp only [fixTerm, expand1, fixSet, hw, List.isEmpty_nil, if_true]

theorem stable_fixChar {c : Chr} {q : Option Quant} {ts' : List Term} (h : fixChar c q = .ok ts') :
    ∀ t ∈ ts', StableT t := by
  unfold fixChar at h
  gen_consts
  split at h
  · next hlt =>
    cases h
    intro t ht
    simp only [List.mem_singleton] at ht
    subst ht
    constructor <;> simp only [fixTerm, expand1, fixChar] <;> gen_consts <;> rw [if_pos hlt]
  · split at h
    · cases h
    · next hi lo hcv =>
      obtain ⟨h1, h2, hp⟩ := convert_ok_iff.mp hcv
      have e1 := surrogates_fst c.code
      have e2 := surrogates_snd c.code
      rw [← hp] at e1 e2
      simp only at e1 e2
      have hhi : hi < 65536 := by omega
      have hlo : lo < 65536 := by omega
      split at h
      · cases h
        intro t ht
        simp only [List.mem_singleton] at ht
        subst ht
        apply stable_group
        have := stable_charChar hhi hlo
        simp only [charChar] at this
        simp only [fixUnion, fixConcats, this]
      · cases h
        intro t ht
        simp only [List.mem_cons, List.not_mem_nil, or_false] at ht
        rcases ht with rfl | rfl
        · exact stable_ch hhi
        · exact stable_ch hlo

theorem stable_fixSet {compl : Bool} {rs : List Rng} {q : Option Quant} {ts' : List Term}
    (h : fixSet compl rs q = .ok ts') : ∀ t ∈ ts', StableT t := by
  unfold fixSet at h
  split at h
  · next hemp =>
    cases h
    intro t ht
    simp only [List.mem_singleton] at ht
    subst ht
    constructor <;> simp only [fixTerm, expand1, fixSet, hemp, if_true]
  · split at h
    · cases h
    · split at h
      · cases h
      · next ps hps =>
        cases h
        intro t ht
        simp only [List.mem_singleton] at ht
        subst ht
        apply stable_group
        have : fixConcats (bmpUniate rs ++ ps) = .ok (bmpUniate rs ++ ps) := by
          apply stable_concats
          intro c hc
          rcases List.mem_append.mp hc with hc | hc
          · exact stable_bmpUniate rs c hc
          · exact stable_allPieces hps c hc
        simp only [fixUnion, this]

mutual
  theorem idem_union : ∀ (u u' : Union), fixUnion u = .ok u' → fixUnion u' = .ok u'
    | .mk us, u', h => by
      simp only [fixUnion] at h
      split at h
      · cases h
      · next us' hus =>
        cases h
        simp only [fixUnion, idem_concats us us' hus]
  theorem idem_concats : ∀ (cs cs' : List Concat), fixConcats cs = .ok cs' →
      fixConcats cs' = .ok cs'
    | [], cs', h => by
      simp only [fixConcats] at h
      cases h
      simp only [fixConcats]
    | c :: cs, cs', h => by
      simp only [fixConcats] at h
      split at h
      · cases h
      · next c' hc' =>
        split at h
        · cases h
        · next cs'' hcs =>
          cases h
          simp only [fixConcats, idem_concat c c' hc', idem_concats cs cs'' hcs]
  theorem idem_concat : ∀ (c c' : Concat), fixConcat c = .ok c' → fixConcat c' = .ok c'
    | .mk ts, c', h => by
      simp only [fixConcat] at h
      split at h
      · cases h
      · split at h
        · cases h
        · next ts' hts =>
          cases h
          exact stable_concat (idem_terms ts ts' hts)
  theorem idem_terms : ∀ (ts ts' : List Term), fixTerms ts = .ok ts' → ∀ t ∈ ts', StableT t
    | [], ts', h => by
      simp only [fixTerms] at h
      cases h
      simp
    | t :: ts, ts', h => by
      simp only [fixTerms] at h
      split at h
      · cases h
      · next t' ht =>
        split at h
        · cases h
        · next ts'' hts =>
          cases h
          intro x hx
          rcases List.mem_append.mp hx with hx | hx
          · exact idem_term t t' ht x hx
          · exact idem_terms ts ts'' hts x hx
  theorem idem_term : ∀ (t : Term) (ts' : List Term), fixTerm t = .ok ts' → ∀ x ∈ ts', StableT x
    | .mk (.group u) q, ts', h => by
      simp only [fixTerm] at h
      split at h
      · cases h
      · next u' hu =>
        cases h
        intro x hx
        simp only [List.mem_singleton] at hx
        subst hx
        exact stable_group (idem_union u u' hu)
    | .mk (.char c) q, ts', h => by
      simp only [fixTerm] at h
      exact stable_fixChar h
    | .mk (.set compl rs) q, ts', h => by
      simp only [fixTerm] at h
      exact stable_fixSet h
    | .mk (.fv i) q, ts', h => by
      simp only [fixTerm] at h
      cases h
      intro x hx
      simp only [List.mem_singleton] at hx
      subst hx
      constructor <;> simp only [fixTerm, expand1]
    | .mk (.sym k) q, ts', h => by
      simp only [fixTerm] at h
      cases h
      intro x hx
      simp only [List.mem_singleton] at hx
      subst hx
      constructor <;> simp only [fixTerm, expand1]
end

/-- A second pass of the rewriting changes nothing. -/
theorem fix_idem {r r' : Regex} (h : fix r = .ok r') : fix r' = .ok r' :=
  idem_union r r' h

end AasVerif.Fix16
