import AasVerif.Model.PyRules
/-!
Helper lemmas for C08 (a): the parse rules preserve the Python meaning of the source.
-/
namespace AasVerif.PyAst
open AasVerif AasVerif.Expr

macro "same_matches" : tactic =>
  `(tactic| (repeat' (first | rfl | split)) <;> simp_all)

theorem oursOf_cmpOp (f : FloatOps) (op : PyCmpOp) (c : Cmp) (h : oursOf op = some c) (l r : Val) :
    cmpOp f op l r = cmpVals f c l r := by
  cases op <;> simp [oursOf, lookupOp, Gen.PyRules.comparatorToOurs] at h <;> subst h <;> rfl

theorem oursOf_in : oursOf .in_ = none := by decide
theorem oursOf_is : oursOf .is_ = none := by decide
theorem oursOf_isNot : oursOf .isNot = none := by decide

theorem truthy_true (fo : FloatOps) : (Val.bool true).truthy fo = true := rfl

theorem quantLoopF_true (fo : FloatOps) (isAny : Bool) (f : Val → Out) :
    ∀ items, quantLoopF fo isAny (fun _ => .val (.bool true)) f items = quantLoop fo isAny f items
  | [] => rfl
  | x :: xs => by
    simp only [quantLoopF, quantLoop, truthy_true, if_true]
    rw [quantLoopF_true fo isAny f xs]
    same_matches

theorem rangeLoopF_true (fo : FloatOps) (isAny : Bool) (f : Val → Out) :
    ∀ n s, rangeLoopF fo isAny (fun _ => .val (.bool true)) f s n = rangeLoop fo isAny f s n
  | 0, _ => rfl
  | n + 1, s => by
    simp only [rangeLoopF, rangeLoop, truthy_true, if_true]
    rw [rangeLoopF_true fo isAny f n (s + 1)]
    same_matches

end AasVerif.PyAst

namespace AasVerif.PyAst
open AasVerif AasVerif.Expr

/-- the loop variable is attached by the caller -/
def withVar (x : Text) : GenRes → GenRes
  | .items _ vs => .items x vs
  | .range _ s n => .range x s n
  | .err o => .err o

/-- what `evalPy` iterates over for the (single) generator of an `any` / `all` -/
def pyGenRes (ρ : Env) : PyAst → GenRes
  | .call (.name r) [a, b] 0 =>
    if r = rangeName then rangeRes (evalPy ρ a) (evalPy ρ b)
    else if r = anyName ∨ r = allName then .err .otherError
    else iterRes (callNamed ρ r (args2 (evalPy ρ a) (evalPy ρ b)))
  | it => iterRes (evalPy ρ it)

theorem evalPy_quant (ρ : Env) (f : Text) (hf : f = anyName ∨ f = allName) (elt : PyAst) (x : Text)
    (iter : PyAst) (ifs : List PyAst) (isAsync : Bool) :
    evalPy ρ (.call (.name f) [.generatorExp elt [.mk (.name x) iter ifs isAsync]] 0) =
      quantOver ρ.fops (f = anyName) (pyGenRes ρ iter)
        (fun item => evalIfs (ρ.bind x item) ifs) (fun item => evalPy (ρ.bind x item) elt) := by
  unfold pyGenRes
  split
  · simp only [evalPy, hf, if_true]
  · next hne =>
    rw [evalPy.eq_def]
    simp only [hf, if_true]

def M1 (a : PyAst) : Prop := ∀ e, ofPy a = .ok e → ∀ ρ, Expr.eval ρ e = evalPy ρ a
/-- for an attribute access, the statement also holds for the receiver -/
def SubAttr : PyAst → Prop
  | .attribute v _ => M1 v
  | _ => True
def M1s (a : PyAst) : Prop := M1 a ∧ SubAttr a
def M2 (ps : List PyAst) : Prop := ∀ qs, ofPyParts ps = .ok qs → ∀ ρ, Expr.evalParts ρ qs = evalPyParts ρ ps
def M3 (as : List PyAst) : Prop := ∀ es, ofPyArgs as = .ok es → ∀ ρ,
  Expr.evalArgs ρ es = evalPyArgs ρ as ∧
  Expr.evalAnd ρ es = evalPyBool ρ true as ∧ Expr.evalOr ρ es = evalPyBool ρ false as
def M4 (gs : List Comp) : Prop := ∀ g, ofPyGens gs = .ok g →
  ∃ x iter isAsync, gs = [.mk (.name x) iter [] isAsync] ∧ ∀ ρ, Expr.evalGen ρ g = withVar x (pyGenRes ρ iter)

theorem evalPyArgs_two (ρ : Env) (a b : PyAst) :
    evalPyArgs ρ [a, b] = args2 (evalPy ρ a) (evalPy ρ b) := by
  simp only [evalPyArgs, args2]
  same_matches

theorem quantOver_noIfs (fo : FloatOps) (isAny : Bool) (x : Text) (gr : GenRes) (f : Val → Out) (ρ : Env) :
    quantOver fo isAny gr (fun item => evalIfs (ρ.bind x item) []) f =
      (match withVar x gr with
       | .items _ items => quantLoop fo isAny f items
       | .range _ s n => rangeLoop fo isAny f s n
       | .err o => o) := by
  simp only [evalIfs, Out.ofBool]
  cases gr <;> simp [quantOver, withVar, quantLoopF_true, rangeLoopF_true]

/-- only an attribute access is parsed to a member -/
theorem ofPy_member_inv (func : PyAst) (inst : Expr) (n : Text) (h : ofPy func = .ok (.member inst n)) :
    ∃ v, func = .attribute v n ∧ ofPy v = .ok inst := by
  unfold ofPy at h
  split at h <;> (try (simp_all [Res.bind_eq_ok]; done))
  case h_14 =>
    simp only [Res.bind_eq_ok] at h
    obtain ⟨v', hv, h⟩ := h
    simp only [Res.ok.injEq, Expr.member.injEq] at h
    obtain ⟨h1, h2⟩ := h
    subst h1; subst h2
    exact ⟨_, rfl, hv⟩
  all_goals (exfalso; (repeat' (split at h)) <;> simp_all [Res.bind_eq_ok])
  obtain ⟨x, _, m, _, hm⟩ := h
  split at hm <;> simp at hm

/-- a plain function call `f(args)` (not `any` / `all`, no keywords) -/
theorem evalPy_call_name (ρ : Env) (f : Text) (args : List PyAst) (kw : Nat)
    (hf : ¬(f = anyName ∨ f = allName)) (hkw : ¬kw > 0) :
    evalPy ρ (.call (.name f) args kw) = callNamed ρ f (evalPyArgs ρ args) := by
  rw [evalPy.eq_def]
  split <;> first
    | (simp_all [evalPyArgs, evalPy]; done)
    | (rename_i h1 h2 heq; injection heq with hfn _ _; exact absurd hfn.symm (h1 f))

theorem evalGen_forEach (ρ : Env) (x : Text) (it' : Expr) (o : Out) (h : Expr.eval ρ it' = o) :
    Expr.evalGen ρ (.forEach x it') = withVar x (iterRes o) := by
  simp only [Expr.evalGen, h]
  cases o with
  | val v =>
    simp only [iterRes]
    cases iterItems v <;> simp [withVar]
  | typeError => simp [iterRes, withVar]
  | noneDeref => simp [iterRes, withVar]
  | indexError => simp [iterRes, withVar]
  | otherError => simp [iterRes, withVar]

theorem pyGenRes_other (ρ : Env) (it : PyAst)
    (h : ∀ (r : Text) (rargs : List PyAst) (rkw : Nat), it = (PyAst.name r).call rargs rkw → False) :
    pyGenRes ρ it = iterRes (evalPy ρ it) := by
  unfold pyGenRes
  split
  · next r a b => exact absurd rfl (h r [a, b] 0)
  · rfl

theorem pyGenRes_call (ρ : Env) (r : Text) (rargs : List PyAst) (rkw : Nat) (hr : ¬r = rangeName) :
    pyGenRes ρ (.call (.name r) rargs rkw) = iterRes (evalPy ρ (.call (.name r) rargs rkw)) := by
  unfold pyGenRes
  split
  · next r' a b heq =>
    injection heq with h1 h2 h3
    injection h1 with h1
    subst h1; subst h2; subst h3
    simp only [hr, if_false]
    by_cases hq : r = anyName ∨ r = allName
    · simp only [hq, if_true]
      rw [evalPy.eq_def]
      simp [hq, iterRes]
    · simp only [hq, if_false]
      rw [evalPy_call_name ρ r [a, b] 0 hq (by decide), evalPyArgs_two]
  · rfl

theorem rules_all : (∀ a, M1s a) := by
  intro a
  apply ofPy.induct (motive_1 := M1s) (motive_2 := M2) (motive_3 := M3) (motive_4 := M4)
  case case1 =>
    intro l op r c hc ihl ihr
    refine ⟨?_, by simp [SubAttr]⟩
    intro e h ρ
    simp only [ofPy, hc, Res.bind_eq_ok] at h
    obtain ⟨l', hl, r', hr, h⟩ := h
    cases h
    simp only [Expr.eval, evalPy, evalChain, ihl.1 l' hl ρ, ihr.1 r' hr ρ, oursOf_cmpOp _ op c hc]
    same_matches
  case case2 =>
    intro l r hc ihl ihr
    refine ⟨?_, by simp [SubAttr]⟩
    intro e h ρ
    simp only [ofPy, hc, Res.bind_eq_ok] at h
    obtain ⟨l', hl, r', hr, h⟩ := h
    cases h
    simp only [Expr.eval, evalPy, evalChain, cmpOp, ihl.1 l' hl ρ, ihr.1 r' hr ρ]
    same_matches
  case case3 =>
    intro l hc ihl
    refine ⟨?_, by simp [SubAttr]⟩
    intro e h ρ
    simp only [ofPy, hc, Res.bind_eq_ok] at h
    obtain ⟨l', hl, h⟩ := h
    cases h
    simp only [Expr.eval, evalPy, evalChain, cmpOp, constVal, ihl.1 l' hl ρ]
    same_matches
  case case4 =>
    intro l r hr hc
    refine ⟨?_, by simp [SubAttr]⟩
    intro e h ρ
    simp only [ofPy, hc] at h
    first
      | cases h
      | (split at h
         · next heq => exact absurd heq hr
         · cases h)
  case case5 =>
    intro l hc ihl
    refine ⟨?_, by simp [SubAttr]⟩
    intro e h ρ
    simp only [ofPy, hc, Res.bind_eq_ok] at h
    obtain ⟨l', hl, h⟩ := h
    cases h
    simp only [Expr.eval, evalPy, evalChain, cmpOp, constVal, ihl.1 l' hl ρ]
    same_matches
  case case6 =>
    intro l r hr hc
    refine ⟨?_, by simp [SubAttr]⟩
    intro e h ρ
    simp only [ofPy, hc] at h
    first
      | cases h
      | (split at h
         · next heq => exact absurd heq hr
         · cases h)
  case case7 =>
    intro l op r hc h1 h2 h3
    refine ⟨?_, by simp [SubAttr]⟩
    intro e h ρ
    simp only [ofPy, hc] at h
    first | cases h | (split at h <;> simp_all)
  case case8 =>
    intro l ops cs hne
    refine ⟨?_, by simp [SubAttr]⟩
    intro e h ρ
    unfold ofPy at h
    split at h <;> simp_all
  case case9 =>
    intro f args kw hf hkw
    refine ⟨?_, by simp [SubAttr]⟩
    intro e h ρ
    unfold ofPy at h
    simp only [hf, hkw, if_true] at h
    cases h
  case case10 =>
    intro f kw hf hkw elt gens ihe ihg
    refine ⟨?_, by simp [SubAttr]⟩
    intro e h ρ
    have hkw0 : kw = 0 := by omega
    subst hkw0
    simp only [ofPy, hf, if_true, Res.bind_eq_ok, Nat.lt_irrefl, if_false] at h
    obtain ⟨cond, hcond, g, hg, h⟩ := h
    obtain ⟨x, iter, isAsync, hgs, hgen⟩ := ihg g hg
    subst hgs
    have hc : ∀ ρ', Expr.eval ρ' cond = evalPy ρ' elt := ihe.1 cond hcond
    rw [evalPy_quant ρ f hf, quantOver_noIfs]
    by_cases hany : f = anyName
    · simp only [hany, if_true] at h
      cases h
      simp only [Expr.eval, hgen ρ, hc, hany, decide_true]
      cases hgr : pyGenRes ρ iter <;> simp [withVar]
    · simp only [hany, if_false] at h
      cases h
      simp only [Expr.eval, hgen ρ, hc, hany, decide_false]
      cases hgr : pyGenRes ρ iter <;> simp [withVar]
  case case11 =>
    intro f args kw hf hkw hargs
    refine ⟨?_, by simp [SubAttr]⟩
    intro e h ρ
    unfold ofPy at h
    simp only [hf, hkw, if_true, if_false] at h
    first
      | cases h
      | (split at h
         · next elt gens => exact absurd rfl (hargs elt gens)
         · cases h)
  case case12 =>
    intro f args kw hf iha
    refine ⟨?_, by simp [SubAttr]⟩
    intro e h ρ
    unfold ofPy at h
    simp only [hf, if_false, Res.bind_eq_ok] at h
    obtain ⟨as', has, h⟩ := h
    split at h
    · cases h
    · next hkw =>
      cases h
      have hA := (iha as' has ρ).1
      rw [evalPy_call_name ρ f args kw hf hkw, ← hA]
      simp only [Expr.eval, callNamed]
      same_matches
  case case13 =>
    intro func args kw hfunc iha ihf
    refine ⟨?_, by simp [SubAttr]⟩
    intro e h ρ
    unfold ofPy at h
    split at h <;> (try (simp_all; done))
    next fn as k hfn heq =>
      cases heq
      simp only [Res.bind_eq_ok] at h
      obtain ⟨as', has, h⟩ := h
      split at h
      · cases h
      · next hkw =>
        simp only [Res.bind_eq_ok] at h
        obtain ⟨m, hm, h⟩ := h
        split at h
        · next inst n =>
          cases h
          obtain ⟨v, hv, hinst⟩ := ofPy_member_inv func inst n hm
          subst hv
          have hA := (iha as' has ρ).1
          have hM := ihf.1 _ hm ρ
          have hV : ∀ ρ, Expr.eval ρ inst = evalPy ρ v := fun ρ' => (ihf.2 : M1 v) inst hinst ρ'
          simp only [Expr.eval, evalPy, hkw, if_false, hV ρ, hA]
          same_matches
        · cases h
  case case14 =>
    intro b
    refine ⟨?_, by simp [SubAttr]⟩
    intro e h ρ; simp only [ofPy] at h; cases h; simp [Expr.eval, evalPy, Expr.constVal, constVal]
  case case15 =>
    intro b
    refine ⟨?_, by simp [SubAttr]⟩
    intro e h ρ; simp only [ofPy] at h; cases h; simp [Expr.eval, evalPy, Expr.constVal, constVal]
  case case16 =>
    intro b
    refine ⟨?_, by simp [SubAttr]⟩
    intro e h ρ; simp only [ofPy] at h; cases h; simp [Expr.eval, evalPy, Expr.constVal, constVal]
  case case17 =>
    intro b
    refine ⟨?_, by simp [SubAttr]⟩
    intro e h ρ; simp only [ofPy] at h; cases h; simp [Expr.eval, evalPy, Expr.constVal, constVal]
  case case18 =>
    intro c h1 h2 h3 h4
    refine ⟨?_, by simp [SubAttr]⟩
    intro e h ρ
    cases c <;> simp_all [ofPy]
  case case19 =>
    intro b
    refine ⟨?_, by simp [SubAttr]⟩
    intro e h ρ; simp only [ofPy] at h; cases h; simp [Expr.eval, evalPy, Expr.constVal, constVal, negVal]
  case case20 =>
    intro b
    refine ⟨?_, by simp [SubAttr]⟩
    intro e h ρ; simp only [ofPy] at h; cases h; simp [Expr.eval, evalPy, Expr.constVal, constVal, negVal]
  case case21 =>
    intro b
    refine ⟨?_, by simp [SubAttr]⟩
    intro e h ρ; simp only [ofPy] at h; cases h; simp [Expr.eval, evalPy, Expr.constVal, constVal, negVal]
  case case22 =>
    intro a c iha ihc
    refine ⟨?_, by simp [SubAttr]⟩
    intro e h ρ
    simp only [ofPy, Res.bind_eq_ok] at h
    obtain ⟨a', ha, c', hc, h⟩ := h
    cases h
    simp only [Expr.eval, evalPy, evalPyBool, iha.1 a' ha ρ, ihc.1 c' hc ρ]
    cases evalPy ρ a <;> simp [Out.ofBool, Val.truthy] <;> same_matches
  case case23 =>
    intro v n ih
    refine ⟨?_, ih.1⟩
    intro e h ρ
    simp only [ofPy, Res.bind_eq_ok] at h
    obtain ⟨v', hv, h⟩ := h
    cases h
    simp only [Expr.eval, evalPy, ih.1 v' hv ρ]
    same_matches
  case case24 =>
    intro v s' ihv ihs
    refine ⟨?_, by simp [SubAttr]⟩
    intro e h ρ
    simp only [ofPy, Res.bind_eq_ok] at h
    obtain ⟨v', hv, i', hi, h⟩ := h
    cases h
    simp only [Expr.eval, evalPy, ihv.1 v' hv ρ, ihs.1 i' hi ρ]
    same_matches
  case case25 =>
    intro x
    refine ⟨?_, by simp [SubAttr]⟩
    intro e h ρ
    simp only [ofPy] at h
    cases h
    simp only [Expr.eval, evalPy]
    same_matches
  case case26 =>
    intro v ih
    refine ⟨?_, by simp [SubAttr]⟩
    intro e h ρ
    simp only [ofPy, Res.bind_eq_ok] at h
    obtain ⟨v', hv, h⟩ := h
    cases h
    simp only [Expr.eval, evalPy, ih.1 v' hv ρ]
    same_matches
  case case28 =>
    intro vs ih
    refine ⟨?_, by simp [SubAttr]⟩
    intro e h ρ
    simp only [ofPy, Res.bind_eq_ok] at h
    obtain ⟨vs', hv, h⟩ := h
    cases h
    simp only [Expr.eval, evalPy, (ih vs' hv ρ).2.1]
  case case29 =>
    intro vs hne ih
    refine ⟨?_, by simp [SubAttr]⟩
    intro e h ρ
    unfold ofPy at h
    split at h <;> (try (simp_all; done))
    next vs' heq =>
      cases heq
      simp only [Res.bind_eq_ok] at h
      obtain ⟨es, hes, h⟩ := h
      cases h
      simp only [Expr.eval, evalPy, (ih es hes ρ).2.2]
  case case30 =>
    intro l r ihl ihr
    refine ⟨?_, by simp [SubAttr]⟩
    intro e h ρ
    simp only [ofPy, Res.bind_eq_ok] at h
    obtain ⟨l', hl, r', hr, h⟩ := h
    cases h
    simp only [Expr.eval, evalPy, ihl.1 l' hl ρ, ihr.1 r' hr ρ]
    same_matches
  case case31 =>
    intro l r ihl ihr
    refine ⟨?_, by simp [SubAttr]⟩
    intro e h ρ
    simp only [ofPy, Res.bind_eq_ok] at h
    obtain ⟨l', hl, r', hr, h⟩ := h
    cases h
    simp only [Expr.eval, evalPy, ihl.1 l' hl ρ, ihr.1 r' hr ρ]
    same_matches
  case case33 =>
    intro vs ih
    refine ⟨?_, by simp [SubAttr]⟩
    intro e h ρ
    simp only [ofPy, Res.bind_eq_ok] at h
    obtain ⟨ps, hp, h⟩ := h
    cases h
    simp only [Expr.eval, evalPy, ih ps hp ρ]
  case case27 =>
    intro op operand h1 h2 h3 h4
    refine ⟨?_, by simp [SubAttr]⟩
    intro e h ρ; unfold ofPy at h; split at h <;> simp_all
  case case32 =>
    intro l r
    refine ⟨?_, by simp [SubAttr]⟩
    intro e h ρ; simp only [ofPy] at h; cases h
  case case34 =>
    intro l r
    refine ⟨?_, by simp [SubAttr]⟩
    intro e h ρ; simp only [ofPy] at h; cases h
  case case35 =>
    intro v c sp
    refine ⟨?_, by simp [SubAttr]⟩
    intro e h ρ; simp only [ofPy] at h; cases h
  case case36 =>
    refine ⟨?_, by simp [SubAttr]⟩
    intro e h ρ; simp only [ofPy] at h; cases h
  case case37 =>
    intro qs h ρ; simp only [ofPyParts] at h; cases h; simp [Expr.evalParts, evalPyParts]
  case case38 =>
    intro s' ps ih qs h ρ
    simp only [ofPyParts, Res.bind_eq_ok] at h
    obtain ⟨ps', hp, h⟩ := h
    cases h
    simp only [Expr.evalParts, evalPyParts, ih ps' hp ρ]
    same_matches
  case case39 =>
    intro c tl hc qs h ρ; unfold ofPyParts at h; split at h <;> simp_all
  case case40 =>
    intro v conv spec ps hconv qs h ρ; unfold ofPyParts at h; simp [hconv] at h
  case case41 =>
    intro v conv ps hconv qs h ρ; unfold ofPyParts at h; simp [hconv] at h
  case case42 =>
    intro v conv spec ps hconv hspec ihv ihps qs h ρ
    have hc : conv = -1 := by simpa using hconv
    subst hc
    have hs : spec = false := by simpa using hspec
    subst hs
    simp only [ofPyParts, Res.bind_eq_ok, ne_eq, not_true_eq_false, if_false, Bool.false_eq_true] at h
    obtain ⟨v', hv, ps', hp, h⟩ := h
    cases h
    simp only [Expr.evalParts, evalPyParts, ihv.1 v' hv ρ, ihps ps' hp ρ]
    same_matches
  case case43 =>
    intro hd tl h1 h2 h3 qs h ρ; unfold ofPyParts at h; split at h <;> simp_all
  case case44 =>
    intro es h ρ
    simp only [ofPyArgs] at h
    cases h
    simp [Expr.evalArgs, evalPyArgs, Expr.evalAnd, Expr.evalOr, evalPyBool]
  case case45 =>
    intro a' as iha ihas es h ρ
    simp only [ofPyArgs, Res.bind_eq_ok] at h
    obtain ⟨e1, h1, es', hes, h⟩ := h
    cases h
    have ih := ihas es' hes ρ
    have h1' := iha.1 e1 h1 ρ
    refine ⟨?_, ?_, ?_⟩
    · simp only [Expr.evalArgs, evalPyArgs, h1', ih.1]
      same_matches
    · cases as with
      | nil =>
        simp only [ofPyArgs] at hes; cases hes
        simp only [Expr.evalAnd, evalPyBool, h1']
      | cons b bs =>
        simp only [ofPyArgs, Res.bind_eq_ok] at hes
        obtain ⟨b', _, bs', _, hes⟩ := hes
        cases hes
        simp only [Expr.evalAnd, evalPyBool, h1', ← ih.2.1]
        same_matches
    · cases as with
      | nil =>
        simp only [ofPyArgs] at hes; cases hes
        simp only [Expr.evalOr, evalPyBool, h1']
      | cons b bs =>
        simp only [ofPyArgs, Res.bind_eq_ok] at hes
        obtain ⟨b', _, bs', _, hes⟩ := hes
        cases hes
        simp only [Expr.evalOr, evalPyBool, h1', ← ih.2.2]
        same_matches
  case case46 =>
    intro x ifs isAsync hifs rkw a' b' hrkw g h
    unfold ofPyGens at h
    simp [hifs, hrkw] at h
  case case47 =>
    intro x ifs isAsync hifs rkw a' b' hrkw iha ihb g h
    have hz : rkw = 0 := by simpa using hrkw
    subst hz
    have hnil : ifs = [] := by simpa using hifs
    subst hnil
    unfold ofPyGens at h
    simp only [List.isEmpty_nil, if_true, ne_eq, not_true_eq_false, if_false, Res.bind_eq_ok] at h
    obtain ⟨ea, ha, eb, hb, h⟩ := h
    cases h
    refine ⟨x, _, isAsync, rfl, fun ρ => ?_⟩
    simp only [Expr.evalGen, pyGenRes, if_true, iha.1 ea ha ρ, ihb.1 eb hb ρ]
    cases evalPy ρ a' <;> cases evalPy ρ b' <;> simp [rangeRes, withVar] <;>
      (try (split <;> simp_all [withVar]))
  case case48 =>
    intro x ifs isAsync hifs rargs rkw hne g h
    unfold ofPyGens at h
    simp only [hifs, if_true] at h
    first | cases h | (split at h <;> simp_all)
  case case49 =>
    intro x ifs isAsync hifs r rargs rkw hr ih g h
    have hnil : ifs = [] := by simpa using hifs
    subst hnil
    unfold ofPyGens at h
    simp only [List.isEmpty_nil, if_true, hr, if_false, Res.bind_eq_ok] at h
    obtain ⟨it', hit, h⟩ := h
    cases h
    refine ⟨x, _, isAsync, rfl, fun ρ => ?_⟩
    rw [pyGenRes_call ρ r rargs rkw hr]
    exact evalGen_forEach ρ x it' _ (ih.1 it' hit ρ)
  case case50 =>
    intro x ifs isAsync hifs it hne ih g h
    have hnil : ifs = [] := by simpa using hifs
    subst hnil
    unfold ofPyGens at h
    simp only [List.isEmpty_nil, if_true] at h
    simp only [Res.bind_eq_ok] at h
    obtain ⟨it', hit, h⟩ := h
    cases h
    refine ⟨x, _, isAsync, rfl, fun ρ => ?_⟩
    rw [pyGenRes_other ρ it hne]
    exact evalGen_forEach ρ x it' _ (ih.1 it' hit ρ)
  case case51 =>
    intro x iter ifs isAsync hifs g h
    unfold ofPyGens at h
    simp [hifs] at h
  case case52 =>
    intro t hne g h
    unfold ofPyGens at h
    split at h
    · next x iter ifs isAsync => exact absurd rfl (hne x iter ifs isAsync)
    · cases h

end AasVerif.PyAst
