import AasVerif.Model.PyRules
/-!
Helper lemmas for C08 (a): the parse rules preserve the Python meaning of the source.
-/
namespace AasVerif.PyAst
open AasVerif AasVerif.Expr

macro "same_matches" : tactic =>
  `(tactic| (repeat' (first | rfl | split)) <;> simp_all)

theorem oursOf_cmpOp (f : FloatOps) (op : PyCmpOp) (c : Cmp) (h : oursOf op = some c) (l r : Val) :
    cmpOp f op l r = cmpVals f c l r := by
  cases op <;> simp [oursOf, lookupOp, Gen.PyRules.comparatorToOurs] at h <;> subst h <;> rfl

theorem oursOf_in : oursOf .in_ = none := by decide
theorem oursOf_is : oursOf .is_ = none := by decide
theorem oursOf_isNot : oursOf .isNot = none := by decide

theorem truthy_true (fo : FloatOps) : (Val.bool true).truthy fo = true := rfl

theorem quantLoopF_true (fo : FloatOps) (isAny : Bool) (f : Val → Out) :
    ∀ items, quantLoopF fo isAny (fun _ => .val (.bool true)) f items = quantLoop fo isAny f items
  | [] => rfl
  | x :: xs => by
    simp only [quantLoopF, quantLoop, truthy_true, if_true]
    rw [quantLoopF_true fo isAny f xs]
    same_matches

theorem rangeLoopF_true (fo : FloatOps) (isAny : Bool) (f : Val → Out) :
    ∀ n s, rangeLoopF fo isAny (fun _ => .val (.bool true)) f s n = rangeLoop fo isAny f s n
  | 0, _ => rfl
  | n + 1, s => by
    simp only [rangeLoopF, rangeLoop, truthy_true, if_true]
    rw [rangeLoopF_true fo isAny f n (s + 1)]
    same_matches

end AasVerif.PyAst
