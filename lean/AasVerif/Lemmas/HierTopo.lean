import AasVerif.Lemmas.HierSpec
/-!
Correctness of the depth-first topological sort (`visit`, `topoLoop`): on an acyclic
hierarchy it never reports a cycle, never exhausts the recursion budget of the model,
and returns every class exactly once with parents before children.
-/
namespace AasVerif.Hier

/-- position of a name in a list (length if absent) -/
def pos : List Name → Name → Nat
  | [], _ => 0
  | x :: xs, n => if n = x then 0 else pos xs n + 1

theorem pos_lt_length {l : List Name} {n : Name} (h : n ∈ l) : pos l n < l.length := by
  induction l with
  | nil => simp at h
  | cons x xs ih =>
    unfold pos
    by_cases hx : n = x
    · simp [hx]
    · simp only [hx, if_false, List.length_cons]
      have := ih (by simpa [hx] using h)
      omega

theorem pos_append_of_mem {l1 l2 : List Name} {n : Name} (h : n ∈ l1) : pos (l1 ++ l2) n = pos l1 n := by
  induction l1 with
  | nil => simp at h
  | cons x xs ih =>
    simp only [List.cons_append, pos]
    by_cases hx : n = x
    · simp [hx]
    · simp only [hx, if_false]
      rw [ih (by simpa [hx] using h)]

theorem pos_append_of_not_mem {l1 l2 : List Name} {n : Name} (h : n ∉ l1) :
    pos (l1 ++ n :: l2) n = l1.length := by
  induction l1 with
  | nil => simp [pos]
  | cons x xs ih =>
    simp only [List.mem_cons, not_or] at h
    simp only [List.cons_append, pos, h.1, if_false, List.length_cons]
    rw [ih h.2]

/-- along a duplicate-free topological order the position strictly grows from parent to child -/
theorem pos_parent_lt {par : Name → List Name} {w : List Name} (hnd : w.Nodup) (hts : TopoSorted par w)
    {c p : Name} (hc : c ∈ w) (hp : p ∈ par c) : pos w p < pos w c := by
  obtain ⟨l1, l2, hs⟩ := List.append_of_mem hc
  have hp1 := hts l1 c l2 hs p hp
  have hc1 : c ∉ l1 := by
    rw [hs, List.nodup_append] at hnd
    intro h
    exact hnd.2.2 c h c (by simp) rfl
  rw [hs, pos_append_of_mem hp1, pos_append_of_not_mem hc1]
  exact pos_lt_length hp1

structure Good (par : Name → List Name) (st : TState) : Prop where
  noCycle : st.cycle = none
  noFuel : st.outOfFuel = false
  nodup : st.result.Nodup
  sorted : TopoSorted par st.result

structure VisitPost (par : Name → List Name) (rank : Name → Nat) (K : Name → Prop) (c : Name)
    (st st' : TState) : Prop where
  good : Good par st'
  temp : st'.temp = st.temp
  mem : c ∈ st'.result
  mono : ∀ x ∈ st.result, x ∈ st'.result
  known : ∀ x ∈ st'.result, K x
  fresh : ∀ x ∈ st'.result, x ∈ st.result ∨ rank x ≤ rank c

def VisitSpec (par : Name → List Name) (rank : Name → Nat) (K : Name → Prop) (fuel : Nat) : Prop :=
  ∀ c st, rank c < fuel → K c → Good par st → (∀ x ∈ st.result, K x) → (∀ t ∈ st.temp, rank c < rank t) →
    VisitPost par rank K c st (visit par fuel c st)

section
variable {par : Name → List Name} {rank : Name → Nat} {K : Name → Prop}

theorem visitParents_spec {fuel : Nat} (ih : VisitSpec par rank K fuel)
    (hK : ∀ c p, K c → p ∈ par c → K p)
    (c : Name) (temp0 : List Name) (hfuel : ∀ p ∈ par c, rank p < fuel) (hKc : K c)
    (hrk : ∀ p ∈ par c, rank p < rank c) (htemp0 : ∀ t ∈ temp0, rank c < rank t) :
    ∀ (ps : List Name), (∀ p ∈ ps, p ∈ par c) → ∀ s, Good par s → s.temp = c :: temp0 → (∀ x ∈ s.result, K x) →
      Good par (ps.foldl (fun s p => visit par fuel p s) s)
      ∧ (ps.foldl (fun s p => visit par fuel p s) s).temp = c :: temp0
      ∧ (∀ p ∈ ps, p ∈ (ps.foldl (fun s p => visit par fuel p s) s).result)
      ∧ (∀ x ∈ s.result, x ∈ (ps.foldl (fun s p => visit par fuel p s) s).result)
      ∧ (∀ x ∈ (ps.foldl (fun s p => visit par fuel p s) s).result, K x)
      ∧ (∀ x ∈ (ps.foldl (fun s p => visit par fuel p s) s).result, x ∈ s.result ∨ rank x < rank c) := by
  intro ps
  induction ps with
  | nil =>
    intro _ s hg ht hk
    exact ⟨hg, ht, by simp, fun x h => h, hk, fun x h => Or.inl h⟩
  | cons p ps ihps =>
    intro hps s hg ht hk
    have hp : p ∈ par c := hps p (by simp)
    have post := ih p s (hfuel p hp) (hK c p hKc hp) hg hk (by
      intro t htm
      rw [ht] at htm
      rcases List.mem_cons.mp htm with rfl | h
      · exact hrk p hp
      · have := htemp0 t h
        have := hrk p hp
        omega)
    have rest := ihps (fun q hq => hps q (by simp [hq])) (visit par fuel p s) post.good
      (by rw [post.temp, ht]) post.known
    simp only [List.foldl_cons]
    obtain ⟨r1, r2, r3, r4, r5, r6⟩ := rest
    refine ⟨r1, r2, ?_, fun x hx => r4 x (post.mono x hx), r5, ?_⟩
    · intro q hq
      rcases List.mem_cons.mp hq with rfl | h
      · exact r4 _ post.mem
      · exact r3 q h
    · intro x hx
      rcases r6 x hx with h | h
      · rcases post.fresh x h with h' | h'
        · exact Or.inl h'
        · have := hrk p hp
          exact Or.inr (by omega)
      · exact Or.inr h

theorem visit_spec (hrank : ∀ c p, p ∈ par c → rank p < rank c) (hK : ∀ c p, K c → p ∈ par c → K p) :
    ∀ fuel, VisitSpec par rank K fuel := by
  intro fuel
  induction fuel with
  | zero => intro c st hf; omega
  | succ fuel ih =>
    intro c st hf hKc hg hres htemp
    have h1 : st.cycle.isSome = false := by simp [hg.noCycle]
    by_cases hc : c ∈ st.result
    · have : visit par (fuel + 1) c st = st := by
        simp only [visit, h1, hc, if_true]
        simp
      rw [this]
      exact ⟨hg, rfl, hc, fun x h => h, hres, fun x h => Or.inl h⟩
    · have hct : c ∉ st.temp := fun h => by have := htemp c h; omega
      have hv : visit par (fuel + 1) c st =
          { (par c).foldl (fun s p => visit par fuel p s) { st with temp := c :: st.temp } with
            temp := ((par c).foldl (fun s p => visit par fuel p s) { st with temp := c :: st.temp }).temp.erase c,
            result := ((par c).foldl (fun s p => visit par fuel p s) { st with temp := c :: st.temp }).result ++ [c] } := by
        simp only [visit, h1, hc, hct, if_false]
        simp
      rw [hv]
      have hg1 : Good par { st with temp := c :: st.temp } := ⟨hg.noCycle, hg.noFuel, hg.nodup, hg.sorted⟩
      obtain ⟨r1, r2, r3, r4, r5, r6⟩ := visitParents_spec ih hK c st.temp
        (fun p hp => by have := hrank c p hp; omega) hKc (fun p hp => hrank c p hp) htemp
        (par c) (fun p hp => hp) { st with temp := c :: st.temp } hg1 rfl hres
      have hcn : c ∉ ((par c).foldl (fun s p => visit par fuel p s) { st with temp := c :: st.temp }).result := by
        intro h
        rcases r6 c h with h' | h'
        · exact hc h'
        · omega
      refine ⟨⟨r1.noCycle, r1.noFuel, ?_, r1.sorted.concat r3⟩, ?_, by simp, ?_, ?_, ?_⟩
      · show (_ ++ [c]).Nodup
        rw [List.nodup_append]
        refine ⟨r1.nodup, by simp, ?_⟩
        intro a ha b hb
        simp at hb
        subst hb
        intro hab
        subst hab
        exact hcn ha
      · show List.erase _ c = st.temp
        rw [r2]
        simp
      · intro x hx
        show x ∈ _ ++ [c]
        exact List.mem_append_left _ (r4 x hx)
      · intro x hx
        have hx' : x ∈ _ ++ [c] := hx
        rcases List.mem_append.mp hx' with h | h
        · exact r5 x h
        · simp at h; subst h; exact hKc
      · intro x hx
        have hx' : x ∈ _ ++ [c] := hx
        rcases List.mem_append.mp hx' with h | h
        · rcases r6 x h with h' | h'
          · exact Or.inl h'
          · exact Or.inr (by omega)
        · simp at h; subst h; exact Or.inr (Nat.le_refl _)

theorem topoLoop_spec (hrank : ∀ c p, p ∈ par c → rank p < rank c) (hK : ∀ c p, K c → p ∈ par c → K p)
    (fuel : Nat) :
    ∀ (ns : List Name) (st : TState), (∀ n ∈ ns, K n ∧ rank n < fuel) → Good par st → st.temp = [] →
      (∀ x ∈ st.result, K x) →
      Good par (topoLoop par fuel ns st) ∧ (topoLoop par fuel ns st).temp = []
      ∧ (∀ n ∈ ns, n ∈ (topoLoop par fuel ns st).result)
      ∧ (∀ x ∈ st.result, x ∈ (topoLoop par fuel ns st).result)
      ∧ (∀ x ∈ (topoLoop par fuel ns st).result, K x) := by
  intro ns
  induction ns with
  | nil => intro st _ hg ht hk; exact ⟨hg, ht, by simp, fun x h => h, hk⟩
  | cons n ns ih =>
    intro st hns hg ht hk
    have h1 : st.cycle.isSome = false := by simp [hg.noCycle]
    by_cases hn : n ∈ st.result
    · have : topoLoop par fuel (n :: ns) st = topoLoop par fuel ns st := by
        simp only [topoLoop, h1, hn, if_true]
        simp
      rw [this]
      obtain ⟨r1, r2, r3, r4, r5⟩ := ih st (fun m hm => hns m (by simp [hm])) hg ht hk
      refine ⟨r1, r2, ?_, r4, r5⟩
      intro m hm
      rcases List.mem_cons.mp hm with rfl | h
      · exact r4 _ hn
      · exact r3 m h
    · have : topoLoop par fuel (n :: ns) st = topoLoop par fuel ns (visit par fuel n st) := by
        simp only [topoLoop, h1, hn, if_false]
        simp
      rw [this]
      have post := visit_spec hrank hK fuel n st (hns n (by simp)).2 (hns n (by simp)).1 hg hk
        (by rw [ht]; simp)
      obtain ⟨r1, r2, r3, r4, r5⟩ := ih (visit par fuel n st) (fun m hm => hns m (by simp [hm])) post.good
        (by rw [post.temp, ht]) post.known
      refine ⟨r1, r2, ?_, fun x hx => r4 x (post.mono x hx), r5⟩
      intro m hm
      rcases List.mem_cons.mp hm with rfl | h
      · exact r4 _ post.mem
      · exact r3 m h

end

theorem mem_insertSorted {n x : Name} {l : List Name} : x ∈ insertSorted n l ↔ x = n ∨ x ∈ l := by
  induction l with
  | nil => simp [insertSorted]
  | cons m ms ih =>
    unfold insertSorted
    split
    · simp
    · simp only [List.mem_cons, ih]
      constructor
      · rintro (h | h | h)
        · exact Or.inr (Or.inl h)
        · exact Or.inl h
        · exact Or.inr (Or.inr h)
      · rintro (h | h | h)
        · exact Or.inr (Or.inl h)
        · exact Or.inl h
        · exact Or.inr (Or.inr h)

theorem mem_sortNames {x : Name} {l : List Name} : x ∈ sortNames l ↔ x ∈ l := by
  unfold sortNames
  induction l with
  | nil => simp
  | cons n ns ih => simp only [List.foldr_cons, mem_insertSorted, ih, List.mem_cons]

/-- On an acyclic hierarchy the sort ends without a cycle report, within the budget, and with a
topological order of all classes. -/
theorem topoState_spec {cs : List ParsedClass} (hu : UniqueNames cs) (hp : ParentsExist cs) (ha : Acyclic cs) :
    (topoState cs).cycle = none ∧ (topoState cs).outOfFuel = false ∧ IsTopoOrder cs (topo cs) := by
  obtain ⟨w, hw⟩ := ha
  have hwnd := hw.nodup hu
  have hlen : w.length = cs.length := by
    have := hw.perm.length_eq
    simpa [names] using this
  have spec := topoLoop_spec (par := parentsOf cs) (rank := pos w) (K := fun n => n ∈ names cs)
    (by
      intro c p h
      exact pos_parent_lt hwnd hw.sorted (hw.mem.mpr (mem_names_of_parent h)) h)
    (by
      intro c p _ h
      exact parent_mem_names hp h)
    (cs.length + 1) (sortNames (names cs)) ⟨[], [], none, false⟩
    (by
      intro n hn
      have hn' : n ∈ names cs := mem_sortNames.mp hn
      refine ⟨hn', ?_⟩
      have := pos_lt_length (hw.mem.mpr hn')
      omega)
    ⟨rfl, rfl, List.nodup_nil, TopoSorted.nil _⟩ rfl (by simp)
  obtain ⟨r1, _, r3, _, r5⟩ := spec
  refine ⟨r1.noCycle, r1.noFuel, ?_, r1.sorted⟩
  unfold topo topoState
  rw [List.perm_ext_iff_of_nodup r1.nodup hu]
  intro a
  constructor
  · exact r5 a
  · intro h
    exact r3 a (mem_sortNames.mpr h)

end AasVerif.Hier

namespace AasVerif.Hier

theorem firstNotTopo_none {par : Name → List Name} :
    ∀ (l obs : List Name), firstNotTopo par obs l = none →
      ∀ l1 c l2, l = l1 ++ c :: l2 → ∀ p ∈ par c, p ∈ obs ∨ p ∈ l1 := by
  intro l
  induction l with
  | nil => intro obs _ l1 c l2 hs; simp at hs
  | cons x l ih =>
    intro obs h l1 c l2 hs p hp
    unfold firstNotTopo at h
    split at h
    · next hall =>
      cases l1 with
      | nil =>
        simp only [List.nil_append, List.cons.injEq] at hs
        obtain ⟨rfl, _⟩ := hs
        exact Or.inl (by simpa using (List.all_eq_true.mp hall) p hp)
      | cons y l1 =>
        simp only [List.cons_append, List.cons.injEq] at hs
        obtain ⟨rfl, hs⟩ := hs
        rcases ih (obs ++ [x]) h l1 c l2 hs p hp with h' | h'
        · simp only [List.mem_append, List.mem_singleton] at h'
          rcases h' with h' | rfl
          · exact Or.inl h'
          · exact Or.inr (by simp)
        · exact Or.inr (by simp [h'])
    · cases h

/-- A decidable certificate of acyclicity: a permutation of the class names that passes the code's own
`first_not_in_topological_order` check. -/
theorem acyclic_of_certificate {cs : List ParsedClass} (order : List Name)
    (hperm : order.Perm (names cs)) (hsorted : firstNotTopo (parentsOf cs) [] order = none) : Acyclic cs := by
  refine ⟨order, hperm, ?_⟩
  intro l1 c l2 hs p hp
  rcases firstNotTopo_none order [] hsorted l1 c l2 hs p hp with h | h
  · simp at h
  · exact h

end AasVerif.Hier
