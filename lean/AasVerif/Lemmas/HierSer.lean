import AasVerif.Lemmas.HierSpec
/-!
Passes that may refuse a class (`foldUpdE`): the serialization setting `with_model_type`
and the methods.
-/
namespace AasVerif.Hier

section StateE
variable {β : Type}

def foldUpdEFrom (d : Name → β) (F : (Name → β) → Name → Option β × Bool) (s0 : List (Name × β) × Bool)
    (xs : List Name) : List (Name × β) × Bool :=
  xs.foldl (fun (s : List (Name × β) × Bool) x =>
    match F (get d s.1) x with
    | (some v, e) => ((x, v) :: s.1, s.2 || e)
    | (none, e) => (s.1, s.2 || e)) s0

theorem foldUpdE_eq_from (d : Name → β) (F : (Name → β) → Name → Option β × Bool) (xs : List Name) :
    foldUpdE d F xs = foldUpdEFrom d F ([], false) xs := rfl

theorem foldUpdEFrom_append (d : Name → β) (F : (Name → β) → Name → Option β × Bool) (s0 : List (Name × β) × Bool)
    (xs ys : List Name) :
    foldUpdEFrom d F s0 (xs ++ ys) = foldUpdEFrom d F (foldUpdEFrom d F s0 xs) ys := by
  unfold foldUpdEFrom
  rw [List.foldl_append]

/-- one step of the pass -/
def stepE (d : Name → β) (F : (Name → β) → Name → Option β × Bool) (s : List (Name × β) × Bool) (x : Name) :
    List (Name × β) × Bool :=
  match F (get d s.1) x with
  | (some v, e) => ((x, v) :: s.1, s.2 || e)
  | (none, e) => (s.1, s.2 || e)

theorem foldUpdEFrom_cons (d : Name → β) (F : (Name → β) → Name → Option β × Bool) (s0 : List (Name × β) × Bool)
    (x : Name) (xs : List Name) :
    foldUpdEFrom d F s0 (x :: xs) = foldUpdEFrom d F (stepE d F s0 x) xs := rfl

theorem get_stepE_of_ne (d : Name → β) (F : (Name → β) → Name → Option β × Bool) (s : List (Name × β) × Bool)
    (x n : Name) (h : n ≠ x) : get d (stepE d F s x).1 n = get d s.1 n := by
  unfold stepE
  split <;> simp [h]

theorem flag_stepE (d : Name → β) (F : (Name → β) → Name → Option β × Bool) (s : List (Name × β) × Bool)
    (x : Name) : (stepE d F s x).2 = (s.2 || (F (get d s.1) x).2) := by
  unfold stepE
  split <;> next h => simp [h]

theorem get_foldUpdEFrom_of_not_mem (d : Name → β) (F : (Name → β) → Name → Option β × Bool)
    (xs : List Name) (s0 : List (Name × β) × Bool) (n : Name) (h : n ∉ xs) :
    get d (foldUpdEFrom d F s0 xs).1 n = get d s0.1 n := by
  induction xs generalizing s0 with
  | nil => rfl
  | cons x xs ih =>
    simp only [List.mem_cons, not_or] at h
    rw [foldUpdEFrom_cons, ih _ h.2, get_stepE_of_ne _ _ _ _ _ h.1]

theorem flag_mono (d : Name → β) (F : (Name → β) → Name → Option β × Bool)
    (xs : List Name) (s0 : List (Name × β) × Bool) (h : s0.2 = true) : (foldUpdEFrom d F s0 xs).2 = true := by
  induction xs generalizing s0 with
  | nil => exact h
  | cons x xs ih =>
    rw [foldUpdEFrom_cons]
    apply ih
    rw [flag_stepE, h]
    rfl

/-- If the pass ends without a reported error, every visited class got the value the pass computes from the
final state, and that computation reported no error. -/
theorem foldUpdE_spec (d : Name → β) (F : (Name → β) → Name → Option β × Bool) (deps : Name → List Name)
    (xs : List Name) (hnd : xs.Nodup)
    (hloc : ∀ x st st', (∀ p ∈ deps x, st p = st' p) → F st x = F st' x)
    (htopo : ∀ l1 x l2, xs = l1 ++ x :: l2 → ∀ p ∈ deps x, p ∉ (x :: l2))
    (hok : (foldUpdE d F xs).2 = false) :
    ∀ x ∈ xs, (F (get d (foldUpdE d F xs).1) x).2 = false
      ∧ get d (foldUpdE d F xs).1 x = ((F (get d (foldUpdE d F xs).1) x).1).getD (d x) := by
  intro x hx
  obtain ⟨l1, l2, hsplit⟩ := List.append_of_mem hx
  have hnd' : (l1 ++ x :: l2).Nodup := hsplit ▸ hnd
  have hx1 : x ∉ l1 := by
    rw [List.nodup_append] at hnd'
    intro h
    exact hnd'.2.2 x h x (by simp) rfl
  have hx2 : x ∉ l2 := by
    rw [List.nodup_append] at hnd'
    exact (List.nodup_cons.mp hnd'.2.1).1
  rw [foldUpdE_eq_from] at hok ⊢
  generalize hs1 : foldUpdEFrom d F ([], false) l1 = s1 at *
  have efin : foldUpdEFrom d F ([], false) xs = foldUpdEFrom d F (stepE d F s1 x) l2 := by
    rw [hsplit, foldUpdEFrom_append, hs1, foldUpdEFrom_cons]
  -- the final state agrees with the state before `x` on everything `x` reads
  have hagree : F (get d (foldUpdEFrom d F ([], false) xs).1) x = F (get d s1.1) x := by
    apply hloc
    intro p hp
    have hp' := htopo l1 x l2 hsplit p hp
    have : foldUpdEFrom d F ([], false) xs = foldUpdEFrom d F s1 (x :: l2) := by
      rw [hsplit, foldUpdEFrom_append, hs1]
    rw [this, get_foldUpdEFrom_of_not_mem _ _ _ _ _ hp']
  rw [hagree]
  have hflag : (F (get d s1.1) x).2 = false := by
    cases hf : (F (get d s1.1) x).2 with
    | false => rfl
    | true =>
      have : (stepE d F s1 x).2 = true := by rw [flag_stepE, hf]; simp
      have := flag_mono d F l2 _ this
      rw [← efin, hok] at this
      cases this
  refine ⟨hflag, ?_⟩
  rw [efin, get_foldUpdEFrom_of_not_mem _ _ _ _ _ hx2]
  have hs1x : get d s1.1 x = d x := by
    rw [← hs1, get_foldUpdEFrom_of_not_mem _ _ _ _ _ hx1]
    rfl
  unfold stepE
  split
  · next v e hF => simp [hF]
  · next e hF => simp [hF, hs1x]

end StateE

/-! ## `with_model_type` -/

section Ser
variable {par : Name → List Name} {own : Name → Option Bool} {order : List Name}

theorem filterMap_congr' {α γ : Type} {l : List α} {f g : α → Option γ} (h : ∀ x ∈ l, f x = g x) :
    l.filterMap f = l.filterMap g := by
  induction l with
  | nil => rfl
  | cons x xs ih =>
    simp only [List.filterMap_cons]
    rw [h x (by simp), ih (fun y hy => h y (by simp [hy]))]

theorem serF_local (x : Name) (st st' : Name → Option Bool) (h : ∀ p ∈ par x, st p = st' p) :
    serF par own st x = serF par own st' x := by
  unfold serF
  rw [filterMap_congr' h]

/-- If a parent ends up with `with_model_type = True` and no inconsistency was reported, so does the child. -/
theorem ser_parent_child (hnd : order.Nodup) (hts : TopoSorted par order)
    (hok : (stackSer par own order).2 = false) {c p : Name} (hc : c ∈ order) (hp : p ∈ par c)
    (hpt : get own (stackSer par own order).1 p = some true) :
    get own (stackSer par own order).1 c = some true := by
  unfold stackSer at *
  have := foldUpdE_spec own (serF par own) par order hnd (fun x st st' h => serF_local x st st' h)
    (fun l1 x l2 hs q hq => hts.not_after hnd hs hq) hok c hc
  obtain ⟨hflag, hval⟩ := this
  rw [hval]
  generalize hfin : get own (foldUpdE own (serF par own) order).1 = fin at *
  have hmem : some true ∈ ((par c).filterMap fin ++ (own c).toList).map some := by
    apply List.mem_map.mpr
    refine ⟨true, ?_, rfl⟩
    apply List.mem_append_left
    exact List.mem_filterMap.mpr ⟨p, hp, hpt⟩
  unfold serF at hflag ⊢
  cases hw : (par c).filterMap fin ++ (own c).toList with
  | nil => rw [hw] at hmem; simp at hmem
  | cons first rest =>
    rw [hw] at hmem
    simp only [hw] at hflag ⊢
    by_cases hany : rest.any (· != first) = true
    · simp [hany] at hflag
    · simp only [hany]
      simp only [List.map_cons, List.mem_cons, Option.some.injEq, List.mem_map, exists_eq_right] at hmem
      rcases hmem with h | h
      · simp [← h]
      · have : ¬ (true != first) = true := by
          intro hne
          exact hany (List.any_eq_true.mpr ⟨true, h, hne⟩)
        have : first = true := by
          cases first <;> simp_all
        simp [this]

/-- **Model type propagates down**: below a class with `with_model_type` every descendant has it. -/
theorem ser_descends (hnd : order.Nodup) (hts : TopoSorted par order) (hcov : Covers par order)
    (hok : (stackSer par own order).2 = false) {c d : Name}
    (h : Relation.TransGen (ParentRel par) c d)
    (hct : finalWmt (get own (stackSer par own order).1) c = true) :
    finalWmt (get own (stackSer par own order).1) d = true := by
  have conv : ∀ n, finalWmt (get own (stackSer par own order).1) n = true
      ↔ get own (stackSer par own order).1 n = some true := by
    intro n
    unfold finalWmt
    cases get own (stackSer par own order).1 n with
    | none => simp
    | some b => cases b <;> simp
  rw [conv] at hct ⊢
  induction h with
  | single h1 => exact ser_parent_child hnd hts hok (hcov _ _ h1).1 h1 hct
  | tail _ h2 ih => exact ser_parent_child hnd hts hok (hcov _ _ h2).1 h2 ih

end Ser

end AasVerif.Hier
