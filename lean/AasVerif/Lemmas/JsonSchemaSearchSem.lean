import AasVerif.Model.JsonSchemaMatch
import AasVerif.Lemmas.RetreeSem
/-!
The continuation-passing matcher of `Model/JsonSchemaMatch.lean` against the denotational semantics
`Retree.Sem`, part 1: what the answers `yes` and `no` mean, for ANY fuel.

For a matcher `m pre rest k` (try every way to match a prefix `s` of `rest` in the context
`pre … rest`, call `k (pre ++ s) rest'`) and the relation `Rel pre s post` it implements:

* `Sound m Rel`: the answer `yes` comes from a match on which the continuation said `yes`;
* `Exhaustive m Rel`: the answer `no` means that the continuation said `no` on EVERY match
  (an exhausted branch answers `out`, never `no`).

Both hold for all six mutually recursive functions at every fuel (induction on the fuel).  The pruning
in `mRep` (an optional iteration that consumes nothing is not tried) loses no match: `MRep_zero_strip`.
-/
namespace AasVerif.JsonSchema
open AasVerif AasVerif.Retree

/-! ### The three-valued disjunction -/

theorem orElse_yes_iff {a : R} {b : Unit → R} : R.orElse a b = .yes ↔ a = .yes ∨ b () = .yes := by
  cases a <;> simp only [R.orElse] <;> cases b () <;> simp

theorem orElse_no_iff {a : R} {b : Unit → R} : R.orElse a b = .no ↔ a = .no ∧ b () = .no := by
  cases a <;> simp only [R.orElse] <;> cases b () <;> simp

theorem orElse_ne_out {a : R} {b : Unit → R} (ha : a ≠ .out) (hb : b () ≠ .out) : R.orElse a b ≠ .out := by
  cases a <;> simp only [R.orElse] <;> cases hb' : b () <;> simp_all

/-! ### Repetitions with an unbounded-or-larger maximum, and without empty optional iterations -/

/-- one more iteration allowed does not lose a repetition -/
theorem MRep_of_decMax {v : Value} {mn : Nat} {mx0 : Option Nat} {pre s post : Text}
    (h : MRep v mn mx0 pre s post) : ∀ mx, mx0 = decMax mx → MRep v mn mx pre s post := by
  refine MRep.induct (P := fun v mn mx0 pre s post => ∀ mx, mx0 = decMax mx → MRep v mn mx pre s post) ?_ ?_ h
  · intro v mx0 pre post mx _
    exact .done v mx pre post
  · intro v mn mx0 pre s₁ s₂ post h0 h1 _ ih mx hmx
    refine .more v mn mx pre s₁ s₂ post ?_ h1 (ih (decMax mx) (by rw [hmx]))
    intro h
    subst h
    exact h0 hmx

/-- **The pruning of `mRep` is complete**: a repetition with minimum 0 is empty, or starts with a
NON-EMPTY iteration followed by a repetition with minimum 0. -/
theorem MRep_zero_strip {v : Value} {mn : Nat} {mx : Option Nat} {pre s post : Text}
    (h : MRep v mn mx pre s post) : mn = 0 →
      s = [] ∨ ∃ s₁ s₂, s₁ ≠ [] ∧ s = s₁ ++ s₂ ∧ mx ≠ some 0 ∧ MValue v pre s₁ (s₂ ++ post) ∧
        MRep v 0 (decMax mx) (pre ++ s₁) s₂ post := by
  refine MRep.induct (P := fun v mn mx pre s post => mn = 0 →
      s = [] ∨ ∃ s₁ s₂, s₁ ≠ [] ∧ s = s₁ ++ s₂ ∧ mx ≠ some 0 ∧ MValue v pre s₁ (s₂ ++ post) ∧
        MRep v 0 (decMax mx) (pre ++ s₁) s₂ post) ?_ ?_ h
  · intro v mx pre post _
    exact .inl rfl
  · intro v mn mx pre s₁ s₂ post h0 h1 h2 ih hmn
    subst hmn
    by_cases he : s₁ = []
    · subst he
      rcases ih rfl with h | ⟨a, b, ha, hs, _, hv, hr⟩
      · left; simp [h]
      · right
        refine ⟨a, b, ha, by simpa using hs, h0, by simpa using hv, ?_⟩
        have := MRep_of_decMax hr (decMax mx) rfl
        simpa using this
    · exact .inr ⟨s₁, s₂, he, rfl, h0, h1, h2⟩

/-! ### The two readings of an answer -/

/-- a matcher in continuation-passing style -/
abbrev Matcher := Text → Text → K → R

def Sound (m : Matcher) (Rel : Text → Text → Text → Prop) : Prop :=
  ∀ pre rest k, m pre rest k = .yes → ∃ s r', rest = s ++ r' ∧ Rel pre s r' ∧ k (pre ++ s) r' = .yes

def Exhaustive (m : Matcher) (Rel : Text → Text → Text → Prop) : Prop :=
  ∀ pre rest k, m pre rest k = .no → ∀ s r', rest = s ++ r' → Rel pre s r' → k (pre ++ s) r' = .no

/-- some alternative matches -/
def MAlts (cs : List Concat) (pre s post : Text) : Prop := ∃ ts, Concat.mk ts ∈ cs ∧ MTerms ts pre s post

/-- what is known at fuel `n` -/
structure Spec (n : Nat) : Prop where
  sV : ∀ v, Sound (mValue n v) (MValue v)
  sR : ∀ v mn mx, Sound (mRep n v mn mx) (MRep v mn mx)
  sT : ∀ t, Sound (mTerm n t) (MTerm t)
  sTs : ∀ ts, Sound (mTerms n ts) (MTerms ts)
  sA : ∀ cs, Sound (mAlts n cs) (MAlts cs)
  sU : ∀ u, Sound (mUnion n u) (MUnion u)
  eV : ∀ v, Exhaustive (mValue n v) (MValue v)
  eR : ∀ v mn mx, Exhaustive (mRep n v mn mx) (MRep v mn mx)
  eT : ∀ t, Exhaustive (mTerm n t) (MTerm t)
  eTs : ∀ ts, Exhaustive (mTerms n ts) (MTerms ts)
  eA : ∀ cs, Exhaustive (mAlts n cs) (MAlts cs)
  eU : ∀ u, Exhaustive (mUnion n u) (MUnion u)

theorem spec_zero : Spec 0 := by
  constructor <;> intros <;> intro pre rest k h <;> simp [mValue, mRep, mTerm, mTerms, mAlts, mUnion] at h

/-! ### Soundness, one step of fuel -/

theorem sV_step {n : Nat} (ih : Spec n) (v : Value) : Sound (mValue (n + 1) v) (MValue v) := by
  intro pre rest k h
  cases v with
  | group u =>
    simp only [mValue] at h
    obtain ⟨s, r', hs, hm, hk⟩ := ih.sU u pre rest k h
    exact ⟨s, r', hs, MValue_group_iff.mpr hm, hk⟩
  | char c =>
    simp only [mValue] at h
    cases rest with
    | nil => cases h
    | cons x r =>
      simp only at h
      split at h
      · next hx => subst hx; exact ⟨[c.code], r, rfl, .char c _ _, h⟩
      · cases h
  | set compl rs =>
    simp only [mValue] at h
    cases rest with
    | nil => cases h
    | cons x r =>
      simp only at h
      split at h
      · next hx => exact ⟨[x], r, rfl, .set compl rs x _ _ hx, h⟩
      · cases h
  | fv i => simp [mValue] at h
  | sym sk =>
    cases sk with
    | dot =>
      simp only [mValue] at h
      cases rest with
      | nil => cases h
      | cons x r =>
        simp only at h
        split at h
        · next hx => exact ⟨[x], r, rfl, .dot x _ _ hx, h⟩
        · cases h
    | start =>
      simp only [mValue] at h
      split at h
      · next hp =>
        rw [List.isEmpty_iff] at hp
        subst hp
        exact ⟨[], rest, rfl, .start rest, h⟩
      · cases h
    | stop =>
      simp only [mValue] at h
      split at h
      · next hp =>
        refine ⟨[], rest, rfl, MValue_stop_iff.mpr ⟨rfl, ?_⟩, by simpa using h⟩
        simpa [List.isEmpty_iff] using hp
      · cases h

theorem sR_step {n : Nat} (ih : Spec n) (v : Value) (mn : Nat) (mx : Option Nat) :
    Sound (mRep (n + 1) v mn mx) (MRep v mn mx) := by
  intro pre rest k h
  simp only [mRep] at h
  rw [orElse_yes_iff] at h
  rcases h with h | h
  · split at h
    · cases h
    · next h0 =>
      obtain ⟨s₁, r₁, hs₁, hv, hk⟩ := ih.sV v pre rest _ h
      split at hk
      · cases hk
      · obtain ⟨s₂, r₂, hs₂, hr, hk'⟩ := ih.sR v _ _ _ _ _ hk
        subst hs₂
        refine ⟨s₁ ++ s₂, r₂, by rw [hs₁, List.append_assoc], .more v mn mx pre s₁ s₂ r₂ h0 hv hr, ?_⟩
        rw [← List.append_assoc]
        exact hk'
  · split at h
    · next h0 => subst h0; exact ⟨[], rest, rfl, .done v mx pre rest, by simpa using h⟩
    · cases h

theorem sT_step {n : Nat} (ih : Spec n) (t : Term) : Sound (mTerm (n + 1) t) (MTerm t) := by
  intro pre rest k h
  obtain ⟨v, q⟩ := t
  cases q with
  | none =>
    simp only [mTerm] at h
    obtain ⟨s, r', hs, hm, hk⟩ := ih.sV v pre rest k h
    exact ⟨s, r', hs, .plain v _ _ _ hm, hk⟩
  | some q =>
    simp only [mTerm] at h
    obtain ⟨s, r', hs, hm, hk⟩ := ih.sR v _ _ pre rest k h
    exact ⟨s, r', hs, .quant v q _ _ _ hm, hk⟩

theorem sTs_step {n : Nat} (ih : Spec n) (ts : List Term) : Sound (mTerms (n + 1) ts) (MTerms ts) := by
  intro pre rest k h
  cases ts with
  | nil =>
    simp only [mTerms] at h
    exact ⟨[], rest, rfl, .nil pre rest, by simpa using h⟩
  | cons t ts =>
    simp only [mTerms] at h
    obtain ⟨s₁, r₁, hs₁, hm₁, hk⟩ := ih.sT t pre rest _ h
    obtain ⟨s₂, r₂, hs₂, hm₂, hk'⟩ := ih.sTs ts _ _ k hk
    subst hs₂
    refine ⟨s₁ ++ s₂, r₂, by rw [hs₁, List.append_assoc], .cons t ts pre s₁ s₂ r₂ hm₁ hm₂, ?_⟩
    rw [← List.append_assoc]
    exact hk'

theorem sA_step {n : Nat} (ih : Spec n) (cs : List Concat) : Sound (mAlts (n + 1) cs) (MAlts cs) := by
  intro pre rest k h
  cases cs with
  | nil => simp [mAlts] at h
  | cons c cs =>
    obtain ⟨ts⟩ := c
    simp only [mAlts] at h
    rw [orElse_yes_iff] at h
    rcases h with h | h
    · obtain ⟨s, r', hs, hm, hk⟩ := ih.sTs ts pre rest k h
      exact ⟨s, r', hs, ⟨ts, List.mem_cons_self, hm⟩, hk⟩
    · obtain ⟨s, r', hs, ⟨ts', hmem, hm⟩, hk⟩ := ih.sA cs pre rest k h
      exact ⟨s, r', hs, ⟨ts', List.mem_cons_of_mem _ hmem, hm⟩, hk⟩

theorem sU_step {n : Nat} (ih : Spec n) (u : Union) : Sound (mUnion (n + 1) u) (MUnion u) := by
  intro pre rest k h
  obtain ⟨us⟩ := u
  simp only [mUnion] at h
  obtain ⟨s, r', hs, ⟨ts, hmem, hm⟩, hk⟩ := ih.sA us pre rest k h
  exact ⟨s, r', hs, .mk us ts pre s r' hmem hm, hk⟩

/-! ### Exhaustiveness, one step of fuel -/

theorem eV_step {n : Nat} (ih : Spec n) (v : Value) : Exhaustive (mValue (n + 1) v) (MValue v) := by
  intro pre rest k h s r' hs hm
  cases v with
  | group u =>
    simp only [mValue] at h
    exact ih.eU u pre rest k h s r' hs (MValue_group_iff.mp hm)
  | char c =>
    rw [MValue_char_iff] at hm
    subst hm; subst hs
    simpa [mValue] using h
  | set compl rs =>
    rw [MValue_set_iff] at hm
    obtain ⟨c, rfl, hc⟩ := hm
    subst hs
    simpa [mValue, hc] using h
  | fv i => exact absurd hm (by rw [MValue_fv_iff]; exact id)
  | sym sk =>
    cases sk with
    | dot =>
      rw [MValue_dot_iff] at hm
      obtain ⟨c, rfl, hc⟩ := hm
      subst hs
      simpa [mValue, hc] using h
    | start =>
      rw [MValue_start_iff] at hm
      obtain ⟨rfl, rfl⟩ := hm
      subst hs
      simpa [mValue] using h
    | stop =>
      rw [MValue_stop_iff] at hm
      obtain ⟨rfl, hp⟩ := hm
      simp only [List.nil_append] at hs
      subst hs
      rcases hp with rfl | rfl <;> simpa [mValue] using h

theorem eR_step {n : Nat} (ih : Spec n) (v : Value) (mn : Nat) (mx : Option Nat) :
    Exhaustive (mRep (n + 1) v mn mx) (MRep v mn mx) := by
  intro pre rest k h s r' hs hm
  simp only [mRep] at h
  rw [orElse_no_iff] at h
  obtain ⟨h1, h2⟩ := h
  by_cases hmn : mn = 0
  · -- minimum 0: empty, or a non-empty first iteration (which is not pruned)
    subst hmn
    rw [if_pos rfl] at h2
    rcases MRep_zero_strip hm rfl with he | ⟨s₁, s₂, hne, hs', h0, hv, hr⟩
    · subst he
      subst hs
      simpa using h2
    · rw [if_neg h0] at h1
      subst hs'
      have hk := ih.eV v pre rest _ h1 s₁ (s₂ ++ r') (by rw [hs, List.append_assoc]) hv
      have hlen : ¬ (0 = 0 ∧ (s₂ ++ r').length = rest.length) := by
        have : 0 < s₁.length := List.length_pos_iff.mpr hne
        rw [hs]
        simp only [List.length_append]
        omega
      rw [if_neg hlen] at hk
      have := ih.eR v _ _ _ _ k hk s₂ r' rfl hr
      rw [← List.append_assoc]
      exact this
  · -- minimum ≥ 1: nothing is pruned
    rw [MRep_iff] at hm
    rcases hm with ⟨h0, _⟩ | ⟨s₁, s₂, hs', h0, hv, hr⟩
    · exact absurd h0 hmn
    · rw [if_neg h0] at h1
      subst hs'
      have hk := ih.eV v pre rest _ h1 s₁ (s₂ ++ r') (by rw [hs, List.append_assoc]) hv
      have hlen : ¬ (mn = 0 ∧ (s₂ ++ r').length = rest.length) := fun hc => hmn hc.1
      rw [if_neg hlen] at hk
      have := ih.eR v _ _ _ _ k hk s₂ r' rfl hr
      rw [← List.append_assoc]
      exact this

theorem eT_step {n : Nat} (ih : Spec n) (t : Term) : Exhaustive (mTerm (n + 1) t) (MTerm t) := by
  intro pre rest k h s r' hs hm
  obtain ⟨v, q⟩ := t
  cases q with
  | none =>
    simp only [mTerm] at h
    exact ih.eV v pre rest k h s r' hs (MTerm_plain_iff.mp hm)
  | some q =>
    simp only [mTerm] at h
    exact ih.eR v _ _ pre rest k h s r' hs (MTerm_quant_iff.mp hm)

theorem eTs_step {n : Nat} (ih : Spec n) (ts : List Term) : Exhaustive (mTerms (n + 1) ts) (MTerms ts) := by
  intro pre rest k h s r' hs hm
  cases ts with
  | nil =>
    rw [MTerms_nil_iff] at hm
    subst hm; subst hs
    simpa [mTerms] using h
  | cons t ts =>
    simp only [mTerms] at h
    rw [MTerms_cons_iff] at hm
    obtain ⟨s₁, s₂, rfl, h1, h2⟩ := hm
    have hk := ih.eT t pre rest _ h s₁ (s₂ ++ r') (by rw [hs, List.append_assoc]) h1
    have := ih.eTs ts _ _ k hk s₂ r' rfl h2
    rw [← List.append_assoc]
    exact this

theorem eA_step {n : Nat} (ih : Spec n) (cs : List Concat) : Exhaustive (mAlts (n + 1) cs) (MAlts cs) := by
  intro pre rest k h s r' hs hm
  obtain ⟨ts', hmem, hm⟩ := hm
  cases cs with
  | nil => simp at hmem
  | cons c cs =>
    obtain ⟨ts⟩ := c
    simp only [mAlts] at h
    rw [orElse_no_iff] at h
    rcases List.mem_cons.mp hmem with he | hmem
    · injection he with he
      subst he
      exact ih.eTs ts' pre rest k h.1 s r' hs hm
    · exact ih.eA cs pre rest k h.2 s r' hs ⟨ts', hmem, hm⟩

theorem eU_step {n : Nat} (ih : Spec n) (u : Union) : Exhaustive (mUnion (n + 1) u) (MUnion u) := by
  intro pre rest k h s r' hs hm
  obtain ⟨us⟩ := u
  simp only [mUnion] at h
  rw [MUnion_iff] at hm
  exact ih.eA us pre rest k h s r' hs hm

/-- **Both readings hold at every fuel.** -/
theorem spec_all : ∀ n, Spec n
  | 0 => spec_zero
  | n + 1 =>
    have ih := spec_all n
    ⟨sV_step ih, sR_step ih, sT_step ih, sTs_step ih, sA_step ih, sU_step ih,
     eV_step ih, eR_step ih, eT_step ih, eTs_step ih, eA_step ih, eU_step ih⟩

end AasVerif.JsonSchema
