import AasVerif.Lemmas.LexPy
/-!
The Python docstring: the escaped text of `python/description.py:docstring`
(`text.replace("\\", "\\\\").replace('"""', '\\"\\"\\"')`) between the triple quotes is scanned by
the tokenizer model `lexPy` as ONE string token, whatever the text is (induction over the text).

`esc t = r3 (r1 t)` is cut into chunks at the front of `t`:
a backslash (→ `\\`), three quotes (→ `\"\"\"`), any other character (copied).
-/
namespace AasVerif.Lex
open AasVerif.Descr

/-- `escaped` of `docstring` -/
def esc (t : Text) : Text := r3 (r1 t)

/-- What the tokenizer makes of the line ends inside a string (universal newlines): CR LF and CR are LF. -/
def pyNl : Text → Text
  | [] => []
  | 13 :: 10 :: r => 10 :: pyNl r
  | c :: r => (if c = 13 then 10 else c) :: pyNl r

theorem pyNl_cons (c : Nat) (x : Text) (h : c ≠ 13) : pyNl (c :: x) = c :: pyNl x := by
  rw [pyNl]
  · simp [h]
  · intro r hc; exact absurd hc h

theorem pyNl_crlf (x : Text) : pyNl (13 :: 10 :: x) = 10 :: pyNl x := by
  rw [pyNl]

theorem pyNl_cr (x : Text) (h : ∀ r, x ≠ 10 :: r) : pyNl (13 :: x) = 10 :: pyNl x := by
  rw [pyNl]
  · simp
  · intro r _ hx; exact h r hx

theorem pyNl_id : ∀ (t : Text), (∀ x ∈ t, x ≠ 13) → pyNl t = t
  | [], _ => by simp [pyNl]
  | c :: r, h => by
    rw [pyNl_cons c r (h c (List.mem_cons_self ..)), pyNl_id r (fun x hx => h x (List.mem_cons_of_mem _ hx))]

theorem r1_nil : r1 [] = [] := by simp [r1, replaceAux]
theorem r3_nil : r3 [] = [] := by simp [r3, replaceAux]
theorem esc_nil : esc [] = [] := by simp [esc, r1_nil, r3_nil]

/-- `r1` does not create a pair of quotes. -/
theorem r1_qq (r x : Text) (h : r1 r = 34 :: 34 :: x) : ∃ r', r = 34 :: 34 :: r' := by
  match r with
  | [] => rw [r1_nil] at h; cases h
  | c :: r2 =>
    by_cases hc : c = 92
    · subst hc; rw [r1_bs] at h; cases h
    · rw [r1_other c r2 hc] at h
      have hc34 : c = 34 := by injection h
      have h2 : r1 r2 = 34 :: x := by injection h
      match r2 with
      | [] => rw [r1_nil] at h2; cases h2
      | d :: r3' =>
        by_cases hd : d = 92
        · subst hd; rw [r1_bs] at h2; cases h2
        · rw [r1_other d r3' hd] at h2
          have hd34 : d = 34 := by injection h2
          subst hc34; subst hd34
          exact ⟨r3', rfl⟩

theorem esc_bs (r : Text) : esc (92 :: r) = 92 :: 92 :: esc r := by
  unfold esc
  rw [r1_bs, r3_miss 92 _ (by intro h; exact absurd h.1 (by decide)),
    r3_miss 92 _ (by intro h; exact absurd h.1 (by decide))]

theorem esc_qqq (r : Text) : esc (34 :: 34 :: 34 :: r) = [92, 34, 92, 34, 92, 34] ++ esc r := by
  unfold esc
  rw [r1_other 34 _ (by decide), r1_other 34 _ (by decide), r1_other 34 _ (by decide), r3_hit]

theorem esc_copy (c : Nat) (r : Text) (h92 : c ≠ 92) (h : ¬ (c = 34 ∧ ∃ r', r = 34 :: 34 :: r')) :
    esc (c :: r) = c :: esc r := by
  unfold esc
  rw [r1_other c r h92, r3_miss c _ (by
    intro ⟨hc, x', hx⟩
    exact h ⟨hc, r1_qq r x' hx⟩)]

/-- The three ways the front of the text is escaped. -/
theorem esc_cons (c : Nat) (r : Text) :
    (c = 92 ∧ esc (c :: r) = 92 :: 92 :: esc r) ∨
    (c = 34 ∧ ∃ r', r = 34 :: 34 :: r' ∧ esc (c :: r) = [92, 34, 92, 34, 92, 34] ++ esc r') ∨
    (c ≠ 92 ∧ ¬ (c = 34 ∧ ∃ r', r = 34 :: 34 :: r') ∧ esc (c :: r) = c :: esc r) := by
  by_cases h92 : c = 92
  · subst h92; exact Or.inl ⟨rfl, esc_bs r⟩
  · by_cases hq : c = 34 ∧ ∃ r', r = 34 :: 34 :: r'
    · obtain ⟨hc, r', hr⟩ := hq
      subst hc; subst hr
      exact Or.inr (Or.inl ⟨rfl, r', rfl, esc_qqq r'⟩)
    · exact Or.inr (Or.inr ⟨h92, hq, esc_copy c r h92 hq⟩)

/-- The escaped text starts with the first character of the text or with a backslash. -/
theorem esc_head_ne (d : Nat) (r z : Text) (k : Nat) (hk : k ≠ 92) (hd : d ≠ k) :
    ∀ x', esc (d :: r) ++ z ≠ k :: x' := by
  intro x' h
  rcases esc_cons d r with ⟨_, he⟩ | ⟨_, r', _, he⟩ | ⟨_, _, he⟩
  · rw [he] at h; injection h with h1 _; exact hk h1.symm
  · rw [he] at h; injection h with h1 _; exact hk h1.symm
  · rw [he] at h; injection h with h1 _; exact hd h1

/-- The escaping keeps the last character. -/
theorem esc_getLast : ∀ (n : Nat) (t : Text), t.length ≤ n → (esc t).getLast? = t.getLast?
  | 0, t, h => by
    have : t = [] := List.eq_nil_of_length_eq_zero (Nat.le_zero.mp h)
    subst this; rw [esc_nil]
  | n + 1, [], _ => by rw [esc_nil]
  | n + 1, c :: r, h => by
    have hr : r.length ≤ n := by simp only [List.length_cons] at h; omega
    rcases esc_cons c r with ⟨hc, he⟩ | ⟨hc, r', hr', he⟩ | ⟨_, _, he⟩
    · subst hc
      rw [he, show (92 :: 92 :: esc r) = [92, 92] ++ esc r from rfl, List.getLast?_append,
        esc_getLast n r hr, show (92 :: r) = [92] ++ r from rfl, List.getLast?_append]
      rfl
    · subst hc; subst hr'
      have hr2 : r'.length ≤ n := by simp only [List.length_cons] at hr; omega
      rw [he, List.getLast?_append, esc_getLast n r' hr2,
        show (34 :: 34 :: 34 :: r') = [34, 34, 34] ++ r' from rfl, List.getLast?_append]
      rfl
    · rw [he, show (c :: esc r) = [c] ++ esc r from rfl, List.getLast?_append,
        esc_getLast n r hr, show (c :: r) = [c] ++ r from rfl, List.getLast?_append]

theorem endsWith_quote (x : Text) : endsWith [34] x = true ↔ x.getLast? = some 34 := by
  unfold endsWith
  rw [List.getLast?_eq_head?_reverse]
  cases x.reverse with
  | nil => simp
  | cons a _ =>
    simp [List.isPrefixOf]
    exact eq_comm

/-- A CR which is not followed by LF counts as LF. -/
theorem s3_cr (acc y : Text) (hne : y ≠ []) (h : ∀ r, y ≠ 10 :: r) :
    lexPy (.s3 34 acc false) (13 :: y) = lexPy (.s3 34 (10 :: acc) false) y := by
  match y with
  | [] => exact absurd rfl hne
  | [d] =>
    have hd : d ≠ 10 := fun e => h [] (by rw [e])
    rw [lexPy] <;> simp_all
  | d :: e :: x' =>
    have hd : d ≠ 10 := fun e' => h (e :: x') (by rw [e'])
    rw [lexPy] <;> simp_all

theorem s3_crlf (acc y : Text) :
    lexPy (.s3 34 acc false) (13 :: 10 :: y) = lexPy (.s3 34 (10 :: acc) false) y := by
  rw [lexPy]

theorem getLast?_tail (c : Nat) (r : Text) (h : r.getLast? = some 34) : (c :: r).getLast? = some 34 := by
  cases r with
  | nil => cases h
  | cons d r' => rw [List.getLast?_cons_cons]; exact h

/-- The closing delimiter (after an optional LF). -/
theorem s3_close (acc pl : Text) (hpl : pl = [] ∨ pl = [10]) :
    lexPy (.s3 34 acc false) (pl ++ [34, 34, 34]) = [.str (acc.reverse ++ pyNl pl)] := by
  rcases hpl with rfl | rfl <;> simp [lexPy, pyNl]

/-- A single quote of the text which is not the first of three: no triple quote is seen there. -/
theorem no_qq_after (pl : Text) (hpl : pl = [] ∨ pl = [10]) (r : Text)
    (hq : ¬ ∃ r', r = 34 :: 34 :: r')
    (hlast : (34 :: r).getLast? = some 34 → pl ≠ []) :
    ¬ ∃ x', esc r ++ (pl ++ [34, 34, 34]) = 34 :: 34 :: x' := by
  have hpl10 : (34 :: r).getLast? = some 34 → pl = [10] := by
    intro h
    rcases hpl with rfl | rfl
    · exact absurd rfl (hlast h)
    · rfl
  intro ⟨x', hx⟩
  match r with
  | [] =>
    have := hpl10 rfl
    subst this
    rw [esc_nil] at hx
    cases hx
  | [d] =>
    by_cases hd : d = 34
    · subst hd
      have := hpl10 rfl
      subst this
      rw [esc_copy 34 [] (by decide) (by intro ⟨_, r', h⟩; cases h), esc_nil] at hx
      cases hx
    · exact esc_head_ne d [] _ 34 (by decide) hd _ hx
  | d :: e :: r2 =>
    by_cases hd : d = 34
    · subst hd
      have he : e ≠ 34 := fun h => hq ⟨r2, by rw [h]⟩
      rw [esc_copy 34 (e :: r2) (by decide) (by intro ⟨_, r', h⟩; injection h with h1 _; exact he h1)] at hx
      injection hx with _ hx2
      exact esc_head_ne e r2 _ 34 (by decide) he _ hx2
    · exact esc_head_ne d (e :: r2) _ 34 (by decide) hd _ hx

/-- The scan of the escaped text inside a triple-quoted string: the accumulator receives the text
(line ends normalised), then the string is closed by the delimiter.  `pl` is what stands between
the text and the closing quotes (nothing or LF); a text ending in a quote needs `pl = LF`. -/
theorem s3_scan (pl : Text) (hpl : pl = [] ∨ pl = [10]) : ∀ (n : Nat) (t acc : Text), t.length ≤ n →
    (∀ x ∈ t, x ≠ 0) → (t.getLast? = some 34 → pl ≠ []) →
    lexPy (.s3 34 acc false) (esc t ++ (pl ++ [34, 34, 34])) = [.str (acc.reverse ++ pyNl (t ++ pl))]
  | _, [], acc, _, _, _ => by
    rw [esc_nil, List.nil_append, List.nil_append]
    exact s3_close acc pl hpl
  | 0, c :: r, _, h, _, _ => by simp at h
  | n + 1, c :: r, acc, h, h0, hlast => by
    have hr : r.length ≤ n := by simp only [List.length_cons] at h; omega
    have h0r : ∀ x ∈ r, x ≠ 0 := fun x hx => h0 x (List.mem_cons_of_mem _ hx)
    have hc0 : c ≠ 0 := h0 c (List.mem_cons_self ..)
    have hlastr : r.getLast? = some 34 → pl ≠ [] := fun hl => hlast (getLast?_tail c r hl)
    rcases esc_cons c r with ⟨hc, he⟩ | ⟨hc, r', hr', he⟩ | ⟨hc92, hcq, he⟩
    · -- a backslash
      subst hc
      rw [he, List.cons_append, List.cons_append, s3_esc acc _ 92 (Or.inl rfl),
        s3_scan pl hpl n r (92 :: acc) hr h0r hlastr, List.cons_append, pyNl_cons 92 _ (by decide)]
      simp
    · -- three quotes
      subst hc; subst hr'
      have hr2 : r'.length ≤ n := by simp only [List.length_cons] at hr; omega
      have h0r2 : ∀ x ∈ r', x ≠ 0 := fun x hx =>
        h0r x (List.mem_cons_of_mem _ (List.mem_cons_of_mem _ hx))
      have hlast2 : r'.getLast? = some 34 → pl ≠ [] := fun hl =>
        hlastr (getLast?_tail 34 _ (getLast?_tail 34 _ hl))
      rw [he]
      show lexPy (.s3 34 acc false) (92 :: 34 :: 92 :: 34 :: 92 :: 34 :: (esc r' ++ (pl ++ [34, 34, 34]))) = _
      rw [s3_esc acc _ 34 (Or.inr rfl), s3_esc _ _ 34 (Or.inr rfl), s3_esc _ _ 34 (Or.inr rfl),
        s3_scan pl hpl n r' _ hr2 h0r2 hlast2]
      simp only [List.cons_append]
      rw [pyNl_cons 34 _ (by decide), pyNl_cons 34 _ (by decide), pyNl_cons 34 _ (by decide)]
      simp
    · rw [he, List.cons_append]
      by_cases hc13 : c = 13
      · -- a carriage return
        subst hc13
        match r with
        | [] =>
          rw [esc_nil, List.nil_append]
          rcases hpl with rfl | rfl <;> simp [lexPy, pyNl]
        | d :: r2 =>
          by_cases hd : d = 10
          · subst hd
            have hr2 : r2.length ≤ n := by simp only [List.length_cons] at hr; omega
            rw [esc_copy 10 r2 (by decide) (by intro ⟨h', _⟩; exact absurd h' (by decide)),
              List.cons_append, s3_crlf,
              s3_scan pl hpl n r2 _ hr2 (fun x hx => h0r x (List.mem_cons_of_mem _ hx))
                (fun hl => hlastr (getLast?_tail 10 _ hl))]
            simp only [List.cons_append]
            rw [pyNl_crlf]
            simp
          · rw [s3_cr acc _ (by simp)
              (fun x' hx => esc_head_ne d r2 _ 10 (by decide) hd x' hx),
              s3_scan pl hpl n (d :: r2) _ hr h0r hlastr]
            simp only [List.cons_append]
            rw [pyNl_cr _ (by intro x' hx; injection hx with h1 _; exact hd h1)]
            simp
      · -- any other character, incl. a quote which does not start a run of three
        rw [s3_plain acc _ c hc0 hc13 hc92 (by
            intro ⟨hc34, x', hx⟩
            subst hc34
            exact no_qq_after pl hpl r (fun hq => hcq ⟨rfl, hq⟩) hlast ⟨x', hx⟩),
          s3_scan pl hpl n r _ hr h0r hlastr, List.cons_append, pyNl_cons c _ hc13]
        simp

end AasVerif.Lex
