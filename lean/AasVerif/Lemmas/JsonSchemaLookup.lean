import AasVerif.Lemmas.JsonSchemaGenerate
import AasVerif.Lemmas.JsonSchemaLeaf
/-!
Looking a definition up in the output of `generate`: the keys are unique (`Definitions.update_for`
refuses duplicates), so every definition a type contributes is what `lookup` finds under its name —
also after the final sort.  This discharges the look-up hypotheses of the class-level theorems for
`defs = generate mm`.
-/
namespace AasVerif.JsonSchema
open AasVerif AasVerif.Retree

theorem lookup_of_mem_nodup {α : Type} : ∀ (d : List (Text × α)) (k : Text) (v : α),
    (d.map (·.1)).Nodup → (k, v) ∈ d → lookup k d = some v := by
  intro d
  induction d with
  | nil => intro k v _ h; cases h
  | cons a d ih =>
    intro k v hn hm
    obtain ⟨k', v'⟩ := a
    simp only [List.map_cons, List.nodup_cons] at hn
    simp only [lookup]
    rcases List.mem_cons.mp hm with h | h
    · simp only [Prod.mk.injEq] at h
      rw [if_pos h.1.symm, h.2]
    · have hne : k' ≠ k := by
        intro heq
        exact hn.1 (List.mem_map.mpr ⟨(k, v), h, heq.symm⟩)
      rw [if_neg hne]
      exact ih k v hn.2 h

theorem addDefs_nodup : ∀ (ds : List (Text × Schema)) (defs defs' : Defs),
    addDefs defs ds = some defs' → (defs.map (·.1)).Nodup → (defs'.map (·.1)).Nodup := by
  intro ds
  induction ds with
  | nil => intro defs defs' h hn; simp only [addDefs, Option.some.injEq] at h; rw [← h]; exact hn
  | cons d ds ih =>
    intro defs defs' h hn
    obtain ⟨k, s⟩ := d
    simp only [addDefs] at h
    split at h
    · cases h
    · rename_i hk
      refine ih _ _ h ?_
      simp only [List.map_append, List.map_cons, List.map_nil]
      rw [List.nodup_append]
      refine ⟨hn, by simp, ?_⟩
      intro a ha b hb
      simp only [List.mem_singleton] at hb
      subst hb
      intro heq
      subst heq
      exact hk ((hasKey_iff _ _).mpr ha)

/-- everything `collect` gathers is in its result, and the keys stay unique -/
theorem collect_mem (inProps : List Text) : ∀ (ts : List OurType) (acc : Defs) (dup : Bool) (defs : Defs),
    collect inProps ts acc dup = .ok (defs, false) → (acc.map (·.1)).Nodup →
      (defs.map (·.1)).Nodup ∧ (∀ e ∈ acc, e ∈ defs) ∧
      ∀ t ∈ ts, ∀ ds, typeDefinitions inProps t = .ok ds → ∀ e ∈ ds, e ∈ defs := by
  intro ts
  induction ts with
  | nil =>
    intro acc dup defs h hn
    simp only [collect, Res.ok.injEq, Prod.mk.injEq] at h
    obtain ⟨rfl, _⟩ := h
    exact ⟨hn, fun e he => he, fun t ht => by cases ht⟩
  | cons t ts ih =>
    intro acc dup defs h hn
    simp only [collect] at h
    cases ht : typeDefinitions inProps t with
    | error c =>
      simp only [ht] at h
      split at h
      · exact absurd h (collect_true_ne inProps _ _ _)
      · cases h
    | ok ds =>
      simp only [ht] at h
      cases ha : addDefs acc ds with
      | none =>
        simp only [ha] at h
        exfalso
        exact collect_true_ne inProps _ _ _ h
      | some acc' =>
        simp only [ha] at h
        have hacc := addDefs_some _ _ _ ha
        have hn' := addDefs_nodup _ _ _ ha hn
        obtain ⟨h1, h2, h3⟩ := ih _ _ _ h hn'
        subst hacc
        refine ⟨h1, fun e he => h2 e (List.mem_append_left _ he), ?_⟩
        intro t' ht' ds' hds' e he
        rcases List.mem_cons.mp ht' with rfl | ht''
        · rw [ht] at hds'
          cases hds'
          exact h2 e (List.mem_append_right _ he)
        · exact h3 t' ht'' ds' hds' e he

/-! ### the final sort is a permutation -/

theorem insertSorted_perm {α : Type} (lt : α → α → Bool) (x : α) (l : List α) :
    (insertSorted lt x l).Perm (x :: l) := by
  induction l with
  | nil => simp [insertSorted]
  | cons y ys ih =>
    simp only [insertSorted]
    split
    · exact List.Perm.refl _
    · exact (List.Perm.cons y ih).trans (List.Perm.swap x y ys)

theorem sortBy_perm {α : Type} (lt : α → α → Bool) (l : List α) : (sortBy lt l).Perm l := by
  unfold sortBy
  induction l with
  | nil => simp
  | cons y ys ih =>
    simp only [List.foldr_cons]
    exact (insertSorted_perm _ y _).trans (List.Perm.cons y ih)

/-- **look-up in the generated definitions**: a definition contributed by one of the meta-model's
types is what `lookup` finds under its name in `generate mm` -/
theorem generate_lookup (mm : MM) (defs : Defs) (h : generate mm = .ok defs) {t : OurType}
    (ht : t ∈ mm.types) {ds : List (Text × Schema)}
    (hds : typeDefinitions (classesInProperties mm) t = .ok ds) {k : Text} {s : Schema}
    (hmem : (k, s) ∈ ds) : lookup k defs = some s := by
  unfold generate at h
  cases hc : collect (classesInProperties mm) mm.types [] false with
  | crash c => simp [hc] at h
  | err => simp [hc] at h
  | ok p =>
    obtain ⟨d0, dup⟩ := p
    cases dup with
    | true => simp [hc] at h
    | false =>
      simp only [hc, Res.ok.injEq] at h
      obtain ⟨hn, _, hall⟩ := collect_mem _ _ _ _ _ hc (by simp)
      have hin0 : (k, s) ∈ d0 := hall t ht ds hds (k, s) hmem
      subst h
      apply lookup_of_mem_nodup
      · -- keys unique after adding `ModelType` and sorting
        have hperm := sortBy_perm (fun (a b : Text × Schema) => ltText a.1 b.1)
          (if hasKey (ascii "ModelType") d0 = true then d0
            else d0 ++ [(ascii "ModelType", Schema.mk [Kw.type JType.string, Kw.enum (modelTypes mm)])])
        unfold sortDefs
        rw [(hperm.map (·.1)).nodup_iff]
        split
        · exact hn
        · rename_i hk
          simp only [List.map_append, List.map_cons, List.map_nil]
          rw [List.nodup_append]
          refine ⟨hn, by simp, ?_⟩
          intro a ha b hb
          simp only [List.mem_singleton] at hb
          subst hb
          intro heq
          subst heq
          exact hk ((hasKey_iff _ _).mpr ha)
      · unfold sortDefs
        rw [mem_sortBy]
        split
        · exact hin0
        · exact List.mem_append_left _ hin0

/-- the definition of a concrete class without concrete descendants, as found in `generate mm` -/
theorem generate_leaf_lookup (mm : MM) (defs : Defs) (h : generate mm = .ok defs) {c : Cls}
    (hc : OurType.cls c ∈ mm.types) (hleaf : c.cdesc = []) (hconc : c.abstract = false) :
    ∃ s, concreteDefinition c = .ok (c.mt, s) ∧ lookup c.mt defs = some s := by
  -- `generate` succeeded, hence `classDefinitions` succeeded on `c`
  have hok0 : ∃ ds, typeDefinitions (classesInProperties mm) (.cls c) = .ok ds := by
    unfold generate at h
    cases hcl : collect (classesInProperties mm) mm.types [] false with
    | crash e => simp [hcl] at h
    | err => simp [hcl] at h
    | ok p =>
      obtain ⟨d0, dup⟩ := p
      cases dup with
      | true => simp [hcl] at h
      | false => exact collect_all_ok _ _ _ _ _ hcl _ hc
  obtain ⟨ds, hds⟩ := hok0
  have hds' := hds
  simp only [typeDefinitions, classDefinitions, hleaf, List.isEmpty_nil, Bool.not_true,
    Bool.false_eq_true, if_false, hconc] at hds'
  cases hcd : concreteDefinition c with
  | error e => simp [hcd] at hds'
  | ok d =>
    obtain ⟨k, s⟩ := d
    simp only [hcd, Except.ok.injEq, List.nil_append] at hds'
    have hk : k = c.mt := (concrete_leaf_shape hcd hleaf).choose_spec.2.1
    subst hk
    refine ⟨s, rfl, generate_lookup mm defs h hc hds (by rw [← hds']; exact List.mem_singleton.mpr rfl)⟩

/-- the inheritable definition of a class with concrete descendants, as found in `generate mm` -/
theorem generate_inheritable_lookup (mm : MM) (defs : Defs) (h : generate mm = .ok defs) {c : Cls}
    (hc : OurType.cls c ∈ mm.types) (hdesc : c.cdesc ≠ []) :
    ∃ k s, inheritableDefinition c = .ok (k, s) ∧
      k = (if c.abstract then c.mt else sfx c.mt "_abstract") ∧ lookup k defs = some s := by
  have hok0 : ∃ ds, typeDefinitions (classesInProperties mm) (.cls c) = .ok ds := by
    unfold generate at h
    cases hcl : collect (classesInProperties mm) mm.types [] false with
    | crash e => simp [hcl] at h
    | err => simp [hcl] at h
    | ok p =>
      obtain ⟨d0, dup⟩ := p
      cases dup with
      | true => simp [hcl] at h
      | false => exact collect_all_ok _ _ _ _ _ hcl _ hc
  obtain ⟨ds, hds⟩ := hok0
  have hne : c.cdesc.isEmpty = false := by cases hcc : c.cdesc <;> simp_all
  have hds' := hds
  simp only [typeDefinitions, classDefinitions, hne, Bool.not_false, if_true] at hds'
  cases hi : inheritableDefinition c with
  | error e => simp [hi] at hds'
  | ok d =>
    obtain ⟨k, s⟩ := d
    have hk := (refs_inheritable hi).1
    refine ⟨k, s, rfl, hk, generate_lookup mm defs h hc hds ?_⟩
    simp only [hi] at hds'
    split at hds'
    · simp only [Except.ok.injEq] at hds'; rw [← hds']; exact List.mem_cons_self
    · cases hcd : concreteDefinition c with
      | error e => simp [hcd] at hds'
      | ok d2 =>
        simp only [hcd, Except.ok.injEq] at hds'
        rw [← hds']
        exact List.mem_append_left _ List.mem_cons_self

end AasVerif.JsonSchema
