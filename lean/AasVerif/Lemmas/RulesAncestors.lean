import AasVerif.Lemmas.RulesCycle
/-!
# The list of ancestors against the transitive closure of `parent`

`ancestors cs fuel n` (model of `ontology.list_ancestors`) lists exactly the classes that `n`
reaches — soundness for every hierarchy and every fuel, completeness for acyclic hierarchies
with the fuel `cs.length` that stage 6 supplies (in an acyclic hierarchy a walk never repeats
a class, so it has fewer edges than there are classes).
-/
namespace AasVerif.Rules
open AasVerif

/-- Declared classes listed by `ancestors` are reached. -/
theorem ancestors_sound (cs : List Cls) : ∀ fuel n a, a ∈ ancestors cs fuel n →
    (findCls cs a).isSome → Reach cs n a := by
  intro fuel
  induction fuel with
  | zero => intro n a h; simp [ancestors] at h
  | succ fuel ih =>
    intro n a h hd
    rw [ancestors] at h
    cases hc : findCls cs n with
    | none => simp [hc] at h
    | some c =>
      simp only [hc, List.mem_flatMap, List.mem_append, List.mem_singleton] at h
      obtain ⟨p, hp, hap⟩ := h
      rcases hap with hap | rfl
      · -- `a` is an ancestor of the parent `p`, which then must be declared
        have hpd : (findCls cs p).isSome := by
          cases fuel with
          | zero => simp [ancestors] at hap
          | succ f =>
            rw [ancestors] at hap
            cases hcp : findCls cs p with
            | none => simp [hcp] at hap
            | some _ => simp
        have e : Edge cs n p := by
          unfold Edge parentsOf
          simp only [hc, List.mem_filter]
          exact ⟨hp, hpd⟩
        exact .cons e (ih p a hap hd)
      · have e : Edge cs n a := by
          unfold Edge parentsOf
          simp only [hc, List.mem_filter]
          exact ⟨hp, hd⟩
        exact .step e

/-- A walk with its list of visited classes (source first, target excluded). -/
inductive Walk (cs : List Cls) : Text → List Text → Text → Prop
  | step {a b : Text} : Edge cs a b → Walk cs a [a] b
  | cons {a b c : Text} {l : List Text} : Edge cs a b → Walk cs b l c → Walk cs a (a :: l) c

theorem reach_walk {cs : List Cls} {a b : Text} (h : Reach cs a b) : ∃ l, Walk cs a l b := by
  induction h with
  | step e => exact ⟨_, .step e⟩
  | cons e _ ih =>
    obtain ⟨l, w⟩ := ih
    exact ⟨_, .cons e w⟩

theorem walk_reach {cs : List Cls} {a b : Text} {l : List Text} (w : Walk cs a l b) : Reach cs a b := by
  induction w with
  | step e => exact .step e
  | cons e _ ih => exact .cons e ih

theorem walk_mem_reach {cs : List Cls} {a b : Text} {l : List Text} (w : Walk cs a l b) :
    ∀ x ∈ l, x = a ∨ Reach cs a x := by
  induction w with
  | step e => intro x hx; simp at hx; exact .inl hx
  | cons e _ ih =>
    intro x hx
    rcases List.mem_cons.mp hx with rfl | hx
    · exact .inl rfl
    · rcases ih x hx with rfl | r
      · exact .inr (.step e)
      · exact .inr (.cons e r)

theorem walk_mem_reaches_target {cs : List Cls} {a b : Text} {l : List Text} (w : Walk cs a l b) :
    ∀ x ∈ l, Reach cs x b := by
  induction w with
  | step e => intro x hx; simp at hx; subst hx; exact .step e
  | cons e w' ih =>
    intro x hx
    rcases List.mem_cons.mp hx with rfl | hx
    · exact .cons e (walk_reach w')
    · exact ih x hx

theorem walk_declared {cs : List Cls} {a b : Text} {l : List Text} (w : Walk cs a l b) :
    ∀ x ∈ l, x ∈ cs.map (·.name) := by
  induction w with
  | step e => intro x hx; simp at hx; subst hx; exact edge_source_declared e
  | cons e _ ih =>
    intro x hx
    rcases List.mem_cons.mp hx with rfl | hx
    · exact edge_source_declared e
    · exact ih x hx

/-- In an acyclic hierarchy a walk does not repeat a class. -/
theorem walk_nodup {cs : List Cls} (hac : ∀ n, ¬ Reach cs n n) {a b : Text} {l : List Text}
    (w : Walk cs a l b) : l.Nodup := by
  induction w with
  | step e => simp
  | @cons a' b' c' l' e w' ih =>
    refine List.nodup_cons.mpr ⟨?_, ih⟩
    intro hmem
    rcases walk_mem_reach w' a' hmem with h | h
    · subst h; exact hac _ (.step e)
    · exact hac _ (.cons e h)

/-- A walk is covered by `ancestors` when the fuel is at least its length. -/
theorem walk_ancestors {cs : List Cls} {a b : Text} {l : List Text} (w : Walk cs a l b) :
    ∀ fuel, l.length ≤ fuel → b ∈ ancestors cs fuel a := by
  induction w with
  | @step a' b' e =>
    intro fuel hf
    cases fuel with
    | zero => simp at hf
    | succ f =>
      rw [ancestors]
      unfold Edge parentsOf at e
      cases hc : findCls cs a' with
      | none => simp [hc] at e
      | some c =>
        simp only [hc, List.mem_filter] at e
        simp only [List.mem_flatMap, List.mem_append, List.mem_singleton]
        exact ⟨b', e.1, .inr rfl⟩
  | @cons a' b' c' l' e _ ih =>
    intro fuel hf
    cases fuel with
    | zero => simp at hf
    | succ f =>
      rw [ancestors]
      unfold Edge parentsOf at e
      cases hc : findCls cs a' with
      | none => simp [hc] at e
      | some c =>
        simp only [hc, List.mem_filter] at e
        simp only [List.mem_flatMap, List.mem_append, List.mem_singleton]
        exact ⟨b', e.1, .inl (ih f (by simp only [List.length_cons] at hf; omega))⟩

/-- **Ancestors are exact** in acyclic hierarchies: with the fuel of stage 6 the declared classes
listed are exactly the classes reached through the transitive closure of `parent`. -/
theorem mem_ancestors_iff_reach {cs : List Cls} (hac : ∀ n, ¬ Reach cs n n) (n a : Text) :
    (a ∈ ancestors cs cs.length n ∧ (findCls cs a).isSome) ↔ Reach cs n a := by
  constructor
  · rintro ⟨h, hd⟩
    exact ancestors_sound cs _ n a h hd
  · intro r
    obtain ⟨l, w⟩ := reach_walk r
    have hlen : l.length ≤ cs.length := by
      have := nodup_length_le (walk_nodup hac w) (walk_declared w)
      simpa using this
    refine ⟨walk_ancestors w _ hlen, ?_⟩
    -- the target of an edge is declared
    have : ∀ {x y : Text}, Reach cs x y → (findCls cs y).isSome := by
      intro x y r'
      induction r' with
      | @step x' y' e =>
        unfold Edge parentsOf at e
        cases hc : findCls cs x' with
        | none => simp [hc] at e
        | some c => simp only [hc, List.mem_filter] at e; exact e.2
      | cons _ _ ih => exact ih
    exact this r

/-- The classes whose members count as inherited are the classes reached (acyclic hierarchies). -/
theorem mem_ancestorClasses_iff {cs : List Cls} (hac : ∀ n, ¬ Reach cs n n) (c a : Cls) :
    a ∈ ancestorClasses cs c ↔ ∃ n, Reach cs c.name n ∧ findCls cs n = some a := by
  unfold ancestorClasses
  rw [List.mem_filterMap]
  constructor
  · rintro ⟨n, hn, hf⟩
    exact ⟨n, (mem_ancestors_iff_reach hac c.name n).mp ⟨hn, by simp [hf]⟩, hf⟩
  · rintro ⟨n, r, hf⟩
    exact ⟨n, ((mem_ancestors_iff_reach hac c.name n).mpr r).1, hf⟩

end AasVerif.Rules
