import AasVerif.Lemmas.TargetEval
/-!
The TypeScript semantics `tsSem` agrees with Python wherever it is defined (`tsSem_sound`), and the
places where ECMAScript is known to differ from Python (they are outside the domain of `tsSem`).
-/
namespace AasVerif.TargetEmit
open AasVerif AasVerif.Expr

theorem utf16_bmp : ∀ s : Text, bmp s = true → utf16 s = s
  | [], _ => rfl
  | c :: cs, h => by
    simp only [bmp, List.all_cons, Bool.and_eq_true] at h
    have hc : c < 0x10000 := by
      have := h.1
      simp only [isBmpScalar, Bool.or_eq_true, Bool.and_eq_true, decide_eq_true_eq] at this
      omega
    simp only [utf16, hc, if_true]
    rw [utf16_bmp cs (by simpa [bmp] using h.2)]

theorem pyCmp_str (f : FloatOps) (op : Cmp) (x y : Text) :
    cmpVals f op (.str x) (.str y) = .ofBool (cmpOrd op (ltNats x y) (x == y)) := by
  cases op <;> simp [cmpVals, cmpVals.ord, valEq, cmpOrd]

theorem pyCmp_int (f : FloatOps) (op : Cmp) (x y : Int) :
    cmpVals f op (.int x) (.int y) = .ofBool (cmpOrd op (x < y) (x == y)) := by
  cases op <;> simp [cmpVals, cmpVals.ord, valEq, Val.isNum, Val.asInt, cmpOrd]

theorem pyCmp_bool (f : FloatOps) (op : Cmp) (a b : Bool) :
    cmpVals f op (.bool a) (.bool b) =
      .ofBool (cmpOrd op ((if a then (1 : Int) else 0) < (if b then 1 else 0)) ((if a then (1 : Int) else 0) == (if b then 1 else 0))) := by
  cases op <;> simp [cmpVals, cmpVals.ord, valEq, Val.isNum, Val.asInt, cmpOrd]

theorem jsCmp_sound (f : FloatOps) (op : Cmp) (a b : Val) (o : Out)
    (hstr : ∀ x y, a = .str x → b = .str y → bmp x = true ∧ bmp y = true) :
    jsCmp op a b = some o → o = cmpVals f op a b := by
  cases a <;> cases b <;> simp only [jsCmp] <;> intro h <;> (try (cases h; done))
  case none.none =>
    cases op <;> simp at h <;> (subst h; simp [cmpVals, valEq, Out.ofBool])
  case bool.bool a b =>
    cases h; exact (pyCmp_bool f op a b).symm
  case int.int x y =>
    split at h
    · cases h; exact (pyCmp_int f op x y).symm
    · cases h
  case str.str x y =>
    obtain ⟨hx, hy⟩ := hstr x y rfl rfl
    simp only [jsStrLt, utf16_bmp x hx, utf16_bmp y hy] at h
    cases h; exact (pyCmp_str f op x y).symm
  case enumLit.enumLit e x e' y =>
    split at h
    · rename_i he
      cases op <;> simp at h <;> (subst h; simp [cmpVals, valEq, Out.ofBool, he])
    · cases h
  case inst.inst i c fs j d gs =>
    cases op <;> simp at h <;> (subst h; simp [cmpVals, valEq, Out.ofBool])

theorem jsCmpNull_sound_left (f : FloatOps) (op : Cmp) (x : Val) (o : Out) :
    jsCmpNull op x = some o → o = cmpVals f op .none x := by
  cases x <;> simp only [jsCmpNull] <;> intro h <;> (try (cases h; done)) <;>
    (cases op <;> simp at h <;> (subst h; simp [cmpVals, valEq, Val.isNum, Out.ofBool]))

theorem jsCmpNull_sound_right (f : FloatOps) (op : Cmp) (x : Val) (o : Out) :
    jsCmpNull op x = some o → o = cmpVals f op x .none := by
  cases x <;> simp only [jsCmpNull] <;> intro h <;> (try (cases h; done)) <;>
    (cases op <;> simp at h <;> (subst h; simp [cmpVals, valEq, Val.isNum, Out.ofBool]))

theorem sameValueZero_sound (f : FloatOps) (a b : Val) (r : Bool)
    (hstr : ∀ x y, a = .str x → b = .str y → bmp x = true ∧ bmp y = true) :
    sameValueZero a b = some r → r = valEq f a b := by
  cases a <;> cases b <;> simp only [sameValueZero] <;> intro h <;> (try (cases h; done))
  case bool.bool a b => cases h; cases a <;> cases b <;> simp [valEq, Val.isNum, Val.asInt]
  case int.int x y =>
    split at h
    · cases h; simp [valEq, Val.isNum, Val.asInt]
    · cases h
  case str.str x y =>
    obtain ⟨hx, hy⟩ := hstr x y rfl rfl
    simp only [utf16_bmp x hx, utf16_bmp y hy] at h
    cases h; simp [valEq]
  case enumLit.enumLit e x e' y =>
    split at h
    · rename_i he; cases h; simp [valEq, he]
    · cases h
  case inst.inst i c fs j d gs => cases h; simp [valEq]

theorem simpleVal_str {v : Val} (h : simpleVal v = true) : ∀ x, v = .str x → bmp x = true := by
  intro x hx; subst hx; exact h

theorem anySVZ_sound (f : FloatOps) (m : Val) (hm : simpleVal m = true) :
    ∀ (items : List Val) (r : Bool), items.all simpleVal = true → anySVZ m items = some r → r = memL f items m
  | [], r, _, h => by simp [anySVZ] at h; subst h; simp [memL]
  | x :: xs, r, hall, h => by
    simp only [List.all_cons, Bool.and_eq_true] at hall
    simp only [anySVZ] at h
    cases h1 : sameValueZero x m with
    | none => simp [h1] at h
    | some b =>
      cases h2 : anySVZ m xs with
      | none => simp [h1, h2] at h
      | some r' =>
        simp only [h1, h2, Option.some.injEq] at h
        subst h
        have e1 := sameValueZero_sound f x m b
          (fun a c ha hc => ⟨simpleVal_str hall.1 a ha, simpleVal_str hm c hc⟩) h1
        have e2 := anySVZ_sound f m hm xs r' hall.2 h2
        simp [memL, e1, e2]

theorem jsAt_sound (c i : Val) (o : Out) : jsAt c i = some o → o = indexVals c i := by
  cases c <;> cases i <;> simp only [jsAt] <;> intro h <;> (try (cases h; done))
  case list.int l i =>
    simp only [indexVals, Val.asInt]
    generalize (if i < 0 then i + (l.length : Int) else i) = k at h ⊢
    unfold jsAtList at h
    by_cases hk : 0 ≤ k
    · simp only [hk, if_true] at h
      cases hl : l[k.toNat]? with
      | none => simp [hl] at h
      | some x =>
        simp only [hl, Option.map_some, Option.some.injEq] at h
        subst h
        have : ¬ k < 0 := by omega
        simp [this]
    · simp [hk] at h

theorem jsLen_sound (k : LenKind) (v : Val) (o : Out) (hb : ∀ s, v = .str s → bmp s = true) :
    jsLen k v = some o → o = lenVal v := by
  cases k <;> cases v <;> simp only [jsLen] <;> intro h <;> (try (cases h; done))
  case tsLength.str s => cases h; simp [lenVal, utf16_bmp s (hb s rfl)]
  all_goals (cases h; simp [lenVal])

theorem tsSem_sound : SemSound tsSem where
  truthy := by
    intro f v b h
    cases v <;> simp [tsSem, jsTruthy] at h <;>
      first | (subst h; simp [Val.truthy]) | (simp [Val.truthy, h])
  lastOperand := by intro f v w h; simp [tsSem] at h; exact h.symm
  cmp := by
    intro f op lb rb a b o h
    simp only [tsSem] at h
    split at h
    · split at h
      · rename_i hb
        simp only [Bool.and_eq_true] at hb
        exact jsCmp_sound f op _ _ o (fun x y hx hy => by cases hx; cases hy; exact hb) h
      · cases h
    · exact jsCmp_sound f op _ _ o (fun x y hx _ => by cases hx) h
    · exact jsCmpNull_sound_left f op _ o h
    · exact jsCmpNull_sound_right f op _ o h
    · exact jsCmp_sound f op _ _ o (fun x y hx hy => by subst hx hy; simp_all) h
  arith := by
    intro f ad a b o h
    simp only [tsSem] at h
    split at h
    · rename_i x y
      by_cases hc : (safeInt x && safeInt y && safeInt (if ad then x + y else x - y)) = true
      · simp only [hc, if_true, Option.some.injEq] at h
        subst h; cases ad <;> simp [arithVals, Val.isNum, Val.asInt]
      · simp [hc] at h
    · cases ad <;> simp at h
      subst h; simp [arithVals]
    · cases h
  len := by
    intro k v o h
    simp only [tsSem] at h
    split at h
    · split at h
      · rename_i s hb; exact jsLen_sound k _ o (fun s' hs => by cases hs; exact hb) h
      · cases h
    · rename_i hns; exact jsLen_sound k _ o (fun s hs => absurd hs (hns s)) h
  contains := by
    intro f k c m o h
    simp only [tsSem] at h
    split at h
    · split at h
      · rename_i items hd
        simp only [Bool.and_eq_true] at hd
        cases hr : anySVZ m items with
        | none => simp [hr] at h
        | some r =>
          simp only [hr, Option.map_some, Option.some.injEq] at h
          subst h
          have := anySVZ_sound f m hd.1 items r hd.2 hr
          simp [isInVals, memVal, this]
      · cases h
    · split at h
      · rename_i items hd
        simp only [Bool.and_eq_true] at hd
        cases hr : anySVZ m items with
        | none => simp [hr] at h
        | some r =>
          simp only [hr, Option.map_some, Option.some.injEq] at h
          subst h
          have := anySVZ_sound f m hd.1 items r hd.2 hr
          cases m <;> simp [simpleVal] at hd <;> simp [isInVals, memVal, this]
      · cases h
    · split at h
      · split at h
        · cases h; simp [isInVals]
        · cases h
      · cases h
    · cases h
  index := by
    intro k c i o h
    cases k <;> simp only [tsSem] at h <;> first | exact jsAt_sound c i o h | cases h
  unwrap := by intro k v o h; simp [tsSem] at h
  isNull := by
    intro k v b h
    cases k <;> simp only [tsSem] at h <;> (try (cases h; done))
    cases v <;> simp at h <;> (subst h; rfl)
  iter := by
    intro v l h
    cases v <;> simp [tsSem] at h <;> (subst h; simp [iterItems])
  fmt := by
    intro l c ρ v o h
    cases l <;> simp only [tsSem] at h <;> (try (cases h; done))
    cases v <;> simp only [jsFmt] at h <;> (try (cases h; done))
    · split at h
      · cases h; simp [fmtVal]
      · cases h
    · cases h; simp [fmtVal]

end AasVerif.TargetEmit
