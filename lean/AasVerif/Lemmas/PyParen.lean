import AasVerif.Model.PyEmit
/-!
Helper lemmas for C08 (b): every parenthesis the Python transpiler omits is justified by
Python's precedence table.
-/
namespace AasVerif.PyEmit
open AasVerif AasVerif.Expr

/-- node classes whose code is a primary (`a.b`, `a[i]`, `f(x)`, a name) -/
def receivers : List Kind := [.Name, .Member, .Index, .MethodCall, .FunctionCall]

mutual
  /-- The two places where the transpiler never adds parentheses although the position needs
  a primary: the instance of a member access must be a primary, and the collection of an
  index access must not be a constant (a negative number would swallow the subscript). -/
  def simple : Expr → Bool
    | .member inst _ => decide (inst.kind ∈ receivers) && simple inst
    | .index c i => decide (c.kind ≠ .Constant) && simple c && simple i
    | .const _ | .name _ => true
    | .cmp a _ b | .isIn a b | .impl a b | .add a b | .sub a b => simple a && simple b
    | .methodCall e _ args => simple e && simpleList args
    | .funCall _ args => simpleList args
    | .isNone e | .isNotNone e | .not e => simple e
    | .and es | .or es => simpleList es
    | .joinedStr ps => simpleParts ps
    | .any g c | .all g c => simpleGen g && simple c
  def simpleList : List Expr → Bool
    | [] => true
    | e :: es => simple e && simpleList es
  def simpleParts : List JPart → Bool
    | [] => true
    | .lit _ :: ps => simpleParts ps
    | .fv e :: ps => simple e && simpleParts ps
  def simpleGen : Gen → Bool
    | .forEach _ it => simple it
    | .forRange _ a b => simple a && simple b
end

/-- a lower bound of the binding strength of the code emitted for a node class -/
def kindLevel : Kind → Nat
  | .Member | .Index | .MethodCall | .FunctionCall | .Name | .JoinedStr | .Any | .All => 7
  | .Constant => 6
  | .Add | .Sub => 5
  | .Comparison | .IsIn | .IsNone | .IsNotNone | .And | .Or => 4
  | .Not => 3
  | .Implication => 1

/-- What is established for the code `x` emitted for `e`. -/
structure Good (e : Expr) (x : PyExpr) : Prop where
  ok : parenOK x = true
  level : kindLevel e.kind ≤ x.level
  number : x.isNumber = true → e.kind = .Constant

theorem level_parenUnless {tbl : List Kind} {need : Nat} (hneed : need ≤ 7)
    (htbl : ∀ k, k ∈ tbl → need ≤ kindLevel k) {c : Expr} {x : PyExpr}
    (h : kindLevel c.kind ≤ x.level) : need ≤ (parenUnless tbl c x).level := by
  unfold parenUnless
  split
  · next hm => exact Nat.le_trans (htbl _ hm) h
  · simpa [PyExpr.level] using hneed

theorem ok_parenUnless {tbl : List Kind} {c : Expr} {x : PyExpr} (h : parenOK x = true) :
    parenOK (parenUnless tbl c x) = true := by
  unfold parenUnless; split <;> simp [parenOK, h]

theorem notNumber_parenUnless {tbl : List Kind} (htbl : Kind.Constant ∉ tbl) {c : Expr} {x : PyExpr}
    (h : x.isNumber = true → c.kind = .Constant) : (parenUnless tbl c x).isNumber = false := by
  unfold parenUnless
  split
  · next hm =>
    cases hx : x.isNumber
    · rfl
    · exact absurd (h hx ▸ hm) htbl
  · rfl

/-! table lemmas: each tuple only lists node classes that bind tightly enough for the position -/
theorem tbl_index : ∀ k, k ∈ Gen.PyEmit.index → k ≠ .Constant → 7 ≤ kindLevel k := by
  intro k; cases k <;> decide
theorem tbl_comparison : ∀ k, k ∈ Gen.PyEmit.comparison → 5 ≤ kindLevel k := by
  intro k; cases k <;> decide
theorem tbl_isIn : ∀ k, k ∈ Gen.PyEmit.isIn → 5 ≤ kindLevel k := by
  intro k; cases k <;> decide
theorem tbl_implication : ∀ k, k ∈ Gen.PyEmit.implication → 3 ≤ kindLevel k := by
  intro k; cases k <;> decide
theorem tbl_methodCall : ∀ k, k ∈ Gen.PyEmit.methodCall → 7 ≤ kindLevel k := by
  intro k; cases k <;> decide
theorem tbl_methodCall_const : Kind.Constant ∉ Gen.PyEmit.methodCall := by decide
theorem tbl_isNone : ∀ k, k ∈ Gen.PyEmit.isNone → 5 ≤ kindLevel k := by
  intro k; cases k <;> decide
theorem tbl_isNotNone : ∀ k, k ∈ Gen.PyEmit.isNotNone → 5 ≤ kindLevel k := by
  intro k; cases k <;> decide
theorem tbl_notOp : ∀ k, k ∈ Gen.PyEmit.notOp → 3 ≤ kindLevel k := by
  intro k; cases k <;> decide
theorem tbl_andOr : ∀ k, k ∈ Gen.PyEmit.andOr → 4 ≤ kindLevel k := by
  intro k; cases k <;> decide
theorem tbl_addSub : ∀ k, k ∈ Gen.PyEmit.addSub → 6 ≤ kindLevel k := by
  intro k; cases k <;> decide
theorem tbl_invariantTop : ∀ k, k ∈ Gen.PyEmit.invariantTop → 3 ≤ kindLevel k := by
  intro k; cases k <;> decide
theorem tbl_receivers : ∀ k, k ∈ receivers → 7 ≤ kindLevel k ∧ k ≠ .Constant := by
  intro k; cases k <;> decide

theorem parenOKList_mono {a b : Nat} (hab : a ≤ b) : ∀ xs, parenOKList b xs = true → parenOKList a xs = true
  | [], _ => by simp [parenOKList]
  | x :: xs, h => by
    simp only [parenOKList, Bool.and_eq_true, decide_eq_true_eq] at h ⊢
    exact ⟨⟨Nat.le_trans hab h.1.1, h.1.2⟩, parenOKList_mono hab xs h.2⟩

theorem two_le_length {α} {l : List α} (h0 : l = [] → False) (h1 : ∀ v, l = [v] → False) :
    2 ≤ l.length := by
  match l, h0, h1 with
  | [], h0, _ => exact absurd rfl h0
  | [v], _, h1 => exact absurd rfl (h1 v)
  | _ :: _ :: _, _, _ => simp

theorem isNumber_false_of {e : Expr} {x : PyExpr} (g : Good e x) (h : e.kind ≠ .Constant) :
    x.isNumber = false := by
  cases hx : x.isNumber
  · rfl
  · exact absurd (g.number hx) h

theorem good_name (cfg : Cfg) (vs : List Text) (n : Text) (x : PyExpr)
    (h : transpileName cfg vs n = .ok x) : Good (.name n) x := by
  unfold transpileName at h
  split at h
  · split at h
    · cases h
    · cases h; exact ⟨by simp [parenOK], by simp [PyExpr.level, kindLevel, Expr.kind], by simp [PyExpr.isNumber]⟩
  · split at h
    · cases h; exact ⟨by simp [parenOK], by simp [PyExpr.level, kindLevel, Expr.kind], by simp [PyExpr.isNumber]⟩
    · split at h <;> first
        | (cases h; exact ⟨by simp [parenOK], by simp [PyExpr.level, kindLevel, Expr.kind], by simp [PyExpr.isNumber]⟩)
        | cases h

theorem good_const (c : Const) : Good (.const c) (transpileConst c) := by
  refine ⟨?_, ?_, fun _ => rfl⟩
  · cases c with
    | bool b => cases b <;> simp [transpileConst, parenOK]
    | int i => simp only [transpileConst]; split <;> simp [parenOK, PyExpr.level]
    | str s => simp [transpileConst, parenOK]
    | float r =>
      simp only [transpileConst]
      split <;> (simp only [floatAtom]; split <;> simp [parenOK, PyExpr.level])
  · cases c with
    | bool b => cases b <;> simp [transpileConst, PyExpr.level, kindLevel, Expr.kind]
    | int i => simp only [transpileConst]; split <;> simp [PyExpr.level, kindLevel, Expr.kind]
    | str s => simp [transpileConst, PyExpr.level, kindLevel, Expr.kind]
    | float r =>
      simp only [transpileConst]
      split <;> (simp only [floatAtom]; split <;> simp [PyExpr.level, kindLevel, Expr.kind])

mutual
  theorem good (cfg : Cfg) : ∀ (e : Expr) (vs : List Text) (x : PyExpr), simple e = true →
      transpile cfg vs e = .ok x → Good e x
    | .name n, vs, x, _, h => by
      simp only [transpile] at h; exact good_name cfg vs n x h
    | .const c, vs, x, _, h => by
      simp only [transpile] at h; cases h; exact good_const c
    | .member inst n, vs, x, hs, h => by
      simp only [transpile, Res.bind_eq_ok] at h
      obtain ⟨i', hi, h⟩ := h
      simp only [simple, Bool.and_eq_true, decide_eq_true_eq] at hs
      have g := good cfg inst vs i' hs.2 hi
      have hr := tbl_receivers _ hs.1
      split at h
      · cases h
        refine ⟨?_, by simp [PyExpr.level, kindLevel, Expr.kind], by simp [PyExpr.isNumber]⟩
        simp only [parenOK, Bool.and_eq_true, decide_eq_true_eq, Bool.not_eq_eq_eq_not, Bool.not_true]
        exact ⟨⟨Nat.le_trans hr.1 g.level, isNumber_false_of g hr.2⟩, g.ok⟩
      · cases h
    | .index c i, vs, x, hs, h => by
      simp only [transpile, Res.bind_eq_ok] at h
      obtain ⟨c', hc, i', hi, h⟩ := h
      simp only [simple, Bool.and_eq_true, decide_eq_true_eq] at hs
      have gc := good cfg c vs c' hs.1.2 hc
      have gi := good cfg i vs i' hs.2 hi
      cases h
      refine ⟨?_, by simp [PyExpr.level, kindLevel, Expr.kind], by simp [PyExpr.isNumber]⟩
      simp only [parenOK, Bool.and_eq_true, decide_eq_true_eq]
      refine ⟨⟨?_, ok_parenUnless gc.ok⟩, gi.ok⟩
      unfold parenUnless
      split
      · next hm => exact Nat.le_trans (tbl_index _ hm hs.1.1) gc.level
      · simp [PyExpr.level]
    | .cmp l op r, vs, x, hs, h => by
      simp only [transpile, Res.bind_eq_ok] at h
      obtain ⟨o, _, l', hl, r', hr, h⟩ := h
      simp only [simple, Bool.and_eq_true] at hs
      have gl := good cfg l vs l' hs.1 hl
      have gr := good cfg r vs r' hs.2 hr
      split at h
      · next hk =>
        cases h
        refine ⟨?_, by simp [PyExpr.level, kindLevel, Expr.kind], by simp [PyExpr.isNumber]⟩
        simp only [parenOK, Bool.and_eq_true, decide_eq_true_eq]
        exact ⟨⟨⟨Nat.le_trans (tbl_comparison _ hk.1) gl.level, Nat.le_trans (tbl_comparison _ hk.2) gr.level⟩, gl.ok⟩, gr.ok⟩
      · cases h
        refine ⟨?_, by simp [PyExpr.level, kindLevel, Expr.kind], by simp [PyExpr.isNumber]⟩
        simp [parenOK, PyExpr.level, gl.ok, gr.ok]
    | .isIn m c, vs, x, hs, h => by
      simp only [transpile, Res.bind_eq_ok] at h
      obtain ⟨m', hm, c', hc, h⟩ := h
      simp only [simple, Bool.and_eq_true] at hs
      have gm := good cfg m vs m' hs.1 hm
      have gc := good cfg c vs c' hs.2 hc
      cases h
      refine ⟨?_, by simp [PyExpr.level, kindLevel, Expr.kind], by simp [PyExpr.isNumber]⟩
      simp only [parenOK, Bool.and_eq_true, decide_eq_true_eq]
      exact ⟨⟨⟨level_parenUnless (by decide) tbl_isIn gm.level, level_parenUnless (by decide) tbl_isIn gc.level⟩,
        ok_parenUnless gm.ok⟩, ok_parenUnless gc.ok⟩
    | .impl a c, vs, x, hs, h => by
      simp only [transpile, Res.bind_eq_ok] at h
      obtain ⟨a', ha, c', hc, h⟩ := h
      simp only [simple, Bool.and_eq_true] at hs
      have ga := good cfg a vs a' hs.1 ha
      have gc := good cfg c vs c' hs.2 hc
      cases h
      refine ⟨?_, by simp [PyExpr.level, kindLevel, Expr.kind], by simp [PyExpr.isNumber]⟩
      have h1 : 3 ≤ (parenUnless Gen.PyEmit.implication a a').level :=
        level_parenUnless (by decide) tbl_implication ga.level
      have h2 : 2 ≤ (parenUnless Gen.PyEmit.implication c c').level :=
        Nat.le_trans (by decide) (level_parenUnless (need := 3) (by decide) tbl_implication gc.level)
      have h3 : 2 ≤ (PyExpr.not (parenUnless Gen.PyEmit.implication a a')).level := by simp [PyExpr.level]
      simp only [parenOK, parenOKList, Bool.and_eq_true, decide_eq_true_eq, Bool.and_true]
      exact ⟨by simp, ⟨h3, h1, ok_parenUnless ga.ok⟩, h2, ok_parenUnless gc.ok⟩
    | .methodCall inst n args, vs, x, hs, h => by
      simp only [transpile, Res.bind_eq_ok] at h
      obtain ⟨i', hi, as', has, h⟩ := h
      simp only [simple, Bool.and_eq_true] at hs
      have gi := good cfg inst vs i' hs.1 hi
      have ga := goodArgs cfg args vs as' hs.2 has
      cases h
      refine ⟨?_, by simp [PyExpr.level, kindLevel, Expr.kind], by simp [PyExpr.isNumber]⟩
      simp only [parenOK, Bool.and_eq_true, decide_eq_true_eq, Bool.not_eq_eq_eq_not, Bool.not_true]
      exact ⟨⟨⟨level_parenUnless (by decide) tbl_methodCall gi.level,
        notNumber_parenUnless tbl_methodCall_const gi.number⟩, ok_parenUnless gi.ok⟩, ga⟩
    | .funCall n args, vs, x, hs, h => by
      simp only [transpile, Res.bind_eq_ok] at h
      obtain ⟨as', has, h⟩ := h
      simp only [simple] at hs
      have ga := goodArgs cfg args vs as' hs has
      split at h
      · cases h
      · cases h
        exact ⟨by simpa [parenOK] using ga, by simp [PyExpr.level, kindLevel, Expr.kind], by simp [PyExpr.isNumber]⟩
      · split at h
        · split at h
          · cases h
            exact ⟨by simpa [parenOK] using ga, by simp [PyExpr.level, kindLevel, Expr.kind], by simp [PyExpr.isNumber]⟩
          · cases h
        · cases h
      · cases h
    | .isNone e, vs, x, hs, h => by
      simp only [transpile, Res.bind_eq_ok] at h
      obtain ⟨e', he, h⟩ := h
      simp only [simple] at hs
      have g := good cfg e vs e' hs he
      cases h
      refine ⟨?_, by simp [PyExpr.level, kindLevel, Expr.kind], by simp [PyExpr.isNumber]⟩
      have h1 : 5 ≤ (parenUnless Gen.PyEmit.isNone e e').level := level_parenUnless (by decide) tbl_isNone g.level
      have h2 : 5 ≤ PyExpr.noneC.level := by simp [PyExpr.level]
      simp only [parenOK, Bool.and_eq_true, decide_eq_true_eq, Bool.and_true]
      exact ⟨⟨h1, h2⟩, ok_parenUnless g.ok⟩
    | .isNotNone e, vs, x, hs, h => by
      simp only [transpile, Res.bind_eq_ok] at h
      obtain ⟨e', he, h⟩ := h
      simp only [simple] at hs
      have g := good cfg e vs e' hs he
      cases h
      refine ⟨?_, by simp [PyExpr.level, kindLevel, Expr.kind], by simp [PyExpr.isNumber]⟩
      have h1 : 5 ≤ (parenUnless Gen.PyEmit.isNotNone e e').level := level_parenUnless (by decide) tbl_isNotNone g.level
      have h2 : 5 ≤ PyExpr.noneC.level := by simp [PyExpr.level]
      simp only [parenOK, Bool.and_eq_true, decide_eq_true_eq, Bool.and_true]
      exact ⟨⟨h1, h2⟩, ok_parenUnless g.ok⟩
    | .not e, vs, x, hs, h => by
      simp only [transpile, Res.bind_eq_ok] at h
      obtain ⟨e', he, h⟩ := h
      simp only [simple] at hs
      have g := good cfg e vs e' hs he
      cases h
      refine ⟨?_, by simp [PyExpr.level, kindLevel, Expr.kind], by simp [PyExpr.isNumber]⟩
      simp only [parenOK, Bool.and_eq_true, decide_eq_true_eq]
      exact ⟨level_parenUnless (by decide) tbl_notOp g.level, ok_parenUnless g.ok⟩
    | .and es, vs, x, hs, h => by
      simp only [transpile, Res.bind_eq_ok] at h
      obtain ⟨vals, hv, h⟩ := h
      simp only [simple] at hs
      have gv := goodVals cfg es vs vals hs hv
      split at h
      · cases h
      · cases h
        simp only [parenOKList, Bool.and_eq_true, decide_eq_true_eq, Bool.and_true] at gv
        exact ⟨gv.1.2, by simpa [kindLevel, Expr.kind] using gv.1.1, fun hn => by simp [gv.2] at hn⟩
      · next hne1 hne2 =>
        cases h
        have hlen : 2 ≤ vals.length := two_le_length hne1 hne2
        exact ⟨by simpa [parenOK, hlen] using parenOKList_mono (by decide) _ gv.1, by simp [PyExpr.level, kindLevel, Expr.kind], by simp [PyExpr.isNumber]⟩
    | .or es, vs, x, hs, h => by
      simp only [transpile, Res.bind_eq_ok] at h
      obtain ⟨vals, hv, h⟩ := h
      simp only [simple] at hs
      have gv := goodVals cfg es vs vals hs hv
      split at h
      · cases h
      · cases h
        simp only [parenOKList, Bool.and_eq_true, decide_eq_true_eq, Bool.and_true] at gv
        exact ⟨gv.1.2, by simpa [kindLevel, Expr.kind] using gv.1.1, fun hn => by simp [gv.2] at hn⟩
      · next hne1 hne2 =>
        cases h
        have hlen : 2 ≤ vals.length := two_le_length hne1 hne2
        exact ⟨by simpa [parenOK, hlen] using parenOKList_mono (by decide) _ gv.1, by simp [PyExpr.level, kindLevel, Expr.kind], by simp [PyExpr.isNumber]⟩
    | .add l r, vs, x, hs, h => by
      simp only [transpile, Res.bind_eq_ok] at h
      obtain ⟨l', hl, r', hr, h⟩ := h
      simp only [simple, Bool.and_eq_true] at hs
      have gl := good cfg l vs l' hs.1 hl
      have gr := good cfg r vs r' hs.2 hr
      cases h
      refine ⟨?_, by simp [PyExpr.level, kindLevel, Expr.kind], by simp [PyExpr.isNumber]⟩
      simp only [parenOK, Bool.and_eq_true, decide_eq_true_eq]
      exact ⟨⟨⟨Nat.le_trans (by decide) (level_parenUnless (need := 6) (by decide) tbl_addSub gl.level),
        level_parenUnless (by decide) tbl_addSub gr.level⟩, ok_parenUnless gl.ok⟩, ok_parenUnless gr.ok⟩
    | .sub l r, vs, x, hs, h => by
      simp only [transpile, Res.bind_eq_ok] at h
      obtain ⟨l', hl, r', hr, h⟩ := h
      simp only [simple, Bool.and_eq_true] at hs
      have gl := good cfg l vs l' hs.1 hl
      have gr := good cfg r vs r' hs.2 hr
      cases h
      refine ⟨?_, by simp [PyExpr.level, kindLevel, Expr.kind], by simp [PyExpr.isNumber]⟩
      simp only [parenOK, Bool.and_eq_true, decide_eq_true_eq]
      exact ⟨⟨⟨Nat.le_trans (by decide) (level_parenUnless (need := 6) (by decide) tbl_addSub gl.level),
        level_parenUnless (by decide) tbl_addSub gr.level⟩, ok_parenUnless gl.ok⟩, ok_parenUnless gr.ok⟩
    | .joinedStr ps, vs, x, hs, h => by
      simp only [transpile] at h
      simp only [simple] at hs
      split at h
      · simp only [Res.bind_eq_ok] at h
        obtain ⟨ps', hp, h⟩ := h
        cases h
        exact ⟨by simpa [parenOK] using goodParts cfg ps vs ps' hs hp, by simp [PyExpr.level, kindLevel, Expr.kind], by simp [PyExpr.isNumber]⟩
      · cases h
        exact ⟨by simp [parenOK], by simp [PyExpr.level, kindLevel, Expr.kind], by simp [PyExpr.isNumber]⟩
    | .any g c, vs, x, hs, h => by
      simp only [transpile, Res.bind_eq_ok] at h
      obtain ⟨⟨v, it⟩, hg, c', hc, h⟩ := h
      simp only [simple, Bool.and_eq_true] at hs
      cases h
      exact ⟨by simp [parenOK, (good cfg c (v :: vs) c' hs.2 hc).ok, goodGen cfg g vs v it hs.1 hg],
        by simp [PyExpr.level, kindLevel, Expr.kind], by simp [PyExpr.isNumber]⟩
    | .all g c, vs, x, hs, h => by
      simp only [transpile, Res.bind_eq_ok] at h
      obtain ⟨⟨v, it⟩, hg, c', hc, h⟩ := h
      simp only [simple, Bool.and_eq_true] at hs
      cases h
      exact ⟨by simp [parenOK, (good cfg c (v :: vs) c' hs.2 hc).ok, goodGen cfg g vs v it hs.1 hg],
        by simp [PyExpr.level, kindLevel, Expr.kind], by simp [PyExpr.isNumber]⟩
  theorem goodGen (cfg : Cfg) : ∀ (g : Gen) (vs : List Text) (v : Text) (it : PyIter), simpleGen g = true →
      transpileGen cfg vs g = .ok (v, it) → parenOKIter it = true
    | .forEach y e, vs, v, it, hs, h => by
      simp only [transpileGen, Res.bind_eq_ok] at h
      obtain ⟨e', he, h⟩ := h
      simp only [simpleGen] at hs
      cases h
      simpa [parenOKIter] using ok_parenUnless (good cfg e vs e' hs he).ok
    | .forRange y a b, vs, v, it, hs, h => by
      simp only [transpileGen, Res.bind_eq_ok] at h
      obtain ⟨a', ha, b', hb, h⟩ := h
      simp only [simpleGen, Bool.and_eq_true] at hs
      cases h
      simp [parenOKIter, (good cfg a vs a' hs.1 ha).ok, (good cfg b vs b' hs.2 hb).ok]
  theorem goodArgs (cfg : Cfg) : ∀ (es : List Expr) (vs : List Text) (xs : List PyExpr), simpleList es = true →
      transpileArgs cfg vs es = .ok xs → parenOKList 1 xs = true
    | [], vs, xs, _, h => by
      simp only [transpileArgs] at h; cases h; simp [parenOKList]
    | e :: es, vs, xs, hs, h => by
      simp only [transpileArgs, Res.bind_eq_ok] at h
      obtain ⟨e', he, es', hes, h⟩ := h
      simp only [simpleList, Bool.and_eq_true] at hs
      have g := good cfg e vs e' hs.1 he
      cases h
      simp only [parenOKList, Bool.and_eq_true, decide_eq_true_eq]
      refine ⟨⟨?_, g.ok⟩, goodArgs cfg es vs es' hs.2 hes⟩
      exact Nat.le_trans (by cases e.kind <;> decide) g.level
  /-- the operands of `and` / `or`: each binds at least as tightly as a comparison and is no bare number -/
  theorem goodVals (cfg : Cfg) : ∀ (es : List Expr) (vs : List Text) (xs : List PyExpr), simpleList es = true →
      transpileVals cfg vs es = .ok xs → parenOKList 4 xs = true ∧ ∀ x ∈ xs, x.isNumber = false
    | [], vs, xs, _, h => by
      simp only [transpileVals] at h; cases h; simp [parenOKList]
    | e :: es, vs, xs, hs, h => by
      simp only [transpileVals, Res.bind_eq_ok] at h
      obtain ⟨e', he, es', hes, h⟩ := h
      simp only [simpleList, Bool.and_eq_true] at hs
      have g := good cfg e vs e' hs.1 he
      have ih := goodVals cfg es vs es' hs.2 hes
      cases h
      simp only [parenOKList, Bool.and_eq_true, decide_eq_true_eq, List.mem_cons, forall_eq_or_imp]
      exact ⟨⟨⟨level_parenUnless (by decide) tbl_andOr g.level, ok_parenUnless g.ok⟩, ih.1⟩,
        notNumber_parenUnless (by decide) g.number, ih.2⟩
  theorem goodParts (cfg : Cfg) : ∀ (ps : List JPart) (vs : List Text) (xs : List PyPart), simpleParts ps = true →
      transpileParts cfg vs ps = .ok xs → parenOKParts xs = true
    | [], vs, xs, _, h => by
      simp only [transpileParts] at h; cases h; simp [parenOKParts]
    | .lit s :: ps, vs, xs, hs, h => by
      simp only [transpileParts, Res.bind_eq_ok] at h
      obtain ⟨ps', hp, h⟩ := h
      simp only [simpleParts] at hs
      cases h
      simpa [parenOKParts] using goodParts cfg ps vs ps' hs hp
    | .fv e :: ps, vs, xs, hs, h => by
      simp only [transpileParts, Res.bind_eq_ok] at h
      obtain ⟨e', he, h⟩ := h
      simp only [simpleParts, Bool.and_eq_true] at hs
      split at h
      · cases h
      · simp only [Res.bind_eq_ok] at h
        obtain ⟨ps', hp, h⟩ := h
        cases h
        simp [parenOKParts, (good cfg e vs e' hs.1 he).ok, goodParts cfg ps vs ps' hs.2 hp]
end

end AasVerif.PyEmit
