import AasVerif.Lemmas.Yielding.Sub
set_option linter.unusedSimpArgs false
namespace AasVerif.Yielding

/-- end of the last subroutine reached by falling through: `default:` throws -/
theorem subStep_off {subs : List (List Stmt)} {i j : Nat} (hi : subs.length ≤ i) (orc : List Bool) :
    subStep subs (i, j) orc = .halt none (.crash .invalidState) := by
  simp [subStep, List.getElem?_eq_none hi]

theorem subStep_fallthrough {subs : List (List Stmt)} {i j : Nat} {sub : List Stmt}
    (hi : subs[i]? = some sub) (hj : sub.length ≤ j) (orc : List Bool) :
    subStep subs (i, j) orc = .next none (i + 1, 0) orc := by
  simp [subStep, hi, List.getElem?_eq_none hj]

def subAt (subs : List (List Stmt)) (i j : Nat) (sub : List Stmt) (s : Stmt) (orc : List Bool) :
    Step (Nat × Nat) :=
  match act s.op orc with
  | .fall ev orc' =>
    if s.isCommand && j + 1 == sub.length && i + 1 == subs.length then .halt ev .ended
    else .next ev (i, j + 1) orc'
  | .stop st => .halt none st
  | .goto ev l orc' => dispatch subs ev l orc'
  | .yield =>
    match subs[i + 1]? with
    | some nxt =>
      (match subLabel nxt with
        | some l => dispatch subs (some .yield) l orc
        | none => .halt (some .yield) (.crash .invalidState))
    | none =>
      (match subLabel sub with
        | some l => dispatch subs (some .yield) (l + 1) orc
        | none => .halt (some .yield) (.crash .invalidState))

theorem subStep_at {subs : List (List Stmt)} {i j : Nat} {sub : List Stmt} {s : Stmt}
    (hi : subs[i]? = some sub) (hj : sub[j]? = some s) (orc : List Bool) :
    subStep subs (i, j) orc = subAt subs i j sub s orc := by
  simp only [subStep, hi, hj]
  rfl

theorem sub_sim {subs : List (List Stmt)} (hs : SubsOk subs) :
    ∀ (n pc : Nat) (orc : List Bool) (r : Result),
      runM (flatStep subs.flatten) n pc orc = r → r.ok →
      ∀ i j, Pos subs pc i j →
        Conv (subStep subs) (i, j) orc (r.withEnd (endStatus subs.flatten)) := by
  intro n
  induction n with
  | zero =>
    intro pc orc r h hok
    simp [runM] at h; subst h; exact absurd rfl hok
  | succ n ih =>
    intro pc orc r h hok i j hpos
    obtain ⟨sub, hi, hj, hpc⟩ := hpos
    have hjs := List.getElem?_eq_getElem hj
    generalize hsdef : sub[j] = s at hjs
    have hC : subs.flatten[pc]? = some s := hpc ▸ flatten_get subs i j sub s hi hjs
    have hilt : i < subs.length := (List.getElem?_eq_some_iff.mp hi).1
    have hstart := start_succ subs i sub hi
    have hlenC := start_length subs
    -- the position after this statement, when it is the last one of the subroutine
    have hnext : ∀ (orc' : List Bool) (r' : Result), j + 1 = sub.length →
        runM (flatStep subs.flatten) n (pc + 1) orc' = r' → r'.ok → ¬ s.isCommand = true ∨ i + 1 < subs.length →
        Conv (subStep subs) (i + 1, 0) orc' (r'.withEnd (endStatus subs.flatten)) := by
      intro orc' r' hj1 hr' hok' hcase
      by_cases hlast : i + 1 < subs.length
      · obtain ⟨nxt, hnxt⟩ : ∃ nxt, subs[i + 1]? = some nxt :=
          ⟨_, List.getElem?_eq_getElem hlast⟩
        exact ih (pc + 1) orc' r' hr' hok' (i + 1) 0 ⟨nxt, hnxt, hs.ne_nil hnxt, by omega⟩
      · have hi1 : i + 1 = subs.length := by omega
        have hpcend : pc + 1 = subs.flatten.length := by rw [← hlenC, ← hi1, hstart]; omega
        have hr'' := runM_flat_end (C := subs.flatten) (n := n) (pc := pc + 1) (orc := orc')
          (by omega) (hr' ▸ hok')
        rw [hr'] at hr''
        subst hr''
        have hnc : ¬ s.isCommand = true := by
          rcases hcase with h | h
          · exact h
          · omega
        have hend := endStatus_of_last hC hpcend
        simp only [hnc, if_false] at hend
        simp only [Result.withEnd, if_true, hend]
        exact Conv.halt (ev := none) (subStep_off (by omega) orc') (by simp)
    simp only [runM, flatStep, hC] at h
    have hsub := subStep_at hi hjs orc
    simp only [subAt] at hsub
    cases hact : act s.op orc with
    | stop st =>
      simp only [hact] at h hsub
      subst h
      have hne := act_stop_ne_ended hact
      simp only [Result.withEnd, hne, if_false]
      exact Conv.halt (ev := none) hsub (by simpa [Result.ok] using hok)
    | goto ev l orc' =>
      simp only [hact] at h hsub
      rw [findSub_flatten subs l hs.all] at h
      simp only [dispatch] at hsub
      cases hf : findSub subs l with
      | none =>
        simp only [hf, Option.map_none] at h hsub
        subst h
        simp only [Result.withEnd, reduceCtorEq, if_false]
        exact Conv.halt hsub (by simp)
      | some i' =>
        simp only [hf, Option.map_some] at h hsub
        subst h
        rw [← Result.withEnd_cons]
        have hi' := findSub_lt hf
        obtain ⟨sub', hsub'⟩ : ∃ sub', subs[i']? = some sub' := ⟨_, List.getElem?_eq_getElem hi'⟩
        exact Conv.next hsub (ih _ orc' _ rfl (by simpa using hok) i' 0
          ⟨sub', hsub', hs.ne_nil hsub', by omega⟩)
    | yield =>
      simp only [hact] at h hsub
      subst h
      have hy : s.isYield = true := by
        cases hop : s.op <;> simp [hop, act] at hact
        · split at hact <;> (try split at hact) <;> (try split at hact) <;> cases hact
        · simp [Stmt.isYield, hop]
      have hj1 := yieldLast_spec sub j s (hs.yieldLast hi) hjs hy
      have hnc : ¬ s.isCommand = true := by
        cases hop : s.op <;> simp [Stmt.isYield, Stmt.isCommand, hop] at hy ⊢
      rw [← Result.withEnd_cons]
      have hrest := hnext orc _ hj1 rfl (by simpa using hok) (Or.inl hnc)
      by_cases hlast : i + 1 < subs.length
      · obtain ⟨nxt, hnxt⟩ : ∃ nxt, subs[i + 1]? = some nxt :=
          ⟨_, List.getElem?_eq_getElem hlast⟩
        simp only [hnxt, hs.lab _ _ hnxt, dispatch, hs.findSub, hlast, if_true] at hsub
        exact Conv.next hsub hrest
      · have hnone : subs[i + 1]? = none := List.getElem?_eq_none (by omega)
        simp only [hnone, hs.lab _ _ hi, dispatch, hs.findSub, hlast, if_false] at hsub
        -- the flat machine ends here; the emitted code invalidates the state and the resume throws
        have hi1 : i + 1 = subs.length := by omega
        have hpcend : pc + 1 = subs.flatten.length := by rw [← hlenC, ← hi1, hstart]; omega
        have hr'' := runM_flat_end (C := subs.flatten) (n := n) (pc := pc + 1) (orc := orc)
          (by omega) (by simpa using hok)
        rw [hr'']
        have hend := endStatus_of_last hC hpcend
        simp only [hnc, if_false] at hend
        simp only [Result.withEnd, if_true, hend, Result.cons, List.append_nil]
        exact Conv.halt hsub (by simp)
    | fall ev orc' =>
      simp only [hact] at h hsub
      subst h
      rw [← Result.withEnd_cons]
      by_cases hfin : (s.isCommand && j + 1 == sub.length && i + 1 == subs.length) = true
      · simp only [hfin, if_true] at hsub
        simp only [Bool.and_eq_true, beq_iff_eq] at hfin
        obtain ⟨⟨hcmd, hj1⟩, hi1⟩ := hfin
        have hpcend : pc + 1 = subs.flatten.length := by rw [← hlenC, ← hi1, hstart]; omega
        have hr'' := runM_flat_end (C := subs.flatten) (n := n) (pc := pc + 1) (orc := orc')
          (by omega) (by simpa using hok)
        rw [hr'']
        have hend := endStatus_of_last hC hpcend
        simp only [hcmd, if_true] at hend
        simp only [Result.withEnd, if_true, hend, Result.cons, List.append_nil]
        exact Conv.halt hsub (by simp)
      · simp only [hfin, Bool.false_eq_true, if_false] at hsub
        by_cases hj1 : j + 1 < sub.length
        · exact Conv.next hsub (ih _ orc' _ rfl (by simpa using hok) i (j + 1)
            ⟨sub, hi, hj1, by omega⟩)
        · have hj1' : j + 1 = sub.length := by omega
          have hcase : ¬ s.isCommand = true ∨ i + 1 < subs.length := by
            simp only [Bool.and_eq_true, beq_iff_eq, not_and] at hfin
            by_cases hc : s.isCommand = true
            · right
              have := hfin ⟨hc, hj1'⟩
              omega
            · left; exact hc
          have hrest := hnext orc' _ hj1' rfl (by simpa using hok) hcase
          exact Conv.next hsub (Conv.silent (subStep_fallthrough hi (by omega) orc') hrest)

end AasVerif.Yielding
