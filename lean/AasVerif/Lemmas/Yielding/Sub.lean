import AasVerif.Lemmas.Yielding.SimCheck
/-!
The emitted state machine over subroutines (`subStep`) against the goto machine over the
concatenated statements, under `subsCheck`.
-/
set_option linter.unusedSimpArgs false
namespace AasVerif.Yielding

/-- How the emitted C++ ends when control reaches the end of the last subroutine:
clean return only after a `Command`, otherwise fall-through into `default:` (throw). -/
def endStatus (C : List Stmt) : Status :=
  match C.getLast? with
  | some s => if s.isCommand then .ended else .crash .invalidState
  | none => .ended

def Result.withEnd (r : Result) (st : Status) : Result :=
  if r.status = .ended then ⟨r.events, st⟩ else r

theorem Result.withEnd_cons (r : Result) (ev : Option Event) (st : Status) :
    (r.withEnd st).cons ev = (r.cons ev).withEnd st := by
  unfold Result.withEnd
  by_cases h : r.status = .ended <;> simp [h, Result.cons]

def start (subs : List (List Stmt)) (i : Nat) : Nat := (subs.take i).flatten.length

theorem start_zero (subs : List (List Stmt)) : start subs 0 = 0 := by simp [start]

theorem start_cons_succ (sub : List Stmt) (subs : List (List Stmt)) (i : Nat) :
    start (sub :: subs) (i + 1) = sub.length + start subs i := by
  simp [start]

theorem start_length (subs : List (List Stmt)) : start subs subs.length = subs.flatten.length := by
  simp [start]

theorem start_succ : ∀ (subs : List (List Stmt)) (i : Nat) (sub : List Stmt),
    subs[i]? = some sub → start subs (i + 1) = start subs i + sub.length
  | [], i, sub, h => by simp at h
  | s :: subs, 0, sub, h => by
    simp at h; subst h; simp [start]
  | s :: subs, i + 1, sub, h => by
    simp only [List.getElem?_cons_succ] at h
    rw [start_cons_succ, start_cons_succ, start_succ subs i sub h]; omega

theorem flatten_get : ∀ (subs : List (List Stmt)) (i j : Nat) (sub : List Stmt) (s : Stmt),
    subs[i]? = some sub → sub[j]? = some s → subs.flatten[start subs i + j]? = some s
  | [], i, j, sub, s, h, _ => by simp at h
  | x :: subs, 0, j, sub, s, h, hj => by
    simp at h; subst h
    have : j < x.length := (List.getElem?_eq_some_iff.mp hj).1
    simp [start, List.getElem?_append_left this, hj]
  | x :: subs, i + 1, j, sub, s, h, hj => by
    simp only [List.getElem?_cons_succ] at h
    rw [start_cons_succ, List.flatten_cons, Nat.add_assoc,
      List.getElem?_append_right (by omega)]
    simpa using flatten_get subs i j sub s h hj

theorem findLabel_append_unlabelled : ∀ (A B : List Stmt) (l : Nat),
    (A.all fun x => x.label.isNone) = true →
    findLabel (A ++ B) l = (findLabel B l).map (· + A.length)
  | [], B, l, _ => by simp
  | a :: A, B, l, h => by
    simp only [List.all_cons, Bool.and_eq_true, Option.isNone_iff_eq_none] at h
    simp only [List.cons_append, findLabel, h.1, reduceCtorEq, if_false,
      findLabel_append_unlabelled A B l h.2, Option.map_map, List.length_cons]
    congr 1

theorem findSub_lt : ∀ {subs : List (List Stmt)} {l i : Nat}, findSub subs l = some i →
    i < subs.length
  | [], _, _, h => by simp [findSub] at h
  | s :: subs, l, i, h => by
    simp only [findSub] at h
    split at h
    · simp at h; subst h; simp
    · cases hq : findSub subs l with
      | none => simp [hq] at h
      | some q =>
        simp [hq] at h
        have := findSub_lt hq
        simp; omega

theorem findSub_flatten : ∀ (subs : List (List Stmt)) (l : Nat), subs.all subOk = true →
    findLabel subs.flatten l = (findSub subs l).map (start subs)
  | [], l, _ => by simp [findLabel, findSub]
  | sub :: subs, l, h => by
    simp only [List.all_cons, Bool.and_eq_true] at h
    obtain ⟨hs, hrest⟩ := h
    cases sub with
    | nil => simp [subOk] at hs
    | cons s tl =>
      simp only [subOk, Bool.and_eq_true] at hs
      obtain ⟨⟨_, htl⟩, _⟩ := hs
      simp only [List.flatten_cons, List.cons_append, findLabel, findSub, subLabel, List.head?_cons,
        Option.bind_some]
      by_cases hl : s.label = some l
      · simp [hl, start_zero]
      · simp only [hl, if_false, findLabel_append_unlabelled tl _ l htl,
          findSub_flatten subs l hrest, Option.map_map]
        cases findSub subs l with
        | none => rfl
        | some i => simp [start_cons_succ]; omega

theorem labs_flatten : ∀ (subs : List (List Stmt)), subs.all subOk = true →
    labs subs.flatten = subs.filterMap subLabel
  | [], _ => by simp [labs]
  | sub :: subs, h => by
    simp only [List.all_cons, Bool.and_eq_true] at h
    obtain ⟨hs, hrest⟩ := h
    cases sub with
    | nil => simp [subOk] at hs
    | cons s tl =>
      simp only [subOk, Bool.and_eq_true] at hs
      obtain ⟨⟨hs1, htl⟩, _⟩ := hs
      obtain ⟨l, hl⟩ := Option.isSome_iff_exists.mp hs1
      have htl' : tl.filterMap (·.label) = [] := by
        simp only [List.filterMap_eq_nil_iff]
        intro x hx
        simpa using (List.all_eq_true.mp htl) x hx
      have ih := labs_flatten subs hrest
      simp only [labs] at ih ⊢
      simp [List.filterMap_append, hl, htl', ih, subLabel]

theorem subLabel_of_check : ∀ (subs : List (List Stmt)) (k : Nat), subs.all subOk = true →
    subs.filterMap subLabel = List.range' k subs.length →
    ∀ i sub, subs[i]? = some sub → subLabel sub = some (k + i)
  | [], _, _, _, i, sub, h => by simp at h
  | x :: subs, k, hall, hl, i, sub, h => by
    simp only [List.all_cons, Bool.and_eq_true] at hall
    have hx : ∃ l, subLabel x = some l := by
      cases x with
      | nil => simp [subOk] at hall
      | cons s tl =>
        simp only [subOk, Bool.and_eq_true] at hall
        obtain ⟨l, hl⟩ := Option.isSome_iff_exists.mp hall.1.1.1
        exact ⟨l, by simp [subLabel, hl]⟩
    obtain ⟨l, hxl⟩ := hx
    simp only [List.filterMap_cons, hxl, List.length_cons, List.range'_succ, List.cons.injEq] at hl
    cases i with
    | zero => simp at h; subst h; simp [hxl, hl.1]
    | succ i =>
      simp only [List.getElem?_cons_succ] at h
      have := subLabel_of_check subs (k + 1) hall.2 hl.2 i sub h
      rw [this]; congr 1; omega

theorem findSub_of_labels : ∀ (subs : List (List Stmt)) (k : Nat),
    (∀ i sub, subs[i]? = some sub → subLabel sub = some (k + i)) →
    ∀ l, findSub subs l = if k ≤ l ∧ l < k + subs.length then some (l - k) else none
  | [], k, _, l => by simp [findSub]
  | x :: subs, k, h, l => by
    have h0 := h 0 x (by simp)
    have ih := findSub_of_labels subs (k + 1)
      (fun i sub hi => by rw [h (i + 1) sub (by simpa using hi)]; congr 1; omega) l
    simp only [findSub, h0, Nat.add_zero, Option.some.injEq, ih, List.length_cons]
    by_cases hkl : k = l
    · subst hkl; simp
    · simp only [hkl, if_false]
      by_cases hc : k + 1 ≤ l ∧ l < k + 1 + subs.length
      · have hc' : k ≤ l ∧ l < k + (subs.length + 1) := by omega
        simp only [hc, hc', and_self, if_true, Option.map_some, Option.some.injEq]; omega
      · have hc' : ¬ (k ≤ l ∧ l < k + (subs.length + 1)) := by omega
        simp [hc, hc']

theorem yieldLast_spec : ∀ (sub : List Stmt) (j : Nat) (s : Stmt), yieldLast sub = true →
    sub[j]? = some s → s.isYield = true → j + 1 = sub.length
  | [], j, s, _, h, _ => by simp at h
  | [x], j, s, _, h, _ => by
    cases j with
    | zero => rfl
    | succ j => simp at h
  | x :: y :: rest, j, s, hy, h, hs => by
    simp only [yieldLast, Bool.and_eq_true, Bool.not_eq_true'] at hy
    cases j with
    | zero => simp at h; subst h; simp [hs] at hy
    | succ j =>
      simp only [List.getElem?_cons_succ] at h
      have := yieldLast_spec (y :: rest) j s hy.2 h hs
      simp at this ⊢; omega


structure SubsOk (subs : List (List Stmt)) : Prop where
  all : subs.all subOk = true
  lab : ∀ i sub, subs[i]? = some sub → subLabel sub = some i

theorem SubsOk.of_check {subs : List (List Stmt)} (h : subsCheck subs = true) : SubsOk subs := by
  simp only [subsCheck, Bool.and_eq_true, beq_iff_eq] at h
  refine ⟨h.1, fun i sub hi => ?_⟩
  have h2 := h.2
  rw [labs_flatten subs h.1, List.range_eq_range'] at h2
  simpa using subLabel_of_check subs 0 h.1 h2 i sub hi

theorem SubsOk.findSub {subs : List (List Stmt)} (h : SubsOk subs) (l : Nat) :
    findSub subs l = if l < subs.length then some l else none := by
  have := findSub_of_labels subs 0 (fun i sub hi => by simpa using h.lab i sub hi) l
  simpa using this

theorem SubsOk.ne_nil {subs : List (List Stmt)} (h : SubsOk subs) {i : Nat} {sub : List Stmt}
    (hi : subs[i]? = some sub) : 0 < sub.length := by
  have := (List.all_eq_true.mp h.all) sub (List.mem_of_getElem? hi)
  cases sub with
  | nil => simp [subOk] at this
  | cons _ _ => simp

theorem SubsOk.yieldLast {subs : List (List Stmt)} (h : SubsOk subs) {i : Nat} {sub : List Stmt}
    (hi : subs[i]? = some sub) : yieldLast sub = true := by
  have := (List.all_eq_true.mp h.all) sub (List.mem_of_getElem? hi)
  cases sub with
  | nil => simp [subOk] at this
  | cons _ _ => simp only [subOk, Bool.and_eq_true] at this; exact this.2

def Pos (subs : List (List Stmt)) (pc i j : Nat) : Prop :=
  ∃ sub, subs[i]? = some sub ∧ j < sub.length ∧ pc = start subs i + j

theorem act_stop_ne_ended {op : Op} {orc : List Bool} {st : Status} (h : act op orc = .stop st) :
    st ≠ .ended := by
  cases op <;> simp only [act] at h <;> try (cases h; done)
  rename_i c a b
  split at h
  · cases h; simp
  · split at h
    · cases h; simp
    · split at h <;> cases h

theorem runM_flat_end {C : List Stmt} {n : Nat} {pc : Nat} {orc : List Bool} (hpc : C.length ≤ pc)
    (hok : (runM (flatStep C) n pc orc).ok) : runM (flatStep C) n pc orc = ⟨[], .ended⟩ := by
  cases n with
  | zero => simp [runM, Result.ok] at hok
  | succ n => simp [runM, flatStep, List.getElem?_eq_none hpc]

theorem endStatus_of_last {C : List Stmt} {pc : Nat} {s : Stmt} (hC : C[pc]? = some s)
    (hpc : pc + 1 = C.length) :
    endStatus C = if s.isCommand then .ended else .crash .invalidState := by
  have : C.getLast? = some s := by
    rw [List.getLast?_eq_getElem?]
    have : C.length - 1 = pc := by omega
    rw [this, hC]
  simp [endStatus, this]

end AasVerif.Yielding
