import AasVerif.Lemmas.Yielding.SubSim
/-!
Bounded version of `sub_sim`: what the goto machine computes within `n` steps the emitted state
machine computes within `2 n` steps (one extra step per `case` fall-through).
-/
set_option linter.unusedSimpArgs false
namespace AasVerif.Yielding

/-- terminates with `r` within `b` steps -/
def ConvB {σ : Type} (step : σ → List Bool → Step σ) (s : σ) (orc : List Bool) (r : Result)
    (b : Nat) : Prop :=
  ∃ n, n ≤ b ∧ runM step n s orc = r ∧ r.ok

theorem ConvB.mono {σ : Type} {step : σ → List Bool → Step σ} {s orc r b b'}
    (h : ConvB step s orc r b) (hb : b ≤ b') : ConvB step s orc r b' := by
  obtain ⟨n, hn, h1, h2⟩ := h
  exact ⟨n, by omega, h1, h2⟩

theorem ConvB.halt {σ : Type} {step : σ → List Bool → Step σ} {s orc ev st}
    (h : step s orc = .halt ev st) (hst : st ≠ .crash .outOfFuel) :
    ConvB step s orc ⟨ev.toList, st⟩ 1 :=
  ⟨1, Nat.le_refl _, by simp [runM, h], hst⟩

theorem ConvB.next {σ : Type} {step : σ → List Bool → Step σ} {s orc ev s' orc' r b}
    (h : step s orc = .next ev s' orc') (hr : ConvB step s' orc' r b) :
    ConvB step s orc (r.cons ev) (b + 1) := by
  obtain ⟨n, hnb, hn, hok⟩ := hr
  exact ⟨n + 1, by omega, by simp [runM, h, hn], by simpa using hok⟩

theorem ConvB.silent {σ : Type} {step : σ → List Bool → Step σ} {s orc s' r b}
    (h : step s orc = .next none s' orc) (hr : ConvB step s' orc r b) :
    ConvB step s orc r (b + 1) := by
  simpa using ConvB.next h hr

theorem ConvB.exact {σ : Type} {step : σ → List Bool → Step σ} {s orc r b}
    (h : ConvB step s orc r b) : ∀ m, b ≤ m → runM step m s orc = r := by
  obtain ⟨n, hnb, hn, hok⟩ := h
  exact fun m hm => runM_mono step n m s orc r hn hok (by omega)

theorem ok_fuel_pos {σ : Type} {step : σ → List Bool → Step σ} {n s orc}
    (h : (runM step n s orc).ok) : 1 ≤ n := by
  cases n with
  | zero => simp [runM, Result.ok] at h
  | succ n => omega

theorem sub_simB {subs : List (List Stmt)} (hs : SubsOk subs) :
    ∀ (n pc : Nat) (orc : List Bool) (r : Result),
      runM (flatStep subs.flatten) n pc orc = r → r.ok →
      ∀ i j, Pos subs pc i j →
        ConvB (subStep subs) (i, j) orc (r.withEnd (endStatus subs.flatten)) (2 * n) := by
  intro n
  induction n with
  | zero =>
    intro pc orc r h hok
    simp [runM] at h; subst h; exact absurd rfl hok
  | succ n ih =>
    intro pc orc r h hok i j hpos
    obtain ⟨sub, hi, hj, hpc⟩ := hpos
    have hjs := List.getElem?_eq_getElem hj
    generalize hsdef : sub[j] = s at hjs
    have hC : subs.flatten[pc]? = some s := hpc ▸ flatten_get subs i j sub s hi hjs
    have hilt : i < subs.length := (List.getElem?_eq_some_iff.mp hi).1
    have hstart := start_succ subs i sub hi
    have hlenC := start_length subs
    -- the position after this statement, when it is the last one of the subroutine
    have hnext : ∀ (orc' : List Bool) (r' : Result), j + 1 = sub.length →
        runM (flatStep subs.flatten) n (pc + 1) orc' = r' → r'.ok → ¬ s.isCommand = true ∨ i + 1 < subs.length →
        ConvB (subStep subs) (i + 1, 0) orc' (r'.withEnd (endStatus subs.flatten)) (2 * n) := by
      intro orc' r' hj1 hr' hok' hcase
      by_cases hlast : i + 1 < subs.length
      · obtain ⟨nxt, hnxt⟩ : ∃ nxt, subs[i + 1]? = some nxt :=
          ⟨_, List.getElem?_eq_getElem hlast⟩
        exact ih (pc + 1) orc' r' hr' hok' (i + 1) 0 ⟨nxt, hnxt, hs.ne_nil hnxt, by omega⟩
      · have hi1 : i + 1 = subs.length := by omega
        have hpcend : pc + 1 = subs.flatten.length := by rw [← hlenC, ← hi1, hstart]; omega
        have hn1 := ok_fuel_pos (hr' ▸ hok' : (runM (flatStep subs.flatten) n (pc + 1) orc').ok)
        have hr'' := runM_flat_end (C := subs.flatten) (n := n) (pc := pc + 1) (orc := orc')
          (by omega) (hr' ▸ hok')
        rw [hr'] at hr''
        subst hr''
        have hnc : ¬ s.isCommand = true := by
          rcases hcase with h | h
          · exact h
          · omega
        have hend := endStatus_of_last hC hpcend
        simp only [hnc, if_false] at hend
        simp only [Result.withEnd, if_true, hend]
        exact (ConvB.halt (ev := none) (subStep_off (by omega) orc') (by simp)).mono (by omega)
    simp only [runM, flatStep, hC] at h
    have hsub := subStep_at hi hjs orc
    simp only [subAt] at hsub
    cases hact : act s.op orc with
    | stop st =>
      simp only [hact] at h hsub
      subst h
      have hne := act_stop_ne_ended hact
      simp only [Result.withEnd, hne, if_false]
      exact (ConvB.halt (ev := none) hsub (by simpa [Result.ok] using hok)).mono (by omega)
    | goto ev l orc' =>
      simp only [hact] at h hsub
      rw [findSub_flatten subs l hs.all] at h
      simp only [dispatch] at hsub
      cases hf : findSub subs l with
      | none =>
        simp only [hf, Option.map_none] at h hsub
        subst h
        simp only [Result.withEnd, reduceCtorEq, if_false]
        exact (ConvB.halt hsub (by simp)).mono (by omega)
      | some i' =>
        simp only [hf, Option.map_some] at h hsub
        subst h
        rw [← Result.withEnd_cons]
        have hi' := findSub_lt hf
        obtain ⟨sub', hsub'⟩ : ∃ sub', subs[i']? = some sub' := ⟨_, List.getElem?_eq_getElem hi'⟩
        exact (ConvB.next hsub (ih _ orc' _ rfl (by simpa using hok) i' 0
          ⟨sub', hsub', hs.ne_nil hsub', by omega⟩)).mono (by omega)
    | yield =>
      simp only [hact] at h hsub
      subst h
      have hy : s.isYield = true := by
        cases hop : s.op <;> simp [hop, act] at hact
        · split at hact <;> (try split at hact) <;> (try split at hact) <;> cases hact
        · simp [Stmt.isYield, hop]
      have hj1 := yieldLast_spec sub j s (hs.yieldLast hi) hjs hy
      have hnc : ¬ s.isCommand = true := by
        cases hop : s.op <;> simp [Stmt.isYield, Stmt.isCommand, hop] at hy ⊢
      rw [← Result.withEnd_cons]
      have hrest := hnext orc _ hj1 rfl (by simpa using hok) (Or.inl hnc)
      by_cases hlast : i + 1 < subs.length
      · obtain ⟨nxt, hnxt⟩ : ∃ nxt, subs[i + 1]? = some nxt :=
          ⟨_, List.getElem?_eq_getElem hlast⟩
        simp only [hnxt, hs.lab _ _ hnxt, dispatch, hs.findSub, hlast, if_true] at hsub
        exact (ConvB.next hsub hrest).mono (by omega)
      · have hnone : subs[i + 1]? = none := List.getElem?_eq_none (by omega)
        simp only [hnone, hs.lab _ _ hi, dispatch, hs.findSub, hlast, if_false] at hsub
        -- the flat machine ends here; the emitted code invalidates the state and the resume throws
        have hi1 : i + 1 = subs.length := by omega
        have hpcend : pc + 1 = subs.flatten.length := by rw [← hlenC, ← hi1, hstart]; omega
        have hr'' := runM_flat_end (C := subs.flatten) (n := n) (pc := pc + 1) (orc := orc)
          (by omega) (by simpa using hok)
        rw [hr'']
        have hend := endStatus_of_last hC hpcend
        simp only [hnc, if_false] at hend
        simp only [Result.withEnd, if_true, hend, Result.cons, List.append_nil]
        exact (ConvB.halt hsub (by simp)).mono (by omega)
    | fall ev orc' =>
      simp only [hact] at h hsub
      subst h
      rw [← Result.withEnd_cons]
      by_cases hfin : (s.isCommand && j + 1 == sub.length && i + 1 == subs.length) = true
      · simp only [hfin, if_true] at hsub
        simp only [Bool.and_eq_true, beq_iff_eq] at hfin
        obtain ⟨⟨hcmd, hj1⟩, hi1⟩ := hfin
        have hpcend : pc + 1 = subs.flatten.length := by rw [← hlenC, ← hi1, hstart]; omega
        have hr'' := runM_flat_end (C := subs.flatten) (n := n) (pc := pc + 1) (orc := orc')
          (by omega) (by simpa using hok)
        rw [hr'']
        have hend := endStatus_of_last hC hpcend
        simp only [hcmd, if_true] at hend
        simp only [Result.withEnd, if_true, hend, Result.cons, List.append_nil]
        exact (ConvB.halt hsub (by simp)).mono (by omega)
      · simp only [hfin, Bool.false_eq_true, if_false] at hsub
        by_cases hj1 : j + 1 < sub.length
        · exact (ConvB.next hsub (ih _ orc' _ rfl (by simpa using hok) i (j + 1)
            ⟨sub, hi, hj1, by omega⟩)).mono (by omega)
        · have hj1' : j + 1 = sub.length := by omega
          have hcase : ¬ s.isCommand = true ∨ i + 1 < subs.length := by
            simp only [Bool.and_eq_true, beq_iff_eq, not_and] at hfin
            by_cases hc : s.isCommand = true
            · right
              have := hfin ⟨hc, hj1'⟩
              omega
            · left; exact hc
          have hrest := hnext orc' _ hj1' rfl (by simpa using hok) hcase
          exact (ConvB.next hsub (ConvB.silent (subStep_fallthrough hi (by omega) orc') hrest)).mono (by omega)


end AasVerif.Yielding
