import AasVerif.Lemmas.Yielding.Machine
/-!
`_linearize_control_flow` is correct: the goto machine over `linearize flow` computes `Flow.run`.
-/
set_option linter.unusedSimpArgs false
namespace AasVerif.Yielding

/-- the labels of `F` are `l, l+1, …` -/
def LabelsFrom (l : Nat) (F : List Stmt) : Prop :=
  F.map (·.label) = (List.range' l F.length).map some

theorem LabelsFrom.append {l : Nat} {A B : List Stmt} (ha : LabelsFrom l A)
    (hb : LabelsFrom (l + A.length) B) : LabelsFrom l (A ++ B) := by
  unfold LabelsFrom at *
  rw [List.map_append, ha, hb, List.length_append, ← List.map_append]
  congr 1
  rw [List.range'_append_1]

theorem LabelsFrom.single (l : Nat) (op : Op) : LabelsFrom l [⟨some l, op⟩] := by
  simp [LabelsFrom]

theorem LabelsFrom.nil (l : Nat) : LabelsFrom l [] := by
  simp [LabelsFrom]

theorem linNode_ne (n : Node) (l : Nat) : (linNode n l).1 ≠ [] := by
  cases n <;> simp [linNode]

theorem linSeq_ne (ns : List Node) (l : Nat) (h : ns ≠ []) : (linSeq ns l).1 ≠ [] := by
  cases ns with
  | nil => exact absurd rfl h
  | cons n ns => simp [linSeq, linNode_ne]

/-- Under the constructor preconditions, the next free label is `l + number of statements`
and the labels are consecutive from `l`. -/
def LinSpec (r : List Stmt × Nat) (l : Nat) : Prop :=
  r.2 = l + r.1.length ∧ LabelsFrom l r.1

mutual
theorem linNode_spec : ∀ (n : Node) (l : Nat), n.wf = true → LinSpec (linNode n l) l
  | .command c, l, _ => by simp [linNode, LinSpec, LabelsFrom]
  | .yield, l, _ => by simp [linNode, LinSpec, LabelsFrom]
  | .ifThen pos c body, l, h => by
    simp only [Node.wf, Bool.and_eq_true, Bool.not_eq_true', List.isEmpty_eq_false_iff] at h
    obtain ⟨hb1, hb2⟩ := linSeq_spec body (l + 1) h.2
    have hne := linSeq_ne body (l + 1) h.1
    simp only [linNode, LinSpec, List.isEmpty_iff, hne, if_false]
    refine ⟨by simp only [List.length_append, List.length_cons, List.length_nil]; omega, ?_⟩
    rw [hb1]
    refine LabelsFrom.append (LabelsFrom.append (LabelsFrom.append ?_ (LabelsFrom.nil _)) ?_) ?_
    · simp [ifStmt, LabelsFrom]
    · simpa using hb2
    · simp only [List.length_append, List.length_cons, List.length_nil]
      have : l + (0 + 1 + 0 + (linSeq body (l + 1)).fst.length) = l + 1 + (linSeq body (l + 1)).fst.length := by omega
      rw [this]; exact LabelsFrom.single _ _
  | .ifElse pos c body els, l, h => by
    simp only [Node.wf, Bool.and_eq_true, Bool.not_eq_true', List.isEmpty_eq_false_iff] at h
    obtain ⟨hb1, hb2⟩ := linSeq_spec body (l + 1) h.1.2
    obtain ⟨he1, he2⟩ := linSeq_spec els ((linSeq body (l + 1)).2 + 1) h.2
    simp only [linNode, LinSpec]
    refine ⟨by simp only [List.length_append, List.length_cons, List.length_nil]; omega, ?_⟩
    refine LabelsFrom.append (LabelsFrom.append (LabelsFrom.append (LabelsFrom.append ?_ ?_) ?_) ?_) ?_
    · simp [ifStmt, LabelsFrom]
    · simpa using hb2
    · simp only [List.length_append, List.length_cons, List.length_nil]
      have : l + (0 + 1 + (linSeq body (l + 1)).fst.length) = (linSeq body (l + 1)).2 := by omega
      rw [this]; exact LabelsFrom.single _ _
    · simp only [List.length_append, List.length_cons, List.length_nil]
      have : l + (0 + 1 + (linSeq body (l + 1)).fst.length + (0 + 1)) = (linSeq body (l + 1)).2 + 1 := by omega
      rw [this]; exact he2
    · simp only [List.length_append, List.length_cons, List.length_nil]
      have : l + (0 + 1 + (linSeq body (l + 1)).fst.length + (0 + 1) + (linSeq els ((linSeq body (l + 1)).snd + 1)).fst.length) = (linSeq els ((linSeq body (l + 1)).snd + 1)).2 := by omega
      rw [this]; exact LabelsFrom.single _ _
  | .forLoop none c it body, l, h => by
    simp only [Node.wf] at h
    obtain ⟨hb1, hb2⟩ := linSeq_spec body (l + 1) h
    simp only [linNode, LinSpec]
    refine ⟨by simp only [List.length_append, List.length_cons, List.length_nil]; omega, ?_⟩
    refine LabelsFrom.append (LabelsFrom.append (LabelsFrom.append (LabelsFrom.nil _) ?_) ?_) ?_
    · simp [LabelsFrom]
    · simpa using hb2
    · simp only [List.length_append, List.length_cons, List.length_nil]
      have : l + (0 + (0 + 1) + (linSeq body (l + 1)).fst.length) = (linSeq body (l + 1)).2 := by omega
      rw [this]; simp [LabelsFrom, List.range']
  | .forLoop (some i) c it body, l, h => by
    simp only [Node.wf] at h
    obtain ⟨hb1, hb2⟩ := linSeq_spec body (l + 1 + 1) h
    simp only [linNode, LinSpec]
    refine ⟨by simp only [List.length_append, List.length_cons, List.length_nil]; omega, ?_⟩
    refine LabelsFrom.append (LabelsFrom.append (LabelsFrom.append (LabelsFrom.single _ _) ?_) ?_) ?_
    · simp [LabelsFrom]
    · simpa using hb2
    · simp only [List.length_append, List.length_cons, List.length_nil]
      have : l + (0 + 1 + (0 + 1) + (linSeq body (l + 1 + 1)).fst.length) = (linSeq body (l + 1 + 1)).2 := by omega
      rw [this]; simp [LabelsFrom, List.range']
  | .whileLoop c body, l, h => by
    simp only [Node.wf] at h
    obtain ⟨hb1, hb2⟩ := linSeq_spec body (l + 1) h
    simp only [linNode, LinSpec]
    refine ⟨by simp only [List.length_append, List.length_cons, List.length_nil]; omega, ?_⟩
    refine LabelsFrom.append (LabelsFrom.append ?_ ?_) ?_
    · simp [LabelsFrom]
    · simpa using hb2
    · simp only [List.length_append, List.length_cons, List.length_nil]
      have : l + (0 + 1 + (linSeq body (l + 1)).fst.length) = (linSeq body (l + 1)).2 := by omega
      rw [this]; simp [LabelsFrom, List.range']
theorem linSeq_spec : ∀ (ns : List Node) (l : Nat), wfSeq ns = true → LinSpec (linSeq ns l) l
  | [], l, _ => by simp [linSeq, LinSpec, LabelsFrom]
  | n :: ns, l, h => by
    simp only [wfSeq, Bool.and_eq_true] at h
    obtain ⟨ha1, ha2⟩ := linNode_spec n l h.1
    obtain ⟨hr1, hr2⟩ := linSeq_spec ns (linNode n l).2 h.2
    simp only [linSeq, LinSpec]
    refine ⟨by simp only [List.length_append, List.length_cons, List.length_nil]; omega, ?_⟩
    refine LabelsFrom.append ha2 ?_
    rw [← ha1]; exact hr2
end


theorem linSeq_snd (ns : List Node) (l : Nat) (h : wfSeq ns = true) :
    (linSeq ns l).2 = l + (linSeq ns l).1.length := (linSeq_spec ns l h).1

theorem linNode_snd (n : Node) (l : Nat) (h : n.wf = true) :
    (linNode n l).2 = l + (linNode n l).1.length := (linNode_spec n l h).1

/-! explicit shapes of the linearized nodes (under the constructor preconditions) -/

theorem linNode_ifThen (pos : Bool) (c : Code) (body : List Node) (l : Nat)
    (hne : body ≠ []) (hb : wfSeq body = true) :
    (linNode (.ifThen pos c body) l).1 =
      ifStmt pos c l (l + 1 + (linSeq body (l + 1)).1.length) ::
        ((linSeq body (l + 1)).1 ++ [⟨some (l + 1 + (linSeq body (l + 1)).1.length), .noop⟩]) := by
  have hne' := linSeq_ne body (l + 1) hne
  simp only [linNode, List.isEmpty_iff, hne', if_false, linSeq_snd body (l + 1) hb]
  simp

theorem linNode_ifElse (pos : Bool) (c : Code) (body els : List Node) (l : Nat)
    (hb : wfSeq body = true) (he : wfSeq els = true) :
    (linNode (.ifElse pos c body els) l).1 =
      ifStmt pos c l (l + 1 + (linSeq body (l + 1)).1.length + 1) ::
        ((linSeq body (l + 1)).1 ++
          ⟨some (l + 1 + (linSeq body (l + 1)).1.length),
            .jump (l + 1 + (linSeq body (l + 1)).1.length + 1
              + (linSeq els (l + 1 + (linSeq body (l + 1)).1.length + 1)).1.length)⟩ ::
          ((linSeq els (l + 1 + (linSeq body (l + 1)).1.length + 1)).1 ++
            [⟨some (l + 1 + (linSeq body (l + 1)).1.length + 1
              + (linSeq els (l + 1 + (linSeq body (l + 1)).1.length + 1)).1.length), .noop⟩])) := by
  simp only [linNode, linSeq_snd body (l + 1) hb, linSeq_snd els _ he]
  simp

theorem linNode_forNone (c it : Code) (body : List Node) (l : Nat) (hb : wfSeq body = true) :
    (linNode (.forLoop none c it body) l).1 =
      ⟨some l, .ifJ c none (some (l + 1 + (linSeq body (l + 1)).1.length + 2))⟩ ::
        ((linSeq body (l + 1)).1 ++
          [⟨some (l + 1 + (linSeq body (l + 1)).1.length), .command it⟩,
           ⟨some (l + 1 + (linSeq body (l + 1)).1.length + 1), .jump l⟩,
           ⟨some (l + 1 + (linSeq body (l + 1)).1.length + 2), .noop⟩]) := by
  simp only [linNode, linSeq_snd body (l + 1) hb]
  simp

theorem linNode_forSome (i c it : Code) (body : List Node) (l : Nat) :
    (linNode (.forLoop (some i) c it body) l).1 =
      ⟨some l, .command i⟩ :: (linNode (.forLoop none c it body) (l + 1)).1 := by
  simp [linNode]

theorem linNode_while (c : Code) (body : List Node) (l : Nat) (hb : wfSeq body = true) :
    (linNode (.whileLoop c body) l).1 =
      ⟨some l, .ifJ c none (some (l + 1 + (linSeq body (l + 1)).1.length + 1))⟩ ::
        ((linSeq body (l + 1)).1 ++
          [⟨some (l + 1 + (linSeq body (l + 1)).1.length), .jump l⟩,
           ⟨some (l + 1 + (linSeq body (l + 1)).1.length + 1), .noop⟩]) := by
  simp only [linNode, linSeq_snd body (l + 1) hb]
  simp

/-! positions -/

/-- the fragment `F` sits in `C` at position `pc` -/
def At (C : List Stmt) (pc : Nat) (F : List Stmt) : Prop :=
  ∃ pre post, C = pre ++ F ++ post ∧ pre.length = pc

theorem At.self (C : List Stmt) : At C 0 C := ⟨[], [], by simp, rfl⟩

theorem At.le {C pc F} (h : At C pc F) : pc + F.length ≤ C.length := by
  obtain ⟨pre, post, rfl, rfl⟩ := h
  simp

theorem At.head {C pc s F} (h : At C pc (s :: F)) : C[pc]? = some s := by
  obtain ⟨pre, post, rfl, rfl⟩ := h
  simp

theorem At.tail {C pc s F} (h : At C pc (s :: F)) : At C (pc + 1) F := by
  obtain ⟨pre, post, rfl, rfl⟩ := h
  exact ⟨pre ++ [s], post, by simp, by simp⟩

theorem At.single {C pc s F} (h : At C pc (s :: F)) : At C pc [s] := by
  obtain ⟨pre, post, rfl, rfl⟩ := h
  exact ⟨pre, F ++ post, by simp, rfl⟩

theorem At.left {C pc A B} (h : At C pc (A ++ B)) : At C pc A := by
  obtain ⟨pre, post, rfl, rfl⟩ := h
  exact ⟨pre, B ++ post, by simp, rfl⟩

theorem At.right {C pc A B} (h : At C pc (A ++ B)) : At C (pc + A.length) B := by
  obtain ⟨pre, post, rfl, rfl⟩ := h
  exact ⟨pre ++ A, post, by simp, by simp⟩

theorem LabelsFrom.cons_iff {l : Nat} {s : Stmt} {F : List Stmt} :
    LabelsFrom l (s :: F) ↔ s.label = some l ∧ LabelsFrom (l + 1) F := by
  simp [LabelsFrom, List.range']

theorem findLabel_from : ∀ {F : List Stmt} {l : Nat}, LabelsFrom l F → ∀ t, l ≤ t →
    t < l + F.length → findLabel F t = some (t - l)
  | [], l, _, t, h1, h2 => by simp at h2; omega
  | s :: F, l, h, t, h1, h2 => by
    rw [LabelsFrom.cons_iff] at h
    simp only [findLabel, h.1, Option.some.injEq]
    by_cases hlt : l = t
    · simp [hlt]
    · simp only [hlt, if_false]
      rw [findLabel_from h.2 t (by omega) (by simp at h2; omega)]
      simp; omega

theorem findLabel_labeled {C : List Stmt} (h : LabelsFrom 0 C) {t : Nat} (ht : t < C.length) :
    findLabel C t = some t := by
  simpa using findLabel_from h t (by omega) (by omega)

/-! one step of the goto machine -/

theorem flatStep_end {C : List Stmt} {pc orc} (h : C.length ≤ pc) :
    flatStep C pc orc = .halt none .ended := by
  simp [flatStep, List.getElem?_eq_none h]

theorem flatStep_noop {C : List Stmt} {pc orc l} (h : C[pc]? = some ⟨l, .noop⟩) :
    flatStep C pc orc = .next none (pc + 1) orc := by
  simp [flatStep, h, act]

theorem flatStep_command {C : List Stmt} {pc orc l c} (h : C[pc]? = some ⟨l, .command c⟩) :
    flatStep C pc orc = .next (some (.cmd c)) (pc + 1) orc := by
  simp [flatStep, h, act]

theorem flatStep_yield {C : List Stmt} {pc orc l} (h : C[pc]? = some ⟨l, .yield⟩) :
    flatStep C pc orc = .next (some .yield) (pc + 1) orc := by
  simp [flatStep, h, act]

theorem flatStep_jump {C : List Stmt} {pc orc l t p} (h : C[pc]? = some ⟨l, .jump t⟩)
    (ht : findLabel C t = some p) :
    flatStep C pc orc = .next none p orc := by
  simp [flatStep, h, act, ht]

theorem flatStep_if_nil {C : List Stmt} {pc l c a b} (h : C[pc]? = some ⟨l, .ifJ c a b⟩)
    (hab : a.isSome ∨ b.isSome) :
    flatStep C pc [] = .halt none .exhausted := by
  rcases hab with hab | hab <;> simp [flatStep, h, act, Option.isSome_iff_ne_none.mp hab]

/-- `ifStmt pos …`: falls through when the outcome equals the polarity, jumps otherwise -/
theorem flatStep_ifStmt_fall {C : List Stmt} {pc orc pos c l t}
    (h : C[pc]? = some (ifStmt pos c l t)) :
    flatStep C pc (pos :: orc) = .next (some (.cond c pos)) (pc + 1) orc := by
  cases pos <;> simp [flatStep, h, act, ifStmt]

theorem flatStep_ifStmt_jump {C : List Stmt} {pc orc pos c l t p b}
    (h : C[pc]? = some (ifStmt pos c l t)) (hb : b ≠ pos) (ht : findLabel C t = some p) :
    flatStep C pc (b :: orc) = .next (some (.cond c b)) p orc := by
  cases pos <;> cases b <;> simp_all [flatStep, act, ifStmt]

theorem flatStep_ifStmt_nil {C : List Stmt} {pc pos c l t}
    (h : C[pc]? = some (ifStmt pos c l t)) :
    flatStep C pc [] = .halt none .exhausted := by
  cases pos <;> simp [flatStep, h, act, ifStmt]

/-! representation of a continuation by a position -/

inductive Rep (C : List Stmt) : Nat → List Node → Prop
  | done {pc} : C.length ≤ pc → Rep C pc []
  | noop {pc k l} : C[pc]? = some ⟨l, .noop⟩ → Rep C (pc + 1) k → Rep C pc k
  | jump {pc k l t p} : C[pc]? = some ⟨l, .jump t⟩ → findLabel C t = some p → Rep C p k →
      Rep C pc k
  | node {pc n k} : At C pc (linNode n pc).1 → Rep C (pc + (linNode n pc).1.length) k →
      Rep C pc (n :: k)

theorem Rep.seq {C : List Stmt} : ∀ (ns : List Node) {pc : Nat} {k : List Node},
    wfSeq ns = true → At C pc (linSeq ns pc).1 → Rep C (pc + (linSeq ns pc).1.length) k →
    Rep C pc (ns ++ k)
  | [], pc, k, _, _, h => by simpa [linSeq] using h
  | n :: ns, pc, k, hwf, hAt, h => by
    simp only [wfSeq, Bool.and_eq_true] at hwf
    simp only [linSeq, linNode_snd n pc hwf.1] at hAt h
    refine Rep.node hAt.left (Rep.seq ns hwf.2 hAt.right ?_)
    simpa [Nat.add_assoc] using h

theorem Rep.conv_nil {C : List Stmt} {pc : Nat} {k : List Node} (h : Rep C pc k) (hk : k = [])
    (orc : List Bool) : Conv (flatStep C) pc orc ⟨[], .ended⟩ := by
  induction h with
  | done hpc => exact Conv.halt (ev := none) (flatStep_end hpc) (by simp)
  | noop hc _ ih => exact Conv.silent (flatStep_noop hc) (ih hk)
  | jump hc ht _ ih => exact Conv.silent (flatStep_jump hc ht) (ih hk)
  | node _ _ _ => cases hk

theorem Rep.conv_cons {C : List Stmt} {pc : Nat} {k0 : List Node} (h : Rep C pc k0)
    {n : Node} {k : List Node} (hk : k0 = n :: k) (orc : List Bool) (r : Result)
    (H : ∀ pc', At C pc' (linNode n pc').1 → Rep C (pc' + (linNode n pc').1.length) k →
      Conv (flatStep C) pc' orc r) : Conv (flatStep C) pc orc r := by
  induction h with
  | done hpc => cases hk
  | noop hc _ ih => exact Conv.silent (flatStep_noop hc) (ih hk)
  | jump hc ht _ ih => exact Conv.silent (flatStep_jump hc ht) (ih hk)
  | node hAt hrest _ =>
    cases hk
    exact H _ hAt hrest

theorem Rep.cast {C : List Stmt} {a b : Nat} {k : List Node} (h : Rep C a k) (hab : a = b) :
    Rep C b k := hab ▸ h

theorem wfSeq_append (a b : List Node) : wfSeq (a ++ b) = (wfSeq a && wfSeq b) := by
  induction a with
  | nil => simp [wfSeq]
  | cons n ns ih => simp [wfSeq, ih, Bool.and_assoc]

macro "len_omega" : tactic =>
  `(tactic| first
    | (simp only [List.length_cons, List.length_append, List.length_nil] at *; done)
    | (simp only [List.length_cons, List.length_append, List.length_nil] at *; omega)
    | omega)

theorem lin_sim {C : List Stmt} (hL : LabelsFrom 0 C) : ∀ (todo : List Node) (orc : List Bool)
    (pc : Nat), wfSeq todo = true → Rep C pc todo →
    Conv (flatStep C) pc orc (Flow.run todo orc) := by
  intro todo orc
  fun_induction Flow.run todo orc
  all_goals intro pc hwf hrep
  case case1 => exact hrep.conv_nil rfl _
  case case2 c k orc ih =>
    simp only [wfSeq, Node.wf, Bool.true_and] at hwf
    apply Rep.conv_cons hrep rfl; intro pc' hAt hRest
    simp only [linNode] at hAt hRest
    exact Conv.next (flatStep_command hAt.head) (ih _ hwf (hRest.cast (by len_omega)))
  case case3 k orc ih =>
    simp only [wfSeq, Node.wf, Bool.true_and] at hwf
    apply Rep.conv_cons hrep rfl; intro pc' hAt hRest
    simp only [linNode] at hAt hRest
    exact Conv.next (flatStep_yield hAt.head) (ih _ hwf (hRest.cast (by len_omega)))
  case case4 pos c body tail =>
    simp only [wfSeq, Node.wf, Bool.and_eq_true, Bool.not_eq_true', List.isEmpty_eq_false_iff] at hwf
    apply Rep.conv_cons hrep rfl; intro pc' hAt hRest
    rw [linNode_ifThen _ _ _ _ hwf.1.1 hwf.1.2] at hAt
    exact Conv.halt (ev := none) (flatStep_ifStmt_nil hAt.head) (by simp)
  case case5 pos c body k b orc ih =>
    simp only [wfSeq, Node.wf, Bool.and_eq_true, Bool.not_eq_true', List.isEmpty_eq_false_iff] at hwf
    obtain ⟨⟨hne, hb⟩, hk⟩ := hwf
    apply Rep.conv_cons hrep rfl; intro pc' hAt hRest
    rw [linNode_ifThen _ _ _ _ hne hb] at hAt hRest
    have hif := hAt.head
    have hB := hAt.tail.left
    have hN := hAt.tail.right
    have hRest' : Rep C (pc' + 1 + (linSeq body (pc' + 1)).1.length + 1) k :=
      hRest.cast (by len_omega)
    by_cases hbp : b = pos
    · subst hbp
      simp only [if_true, dite_true] at ih ⊢
      exact Conv.next (flatStep_ifStmt_fall hif)
        (ih _ (by simp [wfSeq_append, hb, hk]) (Rep.seq body hb hB (Rep.noop hN.head hRest')))
    · simp only [hbp, if_false, dite_false] at ih ⊢
      have ht := findLabel_labeled hL (t := pc' + 1 + (linSeq body (pc' + 1)).1.length)
        (by have := hN.le; len_omega)
      exact Conv.next (flatStep_ifStmt_jump hif hbp ht) (ih _ hk (Rep.noop hN.head hRest'))
  case case6 pos c body els tail =>
    simp only [wfSeq, Node.wf, Bool.and_eq_true, Bool.not_eq_true', List.isEmpty_eq_false_iff] at hwf
    apply Rep.conv_cons hrep rfl; intro pc' hAt hRest
    rw [linNode_ifElse _ _ _ _ _ hwf.1.1.2 hwf.1.2] at hAt
    exact Conv.halt (ev := none) (flatStep_ifStmt_nil hAt.head) (by simp)
  case case7 pos c body els k b orc ih =>
    simp only [wfSeq, Node.wf, Bool.and_eq_true, Bool.not_eq_true', List.isEmpty_eq_false_iff] at hwf
    obtain ⟨⟨⟨hne, hb⟩, he⟩, hk⟩ := hwf
    apply Rep.conv_cons hrep rfl; intro pc' hAt hRest
    rw [linNode_ifElse _ _ _ _ _ hb he] at hAt hRest
    have hif := hAt.head
    have hB := hAt.tail.left
    have hJ := hAt.tail.right
    have hE := hJ.tail.left
    have hN := hJ.tail.right
    have hRest' : Rep C (pc' + 1 + (linSeq body (pc' + 1)).1.length + 1
        + (linSeq els (pc' + 1 + (linSeq body (pc' + 1)).1.length + 1)).1.length + 1) k :=
      hRest.cast (by len_omega)
    have hDone : Rep C (pc' + 1 + (linSeq body (pc' + 1)).1.length + 1
        + (linSeq els (pc' + 1 + (linSeq body (pc' + 1)).1.length + 1)).1.length) k :=
      Rep.noop hN.head hRest'
    by_cases hbp : b = pos
    · subst hbp
      simp only [if_true, dite_true] at ih ⊢
      have ht := findLabel_labeled hL (t := pc' + 1 + (linSeq body (pc' + 1)).1.length + 1
        + (linSeq els (pc' + 1 + (linSeq body (pc' + 1)).1.length + 1)).1.length)
        (by have := hN.le; len_omega)
      exact Conv.next (flatStep_ifStmt_fall hif)
        (ih _ (by simp [wfSeq_append, hb, hk]) (Rep.seq body hb hB (Rep.jump hJ.head ht hDone)))
    · simp only [hbp, if_false, dite_false] at ih ⊢
      have ht := findLabel_labeled hL (t := pc' + 1 + (linSeq body (pc' + 1)).1.length + 1)
        (by have := hN.le; len_omega)
      exact Conv.next (flatStep_ifStmt_jump hif hbp ht)
        (ih _ (by simp [wfSeq_append, he, hk]) (Rep.seq els he hE hDone))
  case case8 i c it body k orc ih =>
    simp only [wfSeq, Node.wf, Bool.and_eq_true] at hwf
    apply Rep.conv_cons hrep rfl; intro pc' hAt hRest
    rw [linNode_forSome] at hAt hRest
    refine Conv.next (flatStep_command hAt.head) (ih _ (by simp [wfSeq, Node.wf, hwf]) ?_)
    exact Rep.node hAt.tail (hRest.cast (by len_omega))
  case case9 c it body tail =>
    simp only [wfSeq, Node.wf, Bool.and_eq_true] at hwf
    apply Rep.conv_cons hrep rfl; intro pc' hAt hRest
    rw [linNode_forNone _ _ _ _ hwf.1] at hAt
    exact Conv.halt (ev := none) (flatStep_if_nil hAt.head (by simp)) (by simp)
  case case10 c it body k b orc ih =>
    simp only [wfSeq, Node.wf, Bool.and_eq_true] at hwf
    obtain ⟨hb, hk⟩ := hwf
    apply Rep.conv_cons hrep rfl; intro pc' hAt hRest
    have hAt0 := hAt
    have hRest0 := hRest
    rw [linNode_forNone _ _ _ _ hb] at hAt hRest
    have hif := hAt.head
    have hB := hAt.tail.left
    have hI := hAt.tail.right
    have hJ := hI.tail
    have hN := hJ.tail
    have hRest' : Rep C (pc' + 1 + (linSeq body (pc' + 1)).1.length + 2 + 1) k :=
      hRest.cast (by len_omega)
    cases b with
    | true =>
      simp only [if_true, dite_true] at ih ⊢
      have ht := findLabel_labeled hL (t := pc') (by have := hN.le; len_omega)
      have hstep : flatStep C pc' (true :: orc) = .next (some (.cond c true)) (pc' + 1) orc := by
        simp [flatStep, hif, act]
      refine Conv.next hstep (ih _ (by simp [wfSeq_append, wfSeq, Node.wf, hb, hk])
        (Rep.seq body hb hB ?_))
      refine Rep.node (n := .command it) ?_ ?_
      · simp only [linNode]
        exact hI.single
      · simp only [linNode, List.length_cons, List.length_nil]
        exact Rep.jump hJ.head ht (Rep.node hAt0 hRest0)
    | false =>
      simp only [if_false, dite_false, Bool.false_eq_true] at ih ⊢
      have ht := findLabel_labeled hL (t := pc' + 1 + (linSeq body (pc' + 1)).1.length + 2)
        (by have := hN.le; len_omega)
      have hstep : flatStep C pc' (false :: orc) = .next (some (.cond c false))
          (pc' + 1 + (linSeq body (pc' + 1)).1.length + 2) orc := by
        simp [flatStep, hif, act, ht]
      exact Conv.next hstep (ih _ hk (Rep.noop hN.head hRest'))
  case case11 c body tail =>
    simp only [wfSeq, Node.wf, Bool.and_eq_true] at hwf
    apply Rep.conv_cons hrep rfl; intro pc' hAt hRest
    rw [linNode_while _ _ _ hwf.1] at hAt
    exact Conv.halt (ev := none) (flatStep_if_nil hAt.head (by simp)) (by simp)
  case case12 c body k b orc ih =>
    simp only [wfSeq, Node.wf, Bool.and_eq_true] at hwf
    obtain ⟨hb, hk⟩ := hwf
    apply Rep.conv_cons hrep rfl; intro pc' hAt hRest
    have hAt0 := hAt
    have hRest0 := hRest
    rw [linNode_while _ _ _ hb] at hAt hRest
    have hif := hAt.head
    have hB := hAt.tail.left
    have hJ := hAt.tail.right
    have hN := hJ.tail
    have hRest' : Rep C (pc' + 1 + (linSeq body (pc' + 1)).1.length + 1 + 1) k :=
      hRest.cast (by len_omega)
    cases b with
    | true =>
      simp only [if_true, dite_true] at ih ⊢
      have ht := findLabel_labeled hL (t := pc') (by have := hN.le; len_omega)
      have hstep : flatStep C pc' (true :: orc) = .next (some (.cond c true)) (pc' + 1) orc := by
        simp [flatStep, hif, act]
      exact Conv.next hstep (ih _ (by simp [wfSeq_append, wfSeq, Node.wf, hb, hk])
        (Rep.seq body hb hB (Rep.jump hJ.head ht (Rep.node hAt0 hRest0))))
    | false =>
      simp only [if_false, dite_false, Bool.false_eq_true] at ih ⊢
      have ht := findLabel_labeled hL (t := pc' + 1 + (linSeq body (pc' + 1)).1.length + 1)
        (by have := hN.le; len_omega)
      have hstep : flatStep C pc' (false :: orc) = .next (some (.cond c false))
          (pc' + 1 + (linSeq body (pc' + 1)).1.length + 1) orc := by
        simp [flatStep, hif, act, ht]
      exact Conv.next hstep (ih _ hk (Rep.noop hN.head hRest'))


theorem linearize_labels (flow : List Node) (hwf : wfSeq flow = true) :
    LabelsFrom 0 (linearize flow) := (linSeq_spec flow 0 hwf).2

/-- `_linearize_control_flow` is correct. -/
theorem linearize_conv (flow : List Node) (hwf : wfSeq flow = true) (orc : List Bool) :
    Conv (flatStep (linearize flow)) 0 orc (Flow.run flow orc) := by
  have hrep : Rep (linearize flow) 0 (flow ++ []) :=
    Rep.seq flow hwf (At.self _) (Rep.done (by simp [linearize]))
  simp only [List.append_nil] at hrep
  exact lin_sim (linearize_labels flow hwf) flow orc 0 hwf hrep

end AasVerif.Yielding
