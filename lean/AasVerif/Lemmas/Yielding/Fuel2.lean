import AasVerif.Lemmas.Yielding.Fuel
import AasVerif.Lemmas.Yielding.Invariants
/-!
`linearize flow` satisfies `BackIf`: the only jumps that do not go forward are the loop-closing
jumps, and they land on the `If` of the loop head.
-/
set_option linter.unusedSimpArgs false
namespace AasVerif.Yielding

/-- statements of `G` (positions = labels): every target is further down or is the label of an
`If` of `F` -/
def BI (F G : List Stmt) : Prop :=
  ∀ s ∈ G, ∀ p, s.label = some p → ∀ t ∈ s.op.targets,
    p < t ∨ ∃ s' ∈ F, s'.label = some t ∧ s'.isIf = true

theorem BI.mono {F F' G : List Stmt} (h : BI F G) (hF : ∀ s ∈ F, s ∈ F') : BI F' G :=
  fun s hs p hp t ht => by
    rcases h s hs p hp t ht with h1 | ⟨s', hs', h2⟩
    · exact Or.inl h1
    · exact Or.inr ⟨s', hF s' hs', h2⟩

theorem BI.append {F A B : List Stmt} (ha : BI F A) (hb : BI F B) : BI F (A ++ B) :=
  fun s hs => by
    rcases List.mem_append.mp hs with h | h
    · exact ha s h
    · exact hb s h

theorem BI.cons {F B : List Stmt} {s : Stmt} (ha : BI F [s]) (hb : BI F B) : BI F (s :: B) :=
  BI.append (A := [s]) ha hb

theorem BI.no_targets {F : List Stmt} {s : Stmt} (h : s.op.targets = []) : BI F [s] :=
  fun x hx p _ t ht => by simp at hx; subst hx; simp [h] at ht

theorem BI.forward {F : List Stmt} {s : Stmt} {p : Nat} (hl : s.label = some p)
    (h : ∀ t ∈ s.op.targets, p < t) : BI F [s] :=
  fun x hx q hq t ht => by
    simp at hx; subst hx
    rw [hl] at hq; cases hq
    exact Or.inl (h t ht)

theorem BI.back {F : List Stmt} {lab : Option Nat} {l : Nat} {s' : Stmt} (hs' : s' ∈ F)
    (hl : s'.label = some l) (hif : s'.isIf = true) : BI F [⟨lab, .jump l⟩] :=
  fun x hx q _ t ht => by
    simp at hx; subst hx
    simp at ht; subst ht
    exact Or.inr ⟨s', hs', hl, hif⟩

theorem ifStmt_label (pos : Bool) (c : Code) (l t : Nat) : (ifStmt pos c l t).label = some l := by
  cases pos <;> rfl

mutual
theorem linNode_BI : ∀ (n : Node) (l : Nat), n.wf = true → BI (linNode n l).1 (linNode n l).1
  | .command c, l, _ => by simp only [linNode]; exact BI.no_targets rfl
  | .yield, l, _ => by simp only [linNode]; exact BI.no_targets rfl
  | .ifThen pos c body, l, h => by
    simp only [Node.wf, Bool.and_eq_true, Bool.not_eq_true', List.isEmpty_eq_false_iff] at h
    have hb := linSeq_BI body (l + 1) h.2
    rw [linNode_ifThen _ _ _ _ h.1 h.2]
    refine BI.cons (BI.forward (ifStmt_label ..) ?_) (BI.append (hb.mono ?_) (BI.no_targets rfl))
    · intro t ht; simp at ht; omega
    · intro s hs; simp [hs]
  | .ifElse pos c body els, l, h => by
    simp only [Node.wf, Bool.and_eq_true, Bool.not_eq_true', List.isEmpty_eq_false_iff] at h
    have hb := linSeq_BI body (l + 1) h.1.2
    have he := linSeq_BI els (l + 1 + (linSeq body (l + 1)).1.length + 1) h.2
    rw [linNode_ifElse _ _ _ _ _ h.1.2 h.2]
    refine BI.cons (BI.forward (ifStmt_label ..) ?_) (BI.append (hb.mono ?_)
      (BI.cons (BI.forward rfl ?_) (BI.append (he.mono ?_) (BI.no_targets rfl))))
    · intro t ht; simp at ht; omega
    · intro s hs; simp [hs]
    · intro t ht; simp at ht; omega
    · intro s hs; simp [hs]
  | .forLoop none c it body, l, h => by
    simp only [Node.wf] at h
    have hb := linSeq_BI body (l + 1) h
    rw [linNode_forNone _ _ _ _ h]
    refine BI.cons (BI.forward rfl ?_) (BI.append (hb.mono ?_)
      (BI.cons (BI.no_targets rfl) (BI.cons (BI.back (s' := ⟨some l, .ifJ c none (some (l + 1 + (linSeq body (l + 1)).1.length + 2))⟩) ?_ rfl rfl)
        (BI.no_targets rfl))))
    · intro t ht; simp at ht; omega
    · intro s hs; simp [hs]
    · simp
  | .forLoop (some i) c it body, l, h => by
    simp only [Node.wf] at h
    have hb := linSeq_BI body (l + 1 + 1) h
    rw [linNode_forSome, linNode_forNone _ _ _ _ h]
    refine BI.cons (BI.no_targets rfl) (BI.cons (BI.forward rfl ?_) (BI.append (hb.mono ?_)
      (BI.cons (BI.no_targets rfl) (BI.cons (BI.back (s' := ⟨some (l + 1), .ifJ c none (some (l + 1 + 1 + (linSeq body (l + 1 + 1)).1.length + 2))⟩) ?_ rfl rfl)
        (BI.no_targets rfl)))))
    · intro t ht; simp at ht; omega
    · intro s hs; simp [hs]
    · simp
  | .whileLoop c body, l, h => by
    simp only [Node.wf] at h
    have hb := linSeq_BI body (l + 1) h
    rw [linNode_while _ _ _ h]
    refine BI.cons (BI.forward rfl ?_) (BI.append (hb.mono ?_)
      (BI.cons (BI.back (s' := ⟨some l, .ifJ c none (some (l + 1 + (linSeq body (l + 1)).1.length + 1))⟩) ?_ rfl rfl) (BI.no_targets rfl)))
    · intro t ht; simp at ht; omega
    · intro s hs; simp [hs]
    · simp
theorem linSeq_BI : ∀ (ns : List Node) (l : Nat), wfSeq ns = true →
    BI (linSeq ns l).1 (linSeq ns l).1
  | [], l, _ => by simp [linSeq, BI]
  | n :: ns, l, h => by
    simp only [wfSeq, Bool.and_eq_true] at h
    have ha := linNode_BI n l h.1
    have hr := linSeq_BI ns (linNode n l).2 h.2
    simp only [linSeq]
    exact BI.append (ha.mono (fun s hs => by simp [hs])) (hr.mono (fun s hs => by simp [hs]))
end

theorem labelsFrom_get : ∀ {F : List Stmt} {k p : Nat} {s : Stmt}, LabelsFrom k F →
    F[p]? = some s → s.label = some (k + p)
  | [], _, _, _, _, h => by simp at h
  | x :: F, k, 0, s, hL, h => by
    rw [LabelsFrom.cons_iff] at hL
    simp at h; subst h; simpa using hL.1
  | x :: F, k, p + 1, s, hL, h => by
    rw [LabelsFrom.cons_iff] at hL
    simp only [List.getElem?_cons_succ] at h
    have := labelsFrom_get hL.2 h
    rw [this]; congr 1; omega

theorem linearize_backIf (flow : List Node) (hwf : wfSeq flow = true) : BackIf (linearize flow) := by
  have hL := linearize_labels flow hwf
  have hbi : BI (linearize flow) (linearize flow) := linSeq_BI flow 0 hwf
  intro p s t hs ht
  have hlab : s.label = some p := by simpa using labelsFrom_get hL hs
  rcases hbi s (List.mem_of_getElem? hs) p hlab t ht with h | ⟨s', hs', hl', hif'⟩
  · exact Or.inl h
  · right
    obtain ⟨i, hi⟩ := List.getElem?_of_mem hs'
    have : s'.label = some i := by simpa using labelsFrom_get hL hi
    rw [hl'] at this; cases this
    exact ⟨s', hi, hif'⟩

end AasVerif.Yielding
