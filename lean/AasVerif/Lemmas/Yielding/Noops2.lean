import AasVerif.Lemmas.Yielding.Noops
/-!
`_remove_noops_in_place`: shape of the surviving statements and the `simCheck` certificate.
-/
set_option linter.unusedSimpArgs false
namespace AasVerif.Yielding

theorem sweep_cons_noop {s : Stmt} (ss : List Stmt) (B : List Nat) (h : s.isNoop = true) :
    sweep (s :: ss) B = sweep ss (B ++ s.label.toList) := by
  cases B <;> simp [sweep, h]

theorem sweep_cons_real {s : Stmt} (ss : List Stmt) (B : List Nat) (h : s.isNoop = false) :
    ∃ lab m0, sweep (s :: ss) B = (⟨lab, s.op⟩ :: (sweep ss []).1, m0 ++ (sweep ss []).2) := by
  cases B with
  | nil => exact ⟨s.label, [], by simp [sweep, h]⟩
  | cons b0 B' =>
    exact ⟨some (s.label.getD b0), (b0 :: B').map (fun x => (x, s.label.getD b0)), by simp [sweep, h]⟩

/-- does the sweep end with a pending (trailing) block of no-ops? -/
def trail : List Stmt → List Nat → Bool
  | [], B => !B.isEmpty
  | s :: ss, B => if s.isNoop then trail ss (B ++ s.label.toList) else trail ss []

theorem sweep_len : ∀ (D : List Stmt) (B : List Nat),
    (sweep D B).1.length = nn D + (if trail D B then 1 else 0)
  | [], [] => by simp [sweep, trail]
  | [], b0 :: rest => by simp [sweep, trail]
  | s :: ss, B => by
    by_cases h : s.isNoop = true
    · rw [sweep_cons_noop ss B h, sweep_len ss _, nn_cons]
      simp [trail, h]
    · simp only [Bool.not_eq_true] at h
      obtain ⟨lab, m0, hsw⟩ := sweep_cons_real ss B h
      rw [hsw]
      simp only [List.length_cons, sweep_len ss [], nn_cons, trail, h]
      simp; omega

theorem sweep_get : ∀ (D : List Stmt) (B : List Nat) (p : Nat) (s : Stmt),
    D[p]? = some s → s.isNoop = false →
    ∃ lab, (sweep D B).1[nn (D.take p)]? = some ⟨lab, s.op⟩
  | [], B, p, s, h, _ => by simp at h
  | x :: ss, B, p, s, hp, hs => by
    by_cases h : x.isNoop = true
    · rw [sweep_cons_noop ss B h]
      cases p with
      | zero => simp at hp; subst hp; simp [h] at hs
      | succ p =>
        simp only [List.getElem?_cons_succ] at hp
        obtain ⟨lab, hl⟩ := sweep_get ss _ p s hp hs
        exact ⟨lab, by simpa [nn_cons, h] using hl⟩
    · simp only [Bool.not_eq_true] at h
      obtain ⟨lab, m0, hsw⟩ := sweep_cons_real ss B h
      rw [hsw]
      cases p with
      | zero => simp at hp; subst hp; exact ⟨lab, by simp⟩
      | succ p =>
        simp only [List.getElem?_cons_succ] at hp
        obtain ⟨lab', hl⟩ := sweep_get ss [] p s hp hs
        refine ⟨lab', ?_⟩
        simp only [List.take_succ_cons, nn_cons, h, Bool.false_eq_true, if_false]
        rw [Nat.add_comm, List.getElem?_cons_succ]
        exact hl

theorem sweep_trail_get : ∀ (D : List Stmt) (B : List Nat), trail D B = true →
    ∃ lab, (sweep D B).1[nn D]? = some ⟨lab, .noop⟩
  | [], [], h => by simp [trail] at h
  | [], b0 :: rest, _ => ⟨some b0, by simp [sweep]⟩
  | s :: ss, B, ht => by
    by_cases h : s.isNoop = true
    · rw [sweep_cons_noop ss B h]
      simp only [trail, h, if_true] at ht
      obtain ⟨lab, hl⟩ := sweep_trail_get ss _ ht
      exact ⟨lab, by simpa [nn_cons, h] using hl⟩
    · simp only [Bool.not_eq_true] at h
      obtain ⟨lab, m0, hsw⟩ := sweep_cons_real ss B h
      rw [hsw]
      simp only [trail, h, Bool.false_eq_true, if_false] at ht
      obtain ⟨lab', hl⟩ := sweep_trail_get ss [] ht
      refine ⟨lab', ?_⟩
      simp only [nn_cons, h, Bool.false_eq_true, if_false]
      rw [Nat.add_comm, List.getElem?_cons_succ]
      exact hl

theorem trail_last : ∀ (D : List Stmt) (B : List Nat) (s : Stmt), NoopsLabelled D →
    D.getLast? = some s → trail D B = s.isNoop
  | [], _, _, _, h => by simp at h
  | [x], B, s, hnl, h => by
    simp at h; subst h
    by_cases hx : x.isNoop = true
    · obtain ⟨l, hl⟩ := Option.isSome_iff_exists.mp (hnl x (by simp) hx)
      simp [trail, hx, hl]
    · simp only [Bool.not_eq_true] at hx
      simp [trail, hx]
  | x :: y :: rest, B, s, hnl, h => by
    have h' : (y :: rest).getLast? = some s := by simpa [List.getLast?_cons_cons] using h
    simp only [trail]
    split
    · exact trail_last (y :: rest) _ s hnl.tail h'
    · exact trail_last (y :: rest) _ s hnl.tail h'

end AasVerif.Yielding
