import AasVerif.Lemmas.Yielding.Machine
import AasVerif.Model.YieldingCheck
/-!
`simCheck C C' phi = true` implies that the goto machine over `C'` started at `phi pc` computes
whatever the machine over `C` computes from `pc` (within the same number of steps).
-/
set_option linter.unusedSimpArgs false
namespace AasVerif.Yielding

theorem findLabel_lt : ∀ {C : List Stmt} {t p : Nat}, findLabel C t = some p → p < C.length
  | [], _, _, h => by simp [findLabel] at h
  | s :: C, t, p, h => by
    simp only [findLabel] at h
    split at h
    · simp at h; subst h; simp
    · cases hq : findLabel C t with
      | none => simp [hq] at h
      | some q =>
        simp [hq] at h
        have := findLabel_lt hq
        simp; omega

def ActRel (T : Nat → Nat → Prop) : Act → Act → Prop
  | .fall e o, .fall e' o' => e = e' ∧ o = o'
  | .goto e l o, .goto e' l' o' => e = e' ∧ o = o' ∧ T l l'
  | .yield, .yield => True
  | .stop s, .stop s' => s = s'
  | _, _ => False

theorem act_check {C C' : List Stmt} {phi : List Nat} {op op' : Op}
    (h : opCheck C C' phi op op' = true) (orc : List Bool) :
    ActRel (fun t t' => tCheck C C' phi t t' = true) (act op orc) (act op' orc) := by
  cases op <;> cases op' <;> simp only [opCheck, Bool.false_eq_true] at h <;>
    try (simp [act, ActRel]; done)
  · simp at h; subst h; simp [act, ActRel]
  · rename_i c a b c' a' b'
    simp only [Bool.and_eq_true, beq_iff_eq] at h
    obtain ⟨⟨rfl, ha⟩, hb⟩ := h
    cases a <;> cases a' <;> simp only [oCheck, Bool.false_eq_true] at ha <;>
    cases b <;> cases b' <;> simp only [oCheck, Bool.false_eq_true] at hb <;>
    cases orc <;> simp [act, ActRel]
    all_goals rename_i bb orc'
    all_goals cases bb <;> simp [ActRel, ha, hb]
  · simp [act, ActRel, h]

theorem simCheck_step {C C' : List Stmt} {phi : List Nat} (h : simCheck C C' phi = true)
    (a b : Nat) (orc : List Bool) (hR : a ≤ C.length ∧ b = phiAt phi a) :
    (∃ a', flatStep C a orc = .next none a' orc ∧ (a' ≤ C.length ∧ b = phiAt phi a')) ∨
      StepRel (fun a b => a ≤ C.length ∧ b = phiAt phi a) (flatStep C a orc) (flatStep C' b orc) := by
  simp only [simCheck, Bool.and_eq_true, beq_iff_eq, List.all_eq_true, List.mem_range] at h
  obtain ⟨⟨h0, hend⟩, hall⟩ := h
  obtain ⟨hle, rfl⟩ := hR
  by_cases hlt : a < C.length
  · have hok := hall a hlt
    unfold okAt at hok
    have h1 := List.getElem?_eq_getElem hlt
    rw [h1] at hok
    simp only [Bool.or_eq_true, Bool.and_eq_true, beq_iff_eq] at hok
    rcases hok with ⟨hnoop, hphi⟩ | hok
    · left
      refine ⟨a + 1, ?_, by omega, hphi.symm⟩
      have : C[a].op = .noop := by simpa [Stmt.isNoop] using hnoop
      simp [flatStep, h1, this, act]
    · right
      cases h2 : C'[phiAt phi a]? with
      | none => simp [h2] at hok
      | some s' =>
        simp only [h2, Bool.and_eq_true, beq_iff_eq] at hok
        obtain ⟨hphi, hop⟩ := hok
        have hact := act_check hop orc
        simp only [flatStep, h1, h2]
        generalize act C[a].op orc = x at hact
        generalize act s'.op orc = y at hact
        cases x <;> cases y <;> simp only [ActRel] at hact <;> try (simp [StepRel]; done)
        · obtain ⟨rfl, rfl⟩ := hact
          simp only [StepRel, true_and]
          exact ⟨by omega, by omega⟩
        · obtain ⟨rfl, rfl, ht⟩ := hact
          simp only [tCheck, beq_iff_eq] at ht
          rename_i l _ l'
          cases hl : findLabel C l with
          | none => simp [hl] at ht; simp [hl, ← ht, StepRel]
          | some p =>
            simp [hl] at ht
            simp only [hl, ← ht, StepRel, true_and]
            exact ⟨Nat.le_of_lt (findLabel_lt hl), trivial⟩
        · simp only [StepRel, true_and]
          exact ⟨by omega, by omega⟩
        · subst hact; simp [StepRel]
  · right
    have ha : a = C.length := by omega
    subst ha
    simp [flatStep, hend, StepRel]

theorem simCheck_run {C C' : List Stmt} {phi : List Nat} (h : simCheck C C' phi = true)
    (n pc : Nat) (orc : List Bool) (r : Result) (hpc : pc ≤ C.length)
    (hr : runM (flatStep C) n pc orc = r) (hok : r.ok) :
    runM (flatStep C') n (phiAt phi pc) orc = r :=
  sim_stutter (flatStep C) (flatStep C') (fun a b => a ≤ C.length ∧ b = phiAt phi a)
    (fun a b orc hR => simCheck_step h a b orc hR) n pc _ orc r ⟨hpc, rfl⟩ hr hok

theorem simCheck_conv {C C' : List Stmt} {phi : List Nat} (h : simCheck C C' phi = true)
    {orc : List Bool} {r : Result} (hc : Conv (flatStep C) 0 orc r) :
    Conv (flatStep C') 0 orc r := by
  obtain ⟨n, hn, hok⟩ := hc
  have h0 : phiAt phi 0 = 0 := by
    simp only [simCheck, Bool.and_eq_true, beq_iff_eq] at h
    exact h.1.1
  have := simCheck_run h n 0 orc r (Nat.zero_le _) hn hok
  rw [h0] at this
  exact ⟨n, this, hok⟩

end AasVerif.Yielding
