import AasVerif.Lemmas.Yielding.Fuel2
import AasVerif.Lemmas.Yielding.Pipeline
/-!
Size of the linearization against the size of the final code (no-ops ≤ ifs), and the bounded
version of the state-machine simulation.
-/
set_option linter.unusedSimpArgs false
namespace AasVerif.Yielding

def cN (F : List Stmt) : Nat := F.countP (·.isNoop)
def cI (F : List Stmt) : Nat := F.countP (·.isIf)

@[simp] theorem cN_append (A B : List Stmt) : cN (A ++ B) = cN A + cN B := by simp [cN]
@[simp] theorem cI_append (A B : List Stmt) : cI (A ++ B) = cI A + cI B := by simp [cI]
@[simp] theorem cN_nil : cN [] = 0 := rfl
@[simp] theorem cI_nil : cI [] = 0 := rfl
theorem cN_cons (s : Stmt) (F : List Stmt) : cN (s :: F) = (if s.isNoop then 1 else 0) + cN F := by
  simp only [cN, List.countP_cons]; split <;> omega
theorem cI_cons (s : Stmt) (F : List Stmt) : cI (s :: F) = (if s.isIf then 1 else 0) + cI F := by
  simp only [cI, List.countP_cons]; split <;> omega

theorem ifStmt_isIf (pos : Bool) (c : Code) (l t : Nat) : (ifStmt pos c l t).isIf = true := by
  cases pos <;> rfl

mutual
theorem linNode_counts : ∀ (n : Node) (l : Nat), n.wf = true →
    cN (linNode n l).1 ≤ cI (linNode n l).1
  | .command c, l, _ => by simp [linNode, cN_cons, cI_cons, Stmt.isNoop, Stmt.isIf]
  | .yield, l, _ => by simp [linNode, cN_cons, cI_cons, Stmt.isNoop, Stmt.isIf]
  | .ifThen pos c body, l, h => by
    simp only [Node.wf, Bool.and_eq_true, Bool.not_eq_true', List.isEmpty_eq_false_iff] at h
    have hb := linSeq_counts body (l + 1) h.2
    rw [linNode_ifThen _ _ _ _ h.1 h.2, cN_cons, cI_cons, ifStmt_isIf, ifStmt_real]
    simp [cN_cons, cI_cons, Stmt.isNoop, Stmt.isIf]
    omega
  | .ifElse pos c body els, l, h => by
    simp only [Node.wf, Bool.and_eq_true, Bool.not_eq_true', List.isEmpty_eq_false_iff] at h
    have hb := linSeq_counts body (l + 1) h.1.2
    have he := linSeq_counts els (l + 1 + (linSeq body (l + 1)).1.length + 1) h.2
    rw [linNode_ifElse _ _ _ _ _ h.1.2 h.2, cN_cons, cI_cons, ifStmt_isIf, ifStmt_real]
    simp [cN_cons, cI_cons, Stmt.isNoop, Stmt.isIf]
    omega
  | .forLoop none c it body, l, h => by
    simp only [Node.wf] at h
    have hb := linSeq_counts body (l + 1) h
    rw [linNode_forNone _ _ _ _ h]
    simp [cN_cons, cI_cons, Stmt.isNoop, Stmt.isIf]
    omega
  | .forLoop (some i) c it body, l, h => by
    simp only [Node.wf] at h
    have hb := linSeq_counts body (l + 1 + 1) h
    rw [linNode_forSome, linNode_forNone _ _ _ _ h]
    simp [cN_cons, cI_cons, Stmt.isNoop, Stmt.isIf]
    omega
  | .whileLoop c body, l, h => by
    simp only [Node.wf] at h
    have hb := linSeq_counts body (l + 1) h
    rw [linNode_while _ _ _ h]
    simp [cN_cons, cI_cons, Stmt.isNoop, Stmt.isIf]
    omega
theorem linSeq_counts : ∀ (ns : List Node) (l : Nat), wfSeq ns = true →
    cN (linSeq ns l).1 ≤ cI (linSeq ns l).1
  | [], l, _ => by simp [linSeq]
  | n :: ns, l, h => by
    simp only [wfSeq, Bool.and_eq_true] at h
    have ha := linNode_counts n l h.1
    have hr := linSeq_counts ns (linNode n l).2 h.2
    simp only [linSeq, cN_append, cI_append]
    omega
end

theorem length_le_two_nn (F : List Stmt) (h : cN F ≤ cI F) : F.length ≤ 2 * nn F := by
  induction F with
  | nil => simp
  | cons s F ih =>
    -- direct counting: every statement is a no-op or not, an If is not a no-op
    have key : ∀ G : List Stmt, G.length = cN G + nn G ∧ cI G ≤ nn G := by
      intro G
      induction G with
      | nil => simp
      | cons x G ihG =>
        obtain ⟨l, op⟩ := x
        cases op <;> simp [cN_cons, cI_cons, nn_cons, Stmt.isNoop, Stmt.isIf] <;> omega
    have := key (s :: F)
    omega

theorem nn_of_ops {A B : List Stmt} (h : A.map (·.op) = B.map (·.op)) : nn A = nn B := by
  have : ∀ C : List Stmt, nn C = ((C.map (·.op)).filter (fun op => !decide (op = Op.noop))).length := by
    intro C
    simp only [nn, List.filter_map, List.length_map]
    congr 1
  rw [this A, this B, h]

/-- the linearization is at most twice as long as the final code -/
theorem linearize_length_le (flow : List Node) (hwf : wfSeq flow = true) :
    (linearize flow).length ≤ 2 * (finalStmts flow).length := by
  have st := stages flow hwf
  have h0 := length_le_two_nn (linearize flow) (linSeq_counts flow 0 hwf)
  have h1 : nn (dropLabels (linearize flow)) = nn (linearize flow) := by
    apply nn_of_ops
    simp only [dropLabels, List.map_map]
    apply List.map_congr_left
    intro s _
    simp only [Function.comp]
    cases hl : s.label with
    | none => rfl
    | some l => simp only; split <;> rfl
  have h2 : (compress (linearize flow)).length =
      nn (dropLabels (linearize flow)) + (if trail (dropLabels (linearize flow)) [] then 1 else 0) := by
    rw [compress, removeNoops_eq st.inv1.noops, List.length_map, sweep_len]
  have h3 : (finalStmts flow).length = (compress (linearize flow)).length := by
    rw [finalStmts, fixLabels_eq]
    have := congrArg List.length (addLabels_spec st.inv2.nodup).ops
    simp only [List.length_map] at this
    simp [renum, this]
  omega

end AasVerif.Yielding
