import AasVerif.Lemmas.Yielding.Linearize
import AasVerif.Lemmas.Yielding.Relabel
/-!
Static invariants of the pipeline stages: every jump target is the label of a statement,
labels are pairwise distinct.
-/
set_option linter.unusedSimpArgs false
namespace AasVerif.Yielding

@[simp] theorem targets_nil : targets [] = [] := rfl
@[simp] theorem targets_cons (s : Stmt) (F : List Stmt) : targets (s :: F) = s.op.targets ++ targets F := by
  simp [targets]
@[simp] theorem targets_append (A B : List Stmt) : targets (A ++ B) = targets A ++ targets B := by
  simp [targets]

@[simp] theorem Op.targets_jump (t : Nat) : (Op.jump t).targets = [t] := rfl
@[simp] theorem Op.targets_noop : Op.noop.targets = [] := rfl
@[simp] theorem Op.targets_yield : Op.yield.targets = [] := rfl
@[simp] theorem Op.targets_command (c : Code) : (Op.command c).targets = [] := rfl
@[simp] theorem Op.targets_ifJ (c : Code) (a b : Option Nat) :
    (Op.ifJ c a b).targets = a.toList ++ b.toList := rfl

@[simp] theorem ifStmt_targets (pos : Bool) (c : Code) (l t : Nat) : (ifStmt pos c l t).op.targets = [t] := by
  cases pos <;> simp [ifStmt, Op.targets]

def TargetsIn (lo hi : Nat) (F : List Stmt) : Prop := ∀ t ∈ targets F, lo ≤ t ∧ t < hi

theorem TargetsIn.mono {lo hi lo' hi' : Nat} {F : List Stmt} (h : TargetsIn lo hi F)
    (h1 : lo' ≤ lo) (h2 : hi ≤ hi') : TargetsIn lo' hi' F :=
  fun t ht => ⟨by have := h t ht; omega, by have := h t ht; omega⟩

mutual
theorem linNode_targets : ∀ (n : Node) (l : Nat), n.wf = true →
    TargetsIn l (l + (linNode n l).1.length) (linNode n l).1
  | .command c, l, _ => by simp [linNode, TargetsIn]
  | .yield, l, _ => by simp [linNode, TargetsIn]
  | .ifThen pos c body, l, h => by
    simp only [Node.wf, Bool.and_eq_true, Bool.not_eq_true', List.isEmpty_eq_false_iff] at h
    have hb := linSeq_targets body (l + 1) h.2
    rw [linNode_ifThen _ _ _ _ h.1 h.2]
    intro t ht
    simp only [targets_cons, targets_append, ifStmt_targets, targets_nil, Op.targets_jump, Op.targets_noop,
      List.append_nil, List.cons_append, List.nil_append, List.mem_cons, List.mem_append] at ht
    simp only [List.length_cons, List.length_append, List.length_nil]
    rcases ht with rfl | ht
    · omega
    · have := hb t ht; omega
  | .ifElse pos c body els, l, h => by
    simp only [Node.wf, Bool.and_eq_true, Bool.not_eq_true', List.isEmpty_eq_false_iff] at h
    have hb := linSeq_targets body (l + 1) h.1.2
    have he := linSeq_targets els (l + 1 + (linSeq body (l + 1)).1.length + 1) h.2
    rw [linNode_ifElse _ _ _ _ _ h.1.2 h.2]
    intro t ht
    simp only [targets_cons, targets_append, ifStmt_targets, targets_nil, Op.targets_jump, Op.targets_noop,
      List.append_nil, List.cons_append, List.nil_append, List.mem_cons, List.mem_append] at ht
    simp only [List.length_cons, List.length_append, List.length_nil]
    rcases ht with rfl | ht | rfl | ht
    · omega
    · have := hb t ht; omega
    · omega
    · have := he t ht; omega
  | .forLoop none c it body, l, h => by
    simp only [Node.wf] at h
    have hb := linSeq_targets body (l + 1) h
    rw [linNode_forNone _ _ _ _ h]
    intro t ht
    simp only [targets_cons, targets_append, targets_nil, Op.targets_jump, Op.targets_noop, Op.targets_command, Op.targets_ifJ, Option.toList,
      List.append_nil, List.cons_append, List.nil_append, List.mem_cons, List.mem_append,
      List.not_mem_nil, or_false, false_or] at ht
    simp only [List.length_cons, List.length_append, List.length_nil]
    rcases ht with rfl | ht | rfl
    · omega
    · have := hb t ht; omega
    · omega
  | .forLoop (some i) c it body, l, h => by
    simp only [Node.wf] at h
    have hb := linSeq_targets body (l + 1 + 1) h
    rw [linNode_forSome, linNode_forNone _ _ _ _ h]
    intro t ht
    simp only [targets_cons, targets_append, targets_nil, Op.targets_jump, Op.targets_noop, Op.targets_command, Op.targets_ifJ, Option.toList,
      List.append_nil, List.cons_append, List.nil_append, List.mem_cons, List.mem_append,
      List.not_mem_nil, or_false, false_or] at ht
    simp only [List.length_cons, List.length_append, List.length_nil]
    rcases ht with rfl | ht | rfl
    · omega
    · have := hb t ht; omega
    · omega
  | .whileLoop c body, l, h => by
    simp only [Node.wf] at h
    have hb := linSeq_targets body (l + 1) h
    rw [linNode_while _ _ _ h]
    intro t ht
    simp only [targets_cons, targets_append, targets_nil, Op.targets_jump, Op.targets_noop, Op.targets_command, Op.targets_ifJ, Option.toList,
      List.append_nil, List.cons_append, List.nil_append, List.mem_cons, List.mem_append,
      List.not_mem_nil, or_false, false_or] at ht
    simp only [List.length_cons, List.length_append, List.length_nil]
    rcases ht with rfl | ht | rfl
    · omega
    · have := hb t ht; omega
    · omega
theorem linSeq_targets : ∀ (ns : List Node) (l : Nat), wfSeq ns = true →
    TargetsIn l (l + (linSeq ns l).1.length) (linSeq ns l).1
  | [], l, _ => by simp [linSeq, TargetsIn]
  | n :: ns, l, h => by
    simp only [wfSeq, Bool.and_eq_true] at h
    have ha := linNode_targets n l h.1
    have hr := linSeq_targets ns (linNode n l).2 h.2
    rw [linNode_snd n l h.1] at hr
    simp only [linSeq, linNode_snd n l h.1]
    intro t ht
    simp only [targets_append, List.mem_append] at ht
    simp only [List.length_append]
    rcases ht with ht | ht
    · have := ha t ht; omega
    · have := hr t ht; omega
end

theorem linearize_targets (flow : List Node) (hwf : wfSeq flow = true) :
    ∀ t ∈ targets (linearize flow), t < (linearize flow).length := by
  intro t ht
  have := linSeq_targets flow 0 hwf t ht
  simpa [linearize] using this.2

end AasVerif.Yielding
