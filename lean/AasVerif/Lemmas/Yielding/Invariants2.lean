import AasVerif.Lemmas.Yielding.Invariants
import AasVerif.Lemmas.Yielding.Noops
/-!
Invariants after `_linearize_control_flow` and `_remove_redundant_labels_in_place`:
every no-op is a jump target (so it keeps its label), labels are distinct, targets exist.
-/
set_option linter.unusedSimpArgs false
namespace AasVerif.Yielding

/-- every no-op of `F` carries a label that is in `T` -/
def NT (T : List Nat) (F : List Stmt) : Prop :=
  ∀ s ∈ F, s.isNoop = true → ∃ t, s.label = some t ∧ t ∈ T

theorem NT.mono {T T' : List Nat} {F : List Stmt} (h : NT T F) (hT : ∀ t ∈ T, t ∈ T') : NT T' F :=
  fun s hs hn => by obtain ⟨t, h1, h2⟩ := h s hs hn; exact ⟨t, h1, hT t h2⟩

theorem NT.append {T : List Nat} {A B : List Stmt} (ha : NT T A) (hb : NT T B) : NT T (A ++ B) :=
  fun s hs hn => by
    rcases List.mem_append.mp hs with h | h
    · exact ha s h hn
    · exact hb s h hn

theorem NT.cons_real {T : List Nat} {s : Stmt} {F : List Stmt} (hs : s.isNoop = false)
    (h : NT T F) : NT T (s :: F) :=
  fun x hx hn => by
    rcases List.mem_cons.mp hx with rfl | h'
    · simp [hs] at hn
    · exact h x h' hn

theorem NT.single_noop {T : List Nat} {l : Nat} (h : l ∈ T) : NT T [⟨some l, .noop⟩] :=
  fun x hx _ => by simp at hx; subst hx; exact ⟨l, rfl, h⟩

theorem NT.single_real {T : List Nat} {s : Stmt} (hs : s.isNoop = false) : NT T [s] :=
  fun x hx hn => by simp at hx; subst hx; simp [hs] at hn

theorem ifStmt_real (pos : Bool) (c : Code) (l t : Nat) : (ifStmt pos c l t).isNoop = false := by
  cases pos <;> simp [ifStmt, Stmt.isNoop]

mutual
theorem linNode_NT : ∀ (n : Node) (l : Nat), n.wf = true →
    NT (targets (linNode n l).1) (linNode n l).1
  | .command c, l, _ => by
    simp only [linNode]; exact NT.single_real (by simp [Stmt.isNoop])
  | .yield, l, _ => by
    simp only [linNode]; exact NT.single_real (by simp [Stmt.isNoop])
  | .ifThen pos c body, l, h => by
    simp only [Node.wf, Bool.and_eq_true, Bool.not_eq_true', List.isEmpty_eq_false_iff] at h
    have hb := linSeq_NT body (l + 1) h.2
    rw [linNode_ifThen _ _ _ _ h.1 h.2]
    refine NT.cons_real (ifStmt_real ..) (NT.append (hb.mono ?_) (NT.single_noop ?_))
    · intro t ht; simp [ht]
    · simp
  | .ifElse pos c body els, l, h => by
    simp only [Node.wf, Bool.and_eq_true, Bool.not_eq_true', List.isEmpty_eq_false_iff] at h
    have hb := linSeq_NT body (l + 1) h.1.2
    have he := linSeq_NT els (l + 1 + (linSeq body (l + 1)).1.length + 1) h.2
    rw [linNode_ifElse _ _ _ _ _ h.1.2 h.2]
    refine NT.cons_real (ifStmt_real ..) (NT.append (hb.mono ?_)
      (NT.cons_real (by simp [Stmt.isNoop]) (NT.append (he.mono ?_) (NT.single_noop ?_))))
    · intro t ht; simp [ht]
    · intro t ht; simp [ht]
    · simp
  | .forLoop none c it body, l, h => by
    simp only [Node.wf] at h
    have hb := linSeq_NT body (l + 1) h
    rw [linNode_forNone _ _ _ _ h]
    refine NT.cons_real (by simp [Stmt.isNoop]) (NT.append (hb.mono ?_) ?_)
    · intro t ht; simp [ht]
    · refine NT.cons_real (by simp [Stmt.isNoop]) (NT.cons_real (by simp [Stmt.isNoop])
        (NT.single_noop ?_))
      simp
  | .forLoop (some i) c it body, l, h => by
    simp only [Node.wf] at h
    have hb := linSeq_NT body (l + 1 + 1) h
    rw [linNode_forSome, linNode_forNone _ _ _ _ h]
    refine NT.cons_real (by simp [Stmt.isNoop]) (NT.cons_real (by simp [Stmt.isNoop])
      (NT.append (hb.mono ?_) ?_))
    · intro t ht; simp [ht]
    · refine NT.cons_real (by simp [Stmt.isNoop]) (NT.cons_real (by simp [Stmt.isNoop])
        (NT.single_noop ?_))
      simp
  | .whileLoop c body, l, h => by
    simp only [Node.wf] at h
    have hb := linSeq_NT body (l + 1) h
    rw [linNode_while _ _ _ h]
    refine NT.cons_real (by simp [Stmt.isNoop]) (NT.append (hb.mono ?_) ?_)
    · intro t ht; simp [ht]
    · refine NT.cons_real (by simp [Stmt.isNoop]) (NT.single_noop ?_)
      simp
theorem linSeq_NT : ∀ (ns : List Node) (l : Nat), wfSeq ns = true →
    NT (targets (linSeq ns l).1) (linSeq ns l).1
  | [], l, _ => by simp [linSeq, NT]
  | n :: ns, l, h => by
    simp only [wfSeq, Bool.and_eq_true] at h
    have ha := linNode_NT n l h.1
    have hr := linSeq_NT ns (linNode n l).2 h.2
    simp only [linSeq]
    exact NT.append (ha.mono (fun t ht => by simp [ht])) (hr.mono (fun t ht => by simp [ht]))
end

/-! `dropLabels` -/

theorem labs_dropLabels_aux (ts : List Nat) : ∀ (C : List Stmt),
    labs (C.map fun s => match s.label with
      | some l => if l ∈ ts then s else { s with label := none }
      | none => s) = (labs C).filter (fun l => decide (l ∈ ts))
  | [] => rfl
  | s :: C => by
    rw [List.map_cons, labs_cons, labs_cons, List.filter_append, labs_dropLabels_aux ts C]
    congr 1
    cases hl : s.label with
    | none => simp [hl]
    | some l =>
      by_cases h : l ∈ ts
      · simp [h, hl]
      · simp [h]

theorem labs_dropLabels (C : List Stmt) :
    labs (dropLabels C) = (labs C).filter (fun l => decide (l ∈ targets C)) :=
  labs_dropLabels_aux (targets C) C

theorem labs_of_labelsFrom {l : Nat} {F : List Stmt} (h : LabelsFrom l F) :
    labs F = List.range' l F.length := by
  induction F generalizing l with
  | nil => rfl
  | cons s F ih =>
    rw [LabelsFrom.cons_iff] at h
    rw [labs_cons, h.1, ih h.2]
    simp [List.range'_succ]

structure Inv (C : List Stmt) : Prop where
  noops : NoopsLabelled C
  nodup : (labs C).Nodup
  targets : ∀ t ∈ targets C, t ∈ labs C

theorem dropLabels_inv (flow : List Node) (hwf : wfSeq flow = true) :
    Inv (dropLabels (linearize flow)) := by
  have hlab := labs_of_labelsFrom (linearize_labels flow hwf)
  have htg := linearize_targets flow hwf
  have hnt : NT (targets (linearize flow)) (linearize flow) := linSeq_NT flow 0 hwf
  refine ⟨?_, ?_, ?_⟩
  · intro s' hs' hn
    simp only [dropLabels, List.mem_map] at hs'
    obtain ⟨s, hs, rfl⟩ := hs'
    cases hl : s.label with
    | none =>
      have : s.isNoop = true := by simpa [hl] using hn
      obtain ⟨t, h1, _⟩ := hnt s hs this
      rw [hl] at h1; cases h1
    | some l =>
      simp only [hl] at hn ⊢
      by_cases hlt : l ∈ targets (linearize flow)
      · simp [hlt, hl]
      · simp only [hlt, if_false] at hn
        have : s.isNoop = true := by simpa [Stmt.isNoop] using hn
        obtain ⟨t, h1, h2⟩ := hnt s hs this
        rw [hl] at h1; cases h1
        exact absurd h2 hlt
  · rw [labs_dropLabels, hlab]
    exact (List.nodup_range' (step := 1)).filter _
  · intro t ht
    rw [dropLabels_targets] at ht
    rw [labs_dropLabels, hlab]
    simp only [List.mem_filter, List.mem_range'_1, decide_eq_true_eq]
    exact ⟨⟨Nat.zero_le _, by have := htg t ht; omega⟩, ht⟩

end AasVerif.Yielding
