import AasVerif.Lemmas.Yielding.Relabel
/-!
`_remove_noops_in_place`: where the rewired targets point after the sweep.
-/
set_option linter.unusedSimpArgs false
namespace AasVerif.Yielding

theorem lookupLast_append (a b : List (Nat × Nat)) (k : Nat) :
    lookupLast (a ++ b) k = match lookupLast b k with
      | some v => some v
      | none => lookupLast a k := by
  induction a with
  | nil => simp [lookupLast]; cases lookupLast b k <;> rfl
  | cons x a ih =>
    obtain ⟨x1, x2⟩ := x
    simp only [List.cons_append, lookupLast, ih]
    cases lookupLast b k <;> rfl

theorem lookupLast_none {m : List (Nat × Nat)} {k : Nat} (h : k ∉ m.map Prod.fst) :
    lookupLast m k = none := by
  induction m with
  | nil => rfl
  | cons x m ih =>
    obtain ⟨x1, x2⟩ := x
    simp only [List.map_cons, List.mem_cons, not_or] at h
    simp only [lookupLast, ih h.2]
    have hne : ¬ x1 = k := fun hx => h.1 (Eq.symm hx)
    simp [hne]

theorem lookupLast_const (B : List Nat) (v k : Nat) :
    lookupLast (B.map (fun x => (x, v))) k = if k ∈ B then some v else none := by
  induction B with
  | nil => rfl
  | cons b B ih =>
    simp only [List.map_cons, lookupLast, ih, List.mem_cons]
    by_cases hk : k ∈ B
    · simp [hk]
    · by_cases hb : b = k
      · simp [hk, hb]
      · have : ¬ k = b := fun h => hb h.symm
        simp [hk, hb, this]

/-- number of statements that are not no-ops -/
def nn (D : List Stmt) : Nat := (D.filter (fun s => !s.isNoop)).length

@[simp] theorem nn_nil : nn [] = 0 := rfl
theorem nn_cons (s : Stmt) (D : List Stmt) : nn (s :: D) = (if s.isNoop then 0 else 1) + nn D := by
  simp only [nn, List.filter_cons]
  cases s.isNoop <;> simp; omega

theorem mem_labs {C : List Stmt} {t : Nat} : t ∈ labs C ↔ ∃ s ∈ C, s.label = some t := by
  simp [labs, List.mem_filterMap]

theorem findLabel_some_mem {C : List Stmt} {t p : Nat} (h : findLabel C t = some p) : t ∈ labs C := by
  induction C generalizing p with
  | nil => simp [findLabel] at h
  | cons s C ih =>
    simp only [findLabel] at h
    rw [mem_labs]
    split at h
    · rename_i hs; exact ⟨s, by simp, hs⟩
    · cases hq : findLabel C t with
      | none => simp [hq] at h
      | some q =>
        obtain ⟨s', hs', hl⟩ := mem_labs.mp (ih hq)
        exact ⟨s', by simp [hs'], hl⟩

theorem labs_cons (s : Stmt) (C : List Stmt) : labs (s :: C) = s.label.toList ++ labs C := by
  cases h : s.label <;> simp [labs, List.filterMap_cons, h]

/-- every no-op carries a label (what the first filter of `_remove_noops_in_place` guarantees) -/
def NoopsLabelled (D : List Stmt) : Prop := ∀ s ∈ D, s.isNoop = true → s.label.isSome = true

/-- the keys of `old_to_new_target` are labels of the pending block or of no-ops swept -/
theorem sweep_keys : ∀ (D : List Stmt) (B : List Nat) (k : Nat),
    k ∈ (sweep D B).2.map Prod.fst → k ∈ B ∨ k ∈ labs D
  | [], [], k, h => by simp [sweep] at h
  | [], b0 :: rest, k, h => by
    simp only [sweep, List.map_map, List.mem_map, Function.comp] at h
    obtain ⟨x, hx, rfl⟩ := h
    left; simp [hx]
  | s :: ss, B, k, h => by
    rw [labs_cons]
    unfold sweep at h
    split at h
    · have := sweep_keys ss (B ++ s.label.toList) k h
      simp only [List.mem_append] at this ⊢
      rcases this with (h1 | h1) | h1
      · exact Or.inl h1
      · exact Or.inr (Or.inl h1)
      · exact Or.inr (Or.inr h1)
    · cases B with
      | nil =>
        simp only at h
        have := sweep_keys ss [] k h
        simp only [List.mem_append] at this ⊢
        rcases this with h1 | h1
        · cases h1
        · exact Or.inr (Or.inr h1)
      | cons b0 B' =>
        simp only [List.map_append, List.map_map, List.mem_append] at h
        rcases h with h | h
        · simp only [List.mem_map, Function.comp] at h
          obtain ⟨x, hx, rfl⟩ := h
          exact Or.inl hx
        · have := sweep_keys ss [] k h
          simp only [List.mem_append] at this ⊢
          rcases this with h1 | h1
          · cases h1
          · exact Or.inr (Or.inr h1)

/-- labels of the surviving statements come from the pending block or from the input -/
theorem sweep_labs : ∀ (D : List Stmt) (B : List Nat) (k : Nat),
    k ∈ labs (sweep D B).1 → k ∈ B ∨ k ∈ labs D
  | [], [], k, h => by simp [sweep, labs] at h
  | [], b0 :: rest, k, h => by
    simp [sweep, labs] at h
    left; simp [h]
  | s :: ss, B, k, h => by
    rw [labs_cons]
    unfold sweep at h
    split at h
    · have := sweep_labs ss (B ++ s.label.toList) k h
      simp only [List.mem_append] at this ⊢
      rcases this with (h1 | h1) | h1
      · exact Or.inl h1
      · exact Or.inr (Or.inl h1)
      · exact Or.inr (Or.inr h1)
    · cases B with
      | nil =>
        simp only [labs_cons, List.mem_append] at h ⊢
        rcases h with h | h
        · exact Or.inr (Or.inl h)
        · have := sweep_labs ss [] k h
          rcases this with h1 | h1
          · cases h1
          · exact Or.inr (Or.inr h1)
      | cons b0 B' =>
        simp only [labs_cons, List.mem_append, Option.toList, List.mem_singleton] at h ⊢
        rcases h with h | h
        · subst h
          cases hl : s.label with
          | none => simp
          | some l => simp
        · have := sweep_labs ss [] k h
          rcases this with h1 | h1
          · cases h1
          · exact Or.inr (Or.inr h1)


theorem rewireT_of_none {m : List (Nat × Nat)} {t : Nat} (h : lookupLast m t = none) :
    rewireT m t = t := by simp [rewireT, h]

theorem findLabel_cons_ne {x : Stmt} {C : List Stmt} {t : Nat} (h : x.label ≠ some t) :
    findLabel (x :: C) t = (findLabel C t).map (· + 1) := by
  simp [findLabel, h]

theorem NoopsLabelled.tail {s : Stmt} {D : List Stmt} (h : NoopsLabelled (s :: D)) :
    NoopsLabelled D := fun x hx => h x (by simp [hx])

/-- Where the rewired labels point after the sweep:
labels of the pending block → the first surviving statement; the label of `D[p]` → the
surviving statement number `nn (D.take p)` (the statement itself, or the one that inherits the
labels of its no-op block). -/
theorem sweep_spec : ∀ (D : List Stmt) (B : List Nat),
    (B ++ labs D).Nodup → NoopsLabelled D →
    (∀ t ∈ B, findLabel (sweep D B).1 (rewireT (sweep D B).2 t) = some 0) ∧
    (∀ (p : Nat) (s : Stmt) (t : Nat), D[p]? = some s → s.label = some t →
      findLabel (sweep D B).1 (rewireT (sweep D B).2 t) = some (nn (D.take p)))
  | [], [], _, _ => by simp
  | [], b0 :: rest, hnd, _ => by
    refine ⟨fun t ht => ?_, by simp⟩
    simp only [labs, List.filterMap_nil, List.append_nil, List.nodup_cons] at hnd
    have : rewireT ((sweep [] (b0 :: rest)).2) t = b0 := by
      simp only [sweep, rewireT, lookupLast_const]
      by_cases h : t ∈ rest
      · simp [h]
      · simp only [List.mem_cons, h, or_false] at ht
        simp [h, ht, hnd.1]
    rw [this]
    simp [sweep, findLabel]
  | s :: ss, B, hnd, hnl => by
    rw [labs_cons] at hnd
    by_cases hnoop : s.isNoop = true
    · -- a no-op joins the pending block
      obtain ⟨l, hl⟩ := Option.isSome_iff_exists.mp (hnl s (by simp) hnoop)
      have hsw : sweep (s :: ss) B = sweep ss (B ++ [l]) := by
        cases B <;> simp [sweep, hnoop, hl]
      rw [hsw]
      have hnd' : (B ++ [l] ++ labs ss).Nodup := by
        simpa [hl, List.append_assoc] using hnd
      obtain ⟨ih1, ih2⟩ := sweep_spec ss (B ++ [l]) hnd' hnl.tail
      refine ⟨fun t ht => ih1 t (by simp [ht]), fun p s' t hp hs' => ?_⟩
      cases p with
      | zero =>
        simp only [List.getElem?_cons_zero, Option.some.injEq] at hp
        subst hp
        rw [hl] at hs'; cases hs'
        simpa using ih1 l (by simp)
      | succ p =>
        simp only [List.getElem?_cons_succ] at hp
        rw [ih2 p s' t hp hs']
        simp [nn_cons, hnoop]
    · -- a real statement closes the pending block
      have hkeys : ∀ t, t ∉ labs ss → lookupLast (sweep ss []).2 t = none := fun t ht =>
        lookupLast_none (fun hk => by
          rcases sweep_keys ss [] t hk with h | h
          · cases h
          · exact ht h)
      have hnd0 : ([] ++ labs ss).Nodup := by
        simp only [List.nil_append]
        exact (List.nodup_append.mp (List.nodup_append.mp hnd).2.1).2.1
      obtain ⟨_, ih2⟩ := sweep_spec ss [] hnd0 hnl.tail
      have hdisjB : ∀ t ∈ B, t ∉ labs ss := fun t ht hs => by
        have := (List.nodup_append.mp hnd).2.2 t ht t (by simp [hs])
        exact this rfl
      have hdisjS : ∀ t, s.label = some t → t ∉ labs ss := fun t ht hs => by
        have := (List.nodup_append.mp (List.nodup_append.mp hnd).2.1).2.2 t (by simp [ht]) t hs
        exact this rfl
      have hdisjBS : ∀ t ∈ B, s.label ≠ some t := fun t ht hs => by
        have := (List.nodup_append.mp hnd).2.2 t ht t (by simp [hs])
        exact this rfl
      have hout : ∀ t', t' ∈ labs (sweep ss []).1 → t' ∈ labs ss := fun t' h => by
        rcases sweep_labs ss [] t' h with h | h
        · cases h
        · exact h
      cases B with
      | nil =>
        have hsw : sweep (s :: ss) [] = (s :: (sweep ss []).1, (sweep ss []).2) := by
          rw [sweep]; simp [hnoop]
        rw [hsw]
        refine ⟨by simp, fun p s' t hp hs' => ?_⟩
        cases p with
        | zero =>
          simp only [List.getElem?_cons_zero, Option.some.injEq] at hp
          subst hp
          rw [rewireT_of_none (hkeys t (hdisjS t hs'))]
          simp [findLabel, hs']
        | succ p =>
          simp only [List.getElem?_cons_succ] at hp
          have ih := ih2 p s' t hp hs'
          have hin := hout _ (findLabel_some_mem ih)
          have hne : s.label ≠ some (rewireT (sweep ss []).2 t) := fun h => hdisjS _ h hin
          simp only
          rw [findLabel_cons_ne hne, ih]
          simp [nn_cons, hnoop]; omega
      | cons b0 B' =>
        have hsw : sweep (s :: ss) (b0 :: B') =
            (⟨some (s.label.getD b0), s.op⟩ :: (sweep ss []).1,
              (b0 :: B').map (fun x => (x, s.label.getD b0)) ++ (sweep ss []).2) := by
          rw [sweep]; simp [hnoop]
        rw [hsw]
        have hl'B : ∀ t', t' ∈ labs ss → s.label.getD b0 ≠ t' := by
          intro t' ht' h
          cases hsl : s.label with
          | none =>
            simp [hsl] at h
            exact hdisjB b0 (by simp) (h ▸ ht')
          | some l =>
            simp [hsl] at h
            exact hdisjS l hsl (h ▸ ht')
        refine ⟨fun t ht => ?_, fun p s' t hp hs' => ?_⟩
        · have : rewireT ((b0 :: B').map (fun x => (x, s.label.getD b0)) ++ (sweep ss []).2) t
              = s.label.getD b0 := by
            simp only [rewireT, lookupLast_append, hkeys t (hdisjB t ht), lookupLast_const, ht,
              if_true, Option.getD_some]
          simp only
          rw [this]
          simp [findLabel]
        · cases p with
          | zero =>
            simp only [List.getElem?_cons_zero, Option.some.injEq] at hp
            subst hp
            have hnotB : t ∉ (b0 :: B') := fun h => hdisjBS t h hs'
            have : rewireT ((b0 :: B').map (fun x => (x, s.label.getD b0)) ++ (sweep ss []).2) t
                = t := by
              simp only [rewireT, lookupLast_append, hkeys t (hdisjS t hs'), lookupLast_const,
                hnotB, if_false, Option.getD_none]
            simp only
            rw [this]
            simp [findLabel, hs']
          | succ p =>
            simp only [List.getElem?_cons_succ] at hp
            have ih := ih2 p s' t hp hs'
            have htss : t ∈ labs ss := mem_labs.mpr ⟨s', List.mem_of_getElem? hp, hs'⟩
            have hnotB : t ∉ (b0 :: B') := fun h => hdisjB t h htss
            have hrw : rewireT ((b0 :: B').map (fun x => (x, s.label.getD b0)) ++ (sweep ss []).2) t
                = rewireT (sweep ss []).2 t := by
              have hc := lookupLast_const (b0 :: B') (s.label.getD b0) t
              simp only [hnotB, if_false] at hc
              simp only [rewireT, lookupLast_append, hc]
              cases lookupLast (sweep ss []).2 t <;> rfl
            have hin := hout _ (findLabel_some_mem ih)
            have hne : (⟨some (s.label.getD b0), s.op⟩ : Stmt).label
                ≠ some (rewireT (sweep ss []).2 t) := by
              simp only [ne_eq, Option.some.injEq]
              exact hl'B _ hin
            simp only
            rw [hrw, findLabel_cons_ne hne, ih]
            simp [nn_cons, hnoop]; omega

end AasVerif.Yielding
