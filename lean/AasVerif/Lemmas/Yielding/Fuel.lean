import AasVerif.Lemmas.Yielding.Linearize
import AasVerif.Lemmas.Yielding.SimCheck
/-!
Step budget of the goto machine: if labels are positions and every jump that does not go forward
lands on an `If`, the machine takes at most `|C| + 2` steps between two condition evaluations.
-/
set_option linter.unusedSimpArgs false
namespace AasVerif.Yielding

def Stmt.isIf (s : Stmt) : Bool := match s.op with | .ifJ _ _ _ => true | _ => false

/-- every target of the statement at position `p` is further down, or is the position of an `If` -/
def BackIf (C : List Stmt) : Prop :=
  ∀ (p : Nat) (s : Stmt) (t : Nat), C[p]? = some s → t ∈ s.op.targets →
    p < t ∨ ∃ s', C[t]? = some s' ∧ s'.isIf = true

/-- potential: an `If` consumes an outcome at once; anything else can only move forward or jump
back to an `If` -/
def mu (C : List Stmt) (pc : Nat) : Nat :=
  match C[pc]? with
  | some s => if s.isIf then 1 else C.length - pc + 2
  | none => 1

theorem mu_le (C : List Stmt) (pc : Nat) : mu C pc ≤ C.length + 2 := by
  unfold mu; split
  · split <;> omega
  · omega

theorem mu_pos (C : List Stmt) (pc : Nat) : 1 ≤ mu C pc := by
  unfold mu; split
  · split <;> omega
  · omega

theorem mu_forward {C : List Stmt} {pc pc' : Nat} (h : pc < pc') (hpc : pc < C.length) :
    mu C pc' ≤ C.length - pc + 1 := by
  unfold mu; split
  · split <;> omega
  · omega

theorem act_targets {op : Op} {orc : List Bool} {ev : Option Event} {l : Nat} {orc' : List Bool}
    (h : act op orc = .goto ev l orc') : l ∈ op.targets := by
  cases op <;> simp only [act] at h <;> try (cases h; done)
  · rename_i c a b
    split at h
    · cases h
    · split at h
      · cases h
      · rename_i bb orc''
        split at h
        · rename_i t ht
          cases h
          cases bb <;> simp_all [Op.targets]
        · cases h
  · cases h; simp [Op.targets]

theorem act_if_consumes {c : Code} {a b : Option Nat} {orc : List Bool} :
    (∃ st, act (.ifJ c a b) orc = .stop st) ∨
      ∃ bb orc', orc = bb :: orc' ∧
        ((∃ ev l, act (.ifJ c a b) orc = .goto ev l orc') ∨
          ∃ ev, act (.ifJ c a b) orc = .fall ev orc') := by
  simp only [act]
  split
  · exact Or.inl ⟨_, rfl⟩
  · cases orc with
    | nil => exact Or.inl ⟨_, rfl⟩
    | cons bb orc' =>
      right
      refine ⟨bb, orc', rfl, ?_⟩
      simp only
      split
      · exact Or.inl ⟨_, _, rfl⟩
      · exact Or.inr ⟨_, rfl⟩

theorem act_nonif_keeps {op : Op} {orc : List Bool} (h : ∀ c a b, op ≠ .ifJ c a b) :
    (∃ ev, act op orc = .fall ev orc) ∨ act op orc = .yield ∨ (∃ l, act op orc = .goto none l orc) := by
  cases op with
  | command c => exact Or.inl ⟨_, rfl⟩
  | noop => exact Or.inl ⟨_, rfl⟩
  | yield => exact Or.inr (Or.inl rfl)
  | jump t => exact Or.inr (Or.inr ⟨_, rfl⟩)
  | ifJ c a b => exact absurd rfl (h c a b)

theorem findLabel_from_eq : ∀ {F : List Stmt} {k t p : Nat}, LabelsFrom k F →
    findLabel F t = some p → t = k + p
  | [], _, _, _, _, h => by simp [findLabel] at h
  | s :: F, k, t, p, hL, h => by
    rw [LabelsFrom.cons_iff] at hL
    simp only [findLabel, hL.1, Option.some.injEq] at h
    by_cases hkt : k = t
    · simp [hkt] at h; omega
    · simp only [hkt, if_false] at h
      cases hq : findLabel F t with
      | none => simp [hq] at h
      | some q =>
        simp [hq] at h
        have := findLabel_from_eq hL.2 hq
        omega

/-- the budget suffices -/
theorem flat_budget {C : List Stmt} (hL : LabelsFrom 0 C) (hB : BackIf C) :
    ∀ (fuel pc : Nat) (orc : List Bool),
      orc.length * (C.length + 2) + mu C pc + 1 ≤ fuel → (runM (flatStep C) fuel pc orc).ok := by
  intro fuel
  induction fuel with
  | zero => intro pc orc h; omega
  | succ f ih =>
    intro pc orc h
    cases hC : C[pc]? with
    | none => simp [runM, flatStep, hC, Result.ok]
    | some s =>
      have hpc : pc < C.length := (List.getElem?_eq_some_iff.mp hC).1
      have hmupos := mu_pos C pc
      have hgoto : ∀ (ev : Option Event) (l : Nat) (orc' : List Bool),
          act s.op orc = .goto ev l orc' →
          (∀ p, findLabel C l = some p → orc'.length * (C.length + 2) + mu C p + 1 ≤ f) →
          (runM (flatStep C) (f + 1) pc orc).ok := by
        intro ev l orc' hact fuelok
        simp only [runM, flatStep, hC, hact]
        cases hf : findLabel C l with
        | none => simp [Result.ok]
        | some p =>
          simp only [Result.ok, Result.cons_status]
          exact ih p orc' (fuelok p hf)
      have hfall : ∀ (ev : Option Event) (orc' : List Bool),
          (act s.op orc = .fall ev orc' ∨ (act s.op orc = .yield ∧ orc' = orc)) →
          orc'.length * (C.length + 2) + mu C (pc + 1) + 1 ≤ f →
          (runM (flatStep C) (f + 1) pc orc).ok := by
        intro ev orc' hact hb
        rcases hact with hact | ⟨hact, rfl⟩
        · simp only [runM, flatStep, hC, hact, Result.ok, Result.cons_status]
          exact ih (pc + 1) orc' hb
        · simp only [runM, flatStep, hC, hact, Result.ok, Result.cons_status]
          exact ih (pc + 1) orc' hb
      by_cases hif : s.isIf = true
      · -- an If: consumes an outcome (or stops)
        have hmu1 : mu C pc = 1 := by simp [mu, hC, hif]
        obtain ⟨lab, op⟩ := s
        cases op <;> simp [Stmt.isIf] at hif
        rename_i c a b
        rcases act_if_consumes (c := c) (a := a) (b := b) (orc := orc) with ⟨st, hst⟩ | ⟨bb, orc', rfl, h2⟩
        · simp only [runM, flatStep, hC, hst]
          have : st ≠ .crash .outOfFuel := by
            simp only [act] at hst
            split at hst
            · cases hst; simp
            · split at hst
              · cases hst; simp
              · split at hst <;> cases hst
          simpa [Result.ok] using this
        · have hlen : (bb :: orc').length * (C.length + 2) = orc'.length * (C.length + 2) + (C.length + 2) := by
            simp [Nat.succ_mul]
          rw [hlen] at h
          rcases h2 with ⟨ev, l, hg⟩ | ⟨ev, hfl⟩
          · exact hgoto ev l orc' hg (fun p _ => by have := mu_le C p; omega)
          · exact hfall ev orc' (Or.inl hfl) (by have := mu_le C (pc + 1); omega)
      · -- anything else moves forward or jumps back to an If
        have hmu : mu C pc = C.length - pc + 2 := by simp [mu, hC, hif]
        have hnot : ∀ c a b, s.op ≠ .ifJ c a b := by
          intro c a b h'
          simp [Stmt.isIf, h'] at hif
        have hfw := mu_forward (C := C) (pc := pc) (pc' := pc + 1) (by omega) hpc
        rcases act_nonif_keeps (orc := orc) hnot with ⟨ev, hfl⟩ | hy | ⟨l, hg⟩
        · exact hfall ev orc (Or.inl hfl) (by omega)
        · exact hfall none orc (Or.inr ⟨hy, rfl⟩) (by omega)
        · refine hgoto none l orc hg (fun p hf => ?_)
          have hpl : l = p := by
            have := findLabel_from_eq hL hf; omega
          subst hpl
          rcases hB pc s l hC (act_targets hg) with hfw' | ⟨s', hs', hs'if⟩
          · have := mu_forward (C := C) hfw' hpc; omega
          · have : mu C l = 1 := by simp [mu, hs', hs'if]
            omega

end AasVerif.Yielding
