import AasVerif.Lemmas.Yielding.Fuel3
import AasVerif.Lemmas.Yielding.SubSimB
import AasVerif.Lemmas.Yielding.LastStmt
/-!
The concrete step budget `defaultFuel` of `runSub` / `runFlat` suffices.
-/
set_option linter.unusedSimpArgs false
namespace AasVerif.Yielding

theorem Conv.eq_of_ok {σ : Type} {step : σ → List Bool → Step σ} {s orc r} {m : Nat}
    (h : Conv step s orc r) (hm : (runM step m s orc).ok) : runM step m s orc = r := by
  obtain ⟨n, hn, hok⟩ := h
  by_cases hle : n ≤ m
  · exact runM_mono step n m s orc r hn hok hle
  · have := runM_mono step m n s orc _ rfl hm (by omega)
    rw [← this, hn]

theorem simCheck_run0 {C C' : List Stmt} {phi : List Nat} (h : simCheck C C' phi = true)
    {n : Nat} {orc : List Bool} {r : Result} (hr : runM (flatStep C) n 0 orc = r) (hok : r.ok) :
    runM (flatStep C') n 0 orc = r := by
  have h0 : phiAt phi 0 = 0 := by
    simp only [simCheck, Bool.and_eq_true, beq_iff_eq] at h
    exact h.1.1
  have := simCheck_run h n 0 orc r (Nat.zero_le _) hr hok
  rwa [h0] at this

/-- budget of the goto machine over the linearization -/
def linBudget (flow : List Node) (orc : List Bool) : Nat :=
  orc.length * ((linearize flow).length + 2) + mu (linearize flow) 0 + 1

theorem lin_run_budget (flow : List Node) (hwf : wfSeq flow = true) (orc : List Bool) :
    runM (flatStep (linearize flow)) (linBudget flow orc) 0 orc = Flow.run flow orc :=
  (linearize_conv flow hwf orc).eq_of_ok
    (flat_budget (linearize_labels flow hwf) (linearize_backIf flow hwf) _ 0 orc (Nat.le_refl _))

theorem flow_run_ok (flow : List Node) (hwf : wfSeq flow = true) (orc : List Bool) :
    (Flow.run flow orc).ok := by
  obtain ⟨n, hn, hok⟩ := linearize_conv flow hwf orc
  exact hok

theorem final_run_budget (flow : List Node) (hwf : wfSeq flow = true) (orc : List Bool) :
    runM (flatStep (finalStmts flow)) (linBudget flow orc) 0 orc = Flow.run flow orc := by
  have st := stages flow hwf
  have hok := flow_run_ok flow hwf orc
  exact simCheck_run0 st.sim3 (simCheck_run0 st.sim2 (simCheck_run0 st.sim1
    (lin_run_budget flow hwf orc) hok) hok) hok

theorem linBudget_le (flow : List Node) (hwf : wfSeq flow = true) (orc : List Bool) :
    2 * linBudget flow orc ≤ defaultFuel (finalStmts flow).length orc := by
  have h1 := linearize_length_le flow hwf
  have h2 := mu_le (linearize flow) 0
  simp only [linBudget, defaultFuel]
  generalize (linearize flow).length = c0 at *
  generalize (finalStmts flow).length = c3 at *
  generalize mu (linearize flow) 0 = m at *
  generalize orc.length = k
  have e1 : k * (c0 + 2) + (c0 + 2) = (k + 1) * (c0 + 2) := by rw [Nat.succ_mul]
  have e2 : (k + 1) * (c0 + 2) ≤ (k + 1) * (2 * c3 + 2) := Nat.mul_le_mul_left _ (by omega)
  have e3 : 2 * ((k + 1) * (2 * c3 + 2)) = (k + 1) * (4 * c3 + 4) := by
    rw [← Nat.mul_assoc, Nat.mul_comm 2, Nat.mul_assoc]
    congr 1; omega
  omega

theorem totalLen_eq (subs : List (List Stmt)) : totalLen subs = subs.flatten.length := by
  simp [totalLen, List.length_flatten]


theorem sub_of_flatB {subs : List (List Stmt)} (hsubs : subsCheck subs = true)
    {n : Nat} {orc : List Bool} {r : Result} (hn : runM (flatStep subs.flatten) n 0 orc = r)
    (hok : r.ok) :
    ∀ m, 2 * n ≤ m → runSubFuel m subs orc = r.withEnd (endStatus subs.flatten) := by
  cases subs with
  | nil =>
    intro m _
    simp only [List.flatten_nil] at hn
    have : r = ⟨[], .ended⟩ := by
      rw [← hn]
      exact runM_flat_end (C := []) (by simp) (by rw [hn]; exact hok)
    simp [runSubFuel, this, Result.withEnd, endStatus]
  | cons sub rest =>
    have hs := SubsOk.of_check hsubs
    have hpos : Pos (sub :: rest) 0 0 0 :=
      ⟨sub, by simp, hs.ne_nil (i := 0) (by simp), by simp [start_zero]⟩
    have := (sub_simB hs n 0 orc r hn hok 0 0 hpos).exact
    have h0 : findSub (sub :: rest) 0 = some 0 := by rw [hs.findSub]; simp
    simpa [runSubFuel, h0] using this

/-- `runSub` with its concrete budget computes the structured result -/
theorem runSub_final (flow : List Node) (hwf : wfSeq flow = true) (orc : List Bool) :
    runSub (toSubroutines flow) orc =
      (Flow.run flow orc).withEnd (endStatus (toSubroutines flow).flatten) := by
  cases flow with
  | nil => simp [toSubroutines, runSub, runSubFuel, Flow.run, Result.withEnd, endStatus]
  | cons nd rest =>
    have st := stages (nd :: rest) hwf
    rw [toSubroutines_cons]
    have hrun := final_run_budget (nd :: rest) hwf orc
    rw [← st.flat] at hrun
    refine sub_of_flatB st.subs hrun (flow_run_ok _ hwf orc) _ ?_
    rw [totalLen_eq, st.flat]
    exact linBudget_le (nd :: rest) hwf orc

theorem runFlat_linearize (flow : List Node) (hwf : wfSeq flow = true) (orc : List Bool) :
    runFlat (linearize flow) orc = Flow.run flow orc := by
  have h := lin_run_budget flow hwf orc
  have hok := flow_run_ok flow hwf orc
  refine runM_mono _ _ _ _ _ _ h hok ?_
  have h2 := mu_le (linearize flow) 0
  simp only [linBudget, defaultFuel]
  generalize (linearize flow).length = c0 at *
  generalize mu (linearize flow) 0 = m at *
  generalize orc.length = k
  have e1 : (k + 1) * (4 * c0 + 4) = k * (4 * c0 + 4) + (4 * c0 + 4) := by rw [Nat.succ_mul]
  have e2 : k * (c0 + 2) ≤ k * (4 * c0 + 4) := Nat.mul_le_mul_left _ (by omega)
  omega

theorem runFlat_final (flow : List Node) (hwf : wfSeq flow = true) (orc : List Bool) :
    runFlat (finalStmts flow) orc = Flow.run flow orc := by
  have h := final_run_budget flow hwf orc
  have hok := flow_run_ok flow hwf orc
  refine runM_mono _ _ _ _ _ _ h hok ?_
  have := linBudget_le flow hwf orc
  omega

end AasVerif.Yielding
