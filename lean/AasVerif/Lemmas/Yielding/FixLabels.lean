import AasVerif.Lemmas.Yielding.Noops4
/-!
`_fix_labels_in_place`: fresh labels after yields, consecutive renumbering.
-/
set_option linter.unusedSimpArgs false
namespace AasVerif.Yielding

/-- the first two loops of `_fix_labels_in_place` (fresh labels for the first statement and
after each yield) -/
def addLabels (ss : List Stmt) : List Stmt :=
  match ss with
  | [] => []
  | s0 :: rest =>
    let fresh := maxLabel0 ss + 1
    let first : Stmt := match s0.label with | none => ⟨some fresh, s0.op⟩ | some _ => s0
    let fresh1 := match s0.label with | none => fresh + 1 | some _ => fresh
    first :: labelAfterYield rest s0.isYield fresh1

/-- the renumbering loops -/
def renum (ss1 : List Stmt) : List Stmt :=
  ss1.map fun s =>
    { label := s.label.map (fun l => (lookupLast (renumberMap ss1 0) l).getD l),
      op := s.op.rewire (renumberMap ss1 0) }

theorem fixLabels_eq (ss : List Stmt) : fixLabels ss = renum (addLabels ss) := by
  cases ss with
  | nil => rfl
  | cons s0 rest => rfl

def ind (t : Nat) (s : Stmt) : Bool := decide (s.label = some t)

theorem mem_labs_iff_ind {C : List Stmt} {t : Nat} : t ∈ labs C ↔ true ∈ C.map (ind t) := by
  simp [mem_labs, ind]

theorem le_maxLabel0 : ∀ {C : List Stmt} {t : Nat}, t ∈ labs C → t ≤ maxLabel0 C
  | [], t, h => by simp [labs] at h
  | s :: C, t, h => by
    rw [labs_cons] at h
    simp only [maxLabel0]
    rcases List.mem_append.mp h with h | h
    · cases hl : s.label with
      | none => simp [hl] at h
      | some l => simp [hl] at h; subst h; simp; omega
    · have := le_maxLabel0 h; omega

/-! `labelAfterYield` -/

theorem lay_ind : ∀ (ss : List Stmt) (p : Bool) (l t : Nat), t < l →
    (labelAfterYield ss p l).map (ind t) = ss.map (ind t)
  | [], _, _, _, _ => rfl
  | s :: ss, p, l, t, h => by
    simp only [labelAfterYield]
    split
    · rename_i hc
      simp only [Bool.and_eq_true, Option.isNone_iff_eq_none] at hc
      simp only [List.map_cons, lay_ind ss _ (l + 1) t (by omega), List.cons.injEq, and_true]
      simp [ind, hc.2]; omega
    · simp only [List.map_cons, lay_ind ss _ l t h]

theorem lay_ops : ∀ (ss : List Stmt) (p : Bool) (l : Nat),
    (labelAfterYield ss p l).map (·.op) = ss.map (·.op)
  | [], _, _ => rfl
  | s :: ss, p, l => by
    simp only [labelAfterYield]
    split <;> simp [lay_ops ss]

theorem lay_labs : ∀ (ss : List Stmt) (p : Bool) (l : Nat),
    (labs ss).Nodup → (∀ x ∈ labs ss, x < l) →
    (labs (labelAfterYield ss p l)).Nodup ∧
      (∀ x ∈ labs (labelAfterYield ss p l), x ∈ labs ss ∨ l ≤ x)
  | [], _, _, _, _ => by simp [labelAfterYield, labs]
  | s :: ss, p, l, hnd, hlt => by
    rw [labs_cons] at hnd hlt
    have hnd' : (labs ss).Nodup := (List.nodup_append.mp hnd).2.1
    have hlt' : ∀ x ∈ labs ss, x < l := fun x hx => hlt x (by simp [hx])
    simp only [labelAfterYield]
    split
    · rename_i hc
      simp only [Bool.and_eq_true, Option.isNone_iff_eq_none] at hc
      obtain ⟨ih1, ih2⟩ := lay_labs ss s.isYield (l + 1) hnd'
        (fun x hx => by have := hlt' x hx; omega)
      rw [labs_cons, labs_cons]
      simp only [Option.toList, List.singleton_append, List.nodup_cons, List.mem_cons, hc.2,
        List.nil_append]
      refine ⟨⟨fun h => ?_, ih1⟩, fun x hx => ?_⟩
      · rcases ih2 l h with h' | h'
        · have := hlt' l h'; omega
        · omega
      · rcases hx with rfl | hx
        · right; omega
        · rcases ih2 x hx with h' | h'
          · left; exact h'
          · right; omega
    · obtain ⟨ih1, ih2⟩ := lay_labs ss s.isYield l hnd' hlt'
      rw [labs_cons, labs_cons]
      refine ⟨?_, fun x hx => ?_⟩
      · cases hl : s.label with
        | none => simpa using ih1
        | some a =>
          simp only [Option.toList, List.singleton_append, List.nodup_cons]
          refine ⟨fun h => ?_, ih1⟩
          rcases ih2 a h with h' | h'
          · have := (List.nodup_append.mp hnd).2.2 a (by simp [hl]) a h'
            exact this rfl
          · have := hlt a (by simp [hl]); omega
      · rcases List.mem_append.mp hx with h | h
        · left; exact List.mem_append.mpr (Or.inl h)
        · rcases ih2 x h with h' | h'
          · left; exact List.mem_append.mpr (Or.inr h')
          · right; exact h'

/-- every statement that follows a `yield` is labelled (`prev` = "the previous one was a yield") -/
def AY : List Stmt → Bool → Prop
  | [], _ => True
  | s :: ss, prev => (prev = true → s.label.isSome = true) ∧ AY ss s.isYield

theorem lay_AY : ∀ (ss : List Stmt) (p : Bool) (l : Nat), AY (labelAfterYield ss p l) p
  | [], _, _ => trivial
  | s :: ss, p, l => by
    simp only [labelAfterYield]
    split
    · exact ⟨fun _ => rfl, by simpa [Stmt.isYield] using lay_AY ss s.isYield (l + 1)⟩
    · rename_i hc
      refine ⟨fun hp => ?_, lay_AY ss s.isYield l⟩
      simp only [Bool.and_eq_true, not_and, Option.isNone_iff_eq_none] at hc
      cases hl : s.label with
      | none => exact absurd hl (hc hp)
      | some _ => rfl

/-! `addLabels` -/

structure AddSpec (ss ss1 : List Stmt) : Prop where
  ops : ss1.map (·.op) = ss.map (·.op)
  ind : ∀ t ∈ labs ss, ss1.map (ind t) = ss.map (ind t)
  nodup : (labs ss1).Nodup
  first : ∀ s ∈ ss1.head?, s.label.isSome = true
  ay : AY ss1 false

theorem addLabels_spec {ss : List Stmt} (hnd : (labs ss).Nodup) : AddSpec ss (addLabels ss) := by
  cases ss with
  | nil => exact ⟨rfl, by simp [labs], by simp [addLabels, labs], by simp [addLabels], trivial⟩
  | cons s0 rest =>
    have hmax : ∀ x ∈ labs (s0 :: rest), x < maxLabel0 (s0 :: rest) + 1 :=
      fun x hx => by have := le_maxLabel0 hx; omega
    rw [labs_cons] at hnd
    have hnd' : (labs rest).Nodup := (List.nodup_append.mp hnd).2.1
    have hmaxr : ∀ x ∈ labs rest, x < maxLabel0 (s0 :: rest) + 1 :=
      fun x hx => hmax x (by rw [labs_cons]; simp [hx])
    cases hl : s0.label with
    | none =>
      have hadd : addLabels (s0 :: rest) = ⟨some (maxLabel0 (s0 :: rest) + 1), s0.op⟩ ::
          labelAfterYield rest s0.isYield (maxLabel0 (s0 :: rest) + 1 + 1) := by
        simp [addLabels, hl]
      obtain ⟨l1, l2⟩ := lay_labs rest s0.isYield (maxLabel0 (s0 :: rest) + 1 + 1) hnd'
        (fun x hx => by have := hmaxr x hx; omega)
      rw [hadd]
      refine ⟨by simp [lay_ops], fun t ht => ?_, ?_, by simp, ?_⟩
      · have htl := hmax t ht
        have hl2 := lay_ind rest s0.isYield (maxLabel0 (s0 :: rest) + 1 + 1) t (by omega)
        simp only [List.map_cons, hl2, List.cons.injEq, and_true]
        have hne : ¬ maxLabel0 (s0 :: rest) + 1 = t := by omega
        simp only [ind, hl, Option.some.injEq, hne, reduceCtorEq]
      · rw [labs_cons]
        simp only [Option.toList, List.singleton_append, List.nodup_cons]
        refine ⟨fun h => ?_, l1⟩
        rcases l2 _ h with h' | h'
        · have := hmaxr _ h'; omega
        · omega
      · exact ⟨by simp, by simpa [Stmt.isYield] using lay_AY rest s0.isYield _⟩
    | some a =>
      have hadd : addLabels (s0 :: rest) = s0 ::
          labelAfterYield rest s0.isYield (maxLabel0 (s0 :: rest) + 1) := by
        simp [addLabels, hl]
      obtain ⟨l1, l2⟩ := lay_labs rest s0.isYield (maxLabel0 (s0 :: rest) + 1) hnd' hmaxr
      rw [hadd]
      refine ⟨by simp [lay_ops], fun t ht => ?_, ?_, by simp [hl], ?_⟩
      · have htl := hmax t ht
        simp only [List.map_cons, lay_ind rest _ _ t htl]
      · rw [labs_cons, hl]
        simp only [Option.toList, List.singleton_append, List.nodup_cons]
        refine ⟨fun h => ?_, l1⟩
        rcases l2 _ h with h' | h'
        · have := (List.nodup_append.mp hnd).2.2 a (by simp [hl]) a h'
          exact this rfl
        · have := hmax a (by rw [labs_cons]; simp [hl]); omega
      · exact ⟨by simp, lay_AY rest s0.isYield _⟩

end AasVerif.Yielding
