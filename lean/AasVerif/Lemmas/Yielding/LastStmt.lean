import AasVerif.Lemmas.Yielding.Pipeline
/-!
The last statement of the emitted code is a `Command` iff the flow ends with a `Command` node
(this decides between the clean return and the fall-through into `default:`).
-/
set_option linter.unusedSimpArgs false
namespace AasVerif.Yielding

def lastCmd (C : List Stmt) : Bool := ((C.map Stmt.isCommand).getLast?).getD false

def Node.isCmd : Node → Bool
  | .command _ => true
  | _ => false

def Op.isCmd : Op → Bool
  | .command _ => true
  | _ => false

theorem Stmt.isCommand_eq (s : Stmt) : s.isCommand = s.op.isCmd := by
  cases s with
  | mk l op => cases op <;> rfl

/-- the flow's last top-level node is a `Command` -/
def flowEndsCmd : List Node → Bool
  | [] => false
  | [n] => n.isCmd
  | _ :: m :: rest => flowEndsCmd (m :: rest)

theorem endStatus_eq (C : List Stmt) (hne : C ≠ []) :
    endStatus C = if lastCmd C then .ended else .crash .invalidState := by
  simp only [endStatus, lastCmd, List.getLast?_map]
  cases h : C.getLast? with
  | none => exact absurd (List.getLast?_eq_none_iff.mp h) hne
  | some s => simp

theorem lastCmd_congr {A B : List Stmt} (h : A.map Stmt.isCommand = B.map Stmt.isCommand) :
    lastCmd A = lastCmd B := by simp [lastCmd, h]

theorem lastCmd_snoc (A : List Stmt) (s : Stmt) : lastCmd (A ++ [s]) = s.isCommand := by
  simp [lastCmd]

theorem lastCmd_append_ne (A B : List Stmt) (h : B ≠ []) : lastCmd (A ++ B) = lastCmd B := by
  simp only [lastCmd, List.map_append, List.getLast?_append]
  cases hB : (B.map Stmt.isCommand).getLast? with
  | none =>
    have := List.getLast?_eq_none_iff.mp hB
    simp at this
    exact absurd this h
  | some b => simp

theorem lastCmd_of_ops {A B : List Stmt} (h : A.map (·.op) = B.map (·.op)) :
    lastCmd A = lastCmd B := by
  apply lastCmd_congr
  have : ∀ C : List Stmt, C.map Stmt.isCommand = (C.map (·.op)).map Op.isCmd := by
    intro C; simp [Stmt.isCommand_eq, Function.comp_def]
  rw [this A, this B, h]

theorem lastCmd_linNode (n : Node) (l : Nat) (h : n.wf = true) :
    lastCmd (linNode n l).1 = n.isCmd := by
  cases n with
  | command c => simp [linNode, lastCmd, Stmt.isCommand, Node.isCmd]
  | yield => simp [linNode, lastCmd, Stmt.isCommand, Node.isCmd]
  | ifThen pos c body =>
    simp only [Node.wf, Bool.and_eq_true, Bool.not_eq_true', List.isEmpty_eq_false_iff] at h
    rw [linNode_ifThen _ _ _ _ h.1 h.2, ← List.cons_append, lastCmd_snoc]; rfl
  | ifElse pos c body els =>
    simp only [Node.wf, Bool.and_eq_true, Bool.not_eq_true', List.isEmpty_eq_false_iff] at h
    rw [linNode_ifElse _ _ _ _ _ h.1.2 h.2, ← List.cons_append, ← List.cons_append,
      ← List.append_assoc, lastCmd_snoc]; rfl
  | forLoop init c it body =>
    simp only [Node.wf] at h
    cases init with
    | none =>
      rw [linNode_forNone _ _ _ _ h, ← List.cons_append]
      rw [show ∀ (a b c : Stmt), [a, b, c] = [a, b] ++ [c] from fun _ _ _ => rfl,
        ← List.append_assoc, lastCmd_snoc]; rfl
    | some i =>
      rw [linNode_forSome, linNode_forNone _ _ _ _ h, ← List.cons_append, ← List.cons_append]
      rw [show ∀ (a b c : Stmt), [a, b, c] = [a, b] ++ [c] from fun _ _ _ => rfl,
        ← List.append_assoc, lastCmd_snoc]; rfl
  | whileLoop c body =>
    simp only [Node.wf] at h
    rw [linNode_while _ _ _ h, ← List.cons_append]
    rw [show ∀ (a b : Stmt), [a, b] = [a] ++ [b] from fun _ _ => rfl,
      ← List.append_assoc, lastCmd_snoc]; rfl

theorem lastCmd_linSeq : ∀ (ns : List Node) (l : Nat), wfSeq ns = true →
    lastCmd (linSeq ns l).1 = flowEndsCmd ns
  | [], _, _ => rfl
  | [n], l, h => by
    simp only [wfSeq, Bool.and_eq_true] at h
    simp only [linSeq, List.append_nil, flowEndsCmd]
    exact lastCmd_linNode n l h.1
  | n :: m :: rest, l, h => by
    simp only [wfSeq, Bool.and_eq_true] at h
    have ih := lastCmd_linSeq (m :: rest) (linNode n l).2 (by simp [wfSeq, h.2.1, h.2.2])
    rw [linSeq, lastCmd_append_ne _ _ (linSeq_ne _ _ (by simp)), ih]
    rfl

theorem lastCmd_dropLabels (C : List Stmt) : lastCmd (dropLabels C) = lastCmd C := by
  apply lastCmd_of_ops
  simp only [dropLabels, List.map_map]
  apply List.map_congr_left
  intro s _
  simp only [Function.comp]
  cases hl : s.label with
  | none => rfl
  | some l => simp only; split <;> rfl

theorem lastCmd_of_getLast {C : List Stmt} {s : Stmt} (h : C.getLast? = some s) :
    lastCmd C = s.isCommand := by
  simp [lastCmd, List.getLast?_map, h]

theorem Op.rewire_isCommand (m : List (Nat × Nat)) (s : Stmt) :
    (Stmt.mk s.label (s.op.rewire m)).isCommand = s.isCommand := by
  cases s with
  | mk l op => cases op <;> rfl

theorem lastCmd_removeNoops {C : List Stmt} (hnl : NoopsLabelled C) :
    lastCmd (removeNoops C) = lastCmd C := by
  cases hC : C.getLast? with
  | none =>
    have : C = [] := List.getLast?_eq_none_iff.mp hC
    subst this; rfl
  | some s =>
    rw [lastCmd_of_getLast hC]
    have hne : C ≠ [] := fun h => by subst h; simp at hC
    have hpos : 0 < C.length := List.length_pos_iff.mpr hne
    have hidx : C[C.length - 1]? = some s := by rw [← List.getLast?_eq_getElem?]; exact hC
    have htake : C.take (C.length - 1 + 1) = C := by
      rw [Nat.sub_add_cancel hpos, List.take_length]
    have hsucc := nn_take_succ hidx
    rw [htake] at hsucc
    have hlen : (removeNoops C).length = nn C + (if trail C [] then 1 else 0) := by
      rw [removeNoops_eq hnl, List.length_map, sweep_len]
    have htr := trail_last C [] s hnl hC
    by_cases hnoop : s.isNoop = true
    · rw [htr, hnoop] at hlen
      obtain ⟨lab, hl⟩ := sweep_trail_get C [] (by rw [htr, hnoop])
      have : (removeNoops C).getLast? = some ⟨lab, Op.noop.rewire (sweep C []).2⟩ := by
        rw [List.getLast?_eq_getElem?, hlen]
        simp only [if_true, Nat.add_sub_cancel]
        rw [removeNoops_eq hnl, List.getElem?_map, hl]; rfl
      rw [lastCmd_of_getLast this]
      have hop : s.op = .noop := by simpa [Stmt.isNoop] using hnoop
      simp [Stmt.isCommand, hop, Op.rewire]
    · simp only [Bool.not_eq_true] at hnoop
      rw [htr, hnoop] at hlen
      obtain ⟨lab, hl⟩ := sweep_get C [] (C.length - 1) s hidx hnoop
      have hnn : nn C - 1 = nn (C.take (C.length - 1)) := by
        rw [hsucc]; simp [hnoop]
      have : (removeNoops C).getLast? = some ⟨lab, s.op.rewire (sweep C []).2⟩ := by
        rw [List.getLast?_eq_getElem?, hlen]
        simp only [Bool.false_eq_true, if_false, Nat.add_zero, hnn]
        rw [removeNoops_eq hnl, List.getElem?_map, hl]; rfl
      rw [lastCmd_of_getLast this]
      cases s with
      | mk l op => cases op <;> rfl

theorem lastCmd_fixLabels {C : List Stmt} (h : Inv2 C) : lastCmd (fixLabels C) = lastCmd C := by
  have hs := addLabels_spec h.nodup
  rw [fixLabels_eq, ← lastCmd_of_ops hs.ops]
  apply lastCmd_congr
  simp only [renum, List.map_map]
  apply List.map_congr_left
  intro s _
  cases s with
  | mk l op => cases op <;> rfl

/-- how the emitted code ends, in terms of the flow -/
theorem endStatus_final (flow : List Node) (hwf : wfSeq flow = true) (hne : flow ≠ []) :
    endStatus (finalStmts flow) =
      if flowEndsCmd flow then .ended else .crash .invalidState := by
  have st := stages flow hwf
  have hlast : lastCmd (finalStmts flow) = flowEndsCmd flow := by
    rw [finalStmts, lastCmd_fixLabels st.inv2, compress, lastCmd_removeNoops st.inv1.noops,
      lastCmd_dropLabels, linearize, lastCmd_linSeq flow 0 hwf]
  by_cases hfin : finalStmts flow = []
  · -- impossible: the linearization of a non-empty flow is non-empty and real statements survive
    exfalso
    have h1 : (finalStmts flow).length = (compress (linearize flow)).length := by
      rw [finalStmts, fixLabels_eq]
      have := congrArg List.length (addLabels_spec st.inv2.nodup).ops
      simp only [List.length_map] at this
      simp [renum, this]
    have h2 : (compress (linearize flow)).length =
        nn (dropLabels (linearize flow)) + (if trail (dropLabels (linearize flow)) [] then 1 else 0) := by
      rw [compress, removeNoops_eq st.inv1.noops, List.length_map, sweep_len]
    have hne1 : dropLabels (linearize flow) ≠ [] := by
      intro h
      have := congrArg List.length h
      simp only [dropLabels, List.length_map, List.length_nil] at this
      exact linSeq_ne flow 0 hne (List.length_eq_zero_iff.mp this)
    rw [hfin] at h1
    simp only [List.length_nil] at h1
    obtain ⟨s, hs⟩ : ∃ s, (dropLabels (linearize flow)).getLast? = some s := by
      cases h : (dropLabels (linearize flow)).getLast? with
      | none => exact absurd (List.getLast?_eq_none_iff.mp h) hne1
      | some s => exact ⟨s, rfl⟩
    have htr := trail_last _ [] s st.inv1.noops hs
    by_cases hnoop : s.isNoop = true
    · rw [htr, hnoop] at h2; simp at h2; omega
    · simp only [Bool.not_eq_true] at hnoop
      have hmem : s ∈ dropLabels (linearize flow) := List.mem_of_getLast? hs
      have : 0 < nn (dropLabels (linearize flow)) := by
        simp only [nn]
        exact List.length_pos_iff.mpr (List.ne_nil_of_mem
          (List.mem_filter.mpr ⟨hmem, by simp [hnoop]⟩))
      omega
  · rw [endStatus_eq _ hfin, hlast]

end AasVerif.Yielding
