import AasVerif.Model.Yielding
/-!
Generic facts about `runM` (fuel-bounded run of a deterministic machine):
fuel monotonicity, convergence (`Conv`), and simulation lemmas.
-/
namespace AasVerif.Yielding

@[simp] theorem Result.cons_none (r : Result) : r.cons none = r := by
  cases r; simp [Result.cons]

@[simp] theorem Result.cons_status (ev : Option Event) (r : Result) :
    (r.cons ev).status = r.status := rfl

@[simp] theorem Result.cons_events (ev : Option Event) (r : Result) :
    (r.cons ev).events = ev.toList ++ r.events := rfl

abbrev Result.ok (r : Result) : Prop := r.status ≠ .crash .outOfFuel

theorem runM_mono {σ : Type} (step : σ → List Bool → Step σ) :
    ∀ (n m : Nat) (s : σ) (orc : List Bool) (r : Result),
      runM step n s orc = r → r.ok → n ≤ m → runM step m s orc = r := by
  intro n
  induction n with
  | zero =>
    intro m s orc r h hok _
    simp [runM] at h
    subst h
    exact absurd rfl hok
  | succ n ih =>
    intro m s orc r h hok hle
    obtain ⟨m', rfl⟩ : ∃ m', m = m' + 1 := ⟨m - 1, by omega⟩
    simp only [runM] at h ⊢
    split
    · next ev st heq =>
      simp only [heq] at h
      exact h
    · next ev s' orc' heq =>
      simp only [heq] at h
      subst h
      rw [ih m' s' orc' _ rfl (by simpa using hok) (by omega)]

/-- The machine started in `s` terminates with result `r` (for every large enough fuel). -/
def Conv {σ : Type} (step : σ → List Bool → Step σ) (s : σ) (orc : List Bool) (r : Result) : Prop :=
  ∃ n, runM step n s orc = r ∧ r.ok

theorem Conv.of_ge {σ : Type} {step : σ → List Bool → Step σ} {s orc r}
    (h : Conv step s orc r) : ∃ n, ∀ m, n ≤ m → runM step m s orc = r := by
  obtain ⟨n, hn, hok⟩ := h
  exact ⟨n, fun m hm => runM_mono step n m s orc r hn hok hm⟩

theorem Conv.unique {σ : Type} {step : σ → List Bool → Step σ} {s orc r r'}
    (h : Conv step s orc r) (h' : Conv step s orc r') : r = r' := by
  obtain ⟨n, hn⟩ := h.of_ge
  obtain ⟨n', hn'⟩ := h'.of_ge
  rw [← hn (max n n') (Nat.le_max_left ..), ← hn' (max n n') (Nat.le_max_right ..)]

theorem Conv.halt {σ : Type} {step : σ → List Bool → Step σ} {s orc ev st}
    (h : step s orc = .halt ev st) (hst : st ≠ .crash .outOfFuel) :
    Conv step s orc ⟨ev.toList, st⟩ :=
  ⟨1, by simp [runM, h], hst⟩

theorem Conv.next {σ : Type} {step : σ → List Bool → Step σ} {s orc ev s' orc' r}
    (h : step s orc = .next ev s' orc') (hr : Conv step s' orc' r) :
    Conv step s orc (r.cons ev) := by
  obtain ⟨n, hn, hok⟩ := hr
  exact ⟨n + 1, by simp [runM, h, hn], by simpa using hok⟩

theorem Conv.silent {σ : Type} {step : σ → List Bool → Step σ} {s orc s' r}
    (h : step s orc = .next none s' orc) (hr : Conv step s' orc r) :
    Conv step s orc r := by
  simpa using Conv.next h hr

/-- Step results related by a relation on the successor states. -/
def StepRel {σ τ : Type} (R : σ → τ → Prop) : Step σ → Step τ → Prop
  | .halt e st, .halt e' st' => e = e' ∧ st = st'
  | .next e a o, .next e' b o' => e = e' ∧ o = o' ∧ R a b
  | _, _ => False

/-- Forward simulation where the left machine may take extra silent steps:
whatever the left machine computes within `n` steps, the right one computes within `n` steps. -/
theorem sim_stutter {σ τ : Type} (s1 : σ → List Bool → Step σ) (s2 : τ → List Bool → Step τ)
    (R : σ → τ → Prop)
    (H : ∀ a b orc, R a b →
        (∃ a', s1 a orc = .next none a' orc ∧ R a' b) ∨ StepRel R (s1 a orc) (s2 b orc)) :
    ∀ (n : Nat) (a : σ) (b : τ) (orc : List Bool) (r : Result),
      R a b → runM s1 n a orc = r → r.ok → runM s2 n b orc = r := by
  intro n
  induction n with
  | zero =>
    intro a b orc r _ h hok
    simp [runM] at h
    subst h
    exact absurd rfl hok
  | succ n ih =>
    intro a b orc r hR h hok
    rcases H a b orc hR with ⟨a', hs, hR'⟩ | hrel
    · simp only [runM, hs, Result.cons_none] at h
      have := ih a' b orc r hR' h hok
      exact runM_mono s2 n (n + 1) b orc r this hok (by omega)
    · simp only [runM] at h ⊢
      cases h1 : s1 a orc with
      | halt e st =>
        cases h2 : s2 b orc with
        | halt e' st' =>
          simp only [h1, h2, StepRel] at hrel h ⊢
          obtain ⟨rfl, rfl⟩ := hrel
          exact h
        | next e' b' o' => simp [h1, h2, StepRel] at hrel
      | next e a' o =>
        cases h2 : s2 b orc with
        | halt e' st' => simp [h1, h2, StepRel] at hrel
        | next e' b' o' =>
          simp only [h1, h2, StepRel] at hrel h ⊢
          obtain ⟨rfl, rfl, hR'⟩ := hrel
          subst h
          rw [ih a' b' o _ hR' rfl (by simpa using hok)]

theorem sim_lock {σ τ : Type} (s1 : σ → List Bool → Step σ) (s2 : τ → List Bool → Step τ)
    (R : σ → τ → Prop)
    (H : ∀ a b orc, R a b → StepRel R (s1 a orc) (s2 b orc)) :
    ∀ (n : Nat) (a : σ) (b : τ) (orc : List Bool), R a b → runM s1 n a orc = runM s2 n b orc := by
  intro n
  induction n with
  | zero => intro a b orc _; simp [runM]
  | succ n ih =>
    intro a b orc hR
    have hrel := H a b orc hR
    simp only [runM]
    cases h1 : s1 a orc with
    | halt e st =>
      cases h2 : s2 b orc with
      | halt e' st' =>
        simp only [h1, h2, StepRel] at hrel ⊢
        obtain ⟨rfl, rfl⟩ := hrel
        rfl
      | next e' b' o' => simp [h1, h2, StepRel] at hrel
    | next e a' o =>
      cases h2 : s2 b orc with
      | halt e' st' => simp [h1, h2, StepRel] at hrel
      | next e' b' o' =>
        simp only [h1, h2, StepRel] at hrel ⊢
        obtain ⟨rfl, rfl, hR'⟩ := hrel
        rw [ih a' b' o hR']

end AasVerif.Yielding
