import AasVerif.Lemmas.Yielding.Noops3
import AasVerif.Lemmas.Yielding.Invariants2
/-!
Invariants of the result of `_remove_noops_in_place`.
-/
set_option linter.unusedSimpArgs false
namespace AasVerif.Yielding

theorem sweep_nodup : ∀ (D : List Stmt) (B : List Nat), (B ++ labs D).Nodup → NoopsLabelled D →
    (labs (sweep D B).1).Nodup
  | [], [], _, _ => by simp [sweep, labs]
  | [], b0 :: rest, _, _ => by simp [sweep, labs]
  | s :: ss, B, hnd, hnl => by
    rw [labs_cons] at hnd
    by_cases hnoop : s.isNoop = true
    · obtain ⟨l, hl⟩ := Option.isSome_iff_exists.mp (hnl s (by simp) hnoop)
      rw [sweep_cons_noop ss B hnoop, hl]
      exact sweep_nodup ss _ (by simpa [hl, List.append_assoc] using hnd) hnl.tail
    · simp only [Bool.not_eq_true] at hnoop
      have hnd0 : ([] ++ labs ss).Nodup := by
        simp only [List.nil_append]
        exact (List.nodup_append.mp (List.nodup_append.mp hnd).2.1).2.1
      have ih := sweep_nodup ss [] hnd0 hnl.tail
      have hout : ∀ t', t' ∈ labs (sweep ss []).1 → t' ∈ labs ss := fun t' h => by
        rcases sweep_labs ss [] t' h with h | h
        · cases h
        · exact h
      have hdisjB : ∀ t ∈ B, t ∉ labs ss := fun t ht hs => by
        have := (List.nodup_append.mp hnd).2.2 t ht t (by simp [hs])
        exact this rfl
      have hdisjS : ∀ t, s.label = some t → t ∉ labs ss := fun t ht hs => by
        have := (List.nodup_append.mp (List.nodup_append.mp hnd).2.1).2.2 t (by simp [ht]) t hs
        exact this rfl
      cases B with
      | nil =>
        have hsw : (sweep (s :: ss) []).1 = s :: (sweep ss []).1 := by simp [sweep, hnoop]
        rw [hsw, labs_cons]
        cases hl : s.label with
        | none => simpa using ih
        | some l =>
          simp only [Option.toList, List.singleton_append, List.nodup_cons]
          exact ⟨fun h => hdisjS l hl (hout l h), ih⟩
      | cons b0 B' =>
        have hsw : (sweep (s :: ss) (b0 :: B')).1 =
            ⟨some (s.label.getD b0), s.op⟩ :: (sweep ss []).1 := by simp [sweep, hnoop]
        rw [hsw, labs_cons]
        simp only [Option.toList, List.singleton_append, List.nodup_cons]
        refine ⟨fun h => ?_, ih⟩
        have h' := hout _ h
        cases hl : s.label with
        | none => simp [hl] at h'; exact hdisjB b0 (by simp) h'
        | some l => simp [hl] at h'; exact hdisjS l hl h'

theorem sweep_targets : ∀ (D : List Stmt) (B : List Nat) (t : Nat),
    t ∈ targets (sweep D B).1 → t ∈ targets D
  | [], [], t, h => by simp [sweep] at h
  | [], b0 :: rest, t, h => by simp [sweep] at h
  | s :: ss, B, t, h => by
    by_cases hnoop : s.isNoop = true
    · rw [sweep_cons_noop ss B hnoop] at h
      simp [sweep_targets ss _ t h]
    · simp only [Bool.not_eq_true] at hnoop
      obtain ⟨lab, m0, hsw⟩ := sweep_cons_real ss B hnoop
      rw [hsw] at h
      simp only [targets_cons, List.mem_append] at h ⊢
      rcases h with h | h
      · exact Or.inl h
      · exact Or.inr (sweep_targets ss [] t h)

theorem Op.targets_mapT (ρ : Nat → Nat) (op : Op) : (op.mapT ρ).targets = op.targets.map ρ := by
  cases op with
  | ifJ c a b => cases a <;> cases b <;> simp [Op.mapT]
  | _ => simp [Op.mapT]

theorem targets_map_rewire (m : List (Nat × Nat)) (C : List Stmt) :
    targets (C.map fun s => { s with op := s.op.rewire m }) = (targets C).map (rewireT m) := by
  induction C with
  | nil => rfl
  | cons s C ih =>
    simp only [List.map_cons, targets_cons, ih, List.map_append]
    rw [Op.rewire_eq_mapT, Op.targets_mapT]

/-- what the label passes need from their input: distinct labels, every target is a label -/
structure Inv2 (C : List Stmt) : Prop where
  nodup : (labs C).Nodup
  targets : ∀ t ∈ targets C, t ∈ labs C

theorem removeNoops_inv {C : List Stmt} (h : Inv C) : Inv2 (removeNoops C) := by
  have hlabs : labs (removeNoops C) = labs (sweep C []).1 := by
    rw [removeNoops_eq h.noops]
    exact labs_map_label (fun s => { s with op := s.op.rewire (sweep C []).2 }) (fun _ => rfl) _
  refine ⟨?_, ?_⟩
  · rw [hlabs]
    exact sweep_nodup C [] (by simpa using h.nodup) h.noops
  · intro t' ht'
    rw [removeNoops_eq h.noops, targets_map_rewire] at ht'
    obtain ⟨t, ht, rfl⟩ := List.mem_map.mp ht'
    have htC := h.targets t (sweep_targets C [] t ht)
    obtain ⟨p, s, _, hp2, hp3⟩ := findLabel_of_mem htC
    have := (sweep_spec C [] (by simpa using h.nodup) h.noops).2 p s t hp2 hp3
    rw [hlabs]
    exact findLabel_some_mem this

end AasVerif.Yielding
