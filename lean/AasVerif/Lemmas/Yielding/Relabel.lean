import AasVerif.Lemmas.Yielding.SimCheck
/-!
Position-preserving passes (`_remove_redundant_labels_in_place`, `_fix_labels_in_place`):
`simCheck` holds with the identity position map as soon as every target resolves to the same
position before and after.
-/
set_option linter.unusedSimpArgs false
namespace AasVerif.Yielding

def Op.mapT (ρ : Nat → Nat) : Op → Op
  | .jump t => .jump (ρ t)
  | .ifJ c a b => .ifJ c (a.map ρ) (b.map ρ)
  | op => op

theorem Op.rewire_eq_mapT (m : List (Nat × Nat)) (op : Op) : op.rewire m = op.mapT (rewireT m) := by
  cases op <;> rfl

theorem Op.mapT_id (op : Op) : op.mapT id = op := by
  cases op <;> simp [Op.mapT]

def idPhi (n : Nat) : List Nat := List.range (n + 1)

theorem phiAt_idPhi {n i : Nat} (h : i ≤ n) : phiAt (idPhi n) i = i := by
  simp [phiAt, idPhi, List.getD, List.getElem?_range (show i < n + 1 by omega)]

theorem mem_targets {C : List Stmt} {s : Stmt} {t : Nat} (hs : s ∈ C) (ht : t ∈ s.op.targets) :
    t ∈ targets C := by
  simp only [targets, List.mem_flatMap]
  exact ⟨s, hs, ht⟩

theorem opCheck_mapT {C C' : List Stmt} {phi : List Nat} (ρ : Nat → Nat) (op : Op)
    (h : ∀ t ∈ op.targets, tCheck C C' phi t (ρ t) = true) :
    opCheck C C' phi op (op.mapT ρ) = true := by
  cases op with
  | command c => simp [Op.mapT, opCheck]
  | yield => simp [Op.mapT, opCheck]
  | noop => simp [Op.mapT, opCheck]
  | jump t => simpa [Op.mapT, opCheck, Op.targets] using h
  | ifJ c a b =>
    cases a <;> cases b <;> simp_all [Op.mapT, opCheck, oCheck, Op.targets]

theorem simCheck_relabel {C C' : List Stmt} (ρ : Nat → Nat) (hlen : C'.length = C.length)
    (hop : ∀ (i : Nat) (s s' : Stmt), C[i]? = some s → C'[i]? = some s' → s'.op = s.op.mapT ρ)
    (hlab : ∀ t ∈ targets C, findLabel C' (ρ t) = findLabel C t) :
    simCheck C C' (idPhi C.length) = true := by
  simp only [simCheck, Bool.and_eq_true, beq_iff_eq, List.all_eq_true, List.mem_range]
  refine ⟨⟨phiAt_idPhi (Nat.zero_le _), by rw [phiAt_idPhi (Nat.le_refl _), hlen]⟩, ?_⟩
  intro i hi
  have h1 := List.getElem?_eq_getElem hi
  have h2 := List.getElem?_eq_getElem (hlen ▸ hi : i < C'.length)
  have hop' := hop i _ _ h1 h2
  simp only [okAt, h1, phiAt_idPhi (Nat.le_of_lt hi), phiAt_idPhi (Nat.succ_le_of_lt hi), h2,
    Bool.or_eq_true, Bool.and_eq_true, beq_iff_eq, true_and]
  right
  rw [hop']
  apply opCheck_mapT
  intro t ht
  have htC := mem_targets (List.mem_of_getElem? h1) ht
  simp only [tCheck, hlab t htC, beq_iff_eq]
  cases hp : findLabel C t with
  | none => rfl
  | some p => simp [phiAt_idPhi (Nat.le_of_lt (findLabel_lt hp))]

theorem findLabel_congr : ∀ {C C' : List Stmt} {t t' : Nat},
    C.map (fun s => decide (s.label = some t)) = C'.map (fun s => decide (s.label = some t')) →
    findLabel C t = findLabel C' t'
  | [], [], _, _, _ => rfl
  | [], _ :: _, _, _, h => by simp at h
  | _ :: _, [], _, _, h => by simp at h
  | s :: C, s' :: C', t, t', h => by
    simp only [List.map_cons, List.cons.injEq, decide_eq_decide] at h
    simp only [findLabel]
    rw [findLabel_congr h.2]
    by_cases hs : s.label = some t
    · simp [hs, h.1.mp hs]
    · have : ¬ s'.label = some t' := fun h' => hs (h.1.mpr h')
      simp [hs, this]

/-! `_remove_redundant_labels_in_place` -/

theorem dropLabels_simCheck (C : List Stmt) :
    simCheck C (dropLabels C) (idPhi C.length) = true := by
  apply simCheck_relabel id
  · simp [dropLabels]
  · intro i s s' h1 h2
    simp only [dropLabels, List.getElem?_map, h1, Option.map_some, Option.some.injEq] at h2
    subst h2
    rw [Op.mapT_id]
    cases hl : s.label with
    | none => simp
    | some l => simp only; split <;> rfl
  · intro t ht
    apply findLabel_congr
    simp only [dropLabels, List.map_map]
    apply List.map_congr_left
    intro s _
    simp only [Function.comp, id, decide_eq_decide]
    cases hl : s.label with
    | none => simp [hl]
    | some l =>
      simp only
      by_cases hlt : l ∈ targets C
      · simp [hlt, hl]
      · simp only [hlt, if_false, reduceCtorEq, Option.some.injEq, false_iff]
        intro h; subst h; exact hlt ht

theorem dropLabels_targets (C : List Stmt) : targets (dropLabels C) = targets C := by
  simp only [targets, dropLabels, List.flatMap_map]
  congr 1
  funext s
  cases hl : s.label with
  | none => rfl
  | some l =>
    simp only
    by_cases h : l ∈ List.flatMap (fun s => s.op.targets) C <;> simp [h]

end AasVerif.Yielding
