import AasVerif.Lemmas.Yielding.Noops2
import AasVerif.Lemmas.Yielding.Invariants
/-!
`_remove_noops_in_place`: the `simCheck` certificate and the invariants of the result.
-/
set_option linter.unusedSimpArgs false
namespace AasVerif.Yielding

theorem nn_append (A B : List Stmt) : nn (A ++ B) = nn A + nn B := by
  simp [nn, List.filter_append]

theorem nn_take_succ {C : List Stmt} {i : Nat} {s : Stmt} (h : C[i]? = some s) :
    nn (C.take (i + 1)) = nn (C.take i) + (if s.isNoop then 0 else 1) := by
  rw [List.take_add_one, h, nn_append]
  simp [nn_cons]

theorem findLabel_of_mem : ∀ {C : List Stmt} {t : Nat}, t ∈ labs C →
    ∃ p s, findLabel C t = some p ∧ C[p]? = some s ∧ s.label = some t
  | [], t, h => by simp [labs] at h
  | x :: C, t, h => by
    by_cases hx : x.label = some t
    · exact ⟨0, x, by simp [findLabel, hx], by simp, hx⟩
    · rw [labs_cons] at h
      have h' : t ∈ labs C := by
        simp only [List.mem_append] at h
        rcases h with h | h
        · cases hl : x.label with
          | none => simp [hl] at h
          | some l => simp [hl] at h; subst h; exact absurd hl hx
        · exact h
      obtain ⟨p, s, h1, h2, h3⟩ := findLabel_of_mem h'
      exact ⟨p + 1, s, by simp [findLabel, hx, h1], by simpa using h2, h3⟩

theorem findLabel_map_label (f : Stmt → Stmt) (hf : ∀ s, (f s).label = s.label) :
    ∀ (C : List Stmt) (t : Nat), findLabel (C.map f) t = findLabel C t
  | [], _ => rfl
  | s :: C, t => by simp [findLabel, hf, findLabel_map_label f hf C t]

theorem labs_map_label (f : Stmt → Stmt) (hf : ∀ s, (f s).label = s.label) (C : List Stmt) :
    labs (C.map f) = labs C := by
  simp [labs, List.filterMap_map, Function.comp_def, hf]

theorem NoopsLabelled.filter_keep {C : List Stmt} (h : NoopsLabelled C) :
    C.filter keepStmt = C := by
  apply List.filter_eq_self.mpr
  intro s hs
  simp only [keepStmt, Bool.or_eq_true, Bool.not_eq_true']
  by_cases hn : s.isNoop = true
  · right; exact h s hs hn
  · left; simpa using hn

/-- position map for `_remove_noops_in_place`: statement `i` goes to "number of real statements
before `i`" (of a trailing no-op block the last one stands for the surviving no-op) -/
def phiN (C : List Stmt) : List Nat :=
  (List.range C.length).map (fun i => nn (C.take i)) ++ [(removeNoops C).length]

theorem phiAt_phiN_lt {C : List Stmt} {i : Nat} (h : i < C.length) :
    phiAt (phiN C) i = nn (C.take i) := by
  simp [phiAt, phiN, List.getD, List.getElem?_append_left, h]

theorem phiAt_phiN_end (C : List Stmt) : phiAt (phiN C) C.length = (removeNoops C).length := by
  simp [phiAt, phiN, List.getD, List.getElem?_append_right]

theorem removeNoops_eq {C : List Stmt} (h : NoopsLabelled C) :
    removeNoops C = (sweep C []).1.map
      (fun s => { s with op := s.op.rewire (sweep C []).2 }) := by
  simp [removeNoops, h.filter_keep]

theorem removeNoops_simCheck {C : List Stmt} (hnl : NoopsLabelled C) (hnd : (labs C).Nodup)
    (htg : ∀ t ∈ targets C, t ∈ labs C) :
    simCheck C (removeNoops C) (phiN C) = true := by
  have hspec := (sweep_spec C [] (by simpa using hnd) hnl).2
  have hlen : (removeNoops C).length = nn C + (if trail C [] then 1 else 0) := by
    rw [removeNoops_eq hnl, List.length_map, sweep_len]
  have hget : ∀ (j : Nat) (lab : Option Nat) (op : Op),
      (sweep C []).1[j]? = some (Stmt.mk lab op) →
      (removeNoops C)[j]? = some (Stmt.mk lab (op.rewire (sweep C []).2)) := by
    intro j lab op h
    rw [removeNoops_eq hnl, List.getElem?_map, h]; rfl
  have hfind : ∀ t, findLabel (removeNoops C) t = findLabel (sweep C []).1 t := by
    intro t
    rw [removeNoops_eq hnl]
    exact findLabel_map_label (fun s => { s with op := s.op.rewire (sweep C []).2 }) (fun _ => rfl) _ t
  simp only [simCheck, Bool.and_eq_true, beq_iff_eq, List.all_eq_true, List.mem_range]
  refine ⟨⟨?_, phiAt_phiN_end C⟩, ?_⟩
  · cases C with
    | nil => simp [phiAt, phiN, removeNoops, sweep]
    | cons s C => rw [phiAt_phiN_lt (by simp)]; simp
  · intro i hi
    have h1 := List.getElem?_eq_getElem hi
    generalize hs : C[i] = s at h1
    have hsucc := nn_take_succ h1
    -- value of phi at i+1
    have hphi1 : phiAt (phiN C) (i + 1) =
        if i + 1 < C.length then nn (C.take (i + 1)) else (removeNoops C).length := by
      by_cases hlt : i + 1 < C.length
      · simp [hlt, phiAt_phiN_lt hlt]
      · have : i + 1 = C.length := by omega
        simp [hlt, this ▸ phiAt_phiN_end C]
    have hlast : i + 1 = C.length → C.getLast? = some s ∧ C.take (i + 1) = C := by
      intro hl
      refine ⟨?_, by rw [hl, List.take_length]⟩
      rw [List.getLast?_eq_getElem?]
      have : C.length - 1 = i := by omega
      rw [this, h1]
    simp only [okAt, h1, phiAt_phiN_lt hi, hphi1, Bool.or_eq_true, Bool.and_eq_true, beq_iff_eq]
    by_cases hnoop : s.isNoop = true
    · by_cases hlt : i + 1 < C.length
      · left
        simp [hnoop, hlt, hsucc]
      · right
        obtain ⟨hgl, htk⟩ := hlast (by omega)
        have htr : trail C [] = true := by rw [trail_last C [] s hnl hgl, hnoop]
        have hnn : nn (C.take i) = nn C := by
          have := hsucc
          rw [htk] at this
          simp [hnoop] at this
          omega
        obtain ⟨lab, hl⟩ := sweep_trail_get C [] htr
        rw [hnn, hget _ _ _ hl]
        have hop : s.op = .noop := by simpa [Stmt.isNoop] using hnoop
        simp [hlt, hlen, htr, hop, Op.rewire, opCheck]
    · right
      simp only [Bool.not_eq_true] at hnoop
      obtain ⟨lab, hl⟩ := sweep_get C [] i s h1 hnoop
      rw [hget _ _ _ hl]
      simp only [Bool.and_eq_true, beq_iff_eq]
      refine ⟨?_, ?_⟩
      · by_cases hlt : i + 1 < C.length
        · simp [hlt, hsucc, hnoop]
        · obtain ⟨hgl, htk⟩ := hlast (by omega)
          have htr : trail C [] = false := by rw [trail_last C [] s hnl hgl, hnoop]
          rw [htk] at hsucc
          simp [hlt, hlen, htr, hsucc, hnoop]
      · rw [Op.rewire_eq_mapT]
        apply opCheck_mapT
        intro t ht
        have htC := htg t (mem_targets (List.mem_of_getElem? h1) ht)
        obtain ⟨p, s', hp1, hp2, hp3⟩ := findLabel_of_mem htC
        have hplt : p < C.length := findLabel_lt hp1
        simp only [tCheck, hp1, Option.map_some, phiAt_phiN_lt hplt, hfind, hspec p s' t hp2 hp3,
          beq_self_eq_true]

end AasVerif.Yielding
