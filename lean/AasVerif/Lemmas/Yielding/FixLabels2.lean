import AasVerif.Lemmas.Yielding.FixLabels
/-!
`_fix_labels_in_place`: the renumbering, the `simCheck` certificate and the resulting invariants.
-/
set_option linter.unusedSimpArgs false
namespace AasVerif.Yielding

theorem renumberMap_keys : ∀ (ss : List Stmt) (n : Nat),
    (renumberMap ss n).map Prod.fst = labs ss
  | [], _ => rfl
  | s :: ss, n => by
    rw [labs_cons]
    cases hl : s.label with
    | none => simp [renumberMap, hl, renumberMap_keys ss n]
    | some a => simp [renumberMap, hl, renumberMap_keys ss (n + 1)]

theorem lookupLast_some_of_mem {m : List (Nat × Nat)} {k : Nat} (h : k ∈ m.map Prod.fst) :
    ∃ v, lookupLast m k = some v := by
  induction m with
  | nil => simp at h
  | cons x m ih =>
    obtain ⟨x1, x2⟩ := x
    simp only [List.map_cons, List.mem_cons] at h
    simp only [lookupLast]
    cases hq : lookupLast m k with
    | some v => exact ⟨v, rfl⟩
    | none =>
      rcases h with h | h
      · subst h; exact ⟨x2, by simp⟩
      · obtain ⟨v, hv⟩ := ih h; rw [hq] at hv; cases hv

theorem renumber_map : ∀ (ss : List Stmt) (n : Nat), (labs ss).Nodup →
    (labs ss).map (rewireT (renumberMap ss n)) = List.range' n (labs ss).length
  | [], _, _ => rfl
  | s :: ss, n, hnd => by
    rw [labs_cons] at hnd ⊢
    cases hl : s.label with
    | none =>
      rw [hl] at hnd
      simpa [renumberMap, hl] using renumber_map ss n (by simpa using hnd)
    | some a =>
      rw [hl] at hnd
      simp only [Option.toList, List.singleton_append, List.nodup_cons] at hnd
      simp only [renumberMap, hl, Option.toList, List.singleton_append, List.map_cons,
        List.length_cons, List.range'_succ, List.cons.injEq]
      refine ⟨?_, ?_⟩
      · have : lookupLast (renumberMap ss (n + 1)) a = none :=
          lookupLast_none (by rw [renumberMap_keys]; exact hnd.1)
        simp [rewireT, lookupLast, this]
      · rw [← renumber_map ss (n + 1) hnd.2]
        apply List.map_congr_left
        intro x hx
        obtain ⟨v, hv⟩ := lookupLast_some_of_mem (m := renumberMap ss (n + 1))
          (by rw [renumberMap_keys]; exact hx)
        simp [rewireT, lookupLast, hv]

theorem inj_of_nodup_map {α β : Type} (f : α → β) : ∀ (L : List α), (L.map f).Nodup →
    ∀ a ∈ L, ∀ b ∈ L, f a = f b → a = b
  | [], _, a, ha, _, _, _ => by simp at ha
  | x :: L, h, a, ha, b, hb, hab => by
    simp only [List.map_cons, List.nodup_cons, List.mem_map, not_exists, not_and] at h
    rcases List.mem_cons.mp ha with rfl | ha' <;> rcases List.mem_cons.mp hb with rfl | hb'
    · rfl
    · exact absurd hab.symm (h.1 b hb')
    · exact absurd hab (h.1 a ha')
    · exact inj_of_nodup_map f L h.2 a ha' b hb' hab

theorem labs_renum (ss1 : List Stmt) :
    labs (renum ss1) = (labs ss1).map (rewireT (renumberMap ss1 0)) := by
  simp only [renum, labs, List.filterMap_map, List.map_filterMap]
  rfl

theorem targets_renum (ss1 : List Stmt) :
    targets (renum ss1) = (targets ss1).map (rewireT (renumberMap ss1 0)) := by
  have : ∀ (m : List (Nat × Nat)) (C : List Stmt),
      targets (C.map fun s => Stmt.mk (s.label.map (fun l => (lookupLast m l).getD l))
        (s.op.rewire m)) = (targets C).map (rewireT m) := by
    intro m C
    induction C with
    | nil => rfl
    | cons s C ih =>
      simp only [List.map_cons, targets_cons, ih, List.map_append]
      rw [Op.rewire_eq_mapT, Op.targets_mapT]
  exact this _ _

theorem targets_of_ops {A B : List Stmt} (h : A.map (·.op) = B.map (·.op)) :
    targets A = targets B := by
  have : ∀ C : List Stmt, targets C = (C.map (·.op)).flatMap Op.targets := by
    intro C; simp [targets, List.flatMap_map]
  rw [this A, this B, h]

/-- what `_split_in_subroutines` and the emitted state machine need -/
structure Inv3 (C : List Stmt) : Prop where
  labs : labs C = List.range (labs C).length
  targets : ∀ t ∈ targets C, t ∈ AasVerif.Yielding.labs C
  first : ∀ s ∈ C.head?, s.label.isSome = true
  ay : AY C false

theorem AY_map (f : Stmt → Stmt) (h1 : ∀ s, (f s).label.isSome = s.label.isSome)
    (h2 : ∀ s, (f s).isYield = s.isYield) : ∀ (C : List Stmt) (p : Bool), AY C p → AY (C.map f) p
  | [], _, _ => trivial
  | s :: C, p, h => by
    simp only [List.map_cons, AY, h1, h2]
    exact ⟨h.1, AY_map f h1 h2 C _ h.2⟩

theorem Op.rewire_isYield (m : List (Nat × Nat)) (op : Op) : (op.rewire m = .yield) ↔ op = .yield := by
  cases op <;> simp [Op.rewire]

theorem fixLabels_spec {C : List Stmt} (h : Inv2 C) :
    simCheck C (fixLabels C) (idPhi C.length) = true ∧ Inv3 (fixLabels C) := by
  have hs := addLabels_spec h.nodup
  have hmap := renumber_map (addLabels C) 0 hs.nodup
  have hinj := inj_of_nodup_map (rewireT (renumberMap (addLabels C) 0)) (labs (addLabels C))
    (by rw [hmap]; exact List.nodup_range' (step := 1))
  have hsub : ∀ t ∈ labs C, t ∈ labs (addLabels C) := fun t ht => by
    rw [mem_labs_iff_ind, hs.ind t ht, ← mem_labs_iff_ind]; exact ht
  have hlen : (addLabels C).length = C.length := by
    have := congrArg List.length hs.ops; simpa using this
  rw [fixLabels_eq]
  refine ⟨?_, ?_⟩
  · apply simCheck_relabel (rewireT (renumberMap (addLabels C) 0))
    · simp [renum, hlen]
    · intro i s s' h1 h2
      simp only [renum, List.getElem?_map] at h2
      have hop : ((addLabels C).map (·.op))[i]? = (C.map (·.op))[i]? := by rw [hs.ops]
      simp only [List.getElem?_map, h1, Option.map_some] at hop
      cases h3 : (addLabels C)[i]? with
      | none => simp [h3] at h2
      | some s1 =>
        simp only [h3, Option.map_some, Option.some.injEq] at h2 hop
        subst h2
        simp only [hop, Op.rewire_eq_mapT]
    · intro t ht
      have htl := h.targets t ht
      have ht1 := hsub t htl
      apply findLabel_congr
      rw [show C.map (fun s => decide (s.label = some t)) = C.map (ind t) from rfl, ← hs.ind t htl]
      simp only [renum, List.map_map]
      apply List.map_congr_left
      intro s hsm
      simp only [Function.comp, ind, decide_eq_decide]
      cases hl : s.label with
      | none => simp
      | some l =>
        simp only [Option.map_some, Option.some.injEq]
        have hl1 : l ∈ labs (addLabels C) := mem_labs.mpr ⟨s, hsm, hl⟩
        constructor
        · intro heq
          exact hinj l hl1 t ht1 heq
        · intro heq; subst heq; rfl
  · refine ⟨?_, ?_, ?_, ?_⟩
    · rw [labs_renum, hmap, List.length_range', List.range_eq_range']
    · intro t' ht'
      rw [targets_renum, targets_of_ops hs.ops] at ht'
      obtain ⟨t, ht, rfl⟩ := List.mem_map.mp ht'
      rw [labs_renum]
      exact List.mem_map.mpr ⟨t, hsub t (h.targets t ht), rfl⟩
    · intro s hsm
      simp only [renum, List.head?_map, Option.mem_def, Option.map_eq_some_iff] at hsm
      obtain ⟨s1, hs1, rfl⟩ := hsm
      simpa using hs.first s1 hs1
    · exact AY_map _ (fun s => by simp) (fun s => by simp [Stmt.isYield, Op.rewire_isYield])
        _ _ hs.ay

end AasVerif.Yielding
