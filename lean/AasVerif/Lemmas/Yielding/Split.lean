import AasVerif.Lemmas.Yielding.FixLabels2
/-!
`_split_in_subroutines` produces subroutines of the shape `subsCheck` demands.
-/
set_option linter.unusedSimpArgs false
namespace AasVerif.Yielding

theorem splitAux_flatten : ∀ (ss block : List Stmt), (splitAux ss block).flatten = block ++ ss
  | [], block => by
    simp only [splitAux]
    split
    · rename_i h; simp [List.isEmpty_iff.mp h]
    · simp
  | s :: ss, block => by
    simp only [splitAux]
    split
    · rw [List.flatten_append, splitAux_flatten ss [s]]
      split
      · rename_i h; simp [List.isEmpty_iff.mp h]
      · simp
    · rw [splitAux_flatten ss (block ++ [s])]; simp

theorem splitAux_length : ∀ (ss block : List Stmt), block ≠ [] →
    (splitAux ss block).length = (labs ss).length + 1
  | [], block, h => by simp [splitAux, h, labs]
  | s :: ss, block, h => by
    simp only [splitAux]
    rw [labs_cons]
    split
    · rename_i hl
      obtain ⟨l, hl'⟩ := Option.isSome_iff_exists.mp hl
      simp [h, splitAux_length ss [s] (by simp), hl']
    · rename_i hl
      have : s.label = none := by simpa using hl
      simp [splitAux_length ss (block ++ [s]) (by simp), this]

def lastYield (block : List Stmt) : Bool :=
  match block.getLast? with
  | some x => x.isYield
  | none => false

theorem yieldLast_snoc : ∀ (block : List Stmt) (s : Stmt), yieldLast block = true →
    lastYield block = false → yieldLast (block ++ [s]) = true
  | [], s, _, _ => rfl
  | [x], s, _, h => by
    simp [lastYield] at h
    simp [yieldLast, h]
  | x :: y :: rest, s, hy, h => by
    simp only [yieldLast, Bool.and_eq_true, Bool.not_eq_true'] at hy
    have h' : lastYield (y :: rest) = false := by
      simpa [lastYield, List.getLast?_cons_cons] using h
    have := yieldLast_snoc (y :: rest) s hy.2 h'
    simp only [List.cons_append] at this ⊢
    simp [yieldLast, hy.1, this]

theorem subOk_snoc {block : List Stmt} {s : Stmt} (hb : subOk block = true)
    (hs : s.label = none) (hl : lastYield block = false) : subOk (block ++ [s]) = true := by
  cases block with
  | nil => simp [subOk] at hb
  | cons b tl =>
    simp only [subOk, Bool.and_eq_true] at hb
    obtain ⟨⟨h1, h2⟩, h3⟩ := hb
    have := yieldLast_snoc (b :: tl) s h3 hl
    simp only [List.cons_append] at this ⊢
    simp [subOk, h1, h2, hs, this]

theorem lastYield_snoc (block : List Stmt) (s : Stmt) : lastYield (block ++ [s]) = s.isYield := by
  simp [lastYield]

theorem splitAux_ok : ∀ (ss block : List Stmt), subOk block = true → AY ss (lastYield block) →
    (splitAux ss block).all subOk = true
  | [], block, hb, _ => by
    have : block ≠ [] := by intro h; subst h; simp [subOk] at hb
    simp [splitAux, this, hb]
  | s :: ss, block, hb, hay => by
    have hne : block ≠ [] := by intro h; subst h; simp [subOk] at hb
    simp only [splitAux]
    split
    · rename_i hl
      have h1 : subOk [s] = true := by simp [subOk, hl, yieldLast]
      have := splitAux_ok ss [s] h1 (by simpa [lastYield] using hay.2)
      simp [hne, hb, this]
    · rename_i hl
      have hnone : s.label = none := by simpa using hl
      have hly : lastYield block = false := by
        cases hp : lastYield block with
        | false => rfl
        | true => have := hay.1 hp; simp [hnone] at this
      exact splitAux_ok ss (block ++ [s]) (subOk_snoc hb hnone hly)
        (by rw [lastYield_snoc]; exact hay.2)

theorem split_spec {C : List Stmt} (h : Inv3 C) :
    subsCheck (split C) = true ∧ (split C).flatten = C := by
  cases C with
  | nil => simp [split, splitAux, subsCheck, labs]
  | cons s ss =>
    have hl : s.label.isSome = true := h.first s (by simp)
    have hsp : split (s :: ss) = splitAux ss [s] := by
      simp [split, splitAux, hl]
    have hflat : (split (s :: ss)).flatten = s :: ss := by
      rw [hsp, splitAux_flatten]; rfl
    refine ⟨?_, hflat⟩
    simp only [subsCheck, Bool.and_eq_true, beq_iff_eq]
    refine ⟨?_, ?_⟩
    · rw [hsp]
      exact splitAux_ok ss [s] (by simp [subOk, hl, yieldLast]) (by simpa [lastYield] using h.ay.2)
    · rw [hflat, h.labs]
      congr 1
      rw [hsp, splitAux_length ss [s] (by simp), labs_cons]
      obtain ⟨l, hl'⟩ := Option.isSome_iff_exists.mp hl
      simp [hl']

end AasVerif.Yielding
