import AasVerif.Lemmas.Yielding.Split
import AasVerif.Lemmas.Yielding.SubSim
/-!
Assembly: the facts about every stage of `linearize_to_subroutines` for well-formed flows.
-/
set_option linter.unusedSimpArgs false
namespace AasVerif.Yielding

/-- the statement list that `_split_in_subroutines` receives -/
def finalStmts (flow : List Node) : List Stmt := fixLabels (compress (linearize flow))

theorem toSubroutines_cons (nd : Node) (rest : List Node) :
    toSubroutines (nd :: rest) = split (finalStmts (nd :: rest)) := by
  simp [toSubroutines, finalStmts]

structure Stages (flow : List Node) : Prop where
  sim1 : simCheck (linearize flow) (dropLabels (linearize flow))
    (idPhi (linearize flow).length) = true
  inv1 : Inv (dropLabels (linearize flow))
  sim2 : simCheck (dropLabels (linearize flow)) (compress (linearize flow))
    (phiN (dropLabels (linearize flow))) = true
  inv2 : Inv2 (compress (linearize flow))
  sim3 : simCheck (compress (linearize flow)) (finalStmts flow)
    (idPhi (compress (linearize flow)).length) = true
  inv3 : Inv3 (finalStmts flow)
  subs : subsCheck (split (finalStmts flow)) = true
  flat : (split (finalStmts flow)).flatten = finalStmts flow

theorem stages (flow : List Node) (hwf : wfSeq flow = true) : Stages flow := by
  have inv1 := dropLabels_inv flow hwf
  have sim2 := removeNoops_simCheck inv1.noops inv1.nodup inv1.targets
  have inv2 := removeNoops_inv inv1
  have h3 := fixLabels_spec inv2
  have h4 := split_spec h3.2
  exact ⟨dropLabels_simCheck _, inv1, sim2, inv2, h3.1, h3.2, h4.1, h4.2⟩

/-- the goto machine over the final statement list computes the structured result -/
theorem final_conv (flow : List Node) (hwf : wfSeq flow = true) (orc : List Bool) :
    Conv (flatStep (finalStmts flow)) 0 orc (Flow.run flow orc) := by
  have st := stages flow hwf
  exact simCheck_conv st.sim3 (simCheck_conv st.sim2 (simCheck_conv st.sim1
    (linearize_conv flow hwf orc)))

/-- from the goto machine over the concatenation to the emitted state machine -/
theorem sub_of_flat {subs : List (List Stmt)} (hsubs : subsCheck subs = true)
    {orc : List Bool} {r : Result} (hc : Conv (flatStep subs.flatten) 0 orc r) :
    ∃ k, ∀ m, k ≤ m → runSubFuel m subs orc = r.withEnd (endStatus subs.flatten) := by
  obtain ⟨n, hn, hok⟩ := hc
  cases subs with
  | nil =>
    refine ⟨0, fun m _ => ?_⟩
    simp only [List.flatten_nil] at hn
    have : r = ⟨[], .ended⟩ := by
      rw [← hn]
      exact runM_flat_end (C := []) (by simp) (by rw [hn]; exact hok)
    simp [runSubFuel, this, Result.withEnd, endStatus]
  | cons sub rest =>
    have hs := SubsOk.of_check hsubs
    have hpos : Pos (sub :: rest) 0 0 0 :=
      ⟨sub, by simp, hs.ne_nil (i := 0) (by simp), by simp [start_zero]⟩
    have := (sub_sim hs n 0 orc r hn hok 0 0 hpos).of_ge
    have h0 : findSub (sub :: rest) 0 = some 0 := by rw [hs.findSub]; simp
    simpa [runSubFuel, h0] using this

end AasVerif.Yielding
