import AasVerif.Lemmas.JsonSchemaValid
import AasVerif.Model.JsonSchemaGen
/-!
The key lemma of C11/C12: the schema `_define_type` emits for a type annotation accepts exactly
the JSON values that have the shape of the annotation and satisfy the inferred constraints the
annotation carries (`Sat`).
-/
namespace AasVerif.JsonSchema
open AasVerif AasVerif.Retree

/-! ## What each keyword means when it accepts -/

section kw
variable (defs : Defs) (r : Schema → Json → Option Bool)

@[simp] theorem kw_type (t : JType) (j : Json) :
    validKw defs r (.type t) j = some true ↔ hasType t j = true := by simp [validKw]

@[simp] theorem kw_contentEncoding (e : Text) (j : Json) :
    validKw defs r (.contentEncoding e) j = some true := by simp [validKw]

@[simp] theorem kw_minLength (n : Int) (j : Json) :
    validKw defs r (.minLength n) j = some true ↔ ∀ s, j = .str s → n ≤ (s.length : Int) := by
  cases j <;> simp [validKw, inLo]

@[simp] theorem kw_maxLength (n : Int) (j : Json) :
    validKw defs r (.maxLength n) j = some true ↔ ∀ s, j = .str s → (s.length : Int) ≤ n := by
  cases j <;> simp [validKw, inHi]

@[simp] theorem kw_minItems (n : Int) (j : Json) :
    validKw defs r (.minItems n) j = some true ↔ ∀ xs, j = .arr xs → n ≤ (xs.length : Int) := by
  cases j <;> simp [validKw, inLo]

@[simp] theorem kw_maxItems (n : Int) (j : Json) :
    validKw defs r (.maxItems n) j = some true ↔ ∀ xs, j = .arr xs → (xs.length : Int) ≤ n := by
  cases j <;> simp [validKw, inHi]

@[simp] theorem kw_pattern (re : Regex) (j : Json) :
    validKw defs r (.pattern re) j = some true ↔
      ∀ s, j = .str s → searchB re (Fix16.utf16 s) = .yes := by
  cases j <;> simp [validKw]
  cases searchB re _ <;> simp [R.toO]

@[simp] theorem kw_allOf (ss : List Schema) (j : Json) :
    validKw defs r (.allOf ss) j = some true ↔ ∀ s ∈ ss, r s j = some true := by
  simp [validKw, allO_true_iff]

@[simp] theorem kw_items (s : Schema) (j : Json) :
    validKw defs r (.items s) j = some true ↔ ∀ xs, j = .arr xs → ∀ x ∈ xs, r s x = some true := by
  cases j <;> simp [validKw, allO_true_iff]

@[simp] theorem kw_ref (name : Text) (j : Json) :
    validKw defs r (.ref name) j = some true ↔
      ∃ s, lookup name defs = some s ∧ r s j = some true := by
  simp only [validKw]
  cases lookup name defs <;> simp

@[simp] theorem kw_const (c : Text) (j : Json) :
    validKw defs r (.const c) j = some true ↔ j = .str c := by
  cases j <;> simp [validKw]

@[simp] theorem kw_enum (vs : List Text) (j : Json) :
    validKw defs r (.enum vs) j = some true ↔ ∃ s, j = .str s ∧ s ∈ vs := by
  cases j <;> simp [validKw]

@[simp] theorem kw_required (rs : List Text) (j : Json) :
    validKw defs r (.required rs) j = some true ↔
      ∀ kvs, j = .obj kvs → ∀ k ∈ rs, hasKey k kvs = true := by
  cases j <;> simp [validKw, List.all_eq_true]

@[simp] theorem kw_properties (ps : List (Text × Schema)) (j : Json) :
    validKw defs r (.properties ps) j = some true ↔
      ∀ kvs, j = .obj kvs → ∀ p ∈ ps, ∀ v, lookup p.1 kvs = some v → r p.2 v = some true := by
  cases j with
  | obj kvs =>
    simp only [validKw, allO_true_iff, List.mem_map, forall_exists_index, and_imp, Json.obj.injEq,
      forall_eq']
    constructor
    · intro h p hp v hv
      have := h _ p hp rfl
      obtain ⟨k, s⟩ := p
      simpa [hv] using this
    · rintro h x ⟨k, s⟩ hp rfl
      cases hl : lookup k kvs with
      | none => rfl
      | some v => exact h (k, s) hp v hl
  | _ => simp [validKw]

end kw

/-! ## …and with the fuel quantified away (`KwValid`) -/

section kwv
variable (defs : Defs)

@[simp] theorem kwv_type (t : JType) (j : Json) : KwValid defs (.type t) j ↔ hasType t j = true := by
  simp [KwValid]

@[simp] theorem kwv_contentEncoding (e : Text) (j : Json) : KwValid defs (.contentEncoding e) j := by
  simp [KwValid]

@[simp] theorem kwv_minLength (n : Int) (j : Json) :
    KwValid defs (.minLength n) j ↔ ∀ s, j = .str s → n ≤ (s.length : Int) := by simp [KwValid]

@[simp] theorem kwv_maxLength (n : Int) (j : Json) :
    KwValid defs (.maxLength n) j ↔ ∀ s, j = .str s → (s.length : Int) ≤ n := by simp [KwValid]

@[simp] theorem kwv_minItems (n : Int) (j : Json) :
    KwValid defs (.minItems n) j ↔ ∀ xs, j = .arr xs → n ≤ (xs.length : Int) := by simp [KwValid]

@[simp] theorem kwv_maxItems (n : Int) (j : Json) :
    KwValid defs (.maxItems n) j ↔ ∀ xs, j = .arr xs → (xs.length : Int) ≤ n := by simp [KwValid]

@[simp] theorem kwv_pattern (re : Regex) (j : Json) :
    KwValid defs (.pattern re) j ↔ ∀ s, j = .str s → searchB re (Fix16.utf16 s) = .yes := by
  simp [KwValid]

@[simp] theorem kwv_const (c : Text) (j : Json) : KwValid defs (.const c) j ↔ j = .str c := by
  simp [KwValid]

@[simp] theorem kwv_enum (vs : List Text) (j : Json) :
    KwValid defs (.enum vs) j ↔ ∃ s, j = .str s ∧ s ∈ vs := by simp [KwValid]

@[simp] theorem kwv_required (rs : List Text) (j : Json) :
    KwValid defs (.required rs) j ↔ ∀ kvs, j = .obj kvs → ∀ k ∈ rs, hasKey k kvs = true := by
  simp [KwValid]

@[simp] theorem kwv_allOf (ss : List Schema) (j : Json) :
    KwValid defs (.allOf ss) j ↔ ∀ s ∈ ss, Valid defs s j := by
  simp only [KwValid, kw_allOf, Valid]
  constructor
  · rintro ⟨n, h⟩ s hs; exact ⟨n, h s hs⟩
  · intro h; exact common_fuel defs ss id (fun _ => j) h

@[simp] theorem kwv_items (s : Schema) (j : Json) :
    KwValid defs (.items s) j ↔ ∀ xs, j = .arr xs → ∀ x ∈ xs, Valid defs s x := by
  simp only [KwValid, kw_items, Valid]
  constructor
  · rintro ⟨n, h⟩ xs hxs x hx; exact ⟨n, h xs hxs x hx⟩
  · intro h
    cases j with
    | arr xs =>
      obtain ⟨n, hn⟩ := common_fuel defs xs (fun _ => s) id (h xs rfl)
      exact ⟨n, fun ys hys y hy => by cases hys; exact hn y hy⟩
    | _ => exact ⟨0, fun xs hxs => by cases hxs⟩

@[simp] theorem kwv_ref (name : Text) (j : Json) :
    KwValid defs (.ref name) j ↔ ∃ s, lookup name defs = some s ∧ Valid defs s j := by
  simp only [KwValid, kw_ref, Valid]
  constructor
  · rintro ⟨n, s, hl, h⟩; exact ⟨s, hl, n, h⟩
  · rintro ⟨s, hl, n, h⟩; exact ⟨n, s, hl, h⟩

@[simp] theorem kwv_properties (ps : List (Text × Schema)) (j : Json) :
    KwValid defs (.properties ps) j ↔
      ∀ kvs, j = .obj kvs → ∀ p ∈ ps, ∀ v, lookup p.1 kvs = some v → Valid defs p.2 v := by
  simp only [KwValid, kw_properties, Valid]
  constructor
  · rintro ⟨n, h⟩ kvs hk p hp v hv; exact ⟨n, h kvs hk p hp v hv⟩
  · intro h
    cases j with
    | obj kvs =>
      -- one fuel for the properties that are present
      have : ∀ p ∈ ps, ∃ n, ∀ v, lookup p.1 kvs = some v → validates defs n p.2 v = some true := by
        intro p hp
        cases hl : lookup p.1 kvs with
        | none => exact ⟨0, fun v hv => by cases hv⟩
        | some v =>
          obtain ⟨n, hn⟩ := h kvs rfl p hp v hl
          exact ⟨n, fun v' hv' => by cases hv'; exact hn⟩
      have hcf : ∃ n, ∀ p ∈ ps, ∀ v, lookup p.1 kvs = some v → validates defs n p.2 v = some true := by
        clear h
        induction ps with
        | nil => exact ⟨0, fun _ hp => by cases hp⟩
        | cons p r ih =>
          obtain ⟨n1, h1⟩ := this p List.mem_cons_self
          obtain ⟨n2, h2⟩ := ih (fun q hq => this q (List.mem_cons_of_mem _ hq))
          refine ⟨max n1 n2, fun q hq v hv => ?_⟩
          rcases List.mem_cons.mp hq with rfl | hq
          · exact validates_le defs (Nat.le_max_left _ _) _ _ _ (h1 v hv)
          · exact validates_le defs (Nat.le_max_right _ _) _ _ _ (h2 q hq v hv)
      obtain ⟨n, hn⟩ := hcf
      exact ⟨n, fun kvs' hk => by cases hk; exact hn⟩
    | _ => exact ⟨0, fun kvs hk => by cases hk⟩

/-- a reference accepts iff its target exists and accepts -/
theorem valid_ref_iff (name : Text) (j : Json) :
    Valid defs (refTo name) j ↔ ∃ s, lookup name defs = some s ∧ Valid defs s j := by
  simp [refTo, valid_iff_kws]

end kwv

/-! ## The specification side -/

/-- the bound `f m` on a length, for both ends of a `LenConstraint` -/
def LenIn (l : Option LenC) (f : Int → Int) (n : Nat) : Prop :=
  ∀ lc, l = some lc → (∀ m, lc.min = some m → f m ≤ (n : Int)) ∧ (∀ m, lc.max = some m → (n : Int) ≤ f m)

/-- every inferred pattern, rewritten for UTF-16 engines, is found in the UTF-16 units of `s` -/
def PatsOK (pats : Option (List Text)) (s : Text) : Prop :=
  ∀ ps, pats = some ps → ∀ p ∈ ps, ∃ re, fixPattern p = .ok re ∧ searchB re (Fix16.utf16 s) = .yes

/-- the inferred constraints of a primitive value, as they read on its JSON form: a `str` has its
length (code points) in the window and matches every pattern; the base64 TEXT of a `bytearray` has
its length in the window scaled to base64 (`4 * ceil(n / 3)`) -/
def ConsOK (p : Prim) (cs : Option Cons) (j : Json) : Prop :=
  ∀ c, cs = some c → ∀ s, j = .str s →
    (p = .str → LenIn c.len id s.length ∧ PatsOK c.pats s) ∧
    (p = .bytes → LenIn c.len base64Len s.length)

/-- JSON shape of a type annotation with its constraints; references to enumerations and classes
are delegated to their definitions -/
def Sat (defs : Defs) : TA → Json → Prop
  | .prim p cs, j => (∃ jt, primType p = some jt ∧ hasType jt j = true) ∧ ConsOK p cs j
  | .enum mt, j => Valid defs (refTo mt) j
  | .cls mt ch, j => Valid defs (refTo (if ch then sfx mt "_choice" else mt)) j
  | .list items cs, j =>
    ∃ xs, j = .arr xs ∧ (∀ x ∈ xs, Sat defs items x) ∧ LenIn (cs.bind (·.len)) id xs.length

/-! ## Pieces of `_translate_constraints` -/

section pieces
variable (defs : Defs) (r : Schema → Json → Option Bool)

theorem optKw_min_iff (o : Option Int) (j : Json) :
    (∀ k ∈ optKw .minLength o, validKw defs r k j = some true) ↔
      ∀ m, o = some m → ∀ s, j = .str s → m ≤ (s.length : Int) := by
  cases o <;> simp [optKw]

theorem optKw_max_iff (o : Option Int) (j : Json) :
    (∀ k ∈ optKw .maxLength o, validKw defs r k j = some true) ↔
      ∀ m, o = some m → ∀ s, j = .str s → (s.length : Int) ≤ m := by
  cases o <;> simp [optKw]

theorem optKw_minItems_iff (o : Option Int) (j : Json) :
    (∀ k ∈ optKw .minItems o, validKw defs r k j = some true) ↔
      ∀ m, o = some m → ∀ xs, j = .arr xs → m ≤ (xs.length : Int) := by
  cases o <;> simp [optKw]

theorem optKw_maxItems_iff (o : Option Int) (j : Json) :
    (∀ k ∈ optKw .maxItems o, validKw defs r k j = some true) ↔
      ∀ m, o = some m → ∀ xs, j = .arr xs → (xs.length : Int) ≤ m := by
  cases o <;> simp [optKw]

theorem lenKws_iff (p : Prim) (l : LenC) (j : Json) :
    (∀ k ∈ lenKws p l, validKw defs r k j = some true) ↔
      ∀ s, j = .str s → LenIn (some l) (if p = .bytes then base64Len else id) s.length := by
  obtain ⟨mn, mx⟩ := l
  cases mn <;> cases mx <;>
    simp [lenKws, optKw, LenIn, or_imp, forall_and]

/-- `fixPattern` succeeded on every pattern, pairwise -/
inductive AllFixed : List Text → List Regex → Prop where
  | nil : AllFixed [] []
  | cons {p re ps res} : fixPattern p = .ok re → AllFixed ps res → AllFixed (p :: ps) (re :: res)

theorem mapM'_ok {ps : List Text} {res : List Regex} (h : mapM' fixPattern ps = .ok res) :
    AllFixed ps res := by
  induction ps generalizing res with
  | nil => simp [mapM'] at h; subst h; exact .nil
  | cons p ps ih =>
    simp only [mapM'] at h
    cases hp : fixPattern p with
    | error c => simp [hp] at h
    | ok re =>
      rw [hp] at h
      cases hps : mapM' fixPattern ps with
      | error c => simp [hps] at h
      | ok rest =>
        rw [hps] at h
        simp only [Except.ok.injEq] at h
        subst h
        exact .cons hp (ih hps)

/-- the patterns emitted (first one as `pattern`, the others under `allOf`) say `PatsOK` -/
theorem pats_iff {ps : List Text} {res : List Regex}
    (h : AllFixed ps res) (s : Text) :
    (∀ re ∈ res, searchB re (Fix16.utf16 s) = .yes) ↔ PatsOK (some ps) s := by
  simp only [PatsOK, Option.some.injEq, forall_eq']
  induction h with
  | nil => simp
  | cons hp _ ih =>
    simp only [List.mem_cons, forall_eq_or_imp, ih]
    constructor
    · rintro ⟨h1, h2⟩
      exact ⟨⟨_, hp, h1⟩, h2⟩
    · rintro ⟨⟨re, hre, h1⟩, h2⟩
      rw [hp] at hre
      cases hre
      exact ⟨h1, h2⟩

end pieces

/-! ## `_translate_constraints` as a whole -/

/-- what the translated constraints of one node say about a JSON value -/
def TransSpec (sh : Shape) (cs : Cons) (j : Json) : Prop :=
  match sh with
  | .prim .str => ∀ s, j = .str s → LenIn cs.len id s.length ∧ PatsOK cs.pats s
  | .prim .bytes => ∀ s, j = .str s → LenIn cs.len base64Len s.length
  | .list => ∀ xs, j = .arr xs → LenIn cs.len id xs.length
  | _ => True

variable (defs : Defs)

theorem patKws_iff (pats : List Regex) (j : Json) :
    ((∀ k ∈ patPart pats, KwValid defs k j) ∧ ∀ s ∈ additionalOf pats, Valid defs s j) ↔
      ∀ re ∈ pats, ∀ s, j = .str s → searchB re (Fix16.utf16 s) = .yes := by
  cases pats with
  | nil => simp [patPart, additionalOf]
  | cons re rest =>
    simp [patPart, additionalOf, valid_iff_kws]

theorem lenKwsV_iff (p : Prim) (l : LenC) (j : Json) :
    (∀ k ∈ lenKws p l, KwValid defs k j) ↔
      ∀ s, j = .str s → LenIn (some l) (if p = .bytes then base64Len else id) s.length := by
  obtain ⟨mn, mx⟩ := l
  cases mn <;> cases mx <;>
    simp [lenKws, optKw, LenIn, or_imp, forall_and]

theorem lenPart_iff (sh : Shape) (cs : Cons) (j : Json) :
    (∀ k ∈ lenPart sh cs, KwValid defs k j) ↔
      match sh with
      | .prim .str => ∀ s, j = .str s → LenIn cs.len id s.length
      | .prim .bytes => ∀ s, j = .str s → LenIn cs.len base64Len s.length
      | _ => True := by
  obtain ⟨l, ps⟩ := cs
  cases sh with
  | prim p =>
    cases p <;> cases l <;> simp [lenPart, lenKwsV_iff, LenIn]
  | list => cases l <;> simp [lenPart]
  | other => cases l <;> simp [lenPart]

theorem itemsPart_iff (sh : Shape) (cs : Cons) (j : Json) :
    (∀ k ∈ itemsPart sh cs, KwValid defs k j) ↔
      match sh with
      | .list => ∀ xs, j = .arr xs → LenIn cs.len id xs.length
      | _ => True := by
  obtain ⟨l, ps⟩ := cs
  cases sh with
  | prim p => cases l <;> simp [itemsPart]
  | other => cases l <;> simp [itemsPart]
  | list =>
    cases l with
    | none => simp [itemsPart, LenIn]
    | some l =>
      obtain ⟨mn, mx⟩ := l
      cases mn <;> cases mx <;> simp [itemsPart, optKw, LenIn, or_imp, forall_and]

theorem patsOf_iff {sh : Shape} {cs : Cons} {pats : List Regex} (hp : patsOf sh cs = .ok pats) (j : Json) :
    (∀ re ∈ pats, ∀ s, j = .str s → searchB re (Fix16.utf16 s) = .yes) ↔
      match sh with
      | .prim .str => ∀ s, j = .str s → PatsOK cs.pats s
      | _ => True := by
  obtain ⟨l, ps⟩ := cs
  have hnil : ∀ {q : Prop}, patsOf sh ⟨l, ps⟩ = .ok [] → pats = [] := by
    intro _ h; rw [h] at hp; cases hp; rfl
  cases sh with
  | prim p =>
    cases p with
    | str =>
      cases ps with
      | none =>
        have : pats = [] := by simp [patsOf] at hp; exact hp
        subst this
        simp [PatsOK]
      | some ps =>
        have hf := mapM'_ok (by simpa [patsOf] using hp : mapM' fixPattern ps = .ok pats)
        constructor
        · intro h s hs; exact (pats_iff hf s).mp (fun re hre => h re hre s hs)
        · intro h re hre s hs; exact (pats_iff hf s).mpr (h s hs) re hre
    | _ =>
      have : pats = [] := by simp [patsOf] at hp; exact hp
      subst this; simp
  | list =>
    have : pats = [] := by simp [patsOf] at hp; exact hp
    subst this; simp
  | other =>
    have : pats = [] := by simp [patsOf] at hp; exact hp
    subst this; simp

theorem pieces_iff {sh : Shape} {cs : Cons} {pats : List Regex} (hp : patsOf sh cs = .ok pats) (j : Json) :
    ((∀ k ∈ lenPart sh cs ++ patPart pats ++ itemsPart sh cs, KwValid defs k j) ∧
        ∀ s ∈ additionalOf pats, Valid defs s j) ↔ TransSpec sh cs j := by
  have h1 := lenPart_iff defs sh cs j
  have h2 := patKws_iff defs pats j
  have h3 := itemsPart_iff defs sh cs j
  have h4 := patsOf_iff hp j
  simp only [List.mem_append, or_imp, forall_and]
  rw [h4] at h2
  cases sh with
  | prim p =>
    cases p with
    | str =>
      simp only [TransSpec] at *
      constructor
      · rintro ⟨⟨⟨a, b⟩, _⟩, d⟩ s hs
        exact ⟨h1.mp a s hs, (h2.mp ⟨b, d⟩) s hs⟩
      · intro h
        have := h2.mpr (fun s hs => (h s hs).2)
        exact ⟨⟨⟨h1.mpr (fun s hs => (h s hs).1), this.1⟩, h3.mpr trivial⟩, this.2⟩
    | bytes =>
      simp only [TransSpec] at *
      have := h2.mpr trivial
      exact ⟨fun h => h1.mp h.1.1.1, fun h => ⟨⟨⟨h1.mpr h, this.1⟩, h3.mpr trivial⟩, this.2⟩⟩
    | _ =>
      simp only [TransSpec] at *
      have := h2.mpr trivial
      exact ⟨fun _ => trivial, fun _ => ⟨⟨⟨h1.mpr trivial, this.1⟩, h3.mpr trivial⟩, this.2⟩⟩
  | list =>
    simp only [TransSpec] at *
    have := h2.mpr trivial
    exact ⟨fun h => h3.mp h.1.2, fun h => ⟨⟨⟨h1.mpr trivial, this.1⟩, h3.mpr h⟩, this.2⟩⟩
  | other =>
    simp only [TransSpec] at *
    have := h2.mpr trivial
    exact ⟨fun _ => trivial, fun _ => ⟨⟨⟨h1.mpr trivial, this.1⟩, h3.mpr trivial⟩, this.2⟩⟩

theorem translate_some_iff {sh : Shape} {cs : Cons} {base : List Kw} {add : List Schema}
    (h : translate sh cs = .ok (some (base, add))) (j : Json) :
    ((∀ k ∈ base, KwValid defs k j) ∧ ∀ s ∈ add, Valid defs s j) ↔ TransSpec sh cs j := by
  unfold translate at h
  cases hp : patsOf sh cs with
  | error c => simp [hp] at h
  | ok pats =>
    simp only [hp] at h
    split at h
    · cases h
    · split at h
      · cases h
      · simp only [Except.ok.injEq, Option.some.injEq, Prod.mk.injEq] at h
        obtain ⟨rfl, rfl⟩ := h
        exact pieces_iff defs hp j

theorem translate_none_spec {sh : Shape} {cs : Cons} (h : translate sh cs = .ok none) (j : Json) :
    TransSpec sh cs j := by
  unfold translate at h
  cases hp : patsOf sh cs with
  | error c => simp [hp] at h
  | ok pats =>
    simp only [hp] at h
    split at h
    · cases h
    · rename_i hne
      split at h
      · rename_i hb
        have hbase : lenPart sh cs ++ patPart pats ++ itemsPart sh cs = [] := by
          simpa [List.isEmpty_iff] using hb
        have hadd : additionalOf pats = [] := by
          simp only [hb, true_and, Bool.not_eq_true', Bool.not_eq_false] at hne
          simpa [List.isEmpty_iff] using hne
        refine (pieces_iff ([] : Defs) hp j).mp ?_
        rw [hbase, hadd]
        simp
      · cases h

theorem valid_allOfMapping (kws : List Kw) (add : List Schema) (j : Json) :
    Valid defs (allOfMapping kws add) j ↔
      (∀ k ∈ kws, KwValid defs k j) ∧ ∀ s ∈ add, Valid defs s j := by
  unfold allOfMapping
  split
  · rename_i h
    have : add = [] := by simpa [List.isEmpty_iff] using h
    subst this
    simp [valid_iff_kws]
  · simp [valid_iff_kws, or_imp, forall_and]

/-- **The key lemma** (C11b): the schema `_define_type` emits accepts exactly the JSON values of
the annotation's shape that satisfy the inferred constraints attached to its nodes. -/
theorem type_lemma (τ : TA) : ∀ (s : Schema), defineType τ = .ok s → ∀ j : Json,
    (Valid defs s j ↔ Sat defs τ j) := by
  induction τ with
  | enum mt => intro s h j; simp only [defineType, Except.ok.injEq] at h; subst h; rfl
  | cls mt ch => intro s h j; simp only [defineType, Except.ok.injEq] at h; subst h; rfl
  | prim p cs =>
    intro s h j
    simp only [defineType] at h
    cases hjt : primType p with
    | none => simp [hjt] at h
    | some jt =>
      simp only [hjt] at h
      have hdef : ∀ k, k ∈ (Kw.type jt :: (if p = Prim.bytes then [Kw.contentEncoding (ascii "base64")] else [])) →
          (KwValid defs k j ↔ hasType jt j = true) ∨ KwValid defs k j := by
        intro k hk
        rcases List.mem_cons.mp hk with rfl | hk
        · exact Or.inl (kwv_type defs jt j)
        · split at hk
          · simp at hk; subst hk; exact Or.inr (kwv_contentEncoding defs _ j)
          · cases hk
      have hdefs : (∀ k ∈ (Kw.type jt :: (if p = Prim.bytes then [Kw.contentEncoding (ascii "base64")] else [])),
          KwValid defs k j) ↔ hasType jt j = true := by
        constructor
        · intro hh; exact (kwv_type defs jt j).mp (hh _ List.mem_cons_self)
        · intro ht k hk
          rcases hdef k hk with h' | h'
          · exact h'.mpr ht
          · exact h'
      have hsat : Sat defs (.prim p cs) j ↔ hasType jt j = true ∧ ConsOK p cs j := by
        simp [Sat, hjt]
      rw [hsat]
      cases cs with
      | none =>
        simp only [Except.ok.injEq] at h
        subst h
        rw [valid_iff_kws, hdefs]
        simp [ConsOK]
      | some c =>
        simp only at h
        have hcons : hasType jt j = true → (TransSpec (.prim p) c j ↔ ConsOK p (some c) j) := by
          intro _
          cases p <;> simp [TransSpec, ConsOK]
        cases ht : translate (.prim p) c with
        | error e => simp [ht] at h
        | ok o =>
          cases o with
          | none =>
            simp only [ht, Except.ok.injEq] at h
            subst h
            rw [valid_iff_kws, hdefs]
            constructor
            · intro hh; exact ⟨hh, (hcons hh).mp (translate_none_spec ht j)⟩
            · intro hh; exact hh.1
          | some ba =>
            obtain ⟨base, add⟩ := ba
            simp only [ht, Except.ok.injEq] at h
            subst h
            rw [valid_allOfMapping]
            simp only [List.mem_append, or_imp, forall_and]
            rw [hdefs]
            constructor
            · rintro ⟨⟨hty, hb⟩, ha⟩
              exact ⟨hty, (hcons hty).mp ((translate_some_iff defs ht j).mp ⟨hb, ha⟩)⟩
            · rintro ⟨hty, hc⟩
              have := (translate_some_iff defs ht j).mpr ((hcons hty).mpr hc)
              exact ⟨⟨hty, this.1⟩, this.2⟩
  | list items cs ih =>
    intro s h j
    simp only [defineType] at h
    cases hi : defineType items with
    | error e => simp [hi] at h
    | ok itemsDef =>
      simp only [hi] at h
      have hdefs : (∀ k ∈ [Kw.type .array, Kw.items itemsDef], KwValid defs k j) ↔
          ∃ xs, j = .arr xs ∧ ∀ x ∈ xs, Sat defs items x := by
        simp only [List.mem_cons, List.not_mem_nil, or_false, forall_eq_or_imp, forall_eq, kwv_type,
          kwv_items]
        constructor
        · rintro ⟨hty, hit⟩
          cases j <;> simp [hasType] at hty
          rename_i xs
          exact ⟨xs, rfl, fun x hx => (ih itemsDef hi x).mp (hit xs rfl x hx)⟩
        · rintro ⟨xs, rfl, hxs⟩
          exact ⟨rfl, fun ys hys y hy => by cases hys; exact (ih itemsDef hi y).mpr (hxs y hy)⟩
      cases cs with
      | none =>
        simp only [Except.ok.injEq] at h
        subst h
        rw [valid_iff_kws, hdefs]
        simp [Sat, LenIn]
      | some c =>
        simp only at h
        have hcons : ∀ xs, j = .arr xs → (TransSpec .list c j ↔ LenIn c.len id xs.length) := by
          intro xs hxs; subst hxs; simp [TransSpec]
        cases ht : translate .list c with
        | error e => simp [ht] at h
        | ok o =>
          cases o with
          | none =>
            simp only [ht, Except.ok.injEq] at h
            subst h
            rw [valid_iff_kws, hdefs]
            simp only [Sat, Option.bind_some]
            constructor
            · rintro ⟨xs, hxs, hall⟩
              exact ⟨xs, hxs, hall, (hcons xs hxs).mp (translate_none_spec ht j)⟩
            · rintro ⟨xs, hxs, hall, _⟩; exact ⟨xs, hxs, hall⟩
          | some ba =>
            obtain ⟨base, add⟩ := ba
            simp only [ht, Except.ok.injEq] at h
            subst h
            rw [valid_allOfMapping]
            simp only [List.mem_append, or_imp, forall_and]
            rw [hdefs]
            simp only [Sat, Option.bind_some]
            constructor
            · rintro ⟨⟨⟨xs, hxs, hall⟩, hb⟩, ha⟩
              exact ⟨xs, hxs, hall, (hcons xs hxs).mp ((translate_some_iff defs ht j).mp ⟨hb, ha⟩)⟩
            · rintro ⟨xs, hxs, hall, hl⟩
              have := (translate_some_iff defs ht j).mpr ((hcons xs hxs).mpr hl)
              exact ⟨⟨⟨xs, hxs, hall⟩, this.1⟩, this.2⟩

end AasVerif.JsonSchema
