import AasVerif.Lemmas.XsdSem
/-!
Converse of `XsdSem`: for a pattern of the form `^ body $` whose body holds no further anchor,
dropping the anchors and normalising the tree does not enlarge the language either — what an XSD
processor accepts for the written pattern is accepted by the meta-model pattern (C14, pattern facet).
No restriction on the text: the dot of XML Schema excludes `\n` *and* `\r`, the one of Python only `\n`.
-/
namespace AasVerif.XsdPattern
open AasVerif AasVerif.Retree

mutual
  /-- no `^`/`$` anywhere in the tree -/
  def naValue : Value → Bool
    | .group u => naUnion u
    | .sym .start => false
    | .sym .stop => false
    | _ => true
  def naTerms : List Term → Bool
    | [] => true
    | .mk v _ :: ts => naValue v && naTerms ts
  def naConcats : List Concat → Bool
    | [] => true
    | .mk ts :: cs => naTerms ts && naConcats cs
  def naUnion : Union → Bool
    | .mk us => naConcats us
end

theorem naValue_not_anchor {v : Value} (h : naValue v = true) : isAnchor v = false := by
  cases v with
  | sym k => cases k <;> simp [naValue, isAnchor] at h ⊢
  | _ => rfl

theorem rep_transfer' {v w : Value}
    (hv : ∀ pre s post pre' post', MValue v pre s post → MValue w pre' s post')
    {mn : Nat} {mx : Option Nat} {pre s post : Text} (h : MRep v mn mx pre s post) :
    v = v → ∀ pre' post', MRep w mn mx pre' s post' := by
  refine MRep.induct (P := fun v' mn mx _ s _ => v' = v → ∀ pre' post', MRep w mn mx pre' s post') ?_ ?_ h
  · intro v' mx pre post _ pre' post'
    exact .done w mx pre' post'
  · intro v' mn mx pre s₁ s₂ post h0 h1 _ ih hvv pre' post'
    subst hvv
    exact .more w mn mx pre' s₁ s₂ post' h0 (hv _ _ _ _ _ h1) (ih rfl _ _)

mutual
  theorem conv_value : (v : Value) → naValue v = true →
      ∀ (pre s post pre' post' : Text), MValue (normValue (raValue v)) pre s post → MValue v pre' s post'
    | .group u, hna, pre, s, post, pre', post', h => by
      simp only [raValue, normValue] at h
      simp only [naValue] at hna
      exact MValue_group_iff.mpr (conv_union u hna pre s post pre' post' (MValue_group_iff.mp h))
    | .char c, _, pre, s, post, pre', post', h => by
      simp only [raValue, normValue] at h
      rw [MValue_char_iff] at h ⊢
      exact h
    | .set compl rs, _, pre, s, post, pre', post', h => by
      simp only [raValue, normValue] at h
      rw [MValue_set_iff] at h ⊢
      obtain ⟨c, hs, hc⟩ := h
      exact ⟨c, hs, by rw [setAccepts_norm] at hc; exact hc⟩
    | .fv i, _, pre, s, post, pre', post', h => by
      simp only [raValue, normValue] at h
      exact absurd h (by rw [MValue_fv_iff]; exact id)
    | .sym .dot, _, pre, s, post, pre', post', h => by
      simp only [raValue, normValue, XsdRe.dotSet] at h
      rw [MValue_set_iff] at h
      obtain ⟨c, hs, hc⟩ := h
      rw [MValue_dot_iff]
      refine ⟨c, hs, ?_⟩
      intro h10
      subst h10
      simp [setAccepts, Rng.contains] at hc
    | .sym .start, hna, _, _, _, _, _, _ => by simp [naValue] at hna
    | .sym .stop, hna, _, _, _, _, _, _ => by simp [naValue] at hna
  theorem conv_terms : (ts : List Term) → naTerms ts = true →
      ∀ (pre s post pre' post' : Text), MTerms (normTerms (raTerms ts)) pre s post → MTerms ts pre' s post'
    | [], _, pre, s, post, pre', post', h => by
      simp only [raTerms, normTerms] at h
      rw [MTerms_nil_iff] at h ⊢
      exact h
    | .mk v q :: ts, hna, pre, s, post, pre', post', h => by
      simp only [naTerms, Bool.and_eq_true] at hna
      have ha := naValue_not_anchor hna.1
      simp only [raTerms, ha, Bool.false_eq_true, if_false, normTerms] at h
      rw [MTerms_cons_iff] at h ⊢
      obtain ⟨s₁, s₂, hs, h1, h2⟩ := h
      refine ⟨s₁, s₂, hs, ?_, conv_terms ts hna.2 _ s₂ post _ post' h2⟩
      cases q with
      | none =>
        simp only [Option.map_none] at h1
        exact MTerm_plain_iff.mpr (conv_value v hna.1 _ _ _ _ _ (MTerm_plain_iff.mp h1))
      | some q =>
        simp only [Option.map_some] at h1
        rw [MTerm_quant_iff] at h1 ⊢
        exact rep_transfer' (conv_value v hna.1) h1 rfl _ _
  theorem conv_concats : (cs : List Concat) → naConcats cs = true →
      ∀ (ts' : List Term), Concat.mk ts' ∈ normConcats (raConcats cs) →
      ∀ (pre s post pre' post' : Text), MTerms ts' pre s post →
        ∃ ts, Concat.mk ts ∈ cs ∧ MTerms ts pre' s post'
    | [], _, _, h, _, _, _, _, _, _ => by simp [raConcats, normConcats] at h
    | .mk ts0 :: cs, hna, ts', h, pre, s, post, pre', post', ht => by
      simp only [naConcats, Bool.and_eq_true] at hna
      simp only [raConcats, normConcats] at h
      rcases List.mem_cons.mp h with h | h
      · injection h with h
        subst h
        exact ⟨ts0, List.mem_cons_self, conv_terms ts0 hna.1 pre s post pre' post' ht⟩
      · obtain ⟨ts, hm, ht'⟩ := conv_concats cs hna.2 ts' h pre s post pre' post' ht
        exact ⟨ts, List.mem_cons_of_mem _ hm, ht'⟩
  theorem conv_union : (u : Union) → naUnion u = true →
      ∀ (pre s post pre' post' : Text), MUnion (normUnion (raUnion u)) pre s post → MUnion u pre' s post'
    | .mk us, hna, pre, s, post, pre', post', h => by
      simp only [naUnion] at hna
      simp only [raUnion, normUnion] at h
      rw [MUnion_iff] at h ⊢
      obtain ⟨ts', hm, ht⟩ := h
      exact conv_concats us hna ts' hm pre s post pre' post' ht
end

theorem raTerms_append (a b : List Term) : raTerms (a ++ b) = raTerms a ++ raTerms b := by
  induction a with
  | nil => rfl
  | cons t ts ih =>
    obtain ⟨v, q⟩ := t
    simp only [List.cons_append, raTerms]
    split <;> simp [ih]

/-- the pattern is `^ body $` -/
def anchoredAround (body : List Term) : Regex :=
  .mk [.mk (.mk (.sym .start) none :: (body ++ [.mk (.sym .stop) none]))]

theorem ra_anchoredAround (body : List Term) :
    raUnion (anchoredAround body) = .mk [.mk (raTerms body)] := by
  simp [anchoredAround, raUnion, raConcats, raTerms, raTerms_append, isAnchor]

/-- **Converse of the pattern theorem.** What the XSD reading of `^ body $` (anchors dropped, tree
normalised) matches as a whole text, the meta-model pattern matches as a whole text. -/
theorem conv_anchored (body : List Term) (hna : naTerms body = true) (s : Text)
    (h : MUnion (normUnion (raUnion (anchoredAround body))) [] s []) :
    FullMatch (anchoredAround body) s := by
  rw [ra_anchoredAround] at h
  simp only [normUnion, normConcats] at h
  rw [MUnion_iff] at h
  obtain ⟨ts', hm, ht⟩ := h
  simp only [List.mem_singleton] at hm
  injection hm with hm
  subst hm
  have hb : MTerms body [] s [] := conv_terms body hna [] s [] [] [] ht
  unfold FullMatch anchoredAround
  rw [MUnion_iff]
  refine ⟨_, List.mem_singleton.mpr rfl, ?_⟩
  rw [MTerms_cons_iff]
  refine ⟨[], s, rfl, MTerm_plain_iff.mpr (MValue_start_iff.mpr ⟨rfl, rfl⟩), ?_⟩
  rw [MTerms_append_iff]
  refine ⟨s, [], by simp, by simpa using hb, ?_⟩
  rw [MTerms_single_iff]
  exact MTerm_plain_iff.mpr (MValue_stop_iff.mpr ⟨rfl, .inl rfl⟩)

end AasVerif.XsdPattern
