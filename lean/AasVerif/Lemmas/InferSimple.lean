import AasVerif.Lemmas.EvalAgree
import AasVerif.Lemmas.PyParen
/-!
What the type inference accepts is `simple` (the hypothesis of the parenthesis / round-trip
theorems of C08): the instance of a member access has a class or enumeration type and the
collection of an index access a list type, and only names, member accesses, index accesses
and calls can have such a type — comparisons, boolean and arithmetic forms, constants,
f-strings and quantifiers are typed with a primitive.
-/
namespace AasVerif.Expr
open AasVerif AasVerif.PyEmit

variable {κ : Type} [DecidableEq κ] {key : Expr → κ}

theorem arithTy_prim {a b τ : Ty} (h : arithTy a b = .ok τ) : ∃ p, τ = .prim p := by
  unfold arithTy at h
  split at h <;> first | (cases h; exact ⟨_, rfl⟩) | cases h

theorem arithRes_prim {rl rr : Res Ty} {τ : Ty} (h : arithRes rl rr = .ok τ) : ∃ p, τ = .prim p := by
  cases rl with
  | err es => simp [arithRes] at h
  | crash s => simp [arithRes] at h
  | ok lt =>
    cases rr with
    | err es => simp [arithRes] at h
    | crash s => simp [arithRes] at h
    | ok rt =>
      simp only [arithRes] at h
      repeat' split at h
      all_goals first | (simp at h; done) | exact arithTy_prim h

theorem isInCheck_prim {D : Decls} {mt ct τ : Ty} (h : isInCheck D mt ct = .ok τ) : ∃ p, τ = .prim p := by
  unfold isInCheck at h
  repeat' split at h
  all_goals first | (simp at h; done) | (cases h; exact ⟨.bool, rfl⟩)

/-- the forms that are not a name, a member / index access or a call have a primitive type -/
theorem infer_prim_of_nonreceiver {Γ : TEnv} {F : Facts κ} : ∀ (e : Expr) (τ : Ty), e.kind ∉ receivers →
    infer key Γ F e = .ok τ → ∃ p, τ = .prim p
  | .member _ _, _, hk, _ => absurd (by simp [Expr.kind, receivers]) hk
  | .index _ _, _, hk, _ => absurd (by simp [Expr.kind, receivers]) hk
  | .methodCall _ _ _, _, hk, _ => absurd (by simp [Expr.kind, receivers]) hk
  | .name _, _, hk, _ => absurd (by simp [Expr.kind, receivers]) hk
  | .funCall _ _, _, hk, _ => absurd (by simp [Expr.kind, receivers]) hk
  | .const c, τ, _, h => by
    simp only [infer, Res.ok.injEq] at h
    subst h
    cases c <;> exact ⟨_, rfl⟩
  | .cmp l op r, τ, _, h => by
    simp only [infer] at h
    repeat' split at h
    all_goals first | (simp at h; done) | (cases h; exact ⟨.bool, rfl⟩)
  | .isIn m c, τ, _, h => by
    simp only [infer] at h
    repeat' split at h
    all_goals first | (simp at h; done) | (cases h; exact ⟨.bool, rfl⟩) | exact isInCheck_prim h
  | .impl a c, τ, _, h => by
    simp only [infer] at h
    repeat' split at h
    all_goals first | (simp at h; done) | (cases h; exact ⟨.bool, rfl⟩)
  | .isNone e, τ, _, h => by
    simp only [infer] at h
    repeat' split at h
    all_goals first | (simp at h; done) | (cases h; exact ⟨.bool, rfl⟩)
  | .isNotNone e, τ, _, h => by
    simp only [infer] at h
    repeat' split at h
    all_goals first | (simp at h; done) | (cases h; exact ⟨.bool, rfl⟩)
  | .not e, τ, _, h => by
    simp only [infer] at h
    repeat' split at h
    all_goals first | (simp at h; done) | (cases h; exact ⟨.bool, rfl⟩)
  | .and es, τ, _, h => by
    simp only [infer] at h
    repeat' split at h
    all_goals first | (simp at h; done) | (cases h; exact ⟨.bool, rfl⟩)
  | .or es, τ, _, h => by
    simp only [infer] at h
    repeat' split at h
    all_goals first | (simp at h; done) | (cases h; exact ⟨.bool, rfl⟩)
  | .add l r, τ, _, h => by
    simp only [infer] at h
    exact arithRes_prim h
  | .sub l r, τ, _, h => by
    simp only [infer] at h
    exact arithRes_prim h
  | .joinedStr ps, τ, _, h => by
    simp only [infer] at h
    repeat' split at h
    all_goals first | (simp at h; done) | (cases h; exact ⟨.str, rfl⟩)
  | .any g c, τ, _, h => by
    simp only [infer] at h
    split at h
    · exact ⟨.bool, (condRes_ok h).2⟩
    · cases h
    · cases h
  | .all g c, τ, _, h => by
    simp only [infer] at h
    split at h
    · exact ⟨.bool, (condRes_ok h).2⟩
    · cases h
    · cases h

/-- an expression of class, enumeration or list type is a name, a member / index access or a call -/
theorem receiver_of_ty {Γ : TEnv} {F : Facts κ} {e : Expr} {τ : Ty} (h : infer key Γ F e = .ok τ)
    (hτ : ∀ p, τ ≠ .prim p) : e.kind ∈ receivers := by
  by_cases hk : e.kind ∈ receivers
  · exact hk
  · obtain ⟨p, hp⟩ := infer_prim_of_nonreceiver e τ hk h
    exact absurd hp (hτ p)

theorem memberRes_instance_ty {Γ : TEnv} {F : Facts κ} {k : κ} {n : Text} {ti τ : Ty}
    (h : memberRes Γ F k n (.ok ti) = .ok τ) : ∀ p, ti ≠ .prim p := by
  intro p hp
  subst hp
  simp [memberRes] at h

mutual
  /-- **What the type inference accepts is `simple`.** -/
  theorem infer_simple : ∀ (e : Expr) (Γ : TEnv) (F : Facts κ) (τ : Ty), infer key Γ F e = .ok τ → simple e = true
    | .member i n, Γ, F, τ, h => by
      simp only [infer] at h
      obtain ⟨ti, hi⟩ := memberRes_ok h
      rw [hi] at h
      simp only [simple, Bool.and_eq_true, decide_eq_true_eq]
      exact ⟨receiver_of_ty hi (memberRes_instance_ty h), infer_simple i Γ F ti hi⟩
    | .index c i, Γ, F, τ, h => by
      simp only [infer] at h
      cases hc : infer key Γ F c with
      | err es => simp [hc] at h
      | crash s => simp [hc] at h
      | ok tc =>
        cases hi : infer key Γ F i with
        | err es => simp [hc, hi] at h
        | crash s => simp [hc, hi] at h
        | ok ti =>
          simp only [hc, hi] at h
          have hlist : ∀ p, tc ≠ .prim p := by
            intro p hp
            subst hp
            repeat' split at h
            all_goals simp_all
          simp only [simple, Bool.and_eq_true, decide_eq_true_eq]
          exact ⟨⟨(tbl_receivers _ (receiver_of_ty hc hlist)).2, infer_simple c Γ F tc hc⟩, infer_simple i Γ F ti hi⟩
    | .cmp l op r, Γ, F, τ, h => by
      simp only [infer] at h
      cases hc : infer key Γ F l with
      | err es => simp [hc] at h
      | crash s => simp [hc] at h
      | ok tc =>
        cases hi : infer key Γ F r with
        | err es => simp [hc, hi] at h
        | crash s => simp [hc, hi] at h
        | ok ti => simp only [simple, infer_simple l Γ F tc hc, infer_simple r Γ F ti hi, Bool.and_self]
    | .isIn m c, Γ, F, τ, h => by
      simp only [infer] at h
      cases hc : infer key Γ F m with
      | err es => cases hi : infer key Γ F c <;> simp [hc, hi] at h
      | crash s => simp [hc] at h
      | ok tc =>
        cases hi : infer key Γ F c with
        | err es => simp [hc, hi] at h
        | crash s => simp [hc, hi] at h
        | ok ti => simp only [simple, infer_simple m Γ F tc hc, infer_simple c Γ F ti hi, Bool.and_self]
    | .impl a c, Γ, F, τ, h => by
      simp only [infer] at h
      cases hc : infer key Γ F a with
      | err es => simp [hc] at h
      | crash s => simp [hc] at h
      | ok tc =>
        cases hi : infer key Γ (implFacts key F a) c with
        | err es => simp [hc, hi] at h
        | crash s => simp [hc, hi] at h
        | ok ti => simp only [simple, infer_simple a Γ F tc hc, infer_simple c Γ _ ti hi, Bool.and_self]
    | .methodCall i n args, Γ, F, τ, h => by
      simp only [infer] at h
      cases ha : inferArgs key Γ F args with
      | crash s => simp [ha] at h
      | err ea =>
        simp only [ha] at h
        cases hm : memberRes Γ F (key (.member i n)) n (infer key Γ F i) with
        | crash s => simp [hm] at h
        | err es => simp [hm] at h
        | ok mt => cases mt <;> simp [hm] at h
      | ok u =>
        simp only [ha] at h
        cases hm : memberRes Γ F (key (.member i n)) n (infer key Γ F i) with
        | crash s => simp [hm] at h
        | err es => simp [hm] at h
        | ok mt =>
          obtain ⟨ti, hi⟩ := memberRes_ok hm
          simp only [simple, infer_simple i Γ F ti hi, inferArgs_simple args Γ F ha, Bool.and_self]
    | .name x, _, _, _, _ => by simp only [simple]
    | .funCall n args, Γ, F, τ, h => by
      simp only [infer] at h
      cases hn : inferName key Γ F n with
      | crash s => simp [hn] at h
      | err e0 => cases ha : inferArgs key Γ F args <;> simp [hn, ha] at h
      | ok tf =>
        cases ha : inferArgs key Γ F args with
        | crash s => simp [hn, ha] at h
        | err ea => cases tf <;> simp [hn, ha, errsOf] at h
        | ok u => simp only [simple, inferArgs_simple args Γ F ha]
    | .const c, _, _, _, _ => by simp only [simple]
    | .isNone e, Γ, F, τ, h => by
      simp only [infer] at h
      cases hc : infer key Γ F e with
      | err es => simp [hc] at h
      | crash s => simp [hc] at h
      | ok tc => simp only [simple, infer_simple e Γ F tc hc]
    | .isNotNone e, Γ, F, τ, h => by
      simp only [infer] at h
      cases hc : infer key Γ F e with
      | err es => simp [hc] at h
      | crash s => simp [hc] at h
      | ok tc => simp only [simple, infer_simple e Γ F tc hc]
    | .not e, Γ, F, τ, h => by
      simp only [infer] at h
      cases hc : infer key Γ F e with
      | err es => simp [hc] at h
      | crash s => simp [hc] at h
      | ok tc => simp only [simple, infer_simple e Γ F tc hc]
    | .and es, Γ, F, τ, h => by
      simp only [infer] at h
      cases ha : inferAnd key Γ F es with
      | err xs => simp [ha] at h
      | crash s => simp [ha] at h
      | ok u => simp only [simple, inferAnd_simple es Γ F ha]
    | .or es, Γ, F, τ, h => by
      simp only [infer] at h
      cases ha : inferOr key Γ F es with
      | err xs => simp [ha] at h
      | crash s => simp [ha] at h
      | ok u => simp only [simple, inferOr_simple es Γ F ha]
    | .add l r, Γ, F, τ, h => by
      simp only [infer] at h
      obtain ⟨⟨tl, hl⟩, ⟨tr, hr⟩⟩ := arithRes_ok' h
      simp only [simple, infer_simple l Γ F tl hl, infer_simple r Γ F tr hr, Bool.and_self]
    | .sub l r, Γ, F, τ, h => by
      simp only [infer] at h
      obtain ⟨⟨tl, hl⟩, ⟨tr, hr⟩⟩ := arithRes_ok' h
      simp only [simple, infer_simple l Γ F tl hl, infer_simple r Γ F tr hr, Bool.and_self]
    | .joinedStr ps, Γ, F, τ, h => by
      simp only [infer] at h
      cases ha : inferParts key Γ F ps with
      | err xs => simp [ha] at h
      | crash s => simp [ha] at h
      | ok u => simp only [simple, inferParts_simple ps Γ F ha]
    | .any g c, Γ, F, τ, h => by
      simp only [infer] at h
      cases hg : inferGen key Γ F g with
      | err xs => simp [hg] at h
      | crash s => simp [hg] at h
      | ok xτ =>
        obtain ⟨x, τx⟩ := xτ
        simp only [hg] at h
        obtain ⟨hc, _⟩ := condRes_ok h
        simp only [simple, inferGen_simple g Γ F x τx hg, infer_simple c _ F _ hc, Bool.and_self]
    | .all g c, Γ, F, τ, h => by
      simp only [infer] at h
      cases hg : inferGen key Γ F g with
      | err xs => simp [hg] at h
      | crash s => simp [hg] at h
      | ok xτ =>
        obtain ⟨x, τx⟩ := xτ
        simp only [hg] at h
        obtain ⟨hc, _⟩ := condRes_ok h
        simp only [simple, inferGen_simple g Γ F x τx hg, infer_simple c _ F _ hc, Bool.and_self]
  theorem inferGen_simple : ∀ (g : Gen) (Γ : TEnv) (F : Facts κ) (x : Text) (τx : Ty),
      inferGen key Γ F g = .ok (x, τx) → simpleGen g = true
    | .forEach y it, Γ, F, x, τx, h => by
      simp only [inferGen] at h
      split at h
      · simp at h
      · cases hi : infer key Γ F it with
        | err es => simp [hi] at h
        | crash s => simp [hi] at h
        | ok ti => simp only [simpleGen, infer_simple it Γ F ti hi]
    | .forRange y a b, Γ, F, x, τx, h => by
      simp only [inferGen] at h
      split at h
      · simp at h
      · cases ha : infer key Γ F a with
        | err es => simp [ha] at h
        | crash s => simp [ha] at h
        | ok ta =>
          cases hb : infer key Γ F b with
          | err es => simp [ha, hb] at h
          | crash s => simp [ha, hb] at h
          | ok tb => simp only [simpleGen, infer_simple a Γ F ta ha, infer_simple b Γ F tb hb, Bool.and_self]
  theorem inferAnd_simple : ∀ (es : List Expr) (Γ : TEnv) (F : Facts κ) {u : Unit},
      inferAnd key Γ F es = .ok u → simpleList es = true
    | [], _, _, _, _ => by simp only [simpleList]
    | e :: es, Γ, F, u, h => by
      simp only [inferAnd] at h
      cases he : infer key Γ F e with
      | err xs => simp [he] at h
      | crash s => simp [he] at h
      | ok te =>
        simp only [he] at h
        cases hes : inferAnd key Γ (andFact key F e) es with
        | err xs => simp [hes] at h
        | crash s => simp [hes] at h
        | ok u' => simp only [simpleList, infer_simple e Γ F te he, inferAnd_simple es Γ _ hes, Bool.and_self]
  theorem inferOr_simple : ∀ (es : List Expr) (Γ : TEnv) (F : Facts κ) {u : Unit},
      inferOr key Γ F es = .ok u → simpleList es = true
    | [], _, _, _, _ => by simp only [simpleList]
    | e :: es, Γ, F, u, h => by
      simp only [inferOr] at h
      cases he : infer key Γ F e with
      | err xs => simp [he] at h
      | crash s => simp [he] at h
      | ok te =>
        simp only [he] at h
        cases hes : inferOr key Γ (orFact key F e) es with
        | err xs => simp [hes] at h
        | crash s => simp [hes] at h
        | ok u' => simp only [simpleList, infer_simple e Γ F te he, inferOr_simple es Γ _ hes, Bool.and_self]
  theorem inferArgs_simple : ∀ (es : List Expr) (Γ : TEnv) (F : Facts κ) {ts : List Ty},
      inferArgs key Γ F es = .ok ts → simpleList es = true
    | [], _, _, _, _ => by simp only [simpleList]
    | e :: es, Γ, F, ts, h => by
      simp only [inferArgs] at h
      cases he : infer key Γ F e with
      | err xs =>
        simp only [he] at h
        cases hes : inferArgs key Γ F es <;> simp [hes] at h
      | crash s => simp [he] at h
      | ok te =>
        simp only [he] at h
        cases hes : inferArgs key Γ F es with
        | err xs => simp [hes] at h
        | crash s => simp [hes] at h
        | ok ts' => simp only [simpleList, infer_simple e Γ F te he, inferArgs_simple es Γ F hes, Bool.and_self]
  theorem inferParts_simple : ∀ (ps : List JPart) (Γ : TEnv) (F : Facts κ) {u : Unit},
      inferParts key Γ F ps = .ok u → simpleParts ps = true
    | [], _, _, _, _ => by simp only [simpleParts]
    | .lit s :: ps, Γ, F, u, h => by
      simp only [inferParts] at h
      simp only [simpleParts, inferParts_simple ps Γ F h]
    | .fv e :: ps, Γ, F, u, h => by
      simp only [inferParts] at h
      cases he : infer key Γ F e with
      | err xs =>
        simp only [he] at h
        cases hes : inferParts key Γ F ps <;> simp [hes] at h
      | crash s => simp [he] at h
      | ok te =>
        simp only [he] at h
        have hps : ∃ u', inferParts key Γ F ps = .ok u' := by
          split at h
          · cases hes : inferParts key Γ F ps <;> simp [hes] at h
          · exact ⟨_, h⟩
        obtain ⟨u', hps⟩ := hps
        simp only [simpleParts, infer_simple e Γ F te he, inferParts_simple ps Γ F hps, Bool.and_self]
end

end AasVerif.Expr
