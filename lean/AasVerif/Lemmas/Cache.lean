import AasVerif.Model.Cache
/-!
Invariants of the cache protocol, for EVERY op skeleton accepted by the static checker `Safe`.
-/
namespace AasVerif.Cache

def tmpOf (cfg : Cfg) (i t : Nat) : Path := .tmp (cfg.hash t) i
def finalOf (cfg : Cfg) (t : Nat) : Path := .final (cfg.hash t)

theorem pathOf_tmp (cfg : Cfg) (i : Nat) (p : Proc) : pathOf cfg i p .tmp = tmpOf cfg i p.text := rfl
theorem pathOf_final (cfg : Cfg) (i : Nat) (p : Proc) : pathOf cfg i p .final = finalOf cfg p.text := rfl

/-- the static checker holds of the run's current control/handle state and remaining ops -/
def SafeP (p : Proc) : Prop :=
  Safe p.mode p.hit (wkOf p.w) p.tc p.computed p.rh.isSome p.loaded.isSome p.todo = true

def Settled (p : Proc) : Prop :=
  (∀ g rest, p.todo = g :: rest → skip p.mode p.hit g = false) ∧ (∀ o, p.mode = .finished o → p.todo = [])

/-- the part of a run's invariant that does not mention the file system, before `settle` -/
structure PrePure (cfg : Cfg) (i : Nat) (p : Proc) : Prop where
  safe : (∀ o, p.mode ≠ .finished o) → SafeP p
  handle : ∀ q d, p.w = some (q, d) → q = tmpOf cfg i p.text
  dumped : ∀ q, p.w = some (q, true) → p.computed = true
  comp : p.computed = true → cfg.valid p.text = true
  rh : ∀ c, p.rh = some c → c.complete = true ∧ c.src = p.text ∧ cfg.valid p.text = true
  loaded : ∀ s, p.loaded = some s → s = p.text ∧ cfg.valid p.text = true
  outcome : ∀ o, p.mode = .finished o → o = uncached cfg p.text ∨ o = .crashed ∨ o = .killed

/-- the part of a run's invariant that does not mention the file system -/
structure Pure (cfg : Cfg) (i : Nat) (p : Proc) : Prop extends PrePure cfg i p where
  settled : Settled p

/-- what the file system holds at the run's own temporary path -/
def OwnTmp (cfg : Cfg) (fs : FS) (i : Nat) (p : Proc) : Prop :=
  ∀ c, fs (tmpOf cfg i p.text) = some c →
    c.src = p.text ∧ (c.complete = true → cfg.valid p.text = true) ∧ (p.tc = true → c.complete = true)

theorem Safe_dropSkipped (m : Mode) (hit : Option Bool) (w : WK) (tc c rd ld : Bool) (l : List GOp)
    (h : Safe m hit w tc c rd ld l = true) : Safe m hit w tc c rd ld (dropSkipped m hit l) = true := by
  induction l with
  | nil => simp [dropSkipped, Safe]
  | cons g rest ih =>
    unfold dropSkipped
    by_cases hs : skip m hit g = true
    · simp only [hs, if_true]
      apply ih
      unfold Safe at h
      simpa [hs] using h
    · simp only [hs]
      exact h

theorem dropSkipped_head (m : Mode) (hit : Option Bool) (l : List GOp) (g : GOp) (rest : List GOp)
    (h : dropSkipped m hit l = g :: rest) : skip m hit g = false := by
  induction l with
  | nil => simp [dropSkipped] at h
  | cons x xs ih =>
    unfold dropSkipped at h
    by_cases hs : skip m hit x = true
    · simp only [hs, if_true] at h
      exact ih h
    · simp only [hs] at h
      injection h with h1 h2
      subst h1
      simpa using hs

theorem settle_text (p : Proc) : (settle p).text = p.text := by
  unfold settle; split <;> (try split) <;> rfl
theorem settle_w (p : Proc) : (settle p).w = p.w := by
  unfold settle; split <;> (try split) <;> rfl
theorem settle_tc (p : Proc) : (settle p).tc = p.tc := by
  unfold settle; split <;> (try split) <;> rfl
theorem settle_computed (p : Proc) : (settle p).computed = p.computed := by
  unfold settle; split <;> (try split) <;> rfl
theorem settle_rh (p : Proc) : (settle p).rh = p.rh := by
  unfold settle; split <;> (try split) <;> rfl
theorem settle_loaded (p : Proc) : (settle p).loaded = p.loaded := by
  unfold settle; split <;> (try split) <;> rfl
theorem settle_hit (p : Proc) : (settle p).hit = p.hit := by
  unfold settle; split <;> (try split) <;> rfl
theorem settle_flag (p : Proc) : (settle p).flag = p.flag := by
  unfold settle; split <;> (try split) <;> rfl

theorem settle_mode (p : Proc) :
    (settle p).mode = p.mode ∨ ((settle p).mode = .finished .crashed ∧ (settle p).todo = []) := by
  unfold settle
  split
  · left; simp_all
  · split
    · right; simp
    · left; rfl

theorem Pure_settle (cfg : Cfg) (i : Nat) (p : Proc) (h : PrePure cfg i p) : Pure cfg i (settle p) := by
  have hm := settle_mode p
  refine ⟨⟨?_, ?_, ?_, ?_, ?_, ?_, ?_⟩, ?_⟩
  · intro hnf
    unfold SafeP
    rw [settle_hit, settle_w, settle_tc, settle_computed, settle_rh, settle_loaded]
    rcases hm with hm | ⟨hm, _⟩
    · rw [hm]
      have hs := h.safe (by intro o ho; exact hnf o (hm ▸ ho))
      unfold SafeP at hs
      unfold settle
      split
      · next o ho => exact absurd ho (by intro hh; exact hnf o (by rw [hm]; exact hh))
      · next m hmm =>
        split
        · simp [Safe]
        · exact Safe_dropSkipped _ _ _ _ _ _ _ _ hs
    · exact absurd hm (hnf _)
  · intro q d hw; rw [settle_w] at hw; rw [settle_text]; exact h.handle q d hw
  · intro q hw; rw [settle_w] at hw; rw [settle_computed]; exact h.dumped q hw
  · intro hc; rw [settle_computed] at hc; rw [settle_text]; exact h.comp hc
  · intro c hc; rw [settle_rh] at hc; rw [settle_text]; exact h.rh c hc
  · intro s hs; rw [settle_loaded] at hs; rw [settle_text]; exact h.loaded s hs
  · intro o ho
    rw [settle_text]
    rcases hm with hm | ⟨hm, _⟩
    · exact h.outcome o (hm ▸ ho)
    · rw [hm] at ho; injection ho with ho; right; left; exact ho.symm
  · constructor
    · intro g rest hg
      unfold settle at hg ⊢
      split at hg
      · simp at hg
      · next m hmm =>
        split at hg
        · simp at hg
        · simp only at hg
          have := dropSkipped_head _ _ _ _ _ hg
          first | exact this | simp_all
    · intro o ho
      unfold settle at ho ⊢
      split
      · rfl
      · next m hmm =>
        split
        · rfl
        · exfalso
          split at ho
          · next o' ho' => exact hmm o' ho'
          · split at ho
            · next hx => simp_all
            · simp only at ho; exact hmm o ho

/-- C24 invariant: every entry at a *final* path is complete, keyed by the hash of the text it was
computed from, and that text is a valid model -/
def Inv (cfg : Cfg) (fs : FS) : Prop :=
  ∀ h c, fs (.final h) = some c → c.complete = true ∧ cfg.hash c.src = h ∧ cfg.valid c.src = true

/-- what one op of run `i` (on text `t`) may change: its own tmp path, or its own final path — the
latter only to a complete entry computed from `t` -/
def Frame (cfg : Cfg) (i t : Nat) (fs fs' : FS) : Prop :=
  ∀ q, fs' q = fs q ∨ q = tmpOf cfg i t ∨
    (q = finalOf cfg t ∧ ∃ c, fs' q = some c ∧ c.complete = true ∧ c.src = t ∧ cfg.valid t = true)

theorem Frame_refl (cfg : Cfg) (i t : Nat) (fs : FS) : Frame cfg i t fs fs := fun _ => Or.inl rfl

theorem Safe_cons (m : Mode) (hit : Option Bool) (w : WK) (tc c rd ld : Bool) (g : GOp) (rest : List GOp)
    (hsk : skip m hit g = false) (h : Safe m hit w tc c rd ld (g :: rest) = true) :
    (g.onHit = true → hit = some true) ∧
    (m = .running → g.inTry = true → Safe .unwinding hit .none (tc || w == .dumped) c rd ld rest = true) ∧
    safeOp g.op w tc c ld = true ∧
    (match g.op with
       | .exists _ =>
         Safe m (some true) w tc c rd ld rest = true ∧ Safe m (some false) w tc c rd ld rest = true
       | .retCached => True
       | .ret => True
       | o => Safe m hit (absNext o w tc c rd ld).1 (absNext o w tc c rd ld).2.1 (absNext o w tc c rd ld).2.2.1
                (absNext o w tc c rd ld).2.2.2.1 (absNext o w tc c rd ld).2.2.2.2 rest = true) := by
  unfold Safe at h
  simp only [hsk, Bool.false_eq_true, if_false, Bool.and_eq_true] at h
  obtain ⟨⟨⟨h1, h2⟩, h3⟩, h4⟩ := h
  refine ⟨?_, ?_, h3, ?_⟩
  · intro ho; simpa [ho] using h1
  · intro hm ht; simpa [hm, ht] using h2
  · cases hop : g.op <;> simp_all

end AasVerif.Cache
