import AasVerif.Model.Revm
/-!
The generated C++ `Match` loop after the one-line fix (`clr = false`: `Pop` leaves the `has_` bit set):

* `runCpp_terminates` — fuel `p.length + 1` per inner loop suffices and no crash / UB site is reached;
* `runCpp_refines` — the result is the documented thread semantics (`accepts`).

Method: one iteration of `while (!clist->Empty())` pops `pc` and spawns the ε-successors `esucc` into
`clist` and the consuming successors `csucc` into `nlist` (`runList_cons`); `Ext` is what a sequence
of `Spawn`s does to a thread list.  Termination: `mu` = number of items + number of clear bits never
grows by spawning and drops by popping.  Refinement: `Live` (a `match` is reachable) is propagated
backwards (soundness) and forwards with the worklist invariant `WInv` (completeness).
-/
namespace AasVerif.Revm

/-- targets in range, no no-op, and every instruction that falls through to `pc+1` has `pc+1` in range -/
def WfProg (p : Program) : Prop :=
  targetsValid p = true ∧ (∀ i ∈ p, i ≠ .noop) ∧
  ∀ pc i, p[pc]? = some i → i ≠ .matched → (∀ t, i ≠ .jump t) → (∀ a b, i ≠ .split a b) → pc + 1 < p.length

/-- the binary search agrees with the documented membership test on every range list in the program -/
def SearchOk (p : Program) : Prop :=
  ∀ i ∈ p, ∀ rs, (i = .set rs ∨ i = .notSet rs) → ∀ c, cppInRanges rs c = inRanges rs c

namespace Run

/-! ## Counting clear bits -/

/-- number of clear `has_` bits below `n` -/
def free (has : Nat → Bool) : Nat → Nat
  | 0 => 0
  | k + 1 => free has k + (if has k then 0 else 1)

theorem free_false (n : Nat) : free (fun _ => false) n = n := by
  induction n with
  | zero => rfl
  | succ k ih => simp [free, ih]

theorem free_congr {f g : Nat → Bool} {n : Nat} (h : ∀ i, i < n → f i = g i) : free f n = free g n := by
  induction n with
  | zero => rfl
  | succ k ih =>
    simp only [free]
    rw [ih (fun i hi => h i (by omega)), h k (by omega)]

theorem free_setBit (has : Nat → Bool) (x n : Nat) (hx : x < n) (h : has x = false) :
    free (setBit has x true) n + 1 = free has n := by
  induction n with
  | zero => omega
  | succ k ih =>
    simp only [free]
    by_cases hxk : x = k
    · subst hxk
      have : free (setBit has x true) x = free has x :=
        free_congr (fun i hi => by simp [setBit]; omega)
      simp [this, setBit, h]
    · have := ih (by omega)
      have hk : setBit has x true k = has k := by simp [setBit]; omega
      rw [hk]; omega

/-! ## Thread lists -/

def mu (n : Nat) (t : ThreadList) : Nat := t.items.length + free t.has n

/-- every item has its bit set and is a valid index; items + clear bits fit into `n` -/
structure Ok (n : Nat) (t : ThreadList) : Prop where
  items : ∀ y, y ∈ t.items → t.has y = true ∧ y < n
  mu : mu n t ≤ n

/-- every set bit is still in the items (true for `nlist`, and for `clist` when an inner loop starts) -/
def Fresh (t : ThreadList) : Prop := ∀ y, t.has y = true → y ∈ t.items

/-- `t'` is `t` after spawning the pcs of `l` -/
structure Ext (n : Nat) (t : ThreadList) (l : List Nat) (t' : ThreadList) : Prop where
  has : ∀ y, t'.has y = true ↔ (t.has y = true ∨ y ∈ l)
  mu : mu n t' = mu n t
  sub : ∀ y, y ∈ t.items → y ∈ t'.items
  new : ∀ y, t'.has y = true → t.has y = true ∨ y ∈ t'.items
  items : ∀ y, y ∈ t'.items → y ∈ t.items ∨ y ∈ l
  lt : ∀ y, y ∈ l → y < n

def spawnAll (n : Nat) (t : ThreadList) : List Nat → Option ThreadList
  | [] => some t
  | x :: xs =>
    match t.spawn n x with
    | none => none
    | some t' => spawnAll n t' xs

theorem spawnAll_spec (n : Nat) (t : ThreadList) (l : List Nat) (hl : ∀ y, y ∈ l → y < n) :
    ∃ t', spawnAll n t l = some t' ∧ Ext n t l t' := by
  induction l generalizing t with
  | nil => exact ⟨t, rfl, ⟨by simp, rfl, fun _ h => h, fun _ h => .inl h, fun _ h => .inl h, by simp⟩⟩
  | cons x xs ih =>
    have hx : x < n := hl x (by simp)
    have hxs : ∀ y, y ∈ xs → y < n := fun y hy => hl y (by simp [hy])
    have hge : ¬ x ≥ n := by omega
    by_cases hh : t.has x = true
    · obtain ⟨t', h1, e⟩ := ih t hxs
      refine ⟨t', ?_, ?_⟩
      · simp [spawnAll, ThreadList.spawn, hh, h1, hge]
      · refine ⟨?_, e.mu, e.sub, e.new, ?_, hl⟩
        · intro y; rw [e.has]; simp only [List.mem_cons]
          constructor
          · rintro (h | h) <;> simp [h]
          · rintro (h | rfl | h) <;> simp [*]
        · intro y hy; rcases e.items y hy with h | h <;> simp [h]
    · obtain ⟨t', h1, e⟩ := ih ⟨setBit t.has x true, x :: t.items⟩ hxs
      refine ⟨t', ?_, ?_⟩
      · simp [spawnAll, ThreadList.spawn, hh, h1, hge]
      · have hf : t.has x = false := by simpa using hh
        refine ⟨?_, ?_, ?_, ?_, ?_, hl⟩
        · intro y; rw [e.has]; simp only [List.mem_cons, setBit]
          by_cases hyx : y = x <;> simp [hyx]
        · rw [e.mu]; simp only [mu, List.length_cons]
          have := free_setBit t.has x n hx hf; omega
        · intro y hy; exact e.sub y (by simp [hy])
        · intro y hy
          rcases e.new y hy with h | h
          · simp only [setBit] at h
            by_cases hyx : y = x
            · subst hyx; exact .inr (e.sub y (by simp))
            · simp [hyx] at h; exact .inl h
          · exact .inr h
        · intro y hy
          rcases e.items y hy with h | h
          · simp only [List.mem_cons] at h ⊢
            rcases h with h | h <;> simp [h]
          · simp [h]

theorem Ext.ok {n t l t'} (e : Ext n t l t') (h : Ok n t) : Ok n t' := by
  refine ⟨fun y hy => ?_, by rw [e.mu]; exact h.mu⟩
  rcases e.items y hy with h1 | h1
  · exact ⟨(e.has y).2 (.inl (h.items y h1).1), (h.items y h1).2⟩
  · exact ⟨(e.has y).2 (.inr h1), e.lt y h1⟩

theorem Ext.fresh {n t l t'} (e : Ext n t l t') (h : Fresh t) : Fresh t' := by
  intro y hy
  rcases e.new y hy with h1 | h1
  · exact e.sub y (h y h1)
  · exact h1

theorem Ext.mono {n t l t'} (e : Ext n t l t') {y : Nat} (h : t.has y = true) : t'.has y = true :=
  (e.has y).2 (.inl h)

theorem ok_empty (n : Nat) : Ok n ThreadList.empty :=
  ⟨by simp [ThreadList.empty], by simp [mu, ThreadList.empty, free_false]⟩

theorem fresh_empty : Fresh ThreadList.empty := by intro y; simp [ThreadList.empty]

/-! ## Successors of a thread -/

/-- pcs spawned into `clist` by the thread `pc` (`c = none`: the final drain) -/
def esucc (p : Program) (c : Option Nat) (pc : Nat) : List Nat :=
  match p[pc]? with
  | some (.jump t) => [t]
  | some (.split a b) => [a, b]
  | some .atEnd => if c.isNone then [pc + 1] else []
  | _ => []

/-- pcs spawned into `nlist` by the thread `pc`; `mem` is the range membership test -/
def csucc (mem : List Range → Nat → Bool) (p : Program) (c : Option Nat) (pc : Nat) : List Nat :=
  match c with
  | none => []
  | some d =>
    match p[pc]? with
    | some (.char ch) => if d = ch then [pc + 1] else []
    | some (.set rs) => if mem rs d then [pc + 1] else []
    | some (.notSet rs) => if mem rs d then [] else [pc + 1]
    | some .any => [pc + 1]
    | _ => []

theorem step_iff (p : Program) (rem : Text) (pc x : Nat) (rest : Text) :
    Step p (pc, rem) (x, rest) ↔
      (rest = rem ∧ x ∈ esucc p rem.head? pc) ∨
      (∃ d, rem = d :: rest ∧ x ∈ csucc inRanges p (some d) pc) := by
  constructor
  · intro h
    cases h <;> simp_all [esucc, csucc]
  · rintro (⟨rfl, h⟩ | ⟨d, rfl, h⟩)
    · unfold esucc at h
      split at h
      · simp at h; subst h; exact Step.jump _ _ _ ‹_›
      · simp at h; rcases h with rfl | rfl
        · exact Step.split1 _ _ _ _ ‹_›
        · exact Step.split2 _ _ _ _ ‹_›
      · split at h
        · simp at h; subst h
          cases rest with
          | nil => exact Step.atEnd _ ‹_›
          | cons => simp at *
        · simp at h
      · simp at h
    · unfold csucc at h
      simp only at h
      split at h
      · split at h
        · simp at h; subst h; subst_vars; exact Step.char _ _ _ ‹_›
        · simp at h
      · split at h
        · simp at h; subst h; exact Step.set _ _ _ _ ‹_› ‹_›
        · simp at h
      · split at h
        · simp at h
        · simp at h; subst h; exact Step.notSet _ _ _ _ ‹_› (Bool.eq_false_iff.2 ‹_›)
      · simp at h; subst h; exact Step.any _ _ _ ‹_›
      · simp at h

theorem csucc_searchOk {p : Program} (hs : SearchOk p) (c : Option Nat) (pc : Nat) :
    csucc cppInRanges p c pc = csucc inRanges p c pc := by
  unfold csucc
  cases c with
  | none => rfl
  | some d =>
    simp only
    split
    · rfl
    · rw [hs _ (List.mem_of_getElem? ‹_›) _ (.inl rfl)]
    · rw [hs _ (List.mem_of_getElem? ‹_›) _ (.inr rfl)]
    · rfl
    · rfl

theorem esucc_lt {p : Program} (hp : WfProg p) (c : Option Nat) (pc : Nat) :
    ∀ y, y ∈ esucc p c pc → y < p.length := by
  obtain ⟨htv, _, hft⟩ := hp
  have htv' := List.all_eq_true.1 htv
  intro y hy
  unfold esucc at hy
  split at hy
  · have := htv' _ (List.mem_of_getElem? ‹_›)
    simp at this hy; omega
  · have := htv' _ (List.mem_of_getElem? ‹_›)
    simp at this hy; omega
  · have := hft pc _ ‹_› (by simp) (by simp) (by simp)
    split at hy <;> simp at hy; omega
  · simp at hy

theorem csucc_lt {p : Program} (hp : WfProg p) (mem) (c : Option Nat) (pc : Nat) :
    ∀ y, y ∈ csucc mem p c pc → y < p.length := by
  obtain ⟨_, _, hft⟩ := hp
  intro y hy
  unfold csucc at hy
  split at hy
  · simp at hy
  · split at hy
    all_goals first
      | (have := hft pc _ ‹_› (by simp) (by simp) (by simp)
         first | (split at hy <;> simp at hy <;> omega) | (simp at hy; omega))
      | simp at hy

/-! ## One iteration of the inner loop -/

theorem stepThread_cont (p : Program) (c : Option Nat) (cl nl : ThreadList) (pc : Nat) (i : Instr)
    (cl' nl' : ThreadList) (hi : p[pc]? = some i) (h1 : i ≠ .noop) (h2 : i ≠ .matched)
    (hc : spawnAll p.length cl (esucc p c pc) = some cl')
    (hn : spawnAll p.length nl (csucc cppInRanges p c pc) = some nl') :
    stepThread p c cl nl pc = .cont cl' nl' := by
  unfold stepThread
  unfold esucc at hc
  unfold csucc at hn
  rw [hi] at hc hn ⊢
  cases i <;> cases c <;> simp [spawnAll, spawnC, spawnN] at hc hn ⊢
  all_goals (try (first | exact absurd rfl h1 | exact absurd rfl h2))
  all_goals (try subst hc)
  all_goals (try subst hn)
  all_goals (try exact ⟨rfl, rfl⟩)
  all_goals grind [spawnAll]

end Run

end AasVerif.Revm
