import AasVerif.Lemmas.JsonSchemaLeaf
/-!
`oneOf` dispatch: a concrete definition with `modelType` DEFINITELY rejects (verdict `some false`,
for every sufficient fuel) an object that carries another `modelType`; hence a `_choice` over such
definitions accepts an object exactly when the alternative named by its `modelType` accepts it.
-/
namespace AasVerif.JsonSchema
open AasVerif AasVerif.Retree

variable (defs : Defs)

/-- definite rejection of every object whose `modelType` member is not the string `Y` -/
def RejectsOthers (Y : Text) (s : Schema) : Prop :=
  ∀ kvs v, lookup modelTypeKey kvs = some v → v ≠ .str Y →
    ∀ m, 3 ≤ m → validates defs m s (.obj kvs) = some false

theorem const_rejects (Y : Text) (v : Json) (hv : v ≠ .str Y) (m : Nat) (hm : 1 ≤ m) :
    validates defs m (modelTypeConst Y) v = some false := by
  obtain ⟨n, rfl⟩ : ∃ n, m = n + 1 := ⟨m - 1, by omega⟩
  rw [modelTypeConst, validates_false_iff]
  refine ⟨.const Y, List.mem_singleton.mpr rfl, ?_⟩
  cases v <;> simp [validKw] at hv ⊢
  exact hv

/-- a `properties` keyword holding `modelType: const Y` definitely rejects -/
theorem properties_rejects {P : List (Text × Schema)} {Y : Text} (hmem : (modelTypeKey, modelTypeConst Y) ∈ P)
    {kvs : List (Text × Json)} {v : Json} (hl : lookup modelTypeKey kvs = some v) (hv : v ≠ .str Y)
    (m : Nat) (hm : 1 ≤ m) :
    validKw defs (validates defs m) (.properties P) (.obj kvs) = some false := by
  simp only [validKw]
  rw [allO_false_iff]
  refine List.mem_map.mpr ⟨(modelTypeKey, modelTypeConst Y), hmem, ?_⟩
  simp only [hl]
  exact const_rejects defs Y v hv m hm

theorem body_rejects {c : Cls} {P : List (Text × Schema)} {R : List Text} {Y : Text}
    (hmem : (modelTypeKey, modelTypeConst Y) ∈ P)
    {kvs : List (Text × Json)} {v : Json} (hl : lookup modelTypeKey kvs = some v) (hv : v ≠ .str Y)
    (m : Nat) (hm : 2 ≤ m) :
    validates defs m (.mk (bodyKws c P R)) (.obj kvs) = some false := by
  obtain ⟨n, rfl⟩ : ∃ n, m = n + 1 := ⟨m - 1, by omega⟩
  rw [validates_false_iff]
  refine ⟨.properties P, ?_, properties_rejects defs hmem hl hv n (by omega)⟩
  have hne : P.isEmpty = false := by
    cases P with
    | nil => cases hmem
    | cons a as => rfl
  simp [bodyKws, hne]

theorem wrapAllOf_rejects {ss : List Schema} {s : Schema} (hs : s ∈ ss) {j : Json} (m : Nat)
    (hrej : validates defs m s j = some false) :
    validates defs (m + 1) (wrapAllOf ss) j = some false := by
  unfold wrapAllOf
  split
  · cases hs
  · simp only [List.mem_singleton] at hs
    subst hs
    exact validates_mono defs m _ _ _ hrej
  · rw [validates_false_iff]
    refine ⟨.allOf ss, List.mem_singleton.mpr rfl, ?_⟩
    simp only [validKw]
    rw [allO_false_iff]
    exact List.mem_map.mpr ⟨s, hs, hrej⟩

/-- every concrete definition with `modelType` rejects objects carrying another `modelType` -/
theorem concrete_rejects_others {c : Cls} {k : Text} {s : Schema} (h : concreteDefinition c = .ok (k, s))
    (hw : c.withModelType = true) : RejectsOthers defs c.mt s := by
  intro kvs v hl hv m hm
  obtain ⟨n, rfl⟩ : ∃ n, m = n + 1 := ⟨m - 1, by omega⟩
  unfold concreteDefinition at h
  by_cases hcd : (!c.cdesc.isEmpty) = true
  · rw [if_pos hcd] at h
    by_cases hnw : (!c.withModelType) = true
    · simp [hw] at hnw
    · rw [if_neg hnw] at h
      simp only [Except.ok.injEq, Prod.mk.injEq] at h
      rw [← h.2, validates_false_iff]
      refine ⟨_, List.mem_singleton.mpr rfl, ?_⟩
      simp only [validKw]
      rw [allO_false_iff]
      refine List.mem_map.mpr ⟨.mk [.properties [(modelTypeKey, modelTypeConst c.mt)]],
        by simp, ?_⟩
      obtain ⟨n', rfl⟩ : ∃ n', n = n' + 1 := ⟨n - 1, by omega⟩
      rw [validates_false_iff]
      exact ⟨_, List.mem_singleton.mpr rfl,
        properties_rejects defs (List.mem_singleton.mpr rfl) hl hv n' (by omega)⟩
  · rw [if_neg hcd] at h
    cases hp : defineProperties c with
    | error e => simp [hp] at h
    | ok props =>
      simp only [hp, Except.ok.injEq, Prod.mk.injEq] at h
      rw [← h.2]
      refine wrapAllOf_rejects defs (List.mem_append_right _ (List.mem_singleton.mpr rfl)) n ?_
      refine body_rejects defs ?_ hl hv n (by omega)
      rw [if_pos hw]
      exact mem_setKey_self _ _ _

theorem ref_rejects {name : Text} {s : Schema} (hl : lookup name defs = some s) {j : Json} (m : Nat)
    (h : validates defs m s j = some false) : validates defs (m + 1) (refTo name) j = some false := by
  rw [refTo, validates_false_iff]
  exact ⟨_, List.mem_singleton.mpr rfl, by simp only [validKw, hl]; exact h⟩

/-! ### counting -/

theorem countO_cons_none (r : List (Option Bool)) : countO (none :: r) = none := rfl
theorem countO_cons_false (r : List (Option Bool)) : countO (some false :: r) = countO r := by
  simp only [countO]; cases countO r <;> rfl
theorem countO_cons_true (r : List (Option Bool)) : countO (some true :: r) = (countO r).map (· + 1) := by
  simp only [countO]; cases countO r <;> rfl

theorem countO_all_false {α : Type} (xs : List α) (f : α → Option Bool)
    (h : ∀ x ∈ xs, f x = some false) : countO (xs.map f) = some 0 := by
  induction xs with
  | nil => rfl
  | cons x r ih =>
    rw [List.map_cons, h x List.mem_cons_self, countO_cons_false]
    exact ih (fun y hy => h y (List.mem_cons_of_mem _ hy))

/-- exactly one `some true` (at `X`, which occurs once), all others `some false` ⇒ the count is 1 -/
theorem countO_one {xs : List Text} (f : Text → Option Bool) (X : Text) (hX : X ∈ xs) (hnd : xs.Nodup)
    (ht : f X = some true) (hf : ∀ y ∈ xs, y ≠ X → f y = some false) : countO (xs.map f) = some 1 := by
  induction xs with
  | nil => cases hX
  | cons x r ih =>
    simp only [List.nodup_cons] at hnd
    rw [List.map_cons]
    by_cases hx : x = X
    · subst hx
      rw [ht, countO_cons_true]
      have : countO (r.map f) = some 0 := countO_all_false r f (fun y hy =>
        hf y (List.mem_cons_of_mem _ hy) (by intro h; subst h; exact hnd.1 hy))
      rw [this]; rfl
    · have hXr : X ∈ r := by
        rcases List.mem_cons.mp hX with h | h
        · exact absurd h.symm hx
        · exact h
      rw [hf x List.mem_cons_self hx, countO_cons_false]
      exact ih hXr hnd.2 (fun y hy hne => hf y (List.mem_cons_of_mem _ hy) hne)

/-- if the count is 1 and every element but `X` is `some false`, then `X` is `some true` -/
theorem countO_one_inv {xs : List Text} (f : Text → Option Bool) (X : Text)
    (hf : ∀ y ∈ xs, y ≠ X → f y = some false) (hc : countO (xs.map f) = some 1) : f X = some true := by
  induction xs with
  | nil => simp [countO] at hc
  | cons x r ih =>
    rw [List.map_cons] at hc
    by_cases hx : x = X
    · subst hx
      cases hfx : f x with
      | none => rw [hfx, countO_cons_none] at hc; cases hc
      | some b =>
        cases b with
        | true => rfl
        | false =>
          rw [hfx, countO_cons_false] at hc
          rw [← hfx]
          exact ih (fun y hy hne => hf y (List.mem_cons_of_mem _ hy) hne) hc
    · rw [hf x List.mem_cons_self hx, countO_cons_false] at hc
      exact ih (fun y hy hne => hf y (List.mem_cons_of_mem _ hy) hne) hc

/-- **C11c — dispatch through `oneOf` is exact.**  `alts` are the names in a `_choice` definition,
pairwise different; each names a definition that definitely rejects objects with another
`modelType` (`RejectsOthers`: every concrete definition with `modelType` does,
`concrete_rejects_others`).  Then an object carrying `modelType = X`, `X ∈ alts`, is accepted by the
`oneOf` iff it is accepted by the alternative `X`: exactly one alternative validates. -/
theorem choice_exact (alts : List Text) (hnd : alts.Nodup)
    (hdefs : ∀ Y ∈ alts, ∃ sY, lookup Y defs = some sY ∧ RejectsOthers defs Y sY)
    {X : Text} (hX : X ∈ alts) {kvs : List (Text × Json)} (hmt : lookup modelTypeKey kvs = some (.str X)) :
    Valid defs (.mk [.oneOf (alts.map refTo)]) (.obj kvs) ↔ Valid defs (refTo X) (.obj kvs) := by
  -- the other alternatives reject definitely from fuel 4 on
  have hothers : ∀ m, 4 ≤ m → ∀ Y ∈ alts, Y ≠ X → validates defs m (refTo Y) (.obj kvs) = some false := by
    intro m hm Y hY hne
    obtain ⟨sY, hl, hrej⟩ := hdefs Y hY
    obtain ⟨n, rfl⟩ : ∃ n, m = n + 1 := ⟨m - 1, by omega⟩
    exact ref_rejects defs hl n (hrej kvs (.str X) hmt (by intro h; cases h; exact hne rfl) n (by omega))
  constructor
  · rintro ⟨m, hm⟩
    cases m with
    | zero => simp [validates] at hm
    | succ n =>
      have hm' := validates_le defs (Nat.le_add_right (n + 1) 4) _ _ _ hm
      rw [show n + 1 + 4 = (n + 4) + 1 from by omega, validates_true_iff] at hm'
      have := hm' _ (List.mem_singleton.mpr rfl)
      simp only [validKw, List.map_map] at this
      cases hc : countO (alts.map ((fun s => validates defs (n + 4) s (.obj kvs)) ∘ refTo)) with
      | none => simp [hc] at this
      | some cnt =>
        simp only [hc, Option.map_some, Option.some.injEq, beq_iff_eq] at this
        subst this
        exact ⟨n + 4, countO_one_inv (fun Y => validates defs (n + 4) (refTo Y) (.obj kvs)) X
          (fun Y hY hne => hothers (n + 4) (by omega) Y hY hne) hc⟩
  · rintro ⟨m, hm⟩
    refine ⟨m + 4 + 1, ?_⟩
    rw [validates_true_iff]
    intro k hk
    simp only [List.mem_singleton] at hk
    subst hk
    simp only [validKw, List.map_map]
    have hXm : validates defs (m + 4) (refTo X) (.obj kvs) = some true :=
      validates_le defs (Nat.le_add_right m 4) _ _ _ hm
    have := countO_one (fun Y => validates defs (m + 4) (refTo Y) (.obj kvs)) X hX hnd hXm
      (fun Y hY hne => hothers (m + 4) (by omega) Y hY hne)
    show (countO (alts.map ((fun s => validates defs (m + 4) s (.obj kvs)) ∘ refTo))).map (· == 1) = some true
    rw [show ((fun s => validates defs (m + 4) s (.obj kvs)) ∘ refTo) =
      (fun Y => validates defs (m + 4) (refTo Y) (.obj kvs)) from rfl, this]
    rfl

end AasVerif.JsonSchema
