import AasVerif.Model.TargetSem
import AasVerif.Lemmas.TsSem
/-!
The Java and C++ semantics `javaSem`, `cppSem` agree with Python wherever they are defined.
-/
namespace AasVerif.TargetEmit
open AasVerif AasVerif.Expr

theorem getAt_sound (l : List Val) (i : Int) (o : Out) : getAt l i = some o → o = indexVals (.list l) (.int i) := by
  unfold getAt
  intro h
  by_cases hi : 0 ≤ i
  · simp only [hi, if_true, Option.some.injEq] at h
    subst h
    have : ¬ i < 0 := by omega
    simp only [indexVals, Val.asInt, this, if_false]
    cases l[i.toNat]? <;> simp
  · simp [hi] at h

/-- an index counted from the end, computed as `size() - n` -/
def SizeIndexSound (sem : Sem) : Prop :=
  ∀ (k : IndexKind) (c : Val) (sz : Int) (n : Nat) (o : Out), sem.size c = some sz → 0 < n →
    sem.index k c (.int (sz - n)) = some o → k ≠ .cppBack → o = indexVals c (.int (-(n : Int)))

theorem getAt_fromEnd (l : List Val) (n : Nat) (o : Out) (hn : 0 < n)
    (h : getAt l ((l.length : Int) - n) = some o) : o = indexVals (.list l) (.int (-(n : Int))) := by
  unfold getAt at h
  by_cases hi : 0 ≤ (l.length : Int) - n
  · rw [if_pos hi] at h
    simp only [Option.some.injEq] at h
    subst h
    have h1 : -(n : Int) < 0 := by omega
    have h3 : -(n : Int) + (l.length : Int) = (l.length : Int) - n := by omega
    have h2 : ¬ ((l.length : Int) - n < 0) := by omega
    simp only [indexVals, Val.asInt, h1, if_true, h3, h2, if_false]
    cases l[((l.length : Int) - (n : Int)).toNat]? <;> rfl
  · rw [if_neg hi] at h; cases h

theorem cmpEq_bool (f : FloatOps) (x y : Bool) :
    cmpVals f .eq (.bool x) (.bool y) = .ofBool (x == y) ∧ cmpVals f .ne (.bool x) (.bool y) = .ofBool (!(x == y)) := by
  cases x <;> cases y <;> simp [cmpVals, valEq, Val.isNum, Val.asInt]

theorem javaSem_sound : SemSound javaSem where
  truthy := by
    intro f v b h
    cases v <;> simp [javaSem] at h
    subst h; rfl
  lastOperand := by
    intro f v w h
    cases v <;> simp [javaSem] at h
    exact h.symm
  cmp := by
    intro f op lb rb a b o h
    simp only [javaSem] at h
    split at h
    · rename_i x y
      by_cases hc : (fitsLong x && fitsLong y) = true
      · simp only [hc, if_true] at h
        cases op <;> simp only [] at h <;>
          first
          | (cases h; exact (pyCmp_int f _ x y).symm)
          | (split at h <;> first | (cases h; exact (pyCmp_int f _ x y).symm) | cases h)
      · simp [hc] at h
    · rename_i x y
      cases op <;> simp only [] at h <;>
        first
        | (split at h <;> first | (cases h; first | exact (cmpEq_bool f x y).1.symm | exact (cmpEq_bool f x y).2.symm) | cases h)
        | cases h
    · exact jsCmp_sound f op _ _ o (fun x y hx _ => by cases hx) h
    · split at h <;> first | exact jsCmpNull_sound_left f op _ o h | cases h
    · split at h <;> first | exact jsCmpNull_sound_right f op _ o h | cases h
    · exact jsCmp_sound f op _ _ o (fun x y hx _ => by cases hx) h
    · exact jsCmp_sound f op _ _ o (fun x y hx _ => by cases hx) h
    · cases h
  arith := by
    intro f ad a b o h
    simp only [javaSem] at h
    split at h
    · rename_i x y
      by_cases hc : (fitsLong x && fitsLong y && fitsLong (if ad then x + y else x - y)) = true
      · simp only [hc, if_true, Option.some.injEq] at h
        subst h; cases ad <;> simp [arithVals, Val.isNum, Val.asInt]
      · simp [hc] at h
    · cases ad <;> simp at h
      subst h; simp [arithVals]
    · cases h
  len := by
    intro k v o h
    simp only [javaSem] at h
    split at h
    · split at h
      · rename_i s hb; cases h; simp [lenVal, utf16_bmp s hb]
      · cases h
    · cases h; simp [lenVal]
    · cases h
  contains := by
    intro f k c m o h
    simp only [javaSem] at h
    split at h
    · split at h
      · rename_i items hd
        simp only [Bool.and_eq_true] at hd
        cases hr : anySVZ m items with
        | none => simp [hr] at h
        | some r =>
          simp only [hr, Option.map_some, Option.some.injEq] at h
          subst h
          have := anySVZ_sound f m hd.1 items r hd.2 hr
          simp [isInVals, memVal, this]
      · cases h
    · split at h
      · rename_i items hd
        simp only [Bool.and_eq_true] at hd
        cases hr : anySVZ m items with
        | none => simp [hr] at h
        | some r =>
          simp only [hr, Option.map_some, Option.some.injEq] at h
          subst h
          have := anySVZ_sound f m hd.1 items r hd.2 hr
          cases m <;> simp [simpleVal] at hd <;> simp [isInVals, memVal, this]
      · cases h
    · split at h
      · split at h
        · cases h; simp [isInVals]
        · cases h
      · cases h
    · cases h
  index := by
    intro k c i o h
    simp only [javaSem] at h
    split at h
    · exact getAt_sound _ _ o h
    · cases h
  unwrap := by
    intro k v o h
    simp only [javaSem] at h
    split at h <;> first | (cases h; rfl) | cases h
  isNull := by
    intro k v b h
    cases k <;> simp only [javaSem] at h <;> (try (cases h; done)) <;>
      (cases v <;> simp at h <;> (subst h; rfl))
  iter := by
    intro v l h
    cases v <;> simp [javaSem] at h <;> (subst h; simp [iterItems])
  fmt := by
    intro l c ρ v o h
    cases l <;> simp only [javaSem] at h <;> (try (cases h; done))
    cases v <;> simp only [] at h <;> (try (cases h; done))
    · split at h
      · cases h; simp [fmtVal]
      · cases h
    · cases h; simp [fmtVal]

theorem javaSem_sizeIndex : SizeIndexSound javaSem := by
  intro k c sz n o hs hn hi _
  cases c <;> simp [javaSem] at hs
  rename_i l
  subst hs
  simp only [javaSem] at hi
  cases k <;> simp only [] at hi <;> first | exact getAt_fromEnd _ n o hn hi | cases hi

theorem tsSem_sizeIndex : SizeIndexSound tsSem := by
  intro k c sz n o hs
  simp [tsSem] at hs

theorem getLast_index (l : List Val) (x : Val) (h : l.getLast? = some x) :
    indexVals (.list l) (.int (-1)) = .val x := by
  have hne : l ≠ [] := by intro hl; subst hl; simp at h
  have hlen : 0 < l.length := List.length_pos_iff.mpr hne
  have h1 : ¬ ((-1 : Int) + (l.length : Int) < 0) := by omega
  have h2 : ((-1 : Int) + (l.length : Int)).toNat = l.length - 1 := by omega
  rw [List.getLast?_eq_getElem?] at h
  simp only [indexVals, Val.asInt, show ((-1 : Int) < 0) from by omega, if_true, h1, if_false, h2, h]
  rfl

theorem cppSem_sound : SemSound cppSem where
  truthy := by
    intro f v b h
    cases v <;> simp [cppSem] at h
    subst h; rfl
  lastOperand := by
    intro f v w h
    cases v <;> simp [cppSem] at h
    exact h.symm
  cmp := by
    intro f op lb rb a b o h
    simp only [cppSem] at h
    split at h
    · rename_i x y
      split at h
      · cases h; exact (pyCmp_int f op x y).symm
      · cases h
    · rename_i x y
      cases h; exact (pyCmp_str f op x y).symm
    · rename_i x y
      cases op <;> simp only [] at h <;>
        first
        | (cases h; first | exact (cmpEq_bool f x y).1.symm | exact (cmpEq_bool f x y).2.symm)
        | cases h
    · exact jsCmp_sound f op _ _ o (fun x y hx _ => by cases hx) h
    · exact jsCmp_sound f op _ _ o (fun x y hx _ => by cases hx) h
    · cases h
  arith := by
    intro f ad a b o h
    simp only [cppSem] at h
    split at h
    · rename_i x y
      by_cases hc : (fitsLong x && fitsLong y && nonNeg x && nonNeg y && nonNeg (if ad then x + y else x - y)
          && fitsLong (if ad then x + y else x - y)) = true
      · simp only [hc, if_true, Option.some.injEq] at h
        subst h; cases ad <;> simp [arithVals, Val.isNum, Val.asInt]
      · simp [hc] at h
    · cases ad <;> simp at h
      subst h; simp [arithVals]
    · cases h
  len := by
    intro k v o h
    simp only [cppSem] at h
    split at h <;> first | (cases h; simp [lenVal]) | cases h
  contains := by
    intro f k c m o h
    simp only [cppSem] at h
    split at h
    · split at h
      · rename_i items hd
        simp only [Bool.and_eq_true] at hd
        cases hr : anySVZ m items with
        | none => simp [hr] at h
        | some r =>
          simp only [hr, Option.map_some, Option.some.injEq] at h
          subst h
          have := anySVZ_sound f m hd.1 items r hd.2 hr
          cases m <;> simp [simpleVal] at hd <;> simp [isInVals, memVal, this]
      · cases h
    · split at h
      · rename_i items hd
        simp only [Bool.and_eq_true] at hd
        cases hr : anySVZ m items with
        | none => simp [hr] at h
        | some r =>
          simp only [hr, Option.map_some, Option.some.injEq] at h
          subst h
          have := anySVZ_sound f m hd.1 items r hd.2 hr
          simp [isInVals, memVal, this]
      · cases h
    · cases h
  index := by
    intro k c i o h
    simp only [cppSem] at h
    split at h
    · exact getAt_sound _ _ o h
    · rename_i l i
      split at h
      · rename_i hi
        subst hi
        cases hl : l.getLast? with
        | none => simp [hl] at h
        | some x =>
          simp only [hl, Option.some.injEq] at h
          subst h
          exact (getLast_index l x hl).symm
      · cases h
    · cases h
  unwrap := by
    intro k v o h
    simp only [cppSem] at h
    split at h <;> first | (cases h; rfl) | cases h
  isNull := by
    intro k v b h
    cases k <;> simp only [cppSem] at h <;> (try (cases h; done)) <;>
      (cases v <;> simp at h <;> (subst h; rfl))
  iter := by
    intro v l h
    cases v <;> simp [cppSem] at h <;> (subst h; simp [iterItems])
  fmt := by
    intro l c ρ v o h
    simp only [cppSem] at h
    split at h
    · cases h; simp [fmtVal]
    · split at h
      · cases h; simp [fmtVal]
      · cases h
    · cases h

theorem cppSem_sizeIndex : SizeIndexSound cppSem := by
  intro k c sz n o hs hn hi hk
  cases c <;> simp [cppSem] at hs
  rename_i l
  subst hs
  simp only [cppSem] at hi
  cases k <;> simp only [] at hi <;> first | exact getAt_fromEnd _ n o hn hi | exact absurd rfl hk | cases hi

end AasVerif.TargetEmit
