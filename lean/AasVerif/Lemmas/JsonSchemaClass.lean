import AasVerif.Lemmas.JsonSchemaType
/-!
Class-level facts about the definition of a concrete class without concrete descendants
(`_generate_concrete_definition`, second branch): what acceptance implies for `modelType`, for the
required properties and for the value of every own property.
-/
namespace AasVerif.JsonSchema
open AasVerif AasVerif.Retree

variable (defs : Defs)

theorem valid_wrapAllOf_elim {ss : List Schema} {j : Json} (h : Valid defs (wrapAllOf ss) j) :
    ∀ s ∈ ss, Valid defs s j := by
  unfold wrapAllOf at h
  split at h
  · intro s hs; cases hs
  · intro s hs; simp only [List.mem_cons, List.not_mem_nil, or_false] at hs; subst hs; exact h
  · rw [valid_iff_kws] at h
    have := h _ (List.mem_cons_self)
    simpa using this

/-! ### membership in the `properties` the generator builds -/

theorem mem_setKey_self {α : Type} (k : Text) (v : α) (acc : List (Text × α)) : (k, v) ∈ setKey k v acc := by
  induction acc with
  | nil => simp [setKey]
  | cons a acc ih =>
    obtain ⟨k', v'⟩ := a
    simp only [setKey]
    split
    · simp
    · exact List.mem_cons_of_mem _ ih

theorem mem_setKey_other {α : Type} {k k' : Text} {v v' : α} {acc : List (Text × α)}
    (h : (k, v) ∈ acc) (hne : k' ≠ k) : (k, v) ∈ setKey k' v' acc := by
  induction acc with
  | nil => cases h
  | cons a acc ih =>
    obtain ⟨k2, v2⟩ := a
    simp only [setKey]
    split
    · rename_i heq
      rcases List.mem_cons.mp h with h' | h'
      · simp only [Prod.mk.injEq] at h'
        exact absurd (heq.symm.trans h'.1.symm).symm (by intro hh; exact hne hh.symm)
      · exact List.mem_cons_of_mem _ h'
    · rcases List.mem_cons.mp h with h' | h'
      · rw [h']; exact List.mem_cons_self
      · exact List.mem_cons_of_mem _ (ih h')

theorem lookup_of_mem_setKeyed {α : Type} {k : Text} {v : α} {l : List (Text × α)}
    (h : (k, v) ∈ l) : ∃ v', lookup k l = some v' := by
  induction l with
  | nil => cases h
  | cons a l ih =>
    obtain ⟨k2, v2⟩ := a
    simp only [lookup]
    split
    · exact ⟨_, rfl⟩
    · rcases List.mem_cons.mp h with h' | h'
      · simp only [Prod.mk.injEq] at h'; rename_i hne; exact absurd h'.1.symm hne
      · exact ih h'

/-- an entry survives the rest of `_define_properties` when no later property has its name -/
theorem defineProps_keeps (ps : List Prp) : ∀ (acc res : List (Text × Schema)) (k : Text) (s : Schema),
    defineProps ps acc = .ok res → (k, s) ∈ acc → (∀ q ∈ ps, q.name ≠ k) → (k, s) ∈ res := by
  induction ps with
  | nil => intro acc res k s h hm _; simp only [defineProps, Except.ok.injEq] at h; subst h; exact hm
  | cons p ps ih =>
    intro acc res k s h hm hne
    simp only [defineProps] at h
    cases hp : defineProp p with
    | error e => simp [hp] at h
    | ok o =>
      cases o with
      | none =>
        simp only [hp] at h
        exact ih _ _ _ _ h hm (fun q hq => hne q (List.mem_cons_of_mem _ hq))
      | some sp =>
        simp only [hp] at h
        exact ih _ _ _ _ h (mem_setKey_other hm (hne p List.mem_cons_self))
          (fun q hq => hne q (List.mem_cons_of_mem _ hq))

/-- the definition of a property whose JSON name is unique ends up in `properties` -/
theorem defineProps_mem (ps : List Prp) : ∀ (acc res : List (Text × Schema)) (p : Prp) (sp : Schema),
    defineProps ps acc = .ok res → p ∈ ps → defineProp p = .ok (some sp) →
    (ps.map (·.name)).Nodup → (p.name, sp) ∈ res := by
  induction ps with
  | nil => intro acc res p sp _ hp; cases hp
  | cons q ps ih =>
    intro acc res p sp h hp hd hnd
    simp only [List.map_cons, List.nodup_cons] at hnd
    simp only [defineProps] at h
    rcases List.mem_cons.mp hp with rfl | hp'
    · simp only [hd] at h
      refine defineProps_keeps ps _ _ _ _ h (mem_setKey_self _ _ _) ?_
      intro q hq heq
      exact hnd.1 (List.mem_map.mpr ⟨q, hq, heq⟩)
    · cases hq : defineProp q with
      | error e => simp [hq] at h
      | ok o =>
        cases o with
        | none => simp only [hq] at h; exact ih _ _ _ _ h hp' hd hnd.2
        | some sq => simp only [hq] at h; exact ih _ _ _ _ h hp' hd hnd.2

/-! ### a concrete class without concrete descendants -/

/-- shape of `_generate_concrete_definition` for a class without concrete descendants -/
theorem concrete_leaf_shape {c : Cls} {k : Text} {s : Schema} (h : concreteDefinition c = .ok (k, s))
    (hleaf : c.cdesc = []) :
    ∃ props, defineProperties c = .ok props ∧ k = c.mt ∧
      s = wrapAllOf (inheritanceRefs c ++ [.mk (bodyKws c
        (if c.withModelType then setKey modelTypeKey (modelTypeConst c.mt) props else props)
        (if c.withModelType ∧ !(c.inh.any (·.withModelType)) then requiredProps c ++ [modelTypeKey]
          else requiredProps c))]) := by
  unfold concreteDefinition at h
  simp only [hleaf, List.isEmpty_nil, Bool.not_true, Bool.false_eq_true, if_false] at h
  cases hp : defineProperties c with
  | error e => simp [hp] at h
  | ok props =>
    simp only [hp, Except.ok.injEq, Prod.mk.injEq] at h
    exact ⟨props, rfl, h.1.symm, h.2.symm⟩

/-- acceptance by the class definition implies acceptance by its body -/
theorem concrete_leaf_body {c : Cls} {k : Text} {s : Schema} (h : concreteDefinition c = .ok (k, s))
    (hleaf : c.cdesc = []) {j : Json} (hv : Valid defs s j) :
    ∃ props, defineProperties c = .ok props ∧
      Valid defs (.mk (bodyKws c
        (if c.withModelType then setKey modelTypeKey (modelTypeConst c.mt) props else props)
        (if c.withModelType ∧ !(c.inh.any (·.withModelType)) then requiredProps c ++ [modelTypeKey]
          else requiredProps c))) j := by
  obtain ⟨props, hp, _, rfl⟩ := concrete_leaf_shape h hleaf
  exact ⟨props, hp, valid_wrapAllOf_elim defs hv _ (by simp)⟩

theorem body_properties {c : Cls} {props : List (Text × Schema)} {req : List Text} {j : Json}
    (hv : Valid defs (.mk (bodyKws c props req)) j) (hne : props ≠ []) :
    KwValid defs (.properties props) j ∧ (req ≠ [] → KwValid defs (.required req) j) := by
  rw [valid_iff_kws] at hv
  have hp : props.isEmpty = false := by cases props <;> simp_all
  constructor
  · apply hv
    simp [bodyKws, hp]
  · intro hr
    have hr' : req.isEmpty = false := by cases req <;> simp_all
    apply hv
    simp [bodyKws, hp, hr']

/-- **wrong `modelType` is rejected** (class with `with_model_type`, no concrete descendants): an
accepted object carries no `modelType` other than the class's own. -/
theorem concrete_leaf_modelType_pinned {c : Cls} {k : Text} {s : Schema}
    (h : concreteDefinition c = .ok (k, s)) (hleaf : c.cdesc = []) (hw : c.withModelType = true)
    {kvs : List (Text × Json)} (hv : Valid defs s (.obj kvs)) :
    ∀ v, lookup modelTypeKey kvs = some v → v = .str c.mt := by
  obtain ⟨props, hp, hb⟩ := concrete_leaf_body defs h hleaf hv
  simp only [hw, if_true] at hb
  have hmem := mem_setKey_self modelTypeKey (modelTypeConst c.mt) props
  have hne : setKey modelTypeKey (modelTypeConst c.mt) props ≠ [] := by
    intro h0; rw [h0] at hmem; cases hmem
  obtain ⟨hprops, _⟩ := body_properties defs hb hne
  rw [kwv_properties] at hprops
  intro v hl
  have := hprops kvs rfl _ hmem v hl
  simpa [modelTypeConst, valid_iff_kws] using this

/-- **missing `modelType` is rejected** when no parent definition requires it already -/
theorem concrete_leaf_modelType_required {c : Cls} {k : Text} {s : Schema}
    (h : concreteDefinition c = .ok (k, s)) (hleaf : c.cdesc = []) (hw : c.withModelType = true)
    (hnp : c.inh.any (·.withModelType) = false)
    {kvs : List (Text × Json)} (hv : Valid defs s (.obj kvs)) : hasKey modelTypeKey kvs = true := by
  obtain ⟨props, hp, hb⟩ := concrete_leaf_body defs h hleaf hv
  simp only [hw, hnp, if_true, Bool.not_false, and_self] at hb
  have hmem := mem_setKey_self modelTypeKey (modelTypeConst c.mt) props
  have hne : setKey modelTypeKey (modelTypeConst c.mt) props ≠ [] := by
    intro h0; rw [h0] at hmem; cases hmem
  obtain ⟨_, hreq⟩ := body_properties defs hb hne
  have := hreq (by simp)
  rw [kwv_required] at this
  exact this kvs rfl modelTypeKey (by simp)

/-- every own property ends up in `properties` under its JSON name (names unique, none is `modelType`) -/
theorem own_property_defined {c : Cls} {props : List (Text × Schema)} (hp : defineProperties c = .ok props)
    (hnd : (c.props.map (·.name)).Nodup) {p : Prp} (hmem : p ∈ c.props) (hown : p.own = true)
    {sp : Schema} (hd : defineType p.ty = .ok sp) : (p.name, sp) ∈ props := by
  have hdp : defineProp p = .ok (some sp) := by
    unfold defineProp
    simp only [hown, if_true, hd]
    cases sp with
    | mk kws =>
      cases kws with
      | nil =>
        -- `_define_type` never returns an empty mapping
        exfalso
        cases hty : p.ty with
        | enum mt => simp [hty, defineType, refTo] at hd
        | cls mt ch => simp [hty, defineType, refTo] at hd
        | prim q cs =>
          simp only [hty, defineType] at hd
          cases hjt : primType q with
          | none => simp [hjt] at hd
          | some jt =>
            simp only [hjt] at hd
            cases cs with
            | none => simp at hd
            | some c' =>
              simp only at hd
              cases ht : translate (.prim q) c' with
              | error e => simp [ht] at hd
              | ok o =>
                cases o with
                | none => simp [ht] at hd
                | some ba =>
                  simp only [ht, Except.ok.injEq, allOfMapping] at hd
                  split at hd <;> simp at hd
        | list items cs =>
          simp only [hty, defineType] at hd
          cases hi : defineType items with
          | error e => simp [hi] at hd
          | ok itemsDef =>
            simp only [hi] at hd
            cases cs with
            | none => simp at hd
            | some c' =>
              simp only at hd
              cases ht : translate .list c' with
              | error e => simp [ht] at hd
              | ok o =>
                cases o with
                | none => simp [ht] at hd
                | some ba =>
                  simp only [ht, Except.ok.injEq, allOfMapping] at hd
                  split at hd <;> simp at hd
      | cons k ks => simp [Schema.kws]
  exact defineProps_mem c.props [] props p sp hp hmem hdp hnd

/-- **an own property's value is checked**: acceptance of the object by the class definition implies
that the value stored under the property's JSON name satisfies `Sat` (shape + inferred constraints). -/
theorem concrete_leaf_own_property {c : Cls} {k : Text} {s : Schema}
    (h : concreteDefinition c = .ok (k, s)) (hleaf : c.cdesc = [])
    (hnd : (c.props.map (·.name)).Nodup) {p : Prp} (hmem : p ∈ c.props) (hown : p.own = true)
    (hnm : p.name ≠ modelTypeKey) {sp : Schema} (hd : defineType p.ty = .ok sp)
    {kvs : List (Text × Json)} (hv : Valid defs s (.obj kvs)) :
    ∀ v, lookup p.name kvs = some v → Sat defs p.ty v := by
  obtain ⟨props, hp, hb⟩ := concrete_leaf_body defs h hleaf hv
  have hin := own_property_defined hp hnd hmem hown hd
  have hin' : (p.name, sp) ∈ (if c.withModelType then setKey modelTypeKey (modelTypeConst c.mt) props else props) := by
    split
    · exact mem_setKey_other hin (Ne.symm hnm)
    · exact hin
  have hne : (if c.withModelType then setKey modelTypeKey (modelTypeConst c.mt) props else props) ≠ [] := by
    intro h0; rw [h0] at hin'; cases hin'
  obtain ⟨hprops, _⟩ := body_properties defs hb hne
  rw [kwv_properties] at hprops
  intro v hl
  exact (type_lemma defs p.ty sp hd v).mp (hprops kvs rfl _ hin' v hl)

/-- **a missing required property is rejected** -/
theorem concrete_leaf_required {c : Cls} {k : Text} {s : Schema}
    (h : concreteDefinition c = .ok (k, s)) (hleaf : c.cdesc = [])
    (hnd : (c.props.map (·.name)).Nodup) {p : Prp} (hmem : p ∈ c.props) (hown : p.own = true)
    (hreq : p.optional = false) {sp : Schema} (hd : defineType p.ty = .ok sp)
    {kvs : List (Text × Json)} (hv : Valid defs s (.obj kvs)) : hasKey p.name kvs = true := by
  obtain ⟨props, hp, hb⟩ := concrete_leaf_body defs h hleaf hv
  have hin := own_property_defined hp hnd hmem hown hd
  have hne : (if c.withModelType then setKey modelTypeKey (modelTypeConst c.mt) props else props) ≠ [] := by
    split
    · have := mem_setKey_self modelTypeKey (modelTypeConst c.mt) props
      intro h0; rw [h0] at this; cases this
    · intro h0; rw [h0] at hin; cases hin
  obtain ⟨_, hr⟩ := body_properties defs hb hne
  have hpr : p.name ∈ requiredProps c := by
    simp only [requiredProps, List.mem_map, List.mem_filter]
    exact ⟨p, ⟨hmem, by simp [hown, hreq]⟩, rfl⟩
  have hin2 : p.name ∈ (if c.withModelType ∧ !(c.inh.any (·.withModelType)) then requiredProps c ++ [modelTypeKey]
      else requiredProps c) := by
    split
    · exact List.mem_append_left _ hpr
    · exact hpr
  have := hr (by intro h0; rw [h0] at hin2; cases hin2)
  rw [kwv_required] at this
  exact this kvs rfl _ hin2

/-! ### exact characterisation for a stand-alone class (no parents, no descendants) -/

theorem mem_setKey_inv {α : Type} {k k' : Text} {v v' : α} {acc : List (Text × α)}
    (h : (k, v) ∈ setKey k' v' acc) : (k = k' ∧ v = v') ∨ (k, v) ∈ acc := by
  induction acc with
  | nil => simp only [setKey, List.mem_singleton, Prod.mk.injEq] at h; exact Or.inl h
  | cons a acc ih =>
    obtain ⟨k2, v2⟩ := a
    simp only [setKey] at h
    split at h
    · rcases List.mem_cons.mp h with h' | h'
      · simp only [Prod.mk.injEq] at h'; exact Or.inl h'
      · exact Or.inr (List.mem_cons_of_mem _ h')
    · rcases List.mem_cons.mp h with h' | h'
      · exact Or.inr (h' ▸ List.mem_cons_self)
      · rcases ih h' with h'' | h''
        · exact Or.inl h''
        · exact Or.inr (List.mem_cons_of_mem _ h'')

/-- every entry of the `properties` mapping stems from a property (or was there before) -/
theorem defineProps_entries (ps : List Prp) : ∀ (acc res : List (Text × Schema)),
    defineProps ps acc = .ok res → ∀ k s, (k, s) ∈ res →
      (k, s) ∈ acc ∨ ∃ p ∈ ps, p.name = k ∧ defineProp p = .ok (some s) := by
  induction ps with
  | nil => intro acc res h k s hm; simp only [defineProps, Except.ok.injEq] at h; subst h; exact Or.inl hm
  | cons q ps ih =>
    intro acc res h k s hm
    simp only [defineProps] at h
    cases hq : defineProp q with
    | error e => simp [hq] at h
    | ok o =>
      cases o with
      | none =>
        simp only [hq] at h
        rcases ih _ _ h k s hm with h' | ⟨p, hp, hn, hd⟩
        · exact Or.inl h'
        · exact Or.inr ⟨p, List.mem_cons_of_mem _ hp, hn, hd⟩
      | some sq =>
        simp only [hq] at h
        rcases ih _ _ h k s hm with h' | ⟨p, hp, hn, hd⟩
        · rcases mem_setKey_inv h' with ⟨rfl, rfl⟩ | h''
          · exact Or.inr ⟨q, List.mem_cons_self, rfl, hq⟩
          · exact Or.inl h''
        · exact Or.inr ⟨p, List.mem_cons_of_mem _ hp, hn, hd⟩

theorem defineProp_own {p : Prp} {s : Schema} (hown : p.own = true) (h : defineProp p = .ok (some s)) :
    defineType p.ty = .ok s := by
  unfold defineProp at h
  simp only [hown, if_true] at h
  cases hd : defineType p.ty with
  | error e => simp [hd] at h
  | ok s' =>
    simp only [hd, Except.ok.injEq] at h
    split at h
    · cases h
    · simp only [Option.some.injEq] at h; rw [h]

theorem mem_bodyKws {c : Cls} {P : List (Text × Schema)} {R : List Text} {kw : Kw} (hroot : c.inh = [])
    (h : kw ∈ bodyKws c P R) : kw = .type .object ∨ kw = .properties P ∨ kw = .required R := by
  cases P with
  | nil => simp [bodyKws, hroot] at h; exact Or.inl h
  | cons a as =>
    cases R with
    | nil => simp [bodyKws, hroot] at h; rcases h with h | h; exact Or.inl h; exact Or.inr (Or.inl h)
    | cons r rs =>
      simp [bodyKws, hroot] at h
      rcases h with h | h | h
      · exact Or.inl h
      · exact Or.inr (Or.inl h)
      · exact Or.inr (Or.inr h)

/-- what a document of a stand-alone class must look like -/
def StandaloneOK (c : Cls) (j : Json) : Prop :=
  ∃ kvs, j = .obj kvs ∧
    (∀ p ∈ c.props, p.optional = false → hasKey p.name kvs = true) ∧
    (c.withModelType = true → lookup modelTypeKey kvs = some (.str c.mt)) ∧
    (∀ p ∈ c.props, ∀ v, lookup p.name kvs = some v → Sat defs p.ty v)

/-- **Exact characterisation (C11 and C12 together) for a stand-alone concrete class**: no parents,
no concrete descendants, JSON property names unique and different from `modelType`.  The class
definition accepts a JSON value iff it is an object that has every required member, carries the
class's `modelType` (when the class has one), and whose member values satisfy shape and inferred
constraints of their properties. -/
theorem standalone_iff {c : Cls} {k : Text} {s : Schema} (h : concreteDefinition c = .ok (k, s))
    (hleaf : c.cdesc = []) (hroot : c.inh = []) (hown : ∀ p ∈ c.props, p.own = true)
    (hnd : (c.props.map (·.name)).Nodup) (hnm : ∀ p ∈ c.props, p.name ≠ modelTypeKey)
    (j : Json) : Valid defs s j ↔ StandaloneOK defs c j := by
  obtain ⟨props, hp, _, hs⟩ := concrete_leaf_shape h hleaf
  have hdt : ∀ p ∈ c.props, ∃ sp, defineType p.ty = .ok sp ∧ (p.name, sp) ∈ props := by
    intro p hpm
    -- `_define_properties` succeeded, so `_define_type` succeeded on every own property
    have : ∀ (ps : List Prp) (acc res : List (Text × Schema)), defineProps ps acc = .ok res →
        p ∈ ps → ∃ sp, defineType p.ty = .ok sp := by
      intro ps
      induction ps with
      | nil => intro _ _ _ hm; cases hm
      | cons q qs ih =>
        intro acc res hq hm
        simp only [defineProps] at hq
        cases hdq : defineProp q with
        | error e => simp [hdq] at hq
        | ok o =>
          rcases List.mem_cons.mp hm with rfl | hm'
          · unfold defineProp at hdq
            simp only [hown p hpm, if_true] at hdq
            cases hd : defineType p.ty with
            | error e => simp [hd] at hdq
            | ok sp => exact ⟨sp, rfl⟩
          · cases o with
            | none => simp only [hdq] at hq; exact ih _ _ hq hm'
            | some sq => simp only [hdq] at hq; exact ih _ _ hq hm'
    obtain ⟨sp, hsp⟩ := this c.props [] props hp hpm
    exact ⟨sp, hsp, own_property_defined hp hnd hpm (hown p hpm) hsp⟩
  have hir : inheritanceRefs c = [] := by simp [inheritanceRefs, hroot]
  have hs' : s = .mk (bodyKws c
      (if c.withModelType then setKey modelTypeKey (modelTypeConst c.mt) props else props)
      (if c.withModelType ∧ !(c.inh.any (·.withModelType)) then requiredProps c ++ [modelTypeKey]
        else requiredProps c)) := by
    rw [hs, hir]; simp [wrapAllOf]
  constructor
  · intro hv
    -- the object part
    have hobj : ∃ kvs, j = .obj kvs := by
      rw [hs'] at hv
      rw [valid_iff_kws] at hv
      have := hv (.type .object) (by simp [bodyKws, hroot])
      rw [kwv_type] at this
      cases j <;> simp [hasType] at this
      exact ⟨_, rfl⟩
    obtain ⟨kvs, rfl⟩ := hobj
    refine ⟨kvs, rfl, ?_, ?_, ?_⟩
    · intro p hpm hreq
      obtain ⟨sp, hsp, _⟩ := hdt p hpm
      exact concrete_leaf_required defs h hleaf hnd hpm (hown p hpm) hreq hsp hv
    · intro hw
      have hk := concrete_leaf_modelType_required defs h hleaf hw (by simp [hroot]) hv
      unfold hasKey at hk
      cases hl : lookup modelTypeKey kvs with
      | none => simp [hl] at hk
      | some v => rw [concrete_leaf_modelType_pinned defs h hleaf hw hv v hl]
    · intro p hpm v hl
      obtain ⟨sp, hsp, _⟩ := hdt p hpm
      exact concrete_leaf_own_property defs h hleaf hnd hpm (hown p hpm) (hnm p hpm) hsp hv v hl
  · rintro ⟨kvs, rfl, hreq, hmt, hsat⟩
    rw [hs']
    rw [valid_iff_kws]
    intro kw hkw
    rcases mem_bodyKws hroot hkw with rfl | rfl | rfl
    · simp [hasType]
    · -- `properties`
      rw [kwv_properties]
      intro kvs' hk' pe hpe v hl
      cases hk'
      have hent : pe ∈ props ∨ (c.withModelType = true ∧ pe = (modelTypeKey, modelTypeConst c.mt)) := by
        obtain ⟨pk, psch⟩ := pe
        split at hpe
        · rename_i hw
          rcases mem_setKey_inv hpe with ⟨rfl, rfl⟩ | h'
          · exact Or.inr ⟨hw, rfl⟩
          · exact Or.inl h'
        · exact Or.inl hpe
      rcases hent with hin | ⟨hw, rfl⟩
      · obtain ⟨pk, psch⟩ := pe
        rcases defineProps_entries c.props [] props hp pk psch hin with h' | ⟨p, hpm, hn, hd⟩
        · cases h'
        · have := defineProp_own (hown p hpm) hd
          subst hn
          exact (type_lemma defs p.ty psch this v).mpr (hsat p hpm v hl)
      · simp only at hl
        rw [hmt hw] at hl
        cases hl
        simp [modelTypeConst, valid_iff_kws]
    · rw [kwv_required]
      intro kvs' hk' key hkey
      cases hk'
      have : key ∈ requiredProps c ∨ (c.withModelType = true ∧ key = modelTypeKey) := by
        split at hkey
        · rename_i hw
          rcases List.mem_append.mp hkey with h' | h'
          · exact Or.inl h'
          · exact Or.inr ⟨hw.1, by simpa using h'⟩
        · exact Or.inl hkey
      rcases this with h' | ⟨hw, rfl⟩
      · simp only [requiredProps, List.mem_map, List.mem_filter] at h'
        obtain ⟨p, ⟨hpm, hcond⟩, rfl⟩ := h'
        have hopt : p.optional = false := by
          have := (Bool.and_eq_true _ _ ▸ hcond).2
          simpa using this
        exact hreq p hpm hopt
      · unfold hasKey; rw [hmt hw]; rfl

end AasVerif.JsonSchema
