import AasVerif.Lemmas.RevmEq4
/-!
The induction over the regex tree.
-/
set_option linter.unusedSimpArgs false
namespace AasVerif.Revm
open AasVerif.Retree

theorem BodySpec.cast {f code sz code' sz'} (h : BodySpec f code sz) (hc : ∀ b, code b = code' b)
    (hs : sz = sz') : BodySpec f code' sz' := by
  intro n
  obtain ⟨t, n', h1, h2, h3⟩ := h n
  exact ⟨t, n', h1, h2, h3.cast hc hs⟩

theorem terms_cons_spec {f : Em Tree} {g : Em (List Tree)} {cf cg sf sg}
    (hf : BodySpec f cf sf) (hg : ListSpec g cg sg) :
    ListSpec (do let x ← f; let xs ← g; pure (x :: xs)) (fun base => cf base ++ cg (base + sf)) (sf + sg) := by
  intro n
  obtain ⟨t, n1, h1, hle1, hF1⟩ := hf n
  obtain ⟨ts, n2, h2, hle2, hF2⟩ := hg n1
  refine ⟨t :: ts, n2, by simp [h1, h2], by omega, ?_⟩
  simp only [linearizeList_cons]
  exact Frag.seq hF1 hF2 hle1 hle2

theorem node_spec {g : Em (List Tree)} {cg sg} (hg : ListSpec g cg sg) :
    BodySpec (do let xs ← g; pure (.node xs)) cg sg := by
  intro n
  obtain ⟨ts, n2, h2, hle2, hF2⟩ := hg n
  exact ⟨.node ts, n2, by simp [h2], hle2, by simpa using hF2⟩

theorem union_spec {c c' : Concat} {cs : List Concat} (h : UniatesSpec (c :: c' :: cs)) :
    BodySpec (transformUnion (.mk (c :: c' :: cs))) (compU (.mk (c :: c' :: cs))) (sizeU (.mk (c :: c' :: cs))) := by
  intro n
  obtain ⟨xs, n2, h2, hle2, hF2, _, _⟩ := h n (n + 1) (by omega)
  refine ⟨.node xs, n2, by simp [transformUnion, h2], by omega, ?_⟩
  simp only [linearize_node]
  refine (hF2.weaken ?_).cast (fun b => by simp [compU]) (by simp [sizeU])
  intro l hl
  unfold InRange at *
  omega

mutual
  theorem specV : (v : Value) → okV v = true → BodySpec (transformValue v) (compV v) (sizeV v)
    | .group u, h => by
      have := specU u (by simpa [okV] using h)
      simpa [transformValue, compV, sizeV] using this.cast (fun b => by simp [compV]) (by simp [sizeV])
    | .char c, _ => by
      simpa [transformValue, compV, sizeV] using
        (leaf_spec (.char c.code) rfl rfl (fun _ => rfl)).cast (fun b => by simp [compV]) (by simp [sizeV])
    | .set compl rs, h => by
      have := set_spec compl rs (by simpa [okV] using h)
      simpa [transformValue, sizeV] using this
    | .fv _, h => by simp [okV] at h
    | .sym .start, h => by simp [okV] at h
    | .sym .stop, _ => by
      simpa [transformValue, compV, sizeV] using
        (leaf_spec .atEnd rfl rfl (fun _ => rfl)).cast (fun b => by simp [compV]) (by simp [sizeV])
    | .sym .dot, _ => by
      simpa [transformValue, compV, sizeV] using
        (leaf_spec .any rfl rfl (fun _ => rfl)).cast (fun b => by simp [compV]) (by simp [sizeV])
  theorem specT : (t : Term) → okT t = true → BodySpec (transformTerm t) (compT t) (sizeT t)
    | .mk v none, h => by
      have := specV v (by simpa [okT] using h)
      simpa [transformTerm, compT, sizeT] using this
    | .mk v (some q), h => by
      have hv : okV v = true ∧ quantOk q = true := by
        cases v with
        | sym k => cases k <;> simp_all [okT, okV]
        | _ => simpa [okT] using h
      have hb := quant_spec (specV v hv.1) q hv.2
      cases v with
      | fv i => simp [okV] at hv
      | _ => simpa [transformTerm, compT, sizeT] using hb
  theorem specTs : (ts : List Term) → okTs ts = true → ListSpec (transformTerms ts) (compTs ts) (sizeTs ts)
    | [], _ => by
      intro n
      exact ⟨[], n, by simp [transformTerms], Nat.le_refl _, by simpa [compTs, sizeTs] using Frag.nil (InRange n n)⟩
    | t :: ts, h => by
      have h' : okT t = true ∧ okTs ts = true := by simpa [okTs] using h
      have := terms_cons_spec (specT t h'.1) (specTs ts h'.2)
      simpa [transformTerms, compTs, sizeTs] using this
  theorem specC : (c : Concat) → okC c = true → BodySpec (transformConcat c) (compC c) (sizeC c)
    | .mk [], _ => by
      simpa [transformConcat] using noop_spec.cast (fun b => by simp [compC, compTs]) (by simp [sizeC, sizeTs])
    | .mk [t], h => by
      have h' : okT t = true := by simpa [okC, okTs] using h
      simpa [transformConcat] using
        (specT t h').cast (fun b => by simp [compC, compTs]) (by simp [sizeC, sizeTs])
    | .mk (t :: t' :: ts), h => by
      have h' : okTs (t :: t' :: ts) = true := by simpa [okC] using h
      have := node_spec (specTs (t :: t' :: ts) h')
      simpa [transformConcat, compC, sizeC] using this
  theorem specCs : (cs : List Concat) → okCs cs = true → cs ≠ [] → UniatesSpec cs
    | [], _, hne => absurd rfl hne
    | [c], h, _ => by
      have h' : okC c = true := by simpa [okCs] using h
      exact uniates_last (specC c h')
    | c :: c' :: cs, h, _ => by
      have h' : okC c = true ∧ okCs (c' :: cs) = true := by simpa [okCs] using h
      exact uniates_step (specC c h'.1) (specCs (c' :: cs) h'.2 (by simp))
  theorem specU : (u : Union) → okU u = true → BodySpec (transformUnion u) (compU u) (sizeU u)
    | .mk [], h => by simp [okU] at h
    | .mk [c], h => by
      have h' : okC c = true := by simpa [okU, okCs] using h
      simpa [transformUnion] using
        (specC c h').cast (fun b => by simp [compU, compCs]) (by simp [sizeU, sizeCs])
    | .mk (c :: c' :: cs), h => by
      have h' : okCs (c :: c' :: cs) = true := by simpa [okU] using h
      exact union_spec (specCs (c :: c' :: cs) h' (by simp))
end

end AasVerif.Revm
