import AasVerif.Model.Wrap
namespace AasVerif.Wrap

theorem splitSp_ne_nil (t : Text) : splitSp t ≠ [] := by
  induction t with
  | nil => simp [splitSp]
  | cons c cs ih =>
    unfold splitSp
    split
    · simp
    · split <;> simp

theorem joinSp_cons_cons (p q : Text) (ps : List Text) :
    joinSp (p :: q :: ps) = p ++ 32 :: joinSp (q :: ps) := rfl

theorem joinSp_splitSp (t : Text) : joinSp (splitSp t) = t := by
  induction t with
  | nil => rfl
  | cons c cs ih =>
    unfold splitSp
    split
    · next h =>
      subst h
      cases hs : splitSp cs with
      | nil => exact absurd hs (splitSp_ne_nil cs)
      | cons p ps => rw [joinSp_cons_cons, ← hs, ih]; rfl
    · cases hs : splitSp cs with
      | nil => exact absurd hs (splitSp_ne_nil cs)
      | cons p ps =>
        rw [hs] at ih
        cases ps with
        | nil => simp [joinSp] at ih ⊢; exact ih
        | cons q qs =>
          simp only [joinSp_cons_cons] at ih ⊢
          rw [← ih]; rfl

theorem joinSp_append (a b : List Text) (ha : a ≠ []) (hb : b ≠ []) :
    joinSp (a ++ b) = joinSp a ++ 32 :: joinSp b := by
  induction a with
  | nil => exact absurd rfl ha
  | cons p ps ih =>
    cases ps with
    | nil =>
      cases b with
      | nil => exact absurd rfl hb
      | cons q qs => rfl
    | cons p' ps' =>
      have := ih (by simp)
      simp only [List.cons_append, joinSp_cons_cons] at this ⊢
      rw [this]; simp

theorem flatten_addSpaces (ts : List Text) : (addSpaces ts).flatten = joinSp ts := by
  induction ts with
  | nil => rfl
  | cons t ts ih =>
    cases ts with
    | nil => simp [addSpaces, joinSp]
    | cons u us =>
      simp only [addSpaces, List.flatten_cons, joinSp_cons_cons] at ih ⊢
      rw [ih]; simp

theorem joinSp_tokensAux (arts : List Text) (pending parts : List Text) :
    joinSp (tokensAux arts pending parts) = joinSp (pending ++ parts) := by
  induction parts generalizing pending with
  | nil => cases pending <;> simp [tokensAux]
  | cons p ps ih =>
    cases pending with
    | nil =>
      simp only [tokensAux, List.nil_append]
      split
      · rw [ih]; rfl
      · cases hps : tokensAux arts [] ps with
        | nil =>
          have := ih []
          rw [hps] at this
          cases ps with
          | nil => rfl
          | cons q qs =>
            -- joinSp [] = [] = joinSp (q :: qs): tokensAux never loses parts, handled via lengths
            exfalso
            have hlen : ∀ (pend parts : List Text), tokensAux arts pend parts = [] → pend = [] ∧ parts = [] := by
              intro pend parts
              induction parts generalizing pend with
              | nil => intro h; cases pend <;> simp_all [tokensAux]
              | cons a as iha =>
                intro h
                cases pend with
                | nil =>
                  simp only [tokensAux] at h
                  split at h
                  · have := iha _ h; simp at this
                  · simp at h
                | cons b bs =>
                  simp only [tokensAux] at h
                  split at h
                  · have := iha _ h; simp at this
                  · simp at h
            have := hlen [] (q :: qs) hps
            simp at this
        | cons t ts =>
          rw [joinSp_cons_cons, ← hps, ih]
          cases ps with
          | nil => simp [tokensAux] at hps
          | cons q qs => rfl
    | cons q qs =>
      simp only [tokensAux]
      split
      · rw [ih]; simp
      · cases hps : tokensAux arts [] ps with
        | nil =>
          cases ps with
          | nil => simp [joinSp]
          | cons a as =>
            exfalso
            have hlen : ∀ (pend parts : List Text), tokensAux arts pend parts = [] → pend = [] ∧ parts = [] := by
              intro pend parts
              induction parts generalizing pend with
              | nil => intro h; cases pend <;> simp_all [tokensAux]
              | cons a as iha =>
                intro h
                cases pend with
                | nil =>
                  simp only [tokensAux] at h
                  split at h
                  · have := iha _ h; simp at this
                  · simp at h
                | cons b bs =>
                  simp only [tokensAux] at h
                  split at h
                  · have := iha _ h; simp at this
                  · simp at h
            have := hlen [] (a :: as) hps
            simp at this
        | cons t ts =>
          rw [joinSp_cons_cons, ← hps, ih]
          cases ps with
          | nil => simp [tokensAux] at hps
          | cons a as =>
            have h1 : (q :: qs ++ p :: a :: as) = (q :: qs ++ [p]) ++ (a :: as) := by simp
            have h2 := joinSp_append (q :: qs ++ [p]) (a :: as) (by simp) (by simp)
            rw [h1, h2]; rfl

theorem flatten_segAux (w : Nat) (acc : Text) (ts : List Text) :
    (segAux w acc.length acc ts).flatten = acc ++ ts.flatten := by
  induction ts generalizing acc with
  | nil =>
    simp only [segAux]
    split
    · simp
    · next h => simp at h; simp [h]
  | cons t ts ih =>
    simp only [segAux]
    split
    · have := ih []
      simp at this
      simp [this]
    · split
      · simp [ih t]
      · have := ih (acc ++ t)
        simp at this
        simp [this]

/-! ## The article rule: token shapes and what a segment is made of -/

/-- Splitting at an explicit separator: the pieces of `a ++ " " ++ b` are those of `a` then those of `b`. -/
theorem splitSp_append_sp (a b : Text) : splitSp (a ++ 32 :: b) = splitSp a ++ splitSp b := by
  induction a with
  | nil => simp [splitSp]
  | cons c cs ih =>
    simp only [List.cons_append, splitSp]
    split
    · rw [ih]; rfl
    · rw [ih]
      cases hs : splitSp cs with
      | nil => exact absurd hs (splitSp_ne_nil cs)
      | cons p ps => rfl

/-- No part contains the separator. -/
theorem splitSp_no_sp (t : Text) : ∀ p ∈ splitSp t, 32 ∉ p := by
  induction t with
  | nil => simp [splitSp]
  | cons c cs ih =>
    simp only [splitSp]
    split
    · intro p hp
      simp only [List.mem_cons] at hp
      rcases hp with h | h
      · subst h; simp
      · exact ih p h
    · next hc =>
      cases hs : splitSp cs with
      | nil => exact absurd hs (splitSp_ne_nil cs)
      | cons q qs =>
        rw [hs] at ih
        intro p hp
        simp only [List.mem_cons] at hp
        rcases hp with h | h
        · subst h
          have := ih q (by simp)
          simp only [List.mem_cons, not_or]
          exact ⟨fun e => hc e.symm, this⟩
        · exact ih p (by simp [h])

theorem splitSp_of_no_sp (p : Text) (h : 32 ∉ p) : splitSp p = [p] := by
  induction p with
  | nil => rfl
  | cons c cs ih =>
    simp only [List.mem_cons, not_or] at h
    simp only [splitSp]
    rw [if_neg (fun e => h.1 e.symm), ih h.2]

theorem splitSp_joinSp (ps : List Text) (hne : ps ≠ []) (h : ∀ p ∈ ps, 32 ∉ p) :
    splitSp (joinSp ps) = ps := by
  induction ps with
  | nil => exact absurd rfl hne
  | cons p ps ih =>
    cases ps with
    | nil => exact splitSp_of_no_sp p (h p (by simp))
    | cons q qs =>
      rw [joinSp_cons_cons, splitSp_append_sp, splitSp_of_no_sp p (h p (by simp)),
        ih (by simp) (fun x hx => h x (by simp [hx]))]
      rfl

/-- The non-empty parts ("words") of a text. -/
def words (s : Text) : List Text := (splitSp s).filter (fun p => p ≠ [])

theorem words_nil : words [] = [] := by simp [words, splitSp]

theorem words_append_sp (a b : Text) : words (a ++ 32 :: b) = words a ++ words b := by
  simp [words, splitSp_append_sp]

theorem words_add_sp (a : Text) : words (a ++ [32]) = words a := by
  rw [words_append_sp, words_nil, List.append_nil]

theorem mem_words {s p : Text} : p ∈ words s ↔ p ∈ splitSp s ∧ p ≠ [] := by
  simp [words]

theorem words_joinSp (ps : List Text) (hne : ps ≠ []) (h : ∀ p ∈ ps, 32 ∉ p) :
    words (joinSp ps) = ps.filter (fun p => p ≠ []) := by
  rw [words, splitSp_joinSp ps hne h]

/-- All tokens of a list but the last carry a trailing space. -/
def SpacedButLast (ts : List Text) : Prop :=
  ∀ l x r, ts = l ++ x :: r → r ≠ [] → ∃ x', x = x' ++ [32]

theorem SpacedButLast.infix {l g r : List Text} (h : SpacedButLast (l ++ g ++ r)) : SpacedButLast g := by
  intro l' x r' hg hr
  subst hg
  exact h (l ++ l') x (r' ++ r) (by simp) (by simp [hr])

theorem spacedButLast_addSpaces (ts : List Text) : SpacedButLast (addSpaces ts) := by
  induction ts with
  | nil => intro l x r h; simp [addSpaces] at h
  | cons t ts ih =>
    cases ts with
    | nil =>
      intro l x r h hr
      simp only [addSpaces] at h
      cases l with
      | nil => simp at h; exact absurd h.2 hr
      | cons a l => simp at h
    | cons u us =>
      intro l x r h hr
      simp only [addSpaces] at h ih
      cases l with
      | nil =>
        simp only [List.nil_append, List.cons.injEq] at h
        exact ⟨t, h.1.symm⟩
      | cons a l =>
        simp only [List.cons_append, List.cons.injEq] at h
        exact ih l x r h.2 hr

theorem words_flatten (g : List Text) (h : SpacedButLast g) :
    words g.flatten = (g.map words).flatten := by
  induction g with
  | nil => simp [words_nil]
  | cons x g ih =>
    cases g with
    | nil => simp
    | cons y r =>
      obtain ⟨x', hx⟩ := h [] x (y :: r) rfl (by simp)
      have ih' := ih (SpacedButLast.infix (l := [x]) (r := []) (by simpa using h))
      subst hx
      simp only [List.flatten_cons, List.map_cons] at ih' ⊢
      rw [List.append_assoc, List.singleton_append, words_append_sp, words_add_sp, ih']

theorem map_words_addSpaces (ts : List Text) : (addSpaces ts).map words = ts.map words := by
  induction ts with
  | nil => rfl
  | cons t ts ih =>
    cases ts with
    | nil => rfl
    | cons u us =>
      simp only [addSpaces, List.map_cons] at ih ⊢
      rw [words_add_sp, ih]

/-- `p` is an article or an empty part (what the gluing loop keeps pending). -/
def ArtOrEmpty (arts : List Text) (p : Text) : Prop := p ∈ arts ∨ p = []

/-- A token that is one part which is not an article (possibly the empty part). -/
def IsWordTok (arts : List Text) (P : Text → Prop) (tok : Text) : Prop := P tok ∧ tok ∉ arts

/-- A token that is an article, further articles / empty parts, and then a real word, joined by spaces. -/
def IsGluedTok (arts : List Text) (P : Text → Prop) (tok : Text) : Prop :=
  ∃ q qs p, tok = joinSp (q :: qs ++ [p]) ∧ q ∈ arts ∧ (∀ x ∈ qs, ArtOrEmpty arts x) ∧ p ∉ arts ∧ p ≠ []
    ∧ ∀ x ∈ q :: qs ++ [p], P x

/-- Generalised token-shape lemma for the loop with a non-empty `pending`. -/
theorem tokensAux_shape_aux (arts : List Text) (P : Text → Prop) (parts pending : List Text)
    (hpend : pending = [] ∨ ∃ q qs, pending = q :: qs ∧ q ∈ arts ∧ ∀ x ∈ qs, ArtOrEmpty arts x)
    (hPpend : ∀ x ∈ pending, P x) (hP : ∀ x ∈ parts, P x) :
    ∃ body trail, tokensAux arts pending parts = body ++ trail
      ∧ (∀ tok ∈ body, IsWordTok arts P tok ∨ IsGluedTok arts P tok)
      ∧ (∀ tok ∈ trail, ArtOrEmpty arts tok ∧ P tok) := by
  induction parts generalizing pending with
  | nil =>
    refine ⟨[], pending, ?_, by simp, ?_⟩
    · cases pending <;> simp [tokensAux]
    · intro tok htok
      refine ⟨?_, hPpend tok htok⟩
      rcases hpend with h | ⟨q, qs, h, hq, hqs⟩
      · subst h; simp at htok
      · subst h
        simp only [List.mem_cons] at htok
        rcases htok with h | h
        · left; rw [h]; exact hq
        · exact hqs tok h
  | cons p ps ih =>
    have hPps : ∀ x ∈ ps, P x := fun x hx => hP x (by simp [hx])
    have hPp : P p := hP p (by simp)
    cases pending with
    | nil =>
      simp only [tokensAux]
      split
      · next hm =>
        exact ih [p] (Or.inr ⟨p, [], rfl, hm, by simp⟩) (by simpa using hPp) hPps
      · next hm =>
        obtain ⟨body, trail, he, hb, ht⟩ := ih [] (Or.inl rfl) (by simp) hPps
        refine ⟨p :: body, trail, by simp [he], ?_, ht⟩
        intro tok htok
        simp only [List.mem_cons] at htok
        rcases htok with h | h
        · left; rw [h]; exact ⟨hPp, hm⟩
        · exact hb tok h
    | cons q qs =>
      rcases hpend with h | ⟨q', qs', h, hq, hqs⟩
      · simp at h
      · simp only [List.cons.injEq] at h
        obtain ⟨h1, h2⟩ := h
        subst h1 h2
        simp only [tokensAux]
        split
        · next hm =>
          refine ih (q :: qs ++ [p]) (Or.inr ⟨q, qs ++ [p], by simp, hq, ?_⟩) ?_ hPps
          · intro x hx
            simp only [List.mem_append, List.mem_singleton] at hx
            rcases hx with h | h
            · exact hqs x h
            · rw [h]; exact hm
          · intro x hx
            simp only [List.cons_append, List.mem_cons, List.mem_append, List.not_mem_nil, or_false] at hx
            rcases hx with h | h | h
            · exact hPpend x (by simp [h])
            · exact hPpend x (by simp [h])
            · rw [h]; exact hPp
        · next hm =>
          simp only [not_or] at hm
          obtain ⟨body, trail, he, hb, ht⟩ := ih [] (Or.inl rfl) (by simp) hPps
          refine ⟨joinSp (q :: qs ++ [p]) :: body, trail, by simp [he], ?_, ht⟩
          intro tok htok
          simp only [List.mem_cons] at htok
          rcases htok with h | h
          · right
            refine ⟨q, qs, p, h, hq, hqs, hm.1, hm.2, ?_⟩
            intro x hx
            simp only [List.cons_append, List.mem_cons, List.mem_append, List.not_mem_nil, or_false] at hx
            rcases hx with h | h | h
            · exact hPpend x (by simp [h])
            · exact hPpend x (by simp [h])
            · rw [h]; exact hPp
          · exact hb tok h

/-- `ws` does not end with an article. -/
def NoArtLast (arts : List Text) (ws : List Text) : Prop := ∀ a, ws.getLast? = some a → a ∉ arts

theorem NoArtLast.flatten {arts : List Text} (L : List (List Text)) (h : ∀ ws ∈ L, NoArtLast arts ws) :
    NoArtLast arts L.flatten := by
  induction L with
  | nil => intro a ha; simp at ha
  | cons ws L ih =>
    intro a ha
    simp only [List.flatten_cons, List.getLast?_append] at ha
    cases hl : L.flatten.getLast? with
    | none =>
      rw [hl] at ha
      exact h ws (by simp) a (by simpa using ha)
    | some b =>
      rw [hl] at ha
      simp at ha
      subst ha
      exact ih (fun ws' hws' => h ws' (by simp [hws'])) b hl

theorem noArtLast_word {arts : List Text} {P : Text → Prop} {tok : Text} (hP : ∀ x, P x → 32 ∉ x)
    (h : IsWordTok arts P tok) : NoArtLast arts (words tok) := by
  intro a ha
  rw [words, splitSp_of_no_sp tok (hP tok h.1)] at ha
  by_cases he : tok = []
  · simp [he] at ha
  · simp [he] at ha
    subst ha; exact h.2

theorem noArtLast_glued {arts : List Text} {P : Text → Prop} {tok : Text} (hP : ∀ x, P x → 32 ∉ x)
    (h : IsGluedTok arts P tok) : NoArtLast arts (words tok) := by
  obtain ⟨q, qs, p, he, _, _, hp, hpne, hall⟩ := h
  intro a ha
  rw [he, words_joinSp _ (by simp) (fun x hx => hP x (hall x hx))] at ha
  have : (q :: qs ++ [p]).filter (fun p => p ≠ []) = (q :: qs).filter (fun p => p ≠ []) ++ [p] := by
    rw [List.filter_append]; simp [hpne]
  rw [this] at ha
  simp at ha
  subst ha; exact hp

theorem words_bare {arts : List Text} {P : Text → Prop} {tok : Text} (hP : ∀ x, P x → 32 ∉ x)
    (h : ArtOrEmpty arts tok ∧ P tok) : ∀ p ∈ words tok, p ∈ arts := by
  intro p hp
  rw [words, splitSp_of_no_sp tok (hP tok h.2)] at hp
  simp at hp
  rcases h.1 with h1 | h1
  · rw [hp.1]; exact h1
  · exact absurd (hp.1 ▸ h1) hp.2

/-! ### What the segments of the re-flow loop are made of -/

/-- Every segment is the concatenation of a contiguous run of tokens. -/
theorem segAux_infix (w : Nat) (n : Nat) (accToks ts : List Text) :
    ∀ x ∈ segAux w n accToks.flatten ts, ∃ l g r, accToks ++ ts = l ++ g ++ r ∧ x = g.flatten := by
  induction ts generalizing n accToks with
  | nil =>
    intro x hx
    simp only [segAux] at hx
    split at hx
    · simp at hx; exact ⟨[], accToks, [], by simp, hx⟩
    · simp at hx
  | cons t ts ih =>
    intro x hx
    simp only [segAux] at hx
    split at hx
    · simp only [List.mem_cons] at hx
      rcases hx with h | h | h
      · exact ⟨[], accToks, t :: ts, by simp, h⟩
      · exact ⟨accToks, [t], ts, by simp, by simp [h]⟩
      · obtain ⟨l, g, r, he, hx⟩ := ih 0 [] x (by simpa using h)
        simp only [List.nil_append] at he
        exact ⟨accToks ++ t :: l, g, r, by simp [he], hx⟩
    · split at hx
      · simp only [List.mem_cons] at hx
        rcases hx with h | h
        · exact ⟨[], accToks, t :: ts, by simp, h⟩
        · obtain ⟨l, g, r, he, hx⟩ := ih t.length [t] x (by simpa using h)
          exact ⟨accToks ++ l, g, r, by simp at he; simp [he], hx⟩
      · obtain ⟨l, g, r, he, hx⟩ := ih (n + t.length) (accToks ++ [t]) x (by simpa using hx)
        exact ⟨l, g, r, by simpa using he, hx⟩

/-- A segment together with everything that follows it: the segment is a run of tokens and every
later segment is a run of later tokens. -/
theorem segAux_split (w : Nat) (n : Nat) (accToks ts pre post : List Text) (s : Text)
    (h : segAux w n accToks.flatten ts = pre ++ s :: post) :
    ∃ T0 T1 T2, accToks ++ ts = T0 ++ T1 ++ T2 ∧ s = T1.flatten
      ∧ ∀ x ∈ post, ∃ l g r, T2 = l ++ g ++ r ∧ x = g.flatten := by
  induction ts generalizing n accToks pre with
  | nil =>
    simp only [segAux] at h
    split at h
    · cases pre with
      | nil =>
        simp only [List.nil_append, List.cons.injEq] at h
        exact ⟨[], accToks, [], by simp, h.1.symm, by simp [← h.2]⟩
      | cons a pre => simp at h
    · simp at h
  | cons t ts ih =>
    simp only [segAux] at h
    split at h
    · -- the token alone is too long
      cases pre with
      | nil =>
        simp only [List.nil_append, List.cons.injEq] at h
        refine ⟨[], accToks, t :: ts, by simp, h.1.symm, ?_⟩
        intro x hx
        rw [← h.2] at hx
        simp only [List.mem_cons] at hx
        rcases hx with hx | hx
        · exact ⟨[], [t], ts, by simp, by simp [hx]⟩
        · obtain ⟨l, g, r, he, hx⟩ := segAux_infix w 0 [] ts x (by simpa using hx)
          simp only [List.nil_append] at he
          exact ⟨t :: l, g, r, by simp [he], hx⟩
      | cons a pre =>
        simp only [List.cons_append, List.cons.injEq] at h
        obtain ⟨_, h⟩ := h
        cases pre with
        | nil =>
          simp only [List.nil_append, List.cons.injEq] at h
          refine ⟨accToks, [t], ts, by simp, by simp [h.1], ?_⟩
          intro x hx
          rw [← h.2] at hx
          obtain ⟨l, g, r, he, hx⟩ := segAux_infix w 0 [] ts x (by simpa using hx)
          exact ⟨l, g, r, by simpa using he, hx⟩
        | cons b pre =>
          simp only [List.cons_append, List.cons.injEq] at h
          obtain ⟨T0, T1, T2, he, hs, hpost⟩ := ih 0 [] pre (by simpa using h.2)
          simp only [List.nil_append] at he
          exact ⟨accToks ++ t :: T0, T1, T2, by simp [he], hs, hpost⟩
    · split at h
      · cases pre with
        | nil =>
          simp only [List.nil_append, List.cons.injEq] at h
          refine ⟨[], accToks, t :: ts, by simp, h.1.symm, ?_⟩
          intro x hx
          rw [← h.2] at hx
          obtain ⟨l, g, r, he, hx⟩ := segAux_infix w t.length [t] ts x (by simpa using hx)
          exact ⟨l, g, r, by simpa using he, hx⟩
        | cons a pre =>
          simp only [List.cons_append, List.cons.injEq] at h
          obtain ⟨T0, T1, T2, he, hs, hpost⟩ := ih t.length [t] pre (by simpa using h.2)
          exact ⟨accToks ++ T0, T1, T2, by simp at he; simp [he], hs, hpost⟩
      · obtain ⟨T0, T1, T2, he, hs, hpost⟩ := ih (n + t.length) (accToks ++ [t]) pre (by simpa using h)
        exact ⟨T0, T1, T2, by simpa using he, hs, hpost⟩

end AasVerif.Wrap
