import AasVerif.Model.Wrap
namespace AasVerif.Wrap

theorem splitSp_ne_nil (t : Text) : splitSp t ≠ [] := by
  induction t with
  | nil => simp [splitSp]
  | cons c cs ih =>
    unfold splitSp
    split
    · simp
    · split <;> simp

theorem joinSp_cons_cons (p q : Text) (ps : List Text) :
    joinSp (p :: q :: ps) = p ++ 32 :: joinSp (q :: ps) := rfl

theorem joinSp_splitSp (t : Text) : joinSp (splitSp t) = t := by
  induction t with
  | nil => rfl
  | cons c cs ih =>
    unfold splitSp
    split
    · next h =>
      subst h
      cases hs : splitSp cs with
      | nil => exact absurd hs (splitSp_ne_nil cs)
      | cons p ps => rw [joinSp_cons_cons, ← hs, ih]; rfl
    · cases hs : splitSp cs with
      | nil => exact absurd hs (splitSp_ne_nil cs)
      | cons p ps =>
        rw [hs] at ih
        cases ps with
        | nil => simp [joinSp] at ih ⊢; exact ih
        | cons q qs =>
          simp only [joinSp_cons_cons] at ih ⊢
          rw [← ih]; rfl

theorem joinSp_append (a b : List Text) (ha : a ≠ []) (hb : b ≠ []) :
    joinSp (a ++ b) = joinSp a ++ 32 :: joinSp b := by
  induction a with
  | nil => exact absurd rfl ha
  | cons p ps ih =>
    cases ps with
    | nil =>
      cases b with
      | nil => exact absurd rfl hb
      | cons q qs => rfl
    | cons p' ps' =>
      have := ih (by simp)
      simp only [List.cons_append, joinSp_cons_cons] at this ⊢
      rw [this]; simp

theorem flatten_addSpaces (ts : List Text) : (addSpaces ts).flatten = joinSp ts := by
  induction ts with
  | nil => rfl
  | cons t ts ih =>
    cases ts with
    | nil => simp [addSpaces, joinSp]
    | cons u us =>
      simp only [addSpaces, List.flatten_cons, joinSp_cons_cons] at ih ⊢
      rw [ih]; simp

theorem joinSp_tokensAux (arts : List Text) (pending parts : List Text) :
    joinSp (tokensAux arts pending parts) = joinSp (pending ++ parts) := by
  induction parts generalizing pending with
  | nil => cases pending <;> simp [tokensAux]
  | cons p ps ih =>
    cases pending with
    | nil =>
      simp only [tokensAux, List.nil_append]
      split
      · rw [ih]; rfl
      · cases hps : tokensAux arts [] ps with
        | nil =>
          have := ih []
          rw [hps] at this
          cases ps with
          | nil => rfl
          | cons q qs =>
            -- joinSp [] = [] = joinSp (q :: qs): tokensAux never loses parts, handled via lengths
            exfalso
            have hlen : ∀ (pend parts : List Text), tokensAux arts pend parts = [] → pend = [] ∧ parts = [] := by
              intro pend parts
              induction parts generalizing pend with
              | nil => intro h; cases pend <;> simp_all [tokensAux]
              | cons a as iha =>
                intro h
                cases pend with
                | nil =>
                  simp only [tokensAux] at h
                  split at h
                  · have := iha _ h; simp at this
                  · simp at h
                | cons b bs =>
                  simp only [tokensAux] at h
                  split at h
                  · have := iha _ h; simp at this
                  · simp at h
            have := hlen [] (q :: qs) hps
            simp at this
        | cons t ts =>
          rw [joinSp_cons_cons, ← hps, ih]
          cases ps with
          | nil => simp [tokensAux] at hps
          | cons q qs => rfl
    | cons q qs =>
      simp only [tokensAux]
      split
      · rw [ih]; simp
      · cases hps : tokensAux arts [] ps with
        | nil =>
          cases ps with
          | nil => simp [joinSp]
          | cons a as =>
            exfalso
            have hlen : ∀ (pend parts : List Text), tokensAux arts pend parts = [] → pend = [] ∧ parts = [] := by
              intro pend parts
              induction parts generalizing pend with
              | nil => intro h; cases pend <;> simp_all [tokensAux]
              | cons a as iha =>
                intro h
                cases pend with
                | nil =>
                  simp only [tokensAux] at h
                  split at h
                  · have := iha _ h; simp at this
                  · simp at h
                | cons b bs =>
                  simp only [tokensAux] at h
                  split at h
                  · have := iha _ h; simp at this
                  · simp at h
            have := hlen [] (a :: as) hps
            simp at this
        | cons t ts =>
          rw [joinSp_cons_cons, ← hps, ih]
          cases ps with
          | nil => simp [tokensAux] at hps
          | cons a as =>
            have h1 : (q :: qs ++ p :: a :: as) = (q :: qs ++ [p]) ++ (a :: as) := by simp
            have h2 := joinSp_append (q :: qs ++ [p]) (a :: as) (by simp) (by simp)
            rw [h1, h2]; rfl

theorem flatten_segAux (w : Nat) (acc : Text) (ts : List Text) :
    (segAux w acc.length acc ts).flatten = acc ++ ts.flatten := by
  induction ts generalizing acc with
  | nil =>
    simp only [segAux]
    split
    · simp
    · next h => simp at h; simp [h]
  | cons t ts ih =>
    simp only [segAux]
    split
    · have := ih []
      simp at this
      simp [this]
    · split
      · simp [ih t]
      · have := ih (acc ++ t)
        simp at this
        simp [this]

end AasVerif.Wrap
