import AasVerif.Lemmas.LexLine
import AasVerif.Gen.Descr
/-!
Line comments of C++ (`///`, with the backslash fix of `cpp/description.py`) and of Python (`#:`):
every line which `documentation_comment` emits is one comment token, whatever the text is.
-/
namespace AasVerif.Lex
open AasVerif.Descr AasVerif.Gen.Descr

/-! ### `splitlines` only redistributes the characters of the text -/

theorem splitLines_mem : ∀ (t : Text), ∀ l ∈ splitLines t, ∀ x ∈ l, x ∈ t := by
  intro t
  induction t using splitLines.induct with
  | case1 => intro l hl; simp [splitLines] at hl
  | case2 rest ih =>
    intro l hl
    simp only [splitLines, List.mem_cons] at hl
    rcases hl with rfl | hl
    · intro x hx; cases hx
    · intro x hx
      exact List.mem_cons_of_mem _ (List.mem_cons_of_mem _ (ih l hl x hx))
  | case3 c rest hnot hbr ih =>
    intro l hl
    rw [splitLines] at hl
    · simp only [hbr, if_true, List.mem_cons] at hl
      rcases hl with rfl | hl
      · intro x hx; cases hx
      · intro x hx; exact List.mem_cons_of_mem _ (ih l hl x hx)
    · exact hnot
  | case4 c rest hnot hbr hnil ih =>
    intro l hl
    rw [splitLines] at hl
    · simp only [hbr, hnil] at hl
      simp only [Bool.false_eq_true, if_false, List.mem_singleton] at hl
      subst hl
      intro x hx
      simp only [List.mem_singleton] at hx
      subst hx
      exact List.mem_cons_self ..
    · exact hnot
  | case5 c rest hnot hbr l0 ls hcons ih =>
    intro l hl
    rw [splitLines] at hl
    · simp only [hbr, hcons] at hl
      simp only [Bool.false_eq_true, if_false, List.mem_cons] at hl
      rcases hl with rfl | hl
      · intro x hx
        rcases List.mem_cons.mp hx with rfl | hx
        · exact List.mem_cons_self ..
        · exact List.mem_cons_of_mem _ (ih l0 (by rw [hcons]; exact List.mem_cons_self ..) x hx)
      · intro x hx
        exact List.mem_cons_of_mem _ (ih l (by rw [hcons]; exact List.mem_cons_of_mem _ hl) x hx)
    · exact hnot

/-! ### C++: `rstrip` and the backslash fix -/

theorem mem_takeWhile_true (p : Nat → Bool) : ∀ (a : Text), ∀ x ∈ a.takeWhile p, p x = true
  | [], x, h => by cases h
  | y :: a, x, h => by
    rw [List.takeWhile_cons] at h
    cases hp : p y with
    | true =>
      rw [hp] at h
      simp only [if_true] at h
      rcases List.mem_cons.mp h with rfl | h'
      · exact hp
      · exact mem_takeWhile_true p a x h'
    | false =>
      rw [hp] at h
      simp at h

/-- `line = line.rstrip(chars) + <trailing characters of chars>` -/
theorem rstripSet_split (chars l : Text) :
    l = rstripSet chars l ++ l.drop (rstripSet chars l).length ∧
    (∀ x ∈ l.drop (rstripSet chars l).length, chars.contains x = true) := by
  have hsplit : l = rstripSet chars l ++ (l.reverse.takeWhile fun c => chars.contains c).reverse := by
    unfold rstripSet
    rw [← List.reverse_append, List.takeWhile_append_dropWhile, List.reverse_reverse]
  have hdrop : l.drop (rstripSet chars l).length
      = (l.reverse.takeWhile fun c => chars.contains c).reverse := by
    have := congrArg (List.drop (rstripSet chars l).length) hsplit
    rw [List.drop_left] at this
    exact this
  rw [hdrop]
  refine ⟨hsplit, ?_⟩
  intro x hx
  have hx' := List.mem_reverse.mp hx
  exact mem_takeWhile_true _ _ x hx'

theorem dropWhile_all (p : Nat → Bool) : ∀ (a b : Text), (∀ x ∈ a, p x = true) →
    (a ++ b).dropWhile p = b.dropWhile p
  | [], _, _ => rfl
  | x :: a, b, h => by
    rw [List.cons_append, List.dropWhile_cons, h x (List.mem_cons_self ..)]
    exact dropWhile_all p a b (fun y hy => h y (List.mem_cons_of_mem _ hy))

theorem dropWhile_congr_mem (p q : Nat → Bool) : ∀ (a : Text), (∀ x ∈ a, p x = q x) →
    a.dropWhile p = a.dropWhile q
  | [], _ => rfl
  | x :: a, h => by
    rw [List.dropWhile_cons, List.dropWhile_cons, h x (List.mem_cons_self ..),
      dropWhile_congr_mem p q a (fun y hy => h y (List.mem_cons_of_mem _ hy))]

/-- The first character after the dropped ones comes from the first part or from the second. -/
theorem head_dropWhile_append (p : Nat → Bool) (k : Nat) : ∀ (a b : Text),
    ((a ++ b).dropWhile p).head? = some k →
    (a.dropWhile p).head? = some k ∨ (b.dropWhile p).head? = some k
  | [], _, h => Or.inr h
  | x :: a, b, h => by
    rw [List.cons_append, List.dropWhile_cons] at h
    rw [List.dropWhile_cons]
    cases hp : p x with
    | true =>
      rw [hp] at h
      simp only [if_true] at h ⊢
      exact head_dropWhile_append p k a b h
    | false =>
      rw [hp] at h
      simp only [Bool.false_eq_true, if_false] at h ⊢
      exact Or.inl h

theorem isPrefixOf_singleton (a : Nat) (x : Text) : [a].isPrefixOf x = (x.head? == some a) := by
  cases x with
  | nil => rfl
  | cons b _ =>
    simp only [List.isPrefixOf, List.head?_cons, Bool.and_true]
    cases h : (a == b) with
    | true => have := beq_iff_eq.mp h; subst this; simp
    | false =>
      have : ¬ a = b := by intro e; subst e; simp at h
      have : ¬ b = a := fun e => this e.symm
      simp [this]

theorem spliceWs_eq_trail (x : Nat) (h : x ≠ 13) : cpp.spliceWs.contains x = cppTrail.contains x := by
  simp only [cpp, cppTrail, List.contains_cons, List.contains_nil, Bool.or_false]
  have : (x == 13) = false := by simpa using h
  rw [this, Bool.or_false]

theorem trail_sub_spliceWs (x : Nat) (h : cppTrail.contains x = true) : cpp.spliceWs.contains x = true := by
  simp only [cpp, cppTrail, List.contains_cons, List.contains_nil, Bool.or_false, Bool.or_eq_true,
    beq_iff_eq] at h ⊢
  omega

/-- The characters of the fixed line are characters of the line or of the replacement. -/
theorem cppFixLine_mem (l : Text) : ∀ x ∈ cppFixLine cppTrail cppRepl l, x ∈ l ∨ x ∈ cppRepl := by
  intro x hx
  unfold cppFixLine at hx
  simp only at hx
  split at hx
  · obtain ⟨hsplit, _⟩ := rstripSet_split cppTrail l
    rcases List.mem_append.mp hx with hx | hx
    · rcases List.mem_append.mp hx with hx | hx
      · left
        rw [hsplit]
        exact List.mem_append_left _ (List.dropLast_subset _ hx)
      · exact Or.inr hx
    · exact Or.inl (List.mem_of_mem_drop hx)
  · exact Or.inl hx

/-- The emitted `/// …` line does not end in a backslash (+ splice white space):
no line splice, the next line stays what it is. -/
theorem cppFixLine_no_splice (l : Text) (h13 : ∀ x ∈ l, x ≠ 13) :
    continues cpp (47 :: 32 :: cppFixLine cppTrail cppRepl l).reverse = false := by
  obtain ⟨hsplit, htail⟩ := rstripSet_split cppTrail l
  cases hc : continues cpp (47 :: 32 :: cppFixLine cppTrail cppRepl l).reverse with
  | false => rfl
  | true =>
    exfalso
    unfold continues at hc
    simp only [cpp, Bool.true_and, beq_iff_eq] at hc
    unfold cppFixLine at hc
    simp only at hc
    split at hc
    · -- the backslash was replaced: the line ends in `;` + white space
      rw [show (47 :: 32 :: (List.dropLast (rstripSet cppTrail l) ++ cppRepl
            ++ List.drop (rstripSet cppTrail l).length l)).reverse
          = (List.drop (rstripSet cppTrail l).length l).reverse
            ++ ([59, 50, 57, 35, 38] ++ ((List.dropLast (rstripSet cppTrail l)).reverse ++ [32, 47])) by
          simp [cppRepl]] at hc
      rw [dropWhile_all _ _ _ (by
        intro x hx
        exact trail_sub_spliceWs x (htail x (List.mem_reverse.mp hx)))] at hc
      simp at hc
    · -- no backslash before the trailing white space
      rename_i hnb
      rw [show (47 :: 32 :: l).reverse = l.reverse ++ [32, 47] by simp] at hc
      rcases head_dropWhile_append _ 92 _ _ hc with h1 | h2
      · have hcongr := dropWhile_congr_mem (fun c => [32, 9, 11, 12, 0, 13].contains c)
          (fun c => cppTrail.contains c) l.reverse (by
            intro x hx
            exact spliceWs_eq_trail x (h13 x (List.mem_reverse.mp hx)))
        rw [hcongr] at h1
        apply hnb
        unfold endsWith
        rw [show ([92] : Text).reverse = [92] from rfl, isPrefixOf_singleton]
        unfold rstripSet
        rw [List.reverse_reverse, h1]
        rfl
      · simp at h2

/-! ### Python `#` comments -/

theorem lexPy_comment_line : ∀ (l acc rest : Text), (∀ x ∈ l, x ≠ 10 ∧ x ≠ 13 ∧ x ≠ 0) →
    lexPy (.comment acc) (l ++ 10 :: rest) = .comment (acc.reverse ++ l) :: .nl :: lexPy .code rest
  | [], acc, rest, _ => by
    rw [List.nil_append, lexPy] <;> simp
  | x :: l', acc, rest, h => by
    obtain ⟨h10, h13, h0⟩ := h x (List.mem_cons_self ..)
    rw [List.cons_append, lexPy]
    · simp only [h10, h13, or_self, if_false]
      rw [lexPy_comment_line l' (x :: acc) rest (fun y hy => h y (List.mem_cons_of_mem _ hy))]
      simp
    · intro he; exact h0 he
    · intro r he; exact absurd he h13

/-- A sequence of `#` lines, each closed by LF. -/
theorem lexPy_lines : ∀ (bodies : List Text) (rest : Text),
    (∀ b ∈ bodies, ∀ x ∈ b, x ≠ 10 ∧ x ≠ 13 ∧ x ≠ 0) →
    lexPy .code ((bodies.map fun b => 35 :: (b ++ [10])).flatten ++ rest)
      = (bodies.flatMap fun b => [.comment b, .nl]) ++ lexPy .code rest
  | [], rest, _ => by simp
  | b :: bs, rest, h => by
    have hb := h b (List.mem_cons_self ..)
    simp only [List.map_cons, List.flatten_cons, List.cons_append, List.append_assoc, List.flatMap_cons]
    rw [lexPy]
    · simp only [show ¬ ((35 : Nat) = 34 ∨ (35 : Nat) = 39) by decide, if_false, if_true]
      have := lexPy_comment_line b [] ((bs.map fun b => 35 :: (b ++ [10])).flatten ++ rest) hb
      simp only [List.reverse_nil, List.nil_append] at this ⊢
      rw [this]
      have ih := lexPy_lines bs rest (fun b' hb' => h b' (List.mem_cons_of_mem _ hb'))
      simpa using ih
    all_goals (intros; simp_all)

/-- Generic form: lines `#` + body(l), joined by LF, followed by LF and `rest`. -/
theorem lexPy_joined (body : Text → Text)
    (hbody : ∀ l, (∀ x ∈ l, PyStr.isBreak x = false ∧ x ≠ 0) → ∀ x ∈ body l, x ≠ 10 ∧ x ≠ 13 ∧ x ≠ 0)
    (t rest : Text) (h0 : ∀ x ∈ t, x ≠ 0) (hne : splitLines t ≠ []) :
    lexPy .code (joinNl ((splitLines t).map fun l => 35 :: body l) ++ 10 :: rest)
      = ((splitLines t).flatMap fun l => [.comment (body l), .nl]) ++ lexPy .code rest := by
  have h1 : joinNl ((splitLines t).map fun l => 35 :: body l) ++ 10 :: rest
      = (((splitLines t).map body).map fun b => 35 :: (b ++ [10])).flatten ++ rest := by
    have := joinNl_snoc ((splitLines t).map fun l => 35 :: body l) (by simpa using hne)
    rw [show (10 :: rest) = [10] ++ rest from rfl, ← List.append_assoc, this]
    simp [List.map_map, Function.comp_def]
  rw [h1, lexPy_lines]
  · simp [List.flatMap_map]
  · intro b hb
    obtain ⟨l, hl, rfl⟩ := List.mem_map.mp hb
    exact hbody l (fun x hx => ⟨splitLines_no_break t l hl x hx, h0 x (splitLines_mem t l hl x hx)⟩)

end AasVerif.Lex
