import AasVerif.Lemmas.JsonSchemaRefs
/-!
C11a at the level of `generate`: the keys and references of the whole `definitions` object.
-/
namespace AasVerif.JsonSchema
open AasVerif AasVerif.Retree

theorem typeDefinitions_spec {inProps : List Text} {t : OurType} {ds : List (Text × Schema)}
    (h : typeDefinitions inProps t = .ok ds) :
    ds.map (·.1) = typeKeys inProps t ∧ ∀ r ∈ refsProps ds, r ∈ typeRefs inProps t := by
  cases t with
  | enum mt vs =>
    simp only [typeDefinitions, Except.ok.injEq] at h
    subst h
    simp [typeKeys]
  | cprim =>
    simp only [typeDefinitions, Except.ok.injEq] at h
    subst h
    simp [typeKeys]
  | cls c => exact classDefinitions_spec h

theorem addDefs_some : ∀ (ds : List (Text × Schema)) (defs defs' : Defs),
    addDefs defs ds = some defs' → defs' = defs ++ ds := by
  intro ds
  induction ds with
  | nil => intro defs defs' h; simp only [addDefs, Option.some.injEq] at h; simp [h]
  | cons d ds ih =>
    intro defs defs' h
    obtain ⟨k, s⟩ := d
    simp only [addDefs] at h
    split at h
    · cases h
    · have := ih _ _ h
      simp [this]

/-- once an error is recorded the outcome is never `ok (_, false)` -/
theorem collect_true_ne (inProps : List Text) : ∀ (ts : List OurType) (acc : Defs) (defs : Defs),
    collect inProps ts acc true ≠ .ok (defs, false) := by
  intro ts
  induction ts with
  | nil => intro acc defs h; simp [collect] at h
  | cons t ts ih2 =>
    intro acc defs h
    simp only [collect] at h
    cases ht2 : typeDefinitions inProps t with
    | error c =>
      simp only [ht2] at h
      split at h
      · exact ih2 _ _ h
      · cases h
    | ok ds2 =>
      simp only [ht2] at h
      cases ha2 : addDefs acc ds2 with
      | none => simp only [ha2] at h; exact ih2 _ _ h
      | some d2 => simp only [ha2] at h; exact ih2 _ _ h

/-- a successful `collect` means every type's definitions were produced -/
theorem collect_all_ok (inProps : List Text) : ∀ (ts : List OurType) (acc : Defs) (dup : Bool) (defs : Defs),
    collect inProps ts acc dup = .ok (defs, false) →
      ∀ t ∈ ts, ∃ ds, typeDefinitions inProps t = .ok ds := by
  intro ts
  induction ts with
  | nil => intro _ _ _ _ t ht; cases ht
  | cons t ts ih =>
    intro acc dup defs h t' ht'
    simp only [collect] at h
    cases htd : typeDefinitions inProps t with
    | error c =>
      simp only [htd] at h
      split at h
      · exact absurd h (collect_true_ne inProps _ _ _)
      · cases h
    | ok ds =>
      simp only [htd] at h
      rcases List.mem_cons.mp ht' with rfl | ht''
      · exact ⟨ds, htd⟩
      · cases ha : addDefs acc ds with
        | none => simp only [ha] at h; exact absurd h (collect_true_ne inProps _ _ _)
        | some a' => simp only [ha] at h; exact ih _ _ _ h t' ht''

theorem collect_spec (inProps : List Text) : ∀ (ts : List OurType) (acc : Defs) (dup : Bool) (defs : Defs),
    collect inProps ts acc dup = .ok (defs, false) →
      defs.map (·.1) = acc.map (·.1) ++ ts.flatMap (typeKeys inProps) ∧
      ∀ r ∈ refsProps defs, r ∈ refsProps acc ∨ r ∈ ts.flatMap (typeRefs inProps) := by
  intro ts
  induction ts with
  | nil =>
    intro acc dup defs h
    simp only [collect, Res.ok.injEq, Prod.mk.injEq] at h
    obtain ⟨rfl, _⟩ := h
    exact ⟨by simp, fun r hr => Or.inl hr⟩
  | cons t ts ih =>
    intro acc dup defs h
    simp only [collect] at h
    cases ht : typeDefinitions inProps t with
    | error c =>
      simp only [ht] at h
      split at h
      · exact absurd h (collect_true_ne inProps _ _ _)
      · cases h
    | ok ds =>
      simp only [ht] at h
      obtain ⟨hk, hr⟩ := typeDefinitions_spec ht
      cases ha : addDefs acc ds with
      | none =>
        simp only [ha] at h
        exact absurd h (collect_true_ne inProps _ _ _)
      | some acc' =>
        simp only [ha] at h
        have hacc := addDefs_some _ _ _ ha
        subst hacc
        obtain ⟨h1, h2⟩ := ih _ _ _ h
        constructor
        · rw [h1]; simp [hk]
        · intro r hr'
          rcases h2 r hr' with h' | h'
          · rw [← refsDefs_eq_refsProps, refsDefs_append, refsDefs_eq_refsProps, refsDefs_eq_refsProps] at h'
            rcases List.mem_append.mp h' with h'' | h''
            · exact Or.inl h''
            · exact Or.inr (by simp only [List.flatMap_cons, List.mem_append]; exact Or.inl (hr r h''))
          · exact Or.inr (by simp only [List.flatMap_cons, List.mem_append]; exact Or.inr h')

/-! ### sorting keeps the elements -/

theorem mem_insertSorted {α : Type} (lt : α → α → Bool) (x y : α) (l : List α) :
    y ∈ insertSorted lt x l ↔ y = x ∨ y ∈ l := by
  induction l with
  | nil => simp [insertSorted]
  | cons z zs ih =>
    simp only [insertSorted]
    split
    · simp
    · simp only [List.mem_cons, ih]
      constructor
      · rintro (h | h | h)
        · exact Or.inr (Or.inl h)
        · exact Or.inl h
        · exact Or.inr (Or.inr h)
      · rintro (h | h | h)
        · exact Or.inr (Or.inl h)
        · exact Or.inl h
        · exact Or.inr (Or.inr h)

theorem mem_sortBy {α : Type} (lt : α → α → Bool) (y : α) (l : List α) : y ∈ sortBy lt l ↔ y ∈ l := by
  unfold sortBy
  induction l with
  | nil => simp
  | cons z zs ih => simp [List.foldr_cons, mem_insertSorted, ih]

theorem hasKey_iff {α : Type} (k : Text) (d : List (Text × α)) : hasKey k d = true ↔ k ∈ d.map (·.1) := by
  unfold hasKey
  induction d with
  | nil => simp [lookup]
  | cons p ps ih =>
    obtain ⟨k', v⟩ := p
    simp only [lookup, List.map_cons, List.mem_cons]
    split
    · rename_i h; simp [h]
    · rename_i h
      rw [ih]
      constructor
      · intro h'; exact Or.inr h'
      · rintro (h' | h')
        · exact absurd h'.symm h
        · exact h'

/-- **C11a.** Every `$ref` in the generated definitions names one of the generated definitions,
for every meta-model whose input is `refsClosed`. -/
theorem generate_refs_resolve (mm : MM) (defs : Defs) (h : generate mm = .ok defs)
    (hwf : refsClosed mm = true) : ∀ r ∈ refsDefs defs, hasKey r defs = true := by
  unfold generate at h
  cases hc : collect (classesInProperties mm) mm.types [] false with
  | crash c => simp [hc] at h
  | err => simp [hc] at h
  | ok p =>
    obtain ⟨d0, dup⟩ := p
    cases dup with
    | true => simp [hc] at h
    | false =>
      simp only [hc, Res.ok.injEq] at h
      obtain ⟨hk, hr⟩ := collect_spec _ _ _ _ _ hc
      simp only [List.map_nil, List.nil_append, refsProps_nil, List.not_mem_nil, false_or] at hk hr
      intro r hrr
      rw [hasKey_iff]
      subst h
      -- membership is insensitive to the final sort
      have hkeys : ∀ k, k ∈ (sortDefs (if hasKey (ascii "ModelType") d0 = true then d0
            else d0 ++ [(ascii "ModelType", Schema.mk [Kw.type JType.string, Kw.enum (modelTypes mm)])])).map (·.1) ↔
          k ∈ (if hasKey (ascii "ModelType") d0 = true then d0
            else d0 ++ [(ascii "ModelType", Schema.mk [Kw.type JType.string, Kw.enum (modelTypes mm)])]).map (·.1) := by
        intro k
        simp only [List.mem_map, sortDefs, mem_sortBy]
      have hrefs : r ∈ refsProps (if hasKey (ascii "ModelType") d0 = true then d0
            else d0 ++ [(ascii "ModelType", Schema.mk [Kw.type JType.string, Kw.enum (modelTypes mm)])]) := by
        rw [refsDefs_eq_refsProps, mem_refsProps] at hrr
        obtain ⟨p, hp, hrp⟩ := hrr
        rw [mem_refsProps]
        exact ⟨p, (mem_sortBy _ _ _).mp hp, hrp⟩
      rw [hkeys]
      have hr0 : r ∈ refsProps d0 := by
        split at hrefs
        · exact hrefs
        · rw [← refsDefs_eq_refsProps, refsDefs_append] at hrefs
          rcases List.mem_append.mp hrefs with h' | h'
          · rwa [refsDefs_eq_refsProps] at h'
          · simp [refsDefs] at h'
      have hall := hr r hr0
      have hin : r ∈ allKeys mm := by
        have := List.all_eq_true.mp hwf r hall
        simpa using this
      simp only [allKeys, List.mem_append, List.mem_singleton] at hin
      split
      · rename_i hmt
        rcases hin with h' | h'
        · rw [hk]; exact h'
        · rw [h']; exact (hasKey_iff _ _).mp hmt
      · rcases hin with h' | h'
        · simp only [List.map_append, List.mem_append]; exact Or.inl (hk ▸ h')
        · simp [h', modelTypeName]

end AasVerif.JsonSchema
