import AasVerif.Model.Snippets
/-! `glob("**/*")` yields every node of the tree exactly once (whatever its order). -/
namespace AasVerif.Snippets

mutual
  /-- All paths at and below one node, depth first. -/
  def allNode (p : List Text) : Node → List Entry
    | .leaf n k b => [⟨p ++ [n], k, b⟩]
    | .dir n ch => ⟨p ++ [n], .dir, []⟩ :: allList (p ++ [n]) ch
  def allList (p : List Text) : List Node → List Entry
    | [] => []
    | nd :: rest => allNode p nd ++ allList p rest
end

/-- The listings of the sub-directories of one visited directory. -/
def subListings (d : List Text × List Node) : List Entry :=
  (subdirs d.1 d.2).flatMap fun s => listing s.1 s.2

/-- Everything the glob yields strictly below the children of `p`. -/
def deep (p : List Text) (ch : List Node) : List Entry :=
  subListings (p, ch) ++ (walkList p ch).flatMap subListings

theorem glob_eq (root : List Node) : glob root = listing [] root ++ deep [] root := by
  unfold glob deep
  simp only [List.flatMap_cons]
  rfl

theorem subListings_cons_dir (p : List Text) (n : Text) (c rest : List Node) :
    subListings (p, Node.dir n c :: rest) = listing (p ++ [n]) c ++ subListings (p, rest) := by
  simp [subListings, subdirs]

theorem subListings_cons_leaf (p : List Text) (n : Text) (k : Kind) (b : List Nat) (rest : List Node) :
    subListings (p, Node.leaf n k b :: rest) = subListings (p, rest) := by
  simp [subListings, subdirs]

mutual
  theorem count_node (e : Entry) (p : List Text) : (nd : Node) →
      List.count e [nd.entry p] + List.count e ((walk p nd).flatMap subListings)
        + (match nd with | .dir n c => List.count e (listing (p ++ [n]) c) | .leaf _ _ _ => 0)
        = List.count e (allNode p nd)
    | .leaf n k b => by simp [walk, allNode, Node.entry]
    | .dir n c => by
      have h := count_list e (p ++ [n]) c
      simp only [deep, List.count_append] at h
      simp only [walk, allNode, Node.entry, List.flatMap_cons, List.count_append, List.count_cons,
        List.count_nil] at h ⊢
      omega
  theorem count_list (e : Entry) (p : List Text) : (ch : List Node) →
      List.count e (listing p ch) + List.count e (deep p ch) = List.count e (allList p ch)
    | [] => by simp [listing, deep, subListings, subdirs, walkList, allList]
    | nd :: rest => by
      have h1 := count_node e p nd
      have h2 := count_list e p rest
      simp only [deep, List.count_append] at h2
      cases nd with
      | leaf n k b =>
        simp only [deep, walkList, allList, listing, List.map_cons, List.flatMap_append, List.count_append,
          List.count_cons, List.count_nil, subListings_cons_leaf] at h1 h2 ⊢
        omega
      | dir n c =>
        simp only [deep, walkList, allList, listing, List.map_cons, List.flatMap_append, List.count_append,
          List.count_cons, List.count_nil, subListings_cons_dir] at h1 h2 ⊢
        omega
end

/-- The glob enumerates exactly the nodes of the tree, each once: it is a permutation of the
depth-first enumeration. -/
theorem glob_perm_all (root : List Node) : (glob root).Perm (allList [] root) := by
  rw [List.perm_iff_count]
  intro e
  rw [glob_eq, List.count_append]
  exact count_list e [] root

end AasVerif.Snippets
