import AasVerif.Lemmas.RulesBasic
/-! Pattern functions: the test on the parsed regex decides `Anchored`. -/
namespace AasVerif.Rules
open AasVerif AasVerif.Retree

theorem isStart_iff (t : Term) : isStart t.value = true ↔ ∃ q, t = Term.mk (.sym .start) q := by
  cases t with
  | mk v q =>
    constructor
    · intro h
      cases v with
      | sym k => cases k <;> simp [isStart, Term.value] at h ⊢
      | group u => simp [isStart, Term.value] at h
      | char c => simp [isStart, Term.value] at h
      | set b r => simp [isStart, Term.value] at h
      | fv i => simp [isStart, Term.value] at h
    · rintro ⟨q', h⟩
      cases h
      simp [isStart, Term.value]

theorem isStop_iff (t : Term) : isStop t.value = true ↔ ∃ q, t = Term.mk (.sym .stop) q := by
  cases t with
  | mk v q =>
    constructor
    · intro h
      cases v with
      | sym k => cases k <;> simp [isStop, Term.value] at h ⊢
      | group u => simp [isStop, Term.value] at h
      | char c => simp [isStop, Term.value] at h
      | set b r => simp [isStop, Term.value] at h
      | fv i => simp [isStop, Term.value] at h
    · rintro ⟨q', h⟩
      cases h
      simp [isStop, Term.value]

/-- The shape test on a non-empty first alternative. -/
theorem anchoredTerms_iff (t : Term) (ts : List Term) :
    (isStart t.value && isStop ((t :: ts).getLast (List.cons_ne_nil t ts)).value) = true ↔
      ∃ mid q1 q2, t :: ts = Term.mk (.sym .start) q1 :: mid ++ [Term.mk (.sym .stop) q2] := by
  rw [Bool.and_eq_true, isStart_iff, isStop_iff]
  constructor
  · rintro ⟨⟨q1, rfl⟩, q2, h2⟩
    cases ts with
    | nil => simp at h2
    | cons t' ts' =>
      refine ⟨(t' :: ts').dropLast, q1, q2, ?_⟩
      have hl : (Term.mk (.sym .start) q1 :: t' :: ts').getLast (List.cons_ne_nil _ _)
          = (t' :: ts').getLast (List.cons_ne_nil _ _) := by simp
      rw [hl] at h2
      rw [← h2, List.cons_append, List.dropLast_concat_getLast]
  · rintro ⟨mid, q1, q2, h⟩
    simp only [List.cons_append, List.cons.injEq] at h
    obtain ⟨ht, hts⟩ := h
    subst ht hts
    refine ⟨⟨q1, rfl⟩, q2, ?_⟩
    rw [List.getLast_cons (by simp)]
    simp

/-- The checker accepts a pattern iff it parses to exactly one alternative of the form `^ … $`. -/
theorem patternError_none_iff (p : Text) : patternError p = none ↔ Anchored p := by
  unfold patternError Anchored
  cases hp : Retree.parse [.str p] with
  | err e => simp
  | crash s => simp
  | ok r =>
    cases r with
    | mk uniates =>
      cases uniates with
      | nil => simp
      | cons u rest =>
        cases u with
        | mk terms =>
          cases terms with
          | nil => simp
          | cons t ts =>
            simp only []
            by_cases hr : rest = []
            · subst hr
              simp only [List.isEmpty_nil, Bool.true_and, ite_eq_left_iff, Bool.not_eq_true, reduceCtorEq,
                imp_false, Bool.not_eq_false, Out.ok.injEq, Union.mk.injEq, List.cons.injEq, Concat.mk.injEq,
                and_true]
              rw [anchoredTerms_iff]
            · have : rest.isEmpty = false := by cases rest <;> simp at hr ⊢
              simp only [this, Bool.false_and, Bool.false_eq_true, if_false, reduceCtorEq, false_iff,
                Out.ok.injEq, Union.mk.injEq, List.cons.injEq, not_exists]
              intro mid q1 q2 h
              exact hr h.2

theorem patternErrors_eq_nil (m : MM) :
    patternErrors m = [] ↔ ∀ f ∈ m.fns, ∀ p, f.pattern = some p → Anchored p := by
  unfold patternErrors
  rw [List.flatMap_eq_nil_iff]
  constructor
  · intro h f hf p hp
    have := h f hf
    rw [hp] at this
    rw [← patternError_none_iff]
    cases he : patternError p with
    | none => rfl
    | some r => simp [he] at this
  · intro h f hf
    cases hp : f.pattern with
    | none => rfl
    | some p =>
      have := (patternError_none_iff p).mpr (h f hf p hp)
      simp [this]

end AasVerif.Rules
