import AasVerif.Model.Revm
/-!
The literal binary search of the generated C++ `CharacterInRanges` (`cppInRanges`) agrees with the
documented semantics (`inRanges`) on sorted, non-overlapping, well-formed ranges.
-/
namespace AasVerif.Revm

/-- Each range is non-empty (`first ≤ last`) and consecutive ranges satisfy `a.last < b.first`. -/
def rangesSortedB : List Range → Bool
  | [] => true
  | [a] => decide (a.first ≤ a.last)
  | a :: b :: rest => decide (a.first ≤ a.last) && decide (a.last < b.first) && rangesSortedB (b :: rest)

def RangesSorted (rs : List Range) : Prop := rangesSortedB rs = true

instance (rs : List Range) : Decidable (RangesSorted rs) := by
  unfold RangesSorted; infer_instance

namespace Search

theorem wf_pairwise : ∀ (rs : List Range), RangesSorted rs →
    (∀ r ∈ rs, r.first ≤ r.last) ∧ rs.Pairwise (fun a b => a.last < b.first)
  | [], _ => by simp
  | [a], h => by
    simp [RangesSorted, rangesSortedB] at h
    simp [h]
  | a :: b :: rest, h => by
    simp only [RangesSorted, rangesSortedB, Bool.and_eq_true, decide_eq_true_eq] at h
    obtain ⟨⟨h1, h2⟩, h3⟩ := h
    have ih := wf_pairwise (b :: rest) h3
    obtain ⟨ihw, ihp⟩ := ih
    refine ⟨?_, ?_⟩
    · intro r hr
      rcases List.mem_cons.mp hr with rfl | hr
      · exact h1
      · exact ihw r hr
    · refine List.pairwise_cons.mpr ⟨?_, ihp⟩
      intro x hx
      rcases List.mem_cons.mp hx with rfl | hx
      · exact h2
      · have hb := (List.pairwise_cons.mp ihp).1 x hx
        have hbw := ihw b (by simp)
        omega

/-- Index form of sortedness. -/
structure IdxSorted (rs : List Range) : Prop where
  wf : ∀ (i : Nat) (h : i < rs.length), rs[i].first ≤ rs[i].last
  lt : ∀ (i j : Nat) (hi : i < j) (hj : j < rs.length), rs[i].last < rs[j].first

theorem idx {rs : List Range} (h : RangesSorted rs) : IdxSorted rs := by
  obtain ⟨hw, hp⟩ := wf_pairwise rs h
  constructor
  · intro i hi
    exact hw _ (List.getElem_mem hi)
  · intro i j hij hj
    exact (List.pairwise_iff_getElem.mp hp) i j (by omega) hj hij

theorem IdxSorted.first_mono {rs : List Range} (h : IdxSorted rs) (i j : Nat) (hij : i ≤ j)
    (hj : j < rs.length) : rs[i].first ≤ rs[j].first := by
  rcases Nat.lt_or_eq_of_le hij with hlt | rfl
  · have := h.lt i j hlt hj
    have := h.wf i (by omega)
    omega
  · exact Nat.le_refl _

/-- Membership of `c` in some range with index in `[b, e)`. -/
def HitIn (rs : List Range) (c b e : Nat) : Prop :=
  ∃ k, b ≤ k ∧ k < e ∧ ∃ r, rs[k]? = some r ∧ r.first ≤ c ∧ c ≤ r.last

theorem scan_iff (rs : List Range) (c b n : Nat) :
    ((List.range n).any fun k =>
        match rs[b + k]? with
        | some r => decide (r.first ≤ c) && decide (c ≤ r.last)
        | none => false) = true ↔ HitIn rs c b (b + n) := by
  simp only [List.any_eq_true, List.mem_range, HitIn]
  constructor
  · rintro ⟨k, hk, hm⟩
    refine ⟨b + k, by omega, by omega, ?_⟩
    cases hr : rs[b + k]? with
    | none => simp [hr] at hm
    | some r =>
      simp only [hr, Bool.and_eq_true, decide_eq_true_eq] at hm
      exact ⟨r, rfl, hm⟩
  · rintro ⟨k, hbk, hke, r, hr, h1, h2⟩
    refine ⟨k - b, by omega, ?_⟩
    have : b + (k - b) = k := by omega
    rw [this, hr]
    simp [h1, h2]

theorem loop_iff {rs : List Range} (hs : IdxSorted rs) (c : Nat) :
    ∀ (fuel b e : Nat), b ≤ e → e ≤ rs.length → e - b + 1 ≤ fuel →
      (cppInRangesLoop rs c fuel b e = true ↔ HitIn rs c b e) := by
  intro fuel
  induction fuel with
  | zero => intro b e _ _ hf; omega
  | succ fuel ih =>
    intro b e hbe hel hf
    unfold cppInRangesLoop
    split
    · next hbe' =>
      subst hbe'
      simp only [HitIn, Bool.false_eq_true, false_iff]
      rintro ⟨k, h1, h2, _⟩
      omega
    · next hne =>
      split
      · next hsmall =>
        have := scan_iff rs c b (e - b)
        have hbe2 : b + (e - b) = e := by omega
        rw [hbe2] at this
        exact this
      · next hbig =>
        have hm1 : b < (b + e) / 2 := by omega
        have hm2 : (b + e) / 2 < e := by omega
        have hml : (b + e) / 2 < rs.length := by omega
        simp only []
        rw [List.getElem?_eq_getElem hml]
        simp only []
        split
        · next hlt =>
          rw [ih b ((b + e) / 2) (by omega) (by omega) (by omega)]
          constructor
          · rintro ⟨k, h1, h2, h3⟩
            exact ⟨k, h1, by omega, h3⟩
          · rintro ⟨k, h1, h2, r, hr, hr1, hr2⟩
            refine ⟨k, h1, ?_, r, hr, hr1, hr2⟩
            apply Classical.byContradiction
            intro hk
            have hkl : k < rs.length := by omega
            rw [List.getElem?_eq_getElem hkl] at hr
            cases hr
            have := hs.first_mono ((b + e) / 2) k (by omega) hkl
            omega
        · next hnlt =>
          split
          · next hgt =>
            rw [ih ((b + e) / 2) e (by omega) hel (by omega)]
            constructor
            · rintro ⟨k, h1, h2, h3⟩
              exact ⟨k, by omega, h2, h3⟩
            · rintro ⟨k, h1, h2, r, hr, hr1, hr2⟩
              refine ⟨k, ?_, h2, r, hr, hr1, hr2⟩
              apply Classical.byContradiction
              intro hk
              have hkl : k < rs.length := by omega
              rw [List.getElem?_eq_getElem hkl] at hr
              cases hr
              have := hs.lt k ((b + e) / 2) (by omega) hml
              have := hs.wf ((b + e) / 2) hml
              omega
          · next hngt =>
            simp only [true_iff]
            exact ⟨(b + e) / 2, by omega, hm2, rs[(b + e) / 2],
              List.getElem?_eq_getElem hml, by omega, by omega⟩

theorem inRanges_iff (rs : List Range) (c : Nat) :
    inRanges rs c = true ↔ HitIn rs c 0 rs.length := by
  simp only [inRanges, List.any_eq_true, Bool.and_eq_true, decide_eq_true_eq, HitIn]
  constructor
  · rintro ⟨r, hr, h1, h2⟩
    obtain ⟨k, hk, rfl⟩ := List.getElem_of_mem hr
    exact ⟨k, Nat.zero_le _, hk, rs[k], List.getElem?_eq_getElem hk, h1, h2⟩
  · rintro ⟨k, _, hk, r, hr, h1, h2⟩
    exact ⟨r, List.mem_of_getElem? hr, h1, h2⟩

end Search

open Search

theorem cppInRanges_eq (rs : List Range) (c : Nat) (h : RangesSorted rs) :
    cppInRanges rs c = inRanges rs c := by
  unfold cppInRanges
  split
  · simp [inRanges]
  · simp [inRanges]
  · rw [Bool.eq_iff_iff, inRanges_iff]
    exact loop_iff (idx h) c (rs.length + 1) 0 rs.length (Nat.zero_le _) (Nat.le_refl _) (by omega)

theorem rangesOk_sorted (rs : List Range) :
    rangesOk rs = true → (∀ r ∈ rs, r.first ≤ r.last) → RangesSorted rs := by
  match rs with
  | [] => intro _ _; rfl
  | [a] =>
    intro _ hw
    simp [RangesSorted, rangesSortedB, hw]
  | a :: b :: rest =>
    intro hok hw
    simp only [rangesOk, Bool.and_eq_true, Bool.not_eq_true', decide_eq_false_iff_not] at hok
    obtain ⟨⟨_, h2⟩, h3⟩ := hok
    have ih := rangesOk_sorted (b :: rest) h3 (fun r hr => hw r (List.mem_cons_of_mem _ hr))
    simp only [RangesSorted, rangesSortedB, Bool.and_eq_true, decide_eq_true_eq]
    exact ⟨⟨hw a (by simp), by omega⟩, ih⟩

#print axioms cppInRanges_eq
#print axioms rangesOk_sorted

end AasVerif.Revm
