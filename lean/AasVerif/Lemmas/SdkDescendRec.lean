import AasVerif.Lemmas.SdkDescendOnce
/-!
`descend`: pre-order of the containment tree, and the equation of the generated code.
-/
namespace AasVerif.SdkDescend
open AasVerif AasVerif.Sdk

/-- on a non-`None` value only the stripped annotation matters -/
theorem descendVal_strip (mm : MM) (t : Ty) (v : Val) (hv : v ≠ .none) :
    descendVal mm t v = descendVal mm (strip t) v := by
  have hs : strip (strip t) = strip t := by
    induction t with
    | opt t ih => simpa [strip] using ih
    | _ => simp [strip]
  cases v with
  | none => exact absurd rfl hv
  | _ => simp [descendVal, hs]

theorem conformsNN_inst {mm : MM} {c d : Name} {fs : Vals}
    (h : conformsNN mm (.cls c) (.inst d fs) = true) :
    ∃ dd, mm.findClass d = some dd ∧ dd.abstract = false ∧ conformsFields mm dd.props fs = true := by
  simp only [conformsNN, Bool.and_eq_true] at h
  cases hd : mm.findClass d with
  | none => simp [hd] at h
  | some dd =>
    refine ⟨dd, rfl, ?_, ?_⟩ <;> simp_all

mutual
  /-- `descendVal` on a conforming non-`None` value is the pre-order of the instances inside it -/
  theorem descendVal_pre_nn (mm : MM) (t : Ty) :
      (v : Val) → conformsNN mm t v = true → descendVal mm t v = .ok (pre v)
    | .none, h => by simp [conformsNN_none] at h
    | .bool b, h => by
      cases t with
      | prim p => simp [descendVal, strip, pre]
      | _ => simp [conformsNN] at h
    | .int i, h => by
      cases t with
      | prim p => simp [descendVal, strip, pre]
      | _ => simp [conformsNN] at h
    | .float r, h => by
      cases t with
      | prim p => simp [descendVal, strip, pre]
      | _ => simp [conformsNN] at h
    | .str s, h => by
      cases t with
      | prim p => simp [descendVal, strip, pre]
      | _ => simp [conformsNN] at h
    | .bytes bs, h => by
      cases t with
      | prim p => simp [descendVal, strip, pre]
      | _ => simp [conformsNN] at h
    | .enum e l, h => by
      cases t with
      | enum e' => simp [descendVal, strip, pre]
      | prim p => cases p <;> simp [conformsNN] at h
      | _ => simp [conformsNN] at h
    | .list vs, h => by
      cases t with
      | list t =>
        have hall : conformsAll mm t vs = true := by simpa [conformsNN] using h
        simp only [descendVal, strip, pre]
        cases hd : descendable t
        · have := (nothing_inside_of_not_descendable mm (.list t) (.list vs)
            (by simpa [descendable] using hd) h).1
          simp [pre] at this
          simp [this]
        · simp only [if_true]
          exact descendItems_pre mm t vs hall
      | prim p => cases p <;> simp [conformsNN] at h
      | _ => simp [conformsNN] at h
    | .inst d fs, h => by
      cases t with
      | cls c =>
        obtain ⟨dd, hf, ha, hfs⟩ := conformsNN_inst h
        have := descendFields_pre mm fs dd.props hfs
        simp [descendVal, strip, pre, hf, ha, this, bind, Except.bind, pure, Except.pure]
      | prim p => cases p <;> simp [conformsNN] at h
      | _ => simp [conformsNN] at h
  theorem descendFields_pre (mm : MM) :
      (fs : Vals) → (ps : List PropDecl) → conformsFields mm ps fs = true →
        descendFields mm ps fs = .ok (preAll fs)
    | .nil, ps, h => by
      cases ps with
      | nil => simp [descendFields, preAll]
      | cons p ps => simp [conformsFields] at h
    | .cons f fs, ps, h => by
      cases ps with
      | nil => simp [conformsFields] at h
      | cons p ps =>
        simp only [conformsFields, Bool.and_eq_true] at h
        have h2 := descendFields_pre mm fs ps h.2
        have h1 : descendVal mm p.ty f = .ok (pre f) := by
          by_cases hv : f = .none
          · subst hv
            have := conforms_none_isOpt h.1
            simp [descendVal, this, pre]
          · rw [descendVal_strip mm p.ty f hv]
            exact descendVal_pre_nn mm (strip p.ty) f (conformsNN_strip h.1 hv)
        simp [descendFields, preAll, h1, h2, bind, Except.bind, pure, Except.pure]
  theorem descendItems_pre (mm : MM) (t : Ty) :
      (vs : Vals) → conformsAll mm t vs = true → descendItems mm t vs = .ok (preAll vs)
    | .nil, _ => by simp [descendItems, preAll]
    | .cons v vs, h => by
      simp only [conformsAll, Bool.and_eq_true] at h
      have h1 := descendVal_pre_nn mm t v h.1
      have h2 := descendItems_pre mm t vs h.2
      simp [descendItems, preAll, h1, h2, bind, Except.bind, pure, Except.pure]
end

theorem descendVal_pre (mm : MM) (t : Ty) (v : Val) (h : conforms mm t v = true) :
    descendVal mm t v = .ok (pre v) := by
  by_cases hv : v = .none
  · subst hv
    simp [descendVal, conforms_none_isOpt h, pre]
  · rw [descendVal_strip mm t v hv]
    exact descendVal_pre_nn mm (strip t) v (conformsNN_strip h hv)

end AasVerif.SdkDescend
