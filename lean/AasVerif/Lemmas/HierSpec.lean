import AasVerif.Lemmas.HierAnc
/-!
The hypotheses of the C05 theorems (unique names, existing parents, a topological order
exists) and what they give for the lookup functions; ancestors/descendants of the
intermediate classes for any topological order of the classes.
-/
namespace AasVerif.Hier

/-- no two classes share a name -/
def UniqueNames (cs : List ParsedClass) : Prop := (names cs).Nodup

/-- every name in a `class X(P, …)` list is a declared class -/
def ParentsExist (cs : List ParsedClass) : Prop := parentsExist cs = true

/-- `order` lists every class once, parents before children -/
structure IsTopoOrder (cs : List ParsedClass) (order : List Name) : Prop where
  perm : order.Perm (names cs)
  sorted : TopoSorted (parentsOf cs) order

/-- the inheritance graph has no cycle: some topological order exists -/
def Acyclic (cs : List ParsedClass) : Prop := ∃ order, IsTopoOrder cs order

instance (cs : List ParsedClass) : Decidable (UniqueNames cs) := by unfold UniqueNames; infer_instance
instance (cs : List ParsedClass) : Decidable (ParentsExist cs) := by unfold ParentsExist; infer_instance

theorem find?_some_iff {cs : List ParsedClass} {n : Name} {c : ParsedClass} (h : find? cs n = some c) :
    c ∈ cs ∧ c.name = n := by
  unfold find? at h
  have h1 := List.mem_of_find?_eq_some h
  have h2 := List.find?_some h
  exact ⟨h1, by simpa using h2⟩

theorem find?_of_mem {cs : List ParsedClass} (hu : UniqueNames cs) {c : ParsedClass} (hc : c ∈ cs) :
    find? cs c.name = some c := by
  unfold UniqueNames names at hu
  unfold find?
  induction cs with
  | nil => simp at hc
  | cons x xs ih =>
    simp only [List.map_cons, List.nodup_cons] at hu
    simp only [List.find?_cons]
    by_cases hx : x.name = c.name
    · simp only [hx, decide_true]
      rcases List.mem_cons.mp hc with rfl | h
      · rfl
      · exfalso
        apply hu.1
        rw [hx]
        exact List.mem_map.mpr ⟨c, h, rfl⟩
    · simp only [hx, decide_false]
      rcases List.mem_cons.mp hc with rfl | h
      · exact absurd rfl hx
      · exact ih hu.2 h

theorem mem_names_of_find? {cs : List ParsedClass} {n : Name} {c : ParsedClass} (h : find? cs n = some c) :
    n ∈ names cs := by
  obtain ⟨h1, h2⟩ := find?_some_iff h
  exact List.mem_map.mpr ⟨c, h1, h2⟩

theorem find?_isSome_of_mem_names {cs : List ParsedClass} {n : Name} (h : n ∈ names cs) :
    ∃ c, find? cs n = some c := by
  unfold names at h
  obtain ⟨c, hc, rfl⟩ := List.mem_map.mp h
  unfold find?
  cases hf : cs.find? (fun x => decide (x.name = c.name)) with
  | some d => exact ⟨d, rfl⟩
  | none =>
    have := List.find?_eq_none.mp hf c hc
    simp at this

theorem parentsOf_of_find? {cs : List ParsedClass} {n : Name} {c : ParsedClass} (h : find? cs n = some c) :
    parentsOf cs n = c.parents := by
  unfold parentsOf; rw [h]

theorem mem_names_of_parent {cs : List ParsedClass} {c p : Name} (h : p ∈ parentsOf cs c) : c ∈ names cs := by
  unfold parentsOf at h
  split at h
  · next cl hf => exact mem_names_of_find? hf
  · simp at h

theorem parent_mem_names {cs : List ParsedClass} (hp : ParentsExist cs) {c p : Name} (h : p ∈ parentsOf cs c) :
    p ∈ names cs := by
  unfold parentsOf at h
  split at h
  · next cl hf =>
    obtain ⟨hcl, _⟩ := find?_some_iff hf
    unfold ParentsExist parentsExist at hp
    have := (List.all_eq_true.mp hp) cl hcl
    have := (List.all_eq_true.mp this) p h
    cases hf2 : find? cs p with
    | some d => exact mem_names_of_find? hf2
    | none => simp [hf2] at this
  · simp at h

theorem IsTopoOrder.nodup {cs : List ParsedClass} {order : List Name} (ho : IsTopoOrder cs order)
    (hu : UniqueNames cs) : order.Nodup := ho.perm.nodup_iff.mpr hu

theorem IsTopoOrder.mem {cs : List ParsedClass} {order : List Name} (ho : IsTopoOrder cs order) {n : Name} :
    n ∈ order ↔ n ∈ names cs := ho.perm.mem_iff

theorem IsTopoOrder.covers {cs : List ParsedClass} {order : List Name} (ho : IsTopoOrder cs order)
    (hp : ParentsExist cs) : Covers (parentsOf cs) order := by
  intro c p h
  exact ⟨ho.mem.mpr (mem_names_of_parent h), ho.mem.mpr (parent_mem_names hp h)⟩

/-! ## ancestors and descendants of the intermediate classes -/

section
variable {cs : List ParsedClass} {order : List Name}

theorem descendantsOf_eq (c : Name) :
    descendantsOf cs order c =
      if c ∈ names cs then irDesc (ontDesc (ontAnc (parentsOf cs) order) order) c else [] := by
  unfold descendantsOf
  rw [get_map_table]
  rfl

theorem nodup_descendantsOf (c : Name) : (descendantsOf cs order c).Nodup := by
  rw [descendantsOf_eq]
  split
  · exact nodup_irDesc _ _
  · exact List.nodup_nil

theorem mem_descendantsOf (hu : UniqueNames cs) (hp : ParentsExist cs) (ho : IsTopoOrder cs order) {a d : Name} :
    d ∈ descendantsOf cs order a ↔ Relation.TransGen (ParentRel (parentsOf cs)) a d := by
  rw [descendantsOf_eq]
  constructor
  · intro h
    split at h
    · rw [mem_irDesc, mem_ontDesc] at h
      exact (mem_ontAnc_iff_transGen (ho.nodup hu) ho.sorted (ho.covers hp) h.1).mp h.2
    · simp at h
  · intro h
    have hm := transGen_mem_order (ho.covers hp) h
    rw [if_pos (ho.mem.mp hm.1), mem_irDesc, mem_ontDesc]
    exact ⟨hm.2, (mem_ontAnc_iff_transGen (ho.nodup hu) ho.sorted (ho.covers hp) hm.2).mpr h⟩

theorem mem_ancestorsOf (hu : UniqueNames cs) (hp : ParentsExist cs) (ho : IsTopoOrder cs order) {a c : Name} :
    a ∈ ancestorsOf cs order c ↔ Relation.TransGen (ParentRel (parentsOf cs)) a c := by
  unfold ancestorsOf
  rw [mem_irAnc nodup_descendantsOf, mem_descendantsOf hu hp ho]
  constructor
  · exact fun h => h.2
  · intro h
    exact ⟨ho.mem.mp (transGen_mem_order (ho.covers hp) h).1, h⟩

theorem nodup_ancestorsOf (hu : UniqueNames cs) (c : Name) : (ancestorsOf cs order c).Nodup :=
  nodup_irAnc hu nodup_descendantsOf c

end

end AasVerif.Hier
