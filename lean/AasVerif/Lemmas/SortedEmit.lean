import AasVerif.Model.SortedEmit
/-!
Lemmas about the order on `Text`, the stable insertion sort and the bucket
classification of `Model/SortedEmit.lean` (core Lean only).
-/
namespace AasVerif.SortedEmit
open List

/-! ### `tle` is a total order on `Text` -/

theorem tle_refl : ∀ a : Text, tle a a = true
  | [] => rfl
  | a :: as => by simp [tle, tle_refl as]

theorem tle_total : ∀ a b : Text, (tle a b || tle b a) = true
  | [], _ => by simp [tle]
  | _ :: _, [] => by simp [tle]
  | a :: as, b :: bs => by
    have ih := tle_total as bs
    simp only [tle, Bool.or_eq_true, Bool.and_eq_true, decide_eq_true_eq, beq_iff_eq] at ih ⊢
    rcases Nat.lt_trichotomy a b with h | h | h
    · exact Or.inl (Or.inl h)
    · subst h
      rcases ih with h | h
      · exact Or.inl (Or.inr ⟨rfl, h⟩)
      · exact Or.inr (Or.inr ⟨rfl, h⟩)
    · exact Or.inr (Or.inl h)

theorem tle_trans : ∀ a b c : Text, tle a b = true → tle b c = true → tle a c = true
  | [], _, _, _, _ => by simp [tle]
  | _ :: _, [], _, h, _ => by simp [tle] at h
  | _ :: _, _ :: _, [], _, h => by simp [tle] at h
  | a :: as, b :: bs, c :: cs, h₁, h₂ => by
    simp only [tle, Bool.or_eq_true, Bool.and_eq_true, decide_eq_true_eq, beq_iff_eq] at h₁ h₂ ⊢
    rcases h₁ with h₁ | ⟨rfl, h₁⟩
    · rcases h₂ with h₂ | ⟨rfl, _⟩
      · exact Or.inl (Nat.lt_trans h₁ h₂)
      · exact Or.inl h₁
    · rcases h₂ with h₂ | ⟨rfl, h₂⟩
      · exact Or.inl h₂
      · exact Or.inr ⟨rfl, tle_trans as bs cs h₁ h₂⟩

theorem tle_antisymm : ∀ a b : Text, tle a b = true → tle b a = true → a = b
  | [], [], _, _ => rfl
  | [], _ :: _, _, h => by simp [tle] at h
  | _ :: _, [], h, _ => by simp [tle] at h
  | a :: as, b :: bs, h₁, h₂ => by
    simp only [tle, Bool.or_eq_true, Bool.and_eq_true, decide_eq_true_eq, beq_iff_eq] at h₁ h₂
    rcases h₁ with h₁ | ⟨rfl, h₁⟩
    · rcases h₂ with h₂ | ⟨rfl, _⟩
      · exact absurd h₁ (Nat.lt_asymm h₂)
      · exact absurd h₁ (Nat.lt_irrefl _)
    · rcases h₂ with h₂ | ⟨_, h₂⟩
      · exact absurd h₂ (Nat.lt_irrefl _)
      · rw [tle_antisymm as bs h₁ h₂]

/-! ### the stable insertion sort -/

variable {α : Type}

theorem ins_perm (le : α → α → Bool) (x : α) : ∀ l : List α, (ins le x l).Perm (x :: l)
  | [] => Perm.refl _
  | y :: ys => by
    simp only [ins]
    split
    · exact Perm.refl _
    · exact ((ins_perm le x ys).cons y).trans (Perm.swap x y ys)

theorem isort_perm (le : α → α → Bool) : ∀ l : List α, (isort le l).Perm l
  | [] => Perm.refl _
  | x :: xs => (ins_perm le x _).trans ((isort_perm le xs).cons x)

theorem mem_ins (le : α → α → Bool) (x a : α) (l : List α) : a ∈ ins le x l ↔ a = x ∨ a ∈ l := by
  rw [(ins_perm le x l).mem_iff, mem_cons]

theorem ins_pairwise (le : α → α → Bool)
    (trans : ∀ a b c, le a b = true → le b c = true → le a c = true)
    (total : ∀ a b, (le a b || le b a) = true) (x : α) :
    ∀ l : List α, l.Pairwise (fun a b => le a b = true) →
      (ins le x l).Pairwise (fun a b => le a b = true)
  | [], _ => by simp [ins]
  | y :: ys, h => by
    simp only [ins]
    split
    · next hxy =>
      refine pairwise_cons.2 ⟨?_, h⟩
      intro b hb
      rcases mem_cons.1 hb with rfl | hb
      · exact hxy
      · exact trans x y b hxy (rel_of_pairwise_cons h hb)
    · next hxy =>
      have hyx : le y x = true := by
        have := total x y
        simp only [Bool.or_eq_true] at this
        rcases this with h' | h'
        · exact absurd h' hxy
        · exact h'
      refine pairwise_cons.2 ⟨?_, ins_pairwise le trans total x ys h.of_cons⟩
      intro b hb
      rcases (mem_ins le x b ys).1 hb with rfl | hb
      · exact hyx
      · exact rel_of_pairwise_cons h hb

theorem isort_pairwise (le : α → α → Bool)
    (trans : ∀ a b c, le a b = true → le b c = true → le a c = true)
    (total : ∀ a b, (le a b || le b a) = true) :
    ∀ l : List α, (isort le l).Pairwise (fun a b => le a b = true)
  | [] => Pairwise.nil
  | x :: xs => ins_pairwise le trans total x _ (isort_pairwise le trans total xs)

/-- Two permutations of each other sort to the same list when `le` is antisymmetric
on the members. -/
theorem isort_eq_of_perm (le : α → α → Bool)
    (trans : ∀ a b c, le a b = true → le b c = true → le a c = true)
    (total : ∀ a b, (le a b || le b a) = true)
    {l l' : List α} (h : l.Perm l')
    (anti : ∀ a b, a ∈ l → b ∈ l → le a b = true → le b a = true → a = b) :
    isort le l = isort le l' := by
  apply Perm.eq_of_pairwise (le := fun a b => le a b = true)
  · intro a b ha hb
    exact anti a b ((isort_perm le l).mem_iff.1 ha)
      (h.mem_iff.2 ((isort_perm le l').mem_iff.1 hb))
  · exact isort_pairwise le trans total l
  · exact isort_pairwise le trans total l'
  · exact (isort_perm le l).trans (h.trans (isort_perm le l').symm)

/-- Stability, insertion step: the elements skipped by `ins` are strictly smaller than `x`,
hence are not ties of `x`. -/
theorem filter_ins (le : α → α → Bool) (p : α → Bool) (x : α)
    (hp : ∀ y, p x = true → p y = true → le x y = true) :
    ∀ l : List α, (ins le x l).filter p = (x :: l).filter p
  | [] => rfl
  | y :: ys => by
    simp only [ins]
    split
    · rfl
    · next hxy =>
      have ih := filter_ins le p x hp ys
      by_cases hx : p x = true
      · have hy : p y = false := by
          cases hpy : p y
          · rfl
          · exact absurd (hp y hx hpy) hxy
        simp only [filter_cons, hy, hx] at ih ⊢
        simpa using ih
      · simp only [Bool.not_eq_true] at hx
        simp only [filter_cons, hx] at ih ⊢
        simp only [ih, Bool.false_eq_true, ↓reduceIte]

theorem filter_isort (le : α → α → Bool) (p : α → Bool)
    (hp : ∀ x y, p x = true → p y = true → le x y = true) :
    ∀ l : List α, (isort le l).filter p = l.filter p
  | [] => rfl
  | x :: xs => by
    simp only [isort]
    rw [filter_ins le p x (hp x), filter_cons, filter_cons, filter_isort le p hp xs]

/-! ### keys -/

theorem key_inj_of_nodup (key : α → Text) :
    ∀ {l : List α}, (l.map key).Nodup → ∀ a b, a ∈ l → b ∈ l → key a = key b → a = b
  | [], _, _, _, h, _, _ => by simp at h
  | x :: xs, hn, a, b, ha, hb, hk => by
    simp only [map_cons, nodup_cons, mem_map, not_exists, not_and] at hn
    rcases mem_cons.1 ha with rfl | ha' <;> rcases mem_cons.1 hb with rfl | hb'
    · rfl
    · exact absurd hk.symm (hn.1 b hb')
    · exact absurd hk (hn.1 a ha')
    · exact key_inj_of_nodup key hn.2 a b ha' hb' hk

theorem sortBy_perm (key : α → Text) (l : List α) : (sortBy key l).Perm l :=
  isort_perm _ l

theorem sortBy_pairwise (key : α → Text) (l : List α) :
    (sortBy key l).Pairwise (fun a b => tle (key a) (key b) = true) :=
  isort_pairwise _ (fun a b c => tle_trans (key a) (key b) (key c))
    (fun a b => tle_total (key a) (key b)) l

/-! ### the bucket loop -/

theorem classify_perm : ∀ l : List Elt,
    ((classify l).groups ++ (classify l).simpleTypes ++ (classify l).complexTypes
      ++ (classify l).elements ++ (classify l).miscellaneous).Perm l
  | [] => Perm.refl _
  | e :: es => by
    have ih := classify_perm es
    simp only [classify]
    split
    · simpa using ih
    · split
      · simp only [append_assoc] at ih ⊢
        exact perm_middle.trans (ih.cons e)
      · split
        · simp only [append_assoc] at ih ⊢
          exact (perm_middle.append_left _).trans (perm_middle.trans (ih.cons e))
        · split
          · simp only [append_assoc] at ih ⊢
            exact ((perm_middle.append_left _).append_left _).trans
              ((perm_middle.append_left _).trans (perm_middle.trans (ih.cons e)))
          · simp only [append_assoc] at ih ⊢
            exact (((perm_middle.append_left _).append_left _).append_left _).trans
              (((perm_middle.append_left _).append_left _).trans
                ((perm_middle.append_left _).trans (perm_middle.trans (ih.cons e))))

/-- Index of the list a child is appended to (0 groups, 1 simple types, 2 complex types,
3 miscellaneous, 4 elements). -/
def bucketIdx (e : Elt) : Nat :=
  if e.tag = xsGroup then 0 else if e.tag = xsSimpleType then 1
  else if e.tag = xsComplexType then 2 else if e.tag = xsElement then 4 else 3

theorem tags_distinct :
    xsSimpleType ≠ xsGroup ∧ xsComplexType ≠ xsGroup ∧ xsComplexType ≠ xsSimpleType ∧
    xsElement ≠ xsGroup ∧ xsElement ≠ xsSimpleType ∧ xsElement ≠ xsComplexType := by decide

/-- Each of the five lists is a filter of the root (document order kept). -/
theorem classify_eq_filter : ∀ l : List Elt,
    classify l =
      ⟨l.filter (fun e => bucketIdx e == 0), l.filter (fun e => bucketIdx e == 1),
       l.filter (fun e => bucketIdx e == 2), l.filter (fun e => bucketIdx e == 3),
       l.filter (fun e => bucketIdx e == 4)⟩
  | [] => rfl
  | e :: es => by
    obtain ⟨d1, d2, d3, d4, d5, d6⟩ := tags_distinct
    rw [classify, classify_eq_filter es]
    by_cases h1 : e.tag = xsGroup
    · simp [bucketIdx, h1]
    · by_cases h2 : e.tag = xsSimpleType
      · simp [bucketIdx, h2, d1]
      · by_cases h3 : e.tag = xsComplexType
        · simp [bucketIdx, h3, d2, d3]
        · by_cases h4 : e.tag = xsElement
          · simp [bucketIdx, h4, d4, d5, d6]
          · simp [bucketIdx, h1, h2, h3, h4]

/-! ### dict lookups -/

theorem lookup_of_mem {V : Type} : ∀ (m : Dict V) (k : Text), k ∈ m.map Prod.fst →
    ∃ v, m.lookup k = some v
  | [], _, h => by simp at h
  | (k', v') :: m, k, h => by
    by_cases hk : k = k'
    · subst hk; exact ⟨v', by simp [List.lookup]⟩
    · have hk' : (k == k') = false := by simpa using hk
      simp only [map_cons, mem_cons] at h
      rcases h with h | h
      · exact absurd h hk
      · obtain ⟨v, hv⟩ := lookup_of_mem m k h
        exact ⟨v, by simp [List.lookup, hk', hv]⟩

theorem mapM_lookup_some {V : Type} (m : Dict V) : ∀ ks : List Text,
    (∀ k ∈ ks, k ∈ m.map Prod.fst) →
    ∃ d, ks.mapM (fun k => (m.lookup k).map (fun v => (k, v))) = some d ∧ d.map Prod.fst = ks
  | [], _ => ⟨[], by simp⟩
  | k :: ks, h => by
    obtain ⟨v, hv⟩ := lookup_of_mem m k (h k mem_cons_self)
    obtain ⟨d, hd, hdk⟩ := mapM_lookup_some m ks (fun k' hk' => h k' (mem_cons_of_mem _ hk'))
    exact ⟨(k, v) :: d, by simp [List.mapM_cons, hv, hd], by simp [hdk]⟩

theorem lookup_perm {V : Type} {m m' : Dict V} (h : m.Perm m') (hn : (m.map Prod.fst).Nodup)
    (k : Text) : m.lookup k = m'.lookup k := by
  induction h with
  | nil => rfl
  | cons x _ ih =>
    obtain ⟨k', v'⟩ := x
    simp only [map_cons, nodup_cons] at hn
    simp only [List.lookup]
    split
    · rfl
    · exact ih hn.2
  | swap x y l =>
    obtain ⟨kx, vx⟩ := x
    obtain ⟨ky, vy⟩ := y
    simp only [map_cons, nodup_cons, mem_cons, not_or] at hn
    by_cases h1 : k = kx
    · by_cases h2 : k = ky
      · exact absurd (h2.symm.trans h1) hn.1.1
      · have h2' : (k == ky) = false := by simpa using h2
        subst h1
        simp [List.lookup, h2']
    · have h1' : (k == kx) = false := by simpa using h1
      by_cases h2 : k = ky
      · subst h2
        simp [List.lookup, h1']
      · have h2' : (k == ky) = false := by simpa using h2
        simp [List.lookup, h1', h2']
  | trans h₁ _ ih₁ ih₂ =>
    rw [ih₁ hn, ih₂ ((h₁.map Prod.fst).nodup_iff.1 hn)]

end AasVerif.SortedEmit
