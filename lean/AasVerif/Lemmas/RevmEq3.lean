import AasVerif.Lemmas.RevmEq2
/-!
Label resolution for `transformQuantified` (the four shapes of `transform_term`).
-/
namespace AasVerif.Revm
open AasVerif.Retree

/-- `l1: split l2, final; l2: <body>; jump l1; final:` -/
theorem star_frag {ls : List Leaf} {n n1 : Nat} {code sz} (hF : Frag ls (InRange (n + 3) n1) code sz)
    (hle : n + 3 ≤ n1) :
    Frag ([⟨.split (n + 1) (n + 2), some n⟩, ⟨.noop, some (n + 1)⟩] ++ ls ++
        [⟨.jump n, none⟩, ⟨.noop, some (n + 2)⟩]) (InRange n n1)
      (fun base => .split (base + 1) (base + sz + 2) :: (code (base + 1) ++ [.jump base])) (sz + 2) := by
  have hnot : ∀ l, l < n + 3 → l ∉ labelsOf ls := fun l hl h => by
    have := hF.labs _ h; unfold InRange at this; omega
  have c1 := hF.count
  refine ⟨?_, ?_, ?_, ?_⟩
  · intro l hl
    simp [labelsOf] at hl
    rcases hl with h | h | h | h
    · subst h; unfold InRange; omega
    · subst h; unfold InRange; omega
    · have := hF.labs l h; unfold InRange at *; omega
    · subst h; unfold InRange; omega
  · intro x hx
    simp [targetsOf, Instr.targets] at hx
    simp [labelsOf]
    rcases hx with h | h | h | h
    · subst h; simp
    · subst h; simp
    · have := hF.closed x h; simp [this]
    · subst h; simp
  · simp [countReal_cons, Leaf.real, Instr.isNoop, c1]; omega
  · intro base ρ hg
    have h0 : ρ n = base := by
      rw [hg n (by simp [labelsOf])]; simp [pos]
    have h1 : ρ (n + 1) = base + 1 := by
      rw [hg (n + 1) (by simp [labelsOf])]; simp [pos, Leaf.real, Instr.isNoop]
    have h2 : ρ (n + 2) = base + sz + 2 := by
      rw [hg (n + 2) (by simp [labelsOf])]
      rw [pos_append, if_neg (by simp [labelsOf, hnot (n + 2) (by omega)])]
      simp [pos, countReal_cons, Leaf.real, Instr.isNoop, c1]; omega
    have hg1 : Good ρ (base + 1) ls := by
      have := hg.mid' (pre := [⟨.split (n + 1) (n + 2), some n⟩, ⟨.noop, some (n + 1)⟩]) (mid := ls)
        (post := [⟨.jump n, none⟩, ⟨.noop, some (n + 2)⟩]) rfl (by
          intro l hl
          have := hF.labs l hl
          unfold InRange at this
          simp [labelsOf]; omega)
      simpa [countReal_cons, Leaf.real, Instr.isNoop] using this
    rw [strip_append, strip_append, hF.code _ ρ hg1]
    simp [strip, Leaf.real, Instr.isNoop, Instr.mapT, h0, h1, h2]

/-- `l1: <body>; split l1, final; final:` -/
theorem plus_frag {ls : List Leaf} {m n2 : Nat} {code sz} (hF : Frag ls (InRange (m + 2) n2) code sz)
    (hle : m + 2 ≤ n2) :
    Frag ([⟨.noop, some m⟩] ++ ls ++ [⟨.split m (m + 1), none⟩, ⟨.noop, some (m + 1)⟩]) (InRange m n2)
      (fun base => code base ++ [.split base (base + sz + 1)]) (sz + 1) := by
  have hnot : ∀ l, l < m + 2 → l ∉ labelsOf ls := fun l hl h => by
    have := hF.labs _ h; unfold InRange at this; omega
  have c1 := hF.count
  refine ⟨?_, ?_, ?_, ?_⟩
  · intro l hl
    simp [labelsOf] at hl
    rcases hl with h | h | h
    · subst h; unfold InRange; omega
    · have := hF.labs l h; unfold InRange at *; omega
    · subst h; unfold InRange; omega
  · intro x hx
    simp [targetsOf, Instr.targets] at hx
    simp [labelsOf]
    rcases hx with h | h | h
    · have := hF.closed x h; simp [this]
    · subst h; simp
    · subst h; simp
  · simp [countReal_cons, Leaf.real, Instr.isNoop, c1]
  · intro base ρ hg
    have h0 : ρ m = base := by
      rw [hg m (by simp [labelsOf])]; simp [pos]
    have h1 : ρ (m + 1) = base + sz + 1 := by
      rw [hg (m + 1) (by simp [labelsOf])]
      rw [pos_append, if_neg (by simp [labelsOf, hnot (m + 1) (by omega)])]
      simp [pos, countReal_cons, Leaf.real, Instr.isNoop, c1] <;> omega
    have hg1 : Good ρ base ls := by
      have := hg.mid' (pre := [⟨.noop, some m⟩]) (mid := ls)
        (post := [⟨.split m (m + 1), none⟩, ⟨.noop, some (m + 1)⟩]) rfl (by
          intro l hl
          have := hF.labs l hl
          unfold InRange at this
          simp [labelsOf]; omega)
      simpa [countReal_cons, Leaf.real, Instr.isNoop] using this
    rw [strip_append, strip_append, hF.code _ ρ hg1]
    simp [strip, Leaf.real, Instr.isNoop, Instr.mapT, h0, h1]

theorem quant_spec {f code sz} (hf : BodySpec f code sz) (q : Quant) (hq : quantOk q = true) :
    BodySpec (transformQuantified f q) (quantAt code sz q) (quantSize sz q) := by
  intro n
  have hng : q.nonGreedy = false := by
    unfold quantOk at hq; simp at hq; exact hq.1
  unfold transformQuantified quantAt quantSize
  simp only [hng, Bool.false_eq_true, if_false]
  by_cases h11 : q.min = 1 ∧ q.max = some 1
  · simp only [h11, and_self, if_true]
    exact hf n
  · simp only [h11, if_false]
    cases hmax : q.max with
    | some mx =>
      simp only
      obtain ⟨rs, n1, hr, hle1, hFr⟩ := repeat_spec hf q.min n
      by_cases hopt : mx - q.min > 0
      · obtain ⟨os, n2, ho, hle2, _, hFo⟩ := optional_spec hf (mx - q.min) n1 (n1 + 1) (by omega)
        refine ⟨.node (rs ++ os ++ [lf .noop (some n1)]), n2, ?_, by omega, ?_⟩
        · simp [hr, hopt, ho]
        · have := (Frag.append hFr hFo (by
            intro l h1 h2
            unfold InRange at *
            omega)).weaken (L' := InRange n n2) (by
              intro l h
              unfold InRange at *
              omega)
          simp only [linearize_node, linearizeList_append, linearizeList_cons, linearize_lf,
            linearizeList_nil, List.append_nil, List.append_assoc]
          exact this.cast (fun b => rfl) rfl
      · refine ⟨.node rs, n1, ?_, hle1, ?_⟩
        · simp [hr, hopt]
        · have h0 : mx - q.min = 0 := by omega
          simp only [linearize_node]
          exact hFr.cast (fun b => by simp [h0, optAt]) (by simp [h0])
    | none =>
      simp only
      by_cases hmin : q.min = 0
      · simp only [hmin, if_true]
        obtain ⟨t, n1, h1, hle1, hF1⟩ := hf (n + 3)
        refine ⟨.node [lf (.split (n + 1) (n + 2)) (some n), lf .noop (some (n + 1)), t, lf (.jump n),
          lf .noop (some (n + 2))], n1, ?_, by omega, ?_⟩
        · simp [h1]
        · have := star_frag hF1 hle1
          simpa using this
      · simp only [hmin, if_false]
        obtain ⟨rs, n1, hr, hle1, hFr⟩ := repeat_spec hf (q.min - 1) n
        obtain ⟨t, n2, h2, hle2, hF2⟩ := hf (n1 + 2)
        refine ⟨.node (rs ++ [lf .noop (some n1), t, lf (.split n1 (n1 + 1)), lf .noop (some (n1 + 1))]),
          n2, ?_, by omega, ?_⟩
        · simp [hr, h2]
        · have hp := plus_frag hF2 hle2
          have := Frag.seq hFr hp hle1 (by omega)
          simp only [linearize_node, linearizeList_append, linearizeList_cons, linearize_lf,
            linearizeList_nil, List.append_nil]
          refine (this.cast (fun b => ?_) ?_)
          · simp [Nat.add_assoc]
          · have : q.min = (q.min - 1) + 1 := by omega
            generalize q.min - 1 = k at this ⊢
            rw [this, Nat.succ_mul]; omega

end AasVerif.Revm
