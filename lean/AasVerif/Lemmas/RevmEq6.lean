import AasVerif.Lemmas.RevmEq5
/-!
The post-passes (`relabel`, `removeNoops`) compute the resolved, stripped program; the top level.
-/
set_option linter.unusedSimpArgs false
namespace AasVerif.Revm
open AasVerif.Retree

theorem mapTargets_eq (ρo : Nat → Option Nat) (ρ : Nat → Nat) (i : Instr)
    (h : ∀ t ∈ i.targets, ρo t = some (ρ t)) : i.mapTargets ρo = some (i.mapT ρ) := by
  cases i <;> simp [Instr.mapTargets, Instr.mapT, Instr.targets] at h ⊢
  · simp [h]
  · simp [h.1, h.2]

theorem mapT_isNoop (ρ : Nat → Nat) (i : Instr) : (i.mapT ρ).isNoop = i.isNoop := by
  cases i <;> rfl

/-- Labels of the final program are the indices of their instructions. -/
def LabelsAreIndices (idx : Nat) (p : List Leaf) : Prop :=
  ∀ i x, p[i]? = some x → ∀ l, x.label = some l → l = idx + i

theorem relabelFrom_ok (ρo : Nat → Option Nat) (ρ : Nat → Nat) (nl : List Nat) :
    ∀ (ls : List Leaf) (idx : Nat), (∀ t ∈ targetsOf ls, ρo t = some (ρ t)) →
      ∃ ls' p, relabelFrom ρo nl idx ls = .ok ls' ∧ removeNoops ls' = .ok p ∧
        instrs p = strip ρ ls ∧ LabelsAreIndices idx p := by
  intro ls
  induction ls with
  | nil =>
    intro idx _
    exact ⟨[], [], rfl, rfl, rfl, by intro i x h; simp at h⟩
  | cons x rest ih =>
    intro idx h
    have hx : ∀ t ∈ x.instr.targets, ρo t = some (ρ t) := fun t ht => h t (by simp [targetsOf, ht])
    have hr : ∀ t ∈ targetsOf rest, ρo t = some (ρ t) := fun t ht => h t (by simp [targetsOf, ht])
    by_cases hreal : x.real = true
    · obtain ⟨ls', p, h1, h2, h3, h4⟩ := ih (idx + 1) hr
      refine ⟨⟨x.instr.mapT ρ, if idx ∈ nl then some idx else none⟩ :: ls',
        ⟨x.instr.mapT ρ, if idx ∈ nl then some idx else none⟩ :: p, ?_, ?_, ?_, ?_⟩
      · simp [relabelFrom, hreal, mapTargets_eq ρo ρ x.instr hx, h1]
      · have : Leaf.real ⟨x.instr.mapT ρ, if idx ∈ nl then some idx else none⟩ = true := by
          simpa [Leaf.real, mapT_isNoop] using hreal
        simp [removeNoops, this, h2]
      · simp [instrs, strip, hreal] at h3 ⊢
        exact h3
      · intro i y hy l hl
        cases i with
        | zero =>
          simp at hy
          subst hy
          simp at hl
          omega
        | succ j =>
          simp at hy
          have := h4 j y hy l hl
          omega
    · have hreal' : x.real = false := by simpa using hreal
      obtain ⟨ls', p, h1, h2, h3, h4⟩ := ih idx hr
      refine ⟨⟨x.instr, none⟩ :: ls', p, ?_, ?_, ?_, h4⟩
      · simp [relabelFrom, hreal', h1]
      · have : Leaf.real ⟨x.instr, none⟩ = false := by simpa [Leaf.real] using hreal'
        simp [removeNoops, this, h2]
      · simp [strip, hreal', h3]

theorem labelledNoopAtEnd_append_real (ls : List Leaf) (m : Leaf) (hm : m.real = true) :
    labelledNoopAtEnd (ls ++ [m]) = false := by
  induction ls with
  | nil => simp [labelledNoopAtEnd, hm]
  | cons x rest ih =>
    simp [labelledNoopAtEnd, ih, countReal_cons, hm]

/-- The post-passes on a closed list that ends with a real leaf. -/
theorem relabel_strip (ls : List Leaf) (m : Leaf) (hm : m.real = true)
    (hc : ∀ t ∈ targetsOf (ls ++ [m]), t ∈ labelsOf (ls ++ [m])) :
    ∃ ls' p, relabel (ls ++ [m]) = .ok ls' ∧ removeNoops ls' = .ok p ∧
      instrs p = strip (pos (ls ++ [m])) (ls ++ [m]) ∧ LabelsAreIndices 0 p := by
  unfold relabel
  rw [labelledNoopAtEnd_append_real ls m hm]
  simp only [Bool.false_eq_true, if_false]
  apply relabelFrom_ok
  intro t ht
  rw [labelPos_eq, if_pos (hc t ht)]

/-! `_CheckForFormattedValue` / `_CheckForNonGreedyQuantifiers` find nothing in an accepted pattern. -/
mutual
  theorem noFvV : (v : Value) → okV v = true → hasFvV v = false ∧ hasNonGreedyV v = false
    | .group u, h => by
      have := noFvU u (by simpa [okV] using h)
      simpa [hasFvV, hasNonGreedyV] using this
    | .char _, _ => by simp [hasFvV, hasNonGreedyV]
    | .set _ _, _ => by simp [hasFvV, hasNonGreedyV]
    | .fv _, h => by simp [okV] at h
    | .sym _, _ => by simp [hasFvV, hasNonGreedyV]
  theorem noFvT : (t : Term) → okT t = true → hasFvT t = false ∧ hasNonGreedyT t = false
    | .mk v none, h => by
      have := noFvV v (by simpa [okT] using h)
      simpa [hasFvT, hasNonGreedyT] using this
    | .mk v (some q), h => by
      have hv : okV v = true ∧ quantOk q = true := by
        cases v with
        | sym k => cases k <;> simp_all [okT, okV]
        | _ => simpa [okT] using h
      have := noFvV v hv.1
      have hq : q.nonGreedy = false := by
        have := hv.2; unfold quantOk at this; simp at this; exact this.1
      simp [hasFvT, hasNonGreedyT, this, hq]
  theorem noFvTs : (ts : List Term) → okTs ts = true → hasFvTs ts = false ∧ hasNonGreedyTs ts = false
    | [], _ => by simp [hasFvTs, hasNonGreedyTs]
    | t :: ts, h => by
      have h' : okT t = true ∧ okTs ts = true := by simpa [okTs] using h
      have h1 := noFvT t h'.1
      have h2 := noFvTs ts h'.2
      simp [hasFvTs, hasNonGreedyTs, h1, h2]
  theorem noFvC : (c : Concat) → okC c = true → hasFvC c = false ∧ hasNonGreedyC c = false
    | .mk ts, h => by
      have := noFvTs ts (by simpa [okC] using h)
      simpa [hasFvC, hasNonGreedyC] using this
  theorem noFvCs : (cs : List Concat) → okCs cs = true → hasFvCs cs = false ∧ hasNonGreedyCs cs = false
    | [], _ => by simp [hasFvCs, hasNonGreedyCs]
    | c :: cs, h => by
      have h' : okC c = true ∧ okCs cs = true := by simpa [okCs] using h
      have h1 := noFvC c h'.1
      have h2 := noFvCs cs h'.2
      simp [hasFvCs, hasNonGreedyCs, h1, h2]
  theorem noFvU : (u : Union) → okU u = true → hasFvU u = false ∧ hasNonGreedyU u = false
    | .mk us, h => by
      have h' : okCs us = true := by
        simp [okU] at h; exact h.2
      have := noFvCs us h'
      simpa [hasFvU, hasNonGreedyU] using this
end

theorem okTs_take : ∀ (ts : List Term) (k : Nat), okTs ts = true → okTs (ts.take k) = true
  | [], k, _ => by simp [okTs]
  | t :: ts, 0, _ => by simp [okTs]
  | t :: ts, k + 1, h => by
    have h' : okT t = true ∧ okTs ts = true := by simpa [okTs] using h
    simp [okTs, h'.1, okTs_take ts k h'.2]

/-- Shape of an accepted regex. -/
theorem accepted_shape (r : Regex) (h : Accepted r) :
    ∃ t ts l, r = .mk [.mk (t :: ts)] ∧ isStartTerm t = true ∧ ts.getLast? = some l ∧ isStopTerm l = true ∧
      okTs ts = true := by
  unfold Accepted at h
  match r, h with
  | .mk [.mk (t :: ts)], h =>
    simp only [acceptedB, Bool.and_eq_true] at h
    obtain ⟨⟨h1, h2⟩, h3⟩ := h
    cases hl : ts.getLast? with
    | none => simp [hl] at h2
    | some l =>
      simp [hl] at h2
      exact ⟨t, ts, l, rfl, h1, hl, h2, h3⟩

theorem okTs_body (t : Term) (ts : List Term) (h : okTs ts = true) : okTs (bodyTerms (t :: ts)) = true := by
  unfold bodyTerms
  simp only [List.drop_succ_cons, List.drop_zero]
  split
  · split
    · exact okTs_take ts _ h
    · exact h
  · exact h

end AasVerif.Revm
