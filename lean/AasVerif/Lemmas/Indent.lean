import AasVerif.Model.Indent
/-!
`indent_but_first_line` cuts the code only at its separator: the lines of the result are the lines
of the input, each possibly behind the indention.
-/
namespace AasVerif.Indent

theorem splitChar_ne_nil (sep : Nat) : ∀ (t : Text), splitChar sep t ≠ []
  | [] => by simp [splitChar]
  | c :: r => by
    unfold splitChar
    split
    · simp
    · split <;> simp

/-- No line holds the separator. -/
theorem splitChar_noSep (sep : Nat) : ∀ (t : Text), ∀ l ∈ splitChar sep t, sep ∉ l
  | [], l, hl => by
    simp only [splitChar, List.mem_singleton] at hl
    subst hl; simp
  | c :: r, l, hl => by
    unfold splitChar at hl
    split at hl
    · rcases List.mem_cons.mp hl with rfl | hl
      · simp
      · exact splitChar_noSep sep r l hl
    · rename_i hc
      split at hl
      · simp only [List.mem_singleton] at hl
        subst hl
        intro h
        simp only [List.mem_singleton] at h
        exact hc h.symm
      · rename_i l0 ls heq
        rcases List.mem_cons.mp hl with rfl | hl
        · intro h
          rcases List.mem_cons.mp h with h | h
          · exact hc h.symm
          · exact splitChar_noSep sep r l0 (by rw [heq]; exact List.mem_cons_self ..) h
        · exact splitChar_noSep sep r l (by rw [heq]; exact List.mem_cons_of_mem _ hl)

/-- `sep.join(text.split(sep)) == text` -/
theorem joinChar_splitChar (sep : Nat) : ∀ (t : Text), joinChar sep (splitChar sep t) = t
  | [] => by simp [splitChar, joinChar]
  | c :: r => by
    have ih := joinChar_splitChar sep r
    unfold splitChar
    split
    · rename_i hc
      subst hc
      cases hs : splitChar c r with
      | nil => exact absurd hs (splitChar_ne_nil c r)
      | cons l ls =>
        rw [hs] at ih
        simp only [joinChar, List.nil_append]
        rw [ih]
    · split
      · rename_i heq
        exact absurd heq (splitChar_ne_nil sep r)
      · rename_i l0 ls heq
        rw [heq] at ih
        cases ls with
        | nil => simp only [joinChar] at ih ⊢; rw [ih]
        | cons l1 ls' => simp only [joinChar, List.cons_append] at ih ⊢; rw [ih]

theorem splitChar_single (sep : Nat) : ∀ (l : Text), sep ∉ l → splitChar sep l = [l]
  | [], _ => by simp [splitChar]
  | c :: r, hn => by
    have hc : c ≠ sep := fun e => hn (by rw [e]; exact List.mem_cons_self ..)
    have hr : sep ∉ r := fun h => hn (List.mem_cons_of_mem _ h)
    unfold splitChar
    rw [if_neg hc, splitChar_single sep r hr]

theorem splitChar_line (sep : Nat) (rest : Text) : ∀ (l : Text), sep ∉ l →
    splitChar sep (l ++ sep :: rest) = l :: splitChar sep rest
  | [], _ => by
    rw [List.nil_append, splitChar, if_pos rfl]
  | c :: r, hn => by
    have hc : c ≠ sep := fun e => hn (by rw [e]; exact List.mem_cons_self ..)
    have hr : sep ∉ r := fun h => hn (List.mem_cons_of_mem _ h)
    rw [List.cons_append, splitChar, if_neg hc, splitChar_line sep rest r hr]

/-- `sep.join(lines).split(sep) == lines` for lines without the separator. -/
theorem splitChar_joinChar (sep : Nat) : ∀ (ls : List Text), ls ≠ [] → (∀ l ∈ ls, sep ∉ l) →
    splitChar sep (joinChar sep ls) = ls
  | [], h, _ => absurd rfl h
  | [l], _, hl => by
    simp only [joinChar]
    exact splitChar_single sep l (hl l (List.mem_cons_self ..))
  | l :: l2 :: ls, _, hl => by
    have ih := splitChar_joinChar sep (l2 :: ls) (by simp) (fun x hx => hl x (List.mem_cons_of_mem _ hx))
    simp only [joinChar] at ih ⊢
    rw [splitChar_line sep _ l (hl l (List.mem_cons_self ..)), ih]

theorem popEmpty_sub (ls : List Text) : ∀ l ∈ popEmpty ls, l ∈ ls := by
  intro l hl
  unfold popEmpty at hl
  split at hl
  · exact List.dropLast_subset _ hl
  · exact hl

/-- A non-empty text has at least one line of code. -/
theorem codeLines_ne_nil (sep : Nat) (t : Text) (ht : t ≠ []) : codeLines sep t ≠ [] := by
  unfold codeLines popEmpty
  split
  · rename_i hlast
    intro hd
    cases hs : splitChar sep t with
    | nil => exact splitChar_ne_nil sep t hs
    | cons l ls =>
      rw [hs] at hd hlast
      cases ls with
      | nil =>
        simp only [List.getLast?_singleton, Option.some.injEq] at hlast
        subst hlast
        have := joinChar_splitChar sep t
        rw [hs] at this
        simp only [joinChar] at this
        exact ht this.symm
      | cons l2 ls' => simp [List.dropLast] at hd
  · exact splitChar_ne_nil sep t

theorem indentLines_ne_nil (ind : Text) (ls : List Text) (h : ls ≠ []) : indentLines ind ls ≠ [] := by
  cases ls with
  | nil => exact absurd rfl h
  | cons l ls => simp [indentLines]

theorem indentLines_noSep (sep : Nat) (ind : Text) (hind : sep ∉ ind) (ls : List Text)
    (h : ∀ l ∈ ls, sep ∉ l) : ∀ l ∈ indentLines ind ls, sep ∉ l := by
  cases ls with
  | nil => intro l hl; simp [indentLines] at hl
  | cons l0 ls' =>
    intro l hl
    simp only [indentLines, List.mem_cons, List.mem_map] at hl
    rcases hl with rfl | ⟨x, hx, rfl⟩
    · exact h _ (List.mem_cons_self ..)
    · have hxn := h x (List.mem_cons_of_mem _ hx)
      split
      · intro hm
        rcases List.mem_append.mp hm with hm | hm
        · exact hind hm
        · exact hxn hm
      · exact hxn

/-- The lines of the result are the lines of the code, the indention in front of all but the first:
the code is never cut anywhere else than at its line separator. -/
theorem indentButFirst_lines (sep : Nat) (ind t : Text) (hind : sep ∉ ind) (ht : t ≠ []) :
    splitChar sep (indentButFirst sep sep ind t) = indentLines ind (codeLines sep t) := by
  unfold indentButFirst
  apply splitChar_joinChar
  · exact indentLines_ne_nil ind _ (codeLines_ne_nil sep t ht)
  · apply indentLines_noSep sep ind hind
    intro l hl
    exact splitChar_noSep sep t l (popEmpty_sub _ l hl)

end AasVerif.Indent
