import AasVerif.Lemmas.RetreeSpec
import AasVerif.Model.Retree.Render
/-!
Round trip `parse (render r) = ok r` on the fragment `simpleTop`: trees without character sets,
without groups,
without explicitly encoded characters and with the quantifiers `* + ?` (greedy or not) only.
The escape table of the renderer is a parameter constrained by the decidable `litOk`.
-/
namespace AasVerif.Retree

/-! ### compression of the rendered tokens -/

theorem flatten_compress (ts : List Tok) : flatten (compress ts) = ts := by
  induction ts with
  | nil => rfl
  | cons t ts ih =>
    cases t with
    | fv i => simp [compress, flatten, ih]
    | ch c =>
      simp only [compress]
      split
      · next t' ps h => rw [h] at ih; simp only [flatten] at ih ⊢; simp [← ih]
      · next h =>
        simp only [flatten, List.map_cons, List.map_nil, List.cons_append, List.nil_append, ih]

theorem compress_head_str (ts : List Tok) : ∀ t ps, compress ts = .str t :: ps → t ≠ [] := by
  intro t ps h
  cases ts with
  | nil => cases h
  | cons x xs =>
    cases x with
    | fv i => simp [compress] at h
    | ch c =>
      simp only [compress] at h
      split at h
      · injection h with h _; injection h with h; subst h; simp
      · injection h with h _; injection h with h; subst h; simp

theorem wfParts_compress (ts : List Tok) : wfParts (compress ts) = true := by
  induction ts with
  | nil => rfl
  | cons x xs ih =>
    cases x with
    | fv i => simpa [compress, wfParts] using ih
    | ch c =>
      simp only [compress]
      split
      · next t ps h =>
        rw [h] at ih
        cases ps with
        | nil => rfl
        | cons p ps =>
          cases p with
          | str t' => simp [wfParts] at ih
          | fv i => simp only [wfParts] at ih ⊢; simp at ih ⊢; exact ih.2
      · next h =>
        cases hc : compress xs with
        | nil => rfl
        | cons p ps =>
          cases p with
          | str t' => exact absurd hc (h t' ps)
          | fv i => rw [hc] at ih; simp only [wfParts] at ih ⊢; simpa using ih

/-! ### the fragment -/

def simpleQuant (q : Quant) : Bool :=
  (q.min == 0 && q.max == none) || (q.min == 1 && q.max == none) || (q.min == 0 && q.max == some 1)

mutual
  def simpleValue : Value → Bool
    | .group _ => false
    | .char c => !c.enc
    | .set _ _ => false
    | .fv _ => true
    | .sym _ => true
  def simpleTerm : Term → Bool
    | .mk v q => simpleValue v && (match q with | some q => simpleQuant q | none => true)
  def simpleTerms : List Term → Bool
    | [] => true
    | t :: ts => simpleTerm t && simpleTerms ts
  def simpleConcats : List Concat → Bool
    | [] => true
    | .mk ts :: cs => simpleTerms ts && simpleConcats cs
  def simpleUnion : Union → Bool
    | .mk us => simpleConcats us
end

/-- What the round trip needs from the renderer's table for character literals: every entry is a
backslash followed by a character which the parser reads back as the key, and every character
that is special at the start of a term has an entry. -/
def litOk (lit : EscTable) : Bool :=
  lit.all (fun kt => match kt.2 with
    | [92, e] => e != 120 && e != 117 && e != 85 && lookup e litEscapes == some kt.1
    | _ => false)
  && [94, 36, 46, 40, 91, 42, 43, 63, 123, 92, 41].all (fun c => (escLookup c lit).isSome)

/-- The outcome is the expected value — or the fuel ran out. -/
def OF {α : Type} (x : Res α) (v : α) : Prop := x = .ok v ∨ x = .crash .fuel

theorem escLookup_ok (lit : EscTable) (c : Nat) (t : Text)
    (hall : lit.all (fun kt => match kt.2 with
      | [92, e] => e != 120 && e != 117 && e != 85 && lookup e litEscapes == some kt.1
      | _ => false) = true)
    (h : escLookup c lit = some t) :
    ∃ e, t = [92, e] ∧ e ≠ 120 ∧ e ≠ 117 ∧ e ≠ 85 ∧ lookup e litEscapes = some c := by
  induction lit with
  | nil => simp [escLookup] at h
  | cons kt lit ih =>
    obtain ⟨k, t'⟩ := kt
    simp only [List.all_cons, Bool.and_eq_true] at hall
    simp only [escLookup] at h
    split at h
    · next hk =>
      injection h with h
      subst h; subst hk
      have h1 := hall.1
      try simp only at h1
      split at h1
      · rename_i e
        simp only [Bool.and_eq_true, bne_iff_ne, ne_eq, beq_iff_eq] at h1
        exact ⟨e, rfl, h1.1.1.1, h1.1.1.2, h1.1.2, h1.2⟩
      · cases h1
    · exact ih hall.2 h

def isSpecial (c : Nat) : Bool := [94, 36, 46, 40, 91, 42, 43, 63, 123, 92, 41].contains c

theorem escLookup_none_not_special (lit : EscTable) (c : Nat) (hok : litOk lit = true)
    (h : escLookup c lit = none) : isSpecial c = false := by
  unfold litOk at hok
  simp only [Bool.and_eq_true] at hok
  have h2 := hok.2
  cases hs : isSpecial c with
  | false => rfl
  | true =>
    exfalso
    have hs : c ∈ [94, 36, 46, 40, 91, 42, 43, 63, 123, 92, 41] := by simpa [isSpecial] using hs
    rw [List.all_eq_true] at h2
    have := h2 c hs
    rw [h] at this
    cases this

/-! ### one value: plain characters -/

theorem parseValue_rawChar (f c : Nat) (rest : List Tok) (hs : isSpecial c = false) (h124 : c ≠ 124) :
    parseValue (f + 1) (.ch c :: rest) = .ok (some (.char ⟨c, false⟩), rest) := by
  simp only [isSpecial, List.contains_eq_mem, decide_eq_false_iff_not, List.mem_cons, List.not_mem_nil,
    or_false, not_or] at hs
  obtain ⟨h1, h2, h3, h4, h5, h6, h7, h8, h9, h10, h11⟩ := hs
  have hp : parseCharLiteral (.ch c :: rest) = .ok (some ⟨c, false⟩, rest) := by
    simp [parseCharLiteral, h1, h2, h6, h7, h8, h9, h10, h11, h124]
  unfold parseValue
  split <;> first
    | (rename_i heq; cases heq; omega)
    | (rename_i heq; cases heq)
    | (rw [hp])

theorem parseValue_escaped (f e c : Nat) (rest : List Tok) (h1 : e ≠ 120) (h2 : e ≠ 117) (h3 : e ≠ 85)
    (hl : lookup e litEscapes = some c) :
    parseValue (f + 1) (.ch 92 :: .ch e :: rest) = .ok (some (.char ⟨c, false⟩), rest) := by
  have hp : parseCharLiteral (.ch 92 :: .ch e :: rest) = .ok (some ⟨c, false⟩, rest) := by
    simp [parseCharLiteral, parseEscape, h1, h2, h3, hl]
  unfold parseValue
  split <;> first
    | (rename_i heq; cases heq; omega)
    | (rename_i heq; cases heq)
    | (rw [hp])

theorem rt_char (lit : EscTable) (hok : litOk lit = true) (f : Nat) (c : Chr) (rest : List Tok)
    (henc : c.enc = false) (hin : inRangeChrLit c = true) :
    parseValue (f + 1) (chs (renderChr lit c) ++ rest) = .ok (some (.char c), rest) := by
  obtain ⟨code, enc⟩ := c
  simp only at henc
  subst henc
  simp only [inRangeChrLit, Bool.false_eq_true, if_false, bne_iff_ne, ne_eq] at hin
  simp only [renderChr, Bool.false_eq_true, if_false]
  cases hl : escLookup code lit with
  | none =>
    simp only [chs, List.map_cons, List.map_nil, List.cons_append, List.nil_append]
    exact parseValue_rawChar f code rest (escLookup_none_not_special lit code hok hl) hin
  | some t =>
    unfold litOk at hok
    simp only [Bool.and_eq_true] at hok
    obtain ⟨e, rfl, h1, h2, h3, h4⟩ := escLookup_ok lit code t hok.1 hl
    simp only [chs, List.map_cons, List.map_nil, List.cons_append, List.nil_append]
    exact parseValue_escaped f e code rest h1 h2 h3 h4

/-! ### quantifiers -/

/-- the tokens do not start with `*`, `+`, `?` or `{` -/
def NoQ (rest : List Tok) : Prop :=
  ∀ c r, rest = .ch c :: r → c ≠ 42 ∧ c ≠ 43 ∧ c ≠ 63 ∧ c ≠ 123

theorem parseQuant_none (rest : List Tok) (h : NoQ rest) : parseQuant rest = .ok (none, rest) := by
  unfold parseQuant
  split <;> first
    | rfl
    | (have := h _ _ rfl; omega)

theorem rt_quant (q : Quant) (hs : simpleQuant q = true) (rest : List Tok) (h : NoQ rest) :
    parseQuant (chs (renderQuant q) ++ rest) = .ok (some q, rest) := by
  have h63 : ∀ r, rest ≠ .ch 63 :: r := by
    intro r hr; have := h _ _ hr; omega
  obtain ⟨ng, mn, mx⟩ := q
  simp only [simpleQuant, Bool.or_eq_true, Bool.and_eq_true, beq_iff_eq] at hs
  rcases hs with (⟨rfl, rfl⟩ | ⟨rfl, rfl⟩) | ⟨rfl, rfl⟩ <;> cases ng <;>
    simp only [renderQuant, chs, List.map_cons, List.map_nil, List.cons_append, List.nil_append, List.append_nil,
      Bool.false_eq_true, if_false, if_true, Nat.zero_ne_one, Nat.one_ne_zero] <;>
    (unfold parseQuant
     split <;> first
      | rfl
      | (rename_i heq; cases heq; first | rfl | exact absurd rfl (h63 _) | (exfalso; rename_i a1; exact a1 _ rfl))
      | (rename_i heq; cases heq; done)
      | (exfalso; rename_i a1 a2 a3 a4 a5 a6 a7
         first | exact a1 _ rfl | exact a2 _ rfl | exact a3 _ rfl | exact a4 _ rfl | exact a5 _ rfl | exact a6 _ rfl)
      | (exfalso; rename_i a1; exact a1 _ rfl))

/-! ### the first token of a rendered term -/

def NotStop (t : Tok) : Prop :=
  ∀ c, t = .ch c → c ≠ 42 ∧ c ≠ 43 ∧ c ≠ 63 ∧ c ≠ 123 ∧ c ≠ 124 ∧ c ≠ 41

theorem renderValue_head (lit rng : EscTable) (hok : litOk lit = true) (v : Value)
    (hin : inRangeValue v = true) (hs : simpleValue v = true) :
    ∃ t ts, renderValue lit rng v = t :: ts ∧ NotStop t := by
  cases v with
  | group u => simp [simpleValue] at hs
  | fv i => exact ⟨.fv i, [], by simp only [renderValue], by intro c hc; cases hc⟩
  | set c rs => simp [simpleValue] at hs
  | sym k =>
    cases k
    · exact ⟨.ch 94, [], by simp only [renderValue], by intro c hc; injection hc with hc; omega⟩
    · exact ⟨.ch 36, [], by simp only [renderValue], by intro c hc; injection hc with hc; omega⟩
    · exact ⟨.ch 46, [], by simp only [renderValue], by intro c hc; injection hc with hc; omega⟩
  | char c =>
    obtain ⟨code, enc⟩ := c
    simp only [simpleValue, Bool.not_eq_true'] at hs
    subst hs
    simp only [inRangeValue, inRangeChrLit, Bool.false_eq_true, if_false, bne_iff_ne, ne_eq] at hin
    simp only [renderValue, renderChr, Bool.false_eq_true, if_false]
    cases hl : escLookup code lit with
    | none =>
      have hsp := escLookup_none_not_special lit code hok hl
      simp only [isSpecial, List.contains_eq_mem, decide_eq_false_iff_not, List.mem_cons, List.not_mem_nil,
        or_false, not_or] at hsp
      refine ⟨.ch code, [], by simp [chs], ?_⟩
      intro c hc; injection hc with hc; omega
    | some t =>
      unfold litOk at hok
      simp only [Bool.and_eq_true] at hok
      obtain ⟨e, rfl, _⟩ := escLookup_ok lit code _ hok.1 hl
      refine ⟨.ch 92, [.ch e], by simp [chs], ?_⟩
      intro c hc; injection hc with hc; omega

theorem noQ_of_notStop (t : Tok) (ts : List Tok) (h : NotStop t) : NoQ (t :: ts) := by
  intro c r hr
  injection hr with hr _
  have := h c hr
  omega

/-- the tokens after a concatenation: the end, `|` or `)` -/
def EndOk (R : List Tok) : Prop := R = [] ∨ ∃ r, R = .ch 124 :: r ∨ R = .ch 41 :: r

theorem noQ_of_endOk (R : List Tok) (h : EndOk R) : NoQ R := by
  intro c r hr
  rcases h with rfl | ⟨r', rfl | rfl⟩
  · cases hr
  · injection hr with hr _; injection hr with hr; omega
  · injection hr with hr _; injection hr with hr; omega

/-! ### one term -/

/-- closes the default branch of the big `match` of `parseValue` when an earlier pattern applies -/
macro "kill_default12" : tactic =>
  `(tactic| (exfalso; rename_i a1 a2 a3 a4 a5 a6 a7 a8 a9 a10 a11 a12
             first | exact a1 _ rfl | exact a2 _ rfl | exact a3 _ rfl | exact a8 _ _ rfl))

theorem rt_value (lit rng : EscTable) (hok : litOk lit = true) (v : Value) (f : Nat) (rest : List Tok)
    (hin : inRangeValue v = true) (hs : simpleValue v = true) :
    parseValue (f + 1) (renderValue lit rng v ++ rest) = .ok (some v, rest) := by
  cases v with
  | group u => simp [simpleValue] at hs
  | set c rs => simp [simpleValue] at hs
  | char c =>
    simp only [simpleValue, Bool.not_eq_true'] at hs
    simp only [inRangeValue] at hin
    simp only [renderValue]
    exact rt_char lit hok f c rest hs hin
  | fv i =>
    simp only [renderValue, List.cons_append, List.nil_append]
    unfold parseValue
    split <;> first | (rename_i heq; cases heq; done) | rfl | (rename_i heq; cases heq; rfl) | kill_default12
  | sym k =>
    cases k <;>
    · simp only [renderValue, List.cons_append, List.nil_append]
      unfold parseValue
      split <;> first | (rename_i heq; cases heq; done) | rfl | (rename_i heq; cases heq; rfl) | kill_default12

theorem parseValue_close (f : Nat) (r : List Tok) :
    parseValue (f + 1) (.ch 41 :: r) = .ok (none, .ch 41 :: r) := by
  have hp : parseCharLiteral (.ch 41 :: r) = .ok (none, .ch 41 :: r) := by
    simp [parseCharLiteral]
  unfold parseValue
  split <;> first | (rename_i heq; cases heq; done) | (rw [hp])

theorem parseTerms_cons (f : Nat) (t0 : Tok) (more ts1 ts2 : List Tok) (v : Value) (q : Option Quant)
    (hns : NotStop t0)
    (hv : parseValue f (t0 :: more) = .ok (some v, ts1) ∨ parseValue f (t0 :: more) = .crash .fuel)
    (hq : parseQuant ts1 = .ok (q, ts2)) (hanch : (q.isSome && isAnchor v) = false)
    (hlt : ts2.length < (t0 :: more).length)
    (terms : List Term) (R : List Tok) (hrec : OF (parseTerms f ts2) (terms, R)) :
    OF (parseTerms (f + 1) (t0 :: more)) (.mk v q :: terms, R) := by
  unfold parseTerms
  split
  · rename_i heq; cases heq
  · rename_i heq; cases heq; have := hns 124 rfl; omega
  · rcases hv with hv | hv
    · rw [hv]
      simp only
      rw [hq]
      have hviol : termRequireViolated v q = false := by
        simp only [termRequireViolated]; rw [Bool.and_comm]; exact hanch
      simp only [hanch, hviol, Bool.false_eq_true, if_false, hlt, not_true_eq_false]
      rcases hrec with hrec | hrec
      · rw [hrec]; exact Or.inl rfl
      · rw [hrec]; exact Or.inr rfl
    · rw [hv]; exact Or.inr rfl

def optQ : Option Quant → List Tok
  | some q => chs (renderQuant q)
  | none => []

theorem renderTerm_eq (lit rng : EscTable) (v : Value) (q : Option Quant) :
    renderTerm lit rng (.mk v q) = renderValue lit rng v ++ optQ q := by
  cases q <;> simp only [renderTerm, optQ]

theorem rt_terms (lit rng : EscTable) (hok : litOk lit = true) :
    ∀ (ts : List Term) (f : Nat) (R : List Tok), EndOk R → inRangeTerms ts = true → simpleTerms ts = true →
      OF (parseTerms f (renderTerms lit rng ts ++ R)) (ts, R) ∧ NoQ (renderTerms lit rng ts ++ R) := by
  intro ts
  induction ts with
  | nil =>
    intro f R hR _ _
    simp only [renderTerms, List.nil_append]
    refine ⟨?_, noQ_of_endOk R hR⟩
    cases f with
    | zero => right; unfold parseTerms; rfl
    | succ f =>
      rcases hR with rfl | ⟨r, rfl | rfl⟩
      · left; unfold parseTerms; rfl
      · left; unfold parseTerms; rfl
      · cases f with
        | zero =>
          right
          unfold parseTerms
          have : parseValue 0 (Tok.ch 41 :: r) = .crash .fuel := by unfold parseValue; rfl
          simp only [this]
        | succ f =>
          left
          unfold parseTerms
          simp only [parseValue_close]
  | cons t ts ih =>
    intro f R hR hin hs
    obtain ⟨v, q⟩ := t
    simp only [inRangeTerms, inRangeTerm, Bool.and_eq_true] at hin
    simp only [simpleTerms, simpleTerm, Bool.and_eq_true] at hs
    obtain ⟨⟨hvin, hqin⟩, htsin⟩ := hin
    obtain ⟨⟨hvs, hqs⟩, htss⟩ := hs
    obtain ⟨t0, more, hhead, hns⟩ := renderValue_head lit rng hok v hvin hvs
    simp only [renderTerms, renderTerm_eq, List.append_assoc]
    have hnoq : NoQ (renderValue lit rng v ++ (optQ q ++ (renderTerms lit rng ts ++ R))) := by
      rw [hhead]; exact noQ_of_notStop t0 _ hns
    refine ⟨?_, hnoq⟩
    cases f with
    | zero => right; unfold parseTerms; rfl
    | succ f =>
      obtain ⟨hrec, hnoqrest⟩ := ih f R hR htsin htss
      have hq : parseQuant (optQ q ++ (renderTerms lit rng ts ++ R))
          = .ok (q, renderTerms lit rng ts ++ R) := by
        cases q with
        | none => simp only [optQ, List.nil_append]; exact parseQuant_none _ hnoqrest
        | some q => simp only [optQ]; exact rt_quant q hqs _ hnoqrest
      have hanch : (q.isSome && isAnchor v) = false := by
        cases q with
        | none => rfl
        | some q =>
          simp only [Bool.and_eq_true, Bool.not_eq_true'] at hqin
          simp [hqin.2]
      have hv : parseValue f (renderValue lit rng v ++ (optQ q ++ (renderTerms lit rng ts ++ R)))
            = .ok (some v, optQ q ++ (renderTerms lit rng ts ++ R))
          ∨ parseValue f (renderValue lit rng v ++ (optQ q ++ (renderTerms lit rng ts ++ R)))
            = .crash .fuel := by
        cases f with
        | zero => right; unfold parseValue; rfl
        | succ f => left; exact rt_value lit rng hok v f _ hvin hvs
      rw [hhead] at hv ⊢
      refine parseTerms_cons f t0 _ _ _ v q hns hv hq hanch ?_ ts R hrec
      simp only [List.append_eq, List.cons_append, List.length_cons, List.length_append]
      omega

theorem renderTerms_nil_of (lit rng : EscTable) (hok : litOk lit = true) (c : List Term) (X : List Tok)
    (hin : inRangeTerms c = true) (hs : simpleTerms c = true) (h : renderTerms lit rng c ++ X = []) : c = [] := by
  cases c with
  | nil => rfl
  | cons t ts =>
    obtain ⟨v, q⟩ := t
    simp only [inRangeTerms, inRangeTerm, Bool.and_eq_true] at hin
    simp only [simpleTerms, simpleTerm, Bool.and_eq_true] at hs
    obtain ⟨t0, more, hhead, _⟩ := renderValue_head lit rng hok v hin.1.1 hs.1.1
    simp only [renderTerms, renderTerm_eq, hhead, List.cons_append] at h
    cases h

theorem rt_alts (lit rng : EscTable) (hok : litOk lit = true) :
    ∀ (cs : List Concat) (f : Nat), inRangeConcats cs = true → simpleConcats cs = true →
      OF (parseAlts f (renderAlts lit rng cs)) (cs, []) ∧ EndOk (renderAlts lit rng cs) := by
  intro cs
  induction cs with
  | nil =>
    intro f _ _
    simp only [renderAlts]
    refine ⟨?_, Or.inl rfl⟩
    cases f with
    | zero => right; unfold parseAlts; rfl
    | succ f => left; unfold parseAlts; rfl
  | cons c cs ih =>
    intro f hin hs
    obtain ⟨c⟩ := c
    simp only [inRangeConcats, Bool.and_eq_true] at hin
    simp only [simpleConcats, Bool.and_eq_true] at hs
    simp only [renderAlts, renderConcat]
    refine ⟨?_, Or.inr ⟨_, Or.inl rfl⟩⟩
    cases f with
    | zero => right; unfold parseAlts; rfl
    | succ f =>
      obtain ⟨hrec, hend⟩ := ih f hin.2 hs.2
      obtain ⟨hterms, _⟩ := rt_terms lit rng hok c f (renderAlts lit rng cs) hend hin.1 hs.1
      cases hL : renderTerms lit rng c ++ renderAlts lit rng cs with
      | nil =>
        have hc := renderTerms_nil_of lit rng hok c _ hin.1 hs.1 hL
        subst hc
        simp only [renderTerms, List.nil_append] at hL
        have hcs : cs = [] := by
          cases cs with
          | nil => rfl
          | cons x xs => obtain ⟨x⟩ := x; simp only [renderAlts] at hL; cases hL
        subst hcs
        left; unfold parseAlts; rfl
      | cons x xs =>
        rw [hL] at hterms
        unfold parseAlts
        simp only
        rcases hterms with hterms | hterms
        · rw [hterms]
          simp only
          rcases hrec with hrec | hrec
          · rw [hrec]; exact Or.inl rfl
          · rw [hrec]; exact Or.inr rfl
        · rw [hterms]; exact Or.inr rfl

theorem rt_union (lit rng : EscTable) (hok : litOk lit = true) (c : List Term) (cs : List Concat) (f : Nat)
    (hin : inRangeUnion (.mk (.mk c :: cs)) = true) (hs : simpleUnion (.mk (.mk c :: cs)) = true)
    (hne : renderUnion lit rng (.mk (.mk c :: cs)) ≠ []) :
    OF (parseUnion f (renderUnion lit rng (.mk (.mk c :: cs)))) (.mk (.mk c :: cs), []) := by
  simp only [inRangeUnion, inRangeConcats, Bool.and_eq_true] at hin
  simp only [simpleUnion, simpleConcats, Bool.and_eq_true] at hs
  simp only [renderUnion, renderConcat] at hne ⊢
  cases f with
  | zero => right; unfold parseUnion; rfl
  | succ f =>
    obtain ⟨hrec, hend⟩ := rt_alts lit rng hok cs f hin.2 hs.2
    obtain ⟨hterms, _⟩ := rt_terms lit rng hok c f (renderAlts lit rng cs) hend hin.1 hs.1
    cases hL : renderTerms lit rng c ++ renderAlts lit rng cs with
    | nil => exact absurd hL hne
    | cons x xs =>
      rw [hL] at hterms
      unfold parseUnion
      simp only
      rcases hterms with hterms | hterms
      · rw [hterms]
        simp only
        rcases hrec with hrec | hrec
        · rw [hrec]; exact Or.inl rfl
        · rw [hrec]; exact Or.inr rfl
      · rw [hterms]; exact Or.inr rfl

end AasVerif.Retree
