import AasVerif.Model.Base64
/-! Lemmas for `base64_roundtrip` (core Lean only: `omega`, `decide`, `simp`). -/
namespace AasVerif.Base64

theorem decChar_encChar : ∀ v, v < 64 → decChar (encChar v) = some v := by decide

theorem encChar_ne_pad : ∀ v, v < 64 → encChar v ≠ pad := by decide

theorem encChar_lt : ∀ v, v < 64 → encChar v < 128 := by decide

/-- one data character from the alphabet, seen in state `qp` -/
theorem loop_data (qp left pads v : Nat) (hv : v < 64) (cs : List Nat) :
    loop qp left pads (encChar v :: cs) =
      if qp = 0 then loop 1 v 0 cs
      else if qp = 1 then consOk ((left * 4 + v / 16) % 256) (loop 2 (v % 16) 0 cs)
      else if qp = 2 then consOk ((left * 16 + v / 4) % 256) (loop 3 (v % 4) 0 cs)
      else consOk ((left * 64 + v) % 256) (loop 0 0 0 cs) := by
  rw [loop]
  simp only [encChar_ne_pad v hv, if_false, decChar_encChar v hv]

theorem loop_group (a b c : Nat) (ha : a < 256) (hb : b < 256) (hc : c < 256) (rest : List Nat) :
    loop 0 0 0 (encChar (a / 4) :: encChar ((a % 4) * 16 + b / 16)
        :: encChar ((b % 16) * 4 + c / 64) :: encChar (c % 64) :: rest)
      = consOk a (consOk b (consOk c (loop 0 0 0 rest))) := by
  rw [loop_data _ _ _ _ (by omega), if_pos rfl]
  rw [loop_data _ _ _ _ (by omega), if_neg (by omega), if_pos rfl]
  rw [loop_data _ _ _ _ (by omega), if_neg (by omega), if_neg (by omega), if_pos rfl]
  rw [loop_data _ _ _ _ (by omega), if_neg (by omega), if_neg (by omega), if_neg (by omega)]
  have e1 : (a / 4 * 4 + ((a % 4) * 16 + b / 16) / 16) % 256 = a := by omega
  have e2 : ((a % 4) * 16 + b / 16) % 16 = b / 16 := by omega
  have e3 : (b / 16 * 16 + ((b % 16) * 4 + c / 64) / 4) % 256 = b := by omega
  have e4 : ((b % 16) * 4 + c / 64) % 4 = c / 64 := by omega
  have e5 : (c / 64 * 64 + c % 64) % 256 = c := by omega
  rw [e2, e4, e1, e3, e5]

theorem loop_tail1 (a : Nat) (ha : a < 256) :
    loop 0 0 0 [encChar (a / 4), encChar ((a % 4) * 16), pad, pad] = .ok [a] := by
  rw [loop_data _ _ _ _ (by omega), if_pos rfl]
  rw [loop_data _ _ _ _ (by omega), if_neg (by omega), if_pos rfl]
  have e1 : (a / 4 * 4 + (a % 4) * 16 / 16) % 256 = a := by omega
  rw [e1]
  simp [loop, consOk, pad]

theorem loop_tail2 (a b : Nat) (ha : a < 256) (hb : b < 256) :
    loop 0 0 0 [encChar (a / 4), encChar ((a % 4) * 16 + b / 16), encChar ((b % 16) * 4), pad]
      = .ok [a, b] := by
  rw [loop_data _ _ _ _ (by omega), if_pos rfl]
  rw [loop_data _ _ _ _ (by omega), if_neg (by omega), if_pos rfl]
  rw [loop_data _ _ _ _ (by omega), if_neg (by omega), if_neg (by omega), if_pos rfl]
  have e1 : (a / 4 * 4 + ((a % 4) * 16 + b / 16) / 16) % 256 = a := by omega
  have e2 : ((a % 4) * 16 + b / 16) % 16 = b / 16 := by omega
  have e3 : (b / 16 * 16 + (b % 16) * 4 / 4) % 256 = b := by omega
  rw [e2, e1, e3]
  simp [loop, consOk, pad]

theorem loop_encode : ∀ bs : List Nat, (∀ x ∈ bs, x < 256) → loop 0 0 0 (encode bs) = .ok bs
  | [], _ => by simp [encode, loop]
  | [a], h => by
    simp only [encode]
    exact loop_tail1 a (h a (by simp))
  | [a, b], h => by
    simp only [encode]
    exact loop_tail2 a b (h a (by simp)) (h b (by simp))
  | a :: b :: c :: rest, h => by
    simp only [encode]
    rw [loop_group a b c (h a (by simp)) (h b (by simp)) (h c (by simp))]
    rw [loop_encode rest (fun x hx => h x (by simp [hx]))]
    rfl

theorem encode_ascii : ∀ bs : List Nat, (∀ x ∈ bs, x < 256) → ∀ ch ∈ encode bs, ch < 128
  | [], _ => by simp [encode]
  | [a], h => by
    have ha := h a (by simp)
    intro ch hch
    simp only [encode, List.mem_cons, List.not_mem_nil, or_false] at hch
    rcases hch with rfl | rfl | rfl | rfl
    · exact encChar_lt _ (by omega)
    · exact encChar_lt _ (by omega)
    · decide
    · decide
  | [a, b], h => by
    have ha := h a (by simp)
    have hb := h b (by simp)
    intro ch hch
    simp only [encode, List.mem_cons, List.not_mem_nil, or_false] at hch
    rcases hch with rfl | rfl | rfl | rfl
    · exact encChar_lt _ (by omega)
    · exact encChar_lt _ (by omega)
    · exact encChar_lt _ (by omega)
    · decide
  | a :: b :: c :: rest, h => by
    have ha := h a (by simp)
    have hb := h b (by simp)
    have hc := h c (by simp)
    intro ch hch
    simp only [encode, List.mem_cons] at hch
    rcases hch with rfl | rfl | rfl | rfl | hch
    · exact encChar_lt _ (by omega)
    · exact encChar_lt _ (by omega)
    · exact encChar_lt _ (by omega)
    · exact encChar_lt _ (by omega)
    · exact encode_ascii rest (fun x hx => h x (by simp [hx])) ch hch

theorem decode_encode (bs : List Nat) (h : ∀ x ∈ bs, x < 256) : decode (encode bs) = .ok bs := by
  unfold decode
  have hall : (encode bs).all (fun c => decide (c < 128)) = true := by
    rw [List.all_eq_true]
    intro ch hch
    exact decide_eq_true (encode_ascii bs h ch hch)
  rw [if_pos hall]
  exact loop_encode bs h

end AasVerif.Base64
