import AasVerif.Lemmas.JsonSchemaDocument
import AasVerif.Lemmas.JsonSchemaChoice
/-!
The `_choice` definition (`_generate_choice_definition`, `oneOf` over the class itself unless abstract
and its concrete descendants) in the output of `generate`: it accepts exactly the documents of the
alternatives.
-/
namespace AasVerif.JsonSchema
open AasVerif AasVerif.Retree

theorem countO_pos : ∀ (l : List (Option Bool)) (k : Nat), countO l = some (k + 1) → some true ∈ l := by
  intro l
  induction l with
  | nil => intro k h; simp [countO] at h
  | cons x r ih =>
    intro k h
    cases x with
    | none => rw [countO_cons_none] at h; cases h
    | some b =>
      cases b with
      | true => exact List.mem_cons_self
      | false =>
        rw [countO_cons_false] at h
        exact List.mem_cons_of_mem _ (ih k h)

/-- a `oneOf` that accepts has an alternative that accepts -/
theorem valid_oneOf_some (defs : Defs) {ss : List Schema} {j : Json} (h : Valid defs (.mk [.oneOf ss]) j) :
    ∃ s ∈ ss, Valid defs s j := by
  obtain ⟨m, hm⟩ := h
  cases m with
  | zero => simp [validates] at hm
  | succ n =>
    rw [validates_true_iff] at hm
    have := hm _ (List.mem_singleton.mpr rfl)
    simp only [validKw] at this
    cases hc : countO (ss.map fun s => validates defs n s j) with
    | none => simp [hc] at this
    | some cnt =>
      simp only [hc, Option.map_some, Option.some.injEq, beq_iff_eq] at this
      subst this
      have hmem := countO_pos _ 0 hc
      obtain ⟨s, hs, hv⟩ := List.mem_map.mp hmem
      exact ⟨s, hs, n, hv⟩

theorem choiceDefinition_eq (c : Cls) :
    choiceDefinition c = (sfx c.mt "_choice", .mk [.oneOf ((choiceAlts c).map refTo)]) := by
  unfold choiceDefinition choiceAlts
  cases c.abstract <;> simp

/-- the `_choice` definition, as found in `generate mm` -/
theorem generate_choice_lookup (mm : MM) (defs : Defs) (h : generate mm = .ok defs) {c : Cls}
    (hc : OurType.cls c ∈ mm.types) (hdesc : c.cdesc ≠ [])
    (hhas : hasChoice (classesInProperties mm) c = true) :
    lookup (sfx c.mt "_choice") defs = some (.mk [.oneOf ((choiceAlts c).map refTo)]) := by
  obtain ⟨ds, hds⟩ := generate_typeDefinitions_ok mm defs h hc
  have hne : c.cdesc.isEmpty = false := by cases hcc : c.cdesc <;> simp_all
  have hds' := hds
  unfold hasChoice at hhas
  simp only [typeDefinitions, classDefinitions, hne, Bool.not_false, if_true, hhas] at hds'
  have hmem : choiceDefinition c ∈ ds := by
    cases hi : inheritableDefinition c with
    | error e => simp [hi] at hds'
    | ok d =>
      simp only [hi] at hds'
      split at hds'
      · simp only [Except.ok.injEq] at hds'
        rw [← hds']
        simp
      · cases hcd : concreteDefinition c with
        | error e => simp [hcd] at hds'
        | ok d2 =>
          simp only [hcd, Except.ok.injEq] at hds'
          rw [← hds']
          simp
  rw [choiceDefinition_eq] at hmem
  exact generate_lookup mm defs h hc hds hmem

/-- the alternatives of a `_choice` are concrete classes of the meta-model that carry the model type -/
theorem alts_spec (mm : MM) (defs : Defs) (h : generate mm = .ok defs) {c : Cls}
    (hc : OurType.cls c ∈ mm.types) (hdesc : c.cdesc ≠ []) (hch : choiceOK mm.types c = true) :
    (choiceAlts c).Nodup ∧ ∀ Y ∈ choiceAlts c, ∃ d, OurType.cls d ∈ mm.types ∧ d.abstract = false ∧
      d.withModelType = true ∧ d.mt = Y := by
  simp only [choiceOK, Bool.and_eq_true, List.all_eq_true] at hch
  refine ⟨nodupB_nodup _ hch.1, ?_⟩
  intro Y hY
  unfold choiceAlts at hY
  rcases List.mem_append.mp hY with hY | hY
  · by_cases hab : c.abstract = true
    · rw [if_pos hab] at hY; cases hY
    · rw [if_neg hab] at hY
      simp only [List.mem_singleton] at hY
      have hconc : c.abstract = false := by simpa using hab
      obtain ⟨s, hs, _⟩ := generate_concrete_lookup mm defs h hc hconc
      exact ⟨c, hc, hconc, (concrete_desc_iff defs hs hdesc .null).2.1, hY.symm⟩
  · have := hch.2 Y hY
    cases hf : findCls mm.types Y with
    | none => simp [hf] at this
    | some d =>
      simp only [hf, Bool.and_eq_true, Bool.not_eq_true'] at this
      obtain ⟨hmem, hmt⟩ := findCls_some hf
      exact ⟨d, hmem, this.1, this.2, hmt⟩

/-- **Dispatch through `_choice`, exactly**: `{"$ref": "#/definitions/<Class>_choice"}` accepts a JSON
value iff it is a well-formed document (`DocOK`) of one of the alternatives. -/
theorem choice_iff (mm : MM) (defs : Defs) (h : generate mm = .ok defs) (hwf : hierOK mm = true)
    {c : Cls} (hc : OurType.cls c ∈ mm.types) (hdesc : c.cdesc ≠ [])
    (hch : choiceOK mm.types c = true) (hhas : hasChoice (classesInProperties mm) c = true) (j : Json) :
    Valid defs (refTo (sfx c.mt "_choice")) j ↔
      ∃ d, OurType.cls d ∈ mm.types ∧ d.abstract = false ∧ d.withModelType = true ∧
        d.mt ∈ choiceAlts c ∧ DocOK mm defs d j := by
  obtain ⟨hnd, halts⟩ := alts_spec mm defs h hc hdesc hch
  have hlk := generate_choice_lookup mm defs h hc hdesc hhas
  have hvs : Valid defs (refTo (sfx c.mt "_choice")) j ↔
      Valid defs (.mk [.oneOf ((choiceAlts c).map refTo)]) j := by
    rw [valid_ref_iff, hlk]
    constructor
    · rintro ⟨s', hs', hv⟩; cases hs'; exact hv
    · intro hv; exact ⟨_, rfl, hv⟩
  rw [hvs]
  constructor
  · intro hv
    obtain ⟨s, hs, hvs'⟩ := valid_oneOf_some defs hv
    obtain ⟨Y, hY, rfl⟩ := List.mem_map.mp hs
    obtain ⟨d, hd, hdc, hdw, rfl⟩ := halts Y hY
    exact ⟨d, hd, hdc, hdw, hY, (document_iff mm defs h hwf hd hdc j).mp hvs'⟩
  · rintro ⟨d, hd, hdc, hdw, hY, hdoc⟩
    have hvd := (document_iff mm defs h hwf hd hdc j).mpr hdoc
    obtain ⟨kvs, rfl, hmt, _⟩ := hdoc
    refine (choice_exact defs (choiceAlts c) hnd ?_ hY (hmt hdw)).mpr hvd
    intro Y hY'
    obtain ⟨d', hd', hdc', hdw', rfl⟩ := halts Y hY'
    obtain ⟨s, hs, hl⟩ := generate_concrete_lookup mm defs h hd' hdc'
    exact ⟨s, hl, concrete_rejects_others defs hs hdw'⟩

end AasVerif.JsonSchema
