import AasVerif.Model.XmlText
/-! The escaped text of the XML writer is read back unchanged by an XML 1.0 parser. -/
namespace AasVerif.XmlText

theorem replaceChar_append (c : Nat) (r : Text) (a b : Text) :
    replaceChar c r (a ++ b) = replaceChar c r a ++ replaceChar c r b := by
  induction a with
  | nil => rfl
  | cons x xs ih =>
    simp only [List.cons_append, replaceChar]
    by_cases h : x = c
    · simp [h, ih]
    · simp [h, ih]

theorem escapeWith_append (steps : List (Nat × Text)) (a b : Text) :
    escapeWith steps (a ++ b) = escapeWith steps a ++ escapeWith steps b := by
  induction steps generalizing a b with
  | nil => rfl
  | cons st rest ih =>
    simp only [escapeWith, List.foldl_cons] at ih ⊢
    rw [replaceChar_append]
    exact ih _ _

theorem escape_cons (x : Nat) (xs : Text) : escape (x :: xs) = escape [x] ++ escape xs := by
  have := escapeWith_append Gen.XmlText.escapeSteps [x] xs
  simpa [escape] using this

theorem escape_nil : escape [] = [] := by
  simp [escape, escapeWith, Gen.XmlText.escapeSteps, replaceChar]

theorem escape_amp : escape [38] = [38, 97, 109, 112, 59] := by decide
theorem escape_lt : escape [60] = [38, 108, 116, 59] := by decide
theorem escape_gt : escape [62] = [38, 103, 116, 59] := by decide
theorem escape_cr : escape [13] = [38, 35, 49, 51, 59] := by decide

theorem escape_other (x : Nat) (h1 : x ≠ 38) (h2 : x ≠ 60) (h3 : x ≠ 62) (h4 : x ≠ 13) :
    escape [x] = [x] := by
  simp [escape, escapeWith, Gen.XmlText.escapeSteps, replaceChar, h1, h2, h3, h4]

theorem content_amp (k : Nat) (rest : Text) :
    contentAux (.data k) ([38, 97, 109, 112, 59] ++ rest) = consSome 38 (contentAux (.data 0) rest) := by
  simp [contentAux, decodeRef]

theorem content_lt (k : Nat) (rest : Text) :
    contentAux (.data k) ([38, 108, 116, 59] ++ rest) = consSome 60 (contentAux (.data 0) rest) := by
  simp [contentAux, decodeRef]

theorem content_gt (k : Nat) (rest : Text) :
    contentAux (.data k) ([38, 103, 116, 59] ++ rest) = consSome 62 (contentAux (.data 0) rest) := by
  simp [contentAux, decodeRef]

theorem content_cr (k : Nat) (rest : Text) :
    contentAux (.data k) ([38, 35, 49, 51, 59] ++ rest) = consSome 13 (contentAux (.data 0) rest) := by
  simp [contentAux, decodeRef, decDigits, isChar]

theorem content_other (k x : Nat) (rest : Text) (h1 : x ≠ 38) (h2 : x ≠ 60) (h3 : x ≠ 62)
    (h4 : x ≠ 13) (hc : isChar x = true) :
    contentAux (.data k) (x :: rest) = consSome x (contentAux (.data (nextK k x)) rest) := by
  simp [contentAux, h1, h2, h3, h4, hc]

theorem content_escape : ∀ (s : Text) (k : Nat), (∀ c ∈ s, isChar c = true) →
    contentAux (.data k) (escape s) = some s
  | [], k, _ => by simp [escape_nil, contentAux]
  | x :: xs, k, h => by
    have ih := fun k' => content_escape xs k' (fun c hc => h c (List.mem_cons_of_mem _ hc))
    have hx := h x List.mem_cons_self
    rw [escape_cons]
    by_cases h1 : x = 38
    · subst h1; rw [escape_amp, content_amp, ih]; rfl
    · by_cases h2 : x = 60
      · subst h2; rw [escape_lt, content_lt, ih]; rfl
      · by_cases h3 : x = 62
        · subst h3; rw [escape_gt, content_gt, ih]; rfl
        · by_cases h4 : x = 13
          · subst h4; rw [escape_cr, content_cr, ih]; rfl
          · rw [escape_other x h1 h2 h3 h4]
            simp only [List.cons_append, List.nil_append]
            rw [content_other k x _ h1 h2 h3 h4 hx, ih]; rfl

end AasVerif.XmlText
