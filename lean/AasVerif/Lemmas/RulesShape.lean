import AasVerif.Model.Rules
/-! Type shapes: the recursive test of the checker decides `Ty.Supported`. -/
namespace AasVerif.Rules
open AasVerif

theorem Ty.sub_prim {s : Ty} {n : Text} : Ty.Sub s (.prim n) ↔ s = .prim n := by
  constructor
  · intro h; cases h; rfl
  · rintro rfl; exact .refl _

theorem Ty.sub_ref {s : Ty} {n : Text} : Ty.Sub s (.ref n) ↔ s = .ref n := by
  constructor
  · intro h; cases h; rfl
  · rintro rfl; exact .refl _

theorem Ty.sub_list {s t : Ty} : Ty.Sub s (.list t) ↔ s = .list t ∨ Ty.Sub s t := by
  constructor
  · intro h
    cases h with
    | refl => exact .inl rfl
    | list h' => exact .inr h'
  · rintro (rfl | h)
    · exact .refl _
    · exact .list h

theorem Ty.sub_opt {s t : Ty} : Ty.Sub s (.opt t) ↔ s = .opt t ∨ Ty.Sub s t := by
  constructor
  · intro h
    cases h with
    | refl => exact .inl rfl
    | opt h' => exact .inr h'
  · rintro (rfl | h)
    · exact .refl _
    · exact .opt h

theorem Ty.isOpt_false_iff (t : Ty) : t.isOpt = false ↔ ∀ u, t ≠ .opt u := by
  cases t <;> simp [Ty.isOpt]

theorem Ty.supported_list (t : Ty) : (Ty.list t).Supported ↔ t.isOpt = false ∧ t.Supported := by
  unfold Ty.Supported
  constructor
  · intro h
    refine ⟨?_, fun s hs => h s (.list hs)⟩
    rw [Ty.isOpt_false_iff]
    intro u hu
    exact (h (.list t) (.refl _)).2 u (by rw [hu])
  · rintro ⟨h1, h2⟩ s hs
    rcases Ty.sub_list.mp hs with rfl | hs
    · refine ⟨(fun u hu => nomatch hu), fun u hu => ?_⟩
      rw [Ty.isOpt_false_iff] at h1
      exact h1 u (by injection hu)
    · exact h2 s hs

theorem Ty.supported_opt (t : Ty) : (Ty.opt t).Supported ↔ t.isOpt = false ∧ t.Supported := by
  unfold Ty.Supported
  constructor
  · intro h
    refine ⟨?_, fun s hs => h s (.opt hs)⟩
    rw [Ty.isOpt_false_iff]
    intro u hu
    exact (h (.opt t) (.refl _)).1 u (by rw [hu])
  · rintro ⟨h1, h2⟩ s hs
    rcases Ty.sub_opt.mp hs with rfl | hs
    · refine ⟨fun u hu => ?_, fun u hu => nomatch hu⟩
      rw [Ty.isOpt_false_iff] at h1
      exact h1 u (by injection hu)
    · exact h2 s hs

/-- The recursive shape test accepts a type iff it contains neither a nested optional nor a
list of optionals at any depth. -/
theorem Ty.shape_ok_iff (t : Ty) :
    (t.hasNestedOpt = false ∧ t.hasListOfOpt = false) ↔ t.Supported := by
  induction t with
  | prim n =>
    simp only [Ty.hasNestedOpt, Ty.hasListOfOpt, true_and]
    unfold Ty.Supported
    constructor
    · intro _ s hs
      rw [Ty.sub_prim.mp hs]
      exact ⟨(fun u hu => nomatch hu), fun u hu => nomatch hu⟩
    · intro _; trivial
  | ref n =>
    simp only [Ty.hasNestedOpt, Ty.hasListOfOpt, true_and]
    unfold Ty.Supported
    constructor
    · intro _ s hs
      rw [Ty.sub_ref.mp hs]
      exact ⟨(fun u hu => nomatch hu), fun u hu => nomatch hu⟩
    · intro _; trivial
  | list t ih =>
    rw [Ty.supported_list, ← ih]
    simp only [Ty.hasNestedOpt, Ty.hasListOfOpt, Bool.or_eq_false_iff]
    constructor
    · rintro ⟨h1, h2, h3⟩; exact ⟨h2, h1, h3⟩
    · rintro ⟨h2, h1, h3⟩; exact ⟨h1, h2, h3⟩
  | opt t ih =>
    rw [Ty.supported_opt, ← ih]
    simp only [Ty.hasNestedOpt, Ty.hasListOfOpt, Bool.or_eq_false_iff]
    constructor
    · rintro ⟨⟨h1, h2⟩, h3⟩; exact ⟨h1, h2, h3⟩
    · rintro ⟨h1, h2, h3⟩; exact ⟨⟨h1, h2⟩, h3⟩

theorem shapeErrors_eq_nil (m : MM) :
    shapeErrors m = [] ↔ ∀ c ∈ m.classes, ∀ p ∈ stackedProps m.classes c, p.ty.Supported := by
  unfold shapeErrors
  simp only [List.flatMap_eq_nil_iff, List.append_eq_nil_iff]
  constructor
  · intro h c hc p hp
    rw [← Ty.shape_ok_iff]
    obtain ⟨h1, h2⟩ := h c hc p hp
    constructor
    · cases hb : p.ty.hasNestedOpt <;> simp [hb] at h1 ⊢
    · cases hb : p.ty.hasListOfOpt <;> simp [hb] at h2 ⊢
  · intro h c hc p hp
    obtain ⟨h1, h2⟩ := (Ty.shape_ok_iff p.ty).mpr (h c hc p hp)
    simp [h1, h2]

end AasVerif.Rules
