import AasVerif.Model.Retree.Parse
import AasVerif.Model.Retree.InRange
/-!
Leaf lemmas for the model of `retree.parse`: the cursor primitives consume tokens, numbers are
bounded, and the outcome predicate `Good` used by `Lemmas/RetreeSpec`.
-/
namespace AasVerif.Retree

/-- What every parsing function guarantees for an input of `n` tokens: a value satisfying `P`
together with at most `n` remaining tokens, or an error positioned within the input, or —
only when `lowFuel` — running out of fuel.  No other crash site. -/
def Good {α : Type} (P : α → List Tok → Prop) (n : Nat) (lowFuel : Prop) : Res (α × List Tok) → Prop
  | .ok (a, r) => r.length ≤ n ∧ P a r
  | .err _ rem => rem ≤ n
  | .crash s => s = .fuel ∧ lowFuel

theorem Good.mono {α : Type} {P Q : α → List Tok → Prop} {n m : Nat} {lf lf' : Prop} {x : Res (α × List Tok)}
    (h : Good P n lf x) (hPQ : ∀ a r, r.length ≤ n → P a r → Q a r) (hnm : n ≤ m) (hlf : lf → lf') :
    Good Q m lf' x := by
  cases x with
  | ok v => obtain ⟨a, r⟩ := v; exact ⟨Nat.le_trans h.1 hnm, hPQ a r h.1 h.2⟩
  | err k rem => exact Nat.le_trans h hnm
  | crash s => exact ⟨h.1, hlf h.2⟩

/-! ### takeDigits / parseNat / skipWs -/

theorem takeDigits_length (ts : List Tok) : (takeDigits ts).2.length ≤ ts.length := by
  induction ts with
  | nil => simp [takeDigits]
  | cons t ts ih =>
    cases t with
    | fv i => simp [takeDigits]
    | ch c =>
      simp only [takeDigits]
      split
      · simp only [List.length_cons]; omega
      · simp

theorem parseNat_length (ts : List Tok) : (parseNat ts).2.length ≤ ts.length := by
  unfold parseNat
  split
  · simp
  · exact takeDigits_length ts

theorem skipWs_length (ts : List Tok) : (skipWs ts).length ≤ ts.length := by
  induction ts with
  | nil => simp [skipWs]
  | cons t ts ih =>
    cases t with
    | fv i => simp [skipWs]
    | ch c =>
      simp only [skipWs]
      split
      · simp only [List.length_cons]; omega
      · simp

/-! ### hexadecimal -/

theorem hexVal1_lt (c v : Nat) (h : hexVal1 c = some v) : v < 16 := by
  unfold hexVal1 at h
  split at h
  · injection h; omega
  · split at h
    · injection h; omega
    · split at h
      · injection h; omega
      · cases h

def hexFold (acc : Option Nat) (c : Nat) : Option Nat :=
  match acc, hexVal1 c with
  | some a, some d => some (a * 16 + d)
  | _, _ => none

theorem hexFold_none (cs : List Nat) : cs.foldl hexFold none = none := by
  induction cs with
  | nil => rfl
  | cons c cs ih => simp [List.foldl, hexFold, ih]

theorem hexFold_bound (cs : List Nat) (a v : Nat) (b : Nat) (ha : a < b)
    (h : cs.foldl hexFold (some a) = some v) : v < b * 16 ^ cs.length := by
  induction cs generalizing a b with
  | nil => simp at h; subst h; simpa using ha
  | cons c cs ih =>
    simp only [List.foldl] at h
    cases hc : hexVal1 c with
    | none => simp [hexFold, hc, hexFold_none] at h
    | some d =>
      have hd := hexVal1_lt c d hc
      simp only [hexFold, hc] at h
      have := ih (a * 16 + d) (b * 16) (by omega) h
      simpa [Nat.pow_succ, Nat.mul_assoc, Nat.mul_comm 16] using this

theorem hexVal_lt (cs : List Nat) (v : Nat) (h : hexVal cs = some v) : v < 16 ^ cs.length := by
  cases cs with
  | nil => simp [hexVal] at h; subst h; simp
  | cons c cs =>
    have h' : (c :: cs).foldl hexFold (some 0) = some v := h
    have := hexFold_bound (c :: cs) 0 v 1 (by omega) h'
    simpa using this

theorem takeChars_spec : ∀ (n : Nat) (ts : List Tok) (cs : List Nat) (r : List Tok),
    takeChars n ts = some (cs, r) → cs.length = n ∧ ts = cs.map Tok.ch ++ r := by
  intro n
  induction n with
  | zero => intro ts cs r h; simp [takeChars] at h; obtain ⟨rfl, rfl⟩ := h; simp
  | succ n ih =>
    intro ts cs r h
    cases ts with
    | nil => simp [takeChars] at h
    | cons t ts =>
      cases t with
      | fv i => simp [takeChars] at h
      | ch c =>
        simp only [takeChars] at h
        cases h' : takeChars n ts with
        | none => simp [h'] at h
        | some p =>
          obtain ⟨cs', r'⟩ := p
          simp only [h', Option.some.injEq, Prod.mk.injEq] at h
          obtain ⟨rfl, rfl⟩ := h
          obtain ⟨h1, h2⟩ := ih ts cs' r' h'
          subst h2
          simp [h1]

end AasVerif.Retree
