import AasVerif.Model.Report
namespace AasVerif.PyStr

theorem splitKeepAux_flatten (cur t : Text) :
    (splitKeepAux cur t).flatten = cur.reverse ++ t := by
  fun_induction splitKeepAux cur t <;> simp_all

theorem splitlinesKeep_flatten (t : Text) : (splitlinesKeep t).flatten = t := by
  simp [splitlinesKeep, splitKeepAux_flatten]

end AasVerif.PyStr
