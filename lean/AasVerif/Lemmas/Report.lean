import AasVerif.Model.Report
namespace AasVerif.PyStr

theorem splitKeepAux_flatten (cur t : Text) :
    (splitKeepAux cur t).flatten = cur.reverse ++ t := by
  fun_induction splitKeepAux cur t <;> simp_all

theorem splitlinesKeep_flatten (t : Text) : (splitlinesKeep t).flatten = t := by
  simp [splitlinesKeep, splitKeepAux_flatten]

end AasVerif.PyStr

namespace AasVerif.PyStr

/-- Python `text.split(sep)` for a one-character separator. -/
def splitOn (sep : Nat) : Text → List Text
  | [] => [[]]
  | c :: cs =>
    if c = sep then [] :: splitOn sep cs
    else match splitOn sep cs with
      | [] => [[c]]
      | p :: ps => (c :: p) :: ps

theorem splitOn_ne_nil (sep : Nat) (t : Text) : splitOn sep t ≠ [] := by
  induction t with
  | nil => simp [splitOn]
  | cons c cs ih =>
    unfold splitOn
    split
    · simp
    · split <;> simp

/-- Prepend `p` to the first element. -/
def consHead (p : Text) : List Text → List Text
  | [] => [p]
  | l :: ls => (p ++ l) :: ls

theorem splitOn_not_mem (sep : Nat) (t : Text) (h : sep ∉ t) : splitOn sep t = [t] := by
  induction t with
  | nil => rfl
  | cons c cs ih =>
    have hc : c ≠ sep := fun e => h (by simp [e])
    have hcs : sep ∉ cs := fun e => h (by simp [e])
    unfold splitOn
    simp [hc, ih hcs]

theorem splitOn_prefix (sep : Nat) (a t : Text) (h : sep ∉ a) :
    splitOn sep (a ++ t) = consHead a (splitOn sep t) := by
  induction a with
  | nil =>
    cases hs : splitOn sep t with
    | nil => exact absurd hs (splitOn_ne_nil sep t)
    | cons p ps => simp [consHead, hs]
  | cons c cs ih =>
    have hc : c ≠ sep := fun e => h (by simp [e])
    have hcs : sep ∉ cs := fun e => h (by simp [e])
    rw [List.cons_append, splitOn]
    simp only [hc, if_false]
    rw [ih hcs]
    cases hs : splitOn sep t with
    | nil => exact absurd hs (splitOn_ne_nil sep t)
    | cons p ps => simp [consHead]

theorem splitOn_append_sep (sep : Nat) (a b : Text) :
    splitOn sep (a ++ sep :: b) = splitOn sep a ++ splitOn sep b := by
  induction a with
  | nil => simp [splitOn]
  | cons c cs ih =>
    rw [List.cons_append]
    simp only [splitOn]
    split
    · simp [ih]
    · rw [ih]
      cases hs : splitOn sep cs with
      | nil => exact absurd hs (splitOn_ne_nil sep cs)
      | cons p ps => simp

theorem splitOn_parts_free (sep : Nat) (t : Text) : ∀ p ∈ splitOn sep t, sep ∉ p := by
  induction t with
  | nil => simp [splitOn]
  | cons c cs ih =>
    unfold splitOn
    split
    · intro p hp
      simp only [List.mem_cons] at hp
      rcases hp with h | h
      · simp [h]
      · exact ih p h
    · next hne =>
      cases hs : splitOn sep cs with
      | nil => exact absurd hs (splitOn_ne_nil sep cs)
      | cons q qs =>
        rw [hs] at ih
        intro p hp
        simp only [List.mem_cons] at hp
        rcases hp with h | h
        · subst h
          have := ih q (by simp)
          intro hm
          simp only [List.mem_cons] at hm
          rcases hm with h' | h'
          · exact hne h'.symm
          · exact this h'
        · exact ih p (by simp [h])

/-- The kept lines (`splitlines(True)`) of a text whose only line breaks are `\n`,
given its `\n`-separated parts. -/
def keepLines : List Text → List Text
  | [] => []
  | [l] => if l.isEmpty then [] else [l]
  | l :: ls => (l ++ [10]) :: keepLines ls

def OnlyNlBreaks (t : Text) : Prop := ∀ c ∈ t, isBreak c = true → c = 10

theorem splitKeepAux_nl (cur t : Text) (h : OnlyNlBreaks t) :
    splitKeepAux cur t = keepLines (consHead cur.reverse (splitOn 10 t)) := by
  induction t generalizing cur with
  | nil =>
    simp only [splitKeepAux, splitOn, consHead, keepLines, List.append_nil]
    by_cases hc : cur = [] <;> simp [hc]
  | cons c rest ih =>
    have hrest : OnlyNlBreaks rest := fun d hd hb => h d (by simp [hd]) hb
    by_cases hb : isBreak c = true
    · have hc : c = 10 := h c (by simp) hb
      subst hc
      have : splitKeepAux cur (10 :: rest) = (10 :: cur).reverse :: splitKeepAux [] rest := by
        rw [splitKeepAux.eq_3 _ _ _ (by intro r hr; simp at hr)]
        simp [hb]
      rw [this, ih [] hrest]
      simp only [splitOn, if_true, consHead, List.reverse_nil, List.append_nil, List.reverse_cons]
      cases hs : splitOn 10 rest with
      | nil => exact absurd hs (splitOn_ne_nil 10 rest)
      | cons p ps => simp [keepLines]
    · have hne : c ≠ 10 := by
        intro e; subst e; exact hb (by decide)
      have hne13 : ¬ (c = 13 ∧ ∃ r, rest = 10 :: r) := by
        intro ⟨e, _⟩; subst e; exact hb (by decide)
      have : splitKeepAux cur (c :: rest) = splitKeepAux (c :: cur) rest := by
        rw [splitKeepAux.eq_3 _ _ _ (by intro r h1 h2; exact hne13 ⟨h1, r, h2⟩)]
        simp [hb]
      rw [this, ih (c :: cur) hrest]
      simp only [splitOn, hne, if_false]
      cases hs : splitOn 10 rest with
      | nil => exact absurd hs (splitOn_ne_nil 10 rest)
      | cons p ps => simp [consHead]

theorem splitlinesKeep_nl (t : Text) (h : OnlyNlBreaks t) :
    splitlinesKeep t = keepLines (splitOn 10 t) := by
  rw [splitlinesKeep, splitKeepAux_nl [] t h]
  cases hs : splitOn 10 t with
  | nil => exact absurd hs (splitOn_ne_nil 10 t)
  | cons p ps => simp [consHead]

end AasVerif.PyStr

namespace AasVerif.Report
open AasVerif.PyStr

/-- A continuation line as it appears in the report: indented by two spaces unless blank. -/
def ind (l : Text) : Text := if hasNonSpace l = true then [32, 32] ++ l else l

theorem hasNonSpace_append_nl (l : Text) : hasNonSpace (l ++ [10]) = hasNonSpace l := by
  simp [hasNonSpace, isSpace]

def renderLines (ls : List Text) : Text :=
  ((keepLines ls).map (fun line => if hasNonSpace line = true then [32, 32] ++ line else line)).flatten

theorem indent_nl (e : Text) (h : OnlyNlBreaks e) :
    indent [32, 32] e = renderLines (splitOn 10 e) := by
  rw [indent, splitlinesKeep_nl e h, renderLines]

theorem ind_no_nl (l : Text) (h : 10 ∉ l) : 10 ∉ ind l := by
  unfold ind
  split <;> simp [h]

theorem renderLines_cons_cons (l l' : Text) (ls : List Text) :
    renderLines (l :: l' :: ls) = ind l ++ 10 :: renderLines (l' :: ls) := by
  simp only [renderLines, keepLines, List.map_cons, List.flatten_cons, hasNonSpace_append_nl, ind]
  split <;> simp

theorem splitOn_renderLines (ls : List Text) (hne : ls ≠ []) (hfree : ∀ l ∈ ls, 10 ∉ l) :
    splitOn 10 (renderLines ls) = ls.map ind := by
  induction ls with
  | nil => exact absurd rfl hne
  | cons l rest ih =>
    cases rest with
    | nil =>
      have hl : 10 ∉ l := hfree l (by simp)
      by_cases he : l = []
      · subst he
        simp [renderLines, keepLines, splitOn, ind, hasNonSpace]
      · have : renderLines [l] = ind l := by
          simp [renderLines, keepLines, he, ind]
        rw [this, splitOn_not_mem 10 _ (ind_no_nl l hl)]
        rfl
    | cons l' ls =>
      have hl : 10 ∉ l := hfree l (by simp)
      rw [renderLines_cons_cons, splitOn_append_sep,
        splitOn_not_mem 10 _ (ind_no_nl l hl), ih (by simp) (fun x hx => hfree x (by simp [hx]))]
      rfl

end AasVerif.Report

namespace AasVerif.Report
open AasVerif.PyStr

/-- The `\n`-lines of the bullet of `e`, given the `\n`-lines of `e`. -/
def bulletLines (e : Text) : List Text :=
  match splitOn 10 e with
  | l0 :: ls => ([42, 32] ++ l0) :: ls.map ind
  | [] => []

theorem consHead_inj (a : Text) (x y : List Text) (hx : x ≠ []) (hy : y ≠ [])
    (h : consHead a x = consHead a y) : x = y := by
  cases x with
  | nil => exact absurd rfl hx
  | cons p ps =>
    cases y with
    | nil => exact absurd rfl hy
    | cons q qs =>
      simp only [consHead, List.cons.injEq, List.append_cancel_left_eq] at h
      rw [h.1, h.2]

theorem renderLines_visible (l0 : Text) (ls : List Text) (hv : hasNonSpace l0 = true) :
    renderLines (l0 :: ls) = [32, 32] ++ (renderLines (l0 :: ls)).drop 2 := by
  have hne : l0 ≠ [] := by
    intro e; subst e; simp [hasNonSpace] at hv
  cases ls with
  | nil => simp [renderLines, keepLines, hne, hv]
  | cons l' ls' => rw [renderLines_cons_cons]; simp [ind, hv]

/-- Under `\n`-only line structure and a visible first line, the bullet of `e` is
`"* " ++ X ++ "\n"` where the `\n`-lines of `"* " ++ X` are `bulletLines e`. -/
theorem bullet_lines (e : Text) (hnl : OnlyNlBreaks e)
    (hv : ∀ l0 ls, splitOn 10 e = l0 :: ls → hasNonSpace l0 = true) :
    ∃ X, bullet e = [42, 32] ++ X ++ [10] ∧ splitOn 10 ([42, 32] ++ X) = bulletLines e := by
  cases hs : splitOn 10 e with
  | nil => exact absurd hs (splitOn_ne_nil 10 e)
  | cons l0 ls =>
    have hvis := hv l0 ls hs
    refine ⟨(renderLines (l0 :: ls)).drop 2, ?_, ?_⟩
    · rw [bullet, indent_nl e hnl, hs]
    · have hfree : ∀ l ∈ l0 :: ls, 10 ∉ l := by
        intro l hl; rw [← hs] at hl; exact splitOn_parts_free 10 e l hl
      have h1 := splitOn_renderLines (l0 :: ls) (by simp) hfree
      rw [renderLines_visible l0 ls hvis,
        splitOn_prefix 10 [32, 32] _ (by decide)] at h1
      have h2 : (l0 :: ls).map ind = consHead [32, 32] (l0 :: ls.map ind) := by
        simp [consHead, ind, hvis]
      rw [h2] at h1
      have h3 := consHead_inj _ _ _ (splitOn_ne_nil 10 _) (by simp) h1
      rw [splitOn_prefix 10 [42, 32] _ (by decide), h3, bulletLines, hs]
      rfl

theorem splitOn_bullets (es : List Text) (f : Text → List Text)
    (h : ∀ e ∈ es, ∃ X, bullet e = [42, 32] ++ X ++ [10] ∧ splitOn 10 ([42, 32] ++ X) = f e) :
    splitOn 10 (es.map bullet).flatten = es.flatMap f ++ [[]] := by
  induction es with
  | nil => simp [splitOn]
  | cons e rest ih =>
    obtain ⟨X, hb, hl⟩ := h e (by simp)
    simp only [List.map_cons, List.flatten_cons, List.flatMap_cons]
    rw [hb]
    have : [42, 32] ++ X ++ [10] ++ (List.map bullet rest).flatten
        = ([42, 32] ++ X) ++ 10 :: (List.map bullet rest).flatten := by simp
    rw [this, splitOn_append_sep, hl, ih (fun e' he' => h e' (by simp [he']))]
    simp

end AasVerif.Report
