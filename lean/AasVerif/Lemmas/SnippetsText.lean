import AasVerif.Model.Snippets
/-! `str.strip()`, universal newlines, `"/".join` / `split("/")`. -/
namespace AasVerif.Snippets

/-! ### strip -/

theorem strip_prefix_dropWhile (t : Text) : strip t <+: t.dropWhile isSpace := by
  unfold strip
  have h : (t.dropWhile isSpace).reverse.dropWhile isSpace <:+ (t.dropWhile isSpace).reverse :=
    List.dropWhile_suffix _
  have := List.reverse_prefix.mpr h
  simpa using this

theorem head_dropWhile_not (p : Nat → Bool) (l : List Nat) (c : Nat) :
    (l.dropWhile p).head? = some c → p c = false := by
  induction l with
  | nil => simp
  | cons x xs ih =>
    simp only [List.dropWhile_cons]
    split
    · exact ih
    · next hx => intro h; simp at h; subst h; simpa using hx

theorem strip_head_not_space (t : Text) (c : Nat) : (strip t).head? = some c → isSpace c = false := by
  intro h
  obtain ⟨r, hr⟩ := strip_prefix_dropWhile t
  cases hs : strip t with
  | nil => rw [hs] at h; simp at h
  | cons x xs =>
    rw [hs] at h hr
    simp at h; subst h
    apply head_dropWhile_not isSpace t
    rw [← hr]; simp

theorem strip_getLast_not_space (t : Text) (c : Nat) : (strip t).getLast? = some c → isSpace c = false := by
  unfold strip
  rw [List.getLast?_reverse]
  exact head_dropWhile_not isSpace _ c

/-- The precondition of `Stripped.__new__` holds for whatever `str.strip()` returns. -/
theorem isStripped_strip (t : Text) : isStripped (strip t) = true := by
  unfold isStripped
  have hh := strip_head_not_space t
  have hl := strip_getLast_not_space t
  cases h1 : (strip t).head? with
  | none =>
    cases h2 : (strip t).getLast? with
    | none => simp
    | some d =>
      have := hl d h2
      by_cases d10 : d = 10 <;> by_cases d32 : d = 32 <;> by_cases d9 : d = 9 <;>
        simp_all [isSpace]
  | some c =>
    have hc := hh c h1
    cases h2 : (strip t).getLast? with
    | none =>
      by_cases c10 : c = 10 <;> by_cases c32 : c = 32 <;> by_cases c9 : c = 9 <;>
        simp_all [isSpace]
    | some d =>
      have hd := hl d h2
      by_cases c10 : c = 10 <;> by_cases c32 : c = 32 <;> by_cases c9 : c = 9 <;>
      by_cases d10 : d = 10 <;> by_cases d32 : d = 32 <;> by_cases d9 : d = 9 <;>
        simp_all [isSpace]

theorem all_takeWhile (p : Nat → Bool) (l : List Nat) : (l.takeWhile p).all p = true := by
  induction l with
  | nil => simp
  | cons x xs ih =>
    simp only [List.takeWhile_cons]
    split
    · next hx => simp [hx]
    · simp

/-- What is cut off on both sides. -/
theorem strip_decompose (t : Text) :
    t = t.takeWhile isSpace ++ strip t ++ ((t.dropWhile isSpace).reverse.takeWhile isSpace).reverse := by
  unfold strip
  have h1 : t = t.takeWhile isSpace ++ t.dropWhile isSpace := (List.takeWhile_append_dropWhile).symm
  have h2 : (t.dropWhile isSpace).reverse =
      (t.dropWhile isSpace).reverse.takeWhile isSpace ++ (t.dropWhile isSpace).reverse.dropWhile isSpace :=
    (List.takeWhile_append_dropWhile).symm
  have h3 := congrArg List.reverse h2
  simp only [List.reverse_reverse, List.reverse_append] at h3
  rw [List.append_assoc, ← h3]
  exact h1

/-! ### universal newlines -/

theorem universalNewlines_of_no_cr (t : Text) (h : 13 ∉ t) : universalNewlines t = t := by
  induction t with
  | nil => rfl
  | cons c cs ih =>
    have hc : c ≠ 13 := fun e => h (by simp [e])
    have hcs : 13 ∉ cs := fun e => h (by simp [e])
    unfold universalNewlines
    split
    · simp_all
    · simp_all
    · simp_all
    · next heq => cases heq; rw [ih hcs]

/-! ### posix / splitSlash -/

theorem splitSlash_ne_nil (t : Text) : splitSlash t ≠ [] := by
  induction t with
  | nil => simp [splitSlash]
  | cons c cs ih =>
    unfold splitSlash
    split
    · simp
    · split <;> simp

theorem splitSlash_no_slash (n : Text) (h : 47 ∉ n) : splitSlash n = [n] := by
  induction n with
  | nil => rfl
  | cons c cs ih =>
    have hc : c ≠ 47 := fun e => h (by simp [e])
    have hcs : 47 ∉ cs := fun e => h (by simp [e])
    unfold splitSlash
    rw [if_neg hc, ih hcs]

theorem splitSlash_append (n rest : Text) (h : 47 ∉ n) :
    splitSlash (n ++ 47 :: rest) = n :: splitSlash rest := by
  induction n with
  | nil => simp [splitSlash]
  | cons c cs ih =>
    have hc : c ≠ 47 := fun e => h (by simp [e])
    have hcs : 47 ∉ cs := fun e => h (by simp [e])
    simp only [List.cons_append]
    rw [splitSlash, if_neg hc, ih hcs]

/-- Components as a file system has them: not empty, no `/` inside. -/
def NamesOk (rel : List Text) : Prop := ∀ n ∈ rel, n ≠ [] ∧ 47 ∉ n

theorem splitSlash_posix (rel : List Text) (hne : rel ≠ []) (h : NamesOk rel) :
    splitSlash (posix rel) = rel := by
  induction rel with
  | nil => exact absurd rfl hne
  | cons n ns ih =>
    cases ns with
    | nil => simp only [posix]; exact splitSlash_no_slash n (h n (by simp)).2
    | cons m ms =>
      simp only [posix]
      rw [splitSlash_append n _ (h n (by simp)).2]
      have := ih (by simp) (fun x hx => h x (by simp [hx]))
      rw [this]

theorem posix_ne_nil (rel : List Text) (hne : rel ≠ []) (h : NamesOk rel) : posix rel ≠ [] := by
  cases rel with
  | nil => exact absurd rfl hne
  | cons n ns =>
    have hn := (h n (by simp)).1
    cases ns with
    | nil => simpa [posix] using hn
    | cons m ms => simp [posix, hn]

/-- `as_posix()` is injective on real relative paths, so distinct files have distinct keys. -/
theorem posix_injective (a b : List Text) (ha : NamesOk a) (hb : NamesOk b) (h : posix a = posix b) : a = b := by
  by_cases ea : a = []
  · by_cases eb : b = []
    · rw [ea, eb]
    · subst ea
      exact absurd h.symm (by simpa [posix] using posix_ne_nil b eb hb)
  · by_cases eb : b = []
    · subst eb
      exact absurd h (by simpa [posix] using posix_ne_nil a ea ha)
    · rw [← splitSlash_posix a ea ha, ← splitSlash_posix b eb hb, h]

end AasVerif.Snippets

namespace AasVerif.Snippets

/-! ### the key language -/

theorem posix_cons_cons (p q : Text) (ps : List Text) : posix (p :: q :: ps) = p ++ 47 :: posix (q :: ps) := rfl

theorem posix_splitSlash (k : Text) : posix (splitSlash k) = k := by
  induction k with
  | nil => rfl
  | cons c cs ih =>
    unfold splitSlash
    split
    · next h =>
      subst h
      cases hs : splitSlash cs with
      | nil => exact absurd hs (splitSlash_ne_nil cs)
      | cons p ps => rw [posix_cons_cons, ← hs, ih]; rfl
    · cases hs : splitSlash cs with
      | nil => exact absurd hs (splitSlash_ne_nil cs)
      | cons p ps =>
        rw [hs] at ih
        cases ps with
        | nil => simp [posix] at ih ⊢; exact ih
        | cons q qs =>
          simp only [posix_cons_cons] at ih ⊢
          rw [← ih]; rfl

theorem isTail_ne_slash (c : Nat) (h : isTail c = true) : c ≠ 47 := by
  intro e; subst e; simp [isTail] at h

theorem isHead_isTail (c : Nat) (h : isHead c = true) : isTail c = true := by
  simp only [isHead, isTail, Bool.or_eq_true, Bool.and_eq_true, decide_eq_true_eq, beq_iff_eq] at h ⊢
  omega

theorem validSegment_namesOk (s : Text) (h : validSegment s = true) : s ≠ [] ∧ 47 ∉ s := by
  cases s with
  | nil => simp [validSegment] at h
  | cons c cs =>
    simp only [validSegment, Bool.and_eq_true, List.all_eq_true] at h
    refine ⟨by simp, ?_⟩
    intro hm
    rcases List.mem_cons.mp hm with e | hm
    · exact isTail_ne_slash c (isHead_isTail c h.1) e.symm
    · exact isTail_ne_slash 47 (h.2 47 hm) rfl

/-- `validKey` accepts exactly the language of `SEG(/SEG)*` with `SEG = [a-zA-Z_][a-zA-Z_0-9.]*`:
the `/`-joins of one or more valid segments. -/
theorem validKey_iff (k : Text) :
    validKey k = true ↔ ∃ segs, segs ≠ [] ∧ posix segs = k ∧ ∀ s ∈ segs, validSegment s = true := by
  constructor
  · intro h
    exact ⟨splitSlash k, splitSlash_ne_nil k, posix_splitSlash k, by simpa [validKey] using h⟩
  · rintro ⟨segs, hne, rfl, hv⟩
    unfold validKey
    rw [splitSlash_posix segs hne (fun n hn => validSegment_namesOk n (hv n hn))]
    simpa using hv

end AasVerif.Snippets
