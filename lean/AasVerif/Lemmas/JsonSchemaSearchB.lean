import AasVerif.Lemmas.JsonSchemaSearchSem
import AasVerif.Lemmas.JsonSchemaSearchFuel
/-!
`searchB` — the executable, un-anchored regex search which `JsonSchema.validates` uses for the
`pattern` keyword and which the driver runs on every C11/C12 verdict — IS the denotational semantics
of `Retree.Sem`:

  `searchB r u = .yes ↔ ∃ a b c, u = a ++ b ++ c ∧ MUnion r a b c`      (`Search r u`)
  `searchB r u = .no  ↔ ¬ Search r u`
  `searchB r u ≠ .out`                                                     (the fuel is enough)

for every regex tree (anchors look at their context `a`/`c`, formatted values match nothing) and every
text (any alphabet: the units are UTF-16 code units in the schema properties).
-/
namespace AasVerif.JsonSchema
open AasVerif AasVerif.Retree

/-- `re.search` in the denotational semantics: some substring matches in its context -/
def Search (r : Regex) (u : Text) : Prop := ∃ a b c, u = a ++ b ++ c ∧ MUnion r a b c

/-- a match that starts in `rest`, the text before being `pre` -/
def Found (r : Regex) (pre rest : Text) : Prop := ∃ a b c, rest = a ++ b ++ c ∧ MUnion r (pre ++ a) b c

theorem mUnion_yes_found {fuel : Nat} {r : Regex} {pre rest : Text}
    (h : mUnion fuel r pre rest (fun _ _ => .yes) = .yes) : Found r pre rest := by
  obtain ⟨s, r', hs, hm, _⟩ := (spec_all fuel).sU r pre rest _ h
  exact ⟨[], s, r', by simpa using hs, by simpa using hm⟩

theorem mUnion_no_here {fuel : Nat} {r : Regex} {pre rest : Text}
    (h : mUnion fuel r pre rest (fun _ _ => .yes) = .no) (b c : Text) (hs : rest = b ++ c) :
    ¬ MUnion r pre b c := by
  intro hm
  have := (spec_all fuel).eU r pre rest _ h b c hs hm
  cases this

theorem searchFrom_yes {fuel : Nat} {r : Regex} : ∀ (rest pre : Text),
    searchFrom fuel r pre rest = .yes → Found r pre rest
  | [], pre, h => by
    simp only [searchFrom] at h
    exact mUnion_yes_found h
  | x :: t, pre, h => by
    simp only [searchFrom] at h
    rw [orElse_yes_iff] at h
    rcases h with h | h
    · exact mUnion_yes_found h
    · obtain ⟨a, b, c, hs, hm⟩ := searchFrom_yes t (pre ++ [x]) h
      exact ⟨x :: a, b, c, by simp [hs], by simpa using hm⟩

theorem searchFrom_no {fuel : Nat} {r : Regex} : ∀ (rest pre : Text),
    searchFrom fuel r pre rest = .no → ¬ Found r pre rest
  | [], pre, h => by
    simp only [searchFrom] at h
    rintro ⟨a, b, c, hs, hm⟩
    have ha : a = [] := by
      cases a with
      | nil => rfl
      | cons _ _ => simp at hs
    subst ha
    exact mUnion_no_here h b c (by simpa using hs) (by simpa using hm)
  | x :: t, pre, h => by
    simp only [searchFrom] at h
    rw [orElse_no_iff] at h
    rintro ⟨a, b, c, hs, hm⟩
    cases a with
    | nil => exact mUnion_no_here h.1 b c (by simpa using hs) (by simpa using hm)
    | cons y a =>
      simp only [List.cons_append, List.cons.injEq] at hs
      obtain ⟨rfl, hs⟩ := hs
      exact searchFrom_no t (pre ++ [x]) h.2 ⟨a, b, c, hs, by simpa using hm⟩

theorem searchFrom_ne_out {fuel L : Nat} {r : Regex} (hf : needUnion L r ≤ fuel) : ∀ (rest pre : Text),
    rest.length ≤ L → searchFrom fuel r pre rest ≠ .out
  | [], pre, hL => by
    simp only [searchFrom]
    exact (fuel_all L fuel).oU r pre [] _ hf hL (fun _ _ _ => by simp)
  | x :: t, pre, hL => by
    simp only [searchFrom]
    apply orElse_ne_out
    · exact (fuel_all L fuel).oU r pre (x :: t) _ hf hL (fun _ _ _ => by simp)
    · exact searchFrom_ne_out hf t (pre ++ [x]) (by simp only [List.length_cons] at hL; omega)

/-- **`searchB` answers `yes` exactly when the semantics has a match somewhere in the text.** -/
theorem searchB_yes_iff (r : Regex) (u : Text) : searchB r u = .yes ↔ Search r u := by
  unfold searchB
  constructor
  · intro h
    obtain ⟨a, b, c, hs, hm⟩ := searchFrom_yes u [] h
    exact ⟨a, b, c, hs, by simpa using hm⟩
  · rintro ⟨a, b, c, hs, hm⟩
    cases hc : searchFrom (fuelFor r u) r [] u with
    | yes => rfl
    | no => exact absurd ⟨a, b, c, hs, by simpa using hm⟩ (searchFrom_no u [] hc)
    | out => exact absurd hc (searchFrom_ne_out (need_le_fuelFor r u) u [] (Nat.le_refl _))

/-- **The fuel `searchB` supplies is always enough.** -/
theorem searchB_ne_out (r : Regex) (u : Text) : searchB r u ≠ .out :=
  searchFrom_ne_out (need_le_fuelFor r u) u [] (Nat.le_refl _)

/-- **`searchB` answers `no` exactly when the semantics has no match.** -/
theorem searchB_no_iff (r : Regex) (u : Text) : searchB r u = .no ↔ ¬ Search r u := by
  rw [← searchB_yes_iff]
  have := searchB_ne_out r u
  cases h : searchB r u <;> simp_all

theorem searchB_ne_yes_iff (r : Regex) (u : Text) : searchB r u ≠ .yes ↔ ¬ Search r u := by
  rw [← searchB_yes_iff]

/-- the semantics of the un-anchored search is decidable — by the matcher -/
instance (r : Regex) (u : Text) : Decidable (Search r u) :=
  decidable_of_iff _ (searchB_yes_iff r u)

end AasVerif.JsonSchema
