import AasVerif.Lemmas.SdkDescendRec
/-!
The recursive `descend` satisfies the equation of the generated code: running the statements
`_DescendBodyUnroller(recurse=True)` writes, with every `.descend()` call answered by `descend` itself,
gives `descend`.
-/
namespace AasVerif.SdkDescend
open AasVerif AasVerif.Sdk

theorem forItems_descendItems (mm : MM) (t : Ty) (f : Val → Out)
    (hf : ∀ v, conformsNN mm t v = true → f v = descendVal mm t v) :
    ∀ vs : Vals, conformsAll mm t vs = true → forItems f vs.toList = descendItems mm t vs := by
  intro vs
  induction vs using Vals.induction_on with
  | nil => intro _; simp [forItems, Vals.toList, descendItems]
  | cons v vs ih =>
    intro h
    simp only [conformsAll, Bool.and_eq_true] at h
    simp [forItems, Vals.toList, descendItems, hf v h.1, ih h.2]

theorem exec_descend (mm : MM) :
    ∀ (t : Ty) (v : Val), conforms mm t v = true →
      execNodes (descend mm) (unroll true t) v = descendVal mm t v := by
  intro t
  induction t with
  | prim p =>
    intro v h
    cases v <;> simp_all [unroll, execNodes, descendVal, strip, conforms, conformsNN_none]
  | enum e =>
    intro v h
    cases v <;> simp_all [unroll, execNodes, descendVal, strip, conforms, conformsNN_none]
  | cls c =>
    intro v h
    cases v with
    | inst d fs =>
      simp only [unroll, if_true, execNodes, execNode, descendVal, strip, descend]
      cases mm.findClass d with
      | none => simp [bind, Except.bind]
      | some dd =>
        cases ha : dd.abstract <;> cases hfs : descendFields mm dd.props fs <;>
          simp [ha, hfs, bind, Except.bind, pure, Except.pure]
    | _ => simp [conforms, conformsNN] at h
  | list t ih =>
    intro v h
    cases v with
    | list vs =>
      have hall : conformsAll mm t vs = true := by simpa [conforms, conformsNN] using h
      simp only [unroll, Bool.not_true, Bool.false_and, Bool.false_eq_true, if_false, descendVal, strip]
      cases hd : descendable t
      · simp [unroll_eq_nil hd, execNodes]
      · have : (unroll true t).isEmpty = false := unroll_ne_nil hd
        simp only [this, Bool.false_eq_true, if_false, if_true]
        rw [execNodes_single]
        simp only [execNode]
        exact forItems_descendItems mm t _ (fun v hv => ih v (conforms_of_conformsNN hv)) vs hall
    | _ => simp [conforms, conformsNN] at h
  | opt t ih =>
    intro v h
    simp only [unroll]
    by_cases hv : v = .none
    · subst hv
      split
      · simp [execNodes, descendVal, Ty.isOpt]
      · rw [execNodes_single]; simp [execNode, descendVal, Ty.isOpt]
    · have h2 : conformsNN mm t v = true := by
        cases v <;> simp_all [conforms]
      have := ih v (conforms_of_conformsNN h2)
      have hs : descendVal mm (.opt t) v = descendVal mm t v := by
        rw [descendVal_strip mm (.opt t) v hv, descendVal_strip mm t v hv]; rfl
      rw [hs]
      split
      · next he =>
        have hnil : unroll true t = [] := by simpa using he
        rw [hnil] at this
        exact this
      · rw [execNodes_single]
        cases v with
        | none => exact absurd rfl hv
        | _ => simpa [execNode] using this

theorem execProps_descend (mm : MM) :
    ∀ (fs : Vals) (ps : List PropDecl), conformsFields mm ps fs = true →
      execProps true (descend mm) ps fs = descendFields mm ps fs := by
  intro fs
  induction fs using Vals.induction_on with
  | nil =>
    intro ps h
    cases ps with
    | nil => simp [execProps, descendFields]
    | cons p ps => simp [conformsFields] at h
  | cons f fs ih =>
    intro ps h
    cases ps with
    | nil => simp [conformsFields] at h
    | cons p ps =>
      simp only [conformsFields, Bool.and_eq_true] at h
      simp [execProps, descendFields, propBlock_eq, exec_descend mm p.ty f h.1, ih ps h.2,
        bind, Except.bind]

/-! ### the declarative readings -/

mutual
  theorem pre_eq_direct_flatMap :
      (v : Val) → pre v = (direct v).flatMap (fun c => c :: below c)
    | .inst c fs => by simp [pre, direct, below]
    | .list vs => by simpa [pre, direct] using preAll_eq_directAll_flatMap vs
    | .none => by simp [pre, direct]
    | .bool _ => by simp [pre, direct]
    | .int _ => by simp [pre, direct]
    | .float _ => by simp [pre, direct]
    | .str _ => by simp [pre, direct]
    | .bytes _ => by simp [pre, direct]
    | .enum _ _ => by simp [pre, direct]
  theorem preAll_eq_directAll_flatMap :
      (vs : Vals) → preAll vs = (directAll vs).flatMap (fun c => c :: below c)
    | .nil => by simp [preAll, directAll]
    | .cons v vs => by
      simp [preAll, directAll, List.flatMap_append, pre_eq_direct_flatMap v, preAll_eq_directAll_flatMap vs]
end

mutual
  /-- what `direct` collects are instances -/
  theorem direct_are_insts : (v : Val) → ∀ x ∈ direct v, ∃ d gs, x = Val.inst d gs
    | .inst d gs => by intro x hx; simp [direct] at hx; exact ⟨d, gs, hx⟩
    | .list vs => by intro x hx; simp only [direct] at hx; exact directAll_are_insts vs x hx
    | .none => by simp [direct]
    | .bool _ => by simp [direct]
    | .int _ => by simp [direct]
    | .float _ => by simp [direct]
    | .str _ => by simp [direct]
    | .bytes _ => by simp [direct]
    | .enum _ _ => by simp [direct]
  theorem directAll_are_insts : (vs : Vals) → ∀ x ∈ directAll vs, ∃ d gs, x = Val.inst d gs
    | .nil => by simp [directAll]
    | .cons v vs => by
      intro x hx
      simp only [directAll, List.mem_append] at hx
      cases hx with
      | inl hx => exact direct_are_insts v x hx
      | inr hx => exact directAll_are_insts vs x hx
end

theorem conforms_self {mm : MM} {c d : Name} {fs : Vals}
    (h : conformsNN mm (.cls c) (.inst d fs) = true) : conformsNN mm (.cls d) (.inst d fs) = true := by
  obtain ⟨dd, hf, ha, hfs⟩ := conformsNN_inst h
  simp [conformsNN, hf, ha, hfs]

mutual
  /-- every directly nested instance of a conforming value is itself a conforming instance -/
  theorem direct_conforms (mm : MM) (t : Ty) :
      (v : Val) → conformsNN mm t v = true → ∀ x ∈ direct v, Conforms mm x
    | .inst d fs, h => by
      intro x hx
      simp only [direct, List.mem_singleton] at hx
      subst hx
      cases t with
      | cls c => exact ⟨d, fs, rfl, conforms_self h⟩
      | prim p => cases p <;> simp [conformsNN] at h
      | _ => simp [conformsNN] at h
    | .list vs, h => by
      cases t with
      | list t =>
        have hall : conformsAll mm t vs = true := by simpa [conformsNN] using h
        simpa [direct] using directAll_conforms mm t vs hall
      | prim p => cases p <;> simp [conformsNN] at h
      | _ => simp [conformsNN] at h
    | .none, _ => by simp [direct]
    | .bool _, _ => by simp [direct]
    | .int _, _ => by simp [direct]
    | .float _, _ => by simp [direct]
    | .str _, _ => by simp [direct]
    | .bytes _, _ => by simp [direct]
    | .enum _ _, _ => by simp [direct]
  theorem directAll_conforms (mm : MM) (t : Ty) :
      (vs : Vals) → conformsAll mm t vs = true → ∀ x ∈ directAll vs, Conforms mm x
    | .nil, _ => by simp [directAll]
    | .cons v vs, h => by
      simp only [conformsAll, Bool.and_eq_true] at h
      intro x hx
      simp only [directAll, List.mem_append] at hx
      cases hx with
      | inl hx => exact direct_conforms mm t v h.1 x hx
      | inr hx => exact directAll_conforms mm t vs h.2 x hx
end

theorem fields_children_conform (mm : MM) :
    ∀ (fs : Vals) (ps : List PropDecl), conformsFields mm ps fs = true → ∀ x ∈ directAll fs, Conforms mm x := by
  intro fs
  induction fs using Vals.induction_on with
  | nil => intro ps _ x hx; simp [directAll] at hx
  | cons f fs ih =>
    intro ps h x hx
    cases ps with
    | nil => simp [conformsFields] at h
    | cons p ps =>
      simp only [conformsFields, Bool.and_eq_true] at h
      simp only [directAll, List.mem_append] at hx
      cases hx with
      | inl hx =>
        by_cases hv : f = .none
        · subst hv; simp [direct] at hx
        · exact direct_conforms mm (strip p.ty) f (conformsNN_strip h.1 hv) x hx
      | inr hx => exact ih ps h.2 x hx

end AasVerif.SdkDescend
