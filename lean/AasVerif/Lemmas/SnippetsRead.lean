import AasVerif.Lemmas.SnippetsOrder
import AasVerif.Lemmas.SnippetsText
/-! The loop of `read_from_directory`: what one iteration does, and the loop as a whole. -/
namespace AasVerif.Snippets

/-- A file that must make the run fail. -/
def Offending (e : Entry) : Prop :=
  hidden e.rel = false ∧ e.kind ≠ .dir ∧
    (e.kind = .other ∨ validKey (posix e.rel) = false ∨ e.kind = .unreadable ∨ utf8Decode e.bytes = none)

/-- A file that is loaded: non-hidden readable regular file, valid key, UTF-8 content `t`. -/
def Good (e : Entry) (t : Text) : Prop :=
  hidden e.rel = false ∧ e.kind = .file ∧ validKey (posix e.rel) = true ∧ utf8Decode e.bytes = some t

/-- An entry that is ignored. -/
def Ignored (e : Entry) : Prop := hidden e.rel = true ∨ e.kind = .dir

theorem step_cases (e : Entry) :
    (step e = .skip ∧ Ignored e) ∨
    ((∃ k, step e = .error ⟨k, e.rel⟩) ∧ Offending e) ∨
    (∃ t, step e = .put (posix e.rel) (strip (universalNewlines t)) ∧ Good e t) := by
  unfold step Ignored Offending Good
  by_cases hh : hidden e.rel = true
  · left; simp [hh]
  · have hh' : hidden e.rel = false := by simpa using hh
    by_cases hd : e.kind = .dir
    · left; simp [hh', hd]
    · by_cases ho : e.kind = .other
      · right; left; simp [hh', ho]
      · by_cases hk : validKey (posix e.rel) = true
        · by_cases hu : e.kind = .unreadable
          · right; left; simp [hh', hu, hk]
          · have hf : e.kind = .file := by
              cases hkd : e.kind <;> simp_all
            cases hdec : utf8Decode e.bytes with
            | none => right; left; simp [hh', hf, hk]
            | some t =>
              right; right
              refine ⟨t, ?_, hh', hf, hk, rfl⟩
              simp [hh', hf, hk, isStripped_strip]
        · have hk' : validKey (posix e.rel) = false := by simpa using hk
          right; left; simp [hh', hd, ho, hk']

theorem step_ne_crash (e : Entry) (s : String) : step e ≠ .crash s := by
  rcases step_cases e with ⟨h, _⟩ | ⟨⟨k, h⟩, _⟩ | ⟨t, h, _⟩ <;> rw [h] <;> simp

theorem step_skip_iff (e : Entry) : step e = .skip ↔ Ignored e := by
  constructor
  · intro h
    rcases step_cases e with ⟨_, h'⟩ | ⟨⟨k, h'⟩, _⟩ | ⟨t, h', _⟩
    · exact h'
    · rw [h'] at h; cases h
    · rw [h'] at h; cases h
  · intro hi
    rcases step_cases e with ⟨h, _⟩ | ⟨_, ho⟩ | ⟨t, _, hg⟩
    · exact h
    · rcases hi with hi | hi
      · rw [ho.1] at hi; cases hi
      · exact absurd hi ho.2.1
    · rcases hi with hi | hi
      · rw [hg.1] at hi; cases hi
      · rw [hg.2.1] at hi; cases hi

theorem step_error_iff (e : Entry) : (∃ x, step e = .error x) ↔ Offending e := by
  constructor
  · rintro ⟨x, h⟩
    rcases step_cases e with ⟨h', _⟩ | ⟨_, ho⟩ | ⟨t, h', _⟩
    · rw [h'] at h; cases h
    · exact ho
    · rw [h'] at h; cases h
  · intro ho
    rcases step_cases e with ⟨_, hi⟩ | ⟨⟨k, h⟩, _⟩ | ⟨t, _, hg⟩
    · rcases hi with hi | hi
      · rw [ho.1] at hi; cases hi
      · exact absurd hi ho.2.1
    · exact ⟨_, h⟩
    · obtain ⟨_, hf, hk, hd⟩ := hg
      rcases ho.2.2 with h | h | h | h
      · rw [hf] at h; cases h
      · rw [hk] at h; cases h
      · rw [hf] at h; cases h
      · rw [hd] at h; cases h

theorem step_error_rel (e : Entry) (x : Err) (h : step e = .error x) : x.rel = e.rel := by
  rcases step_cases e with ⟨h', _⟩ | ⟨⟨k, h'⟩, _⟩ | ⟨t, h', _⟩ <;> rw [h'] at h <;> cases h
  rfl

theorem step_put_iff (e : Entry) (k v : Text) :
    step e = .put k v ↔ ∃ t, Good e t ∧ k = posix e.rel ∧ v = strip (universalNewlines t) := by
  constructor
  · intro h
    rcases step_cases e with ⟨h', _⟩ | ⟨⟨k', h'⟩, _⟩ | ⟨t, h', hg⟩
    · rw [h'] at h; cases h
    · rw [h'] at h; cases h
    · rw [h'] at h; cases h; exact ⟨t, hg, rfl, rfl⟩
  · rintro ⟨t, hg, rfl, rfl⟩
    rcases step_cases e with ⟨_, hi⟩ | ⟨_, ho⟩ | ⟨t', h', hg'⟩
    · rcases hi with hi | hi
      · rw [hg.1] at hi; cases hi
      · rw [hg.2.1] at hi; cases hi
    · obtain ⟨_, hf, hk, hd⟩ := hg
      rcases ho.2.2 with h | h | h | h
      · rw [hf] at h; cases h
      · rw [hk] at h; cases h
      · rw [hf] at h; cases h
      · rw [hd] at h; cases h
    · have : t' = t := by
        have := hg'.2.2.2.symm.trans hg.2.2.2
        simpa using this
      rw [h', this]

/-! ### the loop -/

def errOf : Step → Option Err
  | .error x => some x
  | .skip => none
  | .put _ _ => none
  | .crash _ => none

def putOf : Step → Option (Text × Text)
  | .put k v => some (k, v)
  | .skip => none
  | .error _ => none
  | .crash _ => none

def applyStep (m : List (Text × Text)) : Step → List (Text × Text)
  | .put k v => dictSet m k v
  | .skip => m
  | .error _ => m
  | .crash _ => m

theorem loop_eq (es : List Entry) (m : List (Text × Text)) (errs : List Err) :
    loop es m errs =
      if (errs ++ (es.map step).filterMap errOf).isEmpty then .ok ((es.map step).foldl applyStep m)
      else .err (errs ++ (es.map step).filterMap errOf) := by
  induction es generalizing m errs with
  | nil => simp [loop]
  | cons e es ih =>
    rw [loop]
    cases hs : step e with
    | skip => simp only [List.map_cons, hs, List.filterMap_cons, errOf, List.foldl_cons, applyStep]; exact ih m errs
    | error x =>
      simp only [List.map_cons, hs, List.filterMap_cons, errOf, List.foldl_cons, applyStep]
      rw [ih m (errs ++ [x])]
      simp [List.append_assoc]
    | put k v =>
      simp only [List.map_cons, hs, List.filterMap_cons, errOf, List.foldl_cons, applyStep]
      exact ih (dictSet m k v) errs
    | crash s => exact absurd hs (step_ne_crash e s)

/-- An iteration that hits a `continue` before anything is recorded can be left out. -/
theorem loop_skip_middle (e : Entry) (hs : step e = .skip) (l₁ l₂ : List Entry)
    (m : List (Text × Text)) (errs : List Err) :
    loop (l₁ ++ e :: l₂) m errs = loop (l₁ ++ l₂) m errs := by
  induction l₁ generalizing m errs with
  | nil => simp only [List.nil_append]; rw [loop, hs]
  | cons x xs ih =>
    simp only [List.cons_append]
    rw [loop, loop]
    cases step x with
    | skip => exact ih m errs
    | error y => exact ih _ _
    | put k v => exact ih _ _
    | crash s => rfl

def errorsOf (es : List Entry) : List Err := ((sortEntries es).map step).filterMap errOf

def mappingOf (es : List Entry) : List (Text × Text) := ((sortEntries es).map step).foldl applyStep []

theorem read_eq (es : List Entry) :
    read es = if (errorsOf es).isEmpty then .ok (mappingOf es) else .err (errorsOf es) := by
  unfold read errorsOf mappingOf
  rw [loop_eq]
  simp

theorem mem_errorsOf (es : List Entry) (x : Err) :
    x ∈ errorsOf es ↔ ∃ e ∈ es, step e = .error x := by
  unfold errorsOf
  simp only [List.mem_filterMap, List.mem_map]
  constructor
  · rintro ⟨s, ⟨e, he, rfl⟩, hx⟩
    refine ⟨e, mem_sortEntries.mp he, ?_⟩
    cases hs : step e <;> simp [hs, errOf] at hx
    rw [hx]
  · rintro ⟨e, he, hs⟩
    exact ⟨step e, ⟨e, mem_sortEntries.mpr he, rfl⟩, by simp [hs, errOf]⟩

/-! ### the dict -/

theorem dictSet_fresh (m : List (Text × Text)) (k v : Text) (h : k ∉ m.map Prod.fst) :
    dictSet m k v = m ++ [(k, v)] := by
  unfold dictSet
  rw [if_neg]
  simp only [List.any_eq_true, beq_iff_eq, not_exists, not_and]
  intro p hp hk
  exact h (List.mem_map.mpr ⟨p, hp, hk⟩)

theorem keys_dictSet (m : List (Text × Text)) (k v : Text) :
    (dictSet m k v).map Prod.fst = if k ∈ m.map Prod.fst then m.map Prod.fst else m.map Prod.fst ++ [k] := by
  by_cases h : k ∈ m.map Prod.fst
  · rw [if_pos h]
    unfold dictSet
    rw [if_pos]
    · rw [List.map_map]
      apply List.map_congr_left
      intro p _
      by_cases hp : p.1 == k
      · simp only [Function.comp, hp, if_true]; exact (beq_iff_eq.mp hp).symm
      · simp [Function.comp, hp]
    · obtain ⟨p, hp, hk⟩ := List.mem_map.mp h
      simp only [List.any_eq_true, beq_iff_eq]
      exact ⟨p, hp, hk⟩
  · rw [if_neg h, dictSet_fresh m k v h]; simp

theorem mem_dictSet (m : List (Text × Text)) (k v : Text) (p : Text × Text) (h : p ∈ dictSet m k v) :
    p ∈ m ∨ p = (k, v) := by
  unfold dictSet at h
  split at h
  · obtain ⟨q, hq, hp⟩ := List.mem_map.mp h
    split at hp
    · right; exact hp.symm
    · left; rw [← hp]; exact hq
  · rcases List.mem_append.mp h with h | h
    · left; exact h
    · right; simpa using h

theorem foldl_applyStep_keys_nodup (steps : List Step) (m : List (Text × Text)) (h : (m.map Prod.fst).Nodup) :
    ((steps.foldl applyStep m).map Prod.fst).Nodup := by
  induction steps generalizing m with
  | nil => exact h
  | cons s ss ih =>
    rw [List.foldl_cons]
    apply ih
    cases s with
    | put k v =>
      simp only [applyStep]
      rw [keys_dictSet]
      split
      · exact h
      · next hk => exact List.nodup_append.mpr ⟨h, by simp, by intro a ha b hb; simp at hb; subst hb; intro e; exact hk (e ▸ ha)⟩
    | _ => exact h

theorem mem_foldl_applyStep (steps : List Step) (m : List (Text × Text)) (p : Text × Text)
    (h : p ∈ steps.foldl applyStep m) : p ∈ m ∨ Step.put p.1 p.2 ∈ steps := by
  induction steps generalizing m with
  | nil => left; exact h
  | cons s ss ih =>
    rw [List.foldl_cons] at h
    rcases ih _ h with h' | h'
    · cases s with
      | put k v =>
        simp only [applyStep] at h'
        rcases mem_dictSet m k v p h' with h'' | h''
        · left; exact h''
        · right; rw [h'']; simp
      | _ => left; exact h'
    · right; exact List.mem_cons_of_mem _ h'

theorem foldl_applyStep_eq (steps : List Step) (m : List (Text × Text)) :
    steps.foldl applyStep m = (steps.filterMap putOf).foldl (fun m p => dictSet m p.1 p.2) m := by
  induction steps generalizing m with
  | nil => rfl
  | cons s ss ih =>
    cases s with
    | put k v =>
      rw [List.foldl_cons, List.filterMap_cons_some (f := putOf) (a := Step.put k v) (b := (k, v)) rfl, List.foldl_cons]
      exact ih _
    | skip => rw [List.foldl_cons, List.filterMap_cons_none rfl]; exact ih _
    | error x => rw [List.foldl_cons, List.filterMap_cons_none rfl]; exact ih _
    | crash c => rw [List.foldl_cons, List.filterMap_cons_none rfl]; exact ih _

theorem foldl_dictSet_fresh (ps m : List (Text × Text)) (h : ((m ++ ps).map Prod.fst).Nodup) :
    ps.foldl (fun m p => dictSet m p.1 p.2) m = m ++ ps := by
  induction ps generalizing m with
  | nil => simp
  | cons p ps ih =>
    rw [List.foldl_cons]
    have hk : p.1 ∉ m.map Prod.fst := by
      intro hm
      rw [List.map_append, List.map_cons] at h
      have := (List.nodup_append.mp h).2.2 p.1 hm p.1 (by simp)
      exact this rfl
    rw [dictSet_fresh m p.1 p.2 hk]
    have : m ++ [(p.1, p.2)] ++ ps = m ++ p :: ps := by simp
    rw [ih (m ++ [(p.1, p.2)]) (by rw [this]; exact h), this]

/-- Listings of a real file system: paths are unique, components non-empty and free of `/`. -/
def WF (es : List Entry) : Prop := (es.map (·.rel)).Nodup ∧ ∀ e ∈ es, NamesOk e.rel

theorem WF.relFunctional {es : List Entry} (h : WF es) : RelFunctional es := by
  have key : ∀ l : List Entry, (l.map (·.rel)).Nodup → ∀ a ∈ l, ∀ b ∈ l, a.rel = b.rel → a = b := by
    intro l
    induction l with
    | nil => simp
    | cons x xs ih =>
      intro h a ha b hb hab
      rw [List.map_cons, List.nodup_cons] at h
      rcases List.mem_cons.mp ha with ha1 | ha1
      · rcases List.mem_cons.mp hb with hb1 | hb1
        · rw [ha1, hb1]
        · subst ha1
          exact absurd (List.mem_map.mpr ⟨b, hb1, hab.symm⟩ : a.rel ∈ xs.map (·.rel)) h.1
      · rcases List.mem_cons.mp hb with hb1 | hb1
        · subst hb1
          exact absurd (List.mem_map.mpr ⟨a, ha1, hab⟩ : b.rel ∈ xs.map (·.rel)) h.1
        · exact ih h.2 a ha1 b hb1 hab
  exact key es h.1

def putsOf (l : List Entry) : List (Text × Text) := (l.map step).filterMap putOf

theorem mem_putsOf (l : List Entry) (p : Text × Text) :
    p ∈ putsOf l ↔ ∃ e ∈ l, step e = .put p.1 p.2 := by
  unfold putsOf
  simp only [List.mem_filterMap, List.mem_map]
  constructor
  · rintro ⟨s, ⟨e, he, rfl⟩, hx⟩
    refine ⟨e, he, ?_⟩
    cases hs : step e <;> simp [hs, putOf] at hx
    rw [← hx]
  · rintro ⟨e, he, hs⟩
    exact ⟨step e, ⟨e, he, rfl⟩, by simp [hs, putOf]⟩

theorem putsOf_keys_nodup (l : List Entry) (hn : (l.map (·.rel)).Nodup) (hok : ∀ e ∈ l, NamesOk e.rel) :
    ((putsOf l).map Prod.fst).Nodup := by
  induction l with
  | nil => simp [putsOf]
  | cons e l ih =>
    have hn' := (List.nodup_cons.mp hn)
    have ih' := ih hn'.2 (fun x hx => hok x (by simp [hx]))
    cases hs : step e with
    | put k v =>
      have : putsOf (e :: l) = (k, v) :: putsOf l := by
        unfold putsOf; rw [List.map_cons, hs]; exact List.filterMap_cons_some rfl
      rw [this, List.map_cons, List.nodup_cons]
      refine ⟨?_, ih'⟩
      intro hm
      obtain ⟨p, hp, hpk⟩ := List.mem_map.mp hm
      obtain ⟨e', he', hs'⟩ := (mem_putsOf l p).mp hp
      obtain ⟨_, _, hk, _⟩ := (step_put_iff e k v).mp hs
      obtain ⟨_, _, hk', _⟩ := (step_put_iff e' p.1 p.2).mp hs'
      have : e.rel = e'.rel := by
        apply posix_injective _ _ (hok e (by simp)) (hok e' (by simp [he']))
        rw [← hk, ← hk', hpk]
      exact hn'.1 (List.mem_map.mpr ⟨e', he', this.symm⟩)
    | skip =>
      have : putsOf (e :: l) = putsOf l := by
        unfold putsOf; rw [List.map_cons, hs]; exact List.filterMap_cons_none rfl
      rw [this]; exact ih'
    | error x =>
      have : putsOf (e :: l) = putsOf l := by
        unfold putsOf; rw [List.map_cons, hs]; exact List.filterMap_cons_none rfl
      rw [this]; exact ih'
    | crash s => exact absurd hs (step_ne_crash e s)

theorem mappingOf_eq_putsOf (es : List Entry) (wf : WF es) : mappingOf es = putsOf (sortEntries es) := by
  unfold mappingOf
  rw [foldl_applyStep_eq]
  have hperm := sortEntries_perm es
  have hn : ((sortEntries es).map (·.rel)).Nodup := (hperm.map _).nodup_iff.mpr wf.1
  have hok : ∀ e ∈ sortEntries es, NamesOk e.rel := fun e he => wf.2 e (mem_sortEntries.mp he)
  have := foldl_dictSet_fresh (putsOf (sortEntries es)) [] (by simpa using putsOf_keys_nodup _ hn hok)
  simpa [putsOf] using this

end AasVerif.Snippets
