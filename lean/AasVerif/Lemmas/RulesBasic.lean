import AasVerif.Model.Rules
/-! Generic lemmas for the C06 checker: stage sequencing, `report`, duplicate detection. -/
namespace AasVerif.Rules
open AasVerif

theorem firstFailing_eq_nil (ss : List (List RuleId)) :
    firstFailing ss = [] ↔ ∀ s ∈ ss, s = [] := by
  induction ss with
  | nil => simp [firstFailing]
  | cons s ss ih =>
    simp only [firstFailing, List.mem_cons, forall_eq_or_imp]
    by_cases h : s = []
    · simp [h, ih]
    · simp [h]

theorem report_eq_nil {α : Type} (r : RuleId) (bad : α → Bool) (l : List α) :
    report r bad l = [] ↔ ∀ x ∈ l, bad x = false := by
  unfold report
  rw [List.flatMap_eq_nil_iff]
  constructor
  · intro h x hx
    have := h x hx
    by_cases hb : bad x = true
    · simp [hb] at this
    · simpa using hb
  · intro h x hx
    simp [h x hx]

theorem flatMap_ite_eq_nil {α : Type} (l : List α) (f : α → List RuleId) :
    l.flatMap f = [] ↔ ∀ x ∈ l, f x = [] := List.flatMap_eq_nil_iff

theorem map_const_eq_nil {α β : Type} (l : List α) (f : α → β) : l.map f = [] ↔ l = [] := by
  simp

/-- The dictionary-based duplicate detection finds nothing iff there is no duplicate. -/
theorem dups_eq_nil (seen l : List Text) :
    dups seen l = [] ↔ l.Nodup ∧ ∀ x ∈ l, x ∉ seen := by
  induction l generalizing seen with
  | nil => simp [dups]
  | cons x xs ih =>
    simp only [dups, List.nodup_cons, List.mem_cons, forall_eq_or_imp]
    by_cases hx : x ∈ seen
    · simp [hx]
    · simp only [hx, if_false, ih, List.mem_cons, not_or, not_false_eq_true, true_and]
      constructor
      · rintro ⟨hnd, h⟩
        refine ⟨⟨?_, hnd⟩, fun y hy => (h y hy).2⟩
        intro hxm
        exact (h x hxm).1 rfl
      · rintro ⟨⟨hxn, hnd⟩, h⟩
        refine ⟨hnd, fun y hy => ⟨?_, h y hy⟩⟩
        intro hyx
        exact hxn (hyx ▸ hy)

theorem dupCheck_iff_nodup (l : List Text) : dups [] l = [] ↔ l.Nodup := by
  simp [dups_eq_nil]

theorem scanProps_none (seen l : List Text) :
    scanProps seen l = none ↔ l.Nodup ∧ ∀ x ∈ l, x ∉ seen := by
  induction l generalizing seen with
  | nil => simp [scanProps]
  | cons x xs ih =>
    simp only [scanProps, List.nodup_cons, List.mem_cons, forall_eq_or_imp]
    by_cases hx : x ∈ seen
    · simp [hx]
    · simp only [hx, if_false, ih, List.mem_cons, not_or, not_false_eq_true, true_and]
      constructor
      · rintro ⟨hnd, h⟩
        refine ⟨⟨?_, hnd⟩, fun y hy => (h y hy).2⟩
        intro hxm
        exact (h x hxm).1 rfl
      · rintro ⟨⟨hxn, hnd⟩, h⟩
        refine ⟨hnd, fun y hy => ⟨?_, h y hy⟩⟩
        intro hyx
        exact hxn (hyx ▸ hy)

theorem scanMethods_none (props seen l : List Text) :
    scanMethods props seen l = none ↔ l.Nodup ∧ (∀ x ∈ l, x ∉ seen) ∧ ∀ x ∈ l, x ∉ props := by
  induction l generalizing seen with
  | nil => simp [scanMethods]
  | cons x xs ih =>
    simp only [scanMethods, List.nodup_cons, List.mem_cons, forall_eq_or_imp]
    by_cases hx : x ∈ seen
    · simp [hx]
    · by_cases hp : x ∈ props
      · simp [hx, hp]
      · simp only [hx, hp, if_false, ih, List.mem_cons, not_or, not_false_eq_true, true_and]
        constructor
        · rintro ⟨hnd, h, h2⟩
          refine ⟨⟨?_, hnd⟩, fun y hy => (h y hy).2, h2⟩
          intro hxm
          exact (h x hxm).1 rfl
        · rintro ⟨⟨hxn, hnd⟩, h, h2⟩
          refine ⟨hnd, fun y hy => ⟨?_, h y hy⟩, h2⟩
          intro hyx
          exact hxn (hyx ▸ hy)

/-- A class body is accepted iff its member names (properties and methods) are pairwise different. -/
theorem classParse_none (c : Cls) : classParse c = none ↔ (c.propNames ++ c.methods).Nodup := by
  unfold classParse
  rw [List.nodup_append]
  cases h : scanProps [] c.propNames with
  | some r =>
    have : ¬ (scanProps [] c.propNames = none) := by simp [h]
    rw [scanProps_none] at this
    simp only [List.not_mem_nil, not_false_eq_true, implies_true, and_true] at this
    simp [this]
  | none =>
    rw [scanProps_none] at h
    simp only [scanMethods_none, h.1, true_and, List.not_mem_nil, not_false_eq_true, implies_true]
    constructor
    · rintro ⟨h1, h2⟩
      refine ⟨h1, ?_⟩
      intro a ha b hb hab
      exact h2 b hb (hab ▸ ha)
    · rintro ⟨h1, h2⟩
      refine ⟨h1, ?_⟩
      intro x hx hxp
      exact h2 x hxp x hx rfl

end AasVerif.Rules
