import AasVerif.Model.SdkXml
import AasVerif.Lemmas.SdkRound
import AasVerif.Lemmas.SdkTotal
/-! `fromXml (toXml i) = ok i` on element trees. -/
namespace AasVerif.Sdk

/-- the oracle agrees with CPython on what the writer emits: `int(str(i)) == i` -/
def PyOracle.intOk (py : PyOracle) : Prop := ∀ i : Int, py.int (showIntText i) = some i

/-- a float (as its `repr`) that the XML writer/reader pair can carry: a special value, or a text
that is not one of the XSD literals and that `float()` reads back with the same `repr` -/
def floatOk (py : PyOracle) (r : Text) : Bool :=
  r = sInf || r = sNegInf || r = sNan
    || (r ≠ xNan && r ≠ xInf && r ≠ xNegInf && py.float r = some r)

mutual
  def floatsOk (py : PyOracle) : Val → Bool
    | .float r => floatOk py r
    | .list vs => floatsOkL py vs
    | .inst _ fs => floatsOkL py fs
    | _ => true
  def floatsOkL (py : PyOracle) : Vals → Bool
    | .nil => true
    | .cons v vs => floatsOk py v && floatsOkL py vs
end

theorem class_eq_of_xmlName {mm : MM} (h : mm.wfXml = true) {a b : ClassDecl} (ha : a ∈ mm.classes)
    (hb : b ∈ mm.classes) (hab : xmlClassName a.name = xmlClassName b.name) : a = b := by
  simp only [MM.wfXml, Bool.and_eq_true] at h
  exact inj_of_nodupB_map (fun c : ClassDecl => xmlClassName c.name) mm.classes h.2 a ha b hb hab

theorem wfXml_wf {mm : MM} (h : mm.wfXml = true) : mm.wf = true := by
  simp only [MM.wfXml, Bool.and_eq_true] at h
  exact h.1

/-! ### primitive elements -/

theorem xReadText_leaf (ns name t : Text) :
    xReadText (leafElem ns name (some t)) = .ok t := by
  simp [xReadText, leafElem, hasTailOrAttrib, pyBlank, Elem.tail, Elem.attrs, Elem.children,
    Elem.text, Elems.isEmpty]

theorem xReadStr_leaf (ns name : Text) (t : Text) :
    xReadStr (leafElem ns name (optText t)) = .ok t := by
  unfold xReadStr leafElem optText
  by_cases h : t.isEmpty = true
  · have : t = [] := by simpa using h
    subst this
    simp [Elem.children, Elem.text, Elems.isEmpty]
  · simp [Elem.children, Elem.text, Elems.isEmpty, h]

theorem xmlFloat_read (py : PyOracle) (ns name r : Text) (h : floatOk py r = true) :
    xReadPrim py .float (leafElem ns name (some (xmlFloatText r))) = .ok (.float r) := by
  unfold xReadPrim
  rw [xReadText_leaf]
  simp only
  unfold floatOk at h
  by_cases h1 : r = sInf
  · subst h1; simp [xmlFloatText, sInf, sNegInf, sNan, xInf, xNegInf, xNan]
  · by_cases h2 : r = sNegInf
    · subst h2; simp [xmlFloatText, sInf, sNegInf, sNan, xInf, xNegInf, xNan]
    · by_cases h3 : r = sNan
      · subst h3; simp [xmlFloatText, sInf, sNegInf, sNan, xInf, xNegInf, xNan]
      · simp only [h1, h2, h3, decide_false, Bool.false_or, Bool.and_eq_true, decide_eq_true_eq,
          bne_iff_ne, ne_eq] at h
        have hx : xmlFloatText r = r := by simp [xmlFloatText, h1, h2, h3]
        rw [hx]
        simp [h.1.1.1, h.1.1.2, h.1.2, h.2]

/-! ### the shape of written elements -/

theorem valElem_shape (mm : MM) (ns name : Text) (t : Ty) (v : Val) :
    ∃ text ch, valElem mm ns name t v = .mk (some ns) name false text none ch := by
  cases t <;> cases v <;> simp only [valElem, leafElem] <;> try exact ⟨_, _, rfl⟩
  all_goals
    split
    · exact ⟨_, _, rfl⟩
    · split <;> exact ⟨_, _, rfl⟩

theorem tagIn_valElem (mm : MM) (ns name : Text) (t : Ty) (v : Val) :
    tagIn ns (valElem mm ns name t v) = some name := by
  obtain ⟨text, ch, h⟩ := valElem_shape mm ns name t v
  rw [h]
  simp [tagIn, Elem.ns, Elem.name]

/-! ### dispatch on the tag -/

theorem xdispatch_target {mm : MM} (hwf : mm.wfXml = true) {cd dd : ClassDecl}
    (hcd : cd ∈ mm.classes) (hdd : dd ∈ mm.classes)
    (hrel : dd.name = cd.name ∨ dd.name ∈ cd.concreteDescendants) (hconc : dd.abstract = false) :
    ∃ d', lookupLast (xDispatchEntries cd) (xmlClassName dd.name) = some d'
      ∧ mm.findClass d' = some dd := by
  have hw := wfXml_wf hwf
  have hex : ∃ tgt, (xmlClassName dd.name, tgt) ∈ xDispatchEntries cd := by
    rcases hrel with h | h
    · have : dd = cd := class_eq_of_name hw hdd hcd h
      subst this
      exact ⟨dd.name, by unfold xDispatchEntries; simp [hconc]⟩
    · exact ⟨dd.name, by
        unfold xDispatchEntries
        exact List.mem_append_right _ (List.mem_map.mpr ⟨dd.name, h, rfl⟩)⟩
  obtain ⟨tgt0, htgt0⟩ := hex
  obtain ⟨d', hl⟩ := lookupLast_isSome_of_mem _ _ _ htgt0
  refine ⟨d', hl, ?_⟩
  have hmem := lookupLast_some_mem _ _ _ hl
  unfold xDispatchEntries at hmem
  rcases List.mem_append.mp hmem with hm | hm
  · by_cases ha : cd.abstract = true
    · simp [ha] at hm
    · simp only [ha, Bool.false_eq_true, if_false, List.mem_singleton, Prod.mk.injEq] at hm
      have : dd = cd := class_eq_of_xmlName hwf hdd hcd hm.1
      subst this
      rw [hm.2]
      exact findClass_of_mem hw hdd
  · obtain ⟨x, hx, he⟩ := List.mem_map.mp hm
    simp only [Prod.mk.injEq] at he
    obtain ⟨xd, hfx, _⟩ := (okIn_parts ((wf_parts hw).2.2.1 cd hcd)).2.2.2.2.2.1 x hx
    have hxd := findClass_some hfx
    have : xd = dd := class_eq_of_xmlName hwf hxd.1 hdd (by rw [hxd.2]; exact he.1)
    rw [← he.2, hfx, this]

/-- the element of an instance of the concrete class `dd`, read with `_read_<c>_as_element` -/
theorem asElementPlan_inst {mm : MM} (hwf : mm.wfXml = true) (ns : Text) {c : Name}
    {cd dd : ClassDecl} (hc : mm.findClass c = some cd) (hdd : dd ∈ mm.classes)
    (hrel : dd.name = c ∨ dd.name ∈ cd.concreteDescendants) (hconc : dd.abstract = false)
    (ch : Elems) :
    asElementPlan mm ns c (.mk (some ns) (xmlClassName dd.name) false none none ch) = .seq dd := by
  have hw := wfXml_wf hwf
  have hcd := findClass_some hc
  have hseq : seqPlan dd (.mk (some ns) (xmlClassName dd.name) false none none ch) = .seq dd := by
    simp [seqPlan, hconc, pyBlank, hasTailOrAttrib, Elem.text, Elem.tail, Elem.attrs]
  unfold asElementPlan
  rw [hc]
  simp only [tagIn, Elem.ns, Elem.name, if_true]
  by_cases hempty : cd.concreteDescendants.isEmpty = true
  · rw [if_pos hempty]
    have hnil : cd.concreteDescendants = [] := by simpa using hempty
    have hn : dd.name = c := by
      rcases hrel with h | h
      · exact h
      · rw [hnil] at h; cases h
    have : dd = cd := class_eq_of_name hw hdd hcd.1 (by rw [hn, hcd.2])
    subst this
    simp [hseq]
  · rw [if_neg hempty]
    obtain ⟨d', hl, hf⟩ := xdispatch_target hwf hcd.1 hdd (by rw [hcd.2]; exact hrel) hconc
    simp only [hl, hf, hseq]

/-! ### the round trip -/

/-- the setter dictionary of a class finds every property by its XML name; all property types are known -/
theorem xsetter_all {mm : MM} (hwf : mm.wfXml = true) {dd : ClassDecl} (hdd : dd ∈ mm.classes) :
    (∀ p ∈ dd.props, xSetterFor dd.props (xmlProperty p.name) = .prop p)
    ∧ (∀ p ∈ dd.props, tyKnown mm p.ty.beneathOpt = true) := by
  have hw := wfXml_wf hwf
  have hok := okIn_parts ((wf_parts hw).2.2.1 dd hdd)
  constructor
  · intro p hp
    unfold xSetterFor
    have hkeys : (dd.props.map (fun p => (xmlProperty p.name, p))).map (fun q => q.1)
        = dd.props.map (fun p => jsonProperty p.name) := by
      rw [List.map_map]; rfl
    rw [lookupLast_of_mem_nodup (dd.props.map (fun p => (xmlProperty p.name, p))) (xmlProperty p.name) p
      (by rw [hkeys]; exact hok.2.1) (List.mem_map.mpr ⟨p, hp, rfl⟩)]
  · exact fun p hp => tyReadable_known (hok.2.2.2.1 p hp)

/-- required checks + constructor after the property loop -/
theorem asm_ok {mm : MM} (hwf : mm.wfXml = true) (fs : Vals) (dd : ClassDecl) (hdd : dd ∈ mm.classes)
    (hcf : conformsFields mm dd.props fs = true) :
    assemble dd.props (pushAll dd.props fs []) = .ok fs := by
  have hw := wfXml_wf hwf
  have hok := okIn_parts ((wf_parts hw).2.2.1 dd hdd)
  exact assemble_pushAll dd.props fs [] hok.1 (fun _ _ => rfl) (conformsFields_shape dd.props fs hcf)

mutual
  theorem rtx_prop (mm : MM) (hwf : mm.wfXml = true) (ns : Text) (py : PyOracle) (hint : py.intOk) :
      ∀ (v : Val) (t : Ty) (name : Text), tyKnown mm t = true → conformsNN mm t v = true →
        floatsOk py v = true → xRead mm ns py (.prop t) (valElem mm ns name t v) = .ok v
    | .none, t, _, _, hc, _ => by rw [conformsNN_none] at hc; cases hc
    | .bool b, t, name, _, hc, _ => by
      cases t with
      | prim p =>
        cases p <;> simp [conformsNN] at hc
        cases b <;>
          simp [valElem, leafElem, xRead, xPlan, xReadPrim, xReadText, hasTailOrAttrib, pyBlank,
            Elem.tail, Elem.attrs, Elem.children, Elem.text, Elems.isEmpty, resToPlan, sTrue, sFalse,
            sOne, sZero]
      | _ => simp [conformsNN] at hc
    | .int i, t, name, _, hc, _ => by
      cases t with
      | prim p =>
        cases p <;> simp [conformsNN] at hc
        have := hint i
        simp [valElem, leafElem, xRead, xPlan, xReadPrim, xReadText, hasTailOrAttrib, pyBlank,
          Elem.tail, Elem.attrs, Elem.children, Elem.text, Elems.isEmpty, resToPlan, this]
      | _ => simp [conformsNN] at hc
    | .float r, t, name, _, hc, hf => by
      cases t with
      | prim p =>
        cases p <;> simp [conformsNN] at hc
        have := xmlFloat_read py ns name r (by simpa [floatsOk] using hf)
        simp only [valElem, leafElem] at this ⊢
        simp only [xRead, xPlan, this, resToPlan]
      | _ => simp [conformsNN] at hc
    | .str s, t, name, _, hc, _ => by
      cases t with
      | prim p =>
        cases p <;> simp [conformsNN] at hc
        have := xReadStr_leaf ns name s
        simp only [leafElem] at this
        simp only [valElem, leafElem, xRead, xPlan, xReadPrim, this, resToPlan]
      | _ => simp [conformsNN] at hc
    | .bytes bs, t, name, _, hc, _ => by
      cases t with
      | prim p =>
        cases p <;> simp [conformsNN] at hc
        have hb : ∀ x ∈ bs, x < 256 := by
          intro x hx
          have := List.all_eq_true.mp hc x hx
          simpa using this
        have := xReadStr_leaf ns name (Base64.encode bs)
        simp only [leafElem] at this
        simp only [valElem, leafElem, xRead, xPlan, xReadPrim, this, resToPlan,
          Base64.decode_encode bs hb]
      | _ => simp [conformsNN] at hc
    | .enum e l, t, name, _, hc, _ => by
      cases t with
      | enum e' =>
        simp only [conformsNN, Bool.and_eq_true, beq_iff_eq] at hc
        obtain ⟨he, hl⟩ := hc
        subst he
        cases hfe : mm.findEnum e' with
        | none => rw [hfe] at hl; cases hl
        | some ed =>
          rw [hfe] at hl
          have := xReadStr_leaf ns name (mm.enumValue e' l)
          simp only [leafElem] at this
          simp only [valElem, leafElem, xRead, xPlan, xReadEnum, hfe, this, resToPlan,
            enum_roundtrip (wfXml_wf hwf) hfe hl]
      | _ => simp [conformsNN] at hc
    | .list vs, t, name, hk, hc, hf => by
      cases t with
      | list t' =>
        simp only [conformsNN] at hc
        have hit := tyKnown_list_item hk
        have := rtx_items mm hwf ns py hint vs t' hit.1 hit.2 hc (by simpa [floatsOk] using hf)
        simp [valElem, xRead, xPlan, pyBlank, Elem.text, this]
      | _ => simp [conformsNN] at hc
    | .inst d fs, t, name, hk, hc, hf => by
      cases t with
      | cls c =>
        have hw := wfXml_wf hwf
        simp only [conformsNN, Bool.and_eq_true] at hc
        obtain ⟨hc1, hc2⟩ := hc
        cases hfc : mm.findClass c with
        | none => rw [hfc] at hc1; cases hc1
        | some cd =>
          cases hfd : mm.findClass d with
          | none => rw [hfd] at hc2; cases hc2
          | some dd =>
            rw [hfc] at hc1
            rw [hfd] at hc2
            simp only [Bool.and_eq_true, Bool.not_eq_true', Bool.or_eq_true, beq_iff_eq,
              List.contains_eq_mem, decide_eq_true_eq] at hc1 hc2
            obtain ⟨hconc, hcf⟩ := hc2
            have hdd := findClass_some hfd
            have hdn := hdd.2
            subst hdn
            have hcd := findClass_some hfc
            have hfs : floatsOkL py fs = true := by simpa [floatsOk] using hf
            have hsk := xsetter_all hwf hdd.1
            have hloop := rtx_fields mm hwf ns py hint fs dd.props dd.props [] hsk.1 hsk.2 hcf hfs
            have hasm := asm_ok hwf fs dd hdd.1 hcf
            have hprops : mm.propsOf dd.name = dd.props := by simp [MM.propsOf, hfd]
            by_cases hempty : cd.concreteDescendants.isEmpty = true
            · -- the property element is the container
              have hnil : cd.concreteDescendants = [] := by simpa using hempty
              have hn : dd.name = c := by
                rcases hc1 with h | h
                · exact h
                · rw [hnil] at h; cases h
              have : dd = cd := class_eq_of_name hw hdd.1 hcd.1 (by rw [hn, hcd.2])
              subst this
              have hve : valElem mm ns name (.cls c) (.inst dd.name fs)
                  = .mk (some ns) name false none none (fieldElems mm ns dd.props fs) := by
                simp [valElem, hfc, hempty, hprops]
              have hpl : xPlan mm ns py (.prop (.cls c))
                  (.mk (some ns) name false none none (fieldElems mm ns dd.props fs)) = .seq dd := by
                simp [xPlan, hfc, hempty, seqPlan, hconc, pyBlank, hasTailOrAttrib, Elem.text, Elem.tail,
                  Elem.attrs]
              rw [hve, xRead, hpl]
              simp only [hloop, hasm]
            · -- discriminator element
              have hplan := asElementPlan_inst hwf ns hfc hdd.1 hc1 hconc
                (fieldElems mm ns dd.props fs)
              have hve : valElem mm ns name (.cls c) (.inst dd.name fs)
                  = .mk (some ns) name false none none
                    (.cons (.mk (some ns) (xmlClassName dd.name) false none none
                      (fieldElems mm ns dd.props fs)) .nil) := by
                simp [valElem, hfc, hempty, hprops]
              have hpl : xPlan mm ns py (.prop (.cls c))
                  (.mk (some ns) name false none none
                    (.cons (.mk (some ns) (xmlClassName dd.name) false none none
                      (fieldElems mm ns dd.props fs)) .nil)) = .discr c := by
                simp [xPlan, hfc, hempty]
              rw [hve, xRead, hpl]
              simp only
              rw [xRead, xPlan, hplan]
              simp only [hloop, hasm]
      | _ => simp [conformsNN] at hc
  theorem rtx_items (mm : MM) (hwf : mm.wfXml = true) (ns : Text) (py : PyOracle) (hint : py.intOk) :
      ∀ (vs : Vals) (t : Ty), t.atomic = true → tyKnown mm t = true →
        conformsAll mm t vs = true → floatsOkL py vs = true →
        xReadItems mm ns py t (itemElems mm ns t vs) = .ok vs
    | .nil, _, _, _, _, _ => by simp [itemElems, xReadItems]
    | .cons v vs, t, ha, hk, hc, hf => by
      simp only [conformsAll, Bool.and_eq_true] at hc
      simp only [floatsOkL, Bool.and_eq_true] at hf
      have ih := rtx_items mm hwf ns py hint vs t ha hk hc.2 hf.2
      cases t with
      | list t' => simp [Ty.atomic] at ha
      | opt t' => simp [Ty.atomic] at ha
      | prim p =>
        have h1 := rtx_prop mm hwf ns py hint v (.prim p) itemTag hk hc.1 hf.1
        have hpi : ∀ e, xRead mm ns py (.item (.prim p)) e = xRead mm ns py (.prop (.prim p)) e := by
          intro e; cases e; simp only [xRead, xPlan]
        cases v <;> simp only [itemElems, xReadItems, hpi, h1, ih]
      | enum en =>
        have h1 := rtx_prop mm hwf ns py hint v (.enum en) itemTag hk hc.1 hf.1
        have hpi : ∀ e, xRead mm ns py (.item (.enum en)) e = xRead mm ns py (.prop (.enum en)) e := by
          intro e; cases e; simp only [xRead, xPlan]
        cases v <;> simp only [itemElems, xReadItems, hpi, h1, ih]
      | cls c =>
        cases v with
        | inst d fs =>
          have hw := wfXml_wf hwf
          have hc1 := hc.1
          simp only [conformsNN, Bool.and_eq_true] at hc1
          obtain ⟨hr1, hr2⟩ := hc1
          cases hfc : mm.findClass c with
          | none => rw [hfc] at hr1; cases hr1
          | some cd =>
            cases hfd : mm.findClass d with
            | none => rw [hfd] at hr2; cases hr2
            | some dd =>
              rw [hfc] at hr1
              rw [hfd] at hr2
              simp only [Bool.and_eq_true, Bool.not_eq_true', Bool.or_eq_true, beq_iff_eq,
                List.contains_eq_mem, decide_eq_true_eq] at hr1 hr2
              obtain ⟨hconc, hcf⟩ := hr2
              have hdd := findClass_some hfd
              have hdn := hdd.2
              subst hdn
              have hfs : floatsOkL py fs = true := by simpa [floatsOk] using hf.1
              have hsk := xsetter_all hwf hdd.1
              have hloop := rtx_fields mm hwf ns py hint fs dd.props dd.props [] hsk.1 hsk.2 hcf hfs
              have hasm := asm_ok hwf fs dd hdd.1 hcf
              have hprops : mm.propsOf dd.name = dd.props := by simp [MM.propsOf, hfd]
              have hplan := asElementPlan_inst hwf ns hfc hdd.1 hr1 hconc
                (fieldElems mm ns dd.props fs)
              simp only [itemElems, xReadItems, hprops]
              rw [xRead, xPlan, hplan]
              simp only [hloop, hasm, ih]
        | none => simp [conformsNN] at hc
        | bool _ => simp [conformsNN] at hc
        | int _ => simp [conformsNN] at hc
        | float _ => simp [conformsNN] at hc
        | str _ => simp [conformsNN] at hc
        | bytes _ => simp [conformsNN] at hc
        | enum _ _ => simp [conformsNN] at hc
        | list _ => simp [conformsNN] at hc
  theorem rtx_fields (mm : MM) (hwf : mm.wfXml = true) (ns : Text) (py : PyOracle) (hint : py.intOk) :
      ∀ (fs : Vals) (ps all : List PropDecl) (st : State),
        (∀ p ∈ ps, xSetterFor all (xmlProperty p.name) = .prop p) →
        (∀ p ∈ ps, tyKnown mm p.ty.beneathOpt = true) →
        conformsFields mm ps fs = true → floatsOkL py fs = true →
        xReadChildren mm ns py all (fieldElems mm ns ps fs) st = .ok (pushAll ps fs st)
    | .nil, ps, all, st, _, _, _, _ => by cases ps <;> simp [fieldElems, pushAll, xReadChildren]
    | .cons v vs, [], all, st, _, _, hc, _ => by simp [conformsFields] at hc
    | .cons v vs, p :: ps, all, st, hset, hrd, hc, hf => by
      simp only [conformsFields, Bool.and_eq_true] at hc
      simp only [floatsOkL, Bool.and_eq_true] at hf
      have hset' : ∀ q ∈ ps, xSetterFor all (xmlProperty q.name) = .prop q :=
        fun q hq => hset q (List.mem_cons_of_mem _ hq)
      have hrd' : ∀ q ∈ ps, tyKnown mm q.ty.beneathOpt = true :=
        fun q hq => hrd q (List.mem_cons_of_mem _ hq)
      by_cases hv : v = .none
      · subst hv
        have ih := rtx_fields mm hwf ns py hint vs ps all st hset' hrd' hc.2 hf.2
        simp only [fieldElems, pushAll, ih]
      · have hval := rtx_prop mm hwf ns py hint v p.ty.beneathOpt (xmlProperty p.name)
          (hrd p List.mem_cons_self) (conforms_beneath hv hc.1) hf.1
        have ih := rtx_fields mm hwf ns py hint vs ps all ((p.name, v) :: st) hset' hrd' hc.2 hf.2
        have hm : fieldElems mm ns (p :: ps) (.cons v vs)
            = .cons (valElem mm ns (xmlProperty p.name) p.ty.beneathOpt v) (fieldElems mm ns ps vs) := by
          cases v <;> first | exact absurd rfl hv | rfl
        have hp : pushAll (p :: ps) (.cons v vs) st = pushAll ps vs ((p.name, v) :: st) := by
          cases v <;> first | exact absurd rfl hv | rfl
        rw [hm, hp]
        simp only [xReadChildren, tagIn_valElem, hset p List.mem_cons_self, hval, ih]
end

/-- the whole document: `<c>_from_str(to_str(i))` for an instance `i` that conforms to `c` -/
theorem rtx_top (mm : MM) (hwf : mm.wfXml = true) (ns : Text) (py : PyOracle) (hint : py.intOk)
    (c : Name) (i : Val) (hc : conformsNN mm (.cls c) i = true) (hf : floatsOk py i = true) :
    fromXml mm ns py c (toXml mm ns i) = .ok i := by
  cases i with
  | inst d fs =>
    simp only [conformsNN, Bool.and_eq_true] at hc
    obtain ⟨hc1, hc2⟩ := hc
    cases hfc : mm.findClass c with
    | none => rw [hfc] at hc1; cases hc1
    | some cd =>
      cases hfd : mm.findClass d with
      | none => rw [hfd] at hc2; cases hc2
      | some dd =>
        rw [hfc] at hc1
        rw [hfd] at hc2
        simp only [Bool.and_eq_true, Bool.not_eq_true', Bool.or_eq_true, beq_iff_eq,
          List.contains_eq_mem, decide_eq_true_eq] at hc1 hc2
        obtain ⟨hconc, hcf⟩ := hc2
        have hdd := findClass_some hfd
        have hdn := hdd.2
        subst hdn
        have hfs : floatsOkL py fs = true := by simpa [floatsOk] using hf
        have hsk := xsetter_all hwf hdd.1
        have hloop := rtx_fields mm hwf ns py hint fs dd.props dd.props [] hsk.1 hsk.2 hcf hfs
        have hasm := asm_ok hwf fs dd hdd.1 hcf
        have hprops : mm.propsOf dd.name = dd.props := by simp [MM.propsOf, hfd]
        have hplan := asElementPlan_inst hwf ns hfc hdd.1 hc1 hconc (fieldElems mm ns dd.props fs)
        unfold fromXml
        simp only [toXml]
        rw [hprops, xRead, xPlan, hplan]
        simp only [hloop, hasm]
  | none => simp [conformsNN] at hc
  | bool _ => simp [conformsNN] at hc
  | int _ => simp [conformsNN] at hc
  | float _ => simp [conformsNN] at hc
  | str _ => simp [conformsNN] at hc
  | bytes _ => simp [conformsNN] at hc
  | enum _ _ => simp [conformsNN] at hc
  | list _ => simp [conformsNN] at hc

end AasVerif.Sdk
