import AasVerif.Model.Lex
import AasVerif.Model.Descr
/-!
Line comments: a `//` comment whose body holds no line terminator of the language (and does
not end in a splicing backslash) is one comment token ending at the next line terminator.
-/
namespace AasVerif.Lex
open AasVerif.Descr

theorem lexC_line (cfg : Cfg) : ∀ (l acc : Text) (c : Nat) (rest : Text),
    (∀ x ∈ l, cfg.nls.contains x = false) → cfg.nls.contains c = true →
    continues cfg (l.reverse ++ acc) = false →
    lexC cfg (.line acc) (l ++ c :: rest) = .comment (acc.reverse ++ l) :: .nl :: lexC cfg .code rest
  | [], acc, c, rest, _, hc, hcont => by
    simp only [List.reverse_nil, List.nil_append] at hcont
    have hc' : c ∈ cfg.nls := by simpa using hc
    simp [lexC, hc', hcont]
  | x :: l', acc, c, rest, hl, hc, hcont => by
    have hx : cfg.nls.contains x = false := hl x (List.mem_cons_self ..)
    rw [List.cons_append, lexC]
    simp only [hx, Bool.false_eq_true, if_false]
    rw [lexC_line cfg l' (x :: acc) c rest (fun y hy => hl y (List.mem_cons_of_mem _ hy)) hc
      (by simpa [List.reverse_cons, List.append_assoc] using hcont)]
    simp

/-- A sequence of `//` lines, each closed by LF. -/
theorem lexC_lines (cfg : Cfg) (h10 : cfg.nls.contains 10 = true) : ∀ (bodies : List Text) (rest : Text),
    (∀ b ∈ bodies, (∀ x ∈ b, cfg.nls.contains x = false) ∧ continues cfg b.reverse = false) →
    lexC cfg .code ((bodies.map fun b => 47 :: 47 :: (b ++ [10])).flatten ++ rest)
      = (bodies.flatMap fun b => [.comment b, .nl]) ++ lexC cfg .code rest
  | [], rest, _ => by simp
  | b :: bs, rest, h => by
    have hb := h b (List.mem_cons_self ..)
    simp only [List.map_cons, List.flatten_cons, List.cons_append, List.append_assoc, List.flatMap_cons]
    rw [lexC]
    have := lexC_line cfg b [] 10 ((bs.map fun b => 47 :: 47 :: (b ++ [10])).flatten ++ rest) hb.1 h10
      (by simpa using hb.2)
    simp only [List.nil_append, List.singleton_append] at this ⊢
    rw [this]
    simp only [List.reverse_nil, List.nil_append, List.cons.injEq, true_and]
    have ih := lexC_lines cfg h10 bs rest (fun b' hb' => h b' (List.mem_cons_of_mem _ hb'))
    simpa using ih

/-- `"\n".join(lines) + "\n"` is every line followed by LF. -/
theorem joinNl_snoc : ∀ (ls : List Text), ls ≠ [] → joinNl ls ++ [10] = (ls.map (· ++ [10])).flatten
  | [], h => absurd rfl h
  | [l], _ => by simp [joinNl]
  | l :: l2 :: ls, _ => by
    have := joinNl_snoc (l2 :: ls) (by simp)
    simp only [joinNl, List.map_cons, List.flatten_cons, List.append_assoc, List.cons_append, List.nil_append] at this ⊢
    rw [this]

/-- No line of `splitlines` holds a line boundary of `splitlines`. -/
theorem splitLines_no_break : ∀ (t : Text), ∀ l ∈ splitLines t, ∀ x ∈ l, PyStr.isBreak x = false := by
  intro t
  induction t using splitLines.induct with
  | case1 => intro l hl; simp [splitLines] at hl
  | case2 rest ih =>
    intro l hl
    simp only [splitLines, List.mem_cons] at hl
    rcases hl with rfl | hl
    · intro x hx; cases hx
    · exact ih l hl
  | case3 c rest hnot hbr ih =>
    intro l hl
    rw [splitLines] at hl
    · simp only [hbr, if_true, List.mem_cons] at hl
      rcases hl with rfl | hl
      · intro x hx; cases hx
      · exact ih l hl
    · exact hnot
  | case4 c rest hnot hbr hnil ih =>
    intro l hl
    rw [splitLines] at hl
    · simp only [hbr, hnil] at hl
      simp only [Bool.false_eq_true, if_false, List.mem_singleton] at hl
      subst hl
      intro x hx
      simp only [List.mem_singleton] at hx
      subst hx
      simpa using hbr
    · exact hnot
  | case5 c rest hnot hbr l0 ls hcons ih =>
    intro l hl
    rw [splitLines] at hl
    · simp only [hbr, hcons] at hl
      simp only [Bool.false_eq_true, if_false, List.mem_cons] at hl
      rcases hl with rfl | hl
      · intro x hx
        rcases List.mem_cons.mp hx with rfl | hx
        · simpa using hbr
        · exact ih l0 (by rw [hcons]; exact List.mem_cons_self ..) x hx
      · exact ih l (by rw [hcons]; exact List.mem_cons_of_mem _ hl)
    · exact hnot

end AasVerif.Lex

namespace AasVerif.Lex
open AasVerif.Descr

theorem stripped_ok {x out : Text} (h : stripped x = .ok out) : out = x := by
  unfold stripped at h
  split at h
  · cases h; rfl
  · cases h

/-- Generic form: lines `//` + body(l), joined by LF, followed by LF and `rest`. -/
theorem lexC_joined (cfg : Cfg) (h10 : cfg.nls.contains 10 = true)
    (hsub : ∀ x ∈ cfg.nls, PyStr.isBreak x = true)
    (body : Text → Text)
    (hbody : ∀ l, (∀ x ∈ l, PyStr.isBreak x = false) →
      (∀ x ∈ body l, cfg.nls.contains x = false) ∧ continues cfg (body l).reverse = false)
    (t rest : Text) (hne : splitLines t ≠ []) :
    lexC cfg .code (joinNl ((splitLines t).map fun l => 47 :: 47 :: body l) ++ 10 :: rest)
      = ((splitLines t).flatMap fun l => [.comment (body l), .nl]) ++ lexC cfg .code rest := by
  have h1 : joinNl ((splitLines t).map fun l => 47 :: 47 :: body l) ++ 10 :: rest
      = (((splitLines t).map body).map fun b => 47 :: 47 :: (b ++ [10])).flatten ++ rest := by
    have := joinNl_snoc ((splitLines t).map fun l => 47 :: 47 :: body l) (by simpa using hne)
    rw [show (10 :: rest) = [10] ++ rest from rfl, ← List.append_assoc, this]
    simp [List.map_map, Function.comp_def]
  rw [h1, lexC_lines cfg h10]
  · simp [List.flatMap_map]
  · intro b hb
    obtain ⟨l, hl, rfl⟩ := List.mem_map.mp hb
    exact hbody l (splitLines_no_break t l hl)

theorem not_nl_of_not_break (cfg : Cfg) (hsub : ∀ x ∈ cfg.nls, PyStr.isBreak x = true) (x : Nat)
    (hx : PyStr.isBreak x = false) : cfg.nls.contains x = false := by
  cases h : cfg.nls.contains x with
  | false => rfl
  | true =>
    have : x ∈ cfg.nls := by simpa using h
    rw [hsub x this] at hx; cases hx

theorem sssAll_lines (empty pre : Text) : ∀ (ls : List Text), (∀ l ∈ ls, ∀ x ∈ l, x ≠ 10) →
    sssAll empty pre ls = some (ls.map fun l => if l.length = 0 then empty else pre ++ l)
  | [], _ => rfl
  | l :: ls, h => by
    have hl : l.contains 10 = false := by
      cases hc : l.contains 10 with
      | false => rfl
      | true =>
        have : 10 ∈ l := by simpa using hc
        exact absurd rfl (h l (List.mem_cons_self ..) 10 this)
    simp only [sssAll, sssLine, hl, Bool.false_eq_true, if_false,
      sssAll_lines empty pre ls (fun l' hl' => h l' (List.mem_cons_of_mem _ hl')), List.map_cons]

end AasVerif.Lex
