import AasVerif.Lemmas.RulesBasic
import AasVerif.Lemmas.RulesCycle
import AasVerif.Lemmas.RulesShape
import AasVerif.Lemmas.RulesCtor
import AasVerif.Lemmas.RulesPattern
/-! One lemma per stage of `Rules.check`: the stage is clean iff the corresponding clauses of `Spec` hold. -/
namespace AasVerif.Rules
open AasVerif

theorem ite_singleton_eq_nil {b : Bool} {r : RuleId} : (if b = true then [r] else []) = [] ↔ b = false := by
  cases b <;> simp

/-! ### Stage 1 -/

theorem stage1_eq_nil (m : MM) :
    stage1 m = [] ↔
      (∀ c ∈ m.classes, (c.propNames ++ c.methods).Nodup) ∧ (m.typeNames ++ m.consts ++ m.fnNames).Nodup := by
  unfold stage1
  rw [List.append_eq_nil_iff, List.flatMap_eq_nil_iff, List.map_eq_nil_iff, dupCheck_iff_nodup]
  constructor
  · rintro ⟨h0, h2⟩
    have hp : ∀ c ∈ m.classes, classParse c = none := by
      intro c hc
      have := h0 c hc
      cases hpc : classParse c with
      | none => rfl
      | some r => rw [hpc] at this; simp at this
    have hf : parsedClasses m = m.classes := List.filter_eq_self.mpr (fun c hc => by simp [hp c hc])
    refine ⟨fun c hc => (classParse_none c).mp (hp c hc), ?_⟩
    simpa [symbolNames, hf, MM.typeNames, MM.classNames] using h2
  · rintro ⟨h1, h2⟩
    have hp : ∀ c ∈ m.classes, classParse c = none := fun c hc => (classParse_none c).mpr (h1 c hc)
    have hf : parsedClasses m = m.classes := List.filter_eq_self.mpr (fun c hc => by simp [hp c hc])
    refine ⟨fun c hc => by rw [hp c hc], ?_⟩
    simpa [symbolNames, hf, MM.typeNames, MM.classNames] using h2

/-! ### Stage 2 -/

theorem typeNameErrors_eq_nil (n : Text) :
    ((Gen.Rules.typePrefixes.filter (fun p => p.isPrefixOf n)).map (fun _ => RuleId.reservedTypePrefix) = []
      ∧ (if reservedTypeName n = true then [RuleId.reservedTypeName] else []) = []) ↔
    (∀ p ∈ Gen.Rules.typePrefixes, ¬ p <+: n) ∧ lower n ∉ Gen.Rules.reservedTypeNames := by
  rw [List.map_eq_nil_iff, List.filter_eq_nil_iff, ite_singleton_eq_nil]
  simp only [List.isPrefixOf_iff_prefix, reservedTypeName, decide_eq_false_iff_not]

theorem stage2_eq_nil (m : MM) :
    stage2 m = [] ↔
      (∀ n ∈ m.typeNames, (∀ p ∈ Gen.Rules.typePrefixes, ¬ p <+: n) ∧ lower n ∉ Gen.Rules.reservedTypeNames) ∧
      (∀ c ∈ m.classes, (∀ n ∈ c.methods, reservedMethod n = false) ∧ (∀ n ∈ c.propNames, reservedProperty n = false)) ∧
      (∀ n ∈ m.consts, reservedSymbol n = false) ∧
      (∀ n ∈ m.fnNames, reservedSymbol n = false) := by
  unfold stage2
  simp only [List.append_eq_nil_iff, List.flatMap_eq_nil_iff, report_eq_nil, and_assoc]
  simp only [typeNameErrors_eq_nil]

/-! ### Stage 3 -/

theorem parentError_eq_nil (m : MM) (p : Text) : parentError m p = [] ↔ p ∈ m.classNames := by
  unfold parentError
  by_cases h : p ∈ m.classNames
  · simp [h]
  · by_cases h' : p ∈ m.enumNames <;> simp [h, h']

theorem stage3_eq_nil (m : MM) :
    stage3 m = [] ↔ ∀ c ∈ m.classes, ∀ p ∈ c.parents, p ∈ m.classNames := by
  unfold stage3
  simp only [List.flatMap_eq_nil_iff, parentError_eq_nil]

/-! ### Stage 4 -/

theorem stage4_eq_nil (m : MM) :
    stage4 m = [] ↔ ∀ c ∈ m.classes, ∀ p ∈ c.props, ∀ n ∈ p.ty.refs, n ∈ m.typeNames := by
  unfold stage4 danglingTy
  simp only [List.flatMap_eq_nil_iff, report_eq_nil, List.any_eq_false, decide_eq_true_eq, Decidable.not_not]

/-! ### Stage 5 -/

theorem stage5_eq_nil (m : MM) : stage5 m = [] ↔ ∀ n, ¬ Reach m.classes n n := by
  rw [← dfs_ok_iff_acyclic]
  unfold stage5
  cases h : dfsCycle m.classes <;> simp

/-! ### Stage 6 -/

theorem clash_eq_nil (cs : List Cls) (c : Cls) :
    report .inheritedClash (fun ab => clashing ab.1 ab.2) (ancestorPairs cs c) = [] ↔
      ∀ a ∈ ancestorClasses cs c, ∀ b ∈ ancestorClasses cs c, a.name ≠ b.name → ∀ n ∈ a.propNames, n ∉ b.propNames := by
  rw [report_eq_nil]
  unfold ancestorPairs clashing
  simp only [List.mem_flatMap, List.mem_map, forall_exists_index, and_imp]
  constructor
  · intro h a ha b hb hne n hn hnb
    have := h (a, b) a ha b hb rfl
    simp only [Bool.and_eq_false_iff, bne_eq_false_iff_eq, List.any_eq_false, decide_eq_true_eq] at this
    rcases this with h1 | h2
    · exact hne h1
    · exact h2 n hn hnb
  · intro h ab a ha b hb hab
    subst hab
    simp only [Bool.and_eq_false_iff, bne_eq_false_iff_eq, List.any_eq_false, decide_eq_true_eq]
    by_cases hne : a.name = b.name
    · exact .inl hne
    · exact .inr (fun n hn => h a ha b hb hne n hn)

theorem stage6_eq_nil (m : MM) :
    stage6 m = [] ↔
      (∀ c ∈ m.classes, ∀ a ∈ ancestorClasses m.classes c, ∀ b ∈ ancestorClasses m.classes c,
        a.name ≠ b.name → ∀ n ∈ a.propNames, n ∉ b.propNames) ∧
      (∀ c ∈ m.classes, ∀ n ∈ c.propNames ++ c.methods, n ∉ inheritedMemberNames m.classes c) ∧
      (∀ c ∈ m.classes, c.ctor = none → ∀ a ∈ ancestorClasses m.classes c, ctorHasArgs a = false) := by
  unfold stage6
  simp only [List.flatMap_eq_nil_iff, List.append_eq_nil_iff, clash_eq_nil]
  simp only [report_eq_nil, decide_eq_false_iff_not, List.mem_append]
  constructor
  · intro h
    refine ⟨fun c hc => (h c hc).1.1.1, fun c hc n hn => ?_, fun c hc hn a ha => ?_⟩
    · rcases hn with hn | hn
      · exact (h c hc).1.1.2 n hn
      · exact (h c hc).1.2 n hn
    · have := (h c hc).2
      simp only [hn, Option.isNone_none, if_true, report_eq_nil] at this
      exact this a ha
  · rintro ⟨h0, h1, h2⟩ c hc
    refine ⟨⟨⟨h0 c hc, fun n hn => h1 c hc n (.inl hn)⟩, fun n hn => h1 c hc n (.inr hn)⟩, ?_⟩
    cases hn : c.ctor with
    | none =>
      simp only [Option.isNone_none, if_true, report_eq_nil]
      exact h2 c hc hn
    | some _ => simp

/-! ### Stage 7 and the attribute references of stage 8 -/

theorem docs_eq_nil (m : MM) :
    (stage7 m = [] ∧ attrErrors m = []) ↔ ∀ d ∈ m.docs, ∀ r ∈ d.refs, RefResolves m d.scope r := by
  unfold stage7 attrErrors allRefs
  simp only [List.flatMap_eq_nil_iff, List.mem_flatMap, forall_exists_index, and_imp]
  constructor
  · rintro ⟨h7, h8⟩ d hd r hr
    have a7 := h7 r d hd hr
    have a8 := h8 d hd r hr
    cases r with
    | cls n =>
      by_cases hn : n ∈ m.typeNames
      · exact hn
      · simp [hn] at a7
    | const n =>
      by_cases hn : n ∈ m.consts
      · exact hn
      · simp [hn] at a7
    | attr n =>
      cases hs : d.scope with
      | none => simp [hs] at a8
      | some t =>
        simp only [hs] at a8
        refine ⟨t, rfl, ?_⟩
        cases hb : attrResolves m t n
        · simp [hb] at a8
        · rfl
    | attr2 t n =>
      simp only [] at a8
      show attrResolves m t n = true
      cases hb : attrResolves m t n
      · simp [hb] at a8
      · rfl
  · intro h
    refine ⟨fun r d hd hr => ?_, fun d hd r hr => ?_⟩
    · have := h d hd r hr
      cases r with
      | cls n => simp only [RefResolves] at this; simp [this]
      | const n => simp only [RefResolves] at this; simp [this]
      | attr n => rfl
      | attr2 t n => rfl
    · have := h d hd r hr
      cases r with
      | cls n => rfl
      | const n => rfl
      | attr n =>
        obtain ⟨t, hs, hb⟩ := this
        simp [hs, hb]
      | attr2 t n =>
        simp only [RefResolves] at this
        simp [this]

/-! ### Stage 8 -/

theorem invErrors_eq_nil (m : MM) :
    invErrors m = [] ↔ ∀ c ∈ m.classes, (stackedInvs m.classes c).Nodup := by
  unfold invErrors
  simp only [List.flatMap_eq_nil_iff, List.map_eq_nil_iff, dupCheck_iff_nodup]

theorem ctorPart_eq_nil (m : MM) :
    (initErrors m ++ (if initErrors m = [] then matchErrors m else [])) = [] ↔
      ∀ c ∈ m.classes, CtorMatches m.classes c := by
  constructor
  · intro h
    rw [List.append_eq_nil_iff] at h
    obtain ⟨hi, hm⟩ := h
    rw [if_pos hi] at hm
    exact (matchErrors_eq_nil m).mp hm
  · intro h
    have hi := initErrors_of_matches m h
    rw [hi]
    simpa using (matchErrors_eq_nil m).mpr h

theorem stage8_eq_nil (m : MM) :
    stage8 m = [] ↔
      attrErrors m = [] ∧
      (∀ c ∈ m.classes, ∀ a ∈ c.args, a.ty.isOpt = true → a.dflt = .none) ∧
      (∀ c ∈ m.classes, CtorMatches m.classes c) ∧
      (∀ c ∈ m.classes, ∀ p ∈ stackedProps m.classes c, p.ty.Supported) ∧
      (∀ f ∈ m.fns, ∀ p, f.pattern = some p → Anchored p) ∧
      (∀ c ∈ m.classes, (stackedInvs m.classes c).Nodup) := by
  unfold stage8
  rw [List.append_eq_nil_iff, List.append_eq_nil_iff, List.append_eq_nil_iff, List.append_eq_nil_iff,
    List.append_eq_nil_iff, ctorPart_eq_nil, defaultErrors_eq_nil, shapeErrors_eq_nil, patternErrors_eq_nil,
    invErrors_eq_nil]
  simp only [and_assoc]

end AasVerif.Rules
