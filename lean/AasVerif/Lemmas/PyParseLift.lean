import AasVerif.Lemmas.PyParseBase
/-!
What "the reader reads the printed expression back" means at each level of Python's grammar
(`P1` … `P7`), and the lifting from a tight level to the looser ones.

Fuel: a statement about the level whose function sits `d` calls below `pOrList` asks for
`20 * length ≤ n + d`; the left-recursive productions (`sum`, `primary`) are stated in
continuation form — reading the printed operand and then continuing the loop is continuing
the loop with the operand read, on a fuel `m` with `n ≤ m + length`.
-/
namespace AasVerif.PyEmit
open AasVerif AasVerif.Expr

def P7 (x : PyExpr) : Prop :=
  ∀ (rest : List Tok) (n : Nat), (x.isNumber = true → rest.head? ≠ some .dot) →
    20 * (print x).length ≤ n + 6 →
    ∃ m, n ≤ m + (print x).length ∧ pPrimary n (print x ++ rest) = pTrailers m (strip x) rest

def P6 (x : PyExpr) : Prop :=
  ∀ (rest : List Tok) (n : Nat), stops 6 rest = true → 20 * (print x).length ≤ n + 5 →
    pFactor n (print x ++ rest) = .ok (strip x) rest

def P5 (x : PyExpr) : Prop :=
  ∀ (rest : List Tok) (n : Nat), stops 6 rest = true → 20 * (print x).length ≤ n + 4 →
    ∃ m, n ≤ m + (print x).length ∧ pArith n (print x ++ rest) = pArithRest m (strip x) rest

def P4 (x : PyExpr) : Prop :=
  ∀ (rest : List Tok) (n : Nat), stops 4 rest = true → 20 * (print x).length ≤ n + 3 →
    pCmp n (print x ++ rest) = .ok (strip x) rest

def P3 (x : PyExpr) : Prop :=
  ∀ (rest : List Tok) (n : Nat), stops 3 rest = true → 20 * (print x).length ≤ n + 2 →
    pNot n (print x ++ rest) = .ok (strip x) rest

def P2 (x : PyExpr) : Prop :=
  ∀ (rest : List Tok) (n : Nat), stops 2 rest = true → 20 * (print x).length ≤ n + 1 →
    wrapB (isAnd := true) (pAndList n (print x ++ rest)) = .ok (strip x) rest

def P1 (x : PyExpr) : Prop :=
  ∀ (rest : List Tok) (n : Nat), stops 1 rest = true → 20 * (print x).length ≤ n →
    wrapB (isAnd := false) (pOrList n (print x ++ rest)) = .ok (strip x) rest

/-- The reader reads `print x` back as `strip x` at every grammar level `x` is allowed at. -/
structure Reads (x : PyExpr) : Prop where
  p7 : 7 ≤ x.level → P7 x
  p6 : 6 ≤ x.level → P6 x
  p5 : 5 ≤ x.level → P5 x
  p4 : 4 ≤ x.level → P4 x
  p3 : 3 ≤ x.level → P3 x
  p2 : 2 ≤ x.level → P2 x
  p1 : P1 x

theorem stops_not_dot {rest : List Tok} (h : stops 7 rest = true) : rest.head? ≠ some .dot := by
  match rest, h with
  | [], _ => simp
  | t :: r, h => cases t <;> simp [stops, binPrec] at h ⊢

theorem pFactor_nonminus (n : Nat) {t : Tok} (r : List Tok) (h : t ≠ .minus) :
    pFactor (n + 1) (t :: r) = pPrimary n (t :: r) := by
  cases t <;> simp [pFactor] at h ⊢

theorem pNot_nonnot (n : Nat) {t : Tok} (r : List Tok) (h : t ≠ .kwNot) :
    pNot (n + 1) (t :: r) = pCmp n (t :: r) := by
  cases t <;> simp [pNot] at h ⊢

theorem pAndList_single {n : Nat} {ts rest : List Tok} {a : PyExpr} (h : pNot n ts = .ok a rest)
    (hs : stops 2 rest = true) : pAndList (n + 1) ts = .ok [a] rest := by
  simp only [pAndList, h, PR.bind_ok]
  match rest, hs with
  | [], _ => rfl
  | t :: r, hs => cases t <;> simp [stops, binPrec] at hs ⊢

theorem pOrList_single {n : Nat} {ts rest : List Tok} {a : PyExpr}
    (h : wrapB (isAnd := true) (pAndList n ts) = .ok a rest)
    (hs : stops 1 rest = true) : pOrList (n + 1) ts = .ok [a] rest := by
  simp only [pOrList, h, PR.bind_ok]
  match rest, hs with
  | [], _ => rfl
  | t :: r, hs => cases t <;> simp [stops, binPrec] at hs ⊢

theorem lift76 {x : PyExpr} (hok : parenOK x = true) (hl : 7 ≤ x.level) (h : P7 x) : P6 x := by
  intro rest n hs hn
  have hpos := print_pos x hok
  obtain ⟨t, ts, hp, st⟩ := head_print x hok
  have hm : t ≠ .minus := fun e => by have := st.minusK e; omega
  obtain ⟨n', rfl⟩ : ∃ n', n = n' + 1 := ⟨n - 1, by omega⟩
  obtain ⟨m, hm1, hm2⟩ := h rest n' (fun _ => stops_not_dot (stops_mono (by decide) hs)) (by omega)
  obtain ⟨m', rfl⟩ : ∃ m', m = m' + 1 := ⟨m - 1, by omega⟩
  rw [hp] at hm2 ⊢
  rw [List.cons_append, pFactor_nonminus _ _ hm, ← List.cons_append, hm2,
    pTrailers_stop _ _ (stops_mono (by decide) hs)]

theorem lift65 {x : PyExpr} (hok : parenOK x = true) (h : P6 x) : P5 x := by
  intro rest n hs hn
  have hpos := print_pos x hok
  obtain ⟨n', rfl⟩ : ∃ n', n = n' + 1 := ⟨n - 1, by omega⟩
  refine ⟨n', by omega, ?_⟩
  simp only [pArith, h rest n' hs (by omega), PR.bind_ok]

theorem lift54 {x : PyExpr} (hok : parenOK x = true) (h : P5 x) : P4 x := by
  intro rest n hs hn
  have hpos := print_pos x hok
  obtain ⟨n', rfl⟩ : ∃ n', n = n' + 1 := ⟨n - 1, by omega⟩
  obtain ⟨m, hm1, hm2⟩ := h rest n' (stops_mono (by decide) hs) (by omega)
  obtain ⟨m', rfl⟩ : ∃ m', m = m' + 1 := ⟨m - 1, by omega⟩
  simp only [pCmp, hm2, pArithRest_stop _ _ (stops_mono (by decide) hs), PR.bind_ok, readOp_stop hs]

theorem lift43 {x : PyExpr} (hok : parenOK x = true) (hl : 4 ≤ x.level) (h : P4 x) : P3 x := by
  intro rest n hs hn
  have hpos := print_pos x hok
  obtain ⟨t, ts, hp, st⟩ := head_print x hok
  have hm : t ≠ .kwNot := fun e => by have := st.notK e; omega
  obtain ⟨n', rfl⟩ : ∃ n', n = n' + 1 := ⟨n - 1, by omega⟩
  have := h rest n' (stops_mono (by decide) hs) (by omega)
  rw [hp] at this ⊢
  rw [List.cons_append, pNot_nonnot _ _ hm, ← List.cons_append, this]

theorem lift32 {x : PyExpr} (hok : parenOK x = true) (h : P3 x) : P2 x := by
  intro rest n hs hn
  have hpos := print_pos x hok
  obtain ⟨n', rfl⟩ : ∃ n', n = n' + 1 := ⟨n - 1, by omega⟩
  rw [pAndList_single (h rest n' (stops_mono (by decide) hs) (by omega)) hs]
  rfl

theorem lift21 {x : PyExpr} (hok : parenOK x = true) (h : P2 x) : P1 x := by
  intro rest n hs hn
  have hpos := print_pos x hok
  obtain ⟨n', rfl⟩ : ∃ n', n = n' + 1 := ⟨n - 1, by omega⟩
  rw [pOrList_single (h rest n' (stops_mono (by decide) hs) (by omega)) hs]
  rfl

theorem reads_of7 {x : PyExpr} (hok : parenOK x = true) (hl : x.level = 7) (h : P7 x) : Reads x :=
  have h6 := lift76 hok (by omega) h
  have h5 := lift65 hok h6
  have h4 := lift54 hok h5
  have h3 := lift43 hok (by omega) h4
  have h2 := lift32 hok h3
  ⟨fun _ => h, fun _ => h6, fun _ => h5, fun _ => h4, fun _ => h3, fun _ => h2, lift21 hok h2⟩

theorem reads_of6 {x : PyExpr} (hok : parenOK x = true) (hl : x.level = 6) (h6 : P6 x) : Reads x :=
  have h5 := lift65 hok h6
  have h4 := lift54 hok h5
  have h3 := lift43 hok (by omega) h4
  have h2 := lift32 hok h3
  ⟨fun h => by omega, fun _ => h6, fun _ => h5, fun _ => h4, fun _ => h3, fun _ => h2, lift21 hok h2⟩

theorem reads_of5 {x : PyExpr} (hok : parenOK x = true) (hl : x.level = 5) (h5 : P5 x) : Reads x :=
  have h4 := lift54 hok h5
  have h3 := lift43 hok (by omega) h4
  have h2 := lift32 hok h3
  ⟨fun h => by omega, fun h => by omega, fun _ => h5, fun _ => h4, fun _ => h3, fun _ => h2, lift21 hok h2⟩

theorem reads_of4 {x : PyExpr} (hok : parenOK x = true) (hl : x.level = 4) (h4 : P4 x) : Reads x :=
  have h3 := lift43 hok (by omega) h4
  have h2 := lift32 hok h3
  ⟨fun h => by omega, fun h => by omega, fun h => by omega, fun _ => h4, fun _ => h3, fun _ => h2, lift21 hok h2⟩

theorem reads_of3 {x : PyExpr} (hok : parenOK x = true) (hl : x.level = 3) (h3 : P3 x) : Reads x :=
  have h2 := lift32 hok h3
  ⟨fun h => by omega, fun h => by omega, fun h => by omega, fun h => by omega, fun _ => h3, fun _ => h2, lift21 hok h2⟩

theorem reads_of2 {x : PyExpr} (hok : parenOK x = true) (hl : x.level = 2) (h2 : P2 x) : Reads x :=
  ⟨fun h => by omega, fun h => by omega, fun h => by omega, fun h => by omega, fun h => by omega, fun _ => h2, lift21 hok h2⟩

theorem reads_of1 {x : PyExpr} (hl : x.level = 1) (h1 : P1 x) : Reads x :=
  ⟨fun h => by omega, fun h => by omega, fun h => by omega, fun h => by omega, fun h => by omega, fun h => by omega, h1⟩

/-- an atom: one token, read by `pAtom` -/
theorem p7_atom {x : PyExpr} {t : Tok} (hp : print x = [t]) (hs : strip x = x)
    (hat : ∀ (n : Nat) (r : List Tok), (x.isNumber = true → r.head? ≠ some .dot) → pAtom (n + 1) (t :: r) = .ok x r) :
    P7 x := by
  intro rest n hdot hn
  rw [hp] at hn ⊢
  simp only [List.length_cons, List.length_nil] at hn
  obtain ⟨n', rfl⟩ : ∃ n', n = n' + 2 := ⟨n - 2, by omega⟩
  refine ⟨n' + 1, by simp, ?_⟩
  simp only [pPrimary, List.cons_append, List.nil_append, hat n' rest hdot, PR.bind_ok, hs]

end AasVerif.PyEmit
