import AasVerif.Lemmas.XsdRead
/-!
`XsdRe.read (xsdUnion r) = ok (normUnion r)` for the trees the pipeline renders, by mutual
structural induction; the character-set case is the parameter `SetLemma` (proved in
`Lemmas/XsdReadSet.lean`).
-/
namespace AasVerif.XsdPattern
open AasVerif AasVerif.Retree AasVerif.XsdPattern.XsdRe

/-- reading the rendering of a character set yields the set -/
def SetLemma (rng : EscTable) : Prop :=
  ∀ (compl : Bool) (rs : List Rng), inRangeSet compl rs = true →
    ∀ (p : Option Value) (cur : Frame) (stk : List Frame) (rest : Text),
      feed (N p cur stk) (xsdSet rng compl rs ++ rest)
        = feed (N (some (.set compl (rs.map normRng))) (flush p cur) stk) rest

mutual
  /-- the trees `translate` renders: no anchors, no formatted values, and in the image of the parser -/
  def rdValue : Value → Bool
    | .group u => rdUnion u && !u.uniates.isEmpty
    | .char _ => true
    | .set compl rs => inRangeSet compl rs
    | .fv _ => false
    | .sym .dot => true
    | .sym _ => false
  def rdTerms : List Term → Bool
    | [] => true
    | .mk v q :: ts => rdValue v && (match q with | some q => inRangeQuant q | none => true) && rdTerms ts
  def rdConcats : List Concat → Bool
    | [] => true
    | .mk ts :: cs => rdTerms ts && rdConcats cs
  def rdUnion : Union → Bool
    | .mk us => rdConcats us
end

/-- the pending atom and the frame after the terms -/
def pushTerms (p : Option Value) (f : Frame) : List Term → Option Value × Frame
  | [] => (p, f)
  | .mk v none :: ts => pushTerms (some v) (flush p f) ts
  | .mk v (some q) :: ts => pushTerms none ⟨(flush p f).alts, (flush p f).pieces ++ [.mk v (some q)]⟩ ts

def pushAlts (pf : Option Value × Frame) : List Concat → Option Value × Frame
  | [] => pf
  | .mk ts :: cs =>
    pushAlts (pushTerms none ⟨(flush pf.1 pf.2).alts ++ [.mk (flush pf.1 pf.2).pieces], []⟩ ts) cs

theorem flush_alts (p : Option Value) (f : Frame) : (flush p f).alts = f.alts := by
  cases p <;> rfl

theorem flush_pushTerms (p : Option Value) (f : Frame) (ts : List Term) :
    flush (pushTerms p f ts).1 (pushTerms p f ts).2 = ⟨f.alts, (flush p f).pieces ++ ts⟩ := by
  induction ts generalizing p f with
  | nil => cases p <;> simp [pushTerms, flush]
  | cons t ts ih =>
    obtain ⟨v, q⟩ := t
    cases q with
    | none =>
      simp only [pushTerms]
      rw [ih]
      cases p <;> simp [flush]
    | some q =>
      simp only [pushTerms]
      rw [ih]
      cases p <;> simp [flush]

theorem union_pushAlts (pf : Option Value × Frame) (cs : List Concat) :
    (flush (pushAlts pf cs).1 (pushAlts pf cs).2).union
      = .mk ((flush pf.1 pf.2).alts ++ [.mk (flush pf.1 pf.2).pieces] ++ cs) := by
  induction cs generalizing pf with
  | nil => simp [pushAlts, Frame.union]
  | cons c cs ih =>
    obtain ⟨ts⟩ := c
    simp only [pushAlts]
    rw [ih, flush_pushTerms]
    simp [flush]

theorem step_open (p : Option Value) (cur : Frame) (stk : List Frame) :
    step (N p cur stk) 40 = .ok (N none ⟨[], []⟩ (flush p cur :: stk)) := by
  simp [step]

theorem step_close (p : Option Value) (cur par : Frame) (stk : List Frame) :
    step (N p cur (par :: stk)) 41 = .ok (N (some (.group (flush p cur).union)) par stk) := by
  simp [step]

theorem step_bar (p : Option Value) (cur : Frame) (stk : List Frame) :
    step (N p cur stk) 124 = .ok (N none ⟨(flush p cur).alts ++ [.mk (flush p cur).pieces], []⟩ stk) := by
  simp [step]

theorem step_dot (p : Option Value) (cur : Frame) (stk : List Frame) :
    step (N p cur stk) 46 = .ok (N (some dotSet) (flush p cur) stk) := by
  simp [step, atom]

mutual
  theorem rd_value (lit rng : EscTable) (hl : shapeOk metaLit lit = true) (hs : SetLemma rng) :
      (v : Value) → rdValue v = true → ∀ (p : Option Value) (cur : Frame) (stk : List Frame) (rest : Text),
        feed (N p cur stk) (xsdValue lit rng v ++ rest) = feed (N (some (normValue v)) (flush p cur) stk) rest
    | .group u, h, p, cur, stk, rest => by
      simp only [rdValue, Bool.and_eq_true, Bool.not_eq_true', List.isEmpty_eq_false_iff] at h
      obtain ⟨p', f', hfeed, hun⟩ := rd_union lit rng hl hs u h.1 (by simpa using h.2) (flush p cur :: stk) (41 :: rest)
      simp only [xsdValue, List.cons_append, List.append_assoc, List.nil_append]
      rw [feed_cons_ok _ (step_open p cur stk), hfeed, feed_cons_ok _ (step_close p' f' (flush p cur) stk), hun]
      simp only [normValue]
    | .char c, _, p, cur, stk, rest => by
      simp only [xsdValue, normValue]
      exact feed_chr lit hl c p cur stk rest
    | .set compl rs, h, p, cur, stk, rest => by
      simp only [rdValue] at h
      simp only [xsdValue, normValue]
      exact hs compl rs h p cur stk rest
    | .fv _, h, _, _, _, _ => by simp [rdValue] at h
    | .sym .dot, _, p, cur, stk, rest => by
      simp only [xsdValue, normValue, List.cons_append, List.nil_append]
      rw [feed_cons_ok _ (step_dot p cur stk)]
    | .sym .start, h, _, _, _, _ => by simp [rdValue] at h
    | .sym .stop, h, _, _, _, _ => by simp [rdValue] at h
  theorem rd_terms (lit rng : EscTable) (hl : shapeOk metaLit lit = true) (hs : SetLemma rng) :
      (ts : List Term) → rdTerms ts = true → ∀ (p : Option Value) (cur : Frame) (stk : List Frame) (rest : Text),
        feed (N p cur stk) (xsdTerms lit rng ts ++ rest)
          = feed (N (pushTerms p cur (normTerms ts)).1 (pushTerms p cur (normTerms ts)).2 stk) rest
    | [], _, p, cur, stk, rest => by simp [xsdTerms, normTerms, pushTerms]
    | .mk v none :: ts, h, p, cur, stk, rest => by
      simp only [rdTerms, Bool.and_eq_true] at h
      simp only [xsdTerms, normTerms, pushTerms, Option.map_none, List.nil_append, List.append_assoc]
      rw [rd_value lit rng hl hs v h.1.1, rd_terms lit rng hl hs ts h.2]
    | .mk v (some q) :: ts, h, p, cur, stk, rest => by
      simp only [rdTerms, Bool.and_eq_true] at h
      simp only [xsdTerms, normTerms, pushTerms, Option.map_some, List.append_assoc]
      rw [rd_value lit rng hl hs v h.1.1, feed_quant _ q h.1.2, rd_terms lit rng hl hs ts h.2]
  theorem rd_alts (lit rng : EscTable) (hl : shapeOk metaLit lit = true) (hs : SetLemma rng) :
      (cs : List Concat) → rdConcats cs = true → ∀ (p : Option Value) (cur : Frame) (stk : List Frame) (rest : Text),
        feed (N p cur stk) (xsdAlts lit rng cs ++ rest)
          = feed (N (pushAlts (p, cur) (normConcats cs)).1 (pushAlts (p, cur) (normConcats cs)).2 stk) rest
    | [], _, p, cur, stk, rest => by simp [xsdAlts, normConcats, pushAlts]
    | .mk ts :: cs, h, p, cur, stk, rest => by
      simp only [rdConcats, Bool.and_eq_true] at h
      simp only [xsdAlts, normConcats, pushAlts, List.cons_append, List.append_assoc]
      rw [feed_cons_ok _ (step_bar p cur stk), rd_terms lit rng hl hs ts h.1, rd_alts lit rng hl hs cs h.2]
  theorem rd_union (lit rng : EscTable) (hl : shapeOk metaLit lit = true) (hs : SetLemma rng) :
      (u : Union) → rdUnion u = true → u.uniates ≠ [] → ∀ (stk : List Frame) (rest : Text),
        ∃ p' f', feed (N none ⟨[], []⟩ stk) (xsdUnion lit rng u ++ rest) = feed (N p' f' stk) rest ∧
          (flush p' f').union = normUnion u
    | .mk [], _, hne, _, _ => by simp [Union.uniates] at hne
    | .mk (.mk ts :: cs), h, _, stk, rest => by
      simp only [rdUnion, rdConcats, Bool.and_eq_true] at h
      refine ⟨(pushAlts (pushTerms none ⟨[], []⟩ (normTerms ts)) (normConcats cs)).1,
        (pushAlts (pushTerms none ⟨[], []⟩ (normTerms ts)) (normConcats cs)).2, ?_, ?_⟩
      · simp only [xsdUnion, List.append_assoc]
        rw [rd_terms lit rng hl hs ts h.1, rd_alts lit rng hl hs cs h.2]
      · rw [union_pushAlts, flush_pushTerms]
        simp [flush, normUnion, normConcats]
end

/-- **Reading the rendering.** -/
theorem read_render (lit rng : EscTable) (hl : shapeOk metaLit lit = true) (hs : SetLemma rng)
    (u : Union) (h : rdUnion u = true) (hne : u.uniates ≠ []) :
    XsdRe.read (xsdUnion lit rng u) = .ok (normUnion u) := by
  obtain ⟨p', f', hfeed, hun⟩ := rd_union lit rng hl hs u h hne [] []
  simp only [List.append_nil] at hfeed
  unfold XsdRe.read
  have : init = N none ⟨[], []⟩ [] := rfl
  rw [this, hfeed]
  simp only [feed, finish]
  rw [hun]

end AasVerif.XsdPattern
