import AasVerif.Lemmas.TsPreserve
import AasVerif.Lemmas.TargetSem
/-!
C09, Java: what `Java.transpile` emits means, under any semantics that is sound with respect to
Python (`SemSound` + `SizeIndexSound`), what the source expression means — or the evaluation leaves
the modelled domain.  Whole expression language except that the literal parts of f-strings must not
contain braces (the Java transpiler doubles them, `Props/C09.lean` has the witness).
-/
namespace AasVerif.TargetEmit
open AasVerif AasVerif.Expr
open AasVerif.PyEmit (Res hasFv litsOf)

mutual
  /-- the literal parts of f-strings contain neither `{` nor `}` -/
  def noBraces : Expr → Bool
    | .const _ | .name _ => true
    | .member e _ => noBraces e
    | .index a b | .cmp a _ b | .isIn a b | .impl a b | .add a b | .sub a b => noBraces a && noBraces b
    | .methodCall e _ args => noBraces e && noBracesList args
    | .funCall _ args => noBracesList args
    | .isNone e | .isNotNone e | .not e => noBraces e
    | .and es | .or es => noBracesList es
    | .joinedStr ps => noBracesParts ps
    | .any g c | .all g c => noBracesGen g && noBraces c
  def noBracesList : List Expr → Bool
    | [] => true
    | e :: es => noBraces e && noBracesList es
  def noBracesParts : List JPart → Bool
    | [] => true
    | .lit s :: ps => s.all (fun c => !(c == 123 || c == 125)) && noBracesParts ps
    | .fv e :: ps => noBraces e && noBracesParts ps
  def noBracesGen : Gen → Bool
    | .forEach _ it => noBraces it
    | .forRange _ a b => noBraces a && noBraces b
end

theorem doubleBraces_id : ∀ s : Text, s.all (fun c => !(c == 123 || c == 125)) = true → Java.doubleBraces s = s
  | [], _ => rfl
  | c :: cs, h => by
    simp only [List.all_cons, Bool.and_eq_true, Bool.not_eq_true', Bool.or_eq_false_iff, beq_eq_false_iff_ne] at h
    have ih := doubleBraces_id cs (by simpa using h.2)
    unfold Java.doubleBraces at ih ⊢
    simp only [List.flatMap_cons, ih]
    simp [h.1.1, h.1.2]

@[simp] theorem evalT_stream (sem : Sem) (ρ : Env) (x : TExpr) : evalT sem ρ (.stream x) = evalT sem ρ x := by
  simp [evalT]

theorem R_unwrap {sem : Sem} (hs : SemSound sem) (k : UnwrapKind) {a p : TOut} (h : R a p) :
    R (a.bind fun v => ofOpt (sem.unwrap k v)) p := by
  rcases h with h | h
  · subst h; exact Or.inl rfl
  · subst h
    cases a with
    | val v =>
      simp only [TOut.bind]
      cases hu : sem.unwrap k v with
      | none => exact Or.inl rfl
      | some o => rw [hs.unwrap k v o hu]; exact Or.inr rfl
    | raised => exact Or.inr rfl
    | off => exact Or.inl rfl

theorem bind2_val_right (p : TOut) (v : Val) (f : Val → Val → TOut) :
    p.bind2 (.val v) f = p.bind fun c => f c v := by
  cases p <;> rfl

/-- an index counted from the end: `c.get(c.size() - n)` -/
theorem R_sizeMinus {sem : Sem} (hs : SemSound sem) (hz : SizeIndexSound sem) (ρ : Env) (k : IndexKind) (hk : k ≠ .cppBack)
    {c' c'' : TExpr} {c : Expr} (n : Nat) (hn : 0 < n) (hcc : evalT sem ρ c'' = evalT sem ρ c')
    (ih : R (evalT sem ρ c') (coarse (Expr.eval ρ c))) :
    R (evalT sem ρ (.index k c'' (.sizeMinus c' n)))
      (coarse (Expr.eval ρ (.index c (.const (.int (-(n : Int))))))) := by
  rw [coarse_index]
  have hev : evalT sem ρ (.index k c'' (.sizeMinus c' n)) =
      (evalT sem ρ c').bind2 ((evalT sem ρ c').bind (sizeMinusVal sem n)) (fun cv iv => ofOpt (sem.index k cv iv)) := by
    cases k <;> first | exact absurd rfl hk | simp only [evalT, hcc]
  rw [hev]
  simp only [Expr.eval, constVal, coarse, bind2_val_right]
  rcases ih with ih | ih
  · rw [ih]; exact Or.inl rfl
  · rw [ih]
    cases Expr.eval ρ c with
    | val cv =>
      simp only [coarse, TOut.bind, sizeMinusVal]
      cases hsz : sem.size cv with
      | none => exact Or.inl rfl
      | some sz =>
        simp only [TOut.bind2]
        exact R_ofOpt (fun o ho => hz k cv sz n o hsz hn ho hk)
    | _ => exact Or.inr rfl

theorem negIndex_eq {i : Expr} {n : Nat} (h : negIndex i = some n) : i = .const (.int (-(n : Int))) ∧ 0 < n := by
  cases i <;> simp only [negIndex] at h <;> try (cases h; done)
  rename_i c
  cases c <;> simp only [] at h <;> try (cases h; done)
  rename_i j
  split at h
  · cases h
    constructor
    · congr 2; omega
    · omega
  · cases h

/-- `!x.isPresent()` -/
theorem R_not_isNull {sem : Sem} (hs : SemSound sem) (ρ : Env) (k : NullTest) {v : TExpr} {e : Expr}
    (ih : R (evalT sem ρ v) (coarse (Expr.eval ρ e))) :
    R (evalT sem ρ (.not (.isNull k false v))) (coarse (Expr.eval ρ (.isNone e))) := by
  rw [coarse_isNone]
  simp only [evalT]
  rcases ih with ih | ih
  · rw [ih]; exact Or.inl rfl
  · rw [ih]
    cases Expr.eval ρ e with
    | val x =>
      simp only [coarse, TOut.bind]
      cases hk : sem.isNull k x with
      | none => exact Or.inl rfl
      | some b =>
        simp only [TOut.bind]
        cases ht : sem.truthy ρ.fops (.bool (b == false)) with
        | none => exact Or.inl rfl
        | some b2 =>
          have h2 : b2 = (b == false) := hs.truthy _ _ _ ht
          have h1 := hs.isNull _ _ _ hk
          subst h2 h1
          exact Or.inr (by cases x <;> rfl)
    | _ => exact Or.inr rfl

theorem R_isNull {sem : Sem} (hs : SemSound sem) (ρ : Env) (k : NullTest) {v : TExpr} {e : Expr}
    (ih : R (evalT sem ρ v) (coarse (Expr.eval ρ e))) :
    R (evalT sem ρ (.isNull k true v)) (coarse (Expr.eval ρ (.isNone e))) ∧
    R (evalT sem ρ (.isNull k false v)) (coarse (Expr.eval ρ (.isNotNone e))) := by
  rw [coarse_isNone, coarse_isNotNone]
  simp only [evalT]
  constructor <;>
  · refine R_bind ih (fun x => ?_)
    cases hk : sem.isNull k x with
    | none => exact Or.inl rfl
    | some b => rw [hs.isNull _ _ _ hk]; exact Or.inr (by cases x <;> rfl)

theorem Java.emitCmp_ok (op : Cmp) : emitCmp Gen.TargetEmit.Java.comparisonMap op = .ok op := by
  cases op <;> rfl

theorem Java.genVar_notLen (cfg : TCfg) (g : Gen) (vs : List Text) (v : Text) (it : TIter)
    (hng : noLenVarGen g = true) (hg : Java.transpileGen cfg vs g = .ok (v, it)) : (v == lenName) = false := by
  cases g with
  | forEach y e =>
    simp only [Java.transpileGen, Res.bind_eq_ok] at hg
    obtain ⟨_, _, hg⟩ := hg
    cases hg
    simp only [noLenVarGen, Bool.and_eq_true, Bool.not_eq_true'] at hng
    exact hng.1
  | forRange y a b =>
    simp only [Java.transpileGen, Res.bind_eq_ok] at hg
    obtain ⟨_, _, _, _, hg⟩ := hg
    cases hg
    simp only [noLenVarGen, Bool.and_eq_true, Bool.not_eq_true'] at hng
    exact hng.1.1

mutual
  theorem java_preserves (sem : Sem) (hs : SemSound sem) (hz : SizeIndexSound sem) (cfg : TCfg) :
      ∀ (e : Expr) (vs : List Text) (ctx : Java.Ctx) (x : TExpr), noLenVar e = true → noBraces e = true →
        Java.transpile cfg vs ctx e = .ok x →
        ∀ ρ : Env, LenBuiltin ρ → R (evalT sem ρ x) (coarse (Expr.eval ρ e))
    | .name n, vs, ctx, x, _, _, h, ρ, _ => by
      simp only [Java.transpile, transpileName] at h
      rw [coarse_name]
      split at h
      · cases h; exact Or.inr (by simp only [evalT])
      · split at h
        · next hsf => cases h; subst hsf; exact Or.inr (by simp only [evalT])
        · split at h <;> first | (cases h; exact Or.inr (by simp only [evalT])) | cases h
    | .const c, vs, ctx, x, _, _, h, ρ, _ => by
      simp only [Java.transpile] at h
      cases h
      exact Or.inr (by simp only [evalT, Expr.eval, coarse])
    | .member inst n, vs, ctx, x, hn, hb, h, ρ, hl => by
      simp only [Java.transpile, Res.bind_eq_ok] at h
      obtain ⟨i', hi, h⟩ := h
      simp only [noLenVar] at hn
      simp only [noBraces] at hb
      have ih := java_preserves sem hs hz cfg inst vs .plain i' hn hb hi ρ hl
      have hattr : ∀ k, R (evalT sem ρ (.attr i' k n)) (coarse (Expr.eval ρ (.member inst n))) := by
        intro k
        simp only [evalT]; rw [coarse_member]
        exact R_bind ih (fun v => Or.inr rfl)
      have hun : ∀ uk k, R (evalT sem ρ (.unwrap uk (.attr i' k n))) (coarse (Expr.eval ρ (.member inst n))) := by
        intro uk k
        have := R_unwrap hs uk (hattr k)
        simpa only [evalT] using this
      split at h
      · split at h
        · cases h
        · split at h
          · split at h <;> cases h <;> first | exact hattr _ | exact hun _ _
          · cases h; exact hattr _
      · cases h; exact hattr _
      · cases h
    | .index c i, vs, ctx, x, hn, hb, h, ρ, hl => by
      simp only [Java.transpile, Res.bind_eq_ok] at h
      obtain ⟨c', hc, i', hi, h⟩ := h
      simp only [noLenVar, Bool.and_eq_true] at hn
      simp only [noBraces, Bool.and_eq_true] at hb
      cases h
      have ihc := java_preserves sem hs hz cfg c vs .plain c' hn.1 hb.1 hc ρ hl
      cases hni : negIndex i with
      | none =>
        simp only []
        simp only [evalT, evalT_parenUnless]; rw [coarse_index]
        exact R_bind2 ihc (java_preserves sem hs hz cfg i vs .plain i' hn.2 hb.2 hi ρ hl)
          (fun a b => R_ofOpt (hs.index _ a b))
      | some k =>
        obtain ⟨hieq, hk⟩ := negIndex_eq hni
        subst hieq
        exact R_sizeMinus hs hz ρ .javaGet (by decide) k hk (by simp) ihc
    | .cmp l op r, vs, ctx, x, hn, hb, h, ρ, hl => by
      simp only [Java.transpile, Res.bind_eq_ok, Java.emitCmp_ok] at h
      obtain ⟨o, ho, l', hl', r', hr', h⟩ := h
      cases ho
      simp only [noLenVar, Bool.and_eq_true] at hn
      simp only [noBraces, Bool.and_eq_true] at hb
      have ihl := java_preserves sem hs hz cfg l vs .plain l' hn.1 hb.1 hl' ρ hl
      have ihr := java_preserves sem hs hz cfg r vs .plain r' hn.2 hb.2 hr' ρ hl
      split at h <;> cases h <;> simp only [evalT, evalT_paren] <;> rw [coarse_cmp] <;>
        exact R_bind2 ihl ihr (fun a b => R_ofOpt (hs.cmp _ _ _ _ a b))
    | .isIn m c, vs, ctx, x, hn, hb, h, ρ, hl => by
      simp only [Java.transpile, Res.bind_eq_ok] at h
      obtain ⟨m', hm, c', hc, h⟩ := h
      simp only [noLenVar, Bool.and_eq_true] at hn
      simp only [noBraces, Bool.and_eq_true] at hb
      cases h
      have ihm := java_preserves sem hs hz cfg m vs .plain m' hn.1 hb.1 hm ρ hl
      have ihc := java_preserves sem hs hz cfg c vs .plain c' hn.2 hb.2 hc ρ hl
      simp only [evalT, evalT_parenUnless]; rw [coarse_isIn, bind2_swap]
      exact R_bind2 ihm ihc (fun mv cv => R_ofOpt (hs.contains _ _ cv mv))
    | .impl a c, vs, ctx, x, hn, hb, h, ρ, hl => by
      simp only [Java.transpile, Res.bind_eq_ok] at h
      obtain ⟨a', ha, c', hc, h⟩ := h
      simp only [noLenVar, Bool.and_eq_true] at hn
      simp only [noBraces, Bool.and_eq_true] at hb
      cases h
      exact R_impl hs ρ (by simpa using java_preserves sem hs hz cfg a vs .plain a' hn.1 hb.1 ha ρ hl)
        (by simpa using java_preserves sem hs hz cfg c vs .plain c' hn.2 hb.2 hc ρ hl)
    | .methodCall inst n args, vs, ctx, x, hn, hb, h, ρ, hl => by
      simp only [Java.transpile, Res.bind_eq_ok] at h
      obtain ⟨i', hi, as', has, h⟩ := h
      simp only [noLenVar, Bool.and_eq_true] at hn
      simp only [noBraces, Bool.and_eq_true] at hb
      cases h
      simp only [evalT, evalT_parenUnless]; rw [coarse_methodCall]
      exact R_bind (java_preserves sem hs hz cfg inst vs .plain i' hn.1 hb.1 hi ρ hl)
        (fun recv => RA_bind (java_preservesArgs sem hs hz cfg args vs .plain as' hn.2 hb.2 has ρ hl) (fun _ => Or.inr rfl))
    | .funCall n args, vs, ctx, x, hn, hb, h, ρ, hl => by
      simp only [Java.transpile] at h
      simp only [noLenVar] at hn
      simp only [noBraces] at hb
      split at h
      · cases h
      · simp only [Res.bind_eq_ok] at h
        obtain ⟨as', has, h⟩ := h
        cases h
        simp only [evalT]; rw [coarse_funCall]
        exact RA_bind (java_preservesArgs sem hs hz cfg args vs .call as' hn hb has ρ hl) (fun _ => Or.inr rfl)
      · simp only [Res.bind_eq_ok] at h
        obtain ⟨as', has, h⟩ := h
        split at h
        · next hnl =>
          subst hnl
          split at h
          · next a a' =>
            simp only [Java.transpileArgs, Res.bind_eq_ok] at has
            obtain ⟨a'', ha, es', hes, has⟩ := has
            cases hes; cases has
            simp only [noLenVarList, Bool.and_eq_true] at hn
            simp only [noBracesList, Bool.and_eq_true] at hb
            have ih := java_preserves sem hs hz cfg a vs .plain a' hn.1 hb.1 ha ρ hl
            have key : ∀ k, R (evalT sem ρ (.len k (parenUnless Gen.TargetEmit.Java.len a a')))
                (coarse (Expr.eval ρ (.funCall lenName [a]))) := by
              intro k
              simp only [evalT, evalT_parenUnless]; rw [coarse_len ρ hl a]
              exact R_bind ih (fun v => R_ofOpt (hs.len k v))
            split at h
            · cases h
            · split at h <;> first | (cases h; exact key _) | cases h
          · cases h
        · cases h
      · simp only [Res.bind_eq_ok] at h
        obtain ⟨_, _, h⟩ := h
        cases h
    | .isNone e, vs, ctx, x, hn, hb, h, ρ, hl => by
      simp only [Java.transpile, Res.bind_eq_ok] at h
      obtain ⟨e', he, h⟩ := h
      simp only [noLenVar] at hn
      simp only [noBraces] at hb
      have ih := java_preserves sem hs hz cfg e vs .noneCheck e' hn hb he ρ hl
      have ihp : R (evalT sem ρ (parenUnless Gen.TargetEmit.Java.isNone e e')) (coarse (Expr.eval ρ e)) := by simpa using ih
      split at h
      · cases h
      · split at h
        · cases h; exact R_not_isNull hs ρ _ ihp
        · cases h; exact (R_isNull hs ρ _ ihp).1
    | .isNotNone e, vs, ctx, x, hn, hb, h, ρ, hl => by
      simp only [Java.transpile, Res.bind_eq_ok] at h
      obtain ⟨e', he, h⟩ := h
      simp only [noLenVar] at hn
      simp only [noBraces] at hb
      have ih := java_preserves sem hs hz cfg e vs .noneCheck e' hn hb he ρ hl
      have ihp : R (evalT sem ρ (parenUnless Gen.TargetEmit.Java.isNotNone e e')) (coarse (Expr.eval ρ e)) := by simpa using ih
      split at h
      · cases h
      · split at h <;> (cases h; exact (R_isNull hs ρ _ ihp).2)
    | .not e, vs, ctx, x, hn, hb, h, ρ, hl => by
      simp only [Java.transpile, Res.bind_eq_ok] at h
      obtain ⟨e', he, h⟩ := h
      simp only [noLenVar] at hn
      simp only [noBraces] at hb
      cases h
      simp only [evalT, evalT_parenUnless]; rw [coarse_not]
      refine R_bind (java_preserves sem hs hz cfg e vs .plain e' hn hb he ρ hl) (fun v => ?_)
      cases hk : sem.truthy ρ.fops v with
      | none => exact Or.inl rfl
      | some b => rw [hs.truthy _ _ _ hk]; exact Or.inr rfl
    | .and [], vs, ctx, x, _, _, h, ρ, _ => by
      simp only [Java.transpile, Java.transpileVals, Res.bind_eq_ok] at h
      obtain ⟨vals, hv, h⟩ := h
      cases hv; cases h
    | .or [], vs, ctx, x, _, _, h, ρ, _ => by
      simp only [Java.transpile, Java.transpileVals, Res.bind_eq_ok] at h
      obtain ⟨vals, hv, h⟩ := h
      cases hv; cases h
    | .and [e], vs, ctx, x, hn, hb, h, ρ, hl => by
      simp only [Java.transpile, Java.transpileVals, Res.bind_eq_ok] at h
      obtain ⟨vals, ⟨e', he, es', hes, hv⟩, h⟩ := h
      cases hes; cases hv; cases h
      simp only [noLenVar, noLenVarList, Bool.and_eq_true] at hn
      simp only [noBraces, noBracesList, Bool.and_eq_true] at hb
      simpa [Expr.eval, coarse_evalAnd_one] using java_preserves sem hs hz cfg e vs .plain e' hn.1 hb.1 he ρ hl
    | .or [e], vs, ctx, x, hn, hb, h, ρ, hl => by
      simp only [Java.transpile, Java.transpileVals, Res.bind_eq_ok] at h
      obtain ⟨vals, ⟨e', he, es', hes, hv⟩, h⟩ := h
      cases hes; cases hv; cases h
      simp only [noLenVar, noLenVarList, Bool.and_eq_true] at hn
      simp only [noBraces, noBracesList, Bool.and_eq_true] at hb
      simpa [Expr.eval, coarse_evalOr_one] using java_preserves sem hs hz cfg e vs .plain e' hn.1 hb.1 he ρ hl
    | .and (e :: e2 :: es), vs, ctx, x, hn, hb, h, ρ, hl => by
      simp only [Java.transpile, Res.bind_eq_ok] at h
      obtain ⟨vals, hv, h⟩ := h
      simp only [noLenVar] at hn
      simp only [noBraces] at hb
      have ih := java_preservesVals sem hs hz cfg true _ (e :: e2 :: es) vs vals hn hb hv (by simp) ρ hl
      simp only [Java.transpileVals, Res.bind_eq_ok] at hv
      obtain ⟨e', he, es', ⟨e2', he2, es2', hes2, h2⟩, hv⟩ := hv
      cases h2; cases hv; cases h
      simp only [evalT, Expr.eval]
      simpa using ih
    | .or (e :: e2 :: es), vs, ctx, x, hn, hb, h, ρ, hl => by
      simp only [Java.transpile, Res.bind_eq_ok] at h
      obtain ⟨vals, hv, h⟩ := h
      simp only [noLenVar] at hn
      simp only [noBraces] at hb
      have ih := java_preservesVals sem hs hz cfg false _ (e :: e2 :: es) vs vals hn hb hv (by simp) ρ hl
      simp only [Java.transpileVals, Res.bind_eq_ok] at hv
      obtain ⟨e', he, es', ⟨e2', he2, es2', hes2, h2⟩, hv⟩ := hv
      cases h2; cases hv; cases h
      simp only [evalT, Expr.eval]
      simpa using ih
    | .add l r, vs, ctx, x, hn, hb, h, ρ, hl => by
      simp only [Java.transpile, Res.bind_eq_ok] at h
      obtain ⟨l', hl', r', hr', h⟩ := h
      simp only [noLenVar, Bool.and_eq_true] at hn
      simp only [noBraces, Bool.and_eq_true] at hb
      cases h
      simp only [evalT, evalT_parenUnless]; rw [coarse_add]
      exact R_bind2 (java_preserves sem hs hz cfg l vs .plain l' hn.1 hb.1 hl' ρ hl)
        (java_preserves sem hs hz cfg r vs .plain r' hn.2 hb.2 hr' ρ hl) (fun a b => R_ofOpt (hs.arith _ _ a b))
    | .sub l r, vs, ctx, x, hn, hb, h, ρ, hl => by
      simp only [Java.transpile, Res.bind_eq_ok] at h
      obtain ⟨l', hl', r', hr', h⟩ := h
      simp only [noLenVar, Bool.and_eq_true] at hn
      simp only [noBraces, Bool.and_eq_true] at hb
      cases h
      simp only [evalT, evalT_parenUnless]; rw [coarse_sub]
      exact R_bind2 (java_preserves sem hs hz cfg l vs .plain l' hn.1 hb.1 hl' ρ hl)
        (java_preserves sem hs hz cfg r vs .plain r' hn.2 hb.2 hr' ρ hl) (fun a b => R_ofOpt (hs.arith _ _ a b))
    | .joinedStr ps, vs, ctx, x, hn, hb, h, ρ, hl => by
      simp only [Java.transpile, Res.bind_eq_ok] at h
      obtain ⟨ps', hp, h⟩ := h
      simp only [noLenVar] at hn
      simp only [noBraces] at hb
      cases h
      simp only [evalT, Expr.eval]
      exact java_preservesParts sem hs hz cfg ps vs ps' hn hb hp ρ hl
    | .any g c, vs, ctx, x, hn, hb, h, ρ, hl => by
      simp only [Java.transpile, Res.bind_eq_ok] at h
      obtain ⟨⟨v, it⟩, hg, c', hc, h⟩ := h
      simp only [noLenVar, Bool.and_eq_true] at hn
      simp only [noBraces, Bool.and_eq_true] at hb
      cases h
      have hv := Java.genVar_notLen cfg g vs v it hn.1 hg
      exact R_quant hs ρ true (java_preservesGen sem hs hz cfg g vs v it hn.1 hb.1 hg ρ hl)
        (fun item => java_preserves sem hs hz cfg c (v :: vs) .plain c' hn.2 hb.2 hc (ρ.bind v item) (LenBuiltin_bind item hl hv))
    | .all g c, vs, ctx, x, hn, hb, h, ρ, hl => by
      simp only [Java.transpile, Res.bind_eq_ok] at h
      obtain ⟨⟨v, it⟩, hg, c', hc, h⟩ := h
      simp only [noLenVar, Bool.and_eq_true] at hn
      simp only [noBraces, Bool.and_eq_true] at hb
      cases h
      have hv := Java.genVar_notLen cfg g vs v it hn.1 hg
      exact R_quant hs ρ false (java_preservesGen sem hs hz cfg g vs v it hn.1 hb.1 hg ρ hl)
        (fun item => java_preserves sem hs hz cfg c (v :: vs) .plain c' hn.2 hb.2 hc (ρ.bind v item) (LenBuiltin_bind item hl hv))
  theorem java_preservesGen (sem : Sem) (hs : SemSound sem) (hz : SizeIndexSound sem) (cfg : TCfg) :
      ∀ (g : Gen) (vs : List Text) (v : Text) (it : TIter), noLenVarGen g = true → noBracesGen g = true →
        Java.transpileGen cfg vs g = .ok (v, it) → ∀ ρ : Env, LenBuiltin ρ →
          RI v (evalIterT sem ρ it) (Expr.evalGen ρ g)
    | .forEach y e, vs, v, it, hn, hb, h, ρ, hl => by
      simp only [Java.transpileGen, Res.bind_eq_ok] at h
      obtain ⟨e', he, h⟩ := h
      simp only [noLenVarGen, Bool.and_eq_true] at hn
      simp only [noBracesGen] at hb
      cases h
      have ih := java_preserves sem hs hz cfg e vs .plain e' hn.2 hb he ρ hl
      have hev : evalT sem ρ (if e.kind ∈ Gen.TargetEmit.Java.forEach then TExpr.stream e' else .paren (.stream e')) = evalT sem ρ e' := by
        split <;> simp
      simp only [evalIterT, hev, Expr.evalGen]
      rcases ih with ih | ih
      · rw [ih]; simp [RI]
      · rw [ih]
        cases Expr.eval ρ e with
        | val iv =>
          simp only [coarse]
          cases hi : sem.iter iv with
          | none => simp [RI]
          | some l => simp [hs.iter iv l hi, RI]
        | _ => simp [coarse, RI]
    | .forRange y a b, vs, v, it, hn, hb, h, ρ, hl => by
      simp only [Java.transpileGen, Res.bind_eq_ok] at h
      obtain ⟨a', ha, b', hb', h⟩ := h
      simp only [noLenVarGen, Bool.and_eq_true] at hn
      simp only [noBracesGen, Bool.and_eq_true] at hb
      cases h
      have iha := java_preserves sem hs hz cfg a vs .plain a' hn.1.2 hb.1 ha ρ hl
      have ihb := java_preserves sem hs hz cfg b vs .plain b' hn.2 hb.2 hb' ρ hl
      simp only [evalIterT, Expr.evalGen]
      rcases iha with iha | iha
      · rw [iha]; simp [RI]
      · rcases ihb with ihb | ihb
        · rw [ihb]; cases evalT sem ρ a' <;> simp [RI]
        · rw [iha, ihb]
          cases Expr.eval ρ a with
          | val av =>
            cases Expr.eval ρ b with
            | val bv => cases av <;> cases bv <;> simp [coarse, RI, rangeArg]
            | _ => cases av <;> simp [coarse, RI]
          | _ => cases Expr.eval ρ b <;> simp [coarse, RI]
  theorem java_preservesArgs (sem : Sem) (hs : SemSound sem) (hz : SizeIndexSound sem) (cfg : TCfg) :
      ∀ (es : List Expr) (vs : List Text) (ctx : Java.Ctx) (xs : List TExpr), noLenVarList es = true →
        noBracesList es = true →
        Java.transpileArgs cfg vs ctx es = .ok xs → ∀ ρ : Env, LenBuiltin ρ →
          RA (evalArgsT sem ρ xs) (Expr.evalArgs ρ es)
    | [], vs, ctx, xs, _, _, h, ρ, _ => by
      simp only [Java.transpileArgs] at h; cases h; simp [evalArgsT, Expr.evalArgs, RA]
    | e :: es, vs, ctx, xs, hn, hb, h, ρ, hl => by
      simp only [Java.transpileArgs, Res.bind_eq_ok] at h
      obtain ⟨e', he, es', hes, h⟩ := h
      simp only [noLenVarList, Bool.and_eq_true] at hn
      simp only [noBracesList, Bool.and_eq_true] at hb
      cases h
      simp only [evalArgsT]
      exact RA_cons (java_preserves sem hs hz cfg e vs ctx e' hn.1 hb.1 he ρ hl)
        (java_preservesArgs sem hs hz cfg es vs ctx es' hn.2 hb.2 hes ρ hl)
  theorem java_preservesVals (sem : Sem) (hs : SemSound sem) (hz : SizeIndexSound sem) (cfg : TCfg) (isAnd : Bool)
      (tbl : List Kind) :
      ∀ (es : List Expr) (vs : List Text) (xs : List TExpr), noLenVarList es = true → noBracesList es = true →
        Java.transpileVals cfg vs tbl es = .ok xs → es ≠ [] → ∀ ρ : Env, LenBuiltin ρ →
          R (evalBoolT sem ρ isAnd xs) (coarse (if isAnd then Expr.evalAnd ρ es else Expr.evalOr ρ es))
    | [], vs, xs, _, _, _, hne, ρ, _ => absurd rfl hne
    | [e], vs, xs, hn, hb, h, _, ρ, hl => by
      simp only [Java.transpileVals, Res.bind_eq_ok] at h
      obtain ⟨e', he, es', hes, h⟩ := h
      cases hes; cases h
      simp only [noLenVarList, Bool.and_eq_true] at hn
      simp only [noBracesList, Bool.and_eq_true] at hb
      have ih := java_preserves sem hs hz cfg e vs .plain e' hn.1 hb.1 he ρ hl
      simp only [evalBoolT, evalT_parenUnless]
      have := R_lastOperand hs ρ.fops ih
      cases isAnd <;> simpa [coarse_evalAnd_one, coarse_evalOr_one] using this
    | e :: e2 :: es, vs, xs, hn, hb, h, _, ρ, hl => by
      simp only [Java.transpileVals, Res.bind_eq_ok] at h
      obtain ⟨e', he, es', ⟨e2', he2, es2', hes2, h2⟩, h⟩ := h
      simp only [noLenVarList, Bool.and_eq_true] at hn
      simp only [noBracesList, Bool.and_eq_true] at hb
      have ihr := java_preservesVals sem hs hz cfg isAnd tbl (e2 :: es) vs es' (by simp [noLenVarList, hn.2])
        (by simp [noBracesList, hb.2]) (by
        simp only [Java.transpileVals, Res.bind_eq_ok]; exact ⟨e2', he2, es2', hes2, h2⟩) (by simp) ρ hl
      have ih := java_preserves sem hs hz cfg e vs .plain e' hn.1 hb.1 he ρ hl
      cases h2; cases h
      simp only [evalBoolT, evalT_parenUnless] at ihr ⊢
      cases isAnd
      · simp only [Bool.false_eq_true, if_false] at ihr ⊢
        rw [coarse_evalOr_cons]
        refine R_bind ih (fun v => ?_)
        cases hk : sem.truthy ρ.fops v with
        | none => exact Or.inl rfl
        | some b =>
          rw [hs.truthy _ _ _ hk]
          cases v.truthy ρ.fops
          · simpa using ihr
          · simp; exact Or.inr rfl
      · simp only [if_true] at ihr ⊢
        rw [coarse_evalAnd_cons]
        refine R_bind ih (fun v => ?_)
        cases hk : sem.truthy ρ.fops v with
        | none => exact Or.inl rfl
        | some b =>
          rw [hs.truthy _ _ _ hk]
          cases v.truthy ρ.fops
          · simp; exact Or.inr rfl
          · simpa using ihr
  theorem java_preservesParts (sem : Sem) (hs : SemSound sem) (hz : SizeIndexSound sem) (cfg : TCfg) :
      ∀ (ps : List JPart) (vs : List Text) (xs : List TPart), noLenVarParts ps = true → noBracesParts ps = true →
        Java.transpileParts cfg vs ps = .ok xs → ∀ ρ : Env, LenBuiltin ρ →
          R (evalPartsT sem ρ .java xs) (coarse (Expr.evalParts ρ ps))
    | [], vs, xs, _, _, h, ρ, _ => by
      simp only [Java.transpileParts] at h; cases h
      exact Or.inr (by simp [evalPartsT, Expr.evalParts, coarse])
    | .lit s :: ps, vs, xs, hn, hb, h, ρ, hl => by
      simp only [Java.transpileParts, Res.bind_eq_ok] at h
      obtain ⟨ps', hp, h⟩ := h
      simp only [noLenVarParts] at hn
      simp only [noBracesParts, Bool.and_eq_true] at hb
      cases h
      simp only [evalPartsT, doubleBraces_id s hb.1]; rw [coarse_evalParts_lit]
      exact R_bind (java_preservesParts sem hs hz cfg ps vs ps' hn hb.2 hp ρ hl) (fun _ => Or.inr rfl)
    | .fv e :: ps, vs, xs, hn, hb, h, ρ, hl => by
      simp only [Java.transpileParts, Res.bind_eq_ok] at h
      obtain ⟨e', he, h⟩ := h
      simp only [noLenVarParts, Bool.and_eq_true] at hn
      simp only [noBracesParts, Bool.and_eq_true] at hb
      split at h
      · cases h
      · simp only [Res.bind_eq_ok] at h
        obtain ⟨ps', hp, h⟩ := h
        cases h
        simp only [evalPartsT, evalT_paren]; rw [coarse_evalParts_fv]
        refine R_bind (java_preserves sem hs hz cfg e vs .plain e' hn.1 hb.1 he ρ hl) (fun v => ?_)
        refine R_bind (R_ofOpt (hs.fmt _ _ ρ v)) (fun t => ?_)
        exact R_bind (java_preservesParts sem hs hz cfg ps vs ps' hn.2 hb.2 hp ρ hl) (fun _ => Or.inr rfl)
end

end AasVerif.TargetEmit
