import AasVerif.Lemmas.RevmEq3
/-!
Label resolution by induction over the regex tree: for every accepted sub-expression the emission
succeeds and its leaves resolve to the clean compositional code.
-/
namespace AasVerif.Revm
open AasVerif.Retree

theorem leaf_frag (i : Instr) (L : Nat → Prop) (ht : i.targets = []) (hr : i.isNoop = false)
    (hm : ∀ ρ, i.mapT ρ = i) : Frag [⟨i, none⟩] L (fun _ => [i]) 1 := by
  refine ⟨by simp [labelsOf], by simp [targetsOf, ht], by simp [countReal_cons, Leaf.real, hr], ?_⟩
  intro base ρ _
  simp [strip, Leaf.real, hr, hm]

theorem leaf_spec (i : Instr) (ht : i.targets = []) (hr : i.isNoop = false) (hm : ∀ ρ, i.mapT ρ = i) :
    BodySpec (pure (.node [lf i])) (fun _ => [i]) 1 := by
  intro n
  exact ⟨_, n, rfl, Nat.le_refl _, by simpa using leaf_frag i (InRange n n) ht hr hm⟩

theorem noop_spec : BodySpec (pure (.node [lf .noop])) (fun _ => []) 0 := by
  intro n
  refine ⟨_, n, rfl, Nat.le_refl _, ?_⟩
  refine ⟨by simp [labelsOf], by simp [targetsOf, Instr.targets], by simp [countReal_cons, Leaf.real, Instr.isNoop], ?_⟩
  intro base ρ _
  simp [strip, Leaf.real, Instr.isNoop]

theorem mkRanges_ok (rs : List Rng)
    (h : (rs.all fun r => match r.stop with | none => true | some e => decide (r.start.code ≤ e.code)) = true) :
    mkRanges rs = .ok (rs.map pureRange) := by
  induction rs with
  | nil => rfl
  | cons r rest ih =>
    simp only [List.all_cons, Bool.and_eq_true] at h
    have h1 : mkRange r = .ok (pureRange r) := by
      unfold mkRange pureRange
      cases hs : r.stop with
      | none => simp
      | some e =>
        have := h.1
        rw [hs] at this
        simp at this
        simp [this]
    simp [mkRanges, h1, ih h.2]

theorem set_spec (compl : Bool) (rs : List Rng) (h : setOk rs = true) :
    BodySpec (transformCharSet compl rs) (compV (.set compl rs)) 1 := by
  unfold setOk at h
  simp only [Bool.and_eq_true] at h
  intro n
  have hm := mkRanges_ok rs h.1
  refine ⟨.node [lf (if compl then .notSet (sortRanges (rs.map pureRange)) else .set (sortRanges (rs.map pureRange)))],
    n, ?_, Nat.le_refl _, ?_⟩
  · simp [transformCharSet, hm, h.2]
  · cases compl
    · simpa [compV] using leaf_frag (.set (sortRanges (rs.map pureRange))) (InRange n n) rfl rfl (fun _ => rfl)
    · simpa [compV] using leaf_frag (.notSet (sortRanges (rs.map pureRange))) (InRange n n) rfl rfl (fun _ => rfl)

/-- Statement about the loop of `transform_union_expr`. -/
def UniatesSpec (cs : List Concat) : Prop :=
  ∀ final n, final < n → ∃ xs n', transformUniates final cs n = .ok (xs, n') ∧ n ≤ n' ∧
    Frag (linearizeList xs) (fun l => l = final ∨ InRange n n' l)
      (fun base => compCs (base + sizeCs cs) cs base) (sizeCs cs) ∧
    pos (linearizeList xs) final = sizeCs cs ∧ final ∈ labelsOf (linearizeList xs)

theorem uniates_last {c : Concat} (hc : BodySpec (transformConcat c) (compC c) (sizeC c)) :
    UniatesSpec [c] := by
  intro final n hfin
  obtain ⟨t, n1, h1, hle1, hF1⟩ := hc n
  have hfin_t : final ∉ labelsOf (linearize t) := fun h => by
    have := hF1.labs _ h; unfold InRange at this; omega
  refine ⟨[t, lf .noop (some final)], n1, ?_, hle1, ?_, ?_, by simp [labelsOf]⟩
  · simp [transformUniates, h1]
  · refine ⟨?_, ?_, ?_, ?_⟩
    · intro l hl
      simp [labelsOf] at hl
      rcases hl with h | h
      · exact Or.inr (hF1.labs l h)
      · exact Or.inl h
    · intro x hx
      simp [targetsOf, Instr.targets] at hx
      simp [labelsOf, hF1.closed x hx]
    · simp [countReal_cons, Leaf.real, Instr.isNoop, hF1.count, sizeCs]
    · intro base ρ hg
      have hg1 : Good ρ base (linearize t) := by
        have := hg.mid' (pre := []) (mid := linearize t) (post := [⟨.noop, some final⟩]) (by simp) (by simp)
        simpa using this
      simp [strip, Leaf.real, Instr.isNoop, hF1.code _ ρ hg1, compCs]
  · simp
    rw [pos_append, if_neg hfin_t]
    simp [pos, hF1.count, sizeCs]

theorem uniates_step {c c' : Concat} {cs : List Concat}
    (hc : BodySpec (transformConcat c) (compC c) (sizeC c)) (ih : UniatesSpec (c' :: cs)) :
    UniatesSpec (c :: c' :: cs) := by
  intro final n hfin
  obtain ⟨t, n1, h1, hle1, hF1⟩ := hc (n + 2)
  obtain ⟨xs, n2, h2, hle2, hF2, hpos2, hmem2⟩ := ih final n1 (by omega)
  have c1 := hF1.count
  have c2 := hF2.count
  have hnot_t : ∀ l, l < n + 2 → l ∉ labelsOf (linearize t) := fun l hl h => by
    have := hF1.labs _ h; unfold InRange at this; omega
  have hwhole : linearizeList (lf (.split n (n + 1)) :: lf .noop (some n) :: t :: lf (.jump final) ::
      lf .noop (some (n + 1)) :: xs) =
      [⟨.split n (n + 1), none⟩, ⟨.noop, some n⟩] ++ linearize t ++
        ([⟨.jump final, none⟩, ⟨.noop, some (n + 1)⟩] ++ linearizeList xs) := by simp
  have hposf : pos ([⟨.split n (n + 1), none⟩, ⟨.noop, some n⟩] ++ linearize t ++
        ([⟨.jump final, none⟩, ⟨.noop, some (n + 1)⟩] ++ linearizeList xs)) final
      = sizeC c + 2 + sizeCs (c' :: cs) := by
    rw [pos_append, if_neg (by simp [labelsOf, hnot_t final (by omega)]; omega)]
    simp [pos, countReal_cons, Leaf.real, Instr.isNoop, c1, hpos2]
    have : ¬ (n + 1 = final) := by omega
    simp [this]
    omega
  refine ⟨lf (.split n (n + 1)) :: lf .noop (some n) :: t :: lf (.jump final) ::
      lf .noop (some (n + 1)) :: xs, n2, ?_, by omega, ?_, ?_, ?_⟩
  · simp [transformUniates, h1, h2]
  · rw [hwhole]
    refine ⟨?_, ?_, ?_, ?_⟩
    · intro l hl
      simp [labelsOf] at hl
      rcases hl with h | h | h | h
      · subst h; right; unfold InRange; omega
      · have := hF1.labs l h; right; unfold InRange at *; omega
      · subst h; right; unfold InRange; omega
      · rcases hF2.labs l h with h' | h'
        · exact Or.inl h'
        · right; unfold InRange at *; omega
    · intro x hx
      simp [targetsOf, Instr.targets] at hx
      simp [labelsOf]
      rcases hx with h | h | h | h | h
      · subst h; simp
      · subst h; simp
      · simp [hF1.closed x h]
      · subst h; simp [hmem2]
      · simp [hF2.closed x h]
    · simp [countReal_cons, Leaf.real, Instr.isNoop, c1, c2, sizeCs]; omega
    · intro base ρ hg
      have hρ0 : ρ n = base + 1 := by
        rw [hg n (by simp [labelsOf])]; simp [pos, Leaf.real, Instr.isNoop]
      have hρ1 : ρ (n + 1) = base + sizeC c + 2 := by
        rw [hg (n + 1) (by simp [labelsOf])]
        rw [pos_append, if_neg (by simp [labelsOf, hnot_t (n + 1) (by omega)])]
        simp [pos, countReal_cons, Leaf.real, Instr.isNoop, c1]; omega
      have hρf : ρ final = base + (sizeC c + 2 + sizeCs (c' :: cs)) := by
        rw [hg final (by simp [labelsOf, hmem2]), hposf]
      have hg1 : Good ρ (base + 1) (linearize t) := by
        have := hg.mid' (pre := [⟨.split n (n + 1), none⟩, ⟨.noop, some n⟩]) (mid := linearize t)
          (post := [⟨.jump final, none⟩, ⟨.noop, some (n + 1)⟩] ++ linearizeList xs) rfl (by
            intro l hl
            have := hF1.labs l hl
            unfold InRange at this
            simp [labelsOf]; omega)
        simpa [countReal_cons, Leaf.real, Instr.isNoop] using this
      have hg2 : Good ρ (base + sizeC c + 2) (linearizeList xs) := by
        have := hg.mid' (pre := [⟨.split n (n + 1), none⟩, ⟨.noop, some n⟩] ++ linearize t ++
            [⟨.jump final, none⟩, ⟨.noop, some (n + 1)⟩]) (mid := linearizeList xs) (post := []) (by simp) (by
            intro l hl
            simp [labelsOf]
            refine ⟨?_, ?_, ?_⟩
            · rcases hF2.labs l hl with h' | h'
              · omega
              · unfold InRange at h'; omega
            · intro h
              have h1' := hF1.labs l h
              rcases hF2.labs l hl with h' | h'
              · subst h'; unfold InRange at h1'; omega
              · unfold InRange at *; omega
            · rcases hF2.labs l hl with h' | h'
              · omega
              · unfold InRange at h'; omega)
        have he : base + countReal ([⟨.split n (n + 1), none⟩, ⟨.noop, some n⟩] ++ linearize t ++
            [⟨.jump final, none⟩, ⟨.noop, some (n + 1)⟩]) = base + sizeC c + 2 := by
          simp [countReal_cons, Leaf.real, Instr.isNoop, c1]; omega
        rw [he] at this
        exact this
      rw [strip_append, strip_append, strip_append, hF1.code _ ρ hg1, hF2.code _ ρ hg2]
      simp [strip, Leaf.real, Instr.isNoop, Instr.mapT, hρ0, hρ1, hρf, compCs, sizeCs]
      have : base + sizeC c + 2 + sizeCs (c' :: cs) = base + (sizeC c + 2 + sizeCs (c' :: cs)) := by omega
      rw [this]
  · rw [hwhole, hposf]; simp [sizeCs]
  · rw [hwhole]; simp [labelsOf, hmem2]

end AasVerif.Revm
