import AasVerif.Model.Lex
import AasVerif.Model.Descr
/-! Python triple-quoted strings: scanning the escaped text of `docstring`. -/
namespace AasVerif.Lex
open AasVerif.Descr

def r1 (t : Text) : Text := replaceAux [92] [92, 92] 0 t
def r3 (t : Text) : Text := replaceAux [34, 34, 34] [92, 34, 92, 34, 92, 34] 0 t

theorem r1_bs (r : Text) : r1 (92 :: r) = 92 :: 92 :: r1 r := by
  simp [r1, replaceAux, List.isPrefixOf]

theorem r1_other (c : Nat) (r : Text) (h : c ≠ 92) : r1 (c :: r) = c :: r1 r := by
  have : ¬ (92 = c) := fun e => h e.symm
  simp [r1, replaceAux, List.isPrefixOf, this]

theorem r3_hit (x : Text) : r3 (34 :: 34 :: 34 :: x) = [92, 34, 92, 34, 92, 34] ++ r3 x := by
  simp [r3, replaceAux, List.isPrefixOf]

theorem r3_miss (c : Nat) (x : Text) (h : ¬ (c = 34 ∧ ∃ x', x = 34 :: 34 :: x')) : r3 (c :: x) = c :: r3 x := by
  by_cases hc : c = 34
  · subst hc
    match x with
    | [] => simp [r3, replaceAux, List.isPrefixOf]
    | [d] => simp [r3, replaceAux, List.isPrefixOf]
    | d :: e :: x' =>
      have : ¬ (d = 34 ∧ e = 34) := by
        intro ⟨h1, h2⟩; subst h1; subst h2; exact h ⟨rfl, x', rfl⟩
      have : ¬ (34 = d ∧ 34 = e) := fun ⟨a, b⟩ => this ⟨a.symm, b.symm⟩
      simp only [r3, replaceAux, List.isPrefixOf, beq_iff_eq, Bool.and_eq_true, Bool.and_true, true_and]
      simp [this]
  · have : ¬ (34 = c) := fun e => hc e.symm
    simp [r3, replaceAux, List.isPrefixOf, this]

theorem s3_plain (acc x : Text) (c : Nat) (h0 : c ≠ 0) (h13 : c ≠ 13) (h92 : c ≠ 92)
    (h : ¬ (c = 34 ∧ ∃ x', x = 34 :: 34 :: x')) :
    lexPy (.s3 34 acc false) (c :: x) = lexPy (.s3 34 (c :: acc) false) x := by
  match x with
  | [] => simp [lexPy, h0, h13, h92]
  | [d] => rw [lexPy] <;> simp_all
  | d :: e :: x' =>
    have : ¬ (c = 34 ∧ d = 34 ∧ e = 34) := by
      intro ⟨h1, h2, h3⟩; subst h2; subst h3; exact h ⟨h1, x', rfl⟩
    rw [lexPy] <;> simp_all

theorem s3_esc (acc x : Text) (c : Nat) (hc : c = 92 ∨ c = 34) :
    lexPy (.s3 34 acc false) (92 :: c :: x) = lexPy (.s3 34 (c :: acc) false) x := by
  have hp : pyEscape c acc = some (c :: acc) := by
    rcases hc with rfl | rfl <;> simp [pyEscape]
  have h0 : c ≠ 0 := by rcases hc with rfl | rfl <;> decide
  have h13 : c ≠ 13 := by rcases hc with rfl | rfl <;> decide
  match x with
  | [] => rcases hc with rfl | rfl <;> simp [lexPy, pyEscape]
  | d :: x' =>
    rw [lexPy] <;> try simp_all
    rw [lexPy] <;> simp_all

end AasVerif.Lex
