import AasVerif.Lemmas.JavaPreserve
/-!
C09, C++: what `Cpp.transpile` emits means, under any semantics that is sound with respect to Python,
what the source expression means — or the evaluation leaves the modelled domain.

Whole expression language, with two side conditions that Java and TypeScript do not need, because the
C++ transpiler emits `types::Enum::kLiteral` *instead of* a member access:
* the names of the enumerations denote the enumeration classes in the environment (`CppEnv`), the
  configuration says "enumeration type" only for such a name (`CfgEnum`), and no generator variable
  hides one of them (`cppOK`);
* no member access on an enumeration *value* (`cppOK`; Python raises there, C++ names a literal).
-/
namespace AasVerif.TargetEmit
open AasVerif AasVerif.Expr
open AasVerif.PyEmit (Res hasFv litsOf evalParts_noFv)

/-- the environment: `len` is the built-in and the enumeration names denote their classes -/
def CppEnv (D : List (Text × List Text)) (ρ : Env) : Prop :=
  LenBuiltin ρ ∧ ∀ en lits, (en, lits) ∈ D → lookup en ρ.vars = some (.enumCls en lits)

/-- the configuration says "enumeration type `en`" only of the name `en`, and "literal" only of its literals -/
def CfgEnum (cfg : TCfg) (D : List (Text × List Text)) : Prop :=
  ∀ inst a en, cfg.ann inst = some a → a.tag = .enumType en →
    inst = .name en ∧ ∃ lits, (en, lits) ∈ D ∧ ∀ n, cfg.base.memberKind inst n = some .enumLit → lits.contains n = true

def reserved (D : List (Text × List Text)) : List Text := lenName :: D.map (·.1)

def notEnumValue (cfg : TCfg) (inst : Expr) : Bool :=
  match cfg.ann inst with
  | some a => (match a.tag with | .enumOur _ => false | _ => true)
  | none => true

mutual
  /-- no generator variable is `len` or the name of an enumeration; no member access on an enumeration value -/
  def cppOK (cfg : TCfg) (names : List Text) : Expr → Bool
    | .const _ | .name _ => true
    | .member e _ => cppOK cfg names e && notEnumValue cfg e
    | .index a b | .cmp a _ b | .isIn a b | .impl a b | .add a b | .sub a b => cppOK cfg names a && cppOK cfg names b
    | .methodCall e _ args => cppOK cfg names e && cppOKList cfg names args
    | .funCall _ args => cppOKList cfg names args
    | .isNone e | .isNotNone e | .not e => cppOK cfg names e
    | .and es | .or es => cppOKList cfg names es
    | .joinedStr ps => cppOKParts cfg names ps
    | .any g c | .all g c => cppOKGen cfg names g && cppOK cfg names c
  def cppOKList (cfg : TCfg) (names : List Text) : List Expr → Bool
    | [] => true
    | e :: es => cppOK cfg names e && cppOKList cfg names es
  def cppOKParts (cfg : TCfg) (names : List Text) : List JPart → Bool
    | [] => true
    | .lit _ :: ps => cppOKParts cfg names ps
    | .fv e :: ps => cppOK cfg names e && cppOKParts cfg names ps
  def cppOKGen (cfg : TCfg) (names : List Text) : Gen → Bool
    | .forEach x it => !(names.contains x) && cppOK cfg names it
    | .forRange x a b => !(names.contains x) && cppOK cfg names a && cppOK cfg names b
end

theorem CppEnv_bind {D : List (Text × List Text)} {ρ : Env} {x : Text} (v : Val) (h : CppEnv D ρ)
    (hx : (reserved D).contains x = false) : CppEnv D (ρ.bind x v) := by
  have hx' : x ∉ reserved D := by simpa using hx
  have hlen : x ≠ lenName := fun e => hx' (by simp [reserved, e])
  refine ⟨LenBuiltin_bind v h.1 (by simpa using hlen), ?_⟩
  intro en lits hmem
  have hne : x ≠ en := fun e => hx' (by
    subst e
    simp only [reserved, List.mem_cons, List.mem_map]
    exact Or.inr ⟨(x, lits), hmem, rfl⟩)
  simp only [Env.bind, lookup, hne, if_false]
  exact h.2 en lits hmem

theorem R_deref {sem : Sem} (hs : SemSound sem) (ρ : Env) {cfg : TCfg} {e : Expr} {x0 x : TExpr} {p : TOut}
    (hd : Cpp.deref cfg e x0 = .ok x) (h : R (evalT sem ρ x0) p) : R (evalT sem ρ x) p := by
  unfold Cpp.deref at hd
  split at hd
  · cases hd
  · split at hd
    · split at hd <;> cases hd <;> (simp only [evalT]; exact R_unwrap hs _ h)
    · cases hd; exact h

theorem Cpp.emitCmp_ok (op : Cmp) : emitCmp Gen.TargetEmit.Cpp.comparisonMap op = .ok op := by
  cases op <;> rfl

theorem Cpp.genVar_ok (cfg : TCfg) (names : List Text) (g : Gen) (vs : List Text) (v : Text) (it : TIter)
    (hng : cppOKGen cfg names g = true) (hg : Cpp.transpileGen cfg vs g = .ok (v, it)) : names.contains v = false := by
  cases g with
  | forEach y e =>
    simp only [Cpp.transpileGen, Res.bind_eq_ok] at hg
    obtain ⟨_, _, _, _, hg⟩ := hg
    cases hg
    simp only [cppOKGen, Bool.and_eq_true, Bool.not_eq_true'] at hng
    exact hng.1
  | forRange y a b =>
    simp only [Cpp.transpileGen, Res.bind_eq_ok] at hg
    obtain ⟨_, _, _, _, _, _, _, _, hg⟩ := hg
    cases hg
    simp only [cppOKGen, Bool.and_eq_true, Bool.not_eq_true'] at hng
    exact hng.1.1

theorem eval_enum_member (ρ : Env) (en n : Text) (lits : List Text) (h : lookup en ρ.vars = some (.enumCls en lits))
    (hn : lits.contains n = true) : coarse (Expr.eval ρ (.member (.name en) n)) = .val (.enumLit en n) := by
  have hmem : n ∈ lits := by simpa using hn
  simp [Expr.eval, h, hmem, coarse]

mutual
  theorem cpp_preserves (sem : Sem) (hs : SemSound sem) (hz : SizeIndexSound sem) (cfg : TCfg)
      (D : List (Text × List Text)) (hcfg : CfgEnum cfg D) :
      ∀ (e : Expr) (vs : List Text) (x : TExpr), cppOK cfg (reserved D) e = true →
        Cpp.transpile cfg vs e = .ok x →
        ∀ ρ : Env, CppEnv D ρ → R (evalT sem ρ x) (coarse (Expr.eval ρ e))
    | .name n, vs, x, _, h, ρ, _ => by
      simp only [Cpp.transpile, transpileName] at h
      rw [coarse_name]
      split at h
      · cases h; exact Or.inr (by simp only [evalT])
      · split at h
        · next hsf => cases h; subst hsf; exact Or.inr (by simp only [evalT])
        · split at h <;> first | (cases h; exact Or.inr (by simp only [evalT])) | cases h
    | .const c, vs, x, _, h, ρ, _ => by
      simp only [Cpp.transpile] at h
      cases h
      exact Or.inr (by simp only [evalT, Expr.eval, coarse])
    | .member inst n, vs, x, hn, h, ρ, hl => by
      simp only [Cpp.transpile, Res.bind_eq_ok] at h
      obtain ⟨x0, hx0, x1, hd, h⟩ := h
      simp only [cppOK, Bool.and_eq_true] at hn
      have ih := R_deref hs ρ hd (cpp_preserves sem hs hz cfg D hcfg inst vs x0 hn.1 hx0 ρ hl)
      have hattr : ∀ k, R (evalT sem ρ (.attr x1 k n)) (coarse (Expr.eval ρ (.member inst n))) := by
        intro k
        simp only [evalT]; rw [coarse_member]
        exact R_bind ih (fun v => Or.inr rfl)
      cases ha : cfg.ann inst with
      | none => simp [ha] at h
      | some a =>
        simp only [ha] at h
        have hne : ∀ en, a.tag ≠ .enumOur en := by
          intro en htag
          have := hn.2
          simp [notEnumValue, ha, htag] at this
        split at h
        · next en htag => exact absurd htag (hne en)
        · split at h
          · split at h <;> first | (cases h; exact hattr _) | cases h
          · cases h; exact hattr _
          · split at h
            · next en htag =>
              cases h
              obtain ⟨hinst, lits, hmem, hlits⟩ := hcfg inst a en ha htag
              subst hinst
              simp only [evalT]
              rw [eval_enum_member ρ en n lits (hl.2 en lits hmem) (hlits n (by assumption))]
              exact Or.inr rfl
            · cases h
          · cases h
    | .index c i, vs, x, hn, h, ρ, hl => by
      simp only [Cpp.transpile, Res.bind_eq_ok] at h
      obtain ⟨c0, hc0, c', hdc, i0, hi0, i', hdi, h⟩ := h
      simp only [cppOK, Bool.and_eq_true] at hn
      have ihc := R_deref hs ρ hdc (cpp_preserves sem hs hz cfg D hcfg c vs c0 hn.1 hc0 ρ hl)
      have ihi := R_deref hs ρ hdi (cpp_preserves sem hs hz cfg D hcfg i vs i0 hn.2 hi0 ρ hl)
      cases hni : negIndex i with
      | none =>
        simp only [hni] at h
        cases h
        simp only [evalT]; rw [coarse_index]
        exact R_bind2 ihc ihi (fun a b => R_ofOpt (hs.index _ a b))
      | some k =>
        obtain ⟨hieq, hk⟩ := negIndex_eq hni
        simp only [hni] at h
        subst hieq
        split at h
        · next heq =>
          have hk1 : k = 1 := by simpa using heq
          subst hk1
          cases h
          simp only [evalT]; rw [coarse_index]
          simp only [Expr.eval, constVal, coarse, bind2_val_right]
          have e1 : (-((1 : Nat) : Int)) = (-1 : Int) := by decide
          rw [e1]
          exact R_bind ihc (fun cv => R_ofOpt (hs.index _ cv _))
        · next n _ heq =>
          have hkn : k = n := by simpa using heq
          subst hkn
          cases h
          exact R_sizeMinus hs hz ρ .cppAt (by decide) k hk rfl ihc
        · next heq => cases heq
    | .cmp l op r, vs, x, hn, h, ρ, hl => by
      simp only [Cpp.transpile, Res.bind_eq_ok, Cpp.emitCmp_ok] at h
      obtain ⟨o, ho, l0, hl0, l', hdl, r0, hr0, r', hdr, h⟩ := h
      cases ho
      simp only [cppOK, Bool.and_eq_true] at hn
      have ihl := R_deref hs ρ hdl (cpp_preserves sem hs hz cfg D hcfg l vs l0 hn.1 hl0 ρ hl)
      have ihr := R_deref hs ρ hdr (cpp_preserves sem hs hz cfg D hcfg r vs r0 hn.2 hr0 ρ hl)
      split at h <;> cases h <;> simp only [evalT, evalT_paren] <;> rw [coarse_cmp] <;>
        exact R_bind2 ihl ihr (fun a b => R_ofOpt (hs.cmp _ _ _ _ a b))
    | .isIn m c, vs, x, hn, h, ρ, hl => by
      simp only [Cpp.transpile, Res.bind_eq_ok] at h
      obtain ⟨m0, hm0, m', hdm, c0, hc0, c', hdc, h⟩ := h
      simp only [cppOK, Bool.and_eq_true] at hn
      cases h
      have ihm := R_deref hs ρ hdm (cpp_preserves sem hs hz cfg D hcfg m vs m0 hn.1 hm0 ρ hl)
      have ihc := R_deref hs ρ hdc (cpp_preserves sem hs hz cfg D hcfg c vs c0 hn.2 hc0 ρ hl)
      simp only [evalT]; rw [coarse_isIn, bind2_swap]
      exact R_bind2 ihm ihc (fun mv cv => R_ofOpt (hs.contains _ _ cv mv))
    | .impl a c, vs, x, hn, h, ρ, hl => by
      simp only [Cpp.transpile, Res.bind_eq_ok] at h
      obtain ⟨a0, ha0, a', hda, c0, hc0, c', hdc, h⟩ := h
      simp only [cppOK, Bool.and_eq_true] at hn
      cases h
      have iha := R_deref hs ρ hda (cpp_preserves sem hs hz cfg D hcfg a vs a0 hn.1 ha0 ρ hl)
      have ihc := R_deref hs ρ hdc (cpp_preserves sem hs hz cfg D hcfg c vs c0 hn.2 hc0 ρ hl)
      exact R_impl hs ρ (by simpa using iha) (by simpa using ihc)
    | .methodCall inst n args, vs, x, hn, h, ρ, hl => by
      simp only [Cpp.transpile, Res.bind_eq_ok] at h
      obtain ⟨i0, hi0, i', hdi, as', has, h⟩ := h
      simp only [cppOK, Bool.and_eq_true] at hn
      cases h
      simp only [evalT]; rw [coarse_methodCall]
      exact R_bind (R_deref hs ρ hdi (cpp_preserves sem hs hz cfg D hcfg inst vs i0 hn.1 hi0 ρ hl))
        (fun recv => RA_bind (cpp_preservesArgs sem hs hz cfg D hcfg args vs as' hn.2 has ρ hl) (fun _ => Or.inr rfl))
    | .funCall n [], vs, x, hn, h, ρ, hl => by
      simp only [Cpp.transpile, Res.bind_eq_ok] at h
      obtain ⟨as', has, h⟩ := h
      simp only [cppOK] at hn
      split at h
      · cases h
      · cases h
        simp only [evalT]; rw [coarse_funCall]
        exact RA_bind (cpp_preservesArgs sem hs hz cfg D hcfg _ vs as' hn has ρ hl) (fun _ => Or.inr rfl)
      · split at h <;> cases h
      · cases h
    | .funCall n [a], vs, x, hn, h, ρ, hl => by
      simp only [Cpp.transpile, Res.bind_eq_ok] at h
      obtain ⟨as', has, h⟩ := h
      simp only [cppOK] at hn
      split at h
      · cases h
      · cases h
        simp only [evalT]; rw [coarse_funCall]
        exact RA_bind (cpp_preservesArgs sem hs hz cfg D hcfg _ vs as' hn has ρ hl) (fun _ => Or.inr rfl)
      · split at h
        · next hnl =>
          subst hnl
          simp only [Res.bind_eq_ok] at h
          obtain ⟨a0, ha0, a', hda, h⟩ := h
          cases h
          simp only [cppOKList, Bool.and_eq_true] at hn
          have ih := R_deref hs ρ hda (cpp_preserves sem hs hz cfg D hcfg a vs a0 hn.1 ha0 ρ hl)
          simp only [evalT, evalT_parenUnless]; rw [coarse_len ρ hl.1 a]
          exact R_bind ih (fun v => R_ofOpt (hs.len _ v))
        · cases h
      · cases h
    | .funCall n (a :: b :: rest), vs, x, hn, h, ρ, hl => by
      simp only [Cpp.transpile, Res.bind_eq_ok] at h
      obtain ⟨as', has, h⟩ := h
      simp only [cppOK] at hn
      split at h
      · cases h
      · cases h
        simp only [evalT]; rw [coarse_funCall]
        exact RA_bind (cpp_preservesArgs sem hs hz cfg D hcfg _ vs as' hn has ρ hl) (fun _ => Or.inr rfl)
      · split at h <;> cases h
      · cases h
    | .isNone e, vs, x, hn, h, ρ, hl => by
      simp only [Cpp.transpile, Res.bind_eq_ok] at h
      obtain ⟨e', he, h⟩ := h
      simp only [cppOK] at hn
      cases h
      have ih := cpp_preserves sem hs hz cfg D hcfg e vs e' hn he ρ hl
      have ihp : R (evalT sem ρ (parenUnless Gen.TargetEmit.Cpp.isNone e e')) (coarse (Expr.eval ρ e)) := by simpa using ih
      have := R_not_isNull hs ρ .cppHasValue ihp
      simpa only [evalT, evalT_paren] using this
    | .isNotNone e, vs, x, hn, h, ρ, hl => by
      simp only [Cpp.transpile, Res.bind_eq_ok] at h
      obtain ⟨e', he, h⟩ := h
      simp only [cppOK] at hn
      cases h
      have ih := cpp_preserves sem hs hz cfg D hcfg e vs e' hn he ρ hl
      have ihp : R (evalT sem ρ (parenUnless Gen.TargetEmit.Cpp.isNotNone e e')) (coarse (Expr.eval ρ e)) := by simpa using ih
      exact (R_isNull hs ρ _ ihp).2
    | .not e, vs, x, hn, h, ρ, hl => by
      simp only [Cpp.transpile, Res.bind_eq_ok] at h
      obtain ⟨e0, he0, e', hde, h⟩ := h
      simp only [cppOK] at hn
      cases h
      simp only [evalT, evalT_parenUnless]; rw [coarse_not]
      refine R_bind (R_deref hs ρ hde (cpp_preserves sem hs hz cfg D hcfg e vs e0 hn he0 ρ hl)) (fun v => ?_)
      cases hk : sem.truthy ρ.fops v with
      | none => exact Or.inl rfl
      | some b => rw [hs.truthy _ _ _ hk]; exact Or.inr rfl
    | .and [], vs, x, _, h, ρ, _ => by
      simp only [Cpp.transpile, Cpp.transpileVals, Res.bind_eq_ok] at h
      obtain ⟨vals, hv, h⟩ := h
      cases hv; cases h
    | .or [], vs, x, _, h, ρ, _ => by
      simp only [Cpp.transpile, Cpp.transpileVals, Res.bind_eq_ok] at h
      obtain ⟨vals, hv, h⟩ := h
      cases hv; cases h
    | .and [e], vs, x, hn, h, ρ, hl => by
      simp only [Cpp.transpile, Cpp.transpileVals, Res.bind_eq_ok] at h
      obtain ⟨vals, ⟨e0, he0, e', hde, es', hes, hv⟩, h⟩ := h
      cases hes; cases hv; cases h
      simp only [cppOK, cppOKList, Bool.and_eq_true] at hn
      simpa [Expr.eval, coarse_evalAnd_one] using R_deref hs ρ hde (cpp_preserves sem hs hz cfg D hcfg e vs e0 hn.1 he0 ρ hl)
    | .or [e], vs, x, hn, h, ρ, hl => by
      simp only [Cpp.transpile, Cpp.transpileVals, Res.bind_eq_ok] at h
      obtain ⟨vals, ⟨e0, he0, e', hde, es', hes, hv⟩, h⟩ := h
      cases hes; cases hv; cases h
      simp only [cppOK, cppOKList, Bool.and_eq_true] at hn
      simpa [Expr.eval, coarse_evalOr_one] using R_deref hs ρ hde (cpp_preserves sem hs hz cfg D hcfg e vs e0 hn.1 he0 ρ hl)
    | .and (e :: e2 :: es), vs, x, hn, h, ρ, hl => by
      simp only [Cpp.transpile, Res.bind_eq_ok] at h
      obtain ⟨vals, hv, h⟩ := h
      simp only [cppOK] at hn
      have ih := cpp_preservesVals sem hs hz cfg D hcfg true (e :: e2 :: es) vs vals hn hv (by simp) ρ hl
      simp only [Cpp.transpileVals, Res.bind_eq_ok] at hv
      obtain ⟨e0, he0, e', hde, es', ⟨e20, he20, e2', hde2, es2', hes2, h2⟩, hv⟩ := hv
      cases h2; cases hv; cases h
      simp only [evalT_paren, evalT, Expr.eval]
      simpa using ih
    | .or (e :: e2 :: es), vs, x, hn, h, ρ, hl => by
      simp only [Cpp.transpile, Res.bind_eq_ok] at h
      obtain ⟨vals, hv, h⟩ := h
      simp only [cppOK] at hn
      have ih := cpp_preservesVals sem hs hz cfg D hcfg false (e :: e2 :: es) vs vals hn hv (by simp) ρ hl
      simp only [Cpp.transpileVals, Res.bind_eq_ok] at hv
      obtain ⟨e0, he0, e', hde, es', ⟨e20, he20, e2', hde2, es2', hes2, h2⟩, hv⟩ := hv
      cases h2; cases hv; cases h
      simp only [evalT_paren, evalT, Expr.eval]
      simpa using ih
    | .add l r, vs, x, hn, h, ρ, hl => by
      simp only [Cpp.transpile, Res.bind_eq_ok] at h
      obtain ⟨l0, hl0, l', hdl, r0, hr0, r', hdr, h⟩ := h
      simp only [cppOK, Bool.and_eq_true] at hn
      cases h
      simp only [evalT, evalT_parenUnless]; rw [coarse_add]
      exact R_bind2 (R_deref hs ρ hdl (cpp_preserves sem hs hz cfg D hcfg l vs l0 hn.1 hl0 ρ hl))
        (R_deref hs ρ hdr (cpp_preserves sem hs hz cfg D hcfg r vs r0 hn.2 hr0 ρ hl)) (fun a b => R_ofOpt (hs.arith _ _ a b))
    | .sub l r, vs, x, hn, h, ρ, hl => by
      simp only [Cpp.transpile, Res.bind_eq_ok] at h
      obtain ⟨l0, hl0, l', hdl, r0, hr0, r', hdr, h⟩ := h
      simp only [cppOK, Bool.and_eq_true] at hn
      cases h
      simp only [evalT, evalT_parenUnless]; rw [coarse_sub]
      exact R_bind2 (R_deref hs ρ hdl (cpp_preserves sem hs hz cfg D hcfg l vs l0 hn.1 hl0 ρ hl))
        (R_deref hs ρ hdr (cpp_preserves sem hs hz cfg D hcfg r vs r0 hn.2 hr0 ρ hl)) (fun a b => R_ofOpt (hs.arith _ _ a b))
    | .joinedStr ps, vs, x, hn, h, ρ, hl => by
      simp only [Cpp.transpile] at h
      simp only [cppOK] at hn
      split at h
      · simp only [Res.bind_eq_ok] at h
        obtain ⟨ps', hp, h⟩ := h
        cases h
        simp only [evalT, Expr.eval]
        exact cpp_preservesParts sem hs hz cfg D hcfg ps vs ps' hn hp ρ hl
      · next hf =>
        cases h
        simp only [evalT, Expr.eval, evalParts_noFv ρ ps (by simpa using hf), constVal, coarse]
        exact Or.inr rfl
    | .any g c, vs, x, hn, h, ρ, hl => by
      simp only [Cpp.transpile, Res.bind_eq_ok] at h
      obtain ⟨⟨v, it⟩, hg, c0, hc0, c', hdc, h⟩ := h
      simp only [cppOK, Bool.and_eq_true] at hn
      cases h
      have hv := Cpp.genVar_ok cfg _ g vs v it hn.1 hg
      exact R_quant hs ρ true (cpp_preservesGen sem hs hz cfg D hcfg g vs v it hn.1 hg ρ hl)
        (fun item => R_deref hs _ hdc (cpp_preserves sem hs hz cfg D hcfg c (v :: vs) c0 hn.2 hc0 (ρ.bind v item) (CppEnv_bind item hl hv)))
    | .all g c, vs, x, hn, h, ρ, hl => by
      simp only [Cpp.transpile, Res.bind_eq_ok] at h
      obtain ⟨⟨v, it⟩, hg, c0, hc0, c', hdc, h⟩ := h
      simp only [cppOK, Bool.and_eq_true] at hn
      cases h
      have hv := Cpp.genVar_ok cfg _ g vs v it hn.1 hg
      exact R_quant hs ρ false (cpp_preservesGen sem hs hz cfg D hcfg g vs v it hn.1 hg ρ hl)
        (fun item => R_deref hs _ hdc (cpp_preserves sem hs hz cfg D hcfg c (v :: vs) c0 hn.2 hc0 (ρ.bind v item) (CppEnv_bind item hl hv)))
  theorem cpp_preservesGen (sem : Sem) (hs : SemSound sem) (hz : SizeIndexSound sem) (cfg : TCfg)
      (D : List (Text × List Text)) (hcfg : CfgEnum cfg D) :
      ∀ (g : Gen) (vs : List Text) (v : Text) (it : TIter), cppOKGen cfg (reserved D) g = true →
        Cpp.transpileGen cfg vs g = .ok (v, it) → ∀ ρ : Env, CppEnv D ρ →
          RI v (evalIterT sem ρ it) (Expr.evalGen ρ g)
    | .forEach y e, vs, v, it, hn, h, ρ, hl => by
      simp only [Cpp.transpileGen, Res.bind_eq_ok] at h
      obtain ⟨e0, he0, e', hde, h⟩ := h
      simp only [cppOKGen, Bool.and_eq_true] at hn
      cases h
      have ih := R_deref hs ρ hde (cpp_preserves sem hs hz cfg D hcfg e vs e0 hn.2 he0 ρ hl)
      simp only [evalIterT, evalT_parenUnless, Expr.evalGen]
      rcases ih with ih | ih
      · rw [ih]; simp [RI]
      · rw [ih]
        cases Expr.eval ρ e with
        | val iv =>
          simp only [coarse]
          cases hi : sem.iter iv with
          | none => simp [RI]
          | some l => simp [hs.iter iv l hi, RI]
        | _ => simp [coarse, RI]
    | .forRange y a b, vs, v, it, hn, h, ρ, hl => by
      simp only [Cpp.transpileGen, Res.bind_eq_ok] at h
      obtain ⟨a0, ha0, a', hda, b0, hb0, b', hdb, h⟩ := h
      simp only [cppOKGen, Bool.and_eq_true] at hn
      cases h
      have iha := R_deref hs ρ hda (cpp_preserves sem hs hz cfg D hcfg a vs a0 hn.1.2 ha0 ρ hl)
      have ihb := R_deref hs ρ hdb (cpp_preserves sem hs hz cfg D hcfg b vs b0 hn.2 hb0 ρ hl)
      simp only [evalIterT, Expr.evalGen]
      rcases iha with iha | iha
      · rw [iha]; simp [RI]
      · rcases ihb with ihb | ihb
        · rw [ihb]; cases evalT sem ρ a' <;> simp [RI]
        · rw [iha, ihb]
          cases Expr.eval ρ a with
          | val av =>
            cases Expr.eval ρ b with
            | val bv => cases av <;> cases bv <;> simp [coarse, RI, rangeArg]
            | _ => cases av <;> simp [coarse, RI]
          | _ => cases Expr.eval ρ b <;> simp [coarse, RI]
  theorem cpp_preservesArgs (sem : Sem) (hs : SemSound sem) (hz : SizeIndexSound sem) (cfg : TCfg)
      (D : List (Text × List Text)) (hcfg : CfgEnum cfg D) :
      ∀ (es : List Expr) (vs : List Text) (xs : List TExpr), cppOKList cfg (reserved D) es = true →
        Cpp.transpileArgs cfg vs es = .ok xs → ∀ ρ : Env, CppEnv D ρ →
          RA (evalArgsT sem ρ xs) (Expr.evalArgs ρ es)
    | [], vs, xs, _, h, ρ, _ => by
      simp only [Cpp.transpileArgs] at h; cases h; simp [evalArgsT, Expr.evalArgs, RA]
    | e :: es, vs, xs, hn, h, ρ, hl => by
      simp only [Cpp.transpileArgs, Res.bind_eq_ok] at h
      obtain ⟨e0, he0, h⟩ := h
      simp only [cppOKList, Bool.and_eq_true] at hn
      have ih0 := cpp_preserves sem hs hz cfg D hcfg e vs e0 hn.1 he0 ρ hl
      split at h
      · cases h
      · simp only [Res.bind_eq_ok] at h
        obtain ⟨e', hde, es', hes, h⟩ := h
        cases h
        have ih : R (evalT sem ρ e') (coarse (Expr.eval ρ e)) := by
          split at hde
          · cases hde; exact ih0
          · exact R_deref hs ρ hde ih0
        simp only [evalArgsT]
        exact RA_cons ih (cpp_preservesArgs sem hs hz cfg D hcfg es vs es' hn.2 hes ρ hl)
  theorem cpp_preservesVals (sem : Sem) (hs : SemSound sem) (hz : SizeIndexSound sem) (cfg : TCfg)
      (D : List (Text × List Text)) (hcfg : CfgEnum cfg D) (isAnd : Bool) :
      ∀ (es : List Expr) (vs : List Text) (xs : List TExpr), cppOKList cfg (reserved D) es = true →
        Cpp.transpileVals cfg vs es = .ok xs → es ≠ [] → ∀ ρ : Env, CppEnv D ρ →
          R (evalBoolT sem ρ isAnd xs) (coarse (if isAnd then Expr.evalAnd ρ es else Expr.evalOr ρ es))
    | [], vs, xs, _, _, hne, ρ, _ => absurd rfl hne
    | [e], vs, xs, hn, h, _, ρ, hl => by
      simp only [Cpp.transpileVals, Res.bind_eq_ok] at h
      obtain ⟨e0, he0, e', hde, es', hes, h⟩ := h
      cases hes; cases h
      simp only [cppOKList, Bool.and_eq_true] at hn
      have ih := R_deref hs ρ hde (cpp_preserves sem hs hz cfg D hcfg e vs e0 hn.1 he0 ρ hl)
      simp only [evalBoolT, evalT_parenUnless]
      have := R_lastOperand hs ρ.fops ih
      cases isAnd <;> simpa [coarse_evalAnd_one, coarse_evalOr_one] using this
    | e :: e2 :: es, vs, xs, hn, h, _, ρ, hl => by
      simp only [Cpp.transpileVals, Res.bind_eq_ok] at h
      obtain ⟨e0, he0, e', hde, es', ⟨e20, he20, e2', hde2, es2', hes2, h2⟩, h⟩ := h
      simp only [cppOKList, Bool.and_eq_true] at hn
      have ihr := cpp_preservesVals sem hs hz cfg D hcfg isAnd (e2 :: es) vs es' (by simp [cppOKList, hn.2]) (by
        simp only [Cpp.transpileVals, Res.bind_eq_ok]; exact ⟨e20, he20, e2', hde2, es2', hes2, h2⟩) (by simp) ρ hl
      have ih := R_deref hs ρ hde (cpp_preserves sem hs hz cfg D hcfg e vs e0 hn.1 he0 ρ hl)
      cases h2; cases h
      simp only [evalBoolT, evalT_parenUnless] at ihr ⊢
      cases isAnd
      · simp only [Bool.false_eq_true, if_false] at ihr ⊢
        rw [coarse_evalOr_cons]
        refine R_bind ih (fun v => ?_)
        cases hk : sem.truthy ρ.fops v with
        | none => exact Or.inl rfl
        | some b =>
          rw [hs.truthy _ _ _ hk]
          cases v.truthy ρ.fops
          · simpa using ihr
          · simp; exact Or.inr rfl
      · simp only [if_true] at ihr ⊢
        rw [coarse_evalAnd_cons]
        refine R_bind ih (fun v => ?_)
        cases hk : sem.truthy ρ.fops v with
        | none => exact Or.inl rfl
        | some b =>
          rw [hs.truthy _ _ _ hk]
          cases v.truthy ρ.fops
          · simp; exact Or.inr rfl
          · simpa using ihr
  theorem cpp_preservesParts (sem : Sem) (hs : SemSound sem) (hz : SizeIndexSound sem) (cfg : TCfg)
      (D : List (Text × List Text)) (hcfg : CfgEnum cfg D) :
      ∀ (ps : List JPart) (vs : List Text) (xs : List TPart), cppOKParts cfg (reserved D) ps = true →
        Cpp.transpileParts cfg vs ps = .ok xs → ∀ ρ : Env, CppEnv D ρ →
          R (evalPartsT sem ρ .cpp xs) (coarse (Expr.evalParts ρ ps))
    | [], vs, xs, _, h, ρ, _ => by
      simp only [Cpp.transpileParts] at h; cases h
      exact Or.inr (by simp [evalPartsT, Expr.evalParts, coarse])
    | .lit s :: ps, vs, xs, hn, h, ρ, hl => by
      simp only [Cpp.transpileParts, Res.bind_eq_ok] at h
      obtain ⟨ps', hp, h⟩ := h
      simp only [cppOKParts] at hn
      cases h
      simp only [evalPartsT]; rw [coarse_evalParts_lit]
      exact R_bind (cpp_preservesParts sem hs hz cfg D hcfg ps vs ps' hn hp ρ hl) (fun _ => Or.inr rfl)
    | .fv e :: ps, vs, xs, hn, h, ρ, hl => by
      simp only [Cpp.transpileParts, Res.bind_eq_ok] at h
      obtain ⟨e0, he0, e', hde, h⟩ := h
      simp only [cppOKParts, Bool.and_eq_true] at hn
      split at h
      · cases h
      · split at h
        · cases h
        · simp only [Res.bind_eq_ok] at h
          obtain ⟨ps', hp, h⟩ := h
          cases h
          simp only [evalPartsT]; rw [coarse_evalParts_fv]
          refine R_bind (R_deref hs ρ hde (cpp_preserves sem hs hz cfg D hcfg e vs e0 hn.1 he0 ρ hl)) (fun v => ?_)
          refine R_bind (R_ofOpt (hs.fmt _ _ ρ v)) (fun t => ?_)
          exact R_bind (cpp_preservesParts sem hs hz cfg D hcfg ps vs ps' hn.2 hp ρ hl) (fun _ => Or.inr rfl)
end

end AasVerif.TargetEmit
