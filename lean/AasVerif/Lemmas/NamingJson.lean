import AasVerif.Lemmas.Naming
/-!
`json_model_type` on identifiers: every character of the result is alphanumeric, so its two `@ensure`s
(no underscore; no quotes/backslash) can never fire and `Identifier(…)` accepts the result.
-/
namespace AasVerif.Naming
open AasVerif

theorem isIdent_chars {t : Text} (h : isIdent t = true) : ∀ c ∈ t, isAlnumC c = true ∨ c = 95 := by
  cases t with
  | nil => simp [isIdent] at h
  | cons c0 cs =>
    simp only [isIdent, Bool.and_eq_true, Bool.or_eq_true, beq_iff_eq, List.all_eq_true] at h
    intro c hc
    rcases List.mem_cons.mp hc with rfl | hc
    · rcases h.1 with (hu | hl) | h95
      · left; simp [isAlnumC, hu]
      · left; simp [isAlnumC, hl]
      · right; exact h95
    · exact h.2 c hc

theorem mem_capitalize {p : Text} {c : Nat} (h : c ∈ capitalize p) : ∃ d ∈ p, c = upC d ∨ c = loC d := by
  cases p with
  | nil => cases h
  | cons d ds =>
    simp only [capitalize, List.mem_cons] at h
    rcases h with rfl | h
    · exact ⟨d, List.mem_cons_self, Or.inl rfl⟩
    · unfold lower at h
      obtain ⟨e, he, rfl⟩ := List.mem_map.mp h
      exact ⟨e, List.mem_cons_of_mem _ he, Or.inr rfl⟩

theorem capCamelRaw_alnum {t : Text} (h : isIdent t = true) : ∀ c ∈ capCamelRaw t, isAlnumC c = true := by
  intro c hc
  unfold capCamelRaw at hc
  obtain ⟨q, hq, hcq⟩ := List.mem_flatten.mp hc
  obtain ⟨p, hp, rfl⟩ := List.mem_map.mp hq
  obtain ⟨d, hd, hcd⟩ := mem_capitalize hcq
  obtain ⟨hdt, hd95⟩ := mem_splitC hp hd
  have hal : isAlnumC d = true := by
    rcases isIdent_chars h d hdt with h1 | h1
    · exact h1
    · exact absurd h1 hd95
  rcases hcd with rfl | rfl
  · exact isAlnumC_upC hal
  · exact isAlnumC_loC hal

theorem capCamelRaw_head {c0 : Nat} {cs : Text} (hu : isUpperC c0 = true) :
    ∃ rest, capCamelRaw (c0 :: cs) = c0 :: rest := by
  have hne : c0 ≠ 95 := by
    simp only [isUpperC, Bool.and_eq_true, decide_eq_true_eq] at hu
    omega
  obtain ⟨p, ps, hsplit⟩ := splitC_head (cs := cs) hne
  unfold capCamelRaw parts
  rw [hsplit]
  have : upC c0 = c0 := by
    simp only [isUpperC, Bool.and_eq_true, decide_eq_true_eq] at hu
    simp only [upC, isLowerC, Bool.and_eq_true, decide_eq_true_eq]
    split <;> omega
  refine ⟨lower p ++ (ps.map capitalize).flatten, ?_⟩
  simp only [List.map_cons, List.flatten_cons, capitalize, this, List.cons_append]

theorem contains_false_of_not_mem {r : Text} {x : Nat} (h : x ∉ r) : r.contains x = false := by
  cases hc : r.contains x with
  | false => rfl
  | true => exact absurd (List.contains_iff_mem.mp hc) h

/-- On identifiers starting with a capital letter `json_model_type` returns normally (neither the
`Identifier` contract nor its own `@ensure`s can fire) and the result contains no `_`, quote or backslash. -/
theorem jsonModelType_total (t : Text) (hid : isIdent t = true) (hup : firstIsUpper t = true) :
    ∃ r, jsonModelType t = .ok r ∧ isIdent r = true ∧ 95 ∉ r ∧ 34 ∉ r ∧ 39 ∉ r ∧ 92 ∉ r := by
  cases t with
  | nil => simp [firstIsUpper] at hup
  | cons c0 cs =>
    have hu : isUpperC c0 = true := hup
    obtain ⟨rest, hrest⟩ := capCamelRaw_head (cs := cs) hu
    have hal := capCamelRaw_alnum hid
    rw [hrest] at hal
    have hno : ∀ x, (x = 95 ∨ x = 34 ∨ x = 39 ∨ x = 92) → x ∉ c0 :: rest := by
      intro x hx hm
      have := isAlnumC_not_special (hal x hm)
      omega
    have hident : isIdent (c0 :: rest) = true := by
      simp only [isIdent, Bool.and_eq_true, Bool.or_eq_true, beq_iff_eq, List.all_eq_true]
      refine ⟨Or.inl (Or.inl hu), ?_⟩
      intro d hd
      exact Or.inl (hal d (List.mem_cons_of_mem _ hd))
    refine ⟨c0 :: rest, ?_, hident, hno 95 (by omega), hno 34 (by omega), hno 39 (by omega), hno 92 (by omega)⟩
    unfold jsonModelType
    simp only [hup, Bool.not_true, Bool.false_eq_true, if_false]
    unfold capCamel identR
    rw [hrest, if_pos hident]
    simp only [contains_false_of_not_mem (hno 95 (by omega)), contains_false_of_not_mem (hno 34 (by omega)),
      contains_false_of_not_mem (hno 39 (by omega)), contains_false_of_not_mem (hno 92 (by omega)),
      Bool.false_eq_true, if_false, Bool.or_self]

end AasVerif.Naming
