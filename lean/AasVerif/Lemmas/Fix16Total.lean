import AasVerif.Lemmas.Fix16Leaves
/-!
Totality of the rewriting on well-formed trees: no crash site of `_fix.py` is reachable when code
points are ≤ U+10FFFF, ranges are ordered and complemented sets have BMP ranges only (what the
parser guarantees after the `fix:` commit on the `>=` comparison).
-/
namespace AasVerif.Fix16
open AasVerif.Retree

theorem rngWF_iff {r : Rng} :
    rngWF r = true ↔ r.start.code ≤ 1114111 ∧
      ∀ e, r.stop = some e → e.code ≤ 1114111 ∧ r.start.code ≤ e.code := by
  unfold rngWF
  gen_consts
  cases r.stop <;> simp

theorem fixChar_ok {c : Chr} (q : Option Quant) (h : c.code ≤ 1114111) :
    ∃ ts, fixChar c q = .ok ts := by
  unfold fixChar
  gen_consts
  split
  · exact ⟨_, rfl⟩
  · next hge =>
    have hc : convert c.code = .ok (surrogates c.code) := convert_ok_iff.mpr ⟨by omega, h, rfl⟩
    rw [hc]
    cases q <;> exact ⟨_, rfl⟩

theorem rangePieces_ok {r : Rng} (h1 : 65536 ≤ r.start.code) (h : rngWF r = true) :
    ∃ pcs, rangePieces r = .ok pcs := by
  obtain ⟨h2, h3⟩ := rngWF_iff.mp h
  have hc : convert r.start.code = .ok (surrogates r.start.code) :=
    convert_ok_iff.mpr ⟨h1, h2, rfl⟩
  unfold rangePieces
  rw [hc]
  simp only
  cases hst : r.stop with
  | none => exact ⟨_, rfl⟩
  | some e =>
    obtain ⟨h4, h5⟩ := h3 e hst
    simp only
    split
    · exact ⟨_, rfl⟩
    · next hne =>
      have hlt : r.start.code < e.code := by omega
      rw [if_neg (by simpa using hlt)]
      have hce : convert e.code = .ok (surrogates e.code) := convert_ok_iff.mpr ⟨by omega, h4, rfl⟩
      rw [hce]
      exact ⟨_, rfl⟩

theorem wRanges_wf {rs : List Rng} (h : rs.all rngWF = true) :
    ∀ r ∈ wRanges rs, 65536 ≤ r.start.code ∧ rngWF r = true := by
  induction rs with
  | nil => intro r hr; simp [wRanges] at hr
  | cons r0 rs ih =>
    simp only [List.all_cons, Bool.and_eq_true] at h
    intro r hr
    unfold wRanges at hr
    split at hr
    · exact ih h.2 r hr
    · next hb =>
      split at hr
      · next hstr =>
        obtain ⟨h1, e, he, h2⟩ := isStraddling_iff.mp hstr
        rcases List.mem_cons.mp hr with rfl | hr
        · gen_consts
          refine ⟨by simp, rngWF_iff.mpr ⟨by simp, ?_⟩⟩
          intro e' he'
          simp only at he'
          rw [he] at he'; cases he'
          have := (rngWF_iff.mp h.1).2 e he
          exact ⟨this.1, h2⟩
        · exact ih h.2 r hr
      · next hstr =>
        rcases List.mem_cons.mp hr with rfl | hr
        · refine ⟨?_, h.1⟩
          rw [Bool.not_eq_true, ← Bool.not_eq_true, isBmpRange_iff] at hb
          rw [Bool.not_eq_true, ← Bool.not_eq_true, isStraddling_iff] at hstr
          by_cases hs : r.start.code < 65536
          · exfalso
            cases hst : r.stop with
            | none => apply hb; exact ⟨hs, by simp [hst]⟩
            | some e =>
              by_cases he : e.code < 65536
              · apply hb; refine ⟨hs, ?_⟩; intro e' he'; rw [hst] at he'; cases he'; exact he
              · apply hstr; exact ⟨hs, e, hst, by omega⟩
          · omega
        · exact ih h.2 r hr

theorem allPieces_ok {rs : List Rng} (h : ∀ r ∈ rs, 65536 ≤ r.start.code ∧ rngWF r = true) :
    ∃ ps, allPieces rs = .ok ps := by
  induction rs with
  | nil => exact ⟨_, rfl⟩
  | cons r rs ih =>
    obtain ⟨pcs, hp⟩ := rangePieces_ok (h r (by simp)).1 (h r (by simp)).2
    obtain ⟨qs, hq⟩ := ih (fun r' hr' => h r' (by simp [hr']))
    unfold allPieces
    rw [hp, hq]
    exact ⟨_, rfl⟩

theorem wRanges_nil_of_bmp {rs : List Rng} (h : rs.all isBmpRange = true) : wRanges rs = [] := by
  induction rs with
  | nil => rfl
  | cons r rs ih =>
    simp only [List.all_cons, Bool.and_eq_true] at h
    unfold wRanges
    rw [if_pos h.1]
    exact ih h.2

theorem fixSet_ok {compl : Bool} {rs : List Rng} (q : Option Quant)
    (h1 : rs.all rngWF = true) (h2 : compl = true → rs.all isBmpRange = true) :
    ∃ ts, fixSet compl rs q = .ok ts := by
  unfold fixSet
  split
  · exact ⟨_, rfl⟩
  · next hne =>
    cases compl with
    | true =>
      rw [wRanges_nil_of_bmp (h2 rfl)] at hne
      simp at hne
    | false =>
      obtain ⟨ps, hp⟩ := allPieces_ok (wRanges_wf h1)
      simp only [Bool.false_eq_true, if_false, hp]
      exact ⟨_, rfl⟩

theorem expand1_ok {t : Term} (h : wfTerm t = true) : ∃ ts, expand1 t = .ok ts := by
  match t, h with
  | .mk (.char c) q, h =>
    simp only [wfTerm, wfValue, decide_eq_true_eq] at h
    gen_consts
    exact fixChar_ok q h
  | .mk (.set compl rs) q, h =>
    simp only [wfTerm, wfValue, Bool.and_eq_true, Bool.or_eq_true, Bool.not_eq_true'] at h
    refine fixSet_ok q h.1 ?_
    intro hc
    rcases h.2 with h' | h'
    · rw [hc] at h'; cases h'
    · exact h'
  | .mk (.group u) q, _ => exact ⟨_, rfl⟩
  | .mk (.fv i) q, _ => exact ⟨_, rfl⟩
  | .mk (.sym k) q, _ => exact ⟨_, rfl⟩

theorem expandCrash_none {ts : List Term} (h : wfTerms ts = true) : expandCrash ts = none := by
  induction ts with
  | nil => rfl
  | cons t ts ih =>
    simp only [wfTerms, Bool.and_eq_true] at h
    obtain ⟨x, hx⟩ := expand1_ok h.1
    unfold expandCrash
    rw [hx]
    exact ih h.2

mutual
  theorem fixUnion_ok : ∀ (u : Union), wfUnion u = true → ∃ u', fixUnion u = .ok u'
    | .mk us, h => by
      obtain ⟨us', hus⟩ := fixConcats_ok us (by simpa [wfUnion] using h)
      exact ⟨.mk us', by simp only [fixUnion, hus]⟩
  theorem fixConcats_ok : ∀ (cs : List Concat), wfConcats cs = true → ∃ cs', fixConcats cs = .ok cs'
    | [], _ => ⟨[], by simp only [fixConcats]⟩
    | c :: cs, h => by
      simp only [wfConcats, Bool.and_eq_true] at h
      obtain ⟨c', hc⟩ := fixConcat_ok c h.1
      obtain ⟨cs', hcs⟩ := fixConcats_ok cs h.2
      exact ⟨c' :: cs', by simp only [fixConcats, hc, hcs]⟩
  theorem fixConcat_ok : ∀ (c : Concat), wfConcat c = true → ∃ c', fixConcat c = .ok c'
    | .mk ts, h => by
      have h' : wfTerms ts = true := by simpa [wfConcat] using h
      obtain ⟨ts', hts⟩ := fixTerms_ok ts h'
      exact ⟨.mk ts', by simp only [fixConcat, expandCrash_none h', hts]⟩
  theorem fixTerms_ok : ∀ (ts : List Term), wfTerms ts = true → ∃ ts', fixTerms ts = .ok ts'
    | [], _ => ⟨[], by simp only [fixTerms]⟩
    | t :: ts, h => by
      simp only [wfTerms, Bool.and_eq_true] at h
      obtain ⟨t', ht⟩ := fixTerm_ok t h.1
      obtain ⟨ts', hts⟩ := fixTerms_ok ts h.2
      exact ⟨t' ++ ts', by simp only [fixTerms, ht, hts]⟩
  theorem fixTerm_ok : ∀ (t : Term), wfTerm t = true → ∃ ts', fixTerm t = .ok ts'
    | .mk (.group u) q, h => by
      obtain ⟨u', hu⟩ := fixUnion_ok u (by simpa [wfTerm, wfValue] using h)
      exact ⟨[.mk (.group u') q], by simp only [fixTerm, hu]⟩
    | .mk (.char c) q, h => by
      have := expand1_ok h
      simpa only [expand1, fixTerm] using this
    | .mk (.set compl rs) q, h => by
      have := expand1_ok h
      simpa only [expand1, fixTerm] using this
    | .mk (.fv i) q, _ => ⟨[.mk (.fv i) q], by simp only [fixTerm]⟩
    | .mk (.sym k) q, _ => ⟨[.mk (.sym k) q], by simp only [fixTerm]⟩
end

end AasVerif.Fix16
