import AasVerif.Lemmas.SdkBasic
/-! The dispatch on `modelType` finds the concrete class of a document the SDK wrote itself. -/
namespace AasVerif.Sdk

/-! ### consequences of `MM.wf` -/

theorem wf_parts {mm : MM} (h : mm.wf = true) :
    nodupB (mm.classes.map (fun c => c.name)) = true
    ∧ nodupB (mm.classes.map (fun c => jsonModelType c.name)) = true
    ∧ (∀ cd ∈ mm.classes, cd.okIn mm = true)
    ∧ nodupB (mm.enums.map (fun e => e.name)) = true
    ∧ (∀ ed ∈ mm.enums, ed.ok = true) := by
  simp only [MM.wf, Bool.and_eq_true, List.all_eq_true] at h
  exact ⟨h.1.1.1.1, h.1.1.1.2, h.1.1.2, h.1.2, h.2⟩

theorem okIn_parts {mm : MM} {cd : ClassDecl} (h : cd.okIn mm = true) :
    nodupB (cd.props.map (fun p => p.name)) = true
    ∧ nodupB (cd.props.map (fun p => jsonProperty p.name)) = true
    ∧ modelTypeKey ∉ cd.props.map (fun p => jsonProperty p.name)
    ∧ (∀ p ∈ cd.props, mm.tyReadable p.ty.beneathOpt = true)
    ∧ cd.name ∉ cd.concreteDescendants
    ∧ (∀ d ∈ cd.concreteDescendants, ∃ dd, mm.findClass d = some dd ∧ dd.abstract = false)
    ∧ (cd.abstract = true → cd.concreteDescendants ≠ []) := by
  simp only [ClassDecl.okIn, Bool.and_eq_true, List.all_eq_true, Bool.not_eq_true', Bool.or_eq_true,
    List.contains_eq_mem, decide_eq_false_iff_not] at h
  obtain ⟨⟨⟨⟨⟨⟨h1, h2⟩, h3⟩, h4⟩, h5⟩, h6⟩, h7⟩ := h
  refine ⟨h1, h2, h3, h4, h5, ?_, ?_⟩
  · intro d hd
    have := h6 d hd
    cases hf : mm.findClass d with
    | none => rw [hf] at this; cases this
    | some dd =>
      rw [hf] at this
      exact ⟨dd, rfl, by simpa using this⟩
  · intro ha hnil
    rcases h7 with h7 | h7
    · rw [ha] at h7; cases h7
    · rw [hnil] at h7; simp at h7

theorem class_eq_of_name {mm : MM} (h : mm.wf = true) {a b : ClassDecl} (ha : a ∈ mm.classes)
    (hb : b ∈ mm.classes) (hab : a.name = b.name) : a = b :=
  inj_of_nodupB_map (fun c : ClassDecl => c.name) mm.classes (wf_parts h).1 a ha b hb hab

theorem class_eq_of_modelType {mm : MM} (h : mm.wf = true) {a b : ClassDecl} (ha : a ∈ mm.classes)
    (hb : b ∈ mm.classes) (hab : jsonModelType a.name = jsonModelType b.name) : a = b :=
  inj_of_nodupB_map (fun c : ClassDecl => jsonModelType c.name) mm.classes (wf_parts h).2.1 a ha b hb hab

/-! ### leaf classes -/

theorem leafPlan_read (dd : ClassDecl) (ms : Members) (hconc : dd.abstract = false)
    (hmt : dd.withModelType = true → getLast ms modelTypeKey = some (.str (jsonModelType dd.name))) :
    leafPlan dd (.obj ms) = .read dd := by
  unfold leafPlan
  simp only [hconc, Bool.false_eq_true, if_false]
  by_cases hw : dd.withModelType = true
  · simp [hw, hmt hw]
  · simp [hw]

/-! ### the dispatch chain -/

theorem mem_dispatchEntries {cd : ClassDecl} {mt : Text} {tgt : Option Name}
    (h : (mt, tgt) ∈ dispatchEntries cd) :
    (cd.abstract = false ∧ mt = jsonModelType cd.name ∧ tgt = none)
    ∨ (∃ x ∈ cd.concreteDescendants, mt = jsonModelType x ∧ tgt = some x) := by
  unfold dispatchEntries at h
  rcases List.mem_append.mp h with h | h
  · left
    by_cases ha : cd.abstract = true
    · simp [ha] at h
    · simp only [ha, Bool.false_eq_true, if_false, List.mem_singleton, Prod.mk.injEq] at h
      exact ⟨by simpa using ha, h.1, h.2⟩
  · right
    obtain ⟨x, hx, he⟩ := List.mem_map.mp h
    simp only [Prod.mk.injEq] at he
    exact ⟨x, hx, he.1.symm, he.2.symm⟩

theorem resolve_target {mm : MM} (hwf : mm.wf = true) {cd dd : ClassDecl}
    (hcd : cd ∈ mm.classes) (hdd : dd ∈ mm.classes) (hfd : mm.findClass dd.name = some dd)
    (hrel : dd.name = cd.name ∨ dd.name ∈ cd.concreteDescendants) (hconc : dd.abstract = false)
    (n : Nat) :
    resolve mm (n + 2) cd (jsonModelType dd.name) = .body dd
    ∨ (resolve mm (n + 2) cd (jsonModelType dd.name) = .leaf dd) := by
  have hokc := okIn_parts ((wf_parts hwf).2.2.1 cd hcd)
  have hokd := okIn_parts ((wf_parts hwf).2.2.1 dd hdd)
  -- a descendant entry with the model type of `dd` is the entry of `dd`
  have hdesc : ∀ (e : ClassDecl), e ∈ mm.classes → ∀ x ∈ e.concreteDescendants,
      jsonModelType dd.name = jsonModelType x → x = dd.name := by
    intro e he x hx hmt
    obtain ⟨xd, hfx, _⟩ := (okIn_parts ((wf_parts hwf).2.2.1 e he)).2.2.2.2.2.1 x hx
    have hxd := findClass_some hfx
    have : dd = xd := class_eq_of_modelType hwf hdd hxd.1 (by rw [hxd.2]; exact hmt)
    rw [this]; exact hxd.2.symm
  -- the entry for `dd` exists in the dictionary of `cd`
  have hex : ∃ tgt, (jsonModelType dd.name, tgt) ∈ dispatchEntries cd := by
    rcases hrel with h | h
    · have : dd = cd := class_eq_of_name hwf hdd hcd h
      subst this
      exact ⟨none, by unfold dispatchEntries; simp [hconc]⟩
    · exact ⟨some dd.name, by
        unfold dispatchEntries
        exact List.mem_append_right _ (List.mem_map.mpr ⟨dd.name, h, rfl⟩)⟩
  obtain ⟨tgt0, htgt0⟩ := hex
  obtain ⟨tgt, hl⟩ := lookupLast_isSome_of_mem _ _ _ htgt0
  have hmem := lookupLast_some_mem _ _ _ hl
  rw [show n + 2 = (n + 1) + 1 from rfl, resolve, hl]
  rcases mem_dispatchEntries hmem with ⟨_, hmt, rfl⟩ | ⟨x, hx, hmt, rfl⟩
  · have : dd = cd := class_eq_of_modelType hwf hdd hcd hmt
    subst this
    left; rfl
  · have hxe : x = dd.name := hdesc cd hcd x hx hmt
    subst hxe
    simp only [hfd]
    by_cases hempty : dd.concreteDescendants.isEmpty = true
    · right; simp [hempty]
    · left
      simp only [hempty, Bool.false_eq_true, if_false]
      -- second hop: the own entry of `dd`
      have hown : (jsonModelType dd.name, (none : Option Name)) ∈ dispatchEntries dd := by
        unfold dispatchEntries; simp [hconc]
      obtain ⟨tgt2, hl2⟩ := lookupLast_isSome_of_mem _ _ _ hown
      have hmem2 := lookupLast_some_mem _ _ _ hl2
      rw [resolve, hl2]
      rcases mem_dispatchEntries hmem2 with ⟨_, _, rfl⟩ | ⟨y, hy, hmt2, rfl⟩
      · rfl
      · have hye : y = dd.name := hdesc dd hdd y hy hmt2
        subst hye
        exact absurd hy hokd.2.2.2.2.1

theorem classPlan_read {mm : MM} (hwf : mm.wf = true) {c d : Name} {cd dd : ClassDecl}
    (hc : mm.findClass c = some cd) (hd : mm.findClass d = some dd)
    (hrel : d = c ∨ d ∈ cd.concreteDescendants) (hconc : dd.abstract = false)
    (hdisp : mm.dispatchOkFor c = true) (ms : Members)
    (hmt : dd.withModelType = true → getLast ms modelTypeKey = some (.str (jsonModelType dd.name))) :
    classPlan mm c (.obj ms) = .read dd := by
  have hcd := findClass_some hc
  have hdd := findClass_some hd
  unfold classPlan
  rw [hc]
  simp only
  by_cases hempty : cd.concreteDescendants.isEmpty = true
  · rw [if_pos hempty]
    have hnil : cd.concreteDescendants = [] := by simpa using hempty
    have hdc : d = c := by
      rcases hrel with h | h
      · exact h
      · rw [hnil] at h; cases h
    subst hdc
    rw [hc] at hd
    cases hd
    exact leafPlan_read cd ms hconc hmt
  · rw [if_neg hempty]
    -- `dd` carries its model type
    have hw : dd.withModelType = true := by
      unfold MM.dispatchOkFor at hdisp
      rw [hc] at hdisp
      simp only [hempty, Bool.false_eq_true, Bool.false_or, Bool.and_eq_true, Bool.or_eq_true,
        List.all_eq_true] at hdisp
      rcases hrel with h | h
      · subst h
        rw [hc] at hd
        cases hd
        rcases hdisp.1 with ha | hw
        · rw [hconc] at ha; cases ha
        · exact hw
      · have := hdisp.2 d h
        rw [hd] at this
        exact this
    rw [hmt hw]
    simp only
    have hfd : mm.findClass dd.name = some dd := by rw [hdd.2]; exact hd
    have hrel' : dd.name = cd.name ∨ dd.name ∈ cd.concreteDescendants := by
      rw [hdd.2, hcd.2]; exact hrel
    rcases resolve_target hwf hcd.1 hdd.1 hfd hrel' hconc mm.classes.length with hr | hr
    · rw [hr]
    · rw [hr]
      simp only
      exact leafPlan_read dd ms hconc hmt

end AasVerif.Sdk
