import AasVerif.Lemmas.Fix16Units
import AasVerif.Lemmas.RetreeSem
/-!
The heart of C17: the uniates emitted for one astral range accept exactly the surrogate pairs
of the code points of the range.
-/
namespace AasVerif.Fix16
open AasVerif.Retree

/-- Acceptance of one code unit by an unquantified character / character-set term. -/
def termAcc : Term → Nat → Bool
  | .mk (.char c) none, x => x == c.code
  | .mk (.set compl rs) none, x => setAccepts compl rs x
  | _, _ => false

def isUnit : Term → Bool
  | .mk (.char _) none => true
  | .mk (.set _ _) none => true
  | _ => false

theorem MTerm_unit_iff {t : Term} {pre s post : Text} (h : isUnit t = true) :
    MTerm t pre s post ↔ ∃ x, s = [x] ∧ termAcc t x = true := by
  match t, h with
  | .mk (.char c) none, _ =>
    simp only [MTerm_plain_iff, MValue_char_iff, termAcc, beq_iff_eq]
    constructor
    · rintro rfl; exact ⟨_, rfl, rfl⟩
    · rintro ⟨x, rfl, rfl⟩; rfl
  | .mk (.set compl rs) none, _ =>
    simp only [MTerm_plain_iff, MValue_set_iff, termAcc]

/-- A concatenation of exactly two unit terms. -/
def isPair : Concat → Bool
  | .mk [t1, t2] => isUnit t1 && isUnit t2
  | _ => false

def concatAcc2 : Concat → Nat → Nat → Bool
  | .mk [t1, t2], x, y => termAcc t1 x && termAcc t2 y
  | _, _, _ => false

theorem MTerms_pair_iff {ts : List Term} {pre u post : Text} (h : isPair (.mk ts) = true) :
    MTerms ts pre u post ↔ ∃ x y, u = [x, y] ∧ concatAcc2 (.mk ts) x y = true := by
  match ts, h with
  | [t1, t2], h =>
    simp only [isPair, Bool.and_eq_true] at h
    simp only [MTerms_cons_iff, MTerms_nil_iff, MTerm_unit_iff h.1, MTerm_unit_iff h.2,
      concatAcc2, Bool.and_eq_true]
    constructor
    · rintro ⟨s₁, s₂, rfl, ⟨x, rfl, hx⟩, s₃, s₄, rfl, ⟨y, rfl, hy⟩, rfl⟩
      exact ⟨x, y, rfl, hx, hy⟩
    · rintro ⟨x, y, rfl, hx, hy⟩
      exact ⟨[x], [y], rfl, ⟨x, rfl, hx⟩, [y], [], rfl, ⟨y, rfl, hy⟩, rfl⟩

theorem pieces_match_iff {ps : List Concat} {pre u post : Text}
    (h : ∀ c ∈ ps, isPair c = true) :
    (∃ ts, Concat.mk ts ∈ ps ∧ MTerms ts pre u post) ↔
      ∃ x y, u = [x, y] ∧ ps.any (concatAcc2 · x y) = true := by
  constructor
  · rintro ⟨ts, hm, ht⟩
    obtain ⟨x, y, rfl, hacc⟩ := (MTerms_pair_iff (h _ hm)).mp ht
    exact ⟨x, y, rfl, List.any_eq_true.mpr ⟨_, hm, hacc⟩⟩
  · rintro ⟨x, y, rfl, hany⟩
    obtain ⟨c, hm, hacc⟩ := List.any_eq_true.mp hany
    cases c with | mk ts =>
    exact ⟨ts, hm, (MTerms_pair_iff (h _ hm)).mpr ⟨x, y, rfl, hacc⟩⟩

/-! ### Shapes -/

theorem isPair_charChar (h l : Nat) : isPair (charChar h l) = true := rfl
theorem isPair_charSet (h a b : Nat) : isPair (charSet h a b) = true := rfl
theorem isPair_setSet (a b c d : Nat) : isPair (setSet a b c d) = true := rfl

theorem acc_charChar (h l x y : Nat) :
    concatAcc2 (charChar h l) x y = true ↔ x = h ∧ y = l := by
  simp [concatAcc2, charChar, ch, termAcc]

theorem acc_charSet (h a b x y : Nat) :
    concatAcc2 (charSet h a b) x y = true ↔ x = h ∧ a ≤ y ∧ y ≤ b := by
  simp [concatAcc2, charSet, ch, st, termAcc, setAccepts, Rng.contains]

theorem acc_setSet (a b c d x y : Nat) :
    concatAcc2 (setSet a b c d) x y = true ↔ (a ≤ x ∧ x ≤ b) ∧ c ≤ y ∧ y ≤ d := by
  simp [concatAcc2, setSet, st, termAcc, setAccepts, Rng.contains]

theorem splitPieces_isPair (hs ls he le : Nat) : ∀ c ∈ splitPieces hs ls he le, isPair c = true := by
  intro c hc
  unfold splitPieces at hc
  split at hc
  · simp at hc; subst hc; rfl
  · split at hc
    · split at hc <;> simp at hc <;> rcases hc with rfl | rfl | rfl <;> rfl
    · simp at hc; rcases hc with rfl | rfl <;> rfl

/-- The pairs of code units accepted by the uniates of `splitPieces`, in closed form
(lexicographic interval on `(high, low)`). -/
theorem splitPieces_acc {hs ls he le x y : Nat} (hle : hs ≤ he) :
    (splitPieces hs ls he le).any (concatAcc2 · x y) = true ↔
      (if hs = he then x = hs ∧ ls ≤ y ∧ y ≤ le
       else (x = hs ∧ ls ≤ y ∧ y ≤ 57343) ∨ (hs < x ∧ x < he ∧ 56320 ≤ y ∧ y ≤ 57343) ∨
            (x = he ∧ 56320 ≤ y ∧ y ≤ le)) := by
  unfold splitPieces
  split
  · simp [acc_charSet]
  · next hne =>
    split
    · split
      · simp only [List.cons_append, List.nil_append, List.any_cons, List.any_nil, Bool.or_false,
          Bool.or_eq_true, acc_charSet]
        constructor
        · rintro (h | h | h)
          · exact .inl h
          · exact .inr (.inl ⟨by omega, by omega, h.2⟩)
          · exact .inr (.inr h)
        · rintro (h | h | h)
          · exact .inl h
          · exact .inr (.inl ⟨by omega, h.2.2⟩)
          · exact .inr (.inr h)
      · simp only [List.cons_append, List.nil_append, List.any_cons, List.any_nil, Bool.or_false,
          Bool.or_eq_true, acc_charSet, acc_setSet]
        constructor
        · rintro (h | h | h)
          · exact .inl h
          · exact .inr (.inl ⟨by omega, by omega, h.2⟩)
          · exact .inr (.inr h)
        · rintro (h | h | h)
          · exact .inl h
          · exact .inr (.inl ⟨⟨by omega, by omega⟩, h.2.2⟩)
          · exact .inr (.inr h)
    · simp only [List.cons_append, List.nil_append, List.any_cons, List.any_nil, Bool.or_false,
        Bool.or_eq_true, acc_charSet]
      constructor
      · rintro (h | h)
        · exact .inl h
        · exact .inr (.inr h)
      · rintro (h | h | h)
        · exact .inl h
        · omega
        · exact .inr h

/-- The code point of a surrogate pair. -/
def combine (x y : Nat) : Nat := (x - 55296) * 1024 + (y - 56320) + 65536

theorem surrogates_combine {x y : Nat} (hx : 55296 ≤ x ∧ x ≤ 56319) (hy : 56320 ≤ y ∧ y ≤ 57343) :
    surrogates (combine x y) = (x, y) ∧ 65536 ≤ combine x y ∧ combine x y ≤ 1114111 := by
  refine ⟨Prod.ext ?_ ?_, ?_, ?_⟩ <;> simp only [surrogates_fst, surrogates_snd, combine] <;> omega

theorem combine_surrogates {c : Nat} (h1 : 65536 ≤ c) :
    combine (surrogates c).1 (surrogates c).2 = c := by
  simp only [surrogates_fst, surrogates_snd, combine]; omega

theorem rangePieces_isPair {r : Rng} {pcs : List Concat} (h : rangePieces r = .ok pcs) :
    ∀ c ∈ pcs, isPair c = true := by
  unfold rangePieces at h
  split at h
  · cases h
  · split at h
    · cases h; intro c hc; simp at hc; subst hc; rfl
    · split at h
      · cases h; intro c hc; simp at hc; subst hc; rfl
      · split at h
        · cases h
        · split at h
          · cases h
          · cases h; exact splitPieces_isPair _ _ _ _

theorem contains_none {r : Rng} {c : Nat} (h : r.stop = none) :
    r.contains c = true ↔ c = r.start.code := by
  simp [Rng.contains, h]

theorem contains_some {r : Rng} {e : Chr} {c : Nat} (h : r.stop = some e) :
    r.contains c = true ↔ r.start.code ≤ c ∧ c ≤ e.code := by
  simp [Rng.contains, h]

/-- `range_split`, arithmetic form: the uniates emitted for the range `r` accept the pair
`(x, y)` of code units iff it is the surrogate pair of a code point of `r`. -/
theorem rangePieces_acc {r : Rng} {pcs : List Concat} (h : rangePieces r = .ok pcs) (x y : Nat) :
    pcs.any (concatAcc2 · x y) = true ↔
      (55296 ≤ x ∧ x ≤ 56319) ∧ (56320 ≤ y ∧ y ≤ 57343) ∧ r.contains (combine x y) = true := by
  unfold rangePieces at h
  split at h
  · cases h
  · next hs ls hcs =>
    obtain ⟨ha1, ha2, hsp⟩ := convert_ok_iff.mp hcs
    have hs1 := surrogates_fst r.start.code
    have hs2 := surrogates_snd r.start.code
    rw [← hsp] at hs1 hs2
    simp only at hs1 hs2
    split at h
    · next hstop =>
      cases h
      simp only [List.any_cons, List.any_nil, Bool.or_false, acc_charChar, contains_none hstop,
        combine]
      omega
    · next e hstop =>
      split at h
      · next heq =>
        cases h
        simp only [List.any_cons, List.any_nil, Bool.or_false, acc_charChar, contains_some hstop,
          combine]
        omega
      · next hne =>
        split at h
        · cases h
        · next hlt =>
          split at h
          · cases h
          · next he le hce =>
            obtain ⟨hb1, hb2, hep⟩ := convert_ok_iff.mp hce
            have he1 := surrogates_fst e.code
            have he2 := surrogates_snd e.code
            rw [← hep] at he1 he2
            simp only at he1 he2
            cases h
            rw [splitPieces_acc (by omega)]
            simp only [contains_some hstop, combine]
            split <;> omega

end AasVerif.Fix16
