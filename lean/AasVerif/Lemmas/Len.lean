import AasVerif.Model.Len
/-! Helper lemmas about `Len.reduce` / `Len.merge` (core Lean only). -/
namespace AasVerif.Len

theorem finalErrs_eq_nil_iff (a : Acc) :
    finalErrs a = [] ↔
      a.errs = [] ∧
      (∀ e lo, a.exactLen = some e → a.minLen = some lo → lo ≤ e) ∧
      (∀ e hi, a.exactLen = some e → a.maxLen = some hi → e ≤ hi) ∧
      (∀ lo hi, a.minLen = some lo → a.maxLen = some hi → lo ≤ hi) ∧
      (∀ e, a.exactLen = some e → 0 ≤ e) ∧
      (∀ hi, a.maxLen = some hi → 0 ≤ hi) := by
  rcases a with ⟨_ | lo, _ | hi, _ | e, errs⟩ <;>
    simp only [finalErrs, List.append_eq_nil_iff, List.append_nil] <;>
    constructor <;> intro h
  all_goals first
    | (refine ⟨?_, ?_, ?_, ?_, ?_, ?_⟩ <;> intros <;> simp_all <;> omega)
    | (simp_all <;> omega)


theorem step_minLen (a : Acc) (b : Bound) (n : Int) :
    (∀ lo, (step a b).minLen = some lo → lo ≤ n) ↔
      (∀ lo, a.minLen = some lo → lo ≤ n) ∧ ∀ v, b = Bound.min v → v ≤ n := by
  cases b with
  | min v =>
    cases hm : a.minLen with
    | none => simp [step, maxWithNone, hm]
    | some m =>
      simp only [step, maxWithNone, hm, Option.some.injEq, forall_eq', Bound.min.injEq]
      omega
  | max v => simp [step]
  | exact v => simp [step]

theorem step_maxLen (a : Acc) (b : Bound) (n : Int) :
    (∀ hi, (step a b).maxLen = some hi → n ≤ hi) ↔
      (∀ hi, a.maxLen = some hi → n ≤ hi) ∧ ∀ v, b = Bound.max v → n ≤ v := by
  cases b with
  | max v =>
    cases hm : a.maxLen with
    | none => simp [step, minWithNone, hm]
    | some m =>
      simp only [step, minWithNone, hm, Option.some.injEq, forall_eq', Bound.max.injEq]
      omega
  | min v => simp [step]
  | exact v => simp [step]

/-- lower bounds collected by the loop -/
theorem foldl_minLen (bs : List Bound) (a : Acc) (n : Int) :
    (∀ lo, (bs.foldl step a).minLen = some lo → lo ≤ n) ↔
      (∀ lo, a.minLen = some lo → lo ≤ n) ∧ ∀ v, Bound.min v ∈ bs → v ≤ n := by
  induction bs generalizing a with
  | nil => simp
  | cons b bs ih =>
    rw [List.foldl_cons, ih, step_minLen]
    constructor
    · rintro ⟨⟨h1, h2⟩, h3⟩
      refine ⟨h1, ?_⟩
      intro v hv
      rcases List.mem_cons.mp hv with h | h
      · exact h2 v h.symm
      · exact h3 v h
    · rintro ⟨h1, h2⟩
      refine ⟨⟨h1, ?_⟩, ?_⟩
      · intro v hv
        exact h2 v (by rw [hv]; exact List.mem_cons_self)
      · intro v hv
        exact h2 v (List.mem_cons_of_mem _ hv)

/-- upper bounds collected by the loop -/
theorem foldl_maxLen (bs : List Bound) (a : Acc) (n : Int) :
    (∀ hi, (bs.foldl step a).maxLen = some hi → n ≤ hi) ↔
      (∀ hi, a.maxLen = some hi → n ≤ hi) ∧ ∀ v, Bound.max v ∈ bs → n ≤ v := by
  induction bs generalizing a with
  | nil => simp
  | cons b bs ih =>
    rw [List.foldl_cons, ih, step_maxLen]
    constructor
    · rintro ⟨⟨h1, h2⟩, h3⟩
      refine ⟨h1, ?_⟩
      intro v hv
      rcases List.mem_cons.mp hv with h | h
      · exact h2 v h.symm
      · exact h3 v h
    · rintro ⟨h1, h2⟩
      refine ⟨⟨h1, ?_⟩, ?_⟩
      · intro v hv
        exact h2 v (by rw [hv]; exact List.mem_cons_self)
      · intro v hv
        exact h2 v (List.mem_cons_of_mem _ hv)

/-- What the loop knows about the exact lengths: the last one is kept, and no error has been
recorded iff all of them (and the one already held) are equal. -/
theorem foldl_exact (bs : List Bound) (a : Acc) :
    match (bs.foldl step a).exactLen with
    | none => a.exactLen = none ∧ (∀ v, Bound.exact v ∉ bs) ∧ (bs.foldl step a).errs = a.errs
    | some e =>
      (a.exactLen = some e ∨ Bound.exact e ∈ bs) ∧
      ((bs.foldl step a).errs = [] ↔
        a.errs = [] ∧ (∀ e0, a.exactLen = some e0 → e0 = e) ∧ ∀ v, Bound.exact v ∈ bs → v = e) := by
  induction bs generalizing a with
  | nil =>
    simp only [List.foldl_nil]
    cases h : a.exactLen with
    | none => simp
    | some e => simp
  | cons b bs ih =>
    rw [List.foldl_cons]
    have ih' := ih (step a b)
    cases b with
    | min v =>
      have h1 : (step a (.min v)).exactLen = a.exactLen := rfl
      have h2 : (step a (.min v)).errs = a.errs := rfl
      rw [h1, h2] at ih'
      split <;> rename_i hA <;> rw [hA] at ih' <;> simp only at ih'
      · exact ⟨ih'.1, by intro v' hv'; rcases List.mem_cons.mp hv' with h | h; exact Bound.noConfusion h; exact ih'.2.1 v' h, ih'.2.2⟩
      · refine ⟨?_, ?_⟩
        · rcases ih'.1 with h | h
          · exact Or.inl h
          · exact Or.inr (List.mem_cons_of_mem _ h)
        · rw [ih'.2]
          simp [List.mem_cons]
    | max v =>
      have h1 : (step a (.max v)).exactLen = a.exactLen := rfl
      have h2 : (step a (.max v)).errs = a.errs := rfl
      rw [h1, h2] at ih'
      split <;> rename_i hA <;> rw [hA] at ih' <;> simp only at ih'
      · exact ⟨ih'.1, by intro v' hv'; rcases List.mem_cons.mp hv' with h | h; exact Bound.noConfusion h; exact ih'.2.1 v' h, ih'.2.2⟩
      · refine ⟨?_, ?_⟩
        · rcases ih'.1 with h | h
          · exact Or.inl h
          · exact Or.inr (List.mem_cons_of_mem _ h)
        · rw [ih'.2]
          simp [List.mem_cons]
    | exact v =>
      have h1 : (step a (.exact v)).exactLen = some v := rfl
      rw [h1] at ih'
      split <;> rename_i hA <;> rw [hA] at ih' <;> simp only at ih'
      · exact absurd ih'.1 (by simp)
      · rename_i e
        refine ⟨?_, ?_⟩
        · rcases ih'.1 with h | h
          · right; simp only [Option.some.injEq] at h; rw [h]; exact List.mem_cons_self
          · exact Or.inr (List.mem_cons_of_mem _ h)
        · rw [ih'.2]
          cases hx : a.exactLen with
          | none =>
            simp only [step, hx, Option.some.injEq, forall_eq', List.mem_cons, Bound.exact.injEq]
            constructor
            · rintro ⟨h1, h2, h3⟩
              refine ⟨h1, ?_, ?_⟩
              · intro e0 he0; cases he0
              · intro w hw
                rcases hw with hw | hw
                · rw [hw]; exact h2
                · exact h3 w hw
            · rintro ⟨h1, _, h3⟩
              exact ⟨h1, h3 v (Or.inl rfl), fun w hw => h3 w (Or.inr hw)⟩
          | some e0 =>
            simp only [step, hx, Option.some.injEq, forall_eq', List.mem_cons, Bound.exact.injEq]
            constructor
            · rintro ⟨h1, h2, h3⟩
              by_cases hne : e0 = v
              · simp only [hne, ne_eq, not_true_eq_false, ↓reduceIte] at h1
                refine ⟨h1, ?_, ?_⟩
                · rw [hne]; exact h2
                · intro w hw
                  rcases hw with hw | hw
                  · rw [hw]; exact h2
                  · exact h3 w hw
              · simp [hne] at h1
            · rintro ⟨h1, h2, h3⟩
              have hv : v = e := h3 v (Or.inl rfl)
              have : e0 = v := by rw [h2, hv]
              refine ⟨by simp [this, h1], hv, fun w hw => h3 w (Or.inr hw)⟩


theorem holds_all_iff (bs : List Bound) (n : Nat) :
    (∀ b ∈ bs, b.holds n) ↔
      (∀ v, Bound.min v ∈ bs → v ≤ (n : Int)) ∧ (∀ v, Bound.max v ∈ bs → (n : Int) ≤ v) ∧
      (∀ v, Bound.exact v ∈ bs → (n : Int) = v) := by
  constructor
  · intro h
    exact ⟨fun v hv => h _ hv, fun v hv => h _ hv, fun v hv => h _ hv⟩
  · rintro ⟨h1, h2, h3⟩ b hb
    cases b with
    | min v => exact h1 v hb
    | max v => exact h2 v hb
    | exact v => exact h3 v hb

/-- With the pre-condition extracted from the current source (`Gen.Len.minLower`, `minLowerStrict`),
well-formed bounds can be constructed. -/
theorem mkLenC_ok (lo hi : Option Int)
    (h : ∀ l u, lo = some l → hi = some u → 0 ≤ l ∧ l ≤ u) : mkLenC lo hi = .ok ⟨lo, hi⟩ := by
  unfold mkLenC preOK
  cases lo with
  | none => simp
  | some l =>
    cases hi with
    | none => simp
    | some u =>
      have := h l u rfl rfl
      simp [Gen.Len.minLower, Gen.Len.minLowerStrict, this.1, this.2]

/-- The complete behaviour of `_reduce_constraints`. -/
theorem reduce_cases (bs : List Bound) :
    (∃ m, reduce bs = .err m ∧ ¬ ∃ n : Nat, ∀ b ∈ bs, b.holds n) ∨
    (∃ c, reduce bs = .ok c ∧ (∀ n : Nat, c.admits n ↔ ∀ b ∈ bs, b.holds n) ∧
      (∃ n : Nat, ∀ b ∈ bs, b.holds n) ∧ c.WF) := by
  have hmin := fun n => foldl_minLen bs {} n
  have hmax := fun n => foldl_maxLen bs {} n
  have hex := foldl_exact bs {}
  simp only [reduceCtorEq, false_implies, implies_true, true_and, false_or] at hmin hmax hex
  unfold reduce finish
  generalize bs.foldl step {} = A at hmin hmax hex
  by_cases hE : finalErrs A = []
  · right
    have hE' := (finalErrs_eq_nil_iff A).mp hE
    obtain ⟨herrs, hminE, hmaxE, hminmax, hEpos, hHipos⟩ := hE'
    simp only [hE, ne_eq, not_true_eq_false, ↓reduceIte]
    cases hx : A.exactLen with
    | some e =>
      rw [hx] at hex
      simp only at hex
      obtain ⟨hmem, herr⟩ := hex
      have hall := (herr.mp herrs)
      have he0 : 0 ≤ e := hEpos e hx
      have hclip : clipMin (some e) = some e := by simp [clipMin]; omega
      dsimp only
      rw [hclip, mkLenC_ok (some e) (some e) (by intro l u hl hu; cases hl; cases hu; omega)]
      have key : ∀ n : Nat, (∀ b ∈ bs, b.holds n) ↔ (n : Int) = e := by
        intro n
        rw [holds_all_iff]
        constructor
        · rintro ⟨_, _, h3⟩
          exact h3 e hmem
        · intro hn
          refine ⟨?_, ?_, ?_⟩
          · have := (hmin n).mp (by intro lo hlo; have := hminE e lo hx hlo; omega)
            exact this
          · have := (hmax n).mp (by intro hi hhi; have := hmaxE e hi hx hhi; omega)
            exact this
          · intro v hv
            rw [hall v hv]; exact hn
      refine ⟨_, rfl, ?_, ?_, ?_⟩
      · intro n
        rw [key]
        simp only [LenC.admits, Option.some.injEq, forall_eq']
        omega
      · exact ⟨e.toNat, (key e.toNat).mpr (by omega)⟩
      · exact ⟨(by intro lo h; cases h; exact he0), (by intro hi h; cases h; exact he0),
          (by intro lo hi h1 h2; cases h1; cases h2; omega)⟩
    | none =>
      rw [hx] at hex
      simp only at hex
      obtain ⟨hnoex, _⟩ := hex
      have key : ∀ n : Nat, (∀ b ∈ bs, b.holds n) ↔
          (∀ lo, A.minLen = some lo → lo ≤ (n : Int)) ∧ (∀ hi, A.maxLen = some hi → (n : Int) ≤ hi) := by
        intro n
        rw [holds_all_iff, hmin n, hmax n]
        constructor
        · rintro ⟨h1, h2, _⟩; exact ⟨h1, h2⟩
        · rintro ⟨h1, h2⟩; exact ⟨h1, h2, fun v hv => absurd hv (hnoex v)⟩
      have hpre : ∀ l u, clipMin A.minLen = some l → A.maxLen = some u → 0 ≤ l ∧ l ≤ u := by
        intro l u hl hu
        cases hm : A.minLen with
        | none => rw [hm] at hl; simp [clipMin] at hl
        | some lo =>
          rw [hm] at hl
          have h1 := hminmax lo u hm hu
          have h2 := hHipos u hu
          simp only [clipMin] at hl
          split at hl <;> cases hl <;> omega
      dsimp only
      rw [mkLenC_ok _ _ hpre]
      refine ⟨_, rfl, ?_, ?_, ?_⟩
      · intro n
        rw [key]
        simp only [LenC.admits]
        cases hm : A.minLen with
        | none => simp [clipMin]
        | some lo =>
          simp only [clipMin, Option.some.injEq, forall_eq']
          split <;> simp only [Option.some.injEq, forall_eq'] <;> constructor <;> rintro ⟨h1, h2⟩ <;>
            exact ⟨by omega, h2⟩
      · cases hm : A.minLen with
        | none =>
          refine ⟨0, (key 0).mpr ⟨(by intro lo h; rw [hm] at h; cases h), ?_⟩⟩
          intro hi hhi
          have := hHipos hi hhi
          omega
        | some lo =>
          refine ⟨lo.toNat, (key lo.toNat).mpr ⟨(by intro l h; rw [hm] at h; cases h; omega), ?_⟩⟩
          intro hi hhi
          have h1 := hHipos hi hhi
          have h2 := hminmax lo hi hm hhi
          omega
      · refine ⟨?_, ?_, ?_⟩
        · intro lo h
          cases hm : A.minLen with
          | none => rw [hm] at h; simp [clipMin] at h
          | some l =>
            rw [hm] at h
            simp only [clipMin] at h
            split at h <;> cases h <;> omega
        · exact hHipos
        · intro lo hi h1 h2
          exact (hpre lo hi h1 h2).2
  · left
    simp only [hE, ne_eq, not_false_eq_true, ↓reduceIte]
    refine ⟨_, rfl, ?_⟩
    rintro ⟨n, hn⟩
    apply hE
    rw [holds_all_iff] at hn
    obtain ⟨h1, h2, h3⟩ := hn
    have hlo := (hmin n).mpr h1
    have hhi := (hmax n).mpr h2
    rw [finalErrs_eq_nil_iff]
    cases hx : A.exactLen with
    | none =>
      rw [hx] at hex
      simp only at hex
      refine ⟨hex.2, ?_, ?_, ?_, ?_, ?_⟩
      · intro e lo h; cases h
      · intro e hi h; cases h
      · intro lo hi hl hh
        have := hlo lo hl; have := hhi hi hh; omega
      · intro e h; cases h
      · intro hi hh
        have := hhi hi hh; omega
    | some e =>
      rw [hx] at hex
      simp only at hex
      obtain ⟨hmem, herr⟩ := hex
      have hne : (n : Int) = e := h3 e hmem
      refine ⟨herr.mpr (fun v hv => by rw [← h3 v hv, hne]), ?_, ?_, ?_, ?_, ?_⟩
      · intro e' lo he' hl
        cases he'
        have := hlo lo hl; omega
      · intro e' hi he' hh
        cases he'
        have := hhi hi hh; omega
      · intro lo hi hl hh
        have := hlo lo hl; have := hhi hi hh; omega
      · intro e' he'; cases he'; omega
      · intro hi hh
        have := hhi hi hh; omega

end AasVerif.Len
