import AasVerif.Model.Revm

/-! # The published `Match` loop diverges on `^(a*)*b$` / "aab"

`Pop()` resets the `has_` bit, so the ε-cycle `0 → 1 → 4 → 0` of the program is re-entered forever.

Trace of the first inner loop (character `a`), `(clist.items, clist.has on 0..7, nlist.items)`,
obtained with `traceList` below:

```
([0],       [T,F,F,F,F,F,F,F], [])
([5, 1],    [F,T,F,F,F,T,F,F], [])
([1],       [F,T,F,F,F,F,F,F], [])
([4, 2],    [F,F,T,F,T,F,F,F], [])   -- recurring state, first reached after 3 pops
([0, 2],    [T,F,T,F,F,F,F,F], [])
([5, 1, 2], [F,T,T,F,F,T,F,F], [])
([1, 2],    [F,T,T,F,F,F,F,F], [])
([4, 2],    [F,F,T,F,T,F,F,F], [])   -- period 4
```

Thread 2 (`char 'a'`) is never popped, so `nlist` stays empty. -/

namespace AasVerif.Revm

/-- `translate` of `^(a*)*b$`: 0: split 1,5; 1: split 2,4; 2: char 'a'; 3: jump 1; 4: jump 0; 5: char 'b'; 6: end; 7: match -/
def progStarStar : Program := [.split 1 5, .split 2 4, .char 97, .jump 1, .jump 0, .char 98, .atEnd, .matched]

namespace Diverge

/-- Debug trace: the successive `(clist.items, clist.has on 0..7, nlist.items)` of one inner loop. -/
def traceList (clr : Bool) (p : Program) (c : Option Nat) :
    Nat → ThreadList → ThreadList → List (List Nat × List Bool × List Nat)
  | 0, _, _ => []
  | fuel + 1, cl, nl =>
    (cl.items, (List.range 8).map cl.has, nl.items) ::
    match cl.items with
    | [] => []
    | pc :: rest =>
      match stepThread p c (popped clr cl pc rest) nl pc with
      | .ret _ => []
      | .cont cl' nl' => traceList clr p c fuel cl' nl'

-- #eval traceList true progStarStar (some 97) 12 ⟨setBit (fun _ => false) 0 true, [0]⟩ ThreadList.empty

/-- One unfolding of the loop as published (`clr = true`). -/
theorem runList_cons (p : Program) (c : Option Nat) (fuel : Nat) (h : Nat → Bool) (pc : Nat)
    (rest : List Nat) (nl : ThreadList) :
    runList true p c (fuel + 1) ⟨h, pc :: rest⟩ nl =
      match stepThread p c ⟨setBit h pc false, rest⟩ nl pc with
      | .ret o => some (.returned o)
      | .cont cl' nl' => runList true p c fuel cl' nl' := by
  rfl

/-- The recurring state: `items = [4, 2]`, bits 0, 1, 5 clear, bit 2 set (any `nlist`).
Period 4: pops 4, 0, 5, 1 lead back to a state of the same shape. -/
theorem runList_cycle (nl : ThreadList) :
    ∀ fuel (h : Nat → Bool), h 0 = false → h 1 = false → h 2 = true → h 5 = false →
      runList true progStarStar (some 97) fuel ⟨h, [4, 2]⟩ nl = none := by
  intro fuel
  induction fuel using Nat.strongRecOn with
  | _ fuel ih =>
    intro h h0 h1 h2 h5
    -- pop 4: jump 0
    cases fuel with
    | zero => rfl
    | succ f1 =>
    rw [runList_cons]
    simp [stepThread, progStarStar, spawnC, ThreadList.spawn, setBit, h0]
    -- pop 0: split 1 5
    cases f1 with
    | zero => rfl
    | succ f2 =>
    rw [runList_cons]
    simp [stepThread, spawnC, ThreadList.spawn, setBit, h1, h5]
    -- pop 5: char 98 ≠ 97
    cases f2 with
    | zero => rfl
    | succ f3 =>
    rw [runList_cons]
    simp [stepThread]
    -- pop 1: split 2 4 (2 is still on the list, 4 was reset by its pop)
    cases f3 with
    | zero => rfl
    | succ f4 =>
    rw [runList_cons]
    simp [stepThread, spawnC, ThreadList.spawn, setBit, h2]
    apply ih f4 (by omega)
    all_goals simp [setBit, *]

/-- The first inner loop (character `a`) from the initial state never finishes: after three pops
(0, 5, 1) it is in the recurring state of `runList_cycle`. -/
theorem runList_first_diverges (fuel : Nat) :
    runList true progStarStar (some 97) fuel ⟨setBit (fun _ => false) 0 true, [0]⟩ ThreadList.empty
      = none := by
  -- pop 0: split 1 5
  cases fuel with
  | zero => rfl
  | succ f1 =>
  rw [runList_cons]
  simp [stepThread, progStarStar, spawnC, ThreadList.spawn, setBit]
  -- pop 5: char 98 ≠ 97
  cases f1 with
  | zero => rfl
  | succ f2 =>
  rw [runList_cons]
  simp [stepThread]
  -- pop 1: split 2 4
  cases f2 with
  | zero => rfl
  | succ f3 =>
  rw [runList_cons]
  simp [stepThread, spawnC, ThreadList.spawn, setBit]
  apply runList_cycle
  all_goals simp [setBit]

end Diverge

open Diverge

theorem runCpp_diverges_example : ∀ fuel, runCpp true fuel progStarStar [97, 97, 98] = none := by
  intro fuel
  have h := runList_first_diverges fuel
  simp only [runCpp, runText, ThreadList.spawn, ThreadList.empty] at h ⊢
  simp [progStarStar, targetsValid] at h ⊢
  simp [h]

/-- The fixed loop (`Pop` keeps the `has_` bit) accepts. -/
example : runCpp false 9 progStarStar [97, 97, 98] = some (.ret true) := by decide

#print axioms runCpp_diverges_example

end AasVerif.Revm
