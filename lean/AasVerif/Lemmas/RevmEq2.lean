import AasVerif.Lemmas.RevmEq1
/-!
Label resolution for the loops of `_Translator` (`repeatEm`, `optionalEm`) and for
`transformQuantified`, abstractly over the translation `f` of the quantified value.
-/
namespace AasVerif.Revm

@[simp] theorem em_pure {α} (a : α) (n : Nat) : (pure a : Em α) n = .ok (a, n) := rfl
@[simp] theorem em_bind {α β} (m : Em α) (f : α → Em β) (n : Nat) :
    (m >>= f) n = match m n with | .ok (a, n') => f a n' | .crash s => .crash s := rfl
@[simp] theorem fresh_apply (n : Nat) : fresh n = .ok (n, n + 1) := rfl
@[simp] theorem em_fail {α} (s : String) (n : Nat) : (Em.fail s : Em α) n = .crash s := rfl

@[simp] theorem linearize_lf (i : Instr) (lab : Option Nat) : linearize (lf i lab) = [⟨i, lab⟩] := by
  simp [lf, linearize]
@[simp] theorem linearize_node (cs : List Tree) : linearize (.node cs) = linearizeList cs := by
  simp [linearize]
@[simp] theorem linearizeList_nil : linearizeList [] = [] := by simp [linearizeList]
@[simp] theorem linearizeList_cons (t : Tree) (ts : List Tree) :
    linearizeList (t :: ts) = linearize t ++ linearizeList ts := by simp [linearizeList]
@[simp] theorem linearizeList_append (a b : List Tree) :
    linearizeList (a ++ b) = linearizeList a ++ linearizeList b := by
  induction a with
  | nil => simp
  | cons x rest ih => simp [ih]

theorem Frag.cast {ls L code sz code' sz'} (h : Frag ls L code sz) (hc : ∀ b, code b = code' b)
    (hs : sz = sz') : Frag ls L code' sz' := by
  subst hs
  exact ⟨h.labs, h.closed, h.count, fun b ρ hg => (h.code b ρ hg).trans (hc b)⟩

theorem Good.mid' {ρ base} {whole pre mid post : List Leaf} (h : Good ρ base whole)
    (he : whole = pre ++ mid ++ post) (hd : ∀ l ∈ labelsOf mid, l ∉ labelsOf pre) :
    Good ρ (base + countReal pre) mid := by
  subst he
  exact h.mid hd

/-- What the label-resolution proof needs to know about the translation of a sub-expression. -/
def BodySpec (f : Em Tree) (code : Nat → Program) (sz : Nat) : Prop :=
  ∀ n, ∃ t n', f n = .ok (t, n') ∧ n ≤ n' ∧ Frag (linearize t) (InRange n n') code sz

def ListSpec (f : Em (List Tree)) (code : Nat → Program) (sz : Nat) : Prop :=
  ∀ n, ∃ ts n', f n = .ok (ts, n') ∧ n ≤ n' ∧ Frag (linearizeList ts) (InRange n n') code sz

theorem InRange.disjoint {a b c : Nat} : ∀ l, InRange a b l → InRange b c l → False := by
  intro l h1 h2
  unfold InRange at *
  omega

theorem Frag.seq {a b : List Leaf} {n m k : Nat} {ca cb sa sb} (ha : Frag a (InRange n m) ca sa)
    (hb : Frag b (InRange m k) cb sb) (h1 : n ≤ m) (h2 : m ≤ k) :
    Frag (a ++ b) (InRange n k) (fun base => ca base ++ cb (base + sa)) (sa + sb) :=
  (Frag.append ha hb InRange.disjoint).weaken (by
    intro l h
    unfold InRange at *
    omega)

theorem repeat_spec {f code sz} (hf : BodySpec f code sz) (k : Nat) :
    ListSpec (repeatEm f k) (repAt code sz k) (k * sz) := by
  induction k with
  | zero =>
    intro n
    exact ⟨[], n, rfl, Nat.le_refl _, by simpa [repAt] using (Frag.nil (InRange n n))⟩
  | succ k ih =>
    intro n
    obtain ⟨t, n1, h1, hle1, hF1⟩ := hf n
    obtain ⟨ts, n2, h2, hle2, hF2⟩ := ih n1
    refine ⟨t :: ts, n2, ?_, by omega, ?_⟩
    · simp [repeatEm, h1, h2]
    · simp only [linearizeList_cons]
      exact (Frag.seq hF1 hF2 hle1 hle2).cast (fun b => by simp [repAt]) (by rw [Nat.succ_mul]; omega)

theorem real_noop (lab : Option Nat) : Leaf.real ⟨.noop, lab⟩ = false := rfl

/-- The `optional_count` loop, together with the no-op carrying `final` that follows it. -/
theorem optional_spec {f code sz} (hf : BodySpec f code sz) (k : Nat) :
    ∀ final n, final < n → ∃ ts n', optionalEm f final k n = .ok (ts, n') ∧ n ≤ n' ∧
      (∀ l ∈ labelsOf (linearizeList ts), InRange n n' l) ∧
      Frag (linearizeList ts ++ [⟨.noop, some final⟩]) (fun l => l = final ∨ InRange n n' l)
        (fun base => optAt code sz (base + k * (sz + 1)) k base) (k * (sz + 1)) := by
  induction k with
  | zero =>
    intro final n _
    refine ⟨[], n, rfl, Nat.le_refl _, by simp, ?_⟩
    refine ⟨?_, ?_, ?_, ?_⟩
    · simp [labelsOf]
    · simp [targetsOf, Instr.targets]
    · simp [countReal, Leaf.real, Instr.isNoop]
    · intro base ρ _
      simp [strip, Leaf.real, Instr.isNoop, optAt]
  | succ k ih =>
    intro final n hfin
    obtain ⟨t, n1, h1, hle1, hF1⟩ := hf (n + 1)
    obtain ⟨ts, n2, h2, hle2, hlab2, hF2⟩ := ih final n1 (by omega)
    refine ⟨lf (.split n final) :: lf .noop (some n) :: t :: ts, n2, ?_, by omega, ?_, ?_⟩
    · simp [optionalEm, h1, h2]
    · intro l hl
      simp [labelsOf] at hl
      rcases hl with h | h | h
      · subst h; unfold InRange; omega
      · have := hF1.labs l h; unfold InRange at *; omega
      · have := hlab2 l h; unfold InRange at *; omega
    · have hfin_t : final ∉ labelsOf (linearize t) := fun h => by
        have := hF1.labs _ h; unfold InRange at this; omega
      have hfin_ts : final ∉ labelsOf (linearizeList ts) := fun h => by
        have := hlab2 _ h; unfold InRange at this; omega
      have hn_t : n ∉ labelsOf (linearize t) := fun h => by
        have := hF1.labs _ h; unfold InRange at this; omega
      refine ⟨?_, ?_, ?_, ?_⟩
      · intro l hl
        simp [labelsOf] at hl
        rcases hl with h | h | h | h
        · subst h; right; unfold InRange; omega
        · have := hF1.labs l h; right; unfold InRange at *; omega
        · have := hlab2 l h; right; unfold InRange at *; omega
        · left; exact h
      · intro x hx
        simp [targetsOf, Instr.targets] at hx
        simp [labelsOf]
        rcases hx with h | h | h | h
        · subst h; simp
        · subst h; simp
        · have := hF1.closed x h; simp [this]
        · have := hF2.closed x (by simp [targetsOf, Instr.targets, h])
          simp [labelsOf] at this
          rcases this with h' | h' <;> simp [h']
      · have c1 := hF1.count
        have c2 := hF2.count
        simp [countReal_cons, Leaf.real, Instr.isNoop] at c2 ⊢
        rw [c1, c2, Nat.succ_mul]; omega
      · intro base ρ hg
        have c1 := hF1.count
        have c2 := hF2.count
        have hwhole : (linearizeList (lf (.split n final) :: lf .noop (some n) :: t :: ts) ++ [⟨.noop, some final⟩] : List Leaf)
            = [⟨.split n final, none⟩, ⟨.noop, some n⟩] ++ linearize t ++ (linearizeList ts ++ [⟨.noop, some final⟩]) := by
          simp
        rw [hwhole] at hg ⊢
        have hρn : ρ n = base + 1 := by
          rw [hg n (by simp [labelsOf])]
          simp [pos, Leaf.real, Instr.isNoop]
        have hpos_tail : pos (linearizeList ts ++ [⟨.noop, some final⟩]) final = k * (sz + 1) := by
          rw [pos_append, if_neg hfin_ts]
          simp [pos]
          simpa [countReal_cons, Leaf.real, Instr.isNoop] using c2
        have hρf : ρ final = base + (k + 1) * (sz + 1) := by
          rw [hg final (by simp [labelsOf])]
          rw [pos_append, if_neg (by simp [labelsOf, hfin_t]; omega), hpos_tail]
          simp [countReal_cons, Leaf.real, Instr.isNoop, c1, Nat.succ_mul]
          omega
        have hg1 : Good ρ (base + 1) (linearize t) := by
          have := hg.mid' (pre := [⟨.split n final, none⟩, ⟨.noop, some n⟩]) (mid := linearize t)
            (post := linearizeList ts ++ [⟨.noop, some final⟩]) rfl (by
              intro l hl
              simp [labelsOf]
              intro h; subst h; exact hn_t hl)
          simpa [countReal_cons, Leaf.real, Instr.isNoop] using this
        have hg2 : Good ρ (base + 1 + sz) (linearizeList ts ++ [⟨.noop, some final⟩]) := by
          have := hg.mid' (pre := [⟨.split n final, none⟩, ⟨.noop, some n⟩] ++ linearize t)
            (mid := linearizeList ts ++ [⟨.noop, some final⟩]) (post := []) (by simp) (by
              intro l hl
              have hL := hF2.labs l hl
              simp [labelsOf]
              constructor
              · rcases hL with h | h
                · omega
                · unfold InRange at h; omega
              · intro h
                have := hF1.labs l h
                rcases hL with h' | h'
                · subst h'; exact hfin_t h
                · unfold InRange at *; omega)
          simpa [countReal_cons, Leaf.real, Instr.isNoop, c1, Nat.add_assoc] using this
        rw [strip_append, strip_append, hF1.code _ ρ hg1, hF2.code _ ρ hg2]
        simp [strip, Leaf.real, Instr.isNoop, Instr.mapT, hρn, hρf, optAt]
        have : base + 1 + sz + k * (sz + 1) = base + (k + 1) * (sz + 1) := by
          rw [Nat.succ_mul]; omega
        rw [this]

end AasVerif.Revm
