import AasVerif.Model.Expr.Eval
/-!
Where a non-`bool` result can come from: an expression built from comparisons, `in`,
`is (not) None`, `not`, `any`/`all`, `bool` constants with `and`/`or`/implication on top
(`boolForm`) evaluates to a `bool` whenever it evaluates to a value — whatever the operand types.
(The inferrer does not demand this shape: finding C07-F2.)
-/
namespace AasVerif.Expr

mutual
  /-- syntactically boolean: the top-level operators can only produce `bool`s -/
  def boolForm : Expr → Bool
    | .cmp .. | .isIn .. | .isNone .. | .isNotNone .. | .not .. | .any .. | .all .. => true
    | .const (.bool _) => true
    | .and es => boolFormAll es
    | .or es => boolFormAll es
    | .impl _ c => boolForm c
    | _ => false
  def boolFormAll : List Expr → Bool
    | [] => true
    | e :: es => boolForm e && boolFormAll es
end

/-- a value outcome is a `bool` -/
def IsBoolOut (o : Out) : Prop := ∀ v, o = .val v → ∃ b, v = .bool b

theorem isBoolOut_ofBool (b : Bool) : IsBoolOut (.ofBool b) := by
  intro v h; simp [Out.ofBool] at h; exact ⟨b, h.symm⟩

theorem isBoolOut_err {o : Out} (h : ∀ v, o ≠ .val v) : IsBoolOut o := fun v hv => absurd hv (h v)

mutual
theorem ord_bool (f : FloatOps) (op : Cmp) (hf : ∀ op a b, IsBoolOut (f.cmp op a b)) :
    ∀ a b, IsBoolOut (cmpVals.ord f op a b) := by
  intro a b
  unfold cmpVals.ord
  split
  · exact isBoolOut_ofBool _
  · exact isBoolOut_ofBool _
  · exact ordList_bool f op hf _ _
  · exact isBoolOut_ofBool _
  · split
    · split
      · exact isBoolOut_ofBool _
      · exact hf _ _ _
    · exact isBoolOut_err (by simp)
theorem ordList_bool (f : FloatOps) (op : Cmp) (hf : ∀ op a b, IsBoolOut (f.cmp op a b)) :
    ∀ as bs, IsBoolOut (cmpVals.ordList f op as bs) := by
  intro as bs
  unfold cmpVals.ordList
  split
  · exact isBoolOut_ofBool _
  · exact isBoolOut_ofBool _
  · exact isBoolOut_ofBool _
  · split
    · exact ordList_bool f op hf _ _
    · exact ord_bool f op hf _ _
end

theorem cmpVals_bool (f : FloatOps) (op : Cmp) (hf : ∀ op a b, IsBoolOut (f.cmp op a b)) (a b : Val) :
    IsBoolOut (cmpVals f op a b) := by
  unfold cmpVals
  cases op <;> first | exact isBoolOut_ofBool _ | exact ord_bool f _ hf _ _

theorem isInVals_bool (f : FloatOps) (m c : Val) : IsBoolOut (isInVals f m c) := by
  intro v h
  unfold isInVals at h
  repeat' split at h
  all_goals first | (simp at h; done) | (simp [Out.ofBool] at h; exact ⟨_, h.symm⟩)

theorem quantLoop_bool (fo : FloatOps) (isAny : Bool) (f : Val → Out) :
    ∀ items : List Val, IsBoolOut (quantLoop fo isAny f items)
  | [] => by unfold quantLoop; exact isBoolOut_ofBool _
  | x :: xs => by
    unfold quantLoop
    cases hf : f x with
    | val v => simp only; split; exact isBoolOut_ofBool _; exact quantLoop_bool fo isAny f xs
    | _ => exact isBoolOut_err (by simp)

theorem rangeLoop_bool (fo : FloatOps) (isAny : Bool) (f : Val → Out) :
    ∀ (n : Nat) (s : Int), IsBoolOut (rangeLoop fo isAny f s n)
  | 0, _ => by unfold rangeLoop; exact isBoolOut_ofBool _
  | n + 1, s => by
    unfold rangeLoop
    cases hf : f (.int s) with
    | val v => simp only; split; exact isBoolOut_ofBool _; exact rangeLoop_bool fo isAny f n (s + 1)
    | _ => exact isBoolOut_err (by simp)

theorem evalGen_err_not_val (ρ : Env) (g : Gen) (o : Out) (h : evalGen ρ g = .err o) : ∀ v, o ≠ .val v := by
  cases g with
  | forEach x it =>
    simp only [evalGen] at h
    cases he : eval ρ it with
    | val iv =>
      simp only [he] at h
      cases hi : iterItems iv <;> simp [hi] at h
      subst h; simp
    | _ => simp [he] at h; subst h; simp
  | forRange x a b =>
    simp only [evalGen] at h
    cases ha : eval ρ a with
    | val av =>
      simp only [ha] at h
      cases hb : eval ρ b with
      | val bv =>
        simp only [hb] at h
        cases hra : rangeArg av <;> cases hrb : rangeArg bv <;> simp only [hra, hrb] at h
        all_goals first | (cases h; simp) | (simp at h)
      | _ => simp [hb] at h; subst h; simp
    | _ => simp [ha] at h; subst h; simp

mutual
theorem bool_result (ρ : Env) (hf : ∀ op a b, IsBoolOut (ρ.fops.cmp op a b)) :
    ∀ e : Expr, boolForm e = true → IsBoolOut (eval ρ e)
  | .cmp l op r, _ => by
    simp only [eval]
    cases eval ρ l with
    | val lv =>
      cases eval ρ r with
      | val rv => exact cmpVals_bool _ _ hf _ _
      | _ => exact isBoolOut_err (by simp)
    | _ => exact isBoolOut_err (by simp)
  | .isIn m c, _ => by
    simp only [eval]
    cases eval ρ m with
    | val lv =>
      cases eval ρ c with
      | val rv => exact isInVals_bool _ _ _
      | _ => exact isBoolOut_err (by simp)
    | _ => exact isBoolOut_err (by simp)
  | .isNone e, _ => by
    simp only [eval]
    cases eval ρ e with
    | val v => cases v <;> exact isBoolOut_ofBool _
    | _ => exact isBoolOut_err (by simp)
  | .isNotNone e, _ => by
    simp only [eval]
    cases eval ρ e with
    | val v => cases v <;> exact isBoolOut_ofBool _
    | _ => exact isBoolOut_err (by simp)
  | .not e, _ => by
    simp only [eval]
    cases eval ρ e with
    | val v => exact isBoolOut_ofBool _
    | _ => exact isBoolOut_err (by simp)
  | .any g c, _ => by
    simp only [eval]
    cases hg : evalGen ρ g with
    | items x items => exact quantLoop_bool _ _ _ _
    | range x s n => exact rangeLoop_bool _ _ _ _ _
    | err o => exact isBoolOut_err (evalGen_err_not_val ρ g o hg)
  | .all g c, _ => by
    simp only [eval]
    cases hg : evalGen ρ g with
    | items x items => exact quantLoop_bool _ _ _ _
    | range x s n => exact rangeLoop_bool _ _ _ _ _
    | err o => exact isBoolOut_err (evalGen_err_not_val ρ g o hg)
  | .const (.bool b), _ => by
    simp only [eval, constVal]
    intro v h; simp at h; exact ⟨b, h.symm⟩
  | .and es, h => by
    simp only [boolForm] at h
    simp only [eval]
    exact and_bool ρ hf es h
  | .or es, h => by
    simp only [boolForm] at h
    simp only [eval]
    exact or_bool ρ hf es h
  | .impl a c, h => by
    simp only [boolForm] at h
    simp only [eval]
    cases eval ρ a with
    | val av => simp only; split; exact bool_result ρ hf c h; exact isBoolOut_ofBool _
    | _ => exact isBoolOut_err (by simp)
  | .const (.int _), h | .const (.float _), h | .const (.str _), h => by simp [boolForm] at h
  | .member .., h | .index .., h | .methodCall .., h | .name .., h | .funCall .., h
  | .add .., h | .sub .., h | .joinedStr .., h => by simp [boolForm] at h
theorem and_bool (ρ : Env) (hf : ∀ op a b, IsBoolOut (ρ.fops.cmp op a b)) :
    ∀ es : List Expr, boolFormAll es = true → IsBoolOut (evalAnd ρ es)
  | [], _ => by simp only [evalAnd]; exact isBoolOut_err (by simp)
  | [e], h => by
    simp only [boolFormAll, Bool.and_eq_true] at h
    simp only [evalAnd]
    exact bool_result ρ hf e h.1
  | e :: e2 :: es, h => by
    simp only [boolFormAll, Bool.and_eq_true] at h
    have he := bool_result ρ hf e h.1
    simp only [evalAnd]
    cases hev : eval ρ e with
    | val v =>
      simp only
      split
      · exact and_bool ρ hf (e2 :: es) (by simp [boolFormAll, h.2])
      · rw [hev] at he; exact he
    | _ => exact isBoolOut_err (by simp)
theorem or_bool (ρ : Env) (hf : ∀ op a b, IsBoolOut (ρ.fops.cmp op a b)) :
    ∀ es : List Expr, boolFormAll es = true → IsBoolOut (evalOr ρ es)
  | [], _ => by simp only [evalOr]; exact isBoolOut_err (by simp)
  | [e], h => by
    simp only [boolFormAll, Bool.and_eq_true] at h
    simp only [evalOr]
    exact bool_result ρ hf e h.1
  | e :: e2 :: es, h => by
    simp only [boolFormAll, Bool.and_eq_true] at h
    have he := bool_result ρ hf e h.1
    simp only [evalOr]
    cases hev : eval ρ e with
    | val v =>
      simp only
      split
      · rw [hev] at he; exact he
      · exact or_bool ρ hf (e2 :: es) (by simp [boolFormAll, h.2])
    | _ => exact isBoolOut_err (by simp)
end

end AasVerif.Expr
