import AasVerif.Lemmas.Fix16Range
/-!
The generic part of the preservation proof: `Good b M M'` says that the matcher `M'` on UTF-16
code units agrees with the matcher `M` on code points at every *aligned* position of a
well-formed text, and that `M'` started at an aligned position only stops at aligned positions.
It is closed under sequencing, repetition and (member-wise) union; the leaves are in
`Lemmas/Fix16Leaves.lean`.
-/
namespace AasVerif.Fix16
open AasVerif.Retree

abbrev Matcher := Text → Text → Text → Prop

/-- `M'` (code units) simulates `M` (code points) at aligned positions of well-formed text.
`b = true` restricts the text to the Basic Multilingual Plane. -/
def Good (b : Bool) (M M' : Matcher) : Prop :=
  ∀ pre rest u post', Ok b pre rest → utf16 rest = u ++ post' →
    (M' (utf16 pre) u post' ↔
      ∃ s post, rest = s ++ post ∧ u = utf16 s ∧ post' = utf16 post ∧ M pre s post)

theorem Good.congr {b : Bool} {M M' N N' : Matcher}
    (h1 : ∀ p s q, M p s q ↔ N p s q) (h2 : ∀ p s q, M' p s q ↔ N' p s q)
    (h : Good b M M') : Good b N N' := by
  intro pre rest u post' hok hu
  rw [← h2]
  simp only [← h1]
  exact h pre rest u post' hok hu

/-- Sequencing of two matchers (a term followed by the rest of a concatenation, one repetition
followed by the remaining ones). -/
def Seq (M N : Matcher) : Matcher :=
  fun pre s post => ∃ s₁ s₂, s = s₁ ++ s₂ ∧ M pre s₁ (s₂ ++ post) ∧ N (pre ++ s₁) s₂ post

theorem Good.seq {b : Bool} {M M' N N' : Matcher} (hM : Good b M M') (hN : Good b N N') :
    Good b (Seq M N) (Seq M' N') := by
  intro pre rest u post' hok hu
  constructor
  · rintro ⟨u₁, u₂, rfl, h1, h2⟩
    have hu' : utf16 rest = u₁ ++ (u₂ ++ post') := by simpa using hu
    obtain ⟨s₁, post₁, rfl, rfl, hp1, hm⟩ := (hM pre rest u₁ (u₂ ++ post') hok hu').mp h1
    have hok2 : Ok b (pre ++ s₁) post₁ := hok.shift
    rw [← utf16_append] at h2
    obtain ⟨s₂, post, rfl, rfl, rfl, hn⟩ := (hN (pre ++ s₁) post₁ u₂ post' hok2 hp1.symm).mp h2
    exact ⟨s₁ ++ s₂, post, by simp, by simp [utf16_append], rfl, s₁, s₂, rfl, hm, hn⟩
  · rintro ⟨s, post, rfl, rfl, rfl, s₁, s₂, rfl, hm, hn⟩
    have hok1 : Ok b pre (s₁ ++ (s₂ ++ post)) := by simpa using hok
    refine ⟨utf16 s₁, utf16 s₂, utf16_append _ _, ?_, ?_⟩
    · have := (hM pre (s₁ ++ (s₂ ++ post)) (utf16 s₁) (utf16 (s₂ ++ post)) hok1
        (utf16_append _ _)).mpr ⟨s₁, s₂ ++ post, rfl, rfl, rfl, hm⟩
      simpa [utf16_append] using this
    · have := (hN (pre ++ s₁) (s₂ ++ post) (utf16 s₂) (utf16 post) hok1.shift
        (utf16_append _ _)).mpr ⟨s₂, post, rfl, rfl, rfl, hn⟩
      simpa [utf16_append] using this

/-- The matcher of the empty concatenation. -/
theorem Good.nil {b : Bool} : Good b (MTerms []) (MTerms []) := by
  intro pre rest u post' _ hu
  simp only [MTerms_nil_iff]
  constructor
  · rintro rfl
    exact ⟨[], rest, rfl, rfl, by simpa using hu.symm, rfl⟩
  · rintro ⟨s, post, rfl, rfl, rfl, rfl⟩
    rfl

theorem Good.terms_append {b : Bool} {ts₁ ts₂ ts₁' ts₂' : List Term}
    (h1 : Good b (MTerms ts₁) (MTerms ts₁')) (h2 : Good b (MTerms ts₂) (MTerms ts₂')) :
    Good b (MTerms (ts₁ ++ ts₂)) (MTerms (ts₁' ++ ts₂')) :=
  (h1.seq h2).congr (fun _ _ _ => MTerms_append_iff.symm) (fun _ _ _ => MTerms_append_iff.symm)

/-- Repetition: both directions by induction over the derivation of `MRep`. -/
theorem Good.rep {b : Bool} {v v' : Value} (h : Good b (MValue v) (MValue v'))
    (mn : Nat) (mx : Option Nat) : Good b (MRep v mn mx) (MRep v' mn mx) := by
  intro pre rest u post' hok hu
  constructor
  · intro hr
    have key : ∀ {w : Value} {mn : Nat} {mx : Option Nat} {p u post' : Text},
        MRep w mn mx p u post' → w = v' → ∀ pre rest, p = utf16 pre → Ok b pre rest →
          utf16 rest = u ++ post' →
          ∃ s post, rest = s ++ post ∧ u = utf16 s ∧ post' = utf16 post ∧ MRep v mn mx pre s post := by
      intro w mn mx p u post' hr
      refine MRep.induct (P := fun w mn mx p u post' => w = v' → ∀ pre rest, p = utf16 pre →
        Ok b pre rest → utf16 rest = u ++ post' →
        ∃ s post, rest = s ++ post ∧ u = utf16 s ∧ post' = utf16 post ∧ MRep v mn mx pre s post)
        ?_ ?_ hr
      · intro w mx p post' _ pre rest _ _ hu
        exact ⟨[], rest, rfl, rfl, by simpa using hu.symm, .done v mx pre rest⟩
      · intro w mn mx p u₁ u₂ post' h0 hv _ ih hw pre rest hp hok hu
        subst hw hp
        have hu' : utf16 rest = u₁ ++ (u₂ ++ post') := by simpa using hu
        obtain ⟨s₁, post₁, rfl, rfl, hp1, hm⟩ := (h pre rest u₁ (u₂ ++ post') hok hu').mp hv
        obtain ⟨s₂, post, rfl, rfl, rfl, hn⟩ :=
          ih rfl (pre ++ s₁) post₁ (utf16_append _ _).symm hok.shift hp1.symm
        exact ⟨s₁ ++ s₂, post, by simp, by simp [utf16_append], rfl,
          .more v mn mx pre s₁ s₂ post h0 hm hn⟩
    exact key hr rfl pre rest rfl hok hu
  · rintro ⟨s, post, rfl, rfl, rfl, hr⟩
    have key : ∀ {w : Value} {mn : Nat} {mx : Option Nat} {pre s post : Text},
        MRep w mn mx pre s post → w = v → Ok b pre (s ++ post) →
          MRep v' mn mx (utf16 pre) (utf16 s) (utf16 post) := by
      intro w mn mx pre s post hr
      refine MRep.induct (P := fun w mn mx pre s post => w = v → Ok b pre (s ++ post) →
        MRep v' mn mx (utf16 pre) (utf16 s) (utf16 post)) ?_ ?_ hr
      · intro w mx pre post _ _
        exact .done v' mx _ _
      · intro w mn mx pre s₁ s₂ post h0 hv _ ih hw hok
        subst hw
        have hok1 : Ok b pre (s₁ ++ (s₂ ++ post)) := by simpa using hok
        have hv' := (h pre (s₁ ++ (s₂ ++ post)) (utf16 s₁) (utf16 (s₂ ++ post)) hok1
          (utf16_append _ _)).mpr ⟨s₁, s₂ ++ post, rfl, rfl, rfl, hv⟩
        have hr' := ih rfl hok1.shift
        rw [utf16_append] at hv' hr'
        rw [utf16_append]
        exact .more v' mn mx _ _ _ _ h0 hv' hr'
    exact key hr rfl hok

/-- A term from its value. -/
theorem Good.term {b : Bool} {v v' : Value} (h : Good b (MValue v) (MValue v')) (q : Option Quant) :
    Good b (MTerms [.mk v q]) (MTerms [.mk v' q]) := by
  cases q with
  | none =>
    exact h.congr (fun _ _ _ => by rw [MTerms_single_iff, MTerm_plain_iff])
      (fun _ _ _ => by rw [MTerms_single_iff, MTerm_plain_iff])
  | some q =>
    exact (h.rep q.min q.max).congr (fun _ _ _ => by rw [MTerms_single_iff, MTerm_quant_iff])
      (fun _ _ _ => by rw [MTerms_single_iff, MTerm_quant_iff])

theorem Good.group {b : Bool} {u u' : Union} (h : Good b (MUnion u) (MUnion u')) :
    Good b (MValue (.group u)) (MValue (.group u')) :=
  h.congr (fun _ _ _ => MValue_group_iff.symm) (fun _ _ _ => MValue_group_iff.symm)

/-- Union, member-wise. -/
theorem Good.union {b : Bool} {us us' : List Concat}
    (h1 : ∀ ts', Concat.mk ts' ∈ us' → ∃ ts, Concat.mk ts ∈ us ∧ Good b (MTerms ts) (MTerms ts'))
    (h2 : ∀ ts, Concat.mk ts ∈ us → ∃ ts', Concat.mk ts' ∈ us' ∧ Good b (MTerms ts) (MTerms ts')) :
    Good b (MUnion (.mk us)) (MUnion (.mk us')) := by
  intro pre rest u post' hok hu
  simp only [MUnion_iff]
  constructor
  · rintro ⟨ts', hm', ht'⟩
    obtain ⟨ts, hm, hg⟩ := h1 ts' hm'
    obtain ⟨s, post, e1, e2, e3, ht⟩ := (hg pre rest u post' hok hu).mp ht'
    exact ⟨s, post, e1, e2, e3, ts, hm, ht⟩
  · rintro ⟨s, post, e1, e2, e3, ts, hm, ht⟩
    obtain ⟨ts', hm', hg⟩ := h2 ts hm
    exact ⟨ts', hm', (hg pre rest u post' hok hu).mpr ⟨s, post, e1, e2, e3, ht⟩⟩

end AasVerif.Fix16
